"""Per-property configuration for bin/check."""

COMMON_TB = [
    "Lean 4.33.0 kernel (+ leanchecker re-check in the thorough tier)",
    "axioms allowed: propext, Classical.choice, Quot.sound (audited with #print axioms on every property theorem; no sorry/native_decide/bv_decide/axiom)",
    "correspondence harness /verif/harness (Go, in-process calls into /repo built with -tags verif), its generators, and the comparer bin/check",
    "model driver glue GoBT/Driver/*.lean (line parsing/printing)",
]

def _c01_nontrivial(op, impl):
    # an op is non-trivial when it involves at least one input or output (structured ops)
    # or decodes/rejects a byte string of at least 11 bytes (byte-string ops)
    k, _, rest = op.partition(" ")
    if k in ("C01.ser", "C01.clone", "C01.txid"):
        return "in=;out=" not in rest
    return len(rest) >= 22

PROPS = {
    "C01": {
        "generators": ["C01"],
        "thorough_seeds": 3,
        "rule": "structured transactions with script lengths/counts on varint boundaries (0,1,252,253,254,65535,65536), edge field values, nil/empty scripts; byte strings = valid serialisations, every truncation, bit flips, non-minimal varints at each prefix position, spliced extended markers, concatenated streams, counted lists, random bytes. Non-trivial = structured op with >=1 input or output, or byte-string op of >=11 bytes; distinct = distinct op line.",
        "nontrivial": _c01_nontrivial,
        "trusted_base": COMMON_TB + ["SHA-256 is modelled by an executable Lean implementation validated on vectors, not verified (only the txid clause depends on it)"],
        "assumptions": ["Go's encoding/binary, bytes.Reader and io.ReadFull behave as modelled (readN/leEnc/leDec)",
                        "field ranges: uint32/uint64 fields, lengths < 2^64 (Tx.wf)"],
    },
}
