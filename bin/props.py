"""Per-property configuration for bin/check."""

COMMON_TB = [
    "Lean 4.33.0 kernel (+ leanchecker re-check in the thorough tier)",
    "axioms allowed: propext, Classical.choice, Quot.sound (audited with #print axioms on every property theorem; no sorry/native_decide/bv_decide/axiom)",
    "correspondence harness /verif/harness (Go, in-process calls into /repo built with -tags verif), its generators, and the comparer bin/check",
    "model driver glue GoBT/Driver/*.lean (line parsing/printing)",
]

def _c01_nontrivial(op, impl):
    # an op is non-trivial when it involves at least one input or output (structured ops)
    # or decodes/rejects a byte string of at least 11 bytes (byte-string ops)
    k, _, rest = op.partition(" ")
    if k in ("C01.ser", "C01.clone", "C01.txid"):
        return "in=;out=" not in rest
    return len(rest) >= 22

def _sh_nontrivial(op, impl):
    # non-trivial: a preimage was produced for a transaction with >= 2 inputs, or a node vector was checked
    k, _, rest = op.partition(" ")
    if k == "SH.vec":
        return True
    return impl.startswith("ok") and rest.count(",") >= 1

PROPS = {
    "C01": {
        "manifest": {
            "text": "Lean 4 theorems over a model of Tx.ReadFrom/toBytesHelper/Clone/Txs.ReadFrom (round trips in both formats for all well-formed transactions, canonical re-serialisation of every accepted byte string with minimal prefixes, exact consumption incl. counted lists); the model is tied to the code on every run by a differential correspondence check that also evaluates the property predicate on the implementation's own output.",
            "note": "Trusted: Lean kernel, axioms propext/Classical.choice/Quot.sound, harness+generators+comparer, driver glue; SHA-256 executable model validated on vectors only.",
        },
        "gen_obligations": ["lib_writes_only_fresh_buffers"],
        "witness": [("GoBT.Script.WriteReviewLib", "GoBT.Script.WriteReviewLib.offendingFor \"C01\"")],
        "generators": ["C01"],
        "thorough_seeds": 3,
        "rule": "structured transactions with script lengths/counts on varint boundaries (0,1,252,253,254,65535,65536), edge field values, nil/empty scripts; byte strings = valid serialisations, every truncation, bit flips, non-minimal varints at each prefix position, spliced extended markers, concatenated streams, counted lists, random bytes. Non-trivial = structured op with >=1 input or output, or byte-string op of >=11 bytes; distinct = distinct op line.",
        "nontrivial": _c01_nontrivial,
        "trusted_base": COMMON_TB + ["SHA-256 is modelled by an executable Lean implementation validated on vectors, not verified (only the txid clause depends on it)"],
        "assumptions": ["Go's encoding/binary, bytes.Reader and io.ReadFull behave as modelled (readN/leEnc/leDec)",
                        "field ranges: uint32/uint64 fields, lengths < 2^64 (Tx.wf)"],
    },
    "C02": {
        "caller_memory_clause": True,
        "manifest": {
            "text": "Lean 4 theorems: the model of CalcInputPreimage equals the ten-item BSV replay-protected digest specification for every transaction, index and hash-type byte; exactly the three error cases are errors, in order; the digest is the double hash of the preimage (a FORKID preimage is never 32 bytes); ANYONECANPAY/NONE independence lemmas. The specification is validated on every run against the 500 node-generated BIP143 vectors shipped in the repository; the model is tied to the code by a differential check over all 128 FORKID hash types x generated shapes, which also compares the implementation's output with the specification directly and checks the transaction is unchanged.",
            "note": "Trusted: Lean kernel + standard axioms, harness/generators/comparer, driver glue. SHA-256 is a parameter of the theorems and an executable model (validated on vectors) in the driver.",
        },
        "witness": [("GoBT.Script.WriteReviewLib", "GoBT.Script.WriteReviewLib.offendingFor \"C02\"")],
        "generators": ["C02"],
        "gen_obligations": ["lib_writes_only_fresh_buffers", "sighash_consts_match"],
        "thorough_seeds": 2,
        "rule": "transaction shapes 1..6 inputs x 0..6 outputs (every fifth shape has more inputs than outputs), script lengths on varint boundaries, edge amounts, nil previous scripts, odd-length txids; all 128 hash types with bit 0x40 on the first and last index and a sample on a random index, index = len and 2^32-1; plus the 500 shipped node vectors run through the specification. Non-trivial = a preimage was produced for a transaction with >= 2 inputs, or a node vector; distinct = distinct op line.",
        "nontrivial": _sh_nontrivial,
        "trusted_base": COMMON_TB + ["double SHA-256 is a parameter of every theorem; the driver instantiates it with an executable Lean SHA-256 validated on vectors"],
        "assumptions": ["the BSV digest specification is transcribed correctly in bip143Spec (validated against 500 node-generated vectors with amount 0)"],
    },
    "C03": {
        "caller_memory_clause": True,
        "manifest": {
            "text": "Lean 4 theorems: the model of CalcInputPreimageLegacy (clone, blank, truncate, re-serialise; built on the C01 clone theorem) equals the original Satoshi serialisation for every well-formed transaction, in-range index and hash-type byte; SINGLE without a matching output yields the constant 1 un-hashed; every other legacy preimage is longer than 32 bytes so the shortcut never fires falsely. The specification is validated against the 500 node-generated legacy vectors shipped in the repository; the model is tied to the code by a differential check over all 128 non-FORKID hash types x generated shapes, including the comparison of the implementation's output with the specification and an unchanged-transaction check.",
            "note": "Trusted: Lean kernel + standard axioms, harness/generators/comparer, driver glue; SHA-256 executable model validated on vectors.",
        },
        "witness": [("GoBT.Script.WriteReviewLib", "GoBT.Script.WriteReviewLib.offendingFor \"C03\"")],
        "generators": ["C03"],
        "gen_obligations": ["lib_writes_only_fresh_buffers", "sighash_consts_match"],
        "thorough_seeds": 2,
        "rule": "as C02 with the 128 hash types without bit 0x40, inputs with/without unlocking scripts, SINGLE with index >= number of outputs, ANYONECANPAY with NONE; plus the 500 shipped legacy node vectors (code separators stripped). Non-trivial = a preimage was produced for a transaction with >= 2 inputs, or a node vector.",
        "nontrivial": _sh_nontrivial,
        "trusted_base": COMMON_TB + ["double SHA-256 executable model validated on vectors"],
        "assumptions": ["the original algorithm is transcribed correctly in satoshiSpec (validated against 500 node-generated vectors)", "32-byte previous txids (Tx.wf), as the property states"],
    },
    "C13": {
        "manifest": {
            "text": "Lean 4 theorems: EncodeParts/DecodeParts round trip for all non-empty items < 2^32 bytes with the shortest push form; Unparse(Parse s) = s for every script the interpreter's parser accepts (incl. the unformatted-data pseudo-opcode after a top-level OP_RETURN); the parser with the OP_RETURN rule off is the same automaton as DecodeParts (same acceptance, same push boundaries, truncated pushes are errors for both) and the rule cannot fire without an OP_RETURN byte; hex round trip; the regenerated opcode-name tables are mutually inverse, every name starts with OP_, and the parser's length function equals the regenerated opcodeArray length column (kernel-evaluated on every run). Tied to the code by a differential check (all byte strings up to 2/3 bytes, every cut of generated scripts, OP_RETURN tails 0..5 bytes, push boundaries) that also evaluates the round-trip/agreement predicates on the implementation's own outputs.",
            "note": "Trusted: Lean kernel + standard axioms, the extractor (go/packages + go/types constant evaluation), harness/generators/comparer, driver glue incl. splitting ASM on spaces. The ASM round trip is checked by correspondence + table theorems; its end-to-end theorem is not yet proved (partial for that clause).",
            "technique": "Lean 4 proof over hand-written model + regenerated opcode tables + differential correspondence check",
        },
        "witness": [("GoBT.Script.WriteReviewLib", "GoBT.Script.WriteReviewLib.offendingFor \"C13\"")],
        "generators": ["C13"],
        "thorough_seeds": 2,
        "gen_obligations": ["lib_writes_only_fresh_buffers", "opLength_matches_table", "asm_tables_inverse", "asm_names_prefixed", "TableFacts.asm_names_first_char", "TableFacts.asm_names_nonempty"],
        "rule": "item lists with lengths {1,2,3,74..77,254..257,520,521,(65535..65537)}, every one-byte item, random lists; all byte strings of length <= 2 (quick) / a 3-byte sweep (thorough) through both tokenisers and ASM; every cut position of generated well-formed scripts; raw tails of 0,1,2,3,4,5,40 bytes after a top-level OP_RETURN; OP_RETURN inside conditionals; every opcode alone and in context through ASM. Non-trivial = script/item list of >= 2 bytes.",
        "nontrivial": lambda op, impl: len(op.partition(" ")[2]) >= 4,
        "trusted_base": COMMON_TB + ["fact extractor /verif/extract (opcode tables, constants)"],
        "assumptions": ["encoding/hex and encoding/json behave as modelled; strings.Split on single spaces"],
    },
    "C14": {
        "manifest": {
            "text": "Lean 4 theorems over a model of bscript/script.go in which every Go index expression is an explicit partial lookup whose failure is the run-time panic: no inspection query (ScriptType, IsP2PK, IsMultiSigOut, IsP2PKHInscription, PublicKeyHash, ParseInscription) panics for any byte string; a script is typed P2PKH iff it is exactly the 25-byte template; typed data only with the OP_RETURN / OP_FALSE OP_RETURN prefix; undecodable scripts are never typed pubkey/multisig/inscription. The model is tied to the code by a differential check (all strings <= 2/3 bytes, every byte mutation / truncation / removal / part replacement incl. zero-length PUSHDATA of each standard template, through every query and json.Marshal(tx.NodeJSON())), whose predicate checks on the implementation's own answers that templates recognised by independent exact recognisers are reported as their type.",
            "note": "Trusted: Lean kernel + standard axioms, harness/generators/comparer, driver glue and the independent template recognisers of the predicate. 'Template instance is reported as its type' for P2PK/multisig/inscription is decided by the correspondence predicate, not yet by a theorem (partial for that clause).",
        },
        "witness": [("GoBT.Script.IndexReviewLib", "GoBT.Script.unreviewed GoBT.Gen.IndexingBscript.sites GoBT.Script.indexReviewBscript GoBT.Script.reviewedSitesBscript")],
        "generators": ["C14", "FZ14"],
        "gen_obligations": ["index_sites_reviewed_bscript"],
        "thorough_seeds": 2,
        "rule": "all byte strings of length <= 2 (quick) / 3-byte sweep (thorough); instances of the five standard templates and, for each, every single-byte mutation, special-byte substitution, truncation, byte removal and part replacement by zero-length PUSHDATA1/2/4, OP_0, truncated push or nothing; zero-length PUSHDATA forms in every position of short part sequences; 13+-part sequences of empty parts; random strings. Non-trivial = script of >= 2 bytes.",
        "nontrivial": lambda op, impl: len(op.partition(" ")[2]) >= 4,
        "trusted_base": COMMON_TB,
        "assumptions": ["encoding/json marshalling of the node output wrapper only calls ToASM, Addresses, ScriptType and hex on the script (read from txjson_node.go)"],
    },
    "C10": {
        "manifest": {
            "text": "Lean 4 theorems over a model of Tx.change and its wrappers: inputs/version/locktime and every pre-existing output are untouched (only the designated output's value changes for an existing-output destination); outputs never exceed inputs; when change goes to a new non-data output the fee left equals exactly the quoted fee for the estimated final size of the resulting transaction (so it never underpays and the slack is zero), proved through the size algebra |serialize(tx+output)| and UpperLimitInc = growth of the count prefix; when no change is added the transaction is unchanged and the remainder after the change fee is at or below dust (or the output counter is at 2^64-1). Tied to the code by a differential check with amounts enumerated around every threshold, which also evaluates the property's four clauses on the implementation's own result using an independently computed quote.",
            "note": "Trusted: Lean kernel + standard axioms, harness/generators/comparer, driver glue. Assumes sums of satoshis < 2^64 (no wrap-around), positive byte denominators, non-data change scripts, as the property states. For the existing-output destination the equality with the quoted fee of the *result* is decided by the correspondence predicate (the theorem gives the fee computed from the pre-change estimate).",
        },
        "generators": ["C10"],
        "gen_obligations": ["dust_limit_matches"],
        "thorough_seeds": 2,
        "rule": "P2PKH / inscription funded transactions with 1..4 inputs (unsigned, empty or 100..108-byte unlocking scripts), 0..6 outputs and output counts 251..254, data outputs; nine fee quotes incl. rates above 1 sat/byte and unequal standard/data rates and denominators; destinations: new scripts of 1, 25, 26, 200, 253 bytes and inscriptions, existing index incl. out of range; amounts placed at fee-3 .. fee+100000 and around the fee-with-change threshold. Non-trivial = change operation returned ok.",
        "nontrivial": lambda op, impl: impl.startswith("ok"),
        "trusted_base": COMMON_TB,
        "assumptions": ["satoshi sums < 2^64", "fee quote byte denominators > 0 and non-negative satoshi fields"],
    },
    "C11": {
        "manifest": {
            "text": "Lean 4 theorems: total = serialised length = standard + data bytes with data = script bytes of outputs starting with OP_RETURN / OP_FALSE OP_RETURN; fee = floor(std x rate) + floor(data x rate); IsFeePaidEnough is true iff outputs <= inputs and inputs - outputs >= fee; estimation fails on a missing or unsupported previous script; the estimate (clone + regenerated 107-byte dummy, length checked by kernel evaluation on every run) is >= the size after filling every empty unlocking script with any script of <= 107 bytes. Tied to the code by a differential check (sizes, estimates, fees, predicates, deficits, error classes) and by signing generated transactions with the library's signer and comparing real signed sizes with the estimate.",
            "note": "Trusted: Lean kernel + standard axioms, extractor (dummy literal), harness/generators/comparer, driver glue. That go-bk signatures + compressed key yield unlocking scripts of <= 107 bytes is an assumption sampled by the harness (max length recorded in the evidence), not proved.",
        },
        "generators": ["C11"],
        "thorough_seeds": 2,
        "gen_obligations": ["dummy_length"],
        "rule": "transactions mixing P2PKH/arbitrary/data outputs (OP_RETURN and OP_FALSE OP_RETURN, empty and large), inputs with missing/unsupported/P2PK/inscription previous scripts, unsigned/empty/signed-size unlocking scripts, nine fee quotes, input amounts steered to fee-2..fee+2; plus transactions signed by the library with derived keys. Non-trivial = op whose estimate succeeded.",
        "nontrivial": lambda op, impl: "est=ok" in impl or "signed=" in impl,
        "trusted_base": COMMON_TB + ["fact extractor /verif/extract (dummy unlocking script literal)"],
        "assumptions": ["library-made P2PKH unlocking scripts are at most 107 bytes (go-bk DER low-S signature <= 72 bytes + hash type byte, 33-byte key)"],
    },
    "C12": {
        "manifest": {
            "text": "Lean 4 theorems by induction over supplier histories (sequences of batches / exhaustion / error): on success the inputs are the previous inputs followed by every UTXO of the consumed batches in order with the supplier's txid, index, value, script and sequence 0xFFFFFFFF, the estimated deficit of the result is zero, the supplier was called once per consumed batch and only with a positive deficit, each call carrying the deficit of the transaction as extended so far; exhaustion with a remaining deficit is insufficient-funds; outputs/version/locktime are untouched in every case incl. an invalid txid mid-batch. Tied to the code by driving tx.Fund with an instrumented supplier replaying generated histories and comparing outcome, recorded deficits and resulting transaction.",
            "note": "Trusted: Lean kernel + standard axioms, harness/generators/comparer, driver glue. The deficit estimator is a parameter of the induction (instantiated with the C11 model).",
        },
        "generators": ["C12"],
        "thorough_seeds": 2,
        "rule": "starting transactions with 0..2 inputs and 0..4 outputs incl. data outputs; histories of 0..5 responses: empty batch, 1..3 UTXOs of 0..30000 sat, exhaustion, supplier error, UTXO with 31-byte txid, nil or non-P2PKH script; nine fee quotes. Non-trivial = at least one supplier call.",
        "nontrivial": lambda op, impl: "calls=-" not in impl,
        "trusted_base": COMMON_TB,
        "assumptions": ["the supplier is a function of the call sequence only (history model)"],
    },
    "C09": {
        "manifest": {
            "text": "Lean 4 theorems: every binary decoder of the model (Tx.ReadFrom / NewTxFromStream, Txs.ReadFrom, Input.ReadFrom / ReadFromExtended, Output.ReadFrom, VarInt.ReadFrom) is a total function that on success consumes a prefix of its input and on failure reports a byte count <= the bytes supplied (Go's bytesRead accounting is carried on the error path); the chunked reader requests at most available + one chunk of memory whatever length the prefix claims (chunk size regenerated from the source); node-JSON decoding of absent/null scriptSig, scriptPubKey and array elements is an error and a decoded input has a 32-byte txid. Tied to the code by a differential check over every truncation and bit flips of seed transactions, crafted prefixes claiming 2^16..2^64-1 elements with 0..64 bytes following (each run in a memory-limited child process, allocation measured), all decoding entry points incl. a one-byte-at-a-time reader, node-JSON shapes and a JSON grammar through nine JSON entry points.",
            "note": "Partial for memory: the allocation theorem is about a ghost model of bt.readBytes that is not tied by correspondence; the real allocator is only measured (TotalAlloc <= 64*len + 1 MiB per decode). encoding/json itself is modelled (shapes after decoding), not verified. Trusted: Lean kernel + standard axioms, harness/generators/comparer, driver glue.",
            "technique": "Lean 4 proof over hand-written model + differential correspondence check + measured allocation in isolated child processes",
        },
        "witness": [("GoBT.Script.IndexReviewLib", "GoBT.Script.unreviewed GoBT.Gen.IndexingBt.sites GoBT.Script.indexReviewBt GoBT.Script.reviewedSitesBt")],
        "generators": ["C09", "FZ09", "FZ09c"],
        "thorough_seeds": 1,
        "gen_obligations": ["chunk_matches_source", "index_sites_reviewed_bt"],
        "rule": "every truncation of standard and extended serialisations of seed transactions through NewTxFromStream and a one-byte reader; bit flips (isolated); every truncation of inputs and outputs; crafted prefixes: script lengths, input/output/tx counts and extended previous-script lengths claiming {0xfd, 2^16-1, 2^16, 2^20, 2^31, 2^32-1, 2^32, 2^40, 2^62, 2^63, 2^63+1, 2^64-1} with 0/1/7/64 bytes following, minimal and 9-byte varints, through five entry points; random bytes; node-JSON shapes with absent/null/bad-hex fields; 34 JSON atoms x 2 nestings x 9 JSON entry points. Non-trivial = op on >= 5 bytes of input.",
        "nontrivial": lambda op, impl: len(op) >= 24,
        "trusted_base": COMMON_TB + ["runtime.MemStats as the allocation measure"],
        "assumptions": ["encoding/json fills the wrapper structs as modelled (absent object -> nil pointer, null array element -> nil element)"],
    },
    "C16": {
        "manifest": {
            "text": "Lean 4 theorems: both JSON dialects carry the hex of the standard serialisation, and decoding that hex returns a transaction with the identical serialisation for every well-formed transaction incl. nil unlocking scripts (hex round trip of C13 composed with the wire round trip of C01); the node decoder with a hex field is exactly that path; machine-checked counterexamples of the truncating amount conversion (29,000,000 -> 28,999,999; 3 -> 2) and their repair under round-to-nearest, over an executable rational model of IEEE-754 binary64. Tied to the code by a differential check: amounts 0..20,000 (quick) / 0..10^6 (thorough) exhaustively, all k*10^j +- 2, powers of two +- 1, the supply cap, random 51-bit values - comparing the float64 bit pattern and the decoded satoshis - and transactions, outputs and UTXOs (single and lists) in both dialects incl. unsigned inputs.",
            "note": "Partial: the all-amounts theorem (dec(enc n) = n for every n <= 21e14) is not yet proved in this tree - amounts are decided by the exhaustive/boundary correspondence predicate; Go's float64 arithmetic being IEEE round-to-nearest-even and strconv/encoding/json printing floats that parse back to the same double are assumptions exercised by the bit-pattern comparison only.",
            "technique": "Lean 4 proof (structural round trip) + executable IEEE-754 model + differential correspondence check",
        },
        "gen_obligations": ["lib_writes_only_fresh_buffers"],
        "witness": [("GoBT.Script.WriteReviewLib", "GoBT.Script.WriteReviewLib.offendingFor \"C16\"")],
        "generators": ["C16"],
        "thorough_seeds": 1,
        "rule": "amounts: 0..20000 (quick) / 0..10^6 (thorough) exhaustively, k*10^j+d for k<=30, d in -2..2 up to 21e14, 2^p+-1, supply cap and neighbours, random values <= 21e14; transactions with 0..3 inputs (nil/empty/non-empty unlocking scripts) and 0..3 outputs with arbitrary script bytes, in library JSON, node JSON and node JSON lists; outputs and UTXOs in both dialects. Non-trivial = amount >= 1 or a transaction with an input or output.",
        "nontrivial": lambda op, impl: not op.endswith(" 0") and "in=;out=" not in op,
        "trusted_base": COMMON_TB + ["rational model of binary64 rounding (GoBT/Json/Amount.lean), validated bit-for-bit against Go on every run"],
        "assumptions": ["Go float64 division/multiplication are IEEE-754 round-to-nearest-even; JSON float printing round-trips"],
    },
    "C15": {
        "manifest": {
            "text": "Lean 4 theorems: ValidateAddress (25-byte accumulate-and-carry decoder, version, checksum, canonical re-encoding) accepts a string only if it is the Base58Check encoding of version 0x00/0x6f and a 20-byte hash with a correct checksum; the canonical P2PKH script of a 20-byte hash is 25 bytes, is recognised by IsP2PKH and yields the hash back; a machine-checked witness that the script-building path (NewAddressFromString -> NewP2PKHFromAddress / PayToAddress / ChangeToAddress) accepts a wrong checksum (known finding F-C15-01, not repairable without editing the repository's tests). Tied to the code by a differential check: keys x networks through every constructor (agreement, recovery, validation), and for valid addresses every single-character substitution, adjacent transposition, insertion and deletion, leading-1 variants, non-alphabet characters, wrong versions/lengths/checksums, over-long strings congruent to a valid payload modulo 2^200; the predicate compares acceptance by each entry point with an independent Base58Check recogniser.",
            "note": "Partial: base58 Decode(Encode x) = x and the address round trip are exercised by correspondence, not yet proved (base58 bignum arithmetic of go-bk is modelled). SHA-256/RIPEMD-160 are parameters of the theorems and executable validated models in the driver. The clause 'accepted only with a correct checksum' is FALSE for the script-building entry points (known finding).",
        },
        "witness": [("GoBT.Script.WriteReviewLib", "GoBT.Script.WriteReviewLib.offendingFor \"C15\"")],
        "generators": ["C15"],
        "gen_obligations": ["lib_writes_only_fresh_buffers", "version_bytes_match"],
        "thorough_seeds": 1,
        "rule": "random 33-byte keys x both networks through all constructors; for 5 (quick) / 120 (thorough) valid addresses: all 34x57 substitutions (quick: 1 in 4), 33 transpositions, 35x58 insertions (quick: 1 in 6), 34 deletions, extra/missing leading 1, non-alphabet and non-ASCII characters, 6 wrong versions, 4 wrong payload lengths, wrong checksum, 8 wrap-around strings (payload + k*2^200); random base58 strings. plus 60 / 3000 keys x amounts (0, 1, dust, the coin cap, 2^63, 2^64-7..) through the seven transaction-level constructors (C15.out). Non-trivial = string of >= 20 characters or a key op.",
        "nontrivial": lambda op, impl: len(op) >= 48,
        "trusted_base": COMMON_TB + ["go-bk base58 is modelled (Encode/Decode as arithmetic on the big-endian value)", "SHA-256 / RIPEMD-160 executable models validated on vectors"],
        "assumptions": ["ASCII address strings (non-ASCII bytes are exercised but only for rejection)"],
    },
    "C17": {
        "manifest": {
            "text": "Lean 4 theorems over a model of EncodeBIP276/DecodeBIP276 (the regular expression as an explicit splitter at the last colon): layout of the produced text, accepted text is well-formed with the checksum of the canonical payload of the decoded fields (wrong checksum / malformed layout rejected), ValidateAddress accepts a bitcoin-script string iff it decodes; machine-checked witness that the code's field order (network before version) differs from the BIP's (known finding F-C17-01, pinned by the repository's own test). Tied to the code by a differential check over all 65,025 version/network pairs, both prefixes, payload lengths 0/1/2/25/300, random payloads (checksums with leading zero digits), and every single-character corruption, deletion and insertion of valid encodings; the predicate checks round trip, the BIP layout and rejection on the implementation's own output.",
            "note": "Partial: the unbounded round-trip theorem decode(encode b) = b is not yet proved - the round trip is decided exhaustively over all 65,025 field pairs by the correspondence predicate; regexp, fmt and strconv are modelled. The layout clause is violated by the code when version != network (known finding).",
        },
        "generators": ["C17"],
        "thorough_seeds": 1,
        "rule": "all 255x255 (version, network) pairs x prefix (quick: alternating prefix, one payload; thorough: both prefixes x five payload lengths), out-of-range fields, 600/20000 random payloads, and for 12/200 valid encodings every position x 27 replacement characters, deletion and insertion, upper-casing, prefixing, trailing newline. Non-trivial = every op (all carry a non-empty text).",
        "nontrivial": lambda op, impl: True,
        "trusted_base": COMMON_TB + ["SHA-256 executable model validated on vectors"],
        "assumptions": ["Go regexp leftmost-lazy semantics reduce to 'split at the last colon' for this expression (argued in GoBT/Addr/Bip276.lean)"],
    },
    "C04": {
        "manifest": {
            "text": "Lean 4 theorems: a P2PKH spend whose signature verifies for the input's signature hash is accepted by the interpreter model (p2pkh_forkid_signature_accepted / p2pkh_legacy_signature_accepted: symbolic execution of Engine.Execute - option checks, both parsers, seven instructions, final check - for every flag word, transaction context, key and signature); on the digest models of C02/C03: forkid_commits (two signing contexts with the same FORKID preimage agree on version, signed outpoint/sequence, script code, spent value, locktime and the three hashed summaries), forkid_summaries_commit (for a collision-free hash the summaries pin down outpoints / sequences / outputs under exactly the ALL/NONE/SINGLE/ANYONECANPAY rules), the non-commitment theorems (other inputs and index under ANYONECANPAY, outputs under NONE, other outputs under SINGLE, spent value under the legacy algorithm). Correspondence: transactions of varied shape are signed through Tx.FillInput/unlocker.Simple with the 12 standard hash types, then every single-field mutation class is applied and the real interpreter's verdict is compared with (a) the Lean interpreter model with executable secp256k1/SHA-256 and (b) the property predicate: accepted iff the digest the hash type commits to is unchanged.",
            "note": "That a different digest fails verification is ECDSA unforgeability (assumed; observed on every generated case). Trusted: Lean kernel + standard axioms, harness/generators/comparer, driver glue, executable crypto modules validated on vectors and by the correspondence itself.",
            "technique": "Lean 4 proof over hand-written digest model + executable interpreter/ECDSA model + differential correspondence check with mutation predicate",
        },
        "generators": ["C04"],
        "thorough_seeds": 2,
        "rule": "6/120 transaction shapes per seed x 12 hash types (a third of them in quick) x ~25 mutation classes incl. the identity. Non-trivial = accepted or rejected by signature verification (trace reaches OP_CHECKSIG).",
        "nontrivial": lambda op, impl: impl.count("|") >= 4,
        "trusted_base": COMMON_TB + ["ECDSA unforgeability / SHA-256 collision resistance (hypotheses hinj/hz of forkid_summaries_commit)"],
        "assumptions": ["a signature does not verify against a different digest (ECDSA)"],
    },
    "C06": {
        "manifest": {
            "text": "Lean 4 theorems incl. checkmultisig_iff_matches (the whole OP_CHECKMULTISIG opcode: with well-formed counts and no encoding / null-dummy / null-fail / FORKID flag it pops everything, counts the keys as operations and pushes true iff there is an order-preserving assignment of signatures to keys under which each verifies over the script code with signatures and separators removed, else false - never an error). Lean 4 theorems on the interpreter model's signature opcodes: multisigLoop_eq_walk + walk_iff_matches (the CHECKMULTISIG loop succeeds exactly when the signatures match keys in order - an order-preserving injection exists), nulldummy_logic, empty_signature_is_false, encoding_checks_need_flags. Correspondence: fresh signatures (library signing path and raw ECDSA) over varied transactions x key forms x 12 hash types x all 64 subsets of the signature flags x both eras, OP_CODESEPARATOR at every position, exhaustive m-of-n <= 3 multisig arrangements with correct/incorrect/empty signatures; the real interpreter's verdict, error code and every step snapshot must equal the Lean model's (executable secp256k1/DER/SHA-256), and divergence is a property failure.",
            "note": "Trusted: Lean kernel + standard axioms, harness/generators/comparer, driver glue, executable crypto (validated on go-bk vectors and by agreement on every generated case).",
            "technique": "executable Lean model + Lean 4 proofs on the multisig matching loop and flag logic + step-by-step differential correspondence check",
        },
        "generators": ["C06", "VEC06"],
        "gen_obligations": ["cleanup_allocates_script_code"],
        "witness": [("GoBT.Interp.WriteReview", "GoBT.Interp.WriteReview.offending")],
        "thorough_seeds": 1,
        "rule": "CHECKSIG matrix (cases x key forms x hash types x flag subsets x eras), separator positions, multisig arrangements for n<=3 (thorough: n<=4). Non-trivial = trace reaches a signature opcode.",
        "nontrivial": lambda op, impl: impl.count("|") >= 1,
        "trusted_base": COMMON_TB,
        "assumptions": [],
    },
    "C20": {
        "manifest": {
            "text": "Lean 4 theorems over a model of the ordinals flows' transaction assembly (ord/list.go, bid.go, 2dummies.go) and of Tx.Inscribe / InscribeSpecificOrdinal / ParseInscription: acceptListing(2D)_layout (where seller input/output, buyer and dummy outputs land), seller_signature_survives(_2D) (the SINGLE|ANYONECANPAY|FORKID digest of the one-input listing equals the digest at the seller's new index, via C02.anyonecanpay_independent), ordinal_goes_to_buyer(_2D) and bid_ordinal_goes_to_buyer (first-in-first-out routing of the ordinal's first satoshi), completed_flow_pays_estimated_fee, specific_ordinal_lands_in_inscription. Correspondence: the four real flows (listing/bid x standard/two-dummy) are run with fresh keys over random prices, UTXO sets, fee quotes and scripts; the assembled transaction must equal the model's (unlocking scripts grafted), every input is run through the real interpreter and the Lean interpreter model (executable ECDSA), and the property predicate is evaluated on the implementation's transaction: all inputs accepted, seller output at the committed index, ordinal satoshi owner = buyer script under FIFO, fee left >= quoted fee for the final size. Inscriptions: Inscribe then ParseInscription must return prefix, content type and data (all push-length boundaries, empty included).",
            "note": "Signing itself (RFC6979 ECDSA) is not modelled: signatures are taken from the implementation and verified by the model. Trusted: Lean kernel + standard axioms, harness/generators/comparer, driver glue, executable crypto modules.",
            "technique": "Lean 4 proof over hand-written flow model (layout, digest invariance, FIFO routing, fee) + executable interpreter/ECDSA model + differential correspondence check with property predicate",
        },
        "gen_obligations": ["lib_writes_only_fresh_buffers"],
        "witness": [("GoBT.Script.WriteReviewLib", "GoBT.Script.WriteReviewLib.offendingFor \"C20\"")],
        "generators": ["C20"],
        "thorough_seeds": 1,
        "rule": "150/4000 flows (4 kinds; ~25% ending in each documented error class), 200/6000 inscriptions at push-length boundaries, 50/1500 InscribeSpecificOrdinal cases. Non-trivial = completed flow or parsed inscription.",
        "nontrivial": lambda op, impl: impl.startswith("ok"),
        "trusted_base": COMMON_TB,
        "assumptions": ["transaction values below 2^64 (hypotheses hsum/hlt of the FIFO theorems)"],
    },
    "C18": {
        "manifest": {
            "text": "PARTIAL by nature (the Go memory model, the scheduler and sync.RWMutex are outside any executable model). Proved in Lean 4, for any number of threads, any guarded programs and every schedule: guarded_programs_race_free (no reachable state has two threads about to perform conflicting accesses), reads_return_initial_or_written, writer_excludes_readers; frames_independent (tasks owning their frame compute their sequential result under every interleaving). Tied to the code on every run by a go/ast extractor: for EVERY method of FeeQuote/FeeQuotes the ordered lock operations, field accesses and lock-taking calls (Gen/Locks.lean) must satisfy the discipline (fee_methods_guarded, fee_methods_lock_order, decide +kernel), and interpreter.engine must have no fields and no package-level variable may be written outside init (engine_stateless, Gen/Shared.lean). Search on the implementation: every unordered pair of methods (incl. JSON (un)marshalling, expiry, Quote) and Engine.Execute on distinct transactions run in child processes under the race detector with value tagging (every read must return the initial value or a value some write stored; concurrent verdicts must equal sequential ones).",
            "note": "Not modelled: data reachable through returned pointers (*Fee, *FeeQuote contents handed to callers), races inside callees (encoding/json, math/big, go-bk), Go's runtime. The race-detector runs are a search aid (they produce the replay), not a proof. Trusted: Lean kernel + standard axioms, the extractor (extract/locks.go), harness/generators/comparer, driver glue.",
            "technique": "Lean 4 proof of a reader/writer-lock discipline model and a frame-independence model + regenerated lock/field-access facts with decide obligations + race-detector search harness",
        },
        "generators": ["C18"],
        "race_harness": True,
        "thorough_seeds": 2,
        "gen_obligations": ["fee_methods_guarded", "fee_methods_lock_order", "fee_methods_guarded_other_ids", "engine_stateless"],
        "rule": "quick: all 28 FeeQuote method pairs + 15 FeeQuotes pairs + engine, 4 goroutines x GOMAXPROCS 4, 300 calls each; thorough: 6 (goroutines, GOMAXPROCS) configurations from (2,1) to (32,4), 2 seeds. Non-trivial = scenario ran to completion with reads checked.",
        "nontrivial": lambda op, impl: impl.startswith("ok reads=") and not impl.endswith("=0"),
        "trusted_base": COMMON_TB + ["fact extractor /verif/extract/locks.go (go/ast + go/types walk of fees.go method bodies)", "Go race detector (search only)"],
        "assumptions": ["sync.RWMutex implements reader/writer exclusion", "Go memory model: race-free programs are sequentially consistent"],
    },
    "C05": {
        "manifest": {
            "text": "A complete executable Lean model of the interpreter (apply/Step/executeOpcode/CheckErrorCondition, all ~110 non-signature handlers, script numbers, both eras, P2SH re-entry, policy flags; structural recursion over the parsed opcodes) is compared on every run, program by program, with the real interpreter through a recording Debugger: verdict plus the data, alt and conditional stacks, op count, early-return flag and last-code-separator index after every executed instruction. Lean theorems: the regenerated opcode dispatch table, per-era limits and flag bits are the ones the model is written against (kernel-evaluated on every run), OP_RETURN decision logic per era, disabled/reserved opcode rules, element-size rule, combined-stack-depth invariant over every recorded state, minimal-number-encoding characterisation.",
            "note": "Partial: the model is the *transcription* of the BSV rules by which go-bt is judged; the refinement model = declarative spec for each opcode and decode(encode z) = z for all integers are not yet proved (numeric layer is checked exhaustively on ranges by the driver). Where the unrepaired code deviated (OP_LSHIFT/OP_RSHIFT), the model follows the node's rule (bit-string shift) and the code was repaired. Hash functions are executable Lean models validated on vectors. Trusted: Lean kernel + standard axioms, extractor, harness/generators/comparer, driver glue.",
            "technique": "executable Lean model + Lean 4 proofs of table obligations and invariants + step-by-step differential correspondence check",
        },
        "generators": ["C05", "VEC05", "FZ05"],
        "thorough_seeds": 2,
        "gen_obligations": ["dispatch_table_matches", "limits_match", "flags_match", "locktime_consts_match"],
        "rule": "exhaustive: every unary opcode x edge operands (empty, 00, 80, 01, 81, 7f, ff, non-minimal, 4/5/9-byte, 32/33-byte negative, 519/520/521 and 2000-byte), every binary opcode x E x E, WITHIN x E'^3, shifts for operand lengths {0,1,2,3,4,16,33} x counts 0..8n+1 plus negative/huge counts, both eras; type-directed random programs (stack-depth aware, nested IF/NOTIF/ELSE/ENDIF with OP_RETURN, VERIF, disabled and undefined opcodes in executed and skipped branches) under sampled policy flags; conditional matrices; limit probes (200/201/499/500/501 ops, 999/1000/1001 items, 519/520/521 bytes, 9999/10000/10001-byte scripts); P2SH redeem scripts; push forms under MINIMALDATA. Non-trivial = program that executed at least 3 instructions.",
        "nontrivial": lambda op, impl: impl.count("|") >= 2,
        "trusted_base": COMMON_TB + ["fact extractor /verif/extract", "SHA-256 / SHA-1 / RIPEMD-160 executable models validated on vectors"],
        "assumptions": ["OP_NUM2BIN to sizes beyond 64 KiB after Genesis is out of model (memory exhaustion only)", "the interpreter.Debugger API reports thread state faithfully (one AfterStep per Step)"],
    },
    "C07": {
        "manifest": {
            "text": "The interpreter model is a total Lean function (structural recursion, so termination is kernel-checked) in which every Go run-time check is an explicit panic outcome. Main theorem execute_never_panics: for every crypto oracle, flag set, optional transaction context and pair of scripts, execute ends in accept or reject - no panic site of the model (transaction-requiring opcode without a transaction, element with a non-table length, empty saved stack of P2SH) is reachable; proved from the parser's guarantees (parseAux_Parsed), the invariant that the run-time conditional depth never exceeds the parser's nesting count (executeOpcode_depth, via per-handler lemmas for all opcodes), OP_RETURN at depth 0 ending the script (return_at_top_not_ok) and OP_HASH160 failing on an empty stack. Further theorems: step bound (one snapshot per instruction), shifts total for every operand and count. Tied to the code by a differential check of outcomes {ok, err, panic, crash} over arbitrary byte strings as both scripts, all single flags and flag pairs plus sampled 16-bit flag sets, eight kinds of transaction context (none, valid, tx without previous output, nil tx, nil input element, previous output without script, nothing, locking script only), indices -1 / len / 2^30, with and without a debugger, and memory-limited child processes for count-driven allocations.",
            "note": "The theorem is about the model's panic sites (the Go run-time checks the model makes explicit); that these are all the places the Go code can panic is what the correspondence checks (arbitrary byte strings, crash-isolated). Go run-time failures outside the modelled checks (stack exhaustion, memory exhaustion by OP_NUM2BIN to gigabytes) are exercised, not proved. Option validation before execution (nil tx, nil input, missing scripts) is checked by correspondence only. Trusted: Lean kernel + standard axioms, harness/generators/comparer, driver glue.",
        },
        "witness": [("GoBT.Interp.IndexReview", "GoBT.Interp.unreviewedSites")],
        "generators": ["C07", "FZ07"],
        "gen_obligations": ["index_sites_reviewed"],
        "thorough_seeds": 2,
        "rule": "13 hand-picked nasty script pairs x all 136 single flags / flag pairs x 2 contexts; random / grammar-aware / truncated / signature-opcode-bearing scripts x sampled flag sets x 8 context kinds x {valid, -1, len, 2^30} indices x {no debugger, recording debugger}; isolated resource probes (OP_CHECKMULTISIG with key counts up to 2^31-1). Non-trivial = execution that got past option validation with at least one non-empty script.",
        "nontrivial": lambda op, impl: len(op) > 40,
        "trusted_base": COMMON_TB,
        "assumptions": ["address-space limit of the child processes is an adequate stand-in for 'crashes the process'"],
    },
    "C08": {
        "caller_memory_clause": True,
        "manifest": {
            "text": "Every alias pattern {pushed from the script, DUP, 2DUP, 3DUP, OVER, 2OVER, PICK, TUCK, IFDUP, via the alt stack, ROLL of a duplicate, both halves of SPLIT} x every value-changing opcode (with shift counts 0..17, NUM2BIN/SPLIT sizes, bitwise, arithmetic, hashes) x operand shapes x both eras is executed on the real interpreter and compared item by item after every step with the value-semantics Lean model (an in-place write shows up as a differing twin), and the caller's script buffers and transaction bytes are compared before and after every execution (also with a transaction context). Lean theorems over a reference-semantics model of stack items (slices into heap cells): a handler that allocates its result changes the top item only - every other item keeps its value whatever the sharing; DUP and SPLIT only create references; machine-checked witness that an in-place handler changes the twin and the script cell; regenerated write-site table (go/ssa) with the obligation that every written buffer is freshly allocated.",
            "note": "'Every handler allocates its result' is a regenerated fact: extract/writes.go (go/ssa) lists every byte store/copy/append in bscript/interpreter with the origin of the target slice, and the obligation handlers_write_only_fresh_buffers re-checks it on every run; the differential alias probes observe the same thing at run time. Trusted: Lean kernel + standard axioms, harness/generators/comparer, driver glue.",
        },
        "generators": ["C08"],
        "gen_obligations": ["handlers_write_only_fresh_buffers"],
        "witness": [("GoBT.Interp.WriteReview", "GoBT.Interp.WriteReview.offending")],
        "thorough_seeds": 1,
        "rule": "13 duplication patterns x ~95 value-changing operations x 11 (quick) / 15 operand shapes x 2 eras (quick: 1 in 3 sampled), SPLIT halves at every cut up to 4, 300/20000 random programs with a transaction context. Non-trivial = program that executed at least 2 instructions.",
        "nontrivial": lambda op, impl: impl.count("|") >= 1,
        "trusted_base": COMMON_TB,
        "assumptions": [],
    },
    "C19": {
        "manifest": {
            "text": "Each program is run on the real interpreter three times - no debugger, a recording debugger, and a debugger that overwrites every stack byte and conditional entry of every snapshot it receives (all 14 callbacks) - and verdicts and step traces must coincide with each other and with the Lean model; the recorded callback sequence must lie in the documented lifecycle, checked as a regular language by the driver. Lean theorems: callbacks_follow_lifecycle (a skeleton-emitting copy of the interpreter model has the verdict of the model and its callback skeleton is in the lifecycle language for every execution; the recorded callbacks of the real interpreter, stack events erased, must equal that skeleton on every run); consecutive AfterStep snapshots of a script are related by the instruction executed between them (induction over the run); in the reference model, scribbling over freshly copied snapshot cells leaves every live item of the execution unchanged.",
            "note": "The independence of the verdict from the debugger is by construction in the model (the execution function takes no debugger input) and by three-way comparison on the real code; thread.State() producing deep copies is an assumption checked by the scribbling runs. Trusted: Lean kernel + standard axioms, harness/generators/comparer, driver glue incl. the lifecycle automaton.",
        },
        "generators": ["C19"],
        "gen_obligations": ["snapshot_is_deep_copy"],
        "witness": [("GoBT.Interp.WriteReview", "GoBT.Interp.WriteReview.offending")],
        "thorough_seeds": 1,
        "rule": "1500/60000 random programs (both eras, five policy flag sets), 60 P2SH programs (script-change events), shift/BIN2NUM/SPLIT programs; each x {none, recording, scribbling}. Non-trivial = program with at least 2 steps.",
        "nontrivial": lambda op, impl: impl.count("|") >= 1,
        "trusted_base": COMMON_TB,
        "assumptions": [],
    },
}

# the library-wide write-site obligation (Gen/WritesLib.lean + Script/WriteReviewLib.lean), reported per function group
for _p in ("C01", "C02", "C03", "C13", "C15", "C16", "C20"):
    PROPS[_p]["manifest"]["text"] += (" Regenerated go/ssa write-site table of packages bt and bscript, with the obligation that the functions of this"
                                     " property write only into buffers they allocated (or as their documented contract says) and hand shared byte slices"
                                     " only to reviewed read-only functions; the harness hands every script over in front of guard bytes and checks them after each operation.")
    if "fact extractor" not in " ".join(PROPS[_p]["trusted_base"]):
        PROPS[_p]["trusted_base"] = PROPS[_p]["trusted_base"] + ["fact extractor /verif/extract (go/ssa write-site table)"]

PROPS["C04"]["manifest"]["text"] += (" Commitment under the legacy algorithm is a theorem too: the legacy preimage is the standard serialisation of an explicit"
                                     " modified transaction followed by the hash type, the wire codec is injective (C01), hence equal preimages give equal modified"
                                     " transactions and hash types (legacy_commits; spelled out for ALL in legacy_all_commits).")
PROPS["C20"]["manifest"]["text"] += (" Tx.Inscribe is also proved on a model of Go slices over a heap (append into spare capacity): after copying the prefix the"
                                     " appends leave every slice the caller holds unchanged and the result reads as the value model's script; machine-checked witness"
                                     " for the header-only copy (finding F-C20-04, fixed).")

PROPS["C16"]["manifest"]["text"] += (" The field-by-field node-style path is a theorem as well: outputs, UTXOs and whole transactions (without the hex field)"
                                     " marshalled and unmarshalled come back identical for every amount up to the coin cap (node_output_roundtrip,"
                                     " node_utxo_roundtrip, node_tx_fieldwise_roundtrip).")

PROPS["C15"]["manifest"]["text"] += (" The converse is proved as well: every address the library derives (either network, any 20-byte hash) is accepted by"
                                     " ValidateAddress (derived_address_validates).")

for _p in ("C05", "C06"):
    PROPS[_p]["manifest"]["text"] += (" The Lean model is anchored independently of go-bt: on every run it is executed on the node-generated vectors shipped in the"
                                     " repository (script_tests.json; the ones " + ("without" if _p == "C05" else "with") + " signature opcodes here) and its verdict must be the node's.")

# session 7: the output constructors, the cleared-inputs serialisation and the validation gates (found unreached by a
# function-coverage run of the correspondence streams, DESIGN.md §11.4)
PROPS["C14"]["manifest"]["text"] += (" The data output the library builds itself is covered by theorems (opreturn_output_is_data: for every list of items"
                                     " CreateOpReturnOutput can encode the script is typed data; opreturn_output_exists: nothing below 2^32 bytes per item is"
                                     " refused) and by the ops C14.opret / C14.puzzle, which run CreateOpReturnOutput, AddOpReturnOutput, AddOpReturnPartsOutput,"
                                     " AppendPushDataStrings, DecodeStringParts, HasDataOutputs and AddHashPuzzleOutput against the model GoBT/Script/Build.lean.")
PROPS["C15"]["manifest"]["text"] += (" The transaction-level constructors of txoutput.go (AddP2PKHOutputFromPubKeyBytes / PubKeyStr / PubKeyHashStr / Address /"
                                     " Script, PayTo, PayToAddress) are run on one transaction per key by the op C15.out: seven outputs with the canonical script,"
                                     " non-templates refused, the caller's key buffer untouched.")
PROPS["C01"]["manifest"]["text"] += (" Tx.BytesWithClearedInputs, IsCoinbase, InputIdx / OutputIdx are modelled as well (op C01.misc; cleared_nil_is_bytes,"
                                     " cleared_out_of_range).")
PROPS["C20"]["manifest"]["text"] += (" The validation gates are theorems and a stream of their own: listing_gate_protects_outpoint, bid_gate_protects_outpoint,"
                                     " bid2d_gate_protects_outpoints (an offer passes only if the protected input(s) spend exactly the expected outpoint(s), the bid"
                                     " is written where the flow says and the quoted fee is paid) and accept_*_needs_valid_offer (no completing flow builds a"
                                     " transaction from an offer its gate refuses), accepted_bid_spends_the_ordinal / accepted_bid2D_spends_the_ordinal (the completed bid's"
                                     " ordinal input spends exactly the expected outpoint with its value and script); op C20.validate generates offers and expectations apart (one bit / one byte of"
                                     " the outpoint changed, lists one short or long, dummies that do not add up, unaffordable bids).")
PROPS["C18"]["manifest"]["text"] += (" The shared-state extractor also lists package-level arrays that are sliced and copy() into package-level variables; scenario"
                                     " enginelong validates transactions with scripts longer than the decoder's 64 KiB read chunk concurrently.")

PROPS["C12"]["manifest"]["text"] += (" Tx.AddP2PKHInputsFromTx is modelled too (GoBT/Fee/FromTx.lean, op C12.fromtx): inputs_from_tx_spend_matching_outputs - every"
                                     " input it adds spends an output of the previous transaction that pays to HASH160 of the key, with that output's index, value"
                                     " and script; the transaction's own inputs are untouched; inputs_from_tx_cover_matching_outputs - when no error is reported every such"
                                     " output has become an input.")
PROPS["C11"]["manifest"]["text"] += (" Quotes that cannot answer (nil, a fee type missing, zero value) are a stream of their own (C11.noquote): every"
                                     " fee-dependent operation reports an error and leaves the transaction alone.")

NOT_APPLICABLE = {}
HOOK_COMMITS = []
