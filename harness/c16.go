package main

import (
	"bytes"
	"encoding/hex"
	"encoding/json"
	"fmt"
	"math"
	"strconv"
	"strings"

	"github.com/libsv/go-bt/v2"
)

func init() {
	executors["C16.amt"] = func(a []string) string {
		n := mustU(a[0], 64)
		v := float64(n) / 100000000
		back := q(func() string {
			o := &bt.Output{Satoshis: n, LockingScript: scr([]byte{0x51})}
			js, err := json.Marshal(o.NodeJSON())
			if err != nil {
				return "err"
			}
			o2 := &bt.Output{}
			if err := json.Unmarshal(js, o2.NodeJSON()); err != nil {
				return "err"
			}
			return strconv.FormatUint(o2.Satoshis, 10)
		})
		uback := q(func() string {
			u := &bt.UTXO{TxID: make([]byte, 32), Satoshis: n, LockingScript: scr([]byte{0x51})}
			js, err := json.Marshal(u.NodeJSON())
			if err != nil {
				return "err"
			}
			u2 := &bt.UTXO{}
			if err := json.Unmarshal(js, u2.NodeJSON()); err != nil {
				return "err"
			}
			return strconv.FormatUint(u2.Satoshis, 10)
		})
		return fmt.Sprintf("bits=%d back=%s uback=%s", math.Float64bits(v), back, uback)
	}
	executors["C16.tx"] = func(a []string) string {
		tx := parseDesc(a[0])
		lib := q(func() string {
			js, err := json.Marshal(tx)
			if err != nil {
				return "err"
			}
			t2 := bt.NewTx()
			if err := json.Unmarshal(js, t2); err != nil {
				return "err"
			}
			if t2.TxID() != tx.TxID() {
				return "txid-differs"
			}
			// the inputs as a list of their own: same serialisation, and the decoded objects are independent of each other
			// (completing one unsigned input in place must not show up in another, nor in a second decode)
			if jsi, err := json.Marshal(tx.Inputs); err == nil && len(tx.Inputs) > 0 {
				var a, b []*bt.Input
				if json.Unmarshal(jsi, &a) != nil || json.Unmarshal(jsi, &b) != nil || len(a) != len(tx.Inputs) || len(b) != len(a) {
					return "inputs-differ"
				}
				ser := func(l []*bt.Input) string {
					var sb strings.Builder
					for _, in := range l {
						sb.WriteString(hex.EncodeToString(in.Bytes(false)) + "|")
					}
					return sb.String()
				}
				if ser(a) != ser(tx.Inputs) {
					return "inputs-differ"
				}
				for i := range a {
					if a[i].UnlockingScript == nil {
						continue
					}
					beforeA, beforeB := ser(append(append([]*bt.Input{}, a[:i]...), a[i+1:]...)), ser(b)
					*a[i].UnlockingScript = append(*a[i].UnlockingScript, 0x51)
					if ser(append(append([]*bt.Input{}, a[:i]...), a[i+1:]...)) != beforeA || ser(b) != beforeB {
						return "decoded-inputs-share-memory"
					}
				}
			}
			return "ok:" + hex.EncodeToString(t2.Bytes())
		})
		node := q(func() string {
			js, err := json.Marshal(tx.NodeJSON())
			if err != nil {
				return "err"
			}
			t2 := bt.NewTx()
			if err := json.Unmarshal(js, t2.NodeJSON()); err != nil {
				return "err"
			}
			return "ok:" + hex.EncodeToString(t2.Bytes())
		})
		nodes := q(func() string {
			txs := bt.Txs{tx}
			js, err := json.Marshal(txs.NodeJSON())
			if err != nil {
				return "err"
			}
			// the destination already holds other transactions and has room to spare: decoding replaces, never appends
			t2 := make(bt.Txs, 2, 8)
			t2[0], t2[1] = bt.NewTx(), bt.NewTx()
			t2[0].LockTime, t2[1].Version = 77, 9
			if err := json.Unmarshal(js, t2.NodeJSON()); err != nil {
				return "err"
			}
			if len(t2) != 1 {
				return "len-differs"
			}
			return "ok:" + hex.EncodeToString(t2[0].Bytes())
		})
		return fmt.Sprintf("lib=%s node=%s nodes=%s", lib, node, nodes)
	}
	executors["C16.out"] = func(a []string) string {
		n := mustU(a[0], 64)
		x := a[1]
		if x == "e" {
			x = ""
		}
		o := &bt.Output{Satoshis: n, LockingScript: scr(mustHex(x))}
		lib := q(func() string {
			js, err := json.Marshal(o)
			if err != nil {
				return "err"
			}
			o2 := &bt.Output{}
			if err := json.Unmarshal(js, o2); err != nil {
				return "err"
			}
			return fmt.Sprintf("%d:%s", o2.Satoshis, optHex(o2.LockingScript))
		})
		node := q(func() string {
			js, err := json.Marshal(o.NodeJSON())
			if err != nil {
				return "err"
			}
			o2 := &bt.Output{}
			if err := json.Unmarshal(js, o2.NodeJSON()); err != nil {
				return "err"
			}
			return fmt.Sprintf("%d:%s", o2.Satoshis, optHex(o2.LockingScript))
		})
		return "lib=" + lib + " node=" + node
	}
	executors["C16.utxo"] = func(a []string) string {
		n := mustU(a[0], 64)
		x := a[1]
		if x == "e" {
			x = ""
		}
		u := &bt.UTXO{TxID: make([]byte, 32), Vout: 3, Satoshis: n, LockingScript: scr(mustHex(x))}
		lib := q(func() string {
			js, err := json.Marshal(u)
			if err != nil {
				return "err"
			}
			u2 := &bt.UTXO{}
			if err := json.Unmarshal(js, u2); err != nil {
				return "err"
			}
			if u2.Vout != 3 || len(u2.TxID) != 32 {
				return "fields-differ"
			}
			return fmt.Sprintf("%d:%s", u2.Satoshis, optHex(u2.LockingScript))
		})
		node := q(func() string {
			us := bt.UTXOs{u}
			js, err := json.Marshal(us.NodeJSON())
			if err != nil {
				return "err"
			}
			var u2 bt.UTXOs
			if err := json.Unmarshal(js, u2.NodeJSON()); err != nil {
				return "err"
			}
			if len(u2) != 1 || u2[0].Vout != 3 {
				return "fields-differ"
			}
			return fmt.Sprintf("%d:%s", u2[0].Satoshis, optHex(u2[0].LockingScript))
		})
		return "lib=" + lib + " node=" + node
	}
	// C16.utxos <txid:vout:sats:script|...>: a list of UTXOs through both dialects, every field of every element
	executors["C16.utxos"] = func(a []string) string {
		var us bt.UTXOs
		if a[0] != "-" {
			for _, d := range strings.Split(a[0], "|") {
				f := strings.Split(d, ":")
				x := f[3]
				if x == "e" {
					x = ""
				}
				us = append(us, &bt.UTXO{TxID: mustHex(f[0]), Vout: uint32(mustU(f[1], 32)), Satoshis: mustU(f[2], 64), LockingScript: scr(mustHex(x))})
			}
		}
		// destinations that already hold other elements and have room to spare: decoding replaces, never appends
		stale := func() bt.UTXOs {
			l := make(bt.UTXOs, 2, 8)
			l[0] = &bt.UTXO{TxID: make([]byte, 32), Vout: 9, Satoshis: 1, LockingScript: scr([]byte{0x51})}
			l[1] = &bt.UTXO{TxID: make([]byte, 32), Vout: 8, Satoshis: 2, LockingScript: scr([]byte{0x52})}
			return l
		}
		show := func(l bt.UTXOs) string {
			var out []string
			for _, u := range l {
				if u == nil {
					out = append(out, "nil")
					continue
				}
				sc := optHex(u.LockingScript)
				if sc == "" {
					sc = "e"
				}
				out = append(out, fmt.Sprintf("%s:%d:%d:%s", hex.EncodeToString(u.TxID), u.Vout, u.Satoshis, sc))
			}
			if len(out) == 0 {
				return "-"
			}
			return strings.Join(out, "|")
		}
		// a wallet's current list: outputs of ONE funding transaction, built around the same txid slice and the same
		// script object, as many as (and more than) the list being decoded
		shared := func(n int) bt.UTXOs {
			id := bytes.Repeat([]byte{0x5a}, 32)
			sc := scr([]byte{0x53})
			l := make(bt.UTXOs, n)
			for i := range l {
				l[i] = &bt.UTXO{TxID: id, Vout: uint32(i), Satoshis: uint64(10 + i), LockingScript: sc}
			}
			return l
		}
		// the first result that is not the list itself, else the list
		pick := func(rs ...string) string {
			for _, r := range rs {
				if r != a[0] {
					return r
				}
			}
			return a[0]
		}
		libInto := func(dst bt.UTXOs) string {
			return q(func() string {
				js, err := json.Marshal(us)
				if err != nil {
					return "err"
				}
				if err := json.Unmarshal(js, &dst); err != nil {
					return "err"
				}
				return show(dst)
			})
		}
		nodeInto := func(dst bt.UTXOs) string {
			return q(func() string {
				js, err := json.Marshal(us.NodeJSON())
				if err != nil {
					return "err"
				}
				if err := json.Unmarshal(js, dst.NodeJSON()); err != nil {
					return "err"
				}
				return show(dst)
			})
		}
		// element by element into populated objects; and: decoding the next UTXO into a variable that already funded a
		// transaction leaves that transaction alone
		each := func(node bool) string {
			return q(func() string {
				dst := shared(len(us))
				var u bt.UTXO
				var tx *bt.Tx
				var txBefore []byte
				for i, x := range us {
					var js []byte
					var err error
					if node {
						js, err = json.Marshal(x.NodeJSON())
					} else {
						js, err = json.Marshal(x)
					}
					if err != nil {
						return "err"
					}
					if node {
						err = json.Unmarshal(js, dst[i].NodeJSON())
						if err == nil {
							err = json.Unmarshal(js, u.NodeJSON())
						}
					} else {
						err = json.Unmarshal(js, dst[i])
						if err == nil {
							err = json.Unmarshal(js, &u)
						}
					}
					if err != nil {
						return "err"
					}
					if tx != nil && !bytes.Equal(txBefore, tx.ExtendedBytes()) {
						return "decoding-the-next-utxo-changed-a-funded-tx"
					}
					if tx == nil && len(u.TxID) == 32 && u.LockingScript != nil {
						tx = bt.NewTx()
						if tx.FromUTXOs(&u) == nil {
							txBefore = tx.ExtendedBytes()
						} else {
							tx = nil
						}
					}
				}
				return show(dst)
			})
		}
		lib := pick(libInto(stale()), libInto(shared(len(us))), libInto(shared(len(us)+2)), each(false))
		node := pick(nodeInto(stale()), nodeInto(shared(len(us))), nodeInto(shared(len(us)+2)), each(true))
		return "lib=" + lib + " node=" + node
	}
	generators["C16"] = genC16
}

func genC16(e *emitter, tier string, seed uint64) {
	r := newRng(seed ^ 0xC16)
	quick := tier == "quick"
	// amounts: exhaustive low range, decimal boundaries, powers of two, the supply cap, random 51-bit values
	lim := uint64(20000)
	if !quick {
		lim = 1000000
	}
	amt := func(n uint64) { e.run("C16.amt", strconv.FormatUint(n, 10)); e.note("amt") }
	for n := uint64(0); n <= lim; n++ {
		amt(n)
	}
	for j := uint64(1); j <= 2100000000000000; j *= 10 {
		for k := uint64(1); k <= 30; k++ {
			for _, d := range []int64{-2, -1, 0, 1, 2} {
				v := int64(k*j) + d
				if v >= 0 && uint64(v) <= 2100000000000000 {
					amt(uint64(v))
				}
			}
		}
	}
	for p := uint(0); p < 51; p++ {
		for _, d := range []int64{-1, 0, 1} {
			v := int64(1<<p) + d
			if v >= 0 && uint64(v) <= 2100000000000000 {
				amt(uint64(v))
			}
		}
	}
	for _, v := range []uint64{2100000000000000, 2099999999999999, 2099999997690000, 29000000, 28999999, 57000000, 58000000, 113000000} {
		amt(v)
	}
	m := 3000
	if !quick {
		m = 400000
	}
	for i := 0; i < m; i++ {
		amt(r.u64() % 2100000000000001)
	}
	// transactions: signed, partially signed, unsigned (nil unlocking scripts), any output script bytes
	k := 150
	if !quick {
		k = 6000
	}
	for i := 0; i < k; i++ {
		tx := genTx(r, r.n(4), r.n(4), false)
		if len(tx.Inputs) == 0 && len(tx.Outputs) == 0 {
			tx.LockTime &= 0xffffff
		}
		for _, o := range tx.Outputs {
			o.Satoshis %= 2100000000000001
		}
		res := e.run("C16.tx", descTx(tx))
		e.note("tx." + strings.SplitN(strings.Fields(res)[0], ":", 2)[0])
		unsigned := false
		for _, in := range tx.Inputs {
			if in.UnlockingScript == nil {
				unsigned = true
			}
		}
		if unsigned {
			e.note("tx.has-nil-unlocking-script")
		}
		sc := hex.EncodeToString(r.bytes(r.n(40)))
		if sc == "" {
			sc = "e"
		}
		n := strconv.FormatUint(r.u64()%2100000000000001, 10)
		e.run("C16.out", n, sc)
		e.run("C16.utxo", n, sc)
	}
	// input / output counts on either side of the one-byte count prefix, in particular with no inputs at all (a transaction
	// still being built: the parser reads the output count early on that path)
	for _, c := range [][2]int{{0, 252}, {0, 253}, {0, 254}, {0, 300}, {1, 253}, {253, 0}, {253, 1}, {254, 253}} {
		tx := genTx(r, c[0], c[1], false)
		for _, o := range tx.Outputs {
			o.Satoshis %= 2100000000000001
		}
		e.run("C16.tx", descTx(tx))
		e.note("tx.count-boundary")
	}
	// scripts whose parts are awkward for the asm field of the node dialect: zero-length PUSHDATA forms, truncated
	// pushes, data scripts with short numbers
	for _, sc := range []string{"4c00", "4d0000", "4e00000000", "006a04746573744c00", "76a94c0088ac", "6a4c00", "514d0000ae", "4c", "4d01", "4e010000", "006a0100", "6a02ffff", "00"} {
		tx := genTx(r, 1, 1, false)
		tx.Outputs[0].Satoshis %= 2100000000000001
		tx.Outputs[0].LockingScript = scr(mustHex(sc))
		e.run("C16.tx", descTx(tx))
		tx.Inputs[0].UnlockingScript = scr(mustHex(sc))
		e.run("C16.tx", descTx(tx))
		e.run("C16.out", "1234", sc)
		e.run("C16.utxo", "1234", sc)
		e.note("script.awkward-asm")
	}
	// lists of UTXOs (0..5 elements, all different) through both dialects
	for k := 0; k < 40; k++ {
		var ds []string
		for j := r.n(6); j > 0; j-- {
			sc := hex.EncodeToString(tmplP2PKH(r))
			if r.chance(30) {
				sc = hex.EncodeToString(r.bytes(1 + r.n(30)))
			}
			amount := r.u64() % 2100000000000001
			if r.chance(30) {
				amount = 0 // a zero amount after a non-zero one: nothing of the previous element may linger
			}
			ds = append(ds, fmt.Sprintf("%s:%d:%d:%s", hex.EncodeToString(r.bytes(32)), r.n(1000), amount, sc))
		}
		l := "-"
		if len(ds) > 0 {
			l = strings.Join(ds, "|")
		}
		e.run("C16.utxos", l)
		e.note(fmt.Sprintf("utxo-list.%d", len(ds)))
	}
	// data scripts made of short pushes (rendered as numbers in the node dialect's asm), every pair of lengths 0..5,
	// each followed by more script: marshalling must leave the object as it was and the round trip must return it
	for _, prefix := range []string{"6a", "006a"} {
		for l1 := 0; l1 <= 5; l1++ {
			for l2 := 0; l2 <= 5; l2++ {
				b := mustHex(prefix)
				b = append(append(b, byte(l1)), r.bytes(l1)...)
				b = append(append(b, byte(l2)), r.bytes(l2)...)
				b = append(b, 0x51, byte(r.n(256)))
				sc := hex.EncodeToString(b)
				tx := genTx(r, 1, 2, false)
				for _, o := range tx.Outputs {
					o.Satoshis %= 2100000000000001
				}
				tx.Outputs[r.n(2)].LockingScript = scr(b)
				e.run("C16.tx", descTx(tx))
				e.run("C16.out", "546", sc)
				e.run("C16.utxo", "546", sc)
				e.note("script.data-short-pushes")
			}
		}
	}
}
