package main

import (
	"fmt"
	"strings"
)

func genC08(e *emitter, tier string, seed uint64) {
	r := newRng(seed ^ 0xC08)
	quick := tier == "quick"
	// how the twin comes into being (after the prefix the copy to be transformed is on top)
	dupWords := []struct {
		name string
		code []byte
	}{
		{"script-push", nil}, {"DUP", []byte{0x76}}, {"2DUP", []byte{0x51, 0x7c, 0x6e, 0x7b, 0x75}}, {"3DUP", []byte{0x51, 0x51, 0x7b, 0x6f, 0x75, 0x75}},
		{"OVER", []byte{0x51, 0x78}}, {"2OVER", []byte{0x51, 0x51, 0x51, 0x70, 0x75}}, {"PICK0", []byte{0x00, 0x79}}, {"PICK2", []byte{0x51, 0x52, 0x52, 0x79}},
		{"TUCK", []byte{0x51, 0x7c, 0x7d, 0x75}}, {"IFDUP", []byte{0x73}}, {"DUP-TOALT", []byte{0x76, 0x6b}}, {"DUP-via-alt", []byte{0x76, 0x6b, 0x6c}},
		{"ROLL-of-dup", []byte{0x76, 0x51, 0x51, 0x7a, 0x75}},
	}
	// value-changing operations applied to the top item (with their extra operands pushed first)
	type opn struct {
		name string
		code []byte
	}
	var ops []opn
	for _, u := range []byte{0x8b, 0x8c, 0x8f, 0x90, 0x91, 0x92, 0x83, 0x81, 0xa6, 0xa7, 0xa8, 0xa9, 0xaa} {
		ops = append(ops, opn{fmt.Sprintf("%02x", u), []byte{u}})
	}
	for _, b := range []byte{0x93, 0x94, 0x95, 0x96, 0x97, 0xa3, 0xa4, 0x9a, 0x9b} {
		for _, arg := range [][]byte{{0x01}, {0x81}, {0x02}, {0x7f}} {
			ops = append(ops, opn{fmt.Sprintf("%02x", b), append(rawPush(arg), b)})
		}
	}
	for n := 0; n <= 17; n++ {
		ops = append(ops, opn{"98", append(rawPush(numBytes(n)), 0x98)}, opn{"99", append(rawPush(numBytes(n)), 0x99)})
	}
	for _, n := range []int{0, 1, 2, 3, 4, 5, 8} {
		ops = append(ops, opn{"80", append(rawPush(numBytes(n)), 0x80)}, opn{"7f", append(rawPush(numBytes(n)), 0x7f)})
	}
	ops = append(ops, opn{"7e", append(rawPush([]byte{0xaa, 0xbb}), 0x7e)}, opn{"7e-rev", append(rawPush([]byte{0xaa}), 0x7c, 0x7e)})
	// bitwise ops need an operand of equal length: duplicate the item itself, invert it, then combine
	for _, b := range []byte{0x84, 0x85, 0x86} {
		ops = append(ops, opn{fmt.Sprintf("%02x", b), []byte{0x76, 0x83, b}})
	}
	shapes := [][]byte{{0x01}, {0x81}, {0x05}, {0x85}, {0x7f}, {0x80}, {0x01, 0x00}, {0x01, 0x80}, {0x01, 0x00, 0x80}, {0xff, 0x00}, {0x12, 0x34, 0x56, 0x78},
		{0xff, 0xff, 0xff, 0x7f}, {0x81, 0x02, 0x03, 0x84, 0x05}, r.bytes(16), r.bytes(33)}
	if quick {
		// the long operands stay (digest-sized and larger: an operation may write its result over an operand that is
		// big enough to hold it); the 5-byte and 16-byte ones are left to the thorough tier
		shapes = append(shapes[:11:11], r.bytes(20), r.bytes(33))
	}
	eras := []int{0, fAfterGenesis}
	for _, era := range eras {
		for _, dw := range dupWords {
			for _, op := range ops {
				for _, x := range shapes {
					if quick && r.n(3) != 0 {
						continue
					}
					// the original is pushed by the unlocking script (so it also aliases the caller's buffer);
					// after the operation the result is dropped and the twin is left for inspection
					lock := append(append([]byte{}, dw.code...), op.code...)
					res := ixExec(e, era, rawPush(x), lock)
					e.note("alias." + dw.name)
					e.note("alias-op." + op.name)
					if strings.HasPrefix(res, "accept") || strings.Contains(res, "|") {
						e.note("alias.executed")
					}
				}
			}
		}
		// re-encoding opcodes (BIN2NUM, NUM2BIN) over the whole family of padded / folded / minimal number shapes:
		// magnitude x zero padding x sign placement, each aliased by the caller's script and by a DUP twin
		var numShapes [][]byte
		for _, mag := range [][]byte{{0x01}, {0x7f}, {0x80}, {0xff}, {0x00, 0x01}, {0x00, 0x80}, {0xff, 0x7f}, {0xff, 0xff}, {0x34, 0x12, 0x80}} {
			for pad := 0; pad <= 3; pad++ {
				for _, neg := range []bool{false, true} {
					b := append([]byte{}, mag...)
					for i := 0; i < pad; i++ {
						b = append(b, 0x00)
					}
					if neg {
						if pad > 0 || b[len(b)-1]&0x80 != 0 {
							if pad == 0 {
								b = append(b, 0x80)
							} else {
								b[len(b)-1] = 0x80
							}
						} else {
							b[len(b)-1] |= 0x80
						}
					}
					numShapes = append(numShapes, b)
				}
			}
		}
		for _, x := range numShapes {
			for _, dw := range dupWords[:2] {
				ixExec(e, era, rawPush(x), append(append([]byte{}, dw.code...), 0x81))
				for _, n := range []int{len(x), len(x) + 1, len(x) + 3} {
					ixExec(e, era, rawPush(x), append(append(append([]byte{}, dw.code...), rawPush(numBytes(n))...), 0x80))
				}
				e.note("alias.reencode-family")
			}
		}
		// long operands (longer than the pre-Genesis element size: a handler may treat them on a separate path), already
		// minimal, positive and negative, re-encoded / used as numbers while aliased by the caller's script, by a DUP
		// twin and by the right half of the SPLIT that produced them
		if era != 0 {
			for _, ln := range []int{521, 600, 1000} {
				for _, top := range []byte{0x05, 0x85, 0x7f, 0xff} {
					x := r.bytes(ln)
					x[ln-1] = top
					if top == 0xff { // minimal needs a sign byte only when the byte below has its top bit set
						x[ln-2] |= 0x80
						x[ln-1] = 0x80
					}
					for _, opc := range [][]byte{append(rawPush(numBytes(ln+1)), 0x80), append(rawPush(numBytes(ln+100)), 0x80), append(rawPush(numBytes(ln)), 0x80),
						{0x81}, {0x8b}, {0x8f}, {0x90}, {0x51, 0x93}} {
						for _, dw := range dupWords[:3] {
							ixExec(e, era, rawPush(x), append(append([]byte{}, dw.code...), opc...))
						}
						// <x ++ tail> len SPLIT SWAP <op>: the left half keeps the capacity of the whole item
						whole := append(append([]byte{}, x...), r.bytes(120)...)
						ixExec(e, era, rawPush(whole), append(append(append(rawPush(numBytes(ln)), 0x7f, 0x7c), opc...), 0x75))
						e.note("alias.long-operand")
					}
				}
			}
		}
		// a *computed* item (result of CAT / ADD / SPLIT / a hash: it may carry spare capacity) duplicated, and then BOTH
		// copies transformed in turn — the first result must survive the second transformation
		makers := [][]byte{
			append(append(rawPush([]byte("a")), rawPush([]byte("b"))...), 0x7e),         // "a" "b" CAT
			{0x52, 0x53, 0x93},                                                       // 2 3 ADD
			append(append(rawPush([]byte{1, 2, 3, 4, 5}), 0x52), 0x7f, 0x75),           // <5 bytes> 2 SPLIT DROP
			append(rawPush([]byte("xyz")), 0xa8),                                       // SHA256
			append(append(rawPush([]byte{9}), rawPush([]byte{5})...), 0x80),            // 9 5 NUM2BIN
			append(append(rawPush([]byte{0x12, 0x34}), 0x51), 0x98),                    // <1234> 1 LSHIFT
			append(append(rawPush([]byte{0xf0, 0xf0}), rawPush([]byte{0xff, 0x0f})...), 0x84), // <f0f0> <ff0f> AND
			append(append(rawPush([]byte{0xf0, 0xf0}), rawPush([]byte{0x0f, 0x01})...), 0x85), // … OR
			append(append(rawPush([]byte{0xf0, 0xf0}), rawPush([]byte{0xff, 0x0f})...), 0x86), // … XOR
			append(rawPush([]byte{0x12, 0x34}), 0x83),                                      // <1234> INVERT
		}
		dups := [][]byte{{0x76}, {0x51, 0x78, 0x7c, 0x75}, {0x00, 0x79}, {0x76, 0x6b, 0x6c}} // DUP; 1 OVER SWAP DROP; 0 PICK; DUP TOALT FROMALT
		seconds := []opn{}
		for _, tail := range [][]byte{[]byte("c"), []byte("dd"), {0x00}, []byte("0123456789abcdef")} {
			seconds = append(seconds, opn{"7e", append(rawPush(tail), 0x7e)})
		}
		for _, b := range []byte{0x84, 0x85, 0x86} { // a second bitwise result of the same length (2-byte makers above)
			seconds = append(seconds, opn{fmt.Sprintf("%02x", b), append(rawPush([]byte{0xa5, 0x5a}), b)})
		}
		seconds = append(seconds, opn{"8b", []byte{0x8b}}, opn{"81", []byte{0x81}}, opn{"83", []byte{0x83}}, opn{"98", []byte{0x51, 0x98}}, opn{"80", append(rawPush([]byte{0x21}), 0x80)})
		for _, mk := range makers {
			for _, dp := range dups {
				for _, o1 := range seconds {
					for _, o2 := range seconds {
						lock := append(append([]byte{}, mk...), dp...)
						lock = append(lock, o1.code...)
						lock = append(lock, 0x7c) // SWAP: now the untouched copy is on top
						lock = append(lock, o2.code...)
						ixExec(e, era, []byte{}, lock)
						e.note("alias.both-copies-transformed")
					}
				}
			}
		}
		// both halves of SPLIT: transform one half, inspect the other
		for _, op := range ops {
			for _, x := range shapes {
				if len(x) < 2 {
					continue
				}
				for k := 1; k < len(x) && k < 5; k++ {
					ixExec(e, era, rawPush(x), append(append(rawPush(numBytes(k)), 0x7f), op.code...))
					ixExec(e, era, rawPush(x), append(append(rawPush(numBytes(k)), 0x7f, 0x7c), op.code...))
					e.note("alias.SPLIT-halves")
				}
			}
		}
	}
	// caller-owned buffers with a transaction context: scripts and tx bytes before/after
	n := 300
	if !quick {
		n = 20000
	}
	tx := genSigTx(r, 2, 2, false)
	for i := 0; i < n; i++ {
		u := genProgram(r, 1+r.n(5), false)
		l := genProgram(r, 3+r.n(20), r.chance(30))
		e.run("IX.exec", fmt.Sprint(eras[i%2]|fForkID), hexE(u), hexE(l), descTx(tx), fmt.Sprint(i%2), "5000")
		e.note("with-tx")
	}
	// signature checks really computing every kind of digest (the legacy ones blank and resize inputs / outputs of a copy):
	// the caller's transaction must read the same afterwards — every hash type, every input index, both opcodes
	{
		k := genKey(r)
		for _, shape := range [][2]int{{3, 3}, {2, 1}, {3, 4}} {
			txs := genSigTx(r, shape[0], shape[1], false)
			d := descTx(txs)
			for idx := 0; idx < shape[0]; idx++ {
				for _, ht := range []byte{0x01, 0x02, 0x03, 0x81, 0x82, 0x83, 0x41, 0x42, 0x43, 0xc1, 0xc2, 0xc3} {
					fl := 0
					if ht&0x40 != 0 {
						fl = fForkID
					}
					lock := append(rawPush(k.pubC), 0xac)
					e.run("IX.exec", fmt.Sprint(fl), hexE(rawPush(signFor(txs, idx, lock, 5000, ht, k, false))), hexE(lock), d, fmt.Sprint(idx), "5000")
					mlock := append(append(append([]byte{0x51}, rawPush(k.pubC)...), 0x51), 0xae)
					e.run("IX.exec", fmt.Sprint(fl|fAfterGenesis), hexE(append([]byte{0x00}, rawPush(signFor(txs, idx, mlock, 5000, ht, k, false))...)), hexE(mlock), d, fmt.Sprint(idx), "5000")
					// a script code that differs from the locking script: OP_CODESEPARATOR before the check
					slock := append(rawPush(k.pubC), 0xab, 0xac)
					e.run("IX.exec", fmt.Sprint(fl), hexE(rawPush(signFor(txs, idx, []byte{0xac}, 5000, ht, k, false))), hexE(slock), d, fmt.Sprint(idx), "5000")
					e.note("with-tx.signed")
				}
			}
		}
	}
}

func genC19(e *emitter, tier string, seed uint64) {
	r := newRng(seed ^ 0xC19)
	n := 1500
	if tier != "quick" {
		n = 60000
	}
	eras := []int{0, fAfterGenesis}
	policy := []int{0, fMinimalData, fMinimalIf, fBip16 | fCleanStack, fBip16}
	for i := 0; i < n; i++ {
		flags := eras[i%2] | policy[r.n(len(policy))]
		var u []byte
		for k := r.n(4); k > 0; k-- {
			u = append(u, minimalPush(r.bytes(r.n(5)))...)
		}
		l := genProgram(r, 3+r.n(25), r.chance(40))
		res := e.run("IX.dbg", fmt.Sprint(flags), hexE(u), hexE(l))
		e.note("dbg." + strings.Fields(res)[0])
	}
	// P2SH (script change events) and the shift / BIN2NUM / SPLIT programs whose snapshots alias operands
	for k := 0; k < 60; k++ {
		redeem := genProgram(r, 2+r.n(8), false)
		lock := append(append([]byte{0xa9, 0x14}, hash160(redeem)...), 0x87)
		e.run("IX.dbg", fmt.Sprint(fBip16), hexE(append(minimalPush(r.bytes(2)), pushOf(redeem)...)), hexE(lock))
	}
	// empty scripts (they exist in the wild): the snapshot's program counter has nothing to point at
	for _, pair := range [][2]string{{"51", "e"}, {"e", "51"}, {"5151", "e"}, {"00", "e"}, {"516a", "e"}, {"e", "6a"}, {"51", "6a"},
		// a script that ends with items still on the alt stack (they are dropped at the script boundary)
		{"51516b", "5187"}, {"51", "516b"}, {"51516b516b", "e"}, {"516b", "516b51"}} {
		for _, fl := range []int{0, fAfterGenesis, fBip16} {
			e.run("IX.dbg", fmt.Sprint(fl), pair[0], pair[1])
		}
	}
	// conditionals whose ELSE has already run when a snapshot is taken, followed by a further ELSE (one ELSE per IF after
	// Genesis): what the thread remembers about the first ELSE must not be reachable through the snapshot
	for _, prog := range []string{"51635167676851", "5163516751676851", "006351675167516851", "5163516351676768685151", "516351670063676768", "51645167676851"} {
		for _, era := range eras {
			e.run("IX.dbg", fmt.Sprint(era), "e", prog)
			e.run("IX.dbg", fmt.Sprint(era), "51", prog[2:])
		}
	}
	for _, prog := range []string{"7601089876", "760101997687", "517f7c8b7c", "03010080768151", "0201027601087f7c8b"} {
		for _, era := range eras {
			e.run("IX.dbg", fmt.Sprint(era), "e", prog)
		}
	}
}

func init() {
	generators["C08"] = genC08
	generators["C19"] = genC19
}
