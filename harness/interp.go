package main

import (
	"encoding/json"
	"bytes"
	"encoding/hex"
	"fmt"
	"strings"

	"github.com/libsv/go-bt/v2"
	"github.com/libsv/go-bt/v2/bscript"
	"github.com/libsv/go-bt/v2/bscript/interpreter"
	"github.com/libsv/go-bt/v2/bscript/interpreter/debug"
	"github.com/libsv/go-bt/v2/bscript/interpreter/errs"
	"github.com/libsv/go-bt/v2/bscript/interpreter/scriptflag"
)

func hexE(b []byte) string {
	if len(b) == 0 {
		return "e"
	}
	return hex.EncodeToString(b)
}
func unE(s string) []byte {
	if s == "e" {
		return []byte{}
	}
	return mustHex(s)
}

func showStack(st [][]byte) string {
	ss := make([]string, len(st))
	for i, b := range st {
		ss[i] = hexE(b)
	}
	return strings.Join(ss, ",")
}

func showSnap(s *interpreter.State) string {
	cond := make([]string, len(s.CondStack))
	for i, c := range s.CondStack {
		cond[i] = fmt.Sprint(c)
	}
	early := 0
	if s.Genesis.EarlyReturn {
		early = 1
	}
	out := fmt.Sprintf("%d:%d:%d:%d:%s:%d;%s;%s", s.ScriptIdx, s.OpcodeIdx, s.NumOps, early, strings.Join(cond, ""), s.LastCodeSeparatorIdx,
		showStack(s.DataStack), showStack(s.AltStack))
	if probeAccessors && !snapshotConsistent(s) {
		out += "!snapshot-does-not-contain-the-script-it-points-into"
	}
	return out
}

// snapshotConsistent: the snapshot holds the script its program counter points into, and its accessors agree with it
func snapshotConsistent(s *interpreter.State) bool {
	if s.ScriptIdx < 0 || s.ScriptIdx >= len(s.Scripts) {
		return false
	}
	cur := s.Scripts[s.ScriptIdx]
	if len(cur) == 0 {
		return len(s.RemainingScript()) == 0
	}
	if s.OpcodeIdx < 0 || s.OpcodeIdx >= len(cur) {
		return false
	}
	op := s.Opcode()
	return op.Value() == cur[s.OpcodeIdx].Value() && bytes.Equal(op.Data, cur[s.OpcodeIdx].Data) && len(s.RemainingScript()) == len(cur)-s.OpcodeIdx
}

// probeAccessors: set by the C19 executor — every callback then also uses the State's own accessors (a debugger that
// prints "the current opcode" does exactly that); a panic inside them takes the whole execution down
var probeAccessors bool

func useAccessors(s *interpreter.State) {
	if probeAccessors {
		_ = s.Opcode()
		_ = s.RemainingScript()
	}
}

// scribble overwrites every byte of every stack copy handed to a debugger callback, spare capacity included
var scribbleZero bool // the scribbling debugger writes zero bytes instead of flipping bits (truth values become false)

func scribble(s *interpreter.State) {
	for _, st := range [][][]byte{s.DataStack, s.AltStack, s.ElseStack, s.SavedFirstStack} {
		for _, item := range st {
			// up to the capacity: a debugger may append to what it was given (an empty item included)
			full := item[:cap(item)]
			for i := range full {
				if scribbleZero {
					full[i] = 0
				} else {
					full[i] ^= 0xA5
				}
			}
		}
	}
	for i := range s.CondStack {
		s.CondStack[i] = 7
	}
}

type execResult struct {
	verdict string
	trace   []string
	events  []string
	mut     string
}

// implExec runs the real interpreter. mode: 0 = no debugger, 1 = recording debugger, 2 = scribbling debugger
func implExec(flags uint64, unlock, lock []byte, txd string, idx int, sats uint64, mode int) execResult {
	var res execResult
	u0 := append([]byte{}, unlock...)
	l0 := append([]byte{}, lock...)
	us, ls := bscript.NewFromBytes(unlock), bscript.NewFromBytes(lock)
	opts := []interpreter.ExecutionOptionFunc{interpreter.WithFlags(scriptflag.Flag(flags))}
	var tx *bt.Tx
	var tx0 []byte
	if txd != "-" {
		tx = parseDesc(txd)
		opts = append(opts, interpreter.WithTx(tx, idx, &bt.Output{Satoshis: sats, LockingScript: ls}))
		if idx >= 0 && idx < len(tx.Inputs) {
			tx.Inputs[idx].UnlockingScript = us
		}
		tx0 = tx.Bytes()
	} else {
		opts = append(opts, interpreter.WithScripts(ls, us))
	}
	if mode > 0 {
		d := debug.NewDebugger()
		d.AttachAfterStep(func(s *interpreter.State) {
			useAccessors(s)
			res.trace = append(res.trace, showSnap(s))
			res.events = append(res.events, "S")
			if mode == 2 {
				scribble(s)
			}
		})
		ev := func(tag string) func(*interpreter.State) {
			return func(s *interpreter.State) {
				useAccessors(s)
				res.events = append(res.events, tag)
				if mode == 2 {
					scribble(s)
				}
			}
		}
		d.AttachBeforeExecute(ev("["))
		d.AttachAfterExecute(ev("]"))
		d.AttachBeforeStep(ev("s"))
		d.AttachBeforeExecuteOpcode(ev("o"))
		d.AttachAfterExecuteOpcode(ev("O"))
		d.AttachBeforeScriptChange(ev("c"))
		d.AttachAfterScriptChange(ev("C"))
		d.AttachAfterSuccess(ev("+"))
		d.AttachAfterError(func(s *interpreter.State, err error) {
			res.events = append(res.events, "!")
			if mode == 2 {
				scribble(s)
			}
		})
		// the After… snapshot of a push / pop must show exactly one item more / fewer than the Before… one (on the data
		// and alt stacks together); otherwise the event is recorded as 'Y' / 'X', letters outside the lifecycle language
		depth := func(s *interpreter.State) int { return len(s.DataStack) + len(s.AltStack) }
		before := 0
		d.AttachBeforeStackPush(func(s *interpreter.State, b []byte) {
			before = depth(s)
			res.events = append(res.events, "p")
			if mode == 2 {
				scribble(s)
			}
		})
		d.AttachAfterStackPush(func(s *interpreter.State, b []byte) {
			if depth(s) == before+1 {
				res.events = append(res.events, "P")
			} else {
				res.events = append(res.events, "Y")
			}
			if mode == 2 {
				scribble(s)
			}
		})
		d.AttachBeforeStackPop(func(s *interpreter.State) {
			useAccessors(s)
			before = depth(s)
			res.events = append(res.events, "q")
			if mode == 2 {
				scribble(s)
			}
		})
		d.AttachAfterStackPop(func(s *interpreter.State, b []byte) {
			if depth(s) == before-1 {
				res.events = append(res.events, "Q")
			} else {
				res.events = append(res.events, "X")
			}
			if mode == 2 {
				scribble(s)
			}
		})
		opts = append(opts, interpreter.WithDebugger(d))
	}
	res.verdict = safe(func() string {
		err := interpreter.NewEngine().Execute(opts...)
		if err == nil {
			return "accept"
		}
		code := "ErrUnknown"
		var e errs.Error
		if ee, ok := err.(errs.Error); ok {
			e = ee
			code = e.ErrorCode.String()
		}
		return "reject code=" + code
	})
	if strings.HasPrefix(res.verdict, "panic") {
		res.verdict = "PANIC " + res.verdict[6:]
	}
	mut := 0
	if !bytes.Equal(u0, unlock) || !bytes.Equal(l0, lock) {
		mut |= 1
	}
	// the caller's Script values themselves (a write through the pointer replaces the slice, not the bytes behind it)
	if !bytes.Equal(u0, []byte(*us)) || !bytes.Equal(l0, []byte(*ls)) {
		mut |= 4
	}
	if tx != nil && !bytes.Equal(tx0, tx.Bytes()) {
		mut |= 2
	}
	res.mut = fmt.Sprint(mut)
	return res
}

func init() {
	// IX.exec <flags> <unlock> <lock> <txdesc|-> <idx> <sats>
	executors["IX.exec"] = func(a []string) string {
		r := implExec(mustU(a[0], 32), unE(a[1]), unE(a[2]), a[3], int(mustU(a[4], 31)), mustU(a[5], 64), 1)
		return fmt.Sprintf("%s mut=%s t=%s", r.verdict, r.mut, strings.Join(r.trace, "|"))
	}
	// IX.total <flags> <unlock> <lock> <txdesc|-> <idx(signed)> <sats> <dbg>: outcome only (C07)
	executors["IX.total"] = func(a []string) string {
		idx := 0
		fmt.Sscan(a[4], &idx)
		r := implExecIdx(mustU(a[0], 32), unE(a[1]), unE(a[2]), a[3], idx, mustU(a[5], 64), int(mustU(a[6], 8)))
		return r
	}
	// IX.totaljson <flags> <unlock> <lock> <txdesc> <idx> <sats> <hex of library-JSON input>: the checked input is whatever
	// the library's own JSON decoder returns for the text (C07: every transaction context the library can produce)
	executors["IX.totaljson"] = func(a []string) string {
		tx := parseDesc(a[3])
		idx := int(mustU(a[4], 31))
		in := &bt.Input{}
		if err := json.Unmarshal(mustHex(a[6]), in); err != nil {
			return "undecodable"
		}
		us, ls := bscript.NewFromBytes(unE(a[1])), bscript.NewFromBytes(unE(a[2]))
		in.UnlockingScript = us
		tx.Inputs[idx] = in
		out := safe(func() string {
			err := interpreter.NewEngine().Execute(interpreter.WithFlags(scriptflag.Flag(mustU(a[0], 32))),
				interpreter.WithTx(tx, idx, &bt.Output{Satoshis: mustU(a[5], 64), LockingScript: ls}))
			if err != nil {
				return "err"
			}
			return "ok"
		})
		if strings.HasPrefix(out, "panic") {
			return "PANIC " + out[6:]
		}
		return out
	}
	// IX.dbg <flags> <unlock> <lock>: the same program with no debugger, a recording and a scribbling one (C19)
	executors["IX.dbg"] = func(a []string) string {
		u, l := unE(a[1]), unE(a[2])
		probeAccessors = true
		defer func() { probeAccessors = false }()
		r0 := implExec(mustU(a[0], 32), append([]byte{}, u...), append([]byte{}, l...), "-", 0, 0, 0)
		r1 := implExec(mustU(a[0], 32), append([]byte{}, u...), append([]byte{}, l...), "-", 0, 0, 1)
		r2 := implExec(mustU(a[0], 32), append([]byte{}, u...), append([]byte{}, l...), "-", 0, 0, 2)
		scribbleZero = true
		r3 := implExec(mustU(a[0], 32), append([]byte{}, u...), append([]byte{}, l...), "-", 0, 0, 2)
		scribbleZero = false
		if r3.verdict != r2.verdict || strings.Join(r3.trace, "|") != strings.Join(r2.trace, "|") {
			r2 = r3 // the zeroing scribbler changed something the bit-flipping one did not: report that run
		}
		same := b01(r0.verdict == r1.verdict && r1.verdict == r2.verdict && strings.Join(r1.trace, "|") == strings.Join(r2.trace, "|"))
		return fmt.Sprintf("%s same=%s ev=%s t=%s", r1.verdict, same, compressEvents(r1.events), strings.Join(r2.trace, "|"))
	}
}

// compressEvents: per step, the event letters in order (steps separated by '.')
func compressEvents(ev []string) string { return strings.Join(ev, "") }

// implExecIdx: like implExec but allows invalid indices / nil pieces (C07); only the outcome class
func implExecIdx(flags uint64, unlock, lock []byte, txd string, idx int, sats uint64, kind int) string {
	us, ls := bscript.NewFromBytes(unlock), bscript.NewFromBytes(lock)
	opts := []interpreter.ExecutionOptionFunc{interpreter.WithFlags(scriptflag.Flag(flags))}
	switch kind % 8 {
	case 0: // scripts only
		opts = append(opts, interpreter.WithScripts(ls, us))
	case 1: // tx + prev output
		tx := parseDesc(txd)
		if idx >= 0 && idx < len(tx.Inputs) {
			tx.Inputs[idx].UnlockingScript = us
		}
		opts = append(opts, interpreter.WithTx(tx, idx, &bt.Output{Satoshis: sats, LockingScript: ls}), interpreter.WithScripts(ls, us))
	case 2: // tx without previous output
		tx := parseDesc(txd)
		opts = append(opts, interpreter.WithTx(tx, idx, nil), interpreter.WithScripts(ls, us))
	case 3: // nil tx with previous output
		opts = append(opts, interpreter.WithTx(nil, idx, &bt.Output{Satoshis: sats, LockingScript: ls}), interpreter.WithScripts(ls, us))
	case 4: // tx with a nil input element
		tx := parseDesc(txd)
		if idx >= 0 && idx < len(tx.Inputs) {
			tx.Inputs[idx] = nil
		}
		opts = append(opts, interpreter.WithTx(tx, idx, &bt.Output{Satoshis: sats, LockingScript: ls}), interpreter.WithScripts(ls, us))
	case 5: // previous output without a locking script, scripts given separately
		tx := parseDesc(txd)
		opts = append(opts, interpreter.WithTx(tx, idx, &bt.Output{Satoshis: sats}), interpreter.WithScripts(ls, us))
	case 6: // nothing but flags
	case 7: // only a locking script
		opts = append(opts, interpreter.WithScripts(ls, nil))
	}
	if kind >= 8 {
		d := debug.NewDebugger()
		d.AttachAfterStep(func(s *interpreter.State) { _ = showSnap(s) })
		d.AttachAfterError(func(s *interpreter.State, err error) { _ = showSnap(s) })
		opts = append(opts, interpreter.WithDebugger(d))
	}
	out := safe(func() string {
		if err := interpreter.NewEngine().Execute(opts...); err != nil {
			return "err"
		}
		return "ok"
	})
	if strings.HasPrefix(out, "panic") {
		return "PANIC " + out[6:]
	}
	return out
}
