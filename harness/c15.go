package main

import (
	"bytes"
	"github.com/libsv/go-bk/bec"
	"encoding/hex"
	"fmt"
	"math/big"
	"strings"

	"github.com/libsv/go-bk/base58"
	"github.com/libsv/go-bk/crypto"
	"github.com/libsv/go-bt/v2"
	"github.com/libsv/go-bt/v2/bscript"
)

func strHex(s string) string {
	if s == "" {
		return "e"
	}
	return hex.EncodeToString([]byte(s))
}
func hexStr(h string) string {
	if h == "e" {
		return ""
	}
	return string(mustHex(h))
}

const b58alphabet = "123456789ABCDEFGHJKLMNPQRSTUVWXYZabcdefghijkmnopqrstuvwxyz"

func init() {
	executors["C15.str"] = func(a []string) string {
		s := hexStr(a[0])
		nw := q(func() string {
			ad, err := bscript.NewAddressFromString(s)
			if err != nil {
				return "err"
			}
			return "ok:" + ad.PublicKeyHash
		})
		valid := q(func() string {
			ok, err := bscript.ValidateAddress(s)
			return b01(ok && err == nil)
		})
		p2 := q(func() string {
			sc, err := bscript.NewP2PKHFromAddress(s)
			if err != nil {
				return "err"
			}
			return "ok:" + hex.EncodeToString(*sc)
		})
		pay := q(func() string {
			tx := bt.NewTx()
			if err := tx.PayToAddress(s, 1000); err != nil {
				return "err"
			}
			return "ok:" + hex.EncodeToString(*tx.Outputs[0].LockingScript)
		})
		change := q(func() string {
			tx := bt.NewTx()
			_ = tx.From(strings.Repeat("11", 32), 0, "76a914"+strings.Repeat("22", 20)+"88ac", 100000)
			if err := tx.ChangeToAddress(s, bt.NewFeeQuote()); err != nil {
				return "err"
			}
			return "ok"
		})
		return fmt.Sprintf("new=%s valid=%s p2pkh=%s pay=%s change=%s", nw, valid, p2, pay, change)
	}
	executors["C15.key"] = func(a []string) string {
		key := mustHex(a[0])
		mainnet := a[1] == "1"
		return q(func() string {
			ad, err := bscript.NewAddressFromPublicKeyString(a[0], mainnet)
			if err != nil {
				return "err-addr"
			}
			s1, err1 := bscript.NewP2PKHFromPubKeyBytes(key)
			s2, err2 := bscript.NewP2PKHFromPubKeyHashStr(ad.PublicKeyHash)
			s3, err3 := bscript.NewP2PKHFromAddress(ad.AddressString)
			if err1 != nil || err2 != nil || err3 != nil {
				return "err-script"
			}
			// the byte-slice routes with the caller's data packed the way a wallet keeps it: the key / hash is a window
			// into a larger live buffer (spare capacity behind it); the result must be the same and the buffer untouched
			if hb, err := hex.DecodeString(ad.PublicKeyHash); err == nil && len(hb) == 20 {
				packed := make([]byte, 0, 96)
				packed = append(packed, hb...)
				for i := 0; i < 40; i++ {
					packed = append(packed, hb[i%20]^0x5a)
				}
				before := append([]byte{}, packed...)
				kbuf := make([]byte, 0, len(key)+32)
				kbuf = append(append(kbuf, key...), before[:24]...)
				kbefore := append([]byte{}, kbuf...)
				sA, errA := bscript.NewP2PKHFromPubKeyHash(packed[:20])
				adA, errB := bscript.NewAddressFromPublicKeyHash(packed[:20], mainnet)
				sB, errC := bscript.NewP2PKHFromPubKeyBytes(kbuf[:len(key)])
				if errA != nil || errB != nil || errC != nil {
					return "err-script-raw"
				}
				if !bytes.Equal(packed, before) || !bytes.Equal(kbuf, kbefore) {
					bad := bscript.Script("caller-buffer-changed")
					s2 = &bad
				} else if !bytes.Equal(*sA, *s2) || adA.AddressString != ad.AddressString || !bytes.Equal(*sB, *s1) {
					bad := bscript.Script("raw-route-differs")
					s2 = &bad
				}
			}
			back, err := s1.PublicKeyHash()
			if err != nil {
				return "err-back"
			}
			addrs, err := s1.Addresses()
			if err != nil || len(addrs) != 1 {
				return "err-addrs"
			}
			nw, err := bscript.NewAddressFromString(ad.AddressString)
			if err != nil {
				return "err-new"
			}
			ok, _ := bscript.ValidateAddress(ad.AddressString)
			// the routes that take a parsed key object (only for bytes that are a point on the curve)
			aec, sec := "n/a", "n/a"
			if pk, err := bec.ParsePubKey(key, bec.S256()); err == nil && len(key) == 33 {
				if a2, err := bscript.NewAddressFromPublicKey(pk, mainnet); err == nil {
					aec = strHex(a2.AddressString)
				} else {
					aec = "err"
				}
				if s4, err := bscript.NewP2PKHFromPubKeyEC(pk); err == nil {
					sec = hex.EncodeToString(*s4)
				} else {
					sec = "err"
				}
			}
			return fmt.Sprintf("addr=%s pkh=%s s1=%s s2=%s s3=%s back=%s addrs=%s new=%s valid=%s aec=%s sec=%s", strHex(ad.AddressString), ad.PublicKeyHash,
				hex.EncodeToString(*s1), hex.EncodeToString(*s2), hex.EncodeToString(*s3), hex.EncodeToString(back), strHex(addrs[0]), nw.PublicKeyHash, b01(ok), aec, sec)
		})
	}
	executors["C17.rt"] = func(a []string) string {
		pfx := hexStr(a[0])
		d := a[3]
		if d == "e" {
			d = ""
		}
		b := bscript.BIP276{Prefix: pfx, Version: int(mustU(a[1], 31)), Network: int(mustU(a[2], 31)), Data: mustHex(d)}
		return q(func() string {
			enc := bscript.EncodeBIP276(b)
			if enc == "ERROR" {
				return "enc=ERROR"
			}
			dec := decodeWithHistory(enc)
			valid := "n/a"
			if pfx == "bitcoin-script" {
				ok, err := bscript.ValidateAddress(enc)
				valid = b01(ok && err == nil)
			}
			return fmt.Sprintf("enc=%s dec=%s valid=%s", strHex(enc), dec, valid)
		})
	}
	executors["C17.dec"] = func(a []string) string {
		txt := hexStr(a[0])
		return q(func() string {
			dec := decodeWithHistory(txt)
			ok, err := bscript.ValidateAddress(txt)
			return fmt.Sprintf("dec=%s valid=%s", dec, b01(ok && err == nil))
		})
	}
	generators["C15"] = genC15
	generators["C17"] = genC17
}

// decodeWithHistory decodes a text the way a long-running caller meets it: validated before, decoded, the result's bytes
// reused by the caller for something else, decoded again.  Every decode must give the same answer.
func decodeWithHistory(txt string) string {
	one := func() (string, *bscript.BIP276) {
		r, err := bscript.DecodeBIP276(txt)
		if err != nil {
			return "err", nil
		}
		return "ok:" + showBip(r), r
	}
	_, _ = bscript.ValidateAddress(txt)
	first, r := one()
	if r != nil {
		for i := range r.Data {
			r.Data[i] ^= 0xff // the caller owns what it was given
		}
	}
	_, _ = bscript.ValidateAddress(txt)
	second, _ := one()
	if second != first {
		return "unstable:" + first + "|then|" + second
	}
	return first
}

func showBip(r *bscript.BIP276) string {
	d := hex.EncodeToString(r.Data)
	if d == "" {
		d = "e"
	}
	return fmt.Sprintf("%s:%d:%d:%s", strHex(r.Prefix), r.Version, r.Network, d)
}

func genC15(e *emitter, tier string, seed uint64) {
	r := newRng(seed ^ 0xC15)
	quick := tier == "quick"
	// the transaction-level constructors (txoutput.go), on a generator of their own
	if quick {
		genOutC15(e, newRng(seed^0xC15F), 60)
	} else {
		genOutC15(e, newRng(seed^0xC15F), 3000)
	}
	nAddr := 5
	if !quick {
		nAddr = 120
	}
	str := func(s string, kind string) {
		res := e.run("C15.str", strHex(s))
		e.note("str." + kind)
		if strings.Contains(res, "valid=1") {
			e.note("str.accepted-by-validate")
		}
		if strings.Contains(res, "new=ok") {
			e.note("str.accepted-by-new")
		}
	}
	// real keys, among them keys whose X coordinate begins with one or two zero bytes (found by search)
	for want := 0; want < 6; want++ {
		for tries := 0; tries < 200000; tries++ {
			k := genKey(r)
			if want < 2 || (k.pubC[1] == 0 && (want < 5 || k.pubC[2] < 0x10)) {
				e.run("C15.key", hex.EncodeToString(k.pubC), b01(want%2 == 0))
				e.note("key.on-curve")
				break
			}
		}
	}
	for i := 0; i < nAddr*8; i++ {
		key := append([]byte{byte(2 + r.n(2))}, r.bytes(32)...)
		e.run("C15.key", hex.EncodeToString(key), b01(r.chance(50)))
		e.note("key")
	}
	// key hashes with 0..20 leading zero bytes (the address shrinks to 26 characters) and with tiny / huge tails
	for z := 0; z <= 20; z++ {
		for _, tail := range []byte{0x01, 0x08, 0x09, 0xff} {
			h := make([]byte, 20)
			for k := z; k < 20; k++ {
				h[k] = byte(r.n(256))
			}
			if z < 20 {
				h[z] = tail
			}
			for _, mainnet := range []bool{true, false} {
				ad, err := bscript.NewAddressFromPublicKeyHash(h, mainnet)
				if err != nil {
					panic(err)
				}
				str(ad.AddressString, "valid-leading-zeros")
			}
		}
	}
	// runs of leading '1's followed, after one more digit, by an interior '1' ("11x1…", "111x1…", "1111x1…"): every number of
	// leading ones from none to two too many — a canonical-form test that looks at the boundary of the run only is
	// fooled by the interior '1' when two or more are missing
	for z := 1; z <= 3; z++ {
		found := 0
		for try := 0; try < 4000 && found < 2; try++ {
			h := r.bytes(20)
			for k := 0; k < z; k++ {
				h[k] = 0
			}
			if h[z] == 0 {
				continue
			}
			ad, _ := bscript.NewAddressFromPublicKeyHash(h, true)
			a := ad.AddressString
			ones := len(a) - len(strings.TrimLeft(a, "1"))
			if ones != z+1 || len(a) < ones+2 || a[ones+1] != '1' {
				continue
			}
			found++
			body := a[ones:]
			for k := 0; k <= ones+2; k++ {
				str(strings.Repeat("1", k)+body, "leading-ones-run")
			}
		}
	}
	for i := 0; i < nAddr; i++ {
		h := r.bytes(20)
		if r.chance(20) {
			h[0], h[1] = 0, 0 // leading zero bytes in the hash
		}
		mainnet := i%2 == 0
		ad, _ := bscript.NewAddressFromPublicKeyHash(h, mainnet)
		a := ad.AddressString
		str(a, "valid")
		// every single-character substitution, adjacent transposition, insertion and deletion
		for p := 0; p < len(a); p++ {
			for _, c := range b58alphabet {
				if byte(c) != a[p] {
					if quick && r.n(4) != 0 {
						continue
					}
					str(a[:p]+string(c)+a[p+1:], "substitution")
				}
			}
			str(a[:p]+a[p+1:], "deletion")
			if p+1 < len(a) && a[p] != a[p+1] {
				str(a[:p]+string(a[p+1])+string(a[p])+a[p+2:], "transposition")
			}
		}
		for p := 0; p <= len(a); p++ {
			for _, c := range b58alphabet {
				if quick && r.n(6) != 0 {
					continue
				}
				str(a[:p]+string(c)+a[p:], "insertion")
			}
		}
		// leading-1 variants, non-alphabet characters, whitespace
		str("1"+a, "extra-leading-1")
		str(strings.TrimLeft(a, "1"), "missing-leading-1")
		for _, c := range []string{"0", "O", "I", "l", " ", "\n", "+", "\x00", "é"} {
			p := r.n(len(a))
			str(a[:p]+c+a[p+1:], "non-alphabet")
		}
		str(a+" ", "trailing-space")
		// wrong version bytes, wrong payload lengths, with a correct checksum
		for _, ver := range []byte{0x05, 0xc4, 0x01, 0x6e, 0x70, 0xff} {
			str(bscript.Base58EncodeMissingChecksum(append([]byte{ver}, h...)), "wrong-version")
		}
		for _, l := range []int{19, 21, 0, 32} {
			str(bscript.Base58EncodeMissingChecksum(append([]byte{0}, r.bytes(l)...)), "wrong-length")
		}
		// correct layout, wrong checksum
		raw := base58.Decode(a)
		raw[21+r.n(4)] ^= byte(1 + r.n(255))
		str(base58.Encode(raw), "wrong-checksum")
		// over-long strings whose value is the valid payload plus a multiple of 2^200 (accumulator wrap-around)
		val := new(big.Int).SetBytes(base58.Decode(a))
		for _, k := range []int64{1, 2, 57, 58, 59, 58 * 58, 3364 + 1, 195112} {
			v := new(big.Int).Add(val, new(big.Int).Mul(big.NewInt(k), new(big.Int).Lsh(big.NewInt(1), 200)))
			str(base58.Encode(v.Bytes()), "wraparound-2^200")
		}
	}
	for _, s := range []string{"", "1", "11111111111111111111111111", strings.Repeat("1", 25), strings.Repeat("1", 34), strings.Repeat("z", 34), strings.Repeat("z", 35), "bitcoin-script:", "bitcoin-script:0101"} {
		str(s, "special")
	}
	m := 300
	if !quick {
		m = 30000
	}
	for i := 0; i < m; i++ {
		l := 20 + r.n(20)
		b := make([]byte, l)
		for j := range b {
			b[j] = b58alphabet[r.n(58)]
		}
		str(string(b), "random-base58")
	}
}

func genC17(e *emitter, tier string, seed uint64) {
	r := newRng(seed ^ 0xC17)
	quick := tier == "quick"
	pfx := []string{bscript.PrefixScript, bscript.PrefixTemplate}
	payloads := [][]byte{{}, {0x51}, r.bytes(2), r.bytes(25), r.bytes(300)}
	// all 65,025 (version, network) pairs
	for v := 1; v <= 255; v++ {
		for n := 1; n <= 255; n++ {
			for pi, p := range pfx {
				if quick && pi != (v+n)%2 {
					continue
				}
				var d []byte
				if quick {
					d = payloads[(v*7+n)%len(payloads)]
					e.run("C17.rt", strHex(p), fmt.Sprint(v), fmt.Sprint(n), hexOrE(d))
				} else {
					for _, d := range payloads {
						e.run("C17.rt", strHex(p), fmt.Sprint(v), fmt.Sprint(n), hexOrE(d))
					}
				}
				e.note("rt")
			}
		}
	}
	for _, vn := range [][2]int{{0, 1}, {1, 0}, {256, 1}, {1, 256}, {0, 0}} {
		e.run("C17.rt", strHex(pfx[0]), fmt.Sprint(vn[0]), fmt.Sprint(vn[1]), "51")
	}
	// many payloads for fixed fields: checksums with leading zero digits etc.
	m := 600
	if !quick {
		m = 20000
	}
	for i := 0; i < m; i++ {
		e.run("C17.rt", strHex(pfx[i%2]), fmt.Sprint(1+r.n(255)), fmt.Sprint(1+r.n(255)), hexOrE(r.bytes(r.n(40))))
		e.note("rt-random-payload")
	}
	// every single-character corruption of valid encodings
	k := 12
	if !quick {
		k = 200
	}
	for i := 0; i < k; i++ {
		b := bscript.BIP276{Prefix: pfx[i%2], Version: 1 + r.n(255), Network: 1 + r.n(255), Data: r.bytes(1 + r.n(12))}
		enc := bscript.EncodeBIP276(b)
		if enc == "ERROR" {
			continue
		}
		e.run("C17.dec", strHex(enc))
		for p := 0; p < len(enc); p++ {
			for _, c := range []byte("0123456789abcdefABCDEF:gx -") {
				if c != enc[p] {
					if quick && r.n(3) != 0 {
						continue
					}
					e.run("C17.dec", strHex(enc[:p]+string(c)+enc[p+1:]))
					e.note("dec-corrupted")
				}
			}
			e.run("C17.dec", strHex(enc[:p]+enc[p+1:]))
			e.run("C17.dec", strHex(enc[:p]+"0"+enc[p:]))
		}
		e.run("C17.dec", strHex(strings.ToUpper(enc)))
		e.run("C17.dec", strHex("x:"+enc))
		e.run("C17.dec", strHex(enc+"\n"))
	}
	// hand-built texts that are wrong in their body but carry the checksum of exactly the text they show (so that no
	// corruption of a valid encoding produces them): an odd number of data digits, upper-case digits, one-digit fields,
	// an empty data field, a checksum in upper case
	for i := 0; i < k*3; i++ {
		data := hex.EncodeToString(r.bytes(1 + r.n(6)))
		var body string
		kind := ""
		switch i % 6 {
		case 0:
			body, kind = fmt.Sprintf("%s:%02x%02x%s", pfx[i%2], 1+r.n(255), 1+r.n(255), data[:len(data)-1]), "odd-digits"
		case 1:
			body, kind = fmt.Sprintf("%s:%02x%02x%s%x", pfx[i%2], 1+r.n(255), 1+r.n(255), data, r.n(16)), "odd-digits-long"
		case 2:
			body, kind = fmt.Sprintf("%s:%02x%02x%s", pfx[i%2], 1+r.n(255), 1+r.n(255), strings.ToUpper(data)+"ab"), "upper-case-data"
		case 3:
			body, kind = fmt.Sprintf("%s:%x%02x%s", pfx[i%2], 1+r.n(15), 1+r.n(255), data), "one-digit-field"
		case 4:
			body, kind = fmt.Sprintf("%s:%02x%02x", pfx[i%2], 1+r.n(255), 1+r.n(255)), "empty-data"
		default:
			body, kind = fmt.Sprintf("%s:%02x%02x%s", pfx[i%2], 1+r.n(255), 1+r.n(255), data), "well-formed"
		}
		sum := hex.EncodeToString(crypto.Sha256d([]byte(body))[:4])
		e.run("C17.dec", strHex(body+sum))
		e.note("dec-selfchecksummed." + kind)
		if i%6 == 5 {
			e.run("C17.dec", strHex(body+strings.ToUpper(sum)))
			e.note("dec-selfchecksummed.upper-case-checksum")
		}
	}
	for _, s := range []string{"", ":", "bitcoin-script:", "bitcoin-script:0101", "bitcoin-script:010100000000", "bitcoin-script:0101deadbeef", ":010151deadbeef"} {
		e.run("C17.dec", strHex(s))
	}
}

func hexOrE(b []byte) string {
	if len(b) == 0 {
		return "e"
	}
	return hex.EncodeToString(b)
}
