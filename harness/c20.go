package main

import (
	"context"
	"encoding/hex"
	"strconv"
	"errors"
	"fmt"
	"strings"

	"github.com/libsv/go-bk/bec"
	"github.com/libsv/go-bt/v2"
	"github.com/libsv/go-bt/v2/bscript"
	"github.com/libsv/go-bt/v2/bscript/interpreter"
	"github.com/libsv/go-bt/v2/ord"
	"github.com/libsv/go-bt/v2/unlocker"
)

const ordPlaceholderHex = "76a914c25e9a2b70ec83d7b4fbd0f36f00a86723a48e6b88ac0063036f72645118746578742f706c61696e3b636861727365743d7574662d38000d48656c6c6f2c20776f726c642168"

func funnyScript() []byte {
	s, err := bscript.NewP2PKHFromAddress("1FunnyJoke111111111111111112AVXh5")
	if err != nil {
		panic(err)
	}
	return *s
}

type ordUTXO struct {
	u    *bt.UTXO
	priv []byte
}

// txid:vout:script:sats:priv
func descOrdUTXO(o ordUTXO) string {
	return fmt.Sprintf("%s:%d:%s:%d:%s", hexE(o.u.TxID), o.u.Vout, optHex(o.u.LockingScript), o.u.Satoshis, hexE(o.priv))
}

func parseOrdUTXO(s string) ordUTXO {
	f := strings.Split(s, ":")
	u := &bt.UTXO{TxID: mustHex(f[0]), Vout: uint32(mustU(f[1], 32)), LockingScript: optScr(f[2]), Satoshis: mustU(f[3], 64)}
	// whatever sequence number the wallet's record of the output carries (derived from the txid, so that a replay sees the
	// same): the flows build final inputs regardless, and what the seller signed must be what the completed tx carries
	if len(u.TxID) > 0 {
		u.SequenceNumber = []uint32{0, 5, 0xfffffffe, 0xffffffff}[int(u.TxID[0])%4]
	}
	priv := mustHex(f[4])
	pk, _ := bec.PrivKeyFromBytes(bec.S256(), priv)
	var ul bt.Unlocker = &unlocker.Simple{PrivateKey: pk}
	u.Unlocker = &ul
	return ordUTXO{u, priv}
}

func parseOrdUTXOs(s string) []ordUTXO {
	if s == "-" {
		return nil
	}
	var r []ordUTXO
	for _, p := range strings.Split(s, "|") {
		r = append(r, parseOrdUTXO(p))
	}
	return r
}

func ordErr(stage string, err error) string {
	c := ""
	switch {
	case errors.Is(err, bt.ErrInvalidSellOffer):
		c = "err-invalid-offer"
	case errors.Is(err, bt.ErrInsufficientUTXOs):
		c = "err-insufficient-utxos"
	case errors.Is(err, bt.ErrEmptyScripts):
		c = "err-empty-scripts"
	case errors.Is(err, bt.ErrInsufficientUTXOValue):
		c = "err-insufficient-utxo-value"
	case errors.Is(err, bt.ErrInsufficientFees):
		c = "err-insufficient-fees"
	case strings.Contains(err.Error(), "only receive to p2pkh"):
		c = "err-notp2pkh"
	default:
		c = feeErr(err)
	}
	return stage + ":" + c
}

// verdicts runs every input of tx through the real interpreter against the outputs it spends
func ordVerdicts(tx *bt.Tx, table []ordUTXO) string {
	var vs []string
	for i, in := range tx.Inputs {
		var prev *bt.Output
		for _, t := range table {
			if string(t.u.TxID) == string(in.PreviousTxID()) && t.u.Vout == in.PreviousTxOutIndex {
				prev = &bt.Output{Satoshis: t.u.Satoshis, LockingScript: t.u.LockingScript}
			}
		}
		if prev == nil {
			vs = append(vs, "?")
			continue
		}
		c := parseDesc(descTx(tx)) // the interpreter works on its own copy
		v := safe(func() string {
			err := interpreter.NewEngine().Execute(interpreter.WithTx(c, i, prev), interpreter.WithForkID(), interpreter.WithAfterGenesis())
			if err != nil {
				return "r"
			}
			return "a"
		})
		vs = append(vs, v)
	}
	if len(vs) == 0 {
		return "-"
	}
	return strings.Join(vs, ",")
}

// walletCheck: the caller keeps its own slice of wallet records; a flow that rearranges "the UTXOs" must do so in a list of
// its own.  Returns a marker when the caller's slice no longer holds the records it held, in their order.
func walletCheck(wallet, before []*bt.UTXO) string {
	same := len(wallet) == len(before)
	for i := 0; same && i < len(wallet); i++ {
		same = wallet[i] == before[i]
	}
	if same {
		return ""
	}
	show := func(l []*bt.UTXO) string {
		var p []string
		for _, u := range l {
			p = append(p, fmt.Sprintf("%d", u.Satoshis))
		}
		return strings.Join(p, ",")
	}
	return "caller-utxo-list-rewritten before=" + show(before) + " after=" + show(wallet) + " "
}

func copyUTXOs(us []ordUTXO) []*bt.UTXO {
	var r []*bt.UTXO
	for _, o := range us {
		r = append(r, o.u)
	}
	return r
}

func init() {
	// C20.list <variant> <fq> <ordUtxo> <sellerSats:sellerScript> <utxos> <buyer> <dummy> <change>
	executors["C20.list"] = func(a []string) string {
		return safe(func() string {
			ctx := context.Background()
			variant, fq, ou := a[0], parseFq(a[1]), parseOrdUTXO(a[2])
			so := strings.Split(a[3], ":")
			us := parseOrdUTXOs(a[4])
			pstx, err := ord.ListOrdinalForSale(ctx, &ord.ListOrdinalArgs{
				SellerReceiveOutput: &bt.Output{Satoshis: mustU(so[0], 64), LockingScript: optScr(so[1])},
				OrdinalUTXO:         ou.u, OrdinalUnlocker: *ou.u.Unlocker})
			if err != nil {
				return ordErr("list", err)
			}
			p := descTx(pstx)
			wallet := copyUTXOs(us)
			before := append([]*bt.UTXO{}, wallet...)
			args := &ord.AcceptListingArgs{PSTx: pstx, UTXOs: wallet, BuyerReceiveOrdinalScript: optScr(a[5]),
				DummyOutputScript: optScr(a[6]), ChangeScript: optScr(a[7]), FQ: fq}
			var tx *bt.Tx
			if variant == "1" {
				tx, err = ord.AcceptOrdinalSaleListing(ctx, &ord.ValidateListingArgs{ListedOrdinalUTXO: ou.u}, args)
			} else {
				tx, err = ord.AcceptOrdinalSaleListing2Dummies(ctx, &ord.ValidateListingArgs{ListedOrdinalUTXO: ou.u}, args)
			}
			if m := walletCheck(wallet, before); m != "" {
				return m + "pstx=" + p
			}
			if err != nil {
				return ordErr("accept", err) + " pstx=" + p
			}
			return "ok pstx=" + p + " tx=" + descTx(tx) + " v=" + ordVerdicts(tx, append(us, ou))
		})
	}
	// C20.bid <variant> <fq> <ordUtxo> <bid> <utxos> <buyer> <dummy> <change> <sellerScript> <placeholder> <funny>
	executors["C20.bid"] = func(a []string) string {
		return safe(func() string {
			ctx := context.Background()
			variant, fq, ou, bid := a[0], parseFq(a[1]), parseOrdUTXO(a[2]), mustU(a[3], 64)
			us := parseOrdUTXOs(a[4])
			var pstx, tx *bt.Tx
			var err error
			wallet := copyUTXOs(us)
			before := append([]*bt.UTXO{}, wallet...)
			if variant == "1" {
				pstx, err = ord.MakeBidToBuy1SatOrdinal(ctx, &ord.MakeBidArgs{BidAmount: bid, OrdinalTxID: hexE(ou.u.TxID), OrdinalVOut: ou.u.Vout,
					BidderUTXOs: wallet, BuyerReceiveOrdinalScript: optScr(a[5]), DummyOutputScript: optScr(a[6]), ChangeScript: optScr(a[7]), FQ: fq})
			} else {
				pstx, err = ord.MakeBidToBuy1SatOrdinal2Dummies(ctx, &ord.MakeBid2DArgs{BidAmount: bid, OrdinalTxID: hexE(ou.u.TxID), OrdinalVOut: ou.u.Vout,
					BidderUTXOs: wallet, BuyerReceiveOrdinalScript: optScr(a[5]), DummyOutputScript: optScr(a[6]), ChangeScript: optScr(a[7]), FQ: fq})
			}
			if m := walletCheck(wallet, before); m != "" {
				return m
			}
			if err != nil {
				return ordErr("make", err)
			}
			p := descTx(pstx)
			if variant == "1" {
				tx, err = ord.AcceptBidToBuy1SatOrdinal(ctx, &ord.ValidateBidArgs{OrdinalUTXO: ou.u, BidAmount: bid, ExpectedFQ: fq},
					&ord.AcceptBidArgs{PSTx: pstx, SellerReceiveScript: optScr(a[8]), OrdinalUnlocker: *ou.u.Unlocker})
			} else {
				// previous UTXOs in input order
				var prev []*bt.UTXO
				for _, in := range pstx.Inputs {
					for _, t := range append(us, ou) {
						if string(t.u.TxID) == string(in.PreviousTxID()) && t.u.Vout == in.PreviousTxOutIndex {
							prev = append(prev, t.u)
							break
						}
					}
				}
				tx, err = ord.AcceptBidToBuy1SatOrdinal2Dummies(ctx, &ord.ValidateBid2DArgs{PreviousUTXOs: prev, BidAmount: bid, ExpectedFQ: fq},
					&ord.AcceptBid2DArgs{PSTx: pstx, SellerReceiveOrdinalScript: optScr(a[8]), OrdinalUnlocker: *ou.u.Unlocker})
			}
			if err != nil {
				return ordErr("accept", err) + " pstx=" + p
			}
			return "ok pstx=" + p + " tx=" + descTx(tx) + " v=" + ordVerdicts(tx, append(us, ou))
		})
	}
	// C20.insc <prefix> <contentType hex> <data hex>
	executors["C20.insc"] = func(a []string) string {
		return safe(func() string {
			tx := bt.NewTx()
			err := tx.Inscribe(&bscript.InscriptionArgs{LockingScriptPrefix: scr(unE(a[0])), ContentType: string(unE(a[1])), Data: unE(a[2])})
			if err != nil {
				return "err-" + strings.ReplaceAll(err.Error(), " ", "_")
			}
			if len(tx.Outputs) != 1 {
				return fmt.Sprintf("outputs=%d", len(tx.Outputs))
			}
			ls := tx.Outputs[0].LockingScript
			res := fmt.Sprintf("ok sats=%d script=%s", tx.Outputs[0].Satoshis, hexE(*ls))
			ia, err := ls.ParseInscription()
			if err != nil {
				return res + " parse=err-" + strings.ReplaceAll(err.Error(), " ", "_")
			}
			return res + fmt.Sprintf(" parse=%s:%s:%s", hexE(*ia.LockingScriptPrefix), hexE([]byte(ia.ContentType)), hexE(ia.Data))
		})
	}
	// C20.reinsc <prefix> <ct1> <d1> <ct2> <d2>: inscribe (ct1,d1); parse that output's script; inscribe (ct2,d2) in another
	// transaction through the *parsed* arguments' prefix (which the library hands out as a slice of the first script);
	// then parse both scripts: each must still give its own content.
	executors["C20.reinsc"] = func(a []string) string {
		return safe(func() string {
			show := func(ls *bscript.Script) string {
				ia, err := ls.ParseInscription()
				if err != nil {
					return "err-" + strings.ReplaceAll(err.Error(), " ", "_")
				}
				return fmt.Sprintf("%s:%s:%s", hexE(*ia.LockingScriptPrefix), hexE([]byte(ia.ContentType)), hexE(ia.Data))
			}
			tx1 := bt.NewTx()
			if err := tx1.Inscribe(&bscript.InscriptionArgs{LockingScriptPrefix: scr(unE(a[0])), ContentType: string(unE(a[1])), Data: unE(a[2])}); err != nil {
				return "err1-" + strings.ReplaceAll(err.Error(), " ", "_")
			}
			ls1 := tx1.Outputs[0].LockingScript
			ia, err := ls1.ParseInscription()
			if err != nil {
				return "parse1=err-" + strings.ReplaceAll(err.Error(), " ", "_")
			}
			tx2 := bt.NewTx()
			if err := tx2.Inscribe(&bscript.InscriptionArgs{LockingScriptPrefix: ia.LockingScriptPrefix, ContentType: string(unE(a[3])), Data: unE(a[4])}); err != nil {
				return "err2-" + strings.ReplaceAll(err.Error(), " ", "_")
			}
			return "ok first=" + show(ls1) + " second=" + show(tx2.Outputs[0].LockingScript)
		})
	}
	// C20.specific <txdesc> <inputIdx> <satIdx> <extraScript> <prefix> <ct> <data>
	executors["C20.specific"] = func(a []string) string {
		return safe(func() string {
			tx := parseDesc(a[0])
			err := tx.InscribeSpecificOrdinal(&bscript.InscriptionArgs{LockingScriptPrefix: scr(unE(a[4])), ContentType: string(unE(a[5])), Data: unE(a[6])},
				uint32(mustU(a[1], 32)), mustU(a[2], 64), scr(unE(a[3])))
			if err != nil {
				return "err-" + strings.ReplaceAll(err.Error(), " ", "_")
			}
			return "ok tx=" + descTx(tx)
		})
	}
	generators["C20"] = genC20
}

func genC20(e *emitter, tier string, seed uint64) {
	r := newRng(seed ^ 0xC20)
	quick := tier == "quick"
	nFlows, nInsc := 150, 200
	if !quick {
		nFlows, nInsc = 4000, 6000
	}
	// the validation gates against offers they were not built from, on a generator of their own
	genValidateC20(e, newRng(seed^0xC20F), nFlows*6)
	mkU := func(k keyPair, sats uint64, lock []byte) ordUTXO {
		u := &bt.UTXO{TxID: r.bytes(32), Vout: uint32(r.n(5)), LockingScript: scr(lock), Satoshis: sats}
		return ordUTXO{u, k.priv.Serialise()}
	}
	insLock := func(k keyPair) []byte {
		tx := bt.NewTx()
		_ = tx.Inscribe(&bscript.InscriptionArgs{LockingScriptPrefix: scr(p2pkhOf(k)), ContentType: "text/plain", Data: r.bytes(1 + r.n(40))})
		return *tx.Outputs[0].LockingScript
	}
	for n := 0; n < nFlows; n++ {
		seller, buyer := genKey(r), genKey(r)
		price := uint64(1 + r.n(20000))
		if r.chance(10) {
			price = uint64(1 + r.n(5))
		}
		fqs := feeQuotes[r.n(len(feeQuotes))]
		ordSats := uint64(1)
		if r.chance(15) {
			ordSats = uint64(2 + r.n(500))
		}
		ordLock := p2pkhOf(seller)
		if r.chance(50) {
			ordLock = insLock(seller)
		}
		ou := mkU(seller, ordSats, ordLock)
		nU := 2 + r.n(4)
		if r.chance(10) {
			nU = r.n(3)
		}
		var us []string
		var table []ordUTXO
		for i := 0; i < nU; i++ {
			k := buyer
			if r.chance(30) {
				k = genKey(r)
			}
			var sats uint64
			switch r.n(4) {
			case 0:
				sats = uint64(1 + r.n(int(price)))
			case 1:
				sats = price + uint64(1+r.n(3))
			case 2:
				sats = price + uint64(r.n(100000))
			default:
				sats = uint64(1 + r.n(1000000))
			}
			u := mkU(k, sats, p2pkhOf(k))
			table = append(table, u)
			us = append(us, descOrdUTXO(u))
		}
		utxos := "-"
		if len(us) > 0 {
			utxos = strings.Join(us, "|")
		}
		buyerScript := p2pkhOf(buyer)
		if r.chance(20) {
			buyerScript = insLock(buyer)
		}
		dummy, change := p2pkhOf(buyer), p2pkhOf(genKey(r))
		sellerScript := p2pkhOf(seller)
		if r.chance(15) {
			sellerScript = insLock(seller)
		}
		variant := fmt.Sprint(1 + r.n(2))
		var res, kind string
		if r.chance(50) {
			kind = "list" + variant
			res = e.run("C20.list", variant, fqs, descOrdUTXO(ou), fmt.Sprintf("%d:%s", price, hexE(sellerScript)), utxos,
				hexE(buyerScript), hexE(dummy), hexE(change))
		} else {
			kind = "bid" + variant
			res = e.run("C20.bid", variant, fqs, descOrdUTXO(ou), fmt.Sprint(price), utxos,
				hexE(buyerScript), hexE(dummy), hexE(change), hexE(sellerScript), ordPlaceholderHex, hexE(funnyScript()))
		}
		e.note("flow." + kind + "." + strings.Fields(res)[0])
		e.note(fmt.Sprintf("utxos.%d", nU))
	}
	// the payment UTXO exceeds the price by 1, 2, 3 … satoshis (the dummy output is then that small), at every position
	for _, variant := range []string{"1", "2"} {
		// (offset 0: a funding output worth exactly the price is not "more than the price"; ^uint64(0) = price − 1)
		for _, over := range []uint64{0, ^uint64(0), 1, 2, 3, 135, 136, 137} {
			for pos := 0; pos < 3; pos++ {
				seller, buyer := genKey(r), genKey(r)
				price := uint64(2 + r.n(20000))
				ou := mkU(seller, 1, p2pkhOf(seller))
				us := []ordUTXO{mkU(buyer, 1+uint64(r.n(int(price))), p2pkhOf(buyer)), mkU(buyer, 1+uint64(r.n(int(price))), p2pkhOf(buyer)), mkU(buyer, 5000000, p2pkhOf(buyer))}
				if variant == "2" {
					us[0].u.Satoshis, us[1].u.Satoshis = uint64(1+r.n(900)), uint64(1+r.n(900))
				}
				pay := mkU(buyer, price+over, p2pkhOf(buyer))
				us = append(us[:pos], append([]ordUTXO{pay}, us[pos:]...)...)
				var ds []string
				for _, u := range us {
					ds = append(ds, descOrdUTXO(u))
				}
				res := e.run("C20.list", variant, feeQuotes[r.n(len(feeQuotes))], descOrdUTXO(ou), fmt.Sprintf("%d:%s", price, hexE(p2pkhOf(seller))),
					strings.Join(ds, "|"), hexE(p2pkhOf(buyer)), hexE(p2pkhOf(buyer)), hexE(p2pkhOf(genKey(r))))
				e.note("flow.small-remainder." + strings.Fields(res)[0])
			}
		}
	}
	// the ordinal is an enriched inscription: OP_RETURN and a trailer of 0..5 serialised bytes after the envelope (the
	// interpreter keeps the trailer as one opaque blob and must rebuild it byte for byte for the seller's signature)
	for _, tail := range []string{"", "00", "012a", "02aabb", "0401020304", "6a6a", "ff"} { // decodable trailers only: with any other the output is non-standard and the signer refuses it
		for _, variant := range []string{"1", "2"} {
			seller, buyer := genKey(r), genKey(r)
			lock := append(append([]byte{}, p2pkhOf(seller)...), mustHex("0063036f726451046161616100026869686a"+tail)...)
			ou := mkU(seller, 1, lock)
			price := uint64(1000 + r.n(5000))
			us := []ordUTXO{mkU(buyer, price+2000, p2pkhOf(buyer)), mkU(buyer, 5000000, p2pkhOf(buyer)), mkU(buyer, 900, p2pkhOf(buyer))}
			if variant == "2" {
				us = []ordUTXO{mkU(buyer, 600, p2pkhOf(buyer)), mkU(buyer, 400, p2pkhOf(buyer)), mkU(buyer, price+2000, p2pkhOf(buyer)), mkU(buyer, 5000000, p2pkhOf(buyer))}
			}
			var ds []string
			for _, u := range us {
				ds = append(ds, descOrdUTXO(u))
			}
			res := e.run("C20.list", variant, "500/1000,1/4", descOrdUTXO(ou), fmt.Sprintf("%d:%s", price, hexE(p2pkhOf(seller))),
				strings.Join(ds, "|"), hexE(p2pkhOf(buyer)), hexE(p2pkhOf(buyer)), hexE(p2pkhOf(genKey(r))))
			e.note("flow.enriched.list." + strings.Fields(res)[0])
			res = e.run("C20.bid", variant, "500/1000,1/4", descOrdUTXO(ou), fmt.Sprint(price), strings.Join(ds, "|"),
				hexE(p2pkhOf(buyer)), hexE(p2pkhOf(buyer)), hexE(p2pkhOf(genKey(r))), hexE(p2pkhOf(seller)), ordPlaceholderHex, hexE(funnyScript()))
			e.note("flow.enriched.bid." + strings.Fields(res)[0])
		}
	}
	// the ordinal itself carries a large inscription (push-opcode boundaries 255/256, 65535/65536): the seller's input
	// must still verify when the interpreter rebuilds the script code
	for _, size := range []int{255, 256, 65535, 65536, 70000} {
		for _, variant := range []string{"1", "2"} {
			seller, buyer := genKey(r), genKey(r)
			itx := bt.NewTx()
			_ = itx.Inscribe(&bscript.InscriptionArgs{LockingScriptPrefix: scr(p2pkhOf(seller)), ContentType: "application/octet-stream", Data: r.bytes(size)})
			ou := mkU(seller, 1, *itx.Outputs[0].LockingScript)
			price := uint64(1000 + r.n(5000))
			us := []ordUTXO{mkU(buyer, price+2000, p2pkhOf(buyer)), mkU(buyer, 5000000, p2pkhOf(buyer)), mkU(buyer, 900, p2pkhOf(buyer))}
			if variant == "2" {
				us = []ordUTXO{mkU(buyer, 600, p2pkhOf(buyer)), mkU(buyer, 400, p2pkhOf(buyer)), mkU(buyer, price+2000, p2pkhOf(buyer)), mkU(buyer, 5000000, p2pkhOf(buyer))}
			}
			var ds []string
			for _, u := range us {
				ds = append(ds, descOrdUTXO(u))
			}
			res := e.run("C20.list", variant, "500/1000,1/4", descOrdUTXO(ou), fmt.Sprintf("%d:%s", price, hexE(p2pkhOf(seller))),
				strings.Join(ds, "|"), hexE(p2pkhOf(buyer)), hexE(p2pkhOf(buyer)), hexE(p2pkhOf(genKey(r))))
			e.note("flow.big-inscription.list." + strings.Fields(res)[0])
			res = e.run("C20.bid", variant, "500/1000,1/4", descOrdUTXO(ou), fmt.Sprint(price), strings.Join(ds, "|"),
				hexE(p2pkhOf(buyer)), hexE(p2pkhOf(buyer)), hexE(p2pkhOf(genKey(r))), hexE(p2pkhOf(seller)), ordPlaceholderHex, hexE(funnyScript()))
			e.note("flow.big-inscription.bid." + strings.Fields(res)[0])
		}
	}
	// tight funding: what is left for the fee sweeps across the quoted fee, in steps smaller than one unlocking script,
	// so that "covers the unsigned size but not the signed size" and "covers the fee but not a change output" are hit
	step := 7
	if !quick {
		step = 2
	}
	for _, kind := range []string{"list1", "list2", "bid1", "bid2"} {
		for _, fqs := range []string{"500/1000,1/4", "1/1,1/1", "5/100,5/100"} {
			seller, buyer := genKey(r), genKey(r)
			price := uint64(1000 + r.n(5000))
			ou := mkU(seller, 1, p2pkhOf(seller))
			if kind[:4] == "list" && r.chance(50) {
				ou = mkU(seller, 1, insLock(seller))
			}
			variant := kind[len(kind)-1:]
			var fixed []ordUTXO
			if variant == "1" {
				fixed = []ordUTXO{mkU(buyer, price+1000, p2pkhOf(buyer))}
			} else {
				fixed = []ordUTXO{mkU(buyer, 600, p2pkhOf(buyer)), mkU(buyer, 400, p2pkhOf(buyer)), mkU(buyer, price, p2pkhOf(buyer))}
			}
			adj := mkU(buyer, 10000000, p2pkhOf(buyer))
			build := func(adjSats uint64) []string {
				adj.u.Satoshis = adjSats
				var us []string
				for _, u := range append(append([]ordUTXO{}, fixed...), adj) {
					us = append(us, descOrdUTXO(u))
				}
				if kind[:4] == "list" {
					return []string{variant, fqs, descOrdUTXO(ou), fmt.Sprintf("%d:%s", price, hexE(p2pkhOf(seller))), strings.Join(us, "|"),
						hexE(p2pkhOf(buyer)), hexE(p2pkhOf(buyer)), hexE(p2pkhOf(buyer))}
				}
				return []string{variant, fqs, descOrdUTXO(ou), fmt.Sprint(price), strings.Join(us, "|"),
					hexE(p2pkhOf(buyer)), hexE(p2pkhOf(buyer)), hexE(p2pkhOf(buyer)), hexE(p2pkhOf(seller)), ordPlaceholderHex, hexE(funnyScript())}
			}
			op := "C20." + kind[:len(kind)-1]
			dry := executors[op](build(10000000))
			f := strings.Fields(dry)
			if f[0] != "ok" {
				e.note("tight.dry-failed")
				continue
			}
			var txd string
			for _, x := range f {
				if strings.HasPrefix(x, "tx=") {
					txd = x[3:]
				}
			}
			t := parseDesc(txd)
			if len(t.Outputs) < 4 {
				e.note("tight.no-change-in-dry-run")
				continue
			}
			var in uint64 = 10000000 + 1
			for _, u := range fixed {
				in += u.u.Satoshis
			}
			change := t.Outputs[3].Satoshis
			fee := in - t.TotalOutputSatoshis()
			base := 10000000 - change - fee // with this much in the adjustable output nothing at all is left for the fee
			for x := int64(fee) - 260; x <= int64(fee)+40; x += int64(step) {
				if x < 0 || int64(base)+x < 1 {
					continue
				}
				res := e.run(op, build(uint64(int64(base)+x))...)
				e.note("tight." + kind + "." + strings.Fields(res)[0])
			}
		}
	}
	// inscriptions: content types and payloads at the push-length boundaries
	sizes := []int{0, 1, 2, 74, 75, 76, 77, 254, 255, 256, 257, 1000, 65535, 65536, 65537}
	for n := 0; n < nInsc; n++ {
		k := genKey(r)
		var dl, cl int
		if n < len(sizes)*3 {
			dl = sizes[n%len(sizes)]
			cl = []int{0, 9, 76}[n/len(sizes)]
		} else {
			dl, cl = sizes[r.n(len(sizes))]+r.n(3), r.n(90)
			if r.chance(50) {
				dl = r.n(300)
			}
		}
		if quick && dl > 70000 {
			dl = 300
		}
		data := r.bytes(dl)
		if dl == 1 && r.chance(50) {
			data = []byte{byte(r.n(17))}
		}
		ct := r.bytes(cl)
		if r.chance(60) {
			cts := []string{"text/plain;charset=utf-8", "image/png", "application/json", "a", ""}
			ct = []byte(cts[r.n(len(cts))])
		}
		pre := p2pkhOf(k)
		if r.chance(8) {
			pre = r.bytes(r.n(30))
		}
		res := e.run("C20.insc", hexE(pre), hexE(ct), hexE(data))
		e.note("insc." + strings.SplitN(strings.Fields(res)[len(strings.Fields(res))-1], ":", 2)[0][:8])
		e.note(fmt.Sprintf("insc.datalen.%s", pushBucket(dl)))
	}
	// content-type length x payload length at the push-form boundaries, payloads starting with zero bytes (the parser
	// walks over the content type's push to find the payload's)
	for _, cl := range []int{0, 1, 74, 75, 76, 77, 255, 256, 257} {
		for _, dl := range []int{0, 1, 2, 3, 75, 76, 77, 255, 256, 65535, 65536, 65537} {
			for _, zero := range []int{0, 1, 2} {
				if dl < zero || (zero > 0 && dl == 0) || (quick && dl > 60000 && cl != 75 && cl != 76 && cl != 0) {
					continue
				}
				data := r.bytes(dl)
				for i := 0; i < dl; i++ {
					if data[i] == 0 {
						data[i] = 1
					}
				}
				if zero == 1 {
					data[0] = 0
				} else if zero == 2 && dl >= 2 {
					data[1] = 0
				}
				e.run("C20.insc", hexE(p2pkhOf(genKey(r))), hexE(r.bytes(cl)), hexE(data))
				e.note("insc.grid")
			}
		}
	}
	// a second inscription made through the arguments parsed out of a first one
	for n := 0; n < nInsc/4; n++ {
		k := genKey(r)
		cts := []string{"text/plain;charset=utf-8", "image/png", "application/json", "a", ""}
		d1, d2 := r.bytes(r.n(120)), r.bytes(r.n(120))
		if r.chance(30) {
			d2 = r.bytes(len(d1))
		}
		e.run("C20.reinsc", hexE(p2pkhOf(k)), hexE([]byte(cts[r.n(len(cts))])), hexE(d1), hexE([]byte(cts[r.n(len(cts))])), hexE(d2))
		e.note("reinsc")
	}
	// InscribeSpecificOrdinal: the chosen satoshi must land in the inscription output
	for n := 0; n < nInsc/4; n++ {
		k := genKey(r)
		tx := &bt.Tx{Version: 1}
		nIn := 1 + r.n(4)
		for i := 0; i < nIn; i++ {
			sats := uint64(1 + r.n(1000))
			if r.chance(5) {
				sats = 0
			}
			tx.Inputs = append(tx.Inputs, mkInput(r.bytes(32), uint32(r.n(3)), nil, 0xffffffff, sats, scr(p2pkhOf(k))))
		}
		if r.chance(5) {
			tx.Outputs = append(tx.Outputs, &bt.Output{Satoshis: 1, LockingScript: scr(p2pkhOf(k))})
		}
		idx := r.n(nIn + 2)
		sat := 0
		if idx < nIn && tx.Inputs[idx].PreviousTxSatoshis > 0 {
			sat = r.n(int(tx.Inputs[idx].PreviousTxSatoshis))
		} else {
			sat = r.n(10)
		}
		res := e.run("C20.specific", descTx(tx), fmt.Sprint(idx), fmt.Sprint(sat), hexE(p2pkhOf(genKey(r))), hexE(p2pkhOf(k)), hexE([]byte("text/plain")), hexE(r.bytes(r.n(20))))
		e.note("specific." + strings.Fields(res)[0][:2])
	}
}

func pushBucket(n int) string {
	switch {
	case n == 0:
		return "0"
	case n <= 75:
		return "1-75"
	case n <= 255:
		return "76-255"
	case n <= 65535:
		return "256-65535"
	}
	return ">65535"
}

// ---- the validation gates on their own (ValidateListingArgs / ValidateBidArgs / ValidateBid2DArgs .Validate) ----
// The flow ops above always validate an offer against the very UTXO it was built from, so the refusing branches never ran
// (function-coverage run: 58-65 % of the three Validate methods). Here the offer and the expectation are generated apart.

func parseVUTXOs(s string) []*bt.UTXO {
	if s == "nil" {
		return nil
	}
	var us []*bt.UTXO
	for _, p := range strings.Split(s, "|") {
		f := strings.Split(p, ":")
		us = append(us, &bt.UTXO{TxID: mustHex(f[0]), Vout: uint32(mustU(f[1], 32)), Satoshis: mustU(f[2], 64)})
	}
	return us
}

func init() {
	// C20.validate <L|B|D> <pstx> <utxos txid:vout:sats|…, or nil> <bid> <fq>
	executors["C20.validate"] = func(a []string) string {
		return safe(func() string {
			pstx, us, bid, fq := parseDesc(a[1]), parseVUTXOs(a[2]), mustU(a[3], 64), parseFq(a[4])
			ok := false
			switch a[0] {
			case "L":
				var u *bt.UTXO
				if len(us) > 0 {
					u = us[0]
				}
				ok = (&ord.ValidateListingArgs{ListedOrdinalUTXO: u}).Validate(pstx)
			case "B":
				ok = (&ord.ValidateBidArgs{OrdinalUTXO: us[0], BidAmount: bid, ExpectedFQ: fq}).Validate(pstx)
			case "D":
				ok = (&ord.ValidateBid2DArgs{PreviousUTXOs: us, BidAmount: bid, ExpectedFQ: fq}).Validate(pstx)
			}
			outs := "-"
			if ok {
				var xs []string
				for _, o := range pstx.Outputs {
					xs = append(xs, strconv.FormatUint(o.Satoshis, 10))
				}
				outs = strings.Join(xs, ",")
			}
			return "v=" + b01(ok) + " outs=" + outs
		})
	}
}

func genValidateC20(e *emitter, r *rng, n int) {
	for i := 0; i < n; i++ {
		kind := []string{"L", "B", "D"}[i%3]
		nIn, nOut := r.n(7), r.n(7)
		if r.chance(60) {
			nIn, nOut = []int{1, 3 + r.n(2), 4 + r.n(2)}[i%3], []int{1, 3 + r.n(2), 4 + r.n(2)}[i%3]
		}
		tx := genFeeTx(r, nIn, nOut, 10, 50)
		for _, in := range tx.Inputs {
			in.PreviousTxSatoshis = uint64(1 + r.n(30000))
		}
		var us []*bt.UTXO
		for _, in := range tx.Inputs {
			us = append(us, &bt.UTXO{TxID: append([]byte{}, in.PreviousTxID()...), Vout: in.PreviousTxOutIndex, Satoshis: in.PreviousTxSatoshis})
		}
		if kind == "D" && len(us) >= 2 && len(tx.Outputs) >= 1 && r.chance(75) {
			tx.Outputs[0].Satoshis = us[0].Satoshis + us[1].Satoshis // the dummies pass through
		}
		// the position the gate looks at: input 0 (listing), 1 (bid), every input (bid with two dummies)
		at := map[string]int{"L": 0, "B": 1, "D": 2}[kind]
		tamper := "none"
		if kind != "D" && len(us) > 0 {
			// the single expected UTXO: the one the protected input spends (or, when there is no such input, another one)
			if at < len(us) {
				us = []*bt.UTXO{us[at], us[(at+1)%len(us)]}
			} else {
				us = []*bt.UTXO{us[0], us[0]}
			}
		}
		if len(us) > 0 {
			k := 0
			if kind == "D" {
				k = r.n(len(us))
			}
			switch r.n(9) {
			case 0:
				us[k].TxID[[]int{0, 15, 31}[r.n(3)]] ^= byte(1 << uint(r.n(8)))
				tamper = "txid-bit"
			case 1:
				us[k].Vout += uint32(1 + r.n(2))
				tamper = "vout"
			case 2:
				us[k].Vout ^= 1 << uint(8*(1+r.n(3)))
				tamper = "vout-high-byte"
			case 3:
				us[k].TxID = us[(k+1)%len(us)].TxID
				tamper = "other-inputs-txid"
			case 4:
				if kind == "D" {
					us = us[:len(us)-1]
					tamper = "one-utxo-short"
				}
			case 5:
				if kind == "D" {
					us = append(us, &bt.UTXO{TxID: r.bytes(32), Vout: 0, Satoshis: 5})
					tamper = "one-utxo-more"
				}
			case 6:
				if kind == "D" && len(us) >= 2 {
					us[0].Satoshis++
					tamper = "dummy-sum"
				}
			}
		}
		bid := uint64(r.n(2000))
		if r.chance(25) {
			bid = uint64(20000 + r.n(200000)) // more than the inputs carry: the fee check refuses
			tamper += "+bid-unaffordable"
		}
		arg := "nil"
		if len(us) > 0 {
			var xs []string
			for _, u := range us {
				xs = append(xs, fmt.Sprintf("%s:%d:%d", hex.EncodeToString(u.TxID), u.Vout, u.Satoshis))
			}
			arg = strings.Join(xs, "|")
		} else if kind != "L" {
			continue // a nil ordinal UTXO is the caller's error for the bid gates
		}
		fqs := []string{"5/100,5/100", "1/2,1/2", "1/1,1/1", "0/1,0/1"}[r.n(4)]
		res := e.run("C20.validate", kind, descTx(tx), arg, strconv.FormatUint(bid, 10), fqs)
		e.note("validate." + kind + "." + strings.Fields(res)[0])
		e.note("validate.tamper." + tamper)
	}
}
