package main

import (
	"sync"
	"github.com/libsv/go-bk/crypto"
	"bufio"
	"encoding/hex"
	"fmt"
	"os"
	"strconv"
	"strings"

	"github.com/libsv/go-bt/v2"
	"github.com/libsv/go-bt/v2/bscript"
)

// ---- deterministic PRNG (splitmix64); every random choice derives from one state ----

type rng struct{ s uint64 }

func newRng(seed uint64) *rng { return &rng{s: seed*0x9E3779B97F4A7C15 + 0x1234567} }

func (r *rng) u64() uint64 {
	r.s += 0x9E3779B97F4A7C15
	z := r.s
	z = (z ^ (z >> 30)) * 0xBF58476D1CE4E5B9
	z = (z ^ (z >> 27)) * 0x94D049BB133111EB
	return z ^ (z >> 31)
}
func (r *rng) n(k int) int {
	if k <= 0 {
		return 0
	}
	return int(r.u64() % uint64(k))
}
func (r *rng) bytes(k int) []byte {
	b := make([]byte, k)
	for i := range b {
		b[i] = byte(r.u64())
	}
	return b
}
func (r *rng) pick(xs []int) int { return xs[r.n(len(xs))] }
func (r *rng) chance(pct int) bool { return r.n(100) < pct }

// ---- output ----

type emitter struct {
	w     *bufio.Writer
	count int
	hist  map[string]int
}

func newEmitter() *emitter {
	return &emitter{w: bufio.NewWriterSize(os.Stdout, 1<<20), hist: map[string]int{}}
}

// executors run one op (args as written on the protocol line) against the real code
var executors = map[string]func(args []string) string{}

// run executes the op through its registered executor and writes the protocol line
func (e *emitter) run(op string, args ...string) string {
	ex, ok := executors[op]
	if !ok {
		panic("no executor for " + op)
	}
	res := safe(func() string { return ex(args) })
	e.emit(op, strings.Join(args, " "), res)
	return res
}

// emit writes one protocol line: "<op> <args>\t<implementation output>"
func (e *emitter) emit(op string, args string, impl string) {
	if len(args)+len(impl) > 64<<20 {
		panic(fmt.Sprintf("refusing to emit a %d-byte protocol line for %s (generator bug)", len(args)+len(impl), op))
	}
	e.count++
	e.w.WriteString(op)
	e.w.WriteByte(' ')
	e.w.WriteString(args)
	e.w.WriteByte('\t')
	e.w.WriteString(impl)
	e.w.WriteByte('\n')
}
func (e *emitter) note(k string) { e.hist[k]++ }
func (e *emitter) close() {
	e.w.Flush()
	// distribution goes to stderr as "#hist key count"
	for k, v := range e.hist {
		fmt.Fprintf(os.Stderr, "#hist %s %d\n", k, v)
	}
}

// safe runs f, turning a panic into the string "panic <msg>"
func safe(f func() string) (out string) {
	arenaMu.Lock()
	guards = guards[:0]
	arenaMu.Unlock()
	defer func() {
		if !guardsIntact() && !strings.HasPrefix(out, "caller-buffer-written") {
			out = "caller-buffer-written " + out
		}
	}()
	defer func() {
		if r := recover(); r != nil {
			msg := fmt.Sprint(r)
			msg = strings.ReplaceAll(msg, "\n", " ")
			msg = strings.ReplaceAll(msg, "\t", " ")
			msg = strings.ReplaceAll(msg, " ", "_")
			if len(msg) > 80 {
				msg = msg[:80]
			}
			out = "panic " + msg
		}
	}()
	return f()
}

// ---- txdesc ----

func optHex(s *bscript.Script) string {
	if s == nil {
		return "-"
	}
	return hex.EncodeToString(*s)
}

func descInput(in *bt.Input) string {
	return fmt.Sprintf("%s:%d:%s:%d:%d:%s", hex.EncodeToString(in.PreviousTxID()), in.PreviousTxOutIndex,
		optHex(in.UnlockingScript), in.SequenceNumber, in.PreviousTxSatoshis, optHex(in.PreviousTxScript))
}

func descTx(tx *bt.Tx) string {
	var sb strings.Builder
	sb.WriteString("v=" + strconv.FormatUint(uint64(tx.Version), 10))
	sb.WriteString(";lt=" + strconv.FormatUint(uint64(tx.LockTime), 10))
	sb.WriteString(";in=")
	for i, in := range tx.Inputs {
		if i > 0 {
			sb.WriteByte(',')
		}
		sb.WriteString(descInput(in))
	}
	sb.WriteString(";out=")
	for i, o := range tx.Outputs {
		if i > 0 {
			sb.WriteByte(',')
		}
		sb.WriteString(strconv.FormatUint(o.Satoshis, 10))
		sb.WriteByte(':')
		sb.WriteString(optHex(o.LockingScript))
	}
	return sb.String()
}

// scr makes a script the way a caller that packs its data may hold it: the bytes sit in a larger buffer, followed by
// 16 guard bytes and then by whatever is allocated next, and the slice's capacity reaches past its length — so library
// code that appends to (or writes behind) a script it was merely given lands in the guard.  safe() checks the guards of
// the scripts made during the op it ran.
var (
	arenaMu sync.Mutex
	arena   []byte
	guards  [][]byte
)

const guardByte = 0xA5

func scr(b []byte) *bscript.Script {
	arenaMu.Lock()
	defer arenaMu.Unlock()
	need := len(b) + 16
	if cap(arena)-len(arena) < need {
		n := 1 << 20
		if need*2 > n {
			n = need * 2
		}
		arena = make([]byte, 0, n) // the old chunk stays alive as long as scripts point into it; it is never reused
	}
	off := len(arena)
	arena = append(arena, b...)
	for i := 0; i < 16; i++ {
		arena = append(arena, guardByte)
	}
	s := bscript.Script(arena[off : off+len(b)])
	guards = append(guards, arena[off+len(b):off+len(b)+16])
	return &s
}

func guardsIntact() bool {
	arenaMu.Lock()
	defer arenaMu.Unlock()
	for _, g := range guards {
		for _, x := range g {
			if x != guardByte {
				return false
			}
		}
	}
	return true
}

// mkInput builds an input without going through validation
func mkInput(txid []byte, vout uint32, unlocking *bscript.Script, seq uint32, sats uint64, prev *bscript.Script) *bt.Input {
	in := &bt.Input{PreviousTxOutIndex: vout, UnlockingScript: unlocking, SequenceNumber: seq,
		PreviousTxSatoshis: sats, PreviousTxScript: prev}
	if err := in.PreviousTxIDAdd(txid); err != nil {
		panic(err)
	}
	return in
}

// ---- parsing txdesc back (used by executors) ----

func optScr(s string) *bscript.Script {
	if s == "-" {
		return nil
	}
	b, err := hex.DecodeString(s)
	if err != nil {
		panic("bad hex in txdesc")
	}
	return scr(b)
}

func mustU(s string, bits int) uint64 {
	v, err := strconv.ParseUint(s, 10, bits)
	if err != nil {
		panic("bad number " + s)
	}
	return v
}

func parseDesc(d string) *bt.Tx {
	parts := strings.Split(d, ";")
	if len(parts) != 4 {
		panic("bad txdesc")
	}
	tx := &bt.Tx{Version: uint32(mustU(parts[0][2:], 32)), LockTime: uint32(mustU(parts[1][3:], 32))}
	if ins := parts[2][3:]; ins != "" {
		for _, is := range strings.Split(ins, ",") {
			f := strings.Split(is, ":")
			txid, err := hex.DecodeString(f[0])
			if err != nil {
				panic("bad txid")
			}
			in := &bt.Input{PreviousTxOutIndex: uint32(mustU(f[1], 32)), UnlockingScript: optScr(f[2]),
				SequenceNumber: uint32(mustU(f[3], 32)), PreviousTxSatoshis: mustU(f[4], 64), PreviousTxScript: optScr(f[5])}
			if len(txid) == 32 {
				_ = in.PreviousTxIDAdd(txid)
			} else {
				setRawTxID(in, txid)
			}
			tx.Inputs = append(tx.Inputs, in)
		}
	}
	if outs := parts[3][4:]; outs != "" {
		for _, os := range strings.Split(outs, ",") {
			f := strings.Split(os, ":")
			tx.Outputs = append(tx.Outputs, &bt.Output{Satoshis: mustU(f[0], 64), LockingScript: optScr(f[1])})
		}
	}
	return tx
}

// setRawTxID: a previous txid that is not 32 bytes long. Before go-bt fix F-C07-07 the JSON decoder of bt.Input accepted
// any length, and that was the one public way to build such an input; now there is none, so an empty id stays unset
// (the zero value of bt.Input) and any other length is a generator error.
func setRawTxID(in *bt.Input, txid []byte) {
	if len(txid) != 0 {
		panic(fmt.Sprintf("a %d-byte previous txid cannot be built through the public API", len(txid)))
	}
}

func mustHex(s string) []byte {
	b, err := hex.DecodeString(s)
	if err != nil {
		panic("bad hex arg")
	}
	return b
}

func hash160(b []byte) []byte { return crypto.Hash160(b) }
