package main

import (
	"encoding/hex"
	"encoding/json"
	"math/big"
	"fmt"
	"strings"
)

func genC07(e *emitter, tier string, seed uint64) {
	r := newRng(seed ^ 0xC07)
	quick := tier == "quick"
	n := 6000
	if !quick {
		n = 400000
	}
	tx := genSigTx(r, 2, 2, false)
	txd := descTx(tx)
	flagBits := []int{fBip16, fStrictMultiSig, fDiscourageNops, fCLTV, fCSV, fCleanStack, fDERSig, fLowS, fMinimalData, fNullFail, fSigPushOnly, fForkID, fStrictEnc, fBip143, fAfterGenesis, fMinimalIf}
	total := func(flags int, u, l []byte, kind int, idx int) {
		res := e.run("IX.total", fmt.Sprint(flags), hexE(u), hexE(l), txd, fmt.Sprint(idx), "1000", fmt.Sprint(kind))
		e.note("outcome." + strings.Fields(res)[0])
		e.note(fmt.Sprintf("ctx-kind.%d", kind%8))
	}
	mkScript := func() []byte {
		switch r.n(5) {
		case 0:
			return r.bytes(r.n(40))
		case 1:
			return genProgram(r, 1+r.n(25), true)
		case 2: // grammar-aware with truncated tail
			s := genProgram(r, 1+r.n(15), true)
			if len(s) > 0 {
				s = s[:r.n(len(s)+1)]
			}
			return s
		case 3: // signature-ish opcodes with random operands
			s := genProgram(r, r.n(8), false)
			s = append(s, []byte{0xac, 0xad, 0xae, 0xaf, 0xab, 0xb1, 0xb2}[r.n(7)])
			return append(s, genProgram(r, r.n(4), true)...)
		default:
			return []byte{}
		}
	}
	// resource probes, each in a memory-limited child: counts taken from the stack must not size allocations
	for _, cnt := range [][]byte{{0xff, 0xff, 0xff, 0x7f}, {0x00, 0x00, 0x00, 0x40}, {0xff, 0xff, 0xff, 0x3f}, {0x00, 0x00, 0x10}} {
		for _, op := range []byte{0xae, 0xaf} {
			for _, fl := range []int{fAfterGenesis, fAfterGenesis | fForkID, 0} {
				res := e.runIsolated("IX.total", fmt.Sprint(fl), hexE(append(append([]byte{0x00}, rawPush(cnt)...), rawPush(cnt)...)), hexE([]byte{op}), txd, "0", "1000", "1")
				e.note("resource-probe." + strings.Fields(res)[0])
			}
		}
	}
	// every single flag and every pair of flags on a fixed set of nasty scripts
	nasty := [][2][]byte{{{}, {0x98}}, {{0x00}, {0x98}}, {{0x00, 0x00}, {0x99}}, {{0x02, 1, 2, 0x59}, {0x98}}, {{0x51}, {0xb1}}, {{0x51}, {0xb2}},
		{{0x00, 0x00}, {0xae}}, {{0x51, 0x51}, {0xac}}, {{}, {0x6a}}, {{0x51, 0x51, 0xab, 0xab, 0xab, 0x6a}, {0xac}}, {{0x51, 0xab, 0x61, 0x61, 0x6a}, {0x51, 0x51, 0xae}},
		{{0x03, 1, 2, 3, 0x09, 0, 0, 0, 0, 0, 0, 0, 0x80, 0x00}, {0x7f}}, {{0x51, 0x09, 1, 0, 0, 0, 0, 0, 0, 0, 0x01}, {0x79}}, {{0x51}, {0x63}}, {{0x51}, {0x4c}}, {{0x4d, 0x01}, {0x51}}, {{0x00}, {0xa9, 0x14}}}
	for i, f1 := range flagBits {
		for j, f2 := range flagBits {
			if j < i {
				continue
			}
			for _, ns := range nasty {
				for kind := 0; kind < 2; kind++ {
					total(f1|f2, ns[0], ns[1], kind, 0)
				}
			}
		}
	}
	// signature hashing at the edges of the transaction: the checked input index equal to / beyond the number of outputs
	// (SINGLE has no matching output there), every hash type byte class, well-formed but unrelated signature and key
	{
		k := genKey(r)
		fake := append(derEncode(new(big.Int).SetBytes(append([]byte{0x01}, r.bytes(31)...)), new(big.Int).SetBytes(append([]byte{0x01}, r.bytes(30)...))), 0)
		for _, shape := range [][2]int{{2, 1}, {1, 0}, {3, 2}, {3, 1}, {1, 1}} {
			txs := genSigTx(r, shape[0], shape[1], false)
			d := descTx(txs)
			for idx := 0; idx < shape[0]; idx++ {
				// every hash-type byte whose base type is NONE / SINGLE or undefined — with and without the undefined bits
				// 0x20 / 0x10 / 0x08 / 0x04 set (masked and exact comparisons of the hash type must agree) — plus ALL
				var hts []byte
				for ht := 0; ht < 256; ht++ {
					if b := ht & 0x1f; ht&0x03 == 0x03 || ht&0x03 == 0x02 || b == 0 || b > 3 || ht == 0x01 || ht == 0x41 || ht == 0x81 || ht == 0xc1 {
						hts = append(hts, byte(ht))
					}
				}
				for _, ht := range hts {
					sig := append(append([]byte{}, fake[:len(fake)-1]...), ht)
					for _, fl := range []int{0, fForkID, fForkID | fAfterGenesis, fStrictEnc} {
						if quick && fl != 0 && fl != fForkID && ht&0x3c != 0 {
							continue
						}
						res := e.run("IX.total", fmt.Sprint(fl), hexE(rawPush(sig)), hexE(append(rawPush(k.pubC), 0xac)), d, fmt.Sprint(idx), "1000", "1")
						e.note("sighash-edge." + strings.Fields(res)[0])
					}
				}
			}
		}
	}
	// signature checks in a script that ends with a top-level OP_RETURN and a tail: the script code rebuilt for the digest
	// includes the parser's "rest of the script" pseudo-opcode (every tail length 0..3 and push-looking first bytes)
	for _, tail := range []string{"", "00", "01", "02", "4c", "4d", "4e", "0101", "01ff", "0201", "4c00", "4c01", "4d01", "4e010000", "ab", "abab", "010203"} {
		for _, fl := range []int{0, fAfterGenesis, fForkID, fForkID | fAfterGenesis, fNullFail, fStrictEnc} {
			for _, sigs := range [][2][]byte{{{0x51, 0x51}, {0xac}}, {{0x00, 0x51, 0x51}, {0x51, 0xae}}, {{0x02, 0x30, 0x01, 0x51}, {0xac}}, {{0x51, 0x51}, {0xab, 0xac}}} {
				lock := append(append(append([]byte{}, sigs[1]...), 0x6a), mustHex(tail)...)
				total(fl, sigs[0], lock, 1, 0)
				total(fl, sigs[0], append([]byte{0x51, 0x63}, append(lock, 0x68)...), 1, 1)
			}
		}
	}
	// CHECKMULTISIG with fewer signatures than (valid) keys and signatures that fail at every stage: empty, junk that is not
	// DER, DER that does not parse as a signature, a well-formed signature of nothing — each is tried against several keys
	{
		ks := []keyPair{genKey(r), genKey(r), genKey(r)}
		junk := [][]byte{{}, {0x01}, append(r.bytes(8), 0x01), {0x30, 0x06, 0x02, 0x01, 0x01, 0x02, 0x01, 0x01, 0x01}, {0x30, 0x06, 0x02, 0x01, 0x00, 0x02, 0x01, 0x00, 0x41},
			{0x30, 0x02, 0x02, 0x00, 0x01}, append(append([]byte{0x30, 0x44, 0x02, 0x20}, r.bytes(32)...), append([]byte{0x02, 0x20}, append(r.bytes(32), 0x41)...)...), append(r.bytes(71), 0x01)}
		for n := 2; n <= 3; n++ {
			for m := 1; m <= n; m++ {
				lock := smallInt(m)
				for i := 0; i < n; i++ {
					lock = append(lock, rawPush(ks[i].pubC)...)
				}
				lock = append(append(lock, smallInt(n)...), 0xae)
				for _, j1 := range junk {
					for _, j2 := range junk[:4] {
						unlock := []byte{0x00}
						for i := 0; i < m; i++ {
							if i == 0 {
								unlock = append(unlock, rawPush(j1)...)
							} else {
								unlock = append(unlock, rawPush(j2)...)
							}
						}
						for _, fl := range []int{0, fNullFail, fDERSig, fStrictEnc, fForkID, fAfterGenesis} {
							total(fl, unlock, lock, 1, 0)
						}
					}
				}
			}
		}
	}
	// every opcode with a number beyond the machine-word range on top of, and second on, the stack (post-Genesis numbers
	// are unbounded: any conversion to a machine integer inside an opcode must be guarded by a comparison on the big value)
	{
		bigs := [][]byte{{0, 0, 0, 0, 0, 0, 0, 0x80, 0x00}, {0, 0, 0, 0, 0, 0, 0, 0x80, 0x80}, {1, 0, 0, 0, 0, 0, 0, 0x80, 0x00}, {0xff, 0xff, 0xff, 0xff, 0xff, 0xff, 0xff, 0xff, 0x00},
			{0, 0, 0, 0, 0, 0, 0, 0, 0x01}, {0xfe, 0xff, 0xff, 0xff, 0xff, 0xff, 0xff, 0xff, 0xff, 0xff, 0x7f}, {0, 0, 0, 0x80, 0x00}, {0, 0, 0, 0, 0x01}, {0xff, 0xff, 0xff, 0xff, 0xff, 0xff, 0xff, 0x7f}}
		for op := 0x4f; op <= 0xb9; op++ {
			for _, b := range bigs {
				x, y := r.bytes(1+r.n(5)), r.bytes(1+r.n(5))
				if op == 0x80 {
					y = y[:1] // OP_NUM2BIN: a small size (a random 4-byte size is a legitimate 2 GB allocation, out of model)
				}
				for _, fl := range []int{fAfterGenesis, fAfterGenesis | fMinimalData} {
					total(fl, append(append(rawPush(x), rawPush(y)...), rawPush(b)...), []byte{byte(op)}, 1, 0)
					total(fl, append(append(rawPush(x), rawPush(b)...), rawPush(y)...), []byte{byte(op)}, 1, 0)
				}
			}
		}
	}
	// a checked input that comes out of the library's own JSON decoder, previous-transaction ids of every length
	{
		k := genKey(r)
		lock := append(rawPush(k.pubC), 0xac)
		txs := genSigTx(r, 2, 2, false)
		d := descTx(txs)
		for idx := 0; idx < 2; idx++ {
			js, err := json.Marshal(txs.Inputs[idx])
			if err != nil {
				panic(err)
			}
			good := hex.EncodeToString(txs.Inputs[idx].PreviousTxID())
			for _, id := range []string{good, "", "00", good[:62], good + "00", good + good, "zz"} {
				text := strings.Replace(string(js), `"`+good+`"`, `"`+id+`"`, 1)
				for _, ht := range []byte{0x41, 0x01} {
					sig := signFor(txs, idx, lock, 1000, ht, k, false)
					for _, fl := range []int{fForkID, 0, fAfterGenesis | fForkID} {
						res := e.runIsolated("IX.totaljson", fmt.Sprint(fl), hexE(rawPush(sig)), hexE(lock), d, fmt.Sprint(idx), "1000", hex.EncodeToString([]byte(text)))
						e.note("json-context." + strings.Fields(res)[0])
					}
				}
			}
		}
	}
	// the DER framing guards of checkSignatureEncoding: a valid signature cut at every length, outer length patched,
	// R length swept so that the S header straddles the cut (every index expression of the check at its boundary)
	{
		k := genKey(r)
		lock := append(rawPush(k.pubC), 0xac)
		full := signFor(tx, 0, lock, 1000, 0x41, k, false)
		body := full[:len(full)-1]
		for L := 2; L <= len(body)+1; L++ {
			for variant := 0; variant < 7; variant++ {
				t := make([]byte, L)
				copy(t, body)
				if L > len(body) {
					t[L-1] = 0x01
				}
				t[1] = byte(L - 2)
				if variant > 0 && L >= 5 {
					t[3] = byte(L - 9 + variant)
				}
				for _, fl := range []int{fDERSig, fStrictEnc | fForkID, fLowS | fAfterGenesis} {
					total(fl, rawPush(append(t, 0x41)), lock, 1, 0)
				}
			}
		}
	}
	// pay-to-script-hash: the redeem script is parsed at run time, long after the option checks — opcodes that need a
	// transaction (signature checks, lock-time checks) inside it, with every kind of context including none at all
	for _, redeem := range [][]byte{{0xac}, {0xad}, {0xae}, {0xaf}, {0xb1}, {0xb2}, {0x51, 0x51, 0xac}, {0x00, 0x00, 0x00, 0xae},
		{0x51, 0xb2, 0x75}, {0x51, 0xb1, 0x75}, {0x63, 0xac, 0x68}, {0x00, 0x63, 0xac, 0x68, 0x51}, {0x6a, 0xac}} {
		lock := append(append([]byte{0xa9, 0x14}, hash160(redeem)...), 0x87)
		for _, args := range [][]byte{{}, {0x51, 0x51}, {0x00, 0x51, 0x51}} {
			u := append(append([]byte{}, args...), rawPush(redeem)...)
			for _, fl := range []int{fBip16, fBip16 | fCLTV | fCSV, fBip16 | fForkID, fBip16 | fAfterGenesis, 0} {
				for kind := 0; kind < 8; kind++ {
					total(fl, u, lock, kind, 0)
				}
			}
		}
	}
	// random scripts x sampled flag sets x every context kind x valid and invalid indices
	for i := 0; i < n; i++ {
		flags := 0
		switch r.n(4) {
		case 0:
			flags = int(r.u64() & 0xffff)
		case 1:
			flags = flagBits[r.n(16)] | flagBits[r.n(16)]
		case 2:
			flags = fAfterGenesis | fForkID
		}
		kind := r.n(8)
		if r.chance(25) {
			kind += 8
		}
		idx := []int{0, 1, 0, 0, -1, 2, 1 << 30, 0}[r.n(8)]
		total(flags, mkScript(), mkScript(), kind, idx)
	}
}

func init() { generators["C07"] = genC07 }
