package main

import (
	"io"
	"bufio"
	"fmt"
	"strings"
	"os"
	"strconv"
)

// usage: harness gen <property> <quick|thorough> <seed>
func main() {
	if len(os.Args) < 2 {
		fmt.Fprintln(os.Stderr, "usage: harness gen <id> <tier> <seed>")
		os.Exit(2)
	}
	applyASLimit()
	switch os.Args[1] {
	case "one":
		// run a single op (used for isolation: the parent treats a crash as the op's outcome)
		ex, ok := executors[os.Args[2]]
		if !ok {
			fmt.Println("unknown-op")
			return
		}
		args := os.Args[3:]
		if len(args) == 1 && args[0] == "@stdin" {
			// arguments too long for a command line arrive on standard input, space separated
			b, _ := io.ReadAll(os.Stdin)
			args = strings.Split(strings.TrimSpace(string(b)), " ")
		}
		fmt.Println(safe(func() string { return ex(args) }))
	case "racechild":
		seed, _ := strconv.ParseUint(os.Args[3], 10, 64)
		g, _ := strconv.Atoi(os.Args[4])
		p, _ := strconv.Atoi(os.Args[5])
		fmt.Println(raceChild(os.Args[2], seed, g, p))
	case "gen":
		id, tier := os.Args[2], os.Args[3]
		seed, _ := strconv.ParseUint(os.Args[4], 10, 64)
		e := newEmitter()
		g, ok := generators[id]
		if !ok {
			fmt.Fprintln(os.Stderr, "no generator for", id)
			os.Exit(2)
		}
		g(e, tier, seed)
		e.close()
	case "exec":
		// read "<op> <args>[\t…]" lines, execute each against the implementation
		e := newEmitter()
		sc := bufio.NewScanner(os.Stdin)
		sc.Buffer(make([]byte, 1<<20), 1<<30)
		for sc.Scan() {
			line := sc.Text()
			if i := strings.IndexByte(line, '\t'); i >= 0 {
				line = line[:i]
			}
			if line == "" || line[0] == '#' {
				continue
			}
			f := strings.Split(line, " ")
			if _, ok := executors[f[0]]; !ok {
				e.emit(f[0], strings.Join(f[1:], " "), "unknown-op")
				continue
			}
			e.run(f[0], f[1:]...)
		}
		e.close()
	default:
		fmt.Fprintln(os.Stderr, "unknown command")
		os.Exit(2)
	}
}

var generators = map[string]func(*emitter, string, uint64){
	"C01": genC01,
}
