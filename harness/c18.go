package main

import (
	"bytes"
	"context"
	"encoding/json"
	"fmt"
	"os"
	"os/exec"
	"regexp"
	"runtime"
	"sort"
	"strings"
	"sync"
	"time"

	"github.com/libsv/go-bt/v2"
	"github.com/libsv/go-bt/v2/bscript/interpreter"
	"github.com/libsv/go-bt/v2/sighash"
	"github.com/libsv/go-bt/v2/unlocker"
)

// ---------------------------------------------------------------------------------------------
// C18: every scenario runs in a child process built with the race detector (work/harness-race);
// the child prints one result line; a detected race kills it (GORACE halt_on_error) and the parent
// summarises the report.
// ---------------------------------------------------------------------------------------------

var fqMethods = []string{"Fee", "AddQuote", "Expiry", "UpdateExpiry", "Expired", "MarshalJSON", "UnmarshalJSON"}
var fqsMethods = []string{"Quote", "Fee", "AddMiner", "AddMinerWithDefault", "UpdateMinerFees"}

// tagged fee: Bytes is a function of Satoshis, so a torn or invented value is recognisable
func tagFee(ft bt.FeeType, tag int) *bt.Fee {
	return &bt.Fee{FeeType: ft, MiningFee: bt.FeeUnit{Satoshis: tag, Bytes: 2*tag + 1}, RelayFee: bt.FeeUnit{Satoshis: tag + 7, Bytes: 3*tag + 2}}
}

func feeOK(f *bt.Fee) bool {
	if f == nil {
		return false
	}
	t := f.MiningFee.Satoshis
	if f.MiningFee.Bytes == 2*t+1 && f.RelayFee.Satoshis == t+7 && f.RelayFee.Bytes == 3*t+2 && t >= 1000 {
		return true
	}
	// the two defaults of NewFeeQuote
	return f.MiningFee.Satoshis == 5 && f.MiningFee.Bytes == 100 && f.RelayFee.Satoshis == 5 && f.RelayFee.Bytes == 100
}

// per-goroutine statistics: no lock here, because a lock shared by the goroutines would order their accesses
// (happens-before) and hide exactly the races this harness looks for
type raceStats struct {
	reads int
	bad   []string
}

func (s *raceStats) read(ok bool, what string) {
	s.reads++
	if !ok && len(s.bad) < 3 {
		s.bad = append(s.bad, what)
	}
}

var epoch0 = time.Now().UTC().Add(-time.Hour)

func callFQ(fq *bt.FeeQuote, m string, tag int, st *raceStats) {
	ft := []bt.FeeType{bt.FeeTypeStandard, bt.FeeTypeData}[tag%2]
	switch m {
	case "Fee":
		f, err := fq.Fee(ft)
		st.read(err == nil && feeOK(f), fmt.Sprintf("Fee(%s)=%+v,%v", ft, f, err))
	case "AddQuote":
		fq.AddQuote(ft, tagFee(ft, 1000+tag))
	case "Expiry":
		e := fq.Expiry()
		// either the construction time or a tagged second
		ok := e.After(epoch0) || (e.Unix() >= 1000 && e.Unix() < 100000000 && e.Nanosecond() == 0)
		st.read(ok, "Expiry="+e.String())
	case "UpdateExpiry":
		fq.UpdateExpiry(time.Unix(int64(1000+tag), 0).UTC())
	case "Expired":
		_ = fq.Expired()
		st.read(true, "")
	case "MarshalJSON":
		b, err := fq.MarshalJSON()
		ok := err == nil
		if ok {
			m := map[bt.FeeType]*bt.Fee{}
			if e := json.Unmarshal(b, &m); e != nil {
				ok = false
			}
			for _, f := range m {
				if !feeOK(f) {
					ok = false
				}
			}
		}
		st.read(ok, "MarshalJSON="+string(b))
	case "UnmarshalJSON":
		b, _ := json.Marshal(map[bt.FeeType]*bt.Fee{bt.FeeTypeStandard: tagFee(bt.FeeTypeStandard, 1000+tag), bt.FeeTypeData: tagFee(bt.FeeTypeData, 2000+tag)})
		if err := fq.UnmarshalJSON(b); err != nil {
			st.read(false, "UnmarshalJSON: "+err.Error())
		}
	}
}

func callFQs(fqs *bt.FeeQuotes, m string, tag int, st *raceStats) {
	miner := []string{"m0", "m1", "m2"}[tag%3]
	ft := []bt.FeeType{bt.FeeTypeStandard, bt.FeeTypeData}[tag%2]
	switch m {
	case "Quote":
		q, err := fqs.Quote(miner)
		if err == nil {
			f, e2 := q.Fee(ft)
			st.read(e2 == nil && feeOK(f), fmt.Sprintf("Quote(%s).Fee=%+v,%v", miner, f, e2))
		} else {
			st.read(miner != "m0", "Quote(m0) missing")
		}
	case "Fee":
		f, err := fqs.Fee(miner, ft)
		st.read((err == nil && feeOK(f)) || (err != nil && miner != "m0"), fmt.Sprintf("Fees.Fee(%s)=%+v,%v", miner, f, err))
	case "AddMiner":
		q := bt.NewFeeQuote()
		q.AddQuote(ft, tagFee(ft, 1000+tag))
		fqs.AddMiner(miner, q)
	case "AddMinerWithDefault":
		fqs.AddMinerWithDefault(miner)
	case "UpdateMinerFees":
		_, _ = fqs.UpdateMinerFees(miner, ft, tagFee(ft, 1000+tag))
	}
}

// engine scenario: distinct signed transactions (half of them invalidated) validated by one engine
type engCase struct {
	tx     *bt.Tx
	idx    int
	prev   *bt.Output
	legacy bool // signed with a hash type without the FORKID bit: validated without the FORKID flag
}

func engineCases(r *rng, n int, long ...bool) []engCase {
	var cs []engCase
	for i := 0; i < n; i++ {
		k := genKey(r)
		tx := &bt.Tx{Version: 1, LockTime: 0}
		nIn := 1 + r.n(3)
		for j := 0; j < nIn; j++ {
			tx.Inputs = append(tx.Inputs, mkInput(r.bytes(32), uint32(r.n(3)), nil, 0xffffffff, uint64(1000+r.n(5000)), scr(p2pkhOf(k))))
		}
		for j := 0; j < 1+r.n(3); j++ {
			tx.Outputs = append(tx.Outputs, &bt.Output{Satoshis: uint64(r.n(900)), LockingScript: scr(p2pkhOf(genKey(r)))})
		}
		if len(long) > 0 && long[0] {
			// a data output longer than the decoder's 64 KiB read chunk, different in every transaction: each signature
			// check clones the transaction, i.e. serialises and re-reads every script
			ds := append([]byte{0x00, 0x6a}, pushOf(r.bytes(65537+r.n(40000)))...)
			tx.Outputs = append(tx.Outputs, &bt.Output{Satoshis: 0, LockingScript: scr(ds)})
		}
		pos := r.n(nIn)
		hts := []sighash.Flag{0x41, 0x42, 0x43, 0xc1, 0xc3}
		legacy := i%2 == 1
		if legacy {
			hts = []sighash.Flag{0x01, 0x02, 0x03, 0x81, 0x83}
		}
		if err := tx.FillInput(context.Background(), &unlocker.Simple{PrivateKey: k.priv}, bt.UnlockerParams{InputIdx: uint32(pos), SigHashFlags: hts[r.n(len(hts))]}); err != nil {
			panic(err)
		}
		prev := &bt.Output{Satoshis: tx.Inputs[pos].PreviousTxSatoshis, LockingScript: scr(p2pkhOf(k))}
		switch r.n(4) {
		case 0:
			prev.Satoshis++ // FORKID commits to the value: must be rejected
		case 1:
			tx.Version++
		}
		cs = append(cs, engCase{tx, pos, prev, legacy})
	}
	return cs
}

func execVerdict(eng interpreter.Engine, c engCase) string {
	opts := []interpreter.ExecutionOptionFunc{interpreter.WithTx(c.tx, c.idx, c.prev), interpreter.WithAfterGenesis()}
	if !c.legacy {
		opts = append(opts, interpreter.WithForkID())
	}
	err := eng.Execute(opts...)
	if err != nil {
		return "r"
	}
	return "a"
}

// raceChild runs one scenario in-process (meant for the -race binary) and prints a result line
func raceChild(scenario string, seed uint64, g, procs int) string {
	runtime.GOMAXPROCS(procs)
	r := newRng(seed)
	var all []*raceStats
	newStats := func() *raceStats { s := &raceStats{}; all = append(all, s); return s }
	iters := 300
	parts := strings.Split(scenario, ":")
	var wg sync.WaitGroup
	start := make(chan struct{})
	switch parts[0] {
	case "fq", "fqs":
		a, b := parts[1], parts[2]
		fq := bt.NewFeeQuote()
		fqs := bt.NewFeeQuotes("m0")
		for i := 0; i < g; i++ {
			m := a
			if i%2 == 1 {
				m = b
			}
			base := i * 100000
			st := newStats()
			wg.Add(1)
			go func() {
				defer wg.Done()
				<-start
				for k := 0; k < iters; k++ {
					if parts[0] == "fq" {
						callFQ(fq, m, base+k, st)
					} else {
						callFQs(fqs, m, base+k, st)
					}
				}
			}()
		}
	case "fqsq":
		// a container method against a quote method on a quote that lives *inside* the container (obtained once through
		// Quote): the container's lock does not guard the quote's own fields
		a, b := parts[1], parts[2]
		fqs := bt.NewFeeQuotes("m0")
		inner, err := fqs.Quote("m0")
		if err != nil {
			return "child-failed no-quote"
		}
		for i := 0; i < g; i++ {
			i := i
			base := i * 100000
			st := newStats()
			wg.Add(1)
			go func() {
				defer wg.Done()
				<-start
				for k := 0; k < iters; k++ {
					if i%2 == 0 {
						callFQs(fqs, a, (base+k)*3, st) // *3: always miner m0
					} else {
						callFQ(inner, b, base+k, st)
					}
				}
			}()
		}
	case "engine", "enginelong":
		cases := engineCases(r, 24, false)
		if parts[0] == "enginelong" {
			cases = engineCases(r, 8, true)
		}
		eng := interpreter.NewEngine()
		want := make([]string, len(cases))
		for i, c := range cases {
			want[i] = execVerdict(interpreter.NewEngine(), c)
		}
		for i := 0; i < g; i++ {
			off := i
			// the property is about *different* transactions: every goroutine validates its own
			// transaction objects (Execute records the spent output on the checked input)
			mine := make([]engCase, len(cases))
			for j, c := range cases {
				mine[j] = engCase{parseDesc(descTx(c.tx)), c.idx, &bt.Output{Satoshis: c.prev.Satoshis, LockingScript: scr(append([]byte{}, *c.prev.LockingScript...))}, c.legacy}
			}
			st := newStats()
			wg.Add(1)
			go func() {
				defer wg.Done()
				<-start
				for k := 0; k < 3*len(mine); k++ {
					j := (off*7 + k) % len(mine)
					got := execVerdict(eng, mine[j])
					st.read(got == want[j], fmt.Sprintf("case %d: concurrent=%s sequential=%s", j, got, want[j]))
				}
			}()
		}
	case "scripts":
		// every opcode 0x4f..0xb9 on three random operands, in both eras, with the final stacks compared
		type prog struct {
			flags uint64
			lock  []byte
		}
		var progs []prog
		for op := 0x4f; op <= 0xb9; op++ {
			for _, fl := range []uint64{0, uint64(fAfterGenesis)} {
				var lock []byte
				for k := 0; k < 3; k++ {
					lock = append(lock, rawPush(r.bytes(1+r.n(40)))...)
				}
				if op == 0x7f || op == 0x80 || op == 0x98 || op == 0x99 { // SPLIT / NUM2BIN / shifts want a small count on top
					lock = append(lock, rawPush([]byte{byte(r.n(8))})...)
				}
				progs = append(progs, prog{fl, append(lock, byte(op))})
			}
		}
		// small-number arithmetic whose results are then compared byte for byte (victims of any shared table of number
		// encodings), placed FIRST so that their sequential verdicts are taken before anything else has run …
		var head []prog
		for n := 2; n <= 16; n++ {
			for _, fl := range []uint64{0, uint64(fAfterGenesis)} {
				head = append(head, prog{fl, []byte{0x51, byte(0x50 + n - 1), 0x93, byte(0x50 + n), 0x87}})             // 1 (n-1) ADD n EQUAL
				head = append(head, prog{fl, []byte{byte(0x50 + n), 0x8c, 0x8b, byte(0x50 + n), 0x87}})                 // n 1SUB 1ADD n EQUAL
				head = append(head, prog{fl, []byte{byte(0x50 + n), 0x76, 0x82, 0x51, 0x88, byte(0x50 + n), 0x87}})    // n DUP SIZE 1 EQUALVERIFY n EQUAL
			}
		}
		progs = append(head, progs...)
		// … and operations that widen or extend small numbers in place if their buffers are shared, placed LAST
		for v := 1; v <= 16; v++ {
			for _, fl := range []uint64{0, uint64(fAfterGenesis)} {
				progs = append(progs, prog{fl, []byte{byte(0x50 + v), 0x54, 0x80, 0x75, 0x51}})                           // v 4 NUM2BIN DROP 1
				progs = append(progs, prog{fl, []byte{0x51, byte(0x50 + v - v/16), 0x93, 0x58, 0x80, 0x75, 0x51}})        // 1 v ADD 8 NUM2BIN DROP 1
				progs = append(progs, prog{fl, []byte{byte(0x50 + v), 0x01, 0xff, 0x7e, 0x75, 0x51}})                    // v <ff> CAT DROP 1
			}
		}
		show := func(p prog) string {
			res := implExec(p.flags, nil, p.lock, "-", 0, 0, 1)
			last := ""
			if len(res.trace) > 0 {
				last = res.trace[len(res.trace)-1]
			}
			return res.verdict + " " + last
		}
		want := make([]string, len(progs))
		for i, p := range progs {
			want[i] = show(p)
		}
		if g < 16 {
			g = 16 // opcode handlers are short: many goroutines walking the programs in the same order overlap most
		}
		for i := 0; i < g; i++ {
			off := i % 2
			st := newStats()
			wg.Add(1)
			go func() {
				defer wg.Done()
				<-start
				for k := 0; k < len(progs); k++ {
					j := (off + k) % len(progs)
					p := prog{progs[j].flags, append([]byte{}, progs[j].lock...)}
					got := show(p)
					st.read(got == want[j], fmt.Sprintf("opcode %#x: concurrent=%.60s sequential=%.60s", p.lock[len(p.lock)-1], got, want[j]))
				}
			}()
		}
	default:
		return "unknown-scenario"
	}
	close(start)
	done := make(chan struct{})
	go func() { wg.Wait(); close(done) }()
	select {
	case <-done:
	case <-time.After(120 * time.Second):
		return "timeout (deadlock?)"
	}
	reads := 0
	var bad []string
	for _, st := range all {
		reads += st.reads
		bad = append(bad, st.bad...)
	}
	if len(bad) > 0 {
		if len(bad) > 3 {
			bad = bad[:3]
		}
		return "mismatch " + strings.ReplaceAll(strings.Join(bad, ";"), " ", "_")
	}
	return fmt.Sprintf("ok reads=%d", reads)
}

var raceFn = regexp.MustCompile(`^\s+(github\.com/libsv/go-bt/v2[^\s(]*\.[^\s]*)\(\)`)

// summarise a race report: the first go-bt function of each of the two stacks
func raceSummary(stderr string) string {
	var fns []string
	lines := strings.Split(stderr, "\n")
	for i, l := range lines {
		if strings.Contains(l, " at 0x") && (strings.HasPrefix(l, "Write at") || strings.HasPrefix(l, "Read at") || strings.HasPrefix(l, "Previous write at") || strings.HasPrefix(l, "Previous read at")) {
			for _, m := range lines[i+1:] {
				if strings.TrimSpace(m) == "" {
					break
				}
				if g := raceFn.FindStringSubmatch(m); g != nil {
					fns = append(fns, strings.TrimPrefix(g[1], "github.com/libsv/go-bt/v2"))
					break
				}
			}
		}
		if len(fns) == 2 {
			break
		}
	}
	sort.Strings(fns)
	return strings.Join(fns, "|")
}

func init() {
	// C18.race <scenario> <seed> <goroutines> <gomaxprocs>
	executors["C18.race"] = func(a []string) string {
		self, _ := os.Executable()
		bin := os.Getenv("VERIF_RACE_BIN")
		if bin == "" {
			bin = self + "-race"
		}
		cmd := exec.Command(bin, "racechild", a[0], a[1], a[2], a[3])
		for _, kv := range os.Environ() {
			if !strings.HasPrefix(kv, "VERIF_AS_LIMIT=") {
				cmd.Env = append(cmd.Env, kv)
			}
		}
		cmd.Env = append(cmd.Env, "GORACE=halt_on_error=1 exitcode=66")
		var out, errb bytes.Buffer
		cmd.Stdout, cmd.Stderr = &out, &errb
		err := cmd.Run()
		if strings.Contains(errb.String(), "DATA RACE") {
			return "race " + raceSummary(errb.String())
		}
		if err != nil {
			msg := strings.TrimSpace(errb.String())
			if len(msg) > 200 {
				msg = msg[:200]
			}
			return "child-failed " + strings.ReplaceAll(strings.ReplaceAll(err.Error()+":"+msg, " ", "_"), "\n", "/")
		}
		return strings.TrimSpace(out.String())
	}
	generators["C18"] = genC18
}

func genC18(e *emitter, tier string, seed uint64) {
	r := newRng(seed ^ 0xC18)
	quick := tier == "quick"
	configs := [][2]int{{4, 4}}
	if !quick {
		configs = [][2]int{{2, 1}, {2, 2}, {4, 4}, {8, 2}, {16, 16}, {32, 4}}
	}
	run := func(sc string, g, p int) {
		res := e.run("C18.race", sc, fmt.Sprint(r.u64()%1000000), fmt.Sprint(g), fmt.Sprint(p))
		e.note("race." + strings.Fields(res)[0])
		e.note("scenario." + strings.Split(sc, ":")[0])
	}
	for _, c := range configs {
		for i, a := range fqMethods {
			for _, b := range fqMethods[i:] {
				run("fq:"+a+":"+b, c[0], c[1])
			}
		}
		for i, a := range fqsMethods {
			for _, b := range fqsMethods[i:] {
				run("fqs:"+a+":"+b, c[0], c[1])
			}
		}
		// every container method (re-registering the miner included) against every quote method on the quote held from
		// an earlier Quote(name)
		for _, a := range fqsMethods {
			for _, b := range fqMethods {
				run("fqsq:"+a+":"+b, c[0], c[1])
			}
		}
		// a race needs two executions to overlap in time: several runs with different seeds and widths (one run of
		// 4 goroutines caught a seeded race in signature hashing in 10 of 12 tries; three runs miss it about 1 in 200)
		run("engine", c[0], c[1])
		run("engine", c[0]*2, c[1])
		run("engine", c[0]*2, c[1]*2)
		run("enginelong", c[0], c[1])
		run("scripts", c[0], c[1])
	}
}
