package main

// Output constructors of txoutput.go and the script helpers behind them (C15: "every way of building a P2PKH locking
// script"; C14: the OP_RETURN data template as the library itself builds it; C13: push-data helpers taking strings).
// A function-coverage run of all quick checks (VERIF_COVERDIR, bin/cover) showed none of these was reached by any stream.

import (
	"context"
	"bytes"
	"encoding/hex"
	"fmt"
	"strconv"
	"strings"

	"github.com/libsv/go-bt/v2"
	"github.com/libsv/go-bt/v2/bscript"
)

func descOuts(tx *bt.Tx) string {
	var xs []string
	for _, o := range tx.Outputs {
		xs = append(xs, fmt.Sprintf("%d:%s", o.Satoshis, optHexE(o.LockingScript)))
	}
	if len(xs) == 0 {
		return "-"
	}
	return strings.Join(xs, ",")
}

func optHexE(s *bscript.Script) string {
	if s == nil {
		return "nil"
	}
	if len(*s) == 0 {
		return "e"
	}
	return hex.EncodeToString(*s)
}

func partsArg(s string) [][]byte {
	if s == "-" {
		return [][]byte{}
	}
	var ps [][]byte
	for _, h := range strings.Split(s, ",") {
		if h == "e" {
			ps = append(ps, []byte{})
		} else {
			ps = append(ps, mustHex(h))
		}
	}
	return ps
}

func init() {
	// C15.out <pubkey hex> <mainnet> <sats>: every transaction-level route to a P2PKH output, on one transaction
	executors["C15.out"] = func(a []string) string {
		key := mustHex(a[0])
		mainnet := a[1] == "1"
		sats := mustU(a[2], 64)
		return q(func() string {
			ad, err := bscript.NewAddressFromPublicKeyString(a[0], mainnet)
			if err != nil {
				return "err-addr"
			}
			tx := bt.NewTx()
			var errs []string
			note := func(err error) {
				if err != nil {
					errs = append(errs, "1")
				} else {
					errs = append(errs, "0")
				}
			}
			// the caller's key bytes as a window of a larger live buffer
			kbuf := make([]byte, 0, len(key)+40)
			kbuf = append(append(kbuf, key...), bytes.Repeat([]byte{0x5c}, 40)...)
			kbefore := append([]byte{}, kbuf...)
			note(tx.AddP2PKHOutputFromPubKeyBytes(kbuf[:len(key)], sats))
			note(tx.AddP2PKHOutputFromPubKeyStr(a[0], sats+1))
			note(tx.AddP2PKHOutputFromPubKeyHashStr(ad.PublicKeyHash, sats+2))
			note(tx.AddP2PKHOutputFromAddress(ad.AddressString, sats+3))
			s, err := bscript.NewP2PKHFromPubKeyStr(a[0])
			if err != nil {
				return "err-script"
			}
			note(tx.AddP2PKHOutputFromScript(s, sats+4))
			note(tx.PayTo(s, sats+5))
			note(tx.PayToAddress(ad.AddressString, sats+6))
			// scripts that are not the template are refused and nothing is added
			n0 := len(tx.Outputs)
			longer := bscript.Script(append(append([]byte{}, *s...), 0x61))
			shorter := bscript.Script((*s)[:len(*s)-1])
			empty := bscript.Script{}
			rej := ""
			for _, bad := range []*bscript.Script{&longer, &shorter, &empty} {
				rej += b01(tx.AddP2PKHOutputFromScript(bad, 1) != nil && tx.PayTo(bad, 1) != nil)
			}
			if len(tx.Outputs) != n0 {
				rej += "+added"
			}
			if !bytes.Equal(kbuf, kbefore) {
				rej += "+caller-buffer-changed"
			}
			return fmt.Sprintf("errs=%s outs=%s rej=%s total=%d", strings.Join(errs, ""), descOuts(tx), rej, tx.TotalOutputSatoshis())
		})
	}
	// C14.opret <parts>: the OP_FALSE OP_RETURN output as the library builds it, through its three entry points and the
	// string variant of the push helper, and what the inspection functions say about it
	executors["C14.opret"] = func(a []string) string {
		parts := partsArg(a[0])
		return q(func() string {
			o, err := bt.CreateOpReturnOutput(parts)
			if err != nil {
				return "err-create"
			}
			tx := bt.NewTx()
			if err := tx.AddOpReturnPartsOutput(parts); err != nil {
				return "err-parts"
			}
			single := "n/a"
			if len(parts) == 1 {
				if err := tx.AddOpReturnOutput(parts[0]); err != nil {
					return "err-single"
				}
				single = optHexE(tx.Outputs[1].LockingScript)
			}
			strs := make([]string, len(parts))
			for i, p := range parts {
				strs[i] = string(p)
			}
			ss := &bscript.Script{}
			_ = ss.AppendOpcodes(bscript.OpFALSE, bscript.OpRETURN)
			if err := ss.AppendPushDataStrings(strs); err != nil {
				return "err-strings"
			}
			dec, err := bscript.DecodeStringParts(o.LockingScript.String())
			decs := "err"
			if err == nil {
				var xs []string
				for _, d := range dec {
					xs = append(xs, optHexB(d))
				}
				decs = strings.Join(xs, ",")
			}
			plain := bt.NewTx()
			_ = plain.AddP2PKHOutputFromPubKeyHashStr(strings.Repeat("11", 20), 5)
			return fmt.Sprintf("script=%s parts=%s single=%s strs=%s sats=%d type=%s data=%s has=%s hasnot=%s dec=%s eq=%s",
				optHexE(o.LockingScript), optHexE(tx.Outputs[0].LockingScript), single, optHexE(ss), o.Satoshis, o.LockingScript.ScriptType(),
				b01(o.LockingScript.IsData()), b01(tx.HasDataOutputs()), b01(plain.HasDataOutputs()), decs,
				b01(o.LockingScript.EqualsBytes(*tx.Outputs[0].LockingScript) && o.LockingScript.EqualsHex(hex.EncodeToString(*ss)) &&
					!o.LockingScript.EqualsBytes(append([]byte{0}, *ss...))))
		})
	}
	// C14.puzzle <secret hex> <pkh hex> <sats>: the hash-puzzle output
	executors["C14.puzzle"] = func(a []string) string {
		secret := ""
		if a[0] != "e" {
			secret = string(mustHex(a[0]))
		}
		pkh := a[1]
		if pkh == "e" {
			pkh = ""
		}
		sats := mustU(a[2], 64)
		return q(func() string {
			tx := bt.NewTx()
			if err := tx.AddHashPuzzleOutput(secret, pkh, sats); err != nil {
				return "err"
			}
			o := tx.Outputs[0]
			return fmt.Sprintf("script=%s sats=%d type=%s n=%d", optHexE(o.LockingScript), o.Satoshis, o.LockingScript.ScriptType(), len(tx.Outputs))
		})
	}
	// C01.misc <txdesc> <index> <script hex|->: small accessors and the serialisation with cleared inputs
	executors["C01.misc"] = func(a []string) string {
		tx := parseDesc(a[0])
		idx, _ := strconv.Atoi(a[1])
		var ls []byte
		if a[2] != "-" {
			ls = []byte{}
			if a[2] != "e" {
				ls = mustHex(a[2])
			}
		}
		return q(func() string {
			return fmt.Sprintf("cb=%s in=%s out=%s cleared=%s nin=%d nout=%d", b01(tx.IsCoinbase()), b01(tx.InputIdx(idx) != nil), b01(tx.OutputIdx(idx) != nil),
				hex.EncodeToString(tx.BytesWithClearedInputs(idx, ls)), tx.InputCount(), tx.OutputCount())
		})
	}
}

func optHexB(b []byte) string {
	if len(b) == 0 {
		return "e"
	}
	return hex.EncodeToString(b)
}

// genOutputs: the streams of the output constructors (called from the C14 and C15 generators)
func genOutC15(e *emitter, r *rng, n int) {
	for i := 0; i < n; i++ {
		var key []byte
		if i%3 == 0 {
			key = genKey(r).pubC
		} else {
			key = append([]byte{byte(2 + r.n(2))}, r.bytes(32)...)
		}
		sats := []uint64{0, 1, 546, 2100000000000000, 1 << 63, ^uint64(0) - 6, ^uint64(0) - 3, r.u64()}[r.n(8)]
		e.run("C15.out", hex.EncodeToString(key), b01(r.chance(50)), strconv.FormatUint(sats, 10))
		e.note("out.p2pkh-constructors")
	}
}

func genOutC14(e *emitter, r *rng, n int) {
	lens := []int{0, 1, 2, 75, 76, 77, 255, 256, 257, 520, 521, 65535, 65536}
	enc := func(ps [][]byte) string {
		if len(ps) == 0 {
			return "-"
		}
		xs := make([]string, len(ps))
		for i, p := range ps {
			xs[i] = optHexB(p)
		}
		return strings.Join(xs, ",")
	}
	e.run("C14.opret", "-")
	for _, l := range lens {
		e.run("C14.opret", enc([][]byte{r.bytes(l)}))
		e.note("opret.single-boundary")
	}
	for b := 0; b < 256; b++ {
		e.run("C14.opret", enc([][]byte{{byte(b)}}))
		e.note("opret.one-byte")
	}
	for i := 0; i < n; i++ {
		k := 1 + r.n(5)
		var ps [][]byte
		for j := 0; j < k; j++ {
			l := lens[r.n(9)]
			if r.chance(50) {
				l = r.n(40)
			}
			ps = append(ps, r.bytes(l))
		}
		e.run("C14.opret", enc(ps))
		e.note("opret.parts")
	}
	for i := 0; i < n; i++ {
		secret := optHexB(r.bytes([]int{0, 1, 8, 32, 100}[r.n(5)]))
		pkh := optHexB(r.bytes([]int{20, 20, 20, 0, 1, 19, 21, 75, 76, 300}[r.n(10)]))
		e.run("C14.puzzle", secret, pkh, strconv.FormatUint(r.u64()>>uint(r.n(64)), 10))
		e.note("puzzle")
	}
	e.run("C14.puzzle", "e", "zz", "1") // not hex: refused
}

func genMiscC01(e *emitter, r *rng, n int) {
	for i := 0; i < n; i++ {
		tx := genTx(r, r.n(4), r.n(4), false)
		if r.chance(30) && len(tx.Inputs) >= 1 {
			_ = tx.Inputs[0].PreviousTxIDAdd(make([]byte, 32))
			if r.chance(50) {
				tx.Inputs[0].PreviousTxOutIndex = 0xffffffff
			}
			if r.chance(50) {
				tx.Inputs[0].SequenceNumber = 0xffffffff
			}
			if r.chance(50) {
				tx.Inputs = tx.Inputs[:1]
			}
			e.note("misc.coinbase-like")
		}
		ls := "-"
		switch r.n(4) {
		case 0:
			ls = "e"
		case 1, 2:
			ls = hex.EncodeToString(r.bytes([]int{1, 25, 252, 253, 300}[r.n(5)]))
		}
		e.run("C01.misc", descTx(tx), strconv.Itoa(r.n(5)), ls)
		e.note("misc")
	}
}

func init() {
	// C12.fromtx <previous tx> <pubkey hex>: Tx.AddP2PKHInputsFromTx on a fresh transaction
	executors["C12.fromtx"] = func(a []string) string {
		pvs := parseDesc(a[0])
		key := mustHex(a[1])
		return safe(func() string {
			tx := bt.NewTx()
			err := tx.AddP2PKHInputsFromTx(pvs, key)
			oc := "ok"
			if err != nil {
				oc = "err"
			}
			var xs []string
			for _, in := range tx.Inputs {
				xs = append(xs, descInput(in))
			}
			return fmt.Sprintf("%s n=%d in=%s", oc, len(tx.Inputs), strings.Join(xs, ","))
		})
	}
}

// previous transactions some of whose outputs pay to the key: exact P2PKH, P2PKH-shaped with a longer / shorter / empty
// hash push, other templates, data outputs and undecodable scripts in between (the first of those ends the scan)
func genFromTxC12(e *emitter, r *rng, n int) {
	for i := 0; i < n; i++ {
		k := genKey(r)
		h := hash160(k.pubC)
		pvs := genTx(r, r.n(3), 0, false)
		nOut := r.n(7)
		for j := 0; j < nOut; j++ {
			var s []byte
			switch r.n(10) {
			case 0, 1, 2, 3:
				s = append(append([]byte{0x76, 0xa9, 0x14}, h...), 0x88, 0xac)
			case 4:
				s = p2pkhScript(r) // somebody else's
			case 5:
				s = append(append([]byte{0x76, 0xa9, 0x14}, h...), 0x88, 0xac, 0x61) // same hash, not the template
			case 6:
				s = append(append([]byte{0x76, 0xa9, 0x4c, 0x14}, h...), 0x88, 0xac) // PUSHDATA1 form of the hash
			case 7:
				if r.chance(50) {
					s = tmplData(r)
				} else {
					s = []byte{}
				}
			case 8:
				s = append([]byte{0x76, 0xa9, 0x15}, h...) // push announces more than there is
			default:
				s = append(append(append([]byte{0x76, 0xa9, 0x14}, h...), 0x88, 0xac), tmplInscription(r)[25:]...)
			}
			pvs.Outputs = append(pvs.Outputs, &bt.Output{Satoshis: r.u64() >> uint(20+r.n(44)), LockingScript: scr(s)})
		}
		res := e.run("C12.fromtx", descTx(pvs), hex.EncodeToString(k.pubC))
		e.note("fromtx." + strings.Fields(res)[0])
	}
}

func init() {
	// C11.noquote <txdesc> <n|s|d|z>: every fee-dependent operation with a quote that cannot answer (nil quote, standard
	// or data fee missing, zero-value FeeQuote): each must return an error, never a number, and leave the transaction alone
	executors["C11.noquote"] = func(a []string) string {
		mk := func() *bt.FeeQuote {
			switch a[1] {
			case "n":
				return nil
			case "s":
				return bt.NewFeeQuote().AddQuote(bt.FeeTypeStandard, nil)
			case "d":
				return bt.NewFeeQuote().AddQuote(bt.FeeTypeData, nil)
			}
			return &bt.FeeQuote{}
		}
		return safe(func() string {
			var out []string
			run := func(name string, f func(tx *bt.Tx, fq *bt.FeeQuote) error) {
				tx := parseDesc(a[0])
				before := descTx(tx)
				err := f(tx, mk())
				r := "ok"
				if err != nil {
					r = "err"
				}
				if descTx(tx) != before {
					r += "+changed"
				}
				out = append(out, name+"="+r)
			}
			run("paid", func(tx *bt.Tx, fq *bt.FeeQuote) error { _, err := tx.IsFeePaidEnough(fq); return err })
			run("estpaid", func(tx *bt.Tx, fq *bt.FeeQuote) error { _, err := tx.EstimateIsFeePaidEnough(fq); return err })
			run("estfees", func(tx *bt.Tx, fq *bt.FeeQuote) error { _, err := tx.EstimateFeesPaid(fq); return err })
			run("change", func(tx *bt.Tx, fq *bt.FeeQuote) error { return tx.Change(scr([]byte{0x51}), fq) })
			run("changeto", func(tx *bt.Tx, fq *bt.FeeQuote) error { return tx.ChangeToExistingOutput(0, fq) })
			run("changeaddr", func(tx *bt.Tx, fq *bt.FeeQuote) error { return tx.ChangeToAddress("1BoatSLRHtKNngkdXEeobR76b53LETtpyT", fq) })
			run("fund", func(tx *bt.Tx, fq *bt.FeeQuote) error {
				return tx.Fund(context.Background(), fq, func(ctx context.Context, deficit uint64) ([]*bt.UTXO, error) {
					return nil, bt.ErrNoUTXO
				})
			})
			return strings.Join(out, " ")
		})
	}
}

func genNoQuoteC11(e *emitter, r *rng, n int) {
	for i := 0; i < n; i++ {
		tx := genFeeTx(r, r.n(4), r.n(4), 30, 40)
		e.run("C11.noquote", descTx(tx), []string{"n", "s", "d", "z"}[i%4])
		e.note("noquote")
	}
}
