package main

import (
	"bytes"
	"encoding/hex"
	"fmt"
	"strconv"
	"strings"

	"github.com/libsv/go-bt/v2"
	"github.com/libsv/go-bt/v2/bscript"
)

// ---------- structured transaction generator ----------

var lenClasses = []int{0, 1, 2, 25, 107, 252, 253, 254, 300}
var bigLenClasses = []int{65535, 65536, 65537}
var u32Edges = []uint32{0, 1, 2, 0xEF, 0xEF000000, 0x7fffffff, 0x80000000, 0xfffffffe, 0xffffffff}
var u64Edges = []uint64{0, 1, 546, 1<<32 - 1, 1 << 32, 1 << 63, 1<<64 - 1, 2100000000000000}

func (r *rng) u32edge() uint32 {
	if r.chance(50) {
		return u32Edges[r.n(len(u32Edges))]
	}
	return uint32(r.u64())
}
func (r *rng) u64edge() uint64 {
	if r.chance(50) {
		return u64Edges[r.n(len(u64Edges))]
	}
	return r.u64()
}
func (r *rng) scriptLen(big bool) int {
	if big && r.chance(10) {
		return bigLenClasses[r.n(len(bigLenClasses))]
	}
	if r.chance(70) {
		return lenClasses[r.n(len(lenClasses))]
	}
	return r.n(600)
}

// genTx builds a transaction with nIn inputs and nOut outputs. mode: 0 std-ish (no prev fields),
// 1 extended-ish (prev fields set, sometimes nil prev script), 2 mixed with nil unlocking scripts.
func genTx(r *rng, nIn, nOut int, big bool) *bt.Tx {
	tx := &bt.Tx{Version: r.u32edge(), LockTime: r.u32edge()}
	small := nIn+nOut > 300
	for i := 0; i < nIn; i++ {
		var ul, prev []byte
		l := r.scriptLen(big)
		if small {
			l = r.n(3)
		}
		ul = r.bytes(l)
		in := mkInput(r.bytes(32), r.u32edge(), scr(ul), r.u32edge(), 0, nil)
		if r.chance(15) {
			in.UnlockingScript = nil
		}
		if r.chance(60) {
			in.PreviousTxSatoshis = r.u64edge()
			pl := r.scriptLen(big)
			if small {
				pl = r.n(3)
			}
			prev = r.bytes(pl)
			if !r.chance(20) {
				in.PreviousTxScript = scr(prev)
			}
		}
		tx.Inputs = append(tx.Inputs, in)
	}
	for i := 0; i < nOut; i++ {
		l := r.scriptLen(big)
		if small {
			l = r.n(3)
		}
		tx.Outputs = append(tx.Outputs, &bt.Output{Satoshis: r.u64edge(), LockingScript: scr(r.bytes(l))})
	}
	return tx
}

func nontrivialTx(tx *bt.Tx) bool {
	if len(tx.Inputs)+len(tx.Outputs) == 0 {
		return false
	}
	for _, in := range tx.Inputs {
		if in.UnlockingScript != nil && len(*in.UnlockingScript) > 0 {
			return true
		}
	}
	for _, o := range tx.Outputs {
		if len(*o.LockingScript) > 0 {
			return true
		}
	}
	return false
}

// ---------- ops ----------

func implParse(b []byte) string {
	return safe(func() string {
		tx, used, err := bt.NewTxFromStream(b)
		if err != nil {
			return fmt.Sprintf("err n=%d", used)
		}
		return fmt.Sprintf("ok n=%d tx=%s re=%s rex=%s", used, descTx(tx), hex.EncodeToString(tx.Bytes()), hex.EncodeToString(tx.ExtendedBytes()))
	})
}

func implSer(tx *bt.Tx) string {
	return safe(func() string {
		return hex.EncodeToString(tx.Bytes()) + " " + hex.EncodeToString(tx.ExtendedBytes())
	})
}

func implExact(b []byte) string {
	return safe(func() string {
		tx, err := bt.NewTxFromBytes(b)
		if err != nil {
			return "err"
		}
		return "ok tx=" + descTx(tx)
	})
}

func implStream(b []byte) string {
	return safe(func() string {
		var parts []string
		off := 0
		// the streaming pattern with ONE receiver reused for every transaction (Tx.ReadFrom into a Tx that still holds the
		// previous one) must give what a fresh parse gives
		reused := &bt.Tx{}
		_, _ = reused.ReadFrom(bytes.NewReader(mustHex("01000000017f7f7f7f7f7f7f7f7f7f7f7f7f7f7f7f7f7f7f7f7f7f7f7f7f7f7f7f7f7f7f7f0100000001510200000001e80300000000000001520a000000")))
		differs := false
		for off < len(b) {
			fresh, used, err := bt.NewTxFromStream(b[off:])
			n2, err2 := reused.ReadFrom(bytes.NewReader(b[off:]))
			if (err == nil) != (err2 == nil) || (err == nil && (int(n2) != used || !bytes.Equal(reused.ExtendedBytes(), fresh.ExtendedBytes()))) {
				differs = true
			}
			if err != nil {
				parts = append(parts, "err")
				break
			}
			parts = append(parts, strconv.Itoa(used))
			if used == 0 {
				break
			}
			off += used
		}
		if differs {
			parts = append(parts, "reused-receiver-differs")
		}
		return "ns=" + strings.Join(parts, ",")
	})
}

func implTxs(b []byte) string {
	return safe(func() string {
		var txs bt.Txs
		n, err := txs.ReadFrom(bytes.NewReader(b))
		if err != nil {
			return fmt.Sprintf("err n=%d", n)
		}
		ids := make([]string, 0, len(txs))
		for i, t := range txs {
			if i >= 3 {
				break
			}
			ids = append(ids, t.TxID())
		}
		return fmt.Sprintf("ok n=%d c=%d ids=%s", n, len(txs), strings.Join(ids, ","))
	})
}

func ambiguous(tx *bt.Tx) bool {
	return len(tx.Inputs) == 0 && len(tx.Outputs) == 0 && tx.LockTime == 0xEF000000
}

func implClone(tx *bt.Tx) string {
	if ambiguous(tx) {
		// Tx.Clone calls log.Fatal (process exit) on the shape the property excludes; not executed
		return "skipped-ambiguous"
	}
	return safe(func() string {
		before := tx.ExtendedBytes()
		c := tx.Clone()
		if !bytes.Equal(before, tx.ExtendedBytes()) {
			return "mutated-original"
		}
		return hex.EncodeToString(c.ExtendedBytes())
	})
}

func implTxid(tx *bt.Tx) string {
	return safe(func() string { return tx.TxID() + " " + hex.EncodeToString(tx.TxIDBytes()) })
}

// nonMinimal re-encodes a varint value in a longer form (kind 3,5,9)
func nonMinimalVarint(v uint64, kind int) []byte {
	switch kind {
	case 3:
		return []byte{0xfd, byte(v), byte(v >> 8)}
	case 5:
		return []byte{0xfe, byte(v), byte(v >> 8), byte(v >> 16), byte(v >> 24)}
	default:
		return []byte{0xff, byte(v), byte(v >> 8), byte(v >> 16), byte(v >> 24), byte(v >> 32), byte(v >> 40), byte(v >> 48), byte(v >> 56)}
	}
}

func emitTxOps(e *emitter, tx *bt.Tx) {
	d := descTx(tx)
	e.run("C01.ser", d)
	e.run("C01.clone", d)
	e.run("C01.txid", d)
	if nontrivialTx(tx) {
		e.note("tx.nontrivial")
	}
	e.note(fmt.Sprintf("tx.in=%s", bucket(len(tx.Inputs))))
	e.note(fmt.Sprintf("tx.out=%s", bucket(len(tx.Outputs))))
}

func bucket(n int) string {
	switch {
	case n == 0:
		return "0"
	case n < 3:
		return "1-2"
	case n < 252:
		return "3-251"
	case n < 254:
		return "252-253"
	case n < 65535:
		return "254-65534"
	default:
		return ">=65535"
	}
}

func emitBytesOps(e *emitter, b []byte, kind string) {
	h := hex.EncodeToString(b)
	res := e.run("C01.parse", h)
	e.run("C01.exact", h)
	e.note("bytes." + kind)
	e.note("parse." + strings.SplitN(res, " ", 2)[0])
}

func init() {
	executors["C01.parse"] = func(a []string) string { return implParse(mustHex(a[0])) }
	executors["C01.exact"] = func(a []string) string { return implExact(mustHex(a[0])) }
	executors["C01.stream"] = func(a []string) string { return implStream(mustHex(a[0])) }
	executors["C01.txs"] = func(a []string) string { return implTxs(mustHex(a[0])) }
	executors["C01.ser"] = func(a []string) string { return implSer(parseDesc(a[0])) }
	executors["C01.clone"] = func(a []string) string { return implClone(parseDesc(a[0])) }
	executors["C01.txid"] = func(a []string) string { return implTxid(parseDesc(a[0])) }
}

func genC01(e *emitter, tier string, seed uint64) {
	r := newRng(seed)
	quick := tier == "quick"
	// accessors and the cleared-inputs serialisation, on a generator of their own
	if quick {
		genMiscC01(e, newRng(seed^0xC01F), 150)
	} else {
		genMiscC01(e, newRng(seed^0xC01F), 5000)
	}
	counts := []int{0, 1, 2, 3}
	var seeds [][]byte
	// (1) cross product of count classes (small), script-length classes
	for _, ni := range counts {
		for _, no := range counts {
			reps := 6
			if !quick {
				reps = 10
			}
			for k := 0; k < reps; k++ {
				tx := genTx(r, ni, no, !quick || k == 0)
				emitTxOps(e, tx)
				seeds = append(seeds, tx.Bytes(), tx.ExtendedBytes())
			}
		}
	}
	// (2) counts on the varint boundaries
	bcounts := [][2]int{{252, 1}, {253, 1}, {1, 252}, {1, 253}, {254, 254}, {0, 253}, {253, 0}}
	if !quick {
		bcounts = append(bcounts, [2]int{65535, 1}, [2]int{65536, 2}, [2]int{1, 65535}, [2]int{2, 65536})
	}
	for _, c := range bcounts {
		tx := genTx(r, c[0], c[1], false)
		if c[0]+c[1] > 1000 {
			// the 0xfd/0xfe boundary: megabytes per line, so one serialisation op and one parse op only
			e.run("C01.ser", descTx(tx))
			e.run("C01.parse", hex.EncodeToString(tx.Bytes()))
			e.note("boundary-65535")
			continue
		}
		emitTxOps(e, tx)
		emitBytesOps(e, tx.Bytes(), "boundary-std")
		emitBytesOps(e, tx.ExtendedBytes(), "boundary-ext")
	}
	// (2b) script fields beyond the decoder's read-chunk size (65536), random content, in every position:
	// a chunked reader that mixes up its buffers shows only when the chunks differ
	bigLens := []int{65536, 65537, 131073}
	if !quick {
		bigLens = append(bigLens, 131072, 200000, 65536*3+1)
	}
	for _, l := range bigLens {
		for pos := 0; pos < 3; pos++ {
			tx := genTx(r, 1, 1, false)
			tx.Inputs[0].PreviousTxSatoshis = r.u64edge()
			tx.Inputs[0].PreviousTxScript = scr(r.bytes(3))
			switch pos {
			case 0:
				tx.Inputs[0].UnlockingScript = scr(r.bytes(l))
			case 1:
				tx.Outputs[0].LockingScript = scr(r.bytes(l))
			default:
				tx.Inputs[0].PreviousTxScript = scr(r.bytes(l))
			}
			e.run("C01.ser", descTx(tx))
			emitBytesOps(e, tx.Bytes(), "bigscript-std")
			emitBytesOps(e, tx.ExtendedBytes(), "bigscript-ext")
			if pos == 1 {
				cnt := append([]byte{2}, tx.Bytes()...)
				e.run("C01.txs", hex.EncodeToString(append(cnt, tx.Bytes()...)))
			}
		}
	}
	// (3) the ambiguous shape and its neighbours
	for _, lt := range []uint32{0xEF000000, 0xEF, 0xEF000001, 0xEE000000} {
		for _, v := range []uint32{0, 1, 0xffffffff} {
			tx := &bt.Tx{Version: v, LockTime: lt}
			emitTxOps(e, tx)
			emitBytesOps(e, tx.Bytes(), "ambiguous-nbhd")
			emitBytesOps(e, tx.ExtendedBytes(), "ambiguous-nbhd")
			tx2 := genTx(r, 0, 1, false)
			tx2.LockTime = lt
			emitTxOps(e, tx2)
			emitBytesOps(e, tx2.Bytes(), "ambiguous-nbhd")
		}
	}
	// (4) byte strings: valid, truncations, bit flips, non-minimal varints, concatenations, random
	nSeeds := len(seeds)
	lim := 40
	if !quick {
		lim = 60
	}
	for si := 0; si < nSeeds && si < lim; si++ {
		b := seeds[r.n(nSeeds)]
		emitBytesOps(e, b, "valid")
		if len(b) < 400 {
			step := 1
			if quick {
				step = 1 + len(b)/25
			}
			for cut := 0; cut < len(b); cut += step {
				emitBytesOps(e, b[:cut], "truncated")
			}
		}
		for k := 0; k < 6; k++ {
			m := append([]byte{}, b...)
			if len(m) > 0 {
				p := r.n(len(m))
				if p > 80 && r.chance(70) {
					p = r.n(80)
				}
				m[p] ^= 1 << uint(r.n(8))
				emitBytesOps(e, m, "bitflip")
			}
		}
		emitBytesOps(e, append(append([]byte{}, b...), r.bytes(1+r.n(5))...), "trailing")
	}
	// non-minimal varints: rebuild serialisations by hand with each length prefix widened
	for k := 0; k < lim; k++ {
		tx := genTx(r, r.n(3), r.n(3), false)
		for _, ext := range []bool{false, true} {
			for which := 0; which < 2+2*len(tx.Inputs)+len(tx.Outputs); which++ {
				b := serializeWith(tx, ext, which, []int{3, 5, 9}[r.n(3)])
				emitBytesOps(e, b, "nonminimal")
				if quick && which > 3 {
					break
				}
			}
		}
	}
	// a count or length field that claims a wrong value (wrap-around candidates included) in an otherwise valid tx
	lies := []func(v uint64) uint64{
		func(v uint64) uint64 { return v + 1<<63 }, func(v uint64) uint64 { return v + 1<<32 },
		func(v uint64) uint64 { return v + 1<<31 }, func(v uint64) uint64 { return v | 0xffffffff00000000 },
		func(v uint64) uint64 { return 1<<64 - 1 }, func(v uint64) uint64 { return 1 << 63 },
		func(v uint64) uint64 { return v + 1 }, func(v uint64) uint64 { return v + 1<<16 },
	}
	for k := 0; k < lim/4+4; k++ {
		tx := genTx(r, r.n(3), r.n(3), false)
		if r.chance(50) {
			for _, in := range tx.Inputs {
				if r.chance(60) {
					in.UnlockingScript = &bscript.Script{}
				}
			}
			for _, o := range tx.Outputs {
				if r.chance(40) {
					o.LockingScript = &bscript.Script{}
				}
			}
		}
		for _, ext := range []bool{false, true} {
			nv := 2 + len(tx.Inputs) + len(tx.Outputs)
			if ext {
				nv += len(tx.Inputs)
			}
			for which := 0; which < nv; which++ {
				b := serializeLie(tx, ext, which, lies[r.n(len(lies))])
				h := hex.EncodeToString(b)
				res := e.runIsolated("C01.parse", h)
				e.runIsolated("C01.exact", h)
				e.note("bytes.lying-length")
				e.note("parse." + strings.SplitN(res, " ", 2)[0])
			}
		}
	}
	// extended marker with non-minimal zero counts
	{
		tx := genTx(r, 2, 2, false)
		b := tx.ExtendedBytes()
		// version | 00 00 | 000000EF ...  -> widen the two zero counts
		for _, k1 := range []int{1, 3, 5, 9} {
			for _, k2 := range []int{1, 3, 5, 9} {
				m := append([]byte{}, b[:4]...)
				if k1 == 1 {
					m = append(m, 0)
				} else {
					m = append(m, nonMinimalVarint(0, k1)...)
				}
				if k2 == 1 {
					m = append(m, 0)
				} else {
					m = append(m, nonMinimalVarint(0, k2)...)
				}
				m = append(m, b[6:]...)
				emitBytesOps(e, m, "nonminimal-marker")
			}
		}
	}
	// concatenated streams and counted lists
	for k := 0; k < lim/2; k++ {
		n := 1 + r.n(5)
		var cat []byte
		for j := 0; j < n; j++ {
			tx := genTx(r, r.n(3), r.n(3), false)
			if len(tx.Inputs) == 0 && len(tx.Outputs) == 0 {
				tx.LockTime &= 0x00ffffff // keep streams unambiguous
			}
			if r.chance(30) {
				cat = append(cat, tx.ExtendedBytes()...)
			} else {
				cat = append(cat, tx.Bytes()...)
			}
		}
		h := hex.EncodeToString(cat)
		e.run("C01.stream", h)
		cnt := uint64(n)
		if r.chance(25) {
			cnt = uint64(n + 1)
		} else if r.chance(10) && n > 1 {
			cnt = uint64(n - 1)
		}
		lst := append(bt.VarInt(cnt).Bytes(), cat...)
		if r.chance(15) {
			lst = lst[:r.n(len(lst))]
		}
		e.run("C01.txs", hex.EncodeToString(lst))
		e.note("stream")
	}
	// long counted lists of minimal transactions (count prefixes of three bytes; any internal cap on the count shows)
	for _, cnt := range []int{253, 4096, 4097, 5000} {
		lst := bt.VarInt(uint64(cnt)).Bytes()
		for j := 0; j < cnt; j++ {
			lst = append(lst, byte(j), byte(j>>8), 0, 0, 0, 0, byte(j), 0, 0, 0)
		}
		e.run("C01.txs", hex.EncodeToString(lst))
		e.note("stream.long-list")
	}
	// random bytes
	for k := 0; k < lim*5; k++ {
		b := r.bytes(r.n(80))
		if len(b) > 5 && r.chance(50) {
			b[4] = byte(r.n(3)) // plausible input count
		}
		emitBytesOps(e, b, "random")
	}
}

// serializeWith writes tx like toBytesHelper but widens the `which`-th varint to `kind` bytes.
func serializeWith(tx *bt.Tx, ext bool, which int, kind int) []byte {
	return serializeVI(tx, ext, func(idx int, v uint64) []byte {
		if idx == which && bt.VarInt(v).Length() < kind {
			return nonMinimalVarint(v, kind)
		}
		return bt.VarInt(v).Bytes()
	})
}

// serializeLie writes tx with the `which`-th count/length varint claiming `claim` instead of the true value.
func serializeLie(tx *bt.Tx, ext bool, which int, claim func(v uint64) uint64) []byte {
	return serializeVI(tx, ext, func(idx int, v uint64) []byte {
		if idx == which {
			c := claim(v)
			if c >= 1<<32 {
				return nonMinimalVarint(c, 9)
			}
			return bt.VarInt(c).Bytes()
		}
		return bt.VarInt(v).Bytes()
	})
}

func serializeVI(tx *bt.Tx, ext bool, enc func(idx int, v uint64) []byte) []byte {
	idx := 0
	vi := func(v uint64) []byte {
		defer func() { idx++ }()
		return enc(idx, v)
	}
	le32 := func(v uint32) []byte { return []byte{byte(v), byte(v >> 8), byte(v >> 16), byte(v >> 24)} }
	le64 := func(v uint64) []byte {
		return append(le32(uint32(v)), le32(uint32(v>>32))...)
	}
	var h []byte
	h = append(h, le32(tx.Version)...)
	if ext {
		h = append(h, 0, 0, 0, 0, 0, 0xEF)
	}
	h = append(h, vi(uint64(len(tx.Inputs)))...)
	for _, in := range tx.Inputs {
		h = append(h, bt.ReverseBytes(in.PreviousTxID())...)
		h = append(h, le32(in.PreviousTxOutIndex)...)
		var ul []byte
		if in.UnlockingScript != nil {
			ul = *in.UnlockingScript
		}
		h = append(h, vi(uint64(len(ul)))...)
		h = append(h, ul...)
		h = append(h, le32(in.SequenceNumber)...)
		if ext {
			h = append(h, le64(in.PreviousTxSatoshis)...)
			var ps []byte
			if in.PreviousTxScript != nil {
				ps = *in.PreviousTxScript
			}
			h = append(h, vi(uint64(len(ps)))...)
			h = append(h, ps...)
		}
	}
	h = append(h, vi(uint64(len(tx.Outputs)))...)
	for _, o := range tx.Outputs {
		h = append(h, le64(o.Satoshis)...)
		h = append(h, vi(uint64(len(*o.LockingScript)))...)
		h = append(h, *o.LockingScript...)
	}
	return append(h, le32(tx.LockTime)...)
}
