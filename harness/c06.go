package main

import (
	"fmt"
	"math/big"
	"strings"

	"github.com/libsv/go-bk/bec"
	"github.com/libsv/go-bt/v2"
	"github.com/libsv/go-bt/v2/sighash"
)

type keyPair struct {
	priv *bec.PrivateKey
	pubC []byte
	pubU []byte
}

func genKey(r *rng) keyPair {
	priv, pub := bec.PrivKeyFromBytes(bec.S256(), r.bytes(32))
	return keyPair{priv, pub.SerialiseCompressed(), pub.SerialiseUncompressed()}
}

func derEncode(rr, ss *big.Int) []byte {
	enc := func(v *big.Int) []byte {
		b := v.Bytes()
		if len(b) == 0 {
			b = []byte{0}
		}
		if b[0]&0x80 != 0 {
			b = append([]byte{0}, b...)
		}
		return append([]byte{0x02, byte(len(b))}, b...)
	}
	body := append(enc(rr), enc(ss)...)
	return append([]byte{0x30, byte(len(body))}, body...)
}

// signFor signs input idx of tx for the given script code / amount / hash type and returns sig||hashtype
func signFor(tx *bt.Tx, idx int, code []byte, sats uint64, shf byte, k keyPair, highS bool) []byte {
	c := tx.Clone()
	c.Inputs[idx].PreviousTxScript = scr(code)
	c.Inputs[idx].PreviousTxSatoshis = sats
	h, err := c.CalcInputSignatureHash(uint32(idx), sighash.Flag(shf))
	if err != nil {
		panic(err)
	}
	sig, err := k.priv.Sign(h)
	if err != nil {
		panic(err)
	}
	s := new(big.Int).Set(sig.S)
	if highS {
		s.Sub(bec.S256().N, s)
	}
	return append(derEncode(sig.R, s), shf)
}

type sigCase struct {
	name string
	make func(tx *bt.Tx, idx int, code []byte, sats uint64, shf byte, k, other keyPair) []byte
}

var sigCases = []sigCase{
	{"good", func(tx *bt.Tx, idx int, code []byte, sats uint64, shf byte, k, o keyPair) []byte {
		return signFor(tx, idx, code, sats, shf, k, false)
	}},
	{"wrong-key", func(tx *bt.Tx, idx int, code []byte, sats uint64, shf byte, k, o keyPair) []byte {
		return signFor(tx, idx, code, sats, shf, o, false)
	}},
	{"wrong-digest", func(tx *bt.Tx, idx int, code []byte, sats uint64, shf byte, k, o keyPair) []byte {
		return signFor(tx, idx, append([]byte{0x61}, code...), sats, shf, k, false)
	}},
	{"empty", func(tx *bt.Tx, idx int, code []byte, sats uint64, shf byte, k, o keyPair) []byte { return []byte{} }},
	{"high-s", func(tx *bt.Tx, idx int, code []byte, sats uint64, shf byte, k, o keyPair) []byte {
		return signFor(tx, idx, code, sats, shf, k, true)
	}},
	{"non-der", func(tx *bt.Tx, idx int, code []byte, sats uint64, shf byte, k, o keyPair) []byte {
		s := signFor(tx, idx, code, sats, shf, k, false)
		// non-minimal R padding: insert a zero byte and fix the lengths (lax parsing accepts, strict DER does not)
		body := s[:len(s)-1]
		rl := int(body[3])
		nb := append([]byte{}, body[:4]...)
		nb = append(nb, 0x00)
		nb = append(nb, body[4:]...)
		nb[1]++
		nb[3] = byte(rl + 1)
		return append(nb, shf)
	}},
	{"hashtype-only", func(tx *bt.Tx, idx int, code []byte, sats uint64, shf byte, k, o keyPair) []byte { return []byte{shf} }},
	{"other-hashtype", func(tx *bt.Tx, idx int, code []byte, sats uint64, shf byte, k, o keyPair) []byte {
		s := signFor(tx, idx, code, sats, shf, k, false)
		s[len(s)-1] ^= 0x40
		return s
	}},
	{"garbage", func(tx *bt.Tx, idx int, code []byte, sats uint64, shf byte, k, o keyPair) []byte {
		return []byte{0x30, 0x01, 0x02, shf}
	}},
}

// derFramed builds a well-framed DER signature body of exactly n bytes (n >= 8): two positive, minimally padded
// integers whose lengths add up to n-6.  It is not a valid signature for anything; it probes the length limits of
// the encoding checks (8..72 bytes allowed).
func derFramed(n int, seed byte) []byte {
	mk := func(l int, s byte) []byte {
		if l == 1 {
			return []byte{0x01 + s%0x7e}
		}
		b := make([]byte, l)
		b[0], b[1] = 0x00, 0x80|s
		for i := 2; i < l; i++ {
			b[i] = s + byte(i)*37
		}
		return b
	}
	rl := (n - 6) / 2
	sl := n - 6 - rl
	body := append([]byte{0x02, byte(rl)}, mk(rl, seed)...)
	body = append(body, 0x02, byte(sl))
	body = append(body, mk(sl, seed+1)...)
	return append([]byte{0x30, byte(len(body))}, body...)
}

func init() {
	for _, n := range []int{8, 9, 10, 70, 71, 72, 73, 74, 75} {
		n := n
		sigCases = append(sigCases, sigCase{fmt.Sprintf("der-len-%d", n), func(tx *bt.Tx, idx int, code []byte, sats uint64, shf byte, k, o keyPair) []byte {
			return append(derFramed(n, shf), shf)
		}})
	}
	// one byte short of the minimum: cut an 8-byte frame
	sigCases = append(sigCases, sigCase{"der-len-7", func(tx *bt.Tx, idx int, code []byte, sats uint64, shf byte, k, o keyPair) []byte {
		return append([]byte{0x30, 0x05, 0x02, 0x01, 0x01, 0x02, 0x00}, shf)
	}})
}

func ixExecTx(e *emitter, flags int, unlock, lock []byte, tx *bt.Tx, idx int, sats uint64) string {
	return e.run("IX.exec", fmt.Sprint(flags), hexE(unlock), hexE(lock), descTx(tx), fmt.Sprint(idx), fmt.Sprint(sats))
}

func genC06(e *emitter, tier string, seed uint64) {
	r := newRng(seed ^ 0xC06)
	quick := tier == "quick"
	keys := []keyPair{genKey(r), genKey(r), genKey(r), genKey(r), genKey(r)}
	sigFlagSets := []int{0}
	bits := []int{fStrictEnc, fDERSig, fLowS, fStrictMultiSig, fNullFail, fForkID}
	for m := 1; m < 64; m++ {
		f := 0
		for b := 0; b < 6; b++ {
			if m&(1<<uint(b)) != 0 {
				f |= bits[b]
			}
		}
		sigFlagSets = append(sigFlagSets, f)
	}
	note := func(kind, res string) {
		e.note(kind + "." + strings.Fields(res)[0])
	}
	hashTypes := []byte{0x41, 0x42, 0x43, 0xc1, 0xc2, 0xc3, 0x01, 0x02, 0x03, 0x81, 0x82, 0x83}
	shapes := 3
	if !quick {
		shapes = 10
	}
	for sh := 0; sh < shapes; sh++ {
		nIn := 1 + r.n(3)
		tx := genSigTx(r, nIn, r.n(4), false)
		idx := r.n(nIn)
		sats := uint64(1000 + r.n(100000))
		// ---- OP_CHECKSIG / VERIFY: every signature case x key form x hash type x flag subset x era
		for _, era := range []int{0, fAfterGenesis} {
			for ci, sc := range sigCases {
				for _, unc := range []bool{false, true} {
					k, o := keys[0], keys[1]
					pk := k.pubC
					if unc {
						pk = k.pubU
					}
					for hi, ht := range hashTypes {
						if quick && (hi+ci+sh)%4 != 0 {
							continue
						}
						lock := append(rawPush(pk), 0xac)
						sig := sc.make(tx, idx, lock, sats, ht, k, o)
						for fi, fl := range sigFlagSets {
							if (fi+hi+ci)%7 != 0 && !(fl == fForkID || fl == 0) {
								continue
							}
							res := ixExecTx(e, era|fl, rawPush(sig), lock, tx, idx, sats)
							note("checksig."+sc.name, res)
						}
					}
				}
			}
		}
		// ---- script code holding a push of 65535 / 65536 / 70000 bytes (the OP_PUSHDATA4 form from 65536 on): the signature
		// opcodes re-serialise the parsed script code, length prefix included; valid signatures, both opcodes, both sides
		// of a code separator, after genesis (before it the element is over the size limit: an error either way)
		if sh == 0 {
			k := keys[0]
			for _, n := range []int{65535, 65536, 70000} {
				blob := append(pushOf(r.bytes(n)), 0x75) // <blob> OP_DROP
				locks := [][]byte{
					append(append([]byte{}, blob...), append(rawPush(k.pubC), 0xac)...),
					append(append(append([]byte{}, blob...), 0xab), append(rawPush(k.pubC), 0xac)...),
					append(append(append([]byte{0xab}, blob...)), append(rawPush(k.pubC), 0xac)...),
					append(append(append([]byte{}, blob...), 0x51), append(rawPush(k.pubC), 0x51, 0xae)...),
				}
				for li, lock := range locks {
					for _, ht := range []byte{0x41, 0x01} {
						code := lock
						if li == 1 {
							code = lock[len(blob)+1:] // what follows the separator
						} else if li == 2 {
							code = lock[1:]
						}
						sig := signFor(tx, idx, stripSepIfLegacy(code, ht), sats, ht, k, false)
						unlock := rawPush(sig)
						if li == 3 {
							unlock = append([]byte{0x00}, rawPush(sig)...)
						}
						fl := fAfterGenesis
						if ht&0x40 != 0 {
							fl |= fForkID
						}
						res := ixExecTx(e, fl, unlock, lock, tx, idx, sats)
						note("checksig.long-push-in-script-code", res)
						if quick && n == 70000 {
							break
						}
					}
				}
			}
		}
		// ---- undefined / unusual hash-type bytes, signed for real with that byte, under the flags that police them
		if sh == 0 {
			k := keys[0]
			lock := append(rawPush(k.pubC), 0xac)
			for _, ht := range []byte{0x00, 0x04, 0x05, 0x1f, 0x20, 0x21, 0x23, 0x40, 0x44, 0x5f, 0x60, 0x61, 0x62, 0x63, 0x64, 0x80, 0x84, 0xa1, 0xc0, 0xc4, 0xe1, 0xe2, 0xe3, 0xff} {
				sig := signFor(tx, idx, lock, sats, ht, k, false)
				for _, fl := range []int{0, fStrictEnc, fForkID, fForkID | fBip143, fStrictEnc | fBip143, fForkID | fStrictEnc | fBip143} {
					for _, era := range []int{0, fAfterGenesis} {
						res := ixExecTx(e, era|fl, rawPush(sig), lock, tx, idx, sats)
						note("checksig.odd-hashtype", res)
						// and observed through NOT, which tells "false" from "error"
						ixExecTx(e, era|fl, rawPush(sig), append(append([]byte{}, lock...), 0x91), tx, idx, sats)
					}
				}
			}
		}
		// ---- the DER framing guards: a valid signature cut at every length with the outer length patched, and the R
		// length patched so that R ends 0..4 bytes before the cut (S type / S length / S itself missing or short)
		if sh == 0 {
			k := keys[0]
			lock := append(rawPush(k.pubC), 0xac)
			full := signFor(tx, idx, lock, sats, 0x41, k, false)
			body := full[:len(full)-1]
			for L := 2; L <= len(body)+1; L++ {
				for variant := 0; variant < 7; variant++ {
					t := make([]byte, L)
					copy(t, body)
					if L > len(body) {
						t[L-1] = 0x01
					}
					t[1] = byte(L - 2)
					if variant > 0 && L >= 5 {
						t[3] = byte(L - 9 + variant) // R length such that R ends at L-5+variant-... (sweeps the S header across the cut)
					}
					for _, fl := range []int{fDERSig, fStrictEnc | fForkID, fLowS} {
						res := ixExecTx(e, fAfterGenesis|fl, rawPush(append(t, 0x41)), lock, tx, idx, sats)
						note("checksig.der-cut", res)
					}
				}
			}
		}
		// ---- one CHECKMULTISIG, several signatures, each with its own hash type (every signature is verified over the
		//      digest of *its* hash-type byte: base type, ANYONECANPAY and FORKID bits all count)
		if sh == 0 {
			for _, pair := range [][2]byte{{0x41, 0xc1}, {0xc1, 0x41}, {0x42, 0xc2}, {0x43, 0xc3}, {0x41, 0x42}, {0x41, 0x43}, {0x01, 0x81}, {0x82, 0x02}, {0x01, 0x03}, {0xc3, 0x41}} {
				for _, n := range []int{2, 3} {
					var lock []byte
					lock = append(lock, 0x52)
					for i := 0; i < n; i++ {
						lock = append(lock, rawPush(keys[i].pubC)...)
					}
					lock = append(append(lock, smallInt(n)...), 0xae)
					fl := 0
					if pair[0]&0x40 != 0 {
						fl = fForkID
					}
					first, second := 0, n-1
					unlock := append([]byte{0x00}, rawPush(signFor(tx, idx, lock, sats, pair[0], keys[first], false))...)
					unlock = append(unlock, rawPush(signFor(tx, idx, lock, sats, pair[1], keys[second], false))...)
					note("multisig.mixed-hashtypes", ixExecTx(e, fl, unlock, lock, tx, idx, sats))
					note("multisig.mixed-hashtypes", ixExecTx(e, fl|fAfterGenesis|fNullFail, unlock, lock, tx, idx, sats))
					// and with the hash-type labels swapped between the two signatures (each now carries the other's byte)
					s1 := signFor(tx, idx, lock, sats, pair[0], keys[first], false)
					s2 := signFor(tx, idx, lock, sats, pair[1], keys[second], false)
					s1[len(s1)-1], s2[len(s2)-1] = pair[1], pair[0]
					bad := append(append([]byte{0x00}, rawPush(s1)...), rawPush(s2)...)
					note("multisig.mixed-hashtypes-swapped", ixExecTx(e, fl, bad, lock, tx, idx, sats))
				}
			}
		}
		// ---- signatures whose DER integers sit on the padding boundaries: R = 00 80.. / 00 ff.. (padded), 7f.. (unpadded),
		//      a 31-byte R or S, S = 7f..; found by stepping the lock time until the deterministic signature has the shape
		if sh == 0 {
			k := keys[3]
			lock := append(rawPush(k.pubC), 0xac)
			shapes := []struct {
				name string
				ok   func(r, s []byte) bool
			}{
				{"R=0080", func(r, s []byte) bool { return len(r) == 33 && r[1] == 0x80 }},
				{"R=00ff", func(r, s []byte) bool { return len(r) == 33 && r[1] == 0xff }},
				{"R=7f", func(r, s []byte) bool { return len(r) == 32 && r[0] == 0x7f }},
				{"R31", func(r, s []byte) bool { return len(r) == 31 }},
				{"S31", func(r, s []byte) bool { return len(s) == 31 }},
				{"S=7f", func(r, s []byte) bool { return len(s) == 32 && s[0] == 0x7f }},
				{"R31.0080", func(r, s []byte) bool { return len(r) == 32 && r[0] == 0x00 && r[1]&0x80 != 0 }},
			}
			for _, shp := range shapes {
				for _, ht := range []byte{0x41, 0x01} {
					txs := genSigTx(r, 1, 1, false)
					var sig []byte
					for lt := uint32(0); lt < 200000; lt++ {
						txs.LockTime = lt
						c := signFor(txs, 0, lock, sats, ht, k, false)
						rl := int(c[3])
						rr := c[4 : 4+rl]
						ss := c[6+rl : len(c)-1]
						if shp.ok(rr, ss) {
							sig = c
							break
						}
					}
					if sig == nil {
						e.note("der-boundary.not-found." + shp.name)
						continue
					}
					for _, fl := range []int{0, fDERSig, fStrictEnc | fLowS, fDERSig | fNullFail, fAfterGenesis | fStrictEnc} {
						if ht&0x40 != 0 {
							fl |= fForkID
						}
						note("der-boundary."+shp.name, ixExecTx(e, fl, rawPush(sig), lock, txs, 0, sats))
					}
				}
			}
		}
		// ---- SINGLE without a matching output (more inputs than outputs, checked index past the last output): FORKID signs
		//      a zero hashOutputs, legacy signs the constant 1 — fresh signatures over the independent model's digest
		if sh == 0 {
			k := keys[2]
			lock := append(rawPush(k.pubC), 0xac)
			for _, shape := range [][2]int{{3, 1}, {2, 0}, {3, 2}} {
				txs := genSigTx(r, shape[0], shape[1], false)
				for idx2 := 0; idx2 < shape[0]; idx2++ {
					for _, ht := range []byte{0x43, 0xc3, 0x03, 0x83, 0x41, 0x42} {
						fl := fForkID
						if ht&0x40 == 0 {
							fl = 0
						}
						sig := signFor(txs, idx2, lock, sats, ht, k, false)
						note("single-no-output", ixExecTx(e, fl, rawPush(sig), lock, txs, idx2, sats))
						note("single-no-output", ixExecTx(e, fl|fAfterGenesis|fNullFail, rawPush(sig), lock, txs, idx2, sats))
					}
				}
			}
		}
		// ---- legacy signature removal: the script code loses the canonical pushes of exactly the signature — not pushes that
		//      merely contain it. The signature is made over the code without the embedding push, then embedded.
		if sh == 0 {
			k := keys[1]
			for _, multi := range []bool{false, true} {
				tail := append(append([]byte{0x75}, rawPush(k.pubC)...), 0xac)
				if multi {
					tail = append(append(append([]byte{0x75, 0x51}, rawPush(k.pubC)...), 0x51), 0xae)
				}
				for _, ht := range []byte{0x01, 0x02, 0x03, 0x81, 0x41} {
					sig := signFor(tx, idx, tail, sats, ht, k, false)
					embed := [][]byte{rawPush(sig), rawPush(append(append([]byte{}, sig...), 0x01)), rawPush(append([]byte{0x00}, sig...)),
						rawPush(append(append([]byte{0xaa}, sig...), 0xbb)), rawPush(sig[1:]), append([]byte{0x4c, byte(len(sig))}, sig...)}
					for vi, em := range embed {
						lock := append(append([]byte{}, em...), tail...)
						unlock := rawPush(sig)
						if multi {
							unlock = append([]byte{0x00}, unlock...)
						}
						for _, fl := range []int{0, fAfterGenesis, fForkID, fNullFail} {
							if (fl&fForkID != 0) != (ht&0x40 != 0) {
								continue
							}
							note(fmt.Sprintf("sig-embedded.%d", vi), ixExecTx(e, fl, unlock, lock, tx, idx, sats))
						}
					}
				}
			}
		}
		// ---- the same with signatures longer than 75 bytes (lax parsing accepts bytes behind the DER structure): their
		//      canonical push is PUSHDATA1 / PUSHDATA2, and it is still the push that is removed from the script code
		if sh == 0 {
			k := keys[1]
			tail := append(append([]byte{0x75}, rawPush(k.pubC)...), 0xac)
			for _, ht := range []byte{0x01, 0x03, 0x81} {
				good := signFor(tx, idx, tail, sats, ht, k, false)
				for _, total := range []int{75, 76, 77, 90, 255, 256, 300} {
					sig := append([]byte{}, good[:len(good)-1]...)
					for len(sig) < total-1 {
						sig = append(sig, 0x00)
					}
					sig = append(sig, ht)
					for _, em := range [][]byte{minimalPush(sig), append([]byte{0x4d, byte(len(sig)), byte(len(sig) >> 8)}, sig...)} {
						lock := append(append([]byte{}, em...), tail...)
						for _, fl := range []int{0, fAfterGenesis, fDERSig, fNullFail} {
							note("sig-embedded.long", ixExecTx(e, fl, minimalPush(sig), lock, tx, idx, sats))
						}
					}
				}
			}
		}
		// ---- public-key encodings (STRICTENC polices them at every key a signature is tried against, not only the first)
		if sh == 0 {
			forms := func(k keyPair) [][]byte {
				hy := append([]byte{}, k.pubU...)
				hy[0] = 0x06 | (k.pubU[64] & 1)
				hyBad := append([]byte{}, hy...)
				hyBad[0] ^= 1
				g33 := append([]byte{0x05}, k.pubC[1:]...)
				offCurve := append([]byte{0x02}, make([]byte, 32)...)
				offCurve[32] = 0x05
				return [][]byte{k.pubC, k.pubU, hy, hyBad, g33, k.pubC[:32], {}, offCurve}
			}
			fsets := []int{fForkID, fForkID | fStrictEnc, fForkID | fStrictEnc | fNullFail, fAfterGenesis | fForkID | fStrictEnc, fAfterGenesis | fForkID}
			// signatures that cannot succeed but are not malformed: the empty one, and a strictly DER-encoded one whose R is
			// zero (passes the encoding rules, cannot be parsed into a signature) — the key's encoding is policed all the same
			rZero := []byte{0x30, 0x06, 0x02, 0x01, 0x00, 0x02, 0x01, 0x01, 0x41}
			for fi, pk := range forms(keys[0]) {
				lock := append(rawPush(pk), 0xac)
				sig := signFor(tx, idx, lock, sats, 0x41, keys[0], false)
				for _, fl := range fsets {
					note(fmt.Sprintf("checksig.keyform%d", fi), ixExecTx(e, fl, rawPush(sig), lock, tx, idx, sats))
					ixExecTx(e, fl, rawPush(sig), append(append([]byte{}, lock...), 0x91), tx, idx, sats)
					for _, hopeless := range [][]byte{{}, rZero} {
						note(fmt.Sprintf("checksig.hopeless-sig.keyform%d", fi), ixExecTx(e, fl, rawPush(hopeless), append(append([]byte{}, lock...), 0x91), tx, idx, sats))
						// 1-of-2 multisig, the hopeless signature tried against both keys: malformed key first, and second
						for _, order := range [][2][]byte{{pk, keys[1].pubC}, {keys[1].pubC, pk}} {
							ml := append(append(append([]byte{0x51}, rawPush(order[0])...), rawPush(order[1])...), 0x52, 0xae, 0x91)
							note("multisig.hopeless-sig", ixExecTx(e, fl, append([]byte{0x00}, rawPush(hopeless)...), ml, tx, idx, sats))
						}
					}
				}
			}
			for n := 2; n <= 3; n++ {
				all := [][][]byte{forms(keys[0]), forms(keys[1]), forms(keys[2])}
				combos := 1
				for i := 0; i < n; i++ {
					combos *= len(all[i])
				}
				for code := 0; code < combos; code++ {
					if quick && r.n(combos/48+1) != 0 {
						continue
					}
					c := code
					lock := []byte{0x51}
					for i := 0; i < n; i++ {
						lock = append(lock, rawPush(all[i][c%len(all[i])])...)
						c /= len(all[i])
					}
					lock = append(append(lock, smallInt(n)...), 0xae)
					signer := r.n(n)
					unlock := append([]byte{0x00}, rawPush(signFor(tx, idx, lock, sats, 0x41, keys[signer], false))...)
					for _, fl := range fsets {
						note("multisig.keyforms", ixExecTx(e, fl, unlock, lock, tx, idx, sats))
						ixExecTx(e, fl, unlock, append(append([]byte{}, lock...), 0x91), tx, idx, sats)
					}
				}
			}
		}
		// ---- OP_CODESEPARATOR at every position of the locking script (executed and skipped)
		k := keys[2]
		body := [][]byte{{0x61}, append(rawPush([]byte{0xab, 0xab}), 0x75), {0x51, 0x75}, {0x61}}
		for pos := 0; pos <= len(body); pos++ {
			for _, skipped := range []bool{false, true} {
				for _, ht := range []byte{0x41, 0x01} {
					var lock []byte
					for i, b := range body {
						if i == pos {
							if skipped {
								lock = append(lock, 0x00, 0x63, 0xab, 0x68)
							} else {
								lock = append(lock, 0xab)
							}
						}
						lock = append(lock, b...)
					}
					if pos == len(body) {
						if skipped {
							lock = append(lock, 0x00, 0x63, 0xab, 0x68)
						} else {
							lock = append(lock, 0xab)
						}
					}
					lock = append(lock, rawPush(k.pubC)...)
					lock = append(lock, 0xac)
					// the signer covers the script code after the last *executed* separator; legacy digests also drop
					// remaining separators. Sign for every candidate suffix so that at least one is the right one.
					for cut := 0; cut <= len(lock); cut++ {
						if cut != 0 && lock[cut-1] != 0xab {
							continue
						}
						sig := signFor(tx, idx, stripSepIfLegacy(lock[cut:], ht), sats, ht, k, false)
						for _, fl := range []int{fForkID, 0, fAfterGenesis | fForkID} {
							res := ixExecTx(e, fl, rawPush(sig), lock, tx, idx, sats)
							note("codesep", res)
						}
					}
				}
			}
		}
		// ---- a separator *after* the signature opcode stays in the script code of a FORKID signature;
		//      an unparseable non-empty signature under NULLFAIL alone
		for _, fl := range []int{fForkID, fAfterGenesis | fForkID} {
			k2 := keys[3]
			lockA := append(append(rawPush(k2.pubC), 0xac), 0xab)                                      // <pk> CHECKSIG CODESEPARATOR
			lockB := append(append(append([]byte{0x51}, rawPush(k2.pubC)...), 0x51, 0xae), 0xab)       // 1 <pk> 1 CHECKMULTISIG CODESEPARATOR
			lockC := append(append(append([]byte{0x51}, rawPush(k2.pubC)...), 0x51, 0xae), 0xab, 0x61) // … CODESEPARATOR NOP
			res := ixExecTx(e, fl, rawPush(signFor(tx, idx, lockA, sats, 0x41, k2, false)), lockA, tx, idx, sats)
			note("trailing-sep.checksig", res)
			for _, lk := range [][]byte{lockB, lockC} {
				res = ixExecTx(e, fl, append([]byte{0x00}, rawPush(signFor(tx, idx, lk, sats, 0x41, k2, false))...), lk, tx, idx, sats)
				note("trailing-sep.multisig", res)
				res = ixExecTx(e, fl, append([]byte{0x00}, rawPush(signFor(tx, idx, stripAllSep(lk), sats, 0x41, k2, false))...), lk, tx, idx, sats)
				note("trailing-sep.multisig-stripped", res)
			}
		}
		// ---- what follows a signature check is still the script that was given: CHECKMULTISIG with an empty / a valid
		//      signature, then a separator and more opcodes (building the script code must not edit the running script)
		for _, era := range []int{0, fAfterGenesis} {
			for _, fk := range []int{0, fForkID} {
				fl := era | fk
				ht := byte(0x01)
				if fk != 0 {
					ht = 0x41
				}
				k2, k3 := keys[3], keys[1]
				head := append(append([]byte{0x51}, rawPush(k2.pubC)...), 0x51, 0xae) // 1 <pk> 1 CHECKMULTISIG
				for _, tail := range [][]byte{{0xab, 0x91}, {0xab, 0x61, 0x91}, {0xab, 0x00, 0x87}, {0x61, 0xab, 0x91, 0x91, 0x91}, {0xab, 0xab, 0x91, 0x61}} {
					lk := append(append([]byte{}, head...), tail...)
					note("after-multisig.empty-sig", ixExecTx(e, fl, []byte{0x00, 0x00}, lk, tx, idx, sats))
					sig := signFor(tx, idx, stripSepIfLegacy(lk, ht), sats, ht, k2, false)
					note("after-multisig.valid-sig", ixExecTx(e, fl, append([]byte{0x00}, rawPush(sig)...), lk, tx, idx, sats))
				}
				// … DROP CODESEPARATOR <pk3> CHECKSIG: the second signature covers the code after the separator
				lk := append(append(append([]byte{}, head...), 0x75, 0xab), append(rawPush(k3.pubC), 0xac)...)
				code := append(rawPush(k3.pubC), 0xac)
				sig3 := signFor(tx, idx, code, sats, ht, k3, false)
				note("after-multisig.checksig", ixExecTx(e, fl, append(rawPush(sig3), 0x00, 0x00), lk, tx, idx, sats))
				sig2 := signFor(tx, idx, stripSepIfLegacy(lk, ht), sats, ht, k2, false)
				note("after-multisig.checksig", ixExecTx(e, fl, append(append(rawPush(sig3), 0x00), rawPush(sig2)...), lk, tx, idx, sats))
			}
		}
		for _, era := range []int{0, fAfterGenesis} {
			k2 := keys[3]
			for _, bad := range [][]byte{{0x30, 0x01, 0x02, 0x01}, {0x01}, {0xff, 0xff, 0x41}, append(r.bytes(70), 0x01)} {
				lock := append(append(rawPush(k2.pubC), 0xac), 0x91) // <pk> CHECKSIG NOT
				note("nullfail-unparseable", ixExecTx(e, era|fNullFail, rawPush(bad), lock, tx, idx, sats))
				note("nullfail-unparseable", ixExecTx(e, era, rawPush(bad), lock, tx, idx, sats))
				lock2 := append(append(rawPush([]byte{0x02, 0x01}), 0xac), 0x91) // unparseable key, parseable-looking signature
				note("nullfail-badkey", ixExecTx(e, era|fNullFail, rawPush(signFor(tx, idx, lock2, sats, 0x01, k2, false)), lock2, tx, idx, sats))
			}
		}
		// ---- OP_CHECKMULTISIG: m-of-n, n <= 3 (quick) / 4, every assignment of signature kinds to the m slots
		maxN := 3
		if !quick {
			maxN = 4
		}
		for n := 0; n <= maxN; n++ {
			for m := 0; m <= n; m++ {
				var lock []byte
				lock = append(lock, smallInt(m)...)
				for i := 0; i < n; i++ {
					pk := keys[i].pubC
					if i == 1 {
						pk = keys[i].pubU
					}
					lock = append(lock, rawPush(pk)...)
				}
				lock = append(lock, smallInt(n)...)
				lock = append(lock, 0xae)
				// slot kinds: signature by key j (0..n-1), wrong key, empty, high-S by key slot, junk that is not a signature
				kinds := n + 4
				total := 1
				for i := 0; i < m; i++ {
					total *= kinds
				}
				for code := 0; code < total; code++ {
					if quick && total > 40 && r.n(total/40+1) != 0 {
						continue
					}
					c := code
					unlock := []byte{0x00}
					if r.chance(10) {
						unlock = []byte{0x51} // non-null dummy
					}
					for slot := 0; slot < m; slot++ {
						kd := c % kinds
						c /= kinds
						var sig []byte
						ht := byte(0x41)
						switch {
						case kd < n:
							sig = signFor(tx, idx, lock, sats, ht, keys[kd], false)
						case kd == n:
							sig = signFor(tx, idx, lock, sats, ht, keys[4], false)
						case kd == n+1:
							sig = []byte{}
						case kd == n+3:
							sig = [][]byte{append(r.bytes(8), 0x41), {0x30, 0x06, 0x02, 0x01, 0x00, 0x02, 0x01, 0x00, 0x41}, {0x41}}[r.n(3)]
						default:
							sig = signFor(tx, idx, lock, sats, ht, keys[slot%maxInt(n, 1)], true)
						}
						unlock = append(unlock, rawPush(sig)...)
					}
					for _, fl := range []int{fForkID, fForkID | fNullFail, fForkID | fStrictMultiSig | fLowS, fAfterGenesis | fForkID | fNullFail} {
						res := ixExecTx(e, fl, unlock, lock, tx, idx, sats)
						note(fmt.Sprintf("multisig.%dof%d", m, n), res)
					}
				}
			}
		}
	}
}

func maxInt(a, b int) int {
	if a > b {
		return a
	}
	return b
}

func smallInt(k int) []byte {
	if k == 0 {
		return []byte{0x00}
	}
	return []byte{byte(0x50 + k)}
}

// stripSepIfLegacy removes OP_CODESEPARATOR opcodes (not data bytes) for legacy hash types
func stripSepIfLegacy(code []byte, ht byte) []byte {
	if ht&0x40 != 0 {
		return code
	}
	var out []byte
	for i := 0; i < len(code); {
		op := code[i]
		switch {
		case op >= 1 && op <= 75:
			end := i + 1 + int(op)
			if end > len(code) {
				end = len(code)
			}
			out = append(out, code[i:end]...)
			i = end
		case op == 0x4c || op == 0x4d || op == 0x4e:
			w := map[byte]int{0x4c: 1, 0x4d: 2, 0x4e: 4}[op]
			end := i + 1 + w
			if end <= len(code) {
				l := 0
				for j := w - 1; j >= 0; j-- {
					l = l<<8 | int(code[i+1+j])
				}
				end += l
			}
			if end > len(code) {
				end = len(code)
			}
			out = append(out, code[i:end]...)
			i = end
		case op == 0xab:
			i++
		default:
			out = append(out, op)
			i++
		}
	}
	return out
}

func stripAllSep(code []byte) []byte { return stripSepIfLegacy(code, 0x01) }

func init() { generators["C06"] = genC06 }
