package main

// The node-generated script vectors shipped in the repository (bscript/interpreter/data/script_tests.json) as an
// independent anchor for the Lean model of the interpreter: for every vector the *model's* verdict must be what the node
// expects (op IX.vec: the "implementation" column is the node's expectation), and the implementation must agree with the
// model step by step as for any other program (op IX.exec on the same inputs).
//
// The short form of the vectors is parsed here (numbers, 0x… raw bytes, 'quoted' pushes, opcode names with or without
// OP_), the crediting / spending transactions are built as the file's header describes.

import (
	"encoding/hex"
	"encoding/json"
	"fmt"
	"os"
	"strconv"
	"strings"

	"github.com/libsv/go-bt/v2"
	"github.com/libsv/go-bt/v2/bscript"
	"github.com/libsv/go-bt/v2/bscript/interpreter/scriptflag"
)

func scriptNumBytes(n int64) []byte {
	if n == 0 {
		return nil
	}
	neg := n < 0
	var m uint64
	if neg {
		m = uint64(-n)
	} else {
		m = uint64(n)
	}
	var b []byte
	for m > 0 {
		b = append(b, byte(m))
		m >>= 8
	}
	if b[len(b)-1]&0x80 != 0 {
		if neg {
			b = append(b, 0x80)
		} else {
			b = append(b, 0)
		}
	} else if neg {
		b[len(b)-1] |= 0x80
	}
	return b
}

func opcodeByShortName(tok string) (byte, bool) {
	// names the assembly parser of package bscript does not map to a single opcode
	switch strings.TrimPrefix(tok, "OP_") {
	case "PUSHDATA1":
		return 0x4c, true
	case "PUSHDATA2":
		return 0x4d, true
	case "PUSHDATA4":
		return 0x4e, true
	case "CHECKLOCKTIMEVERIFY":
		return 0xb1, true
	case "CHECKSEQUENCEVERIFY":
		return 0xb2, true
	}
	for _, name := range []string{tok, "OP_" + tok} {
		if !strings.HasPrefix(name, "OP_") {
			continue
		}
		s, err := bscript.NewFromASM(name)
		if err == nil && len(*s) == 1 {
			// names of the number opcodes may not be written without the prefix (they would be plain numbers)
			return (*s)[0], true
		}
	}
	return 0, false
}

func parseShort(script string) ([]byte, bool) {
	script = strings.NewReplacer("\n", " ", "\t", " ").Replace(script)
	var out []byte
	for _, tok := range strings.Split(script, " ") {
		if tok == "" {
			continue
		}
		if n, err := strconv.ParseInt(tok, 10, 64); err == nil {
			switch {
			case n == 0:
				out = append(out, 0x00)
			case n == -1 || (1 <= n && n <= 16):
				out = append(out, byte(0x50+n))
			default:
				out = append(out, minimalPush(scriptNumBytes(n))...)
			}
			continue
		}
		if strings.HasPrefix(tok, "0x") {
			b, err := hex.DecodeString(tok[2:])
			if err != nil {
				return nil, false
			}
			out = append(out, b...)
			continue
		}
		if len(tok) >= 2 && tok[0] == '\'' && tok[len(tok)-1] == '\'' {
			out = append(out, minimalPush([]byte(tok[1:len(tok)-1]))...)
			continue
		}
		if op, ok := opcodeByShortName(tok); ok {
			out = append(out, op)
			continue
		}
		return nil, false
	}
	return out, true
}

func vectorFlags(s string) (int, bool) {
	m := map[string]scriptflag.Flag{
		"": 0, "NONE": 0, "CHECKLOCKTIMEVERIFY": scriptflag.VerifyCheckLockTimeVerify, "CHECKSEQUENCEVERIFY": scriptflag.VerifyCheckSequenceVerify,
		"CLEANSTACK": scriptflag.VerifyCleanStack, "DERSIG": scriptflag.VerifyDERSignatures, "DISCOURAGE_UPGRADABLE_NOPS": scriptflag.DiscourageUpgradableNops,
		"LOW_S": scriptflag.VerifyLowS, "MINIMALDATA": scriptflag.VerifyMinimalData, "NULLDUMMY": scriptflag.StrictMultiSig, "NULLFAIL": scriptflag.VerifyNullFail,
		"P2SH": scriptflag.Bip16, "SIGPUSHONLY": scriptflag.VerifySigPushOnly, "STRICTENC": scriptflag.VerifyStrictEncoding,
		"UTXO_AFTER_GENESIS": scriptflag.UTXOAfterGenesis, "MINIMALIF": scriptflag.VerifyMinimalIf, "SIGHASH_FORKID": scriptflag.EnableSighashForkID,
	}
	var f scriptflag.Flag
	for _, t := range strings.Split(s, ",") {
		v, ok := m[t]
		if !ok {
			return 0, false
		}
		f |= v
	}
	return int(f), true
}

func vectorSpendingTx(unlock, lock []byte, sats uint64) *bt.Tx {
	cb := &bt.Tx{Version: 1, Inputs: []*bt.Input{{PreviousTxOutIndex: ^uint32(0), UnlockingScript: bscript.NewFromBytes([]byte{0, 0}), SequenceNumber: 0xffffffff}},
		Outputs: []*bt.Output{{Satoshis: sats, LockingScript: bscript.NewFromBytes(lock)}}}
	_ = cb.Inputs[0].PreviousTxIDAdd(make([]byte, 32))
	sp := &bt.Tx{Version: 1, Inputs: []*bt.Input{{PreviousTxOutIndex: 0, PreviousTxScript: bscript.NewFromBytes(lock), PreviousTxSatoshis: sats,
		UnlockingScript: bscript.NewFromBytes(unlock), SequenceNumber: 0xffffffff}},
		Outputs: []*bt.Output{{Satoshis: sats, LockingScript: bscript.NewFromBytes([]byte{})}}}
	_ = sp.Inputs[0].PreviousTxIDAdd(cb.TxIDBytes())
	return sp
}

// genVectors: sig = true selects the vectors whose scripts mention a signature-checking opcode (C06), false the rest (C05)
func genVectors(e *emitter, sig bool) {
	raw, err := os.ReadFile("/repo/bscript/interpreter/data/script_tests.json")
	if err != nil {
		e.note("vectors.unreadable")
		return
	}
	var rows [][]interface{}
	if json.Unmarshal(raw, &rows) != nil {
		e.note("vectors.unparsable")
		return
	}
	for _, row := range rows {
		if len(row) < 4 {
			continue
		}
		var sats uint64
		if l, ok := row[0].([]interface{}); ok {
			if len(l) > 0 {
				if f, ok := l[len(l)-1].(float64); ok {
					sats = uint64(f*100000000 + 0.5)
				}
			}
			row = row[1:]
		}
		if len(row) < 4 {
			continue
		}
		us, ok1 := row[0].(string)
		ls, ok2 := row[1].(string)
		fs, ok3 := row[2].(string)
		exp, ok4 := row[3].(string)
		if !(ok1 && ok2 && ok3 && ok4) {
			continue
		}
		isSig := strings.Contains(us+" "+ls, "CHECKSIG") || strings.Contains(us+" "+ls, "CHECKMULTISIG")
		if isSig != sig {
			continue
		}
		u, okU := parseShort(us)
		l, okL := parseShort(ls)
		fl, okF := vectorFlags(fs)
		if !(okU && okL && okF) {
			e.note("vectors.skipped-unparsed")
			continue
		}
		tx := vectorSpendingTx(u, l, sats)
		want := "reject"
		if exp == "OK" {
			want = "accept"
		}
		d := descTx(tx)
		e.run("IX.vec", fmt.Sprint(fl), hexE(u), hexE(l), d, "0", fmt.Sprint(sats), want)
		if len(u)+len(l) > 150 {
			// long programs (limit probes with thousands of steps and stack items): the step-by-step trace would run to
			// hundreds of megabytes; the node-versus-model verdict above is what these vectors contribute
			e.note("vectors." + want + ".long")
			continue
		}
		res := e.run("IX.exec", fmt.Sprint(fl), hexE(u), hexE(l), d, "0", fmt.Sprint(sats))
		e.note("vectors." + want + ".impl-" + strings.Fields(res)[0])
	}
}

// genTxVectors: data/tx_valid.json — whole transactions the node accepts under the listed flags, with the outputs they
// spend.  Every input must be accepted: by the model (IX.vec, the node being the reference) and, step by step, by the
// implementation (IX.exec).  These exercise the legacy signature hash, CHECKSIG / CHECKMULTISIG with real signatures,
// lock-time and sequence opcodes with real transactions.
func genTxVectors(e *emitter) {
	raw, err := os.ReadFile("/repo/bscript/interpreter/data/tx_valid.json")
	if err != nil {
		e.note("txvectors.unreadable")
		return
	}
	var rows []interface{}
	if json.Unmarshal(raw, &rows) != nil {
		e.note("txvectors.unparsable")
		return
	}
	for _, r0 := range rows {
		row, ok := r0.([]interface{})
		if !ok || len(row) != 3 {
			continue
		}
		prevs, ok1 := row[0].([]interface{})
		txHex, ok2 := row[1].(string)
		fs, ok3 := row[2].(string)
		if !(ok1 && ok2 && ok3) {
			continue
		}
		fl, okF := vectorFlags(fs)
		tx, err := bt.NewTxFromString(txHex)
		if err != nil || !okF {
			e.note("txvectors.skipped")
			continue
		}
		type prev struct {
			lock []byte
			sats uint64
		}
		pm := map[string]prev{}
		good := true
		for _, p0 := range prevs {
			p, ok := p0.([]interface{})
			if !ok || len(p) < 3 {
				good = false
				break
			}
			h, _ := p[0].(string)
			n, _ := p[1].(float64)
			sc, _ := p[2].(string)
			lock, okL := parseShort(sc)
			if !okL {
				good = false
				break
			}
			var sats uint64
			if len(p) > 3 {
				if a, ok := p[3].(float64); ok {
					sats = uint64(a)
				}
			}
			pm[fmt.Sprintf("%s:%d", h, uint32(int64(n)))] = prev{lock, sats}
		}
		if !good {
			e.note("txvectors.skipped")
			continue
		}
		for i, in := range tx.Inputs {
			p, ok := pm[fmt.Sprintf("%s:%d", hex.EncodeToString(in.PreviousTxID()), in.PreviousTxOutIndex)]
			if !ok {
				e.note("txvectors.prevout-missing")
				continue
			}
			var u []byte
			if in.UnlockingScript != nil {
				u = *in.UnlockingScript
			}
			d := descTx(tx)
			e.run("IX.vec", fmt.Sprint(fl), hexE(u), hexE(p.lock), d, fmt.Sprint(i), fmt.Sprint(p.sats), "accept")
			if len(u)+len(p.lock) <= 400 {
				res := e.run("IX.exec", fmt.Sprint(fl), hexE(u), hexE(p.lock), d, fmt.Sprint(i), fmt.Sprint(p.sats))
				e.note("txvectors.impl-" + strings.Fields(res)[0])
			}
		}
	}
}

func init() {
	// IX.vec …: the node's expectation is the "implementation" column; the Lean model is what is being judged
	executors["IX.vec"] = func(a []string) string { return "node-expects=" + a[6] }
	generators["VEC05"] = func(e *emitter, tier string, seed uint64) { genVectors(e, false) }
	generators["VEC06"] = func(e *emitter, tier string, seed uint64) { genVectors(e, true); genTxVectors(e) }
}
