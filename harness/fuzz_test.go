package main

// Coverage-guided search (Go's native fuzzing) for inputs on which an executor reports a panic. These functions decide
// nothing by themselves: the generators FZ07 / FZ09 / FZ14 (fuzz.go) run them for a bounded time in the thorough tier
// and feed every crasher found back through the ordinary line protocol, where the usual predicate judges it.

import (
	"encoding/hex"
	"fmt"
	"strings"
	"testing"
)


func FuzzExecute(f *testing.F) {
	f.Add(uint16(0), []byte{0x51}, []byte{0x51}, uint8(0))
	f.Add(uint16(1<<14), []byte{0x51, 0x51}, []byte{0xac, 0x6a, 0x01}, uint8(1))
	f.Add(uint16(1<<14|1<<11), []byte{0x00, 0x51}, []byte{0x51, 0x51, 0x51, 0xae}, uint8(1))
	f.Add(uint16(1<<3|1<<4), []byte{0x51}, []byte{0xb1, 0xb2}, uint8(1))
	f.Add(uint16(1), []byte{0x01, 0x51}, []byte{0xa9, 0x14, 0xda, 0x17, 0x45, 0xe9, 0xb5, 0x49, 0xbd, 0x0b, 0xfa, 0x1a, 0x56, 0x99, 0x71, 0xc7, 0x7e, 0xba, 0x30, 0xcd, 0x5a, 0x4b, 0x87}, uint8(0))
	f.Fuzz(func(t *testing.T, flags uint16, u, l []byte, kind uint8) {
		flags = uint16(fuzzNormFlags(uint64(flags), u, l))
		if len(u) > 600 || len(l) > 600 {
			return
		}
		out := implExecIdx(uint64(flags), u, l, fuzzTxDesc, int(kind>>4)%4-1, 1000, int(kind%16))
		if strings.HasPrefix(out, "PANIC") {
			t.Fatalf("IX.total %d %s %s: %s", flags, hex.EncodeToString(u), hex.EncodeToString(l), out)
		}
	})
}

func FuzzDecode(f *testing.F) {
	f.Add(uint8(0), mustHex("0100000001"+strings.Repeat("11", 32)+"00000000015100000000010500000000000000015100000000"))
	f.Add(uint8(1), mustHex("010000000000000000ef00000000000000"))
	f.Add(uint8(4), []byte(`{"version":1,"locktime":0,"vin":[null],"vout":[{"value":0.1,"n":0}]}`))
	f.Add(uint8(5), []byte(`{"txid":"00","vout":1,"sequence":5,"unlockingScript":"51"}`))
	kinds := []string{"tx", "nodetx", "nodetxs", "output", "nodeoutput", "input", "utxo", "nodeutxo", "nodeutxos"}
	f.Fuzz(func(t *testing.T, which uint8, b []byte) {
		if len(b) > 4096 {
			return
		}
		var outs []string
		h := hex.EncodeToString(b)
		switch which % 6 {
		case 0:
			outs = append(outs, executors["C01.parse"]([]string{h}), executors["C01.exact"]([]string{h}))
		case 1:
			outs = append(outs, executors["C01.stream"]([]string{h}), executors["C01.txs"]([]string{h}), executors["C09.reader"]([]string{h}))
		case 2:
			outs = append(outs, executors["C09.input"]([]string{"0", h}), executors["C09.input"]([]string{"1", h}), executors["C09.output"]([]string{h}))
		default:
			outs = append(outs, executors["C09.rawjson"]([]string{kinds[int(which)%len(kinds)], h}))
		}
		for _, o := range outs {
			if strings.Contains(o, "PANIC") || strings.HasPrefix(o, "panic") {
				t.Fatalf("decode kind %d %s: %s", which, h, o)
			}
		}
	})
}

func FuzzInspect(f *testing.F) {
	f.Add(mustHex("76a914000000000000000000000000000000000000000088ac"))
	f.Add(mustHex("76a914000000000000000000000000000000000000000088ac0063036f726451046161616100026869686a0100"))
	f.Add(mustHex("512102" + strings.Repeat("11", 32) + "51ae"))
	f.Add(mustHex("006a4c00"))
	f.Fuzz(func(t *testing.T, b []byte) {
		if len(b) > 2048 {
			return
		}
		h := hex.EncodeToString(b)
		if len(b) == 0 {
			h = "e"
		}
		o := executors["C14.inspect"]([]string{h})
		if strings.Contains(o, "PANIC") || strings.HasPrefix(o, "panic") {
			t.Fatalf("C14.inspect %s: %s", h, o)
		}
		_ = fmt.Sprint
	})
}
