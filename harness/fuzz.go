package main

// Generators FZ07 / FZ09 / FZ14: run the coverage-guided targets of fuzz_test.go for a bounded time (thorough tier only)
// and replay whatever they report through the ordinary ops, so that the usual predicates — not the fuzzer — decide.

import (
	"bytes"
	"encoding/hex"
	"fmt"
	"os"
	"os/exec"
	"path/filepath"
	"strconv"
	"strings"
	"time"
)

const fuzzTxDesc = "v=1;lt=20;in=0843dd2020a9419a04ff0486a19f5eb77ea9a9ff89fb26ef912dd0ca6420ba58:1::4294967294:1000:,4dccc76c02a2c239ec3ed4274802edaa04d228329b38d9a61f2f2301a7d78c54:0::5:2000:;out=1234:76a914000000000000000000000000000000000000000088ac"

// fuzzNormFlags keeps the execution target inside the model and inside a time budget: post-Genesis there is no
// element-size limit and numbers may be 750,000 bytes long, so a program made of "DUP MUL" / "DUP CAT" doubles its operand
// with every pair (and go-bt's number conversions are quadratic in the length: 17 squarings of a hash take three
// minutes), and OP_NUM2BIN with a 4-byte size operand is a legitimate gigabyte allocation (both out of model,
// DESIGN.md 11.5). Post-Genesis programs are therefore either tiny (16 bytes) or short (40 bytes) and free of the three
// growing opcodes; anything else runs under the pre-Genesis limits.
func fuzzNormFlags(flags uint64, u, l []byte) uint64 {
	if flags&(1<<14) == 0 {
		return flags
	}
	n := len(u) + len(l)
	grows := false
	for _, op := range []byte{0x7e, 0x80, 0x95} {
		if bytes.IndexByte(u, op) >= 0 || bytes.IndexByte(l, op) >= 0 {
			grows = true
		}
	}
	if n <= 16 && !(bytes.IndexByte(u, 0x80) >= 0 || bytes.IndexByte(l, 0x80) >= 0) {
		return flags
	}
	if n <= 40 && !grows {
		return flags
	}
	return flags &^ (1 << 14)
}

func harnessSrcDir() string {
	if d := os.Getenv("VERIF_HARNESS_DIR"); d != "" {
		return d
	}
	self, _ := os.Executable()
	return filepath.Join(filepath.Dir(filepath.Dir(self)), "harness")
}

// parseFuzzFile reads a "go test fuzz v1" corpus file into its values (as Go literals)
func parseFuzzFile(p string) []string {
	b, err := os.ReadFile(p)
	if err != nil {
		return nil
	}
	lines := strings.Split(strings.TrimSpace(string(b)), "\n")
	if len(lines) < 1 || !strings.HasPrefix(lines[0], "go test fuzz v1") {
		return nil
	}
	return lines[1:]
}

func litBytes(l string) []byte { // []byte("...")
	l = strings.TrimSpace(l)
	l = strings.TrimPrefix(l, "[]byte(")
	l = strings.TrimSuffix(l, ")")
	s, err := strconv.Unquote(l)
	if err != nil {
		return nil
	}
	return []byte(s)
}

func litUint(l string) uint64 { // uint16(5) / uint8(3) / byte('x')
	l = strings.TrimSpace(l)
	i := strings.IndexByte(l, '(')
	if i < 0 {
		return 0
	}
	body := strings.TrimSuffix(l[i+1:], ")")
	if strings.HasPrefix(body, "'") {
		r, _, _, err := strconv.UnquoteChar(body[1:len(body)-1], '\'')
		if err == nil {
			return uint64(r)
		}
		return 0
	}
	v, _ := strconv.ParseUint(body, 0, 64)
	return v
}

func runFuzz(e *emitter, target string, secs int, replay func(vals []string)) {
	dir := harnessSrcDir()
	crashDir := filepath.Join(dir, "testdata", "fuzz", target)
	_ = os.RemoveAll(crashDir) // crashers of an earlier run were replayed then; start clean
	cmd := exec.Command("go", "test", "-run", "^$", "-fuzz", "^"+target+"$", "-fuzztime", fmt.Sprintf("%ds", secs), "-parallel", "8", ".")
	cmd.Dir = dir
	cmd.Env = append(os.Environ(), "GOFLAGS=-mod=mod", "GOPROXY=off", "GOSUMDB=off", "GOTOOLCHAIN=local")
	t0 := time.Now()
	out, _ := cmd.CombinedOutput()
	execs := ""
	for _, l := range strings.Split(string(out), "\n") {
		if strings.Contains(l, "execs:") {
			execs = l
		}
	}
	e.note("fuzz." + target + ".ran")
	fmt.Fprintf(os.Stderr, "# %s: %.0fs; %s\n", target, time.Since(t0).Seconds(), strings.TrimSpace(execs))
	files, _ := filepath.Glob(filepath.Join(crashDir, "*"))
	for _, p := range files {
		vals := parseFuzzFile(p)
		if vals != nil {
			replay(vals)
			e.note("fuzz." + target + ".crasher")
		}
	}
	_ = os.RemoveAll(filepath.Join(dir, "testdata"))
}

// fuzzCorpus lists the inputs the fuzzer kept for a target (one per newly covered code path), from the Go build cache
func fuzzCorpus(target string) [][]string {
	out, err := exec.Command("go", "env", "GOCACHE").Output()
	if err != nil {
		return nil
	}
	files, _ := filepath.Glob(filepath.Join(strings.TrimSpace(string(out)), "fuzz", "verif", "harness", target, "*"))
	var res [][]string
	for _, p := range files {
		if v := parseFuzzFile(p); v != nil {
			res = append(res, v)
		}
	}
	return res
}

func fuzzSecs(tier string) int {
	if tier == "quick" {
		return 0
	}
	if s, err := strconv.Atoi(os.Getenv("VERIF_FUZZ_SECS")); err == nil {
		return s
	}
	return 60
}

func init() {
	generators["FZ07"] = func(e *emitter, tier string, seed uint64) {
		secs := fuzzSecs(tier)
		if secs == 0 {
			return
		}
		runFuzz(e, "FuzzExecute", secs, func(v []string) {
			if len(v) < 4 {
				return
			}
			flags := litUint(v[0])
			u, l := litBytes(v[1]), litBytes(v[2])
			kind := litUint(v[3])
			flags = fuzzNormFlags(flags, u, l)
			e.runIsolated("IX.total", fmt.Sprint(flags), hexE(u), hexE(l), fuzzTxDesc, fmt.Sprint(int(kind>>4)%4-1), "1000", fmt.Sprint(kind%16))
		})
	}
	// FZ05: the fuzzer's corpus — the inputs that reached new coverage in the Go interpreter — replayed through the
	// equivalence op, so that model and implementation are compared on one input per code path the search discovered
	generators["FZ05"] = func(e *emitter, tier string, seed uint64) {
		secs := fuzzSecs(tier)
		if secs == 0 {
			return
		}
		runFuzz(e, "FuzzExecute", secs, func(v []string) {})
		out, err := exec.Command("go", "env", "GOCACHE").Output()
		if err != nil {
			return
		}
		files, _ := filepath.Glob(filepath.Join(strings.TrimSpace(string(out)), "fuzz", "verif", "harness", "FuzzExecute", "*"))
		for _, p := range files {
			v := parseFuzzFile(p)
			if len(v) < 4 {
				continue
			}
			u, l := litBytes(v[1]), litBytes(v[2])
			if len(u) > 600 || len(l) > 600 {
				continue
			}
			flags := fuzzNormFlags(litUint(v[0]), u, l)
			kind := litUint(v[3])
			idx := int(kind>>4)%4 - 1
			switch {
			case kind%16 == 0:
				e.run("IX.exec", fmt.Sprint(flags), hexE(u), hexE(l), "-", "0", "0")
				e.note("fuzz.corpus.scripts-only")
			case kind%16 == 1 && (idx == 0 || idx == 1):
				e.run("IX.exec", fmt.Sprint(flags), hexE(u), hexE(l), fuzzTxDesc, fmt.Sprint(idx), "1000")
				e.note("fuzz.corpus.with-tx")
			}
		}
	}
	generators["FZ09"] = func(e *emitter, tier string, seed uint64) {
		secs := fuzzSecs(tier)
		if secs == 0 {
			return
		}
		kinds := []string{"tx", "nodetx", "nodetxs", "output", "nodeoutput", "input", "utxo", "nodeutxo", "nodeutxos"}
		runFuzz(e, "FuzzDecode", secs, func(v []string) {
			if len(v) < 2 {
				return
			}
			which := litUint(v[0])
			h := hex.EncodeToString(litBytes(v[1]))
			switch which % 6 {
			case 0:
				e.runIsolated("C01.parse", h)
			case 1:
				e.runIsolated("C01.txs", h)
				e.runIsolated("C09.reader", h)
			case 2:
				e.runIsolated("C09.input", "0", h)
				e.runIsolated("C09.input", "1", h)
				e.runIsolated("C09.output", h)
			default:
				e.runIsolated("C09.rawjson", kinds[int(which)%len(kinds)], h)
			}
		})
	}
	generators["FZ09c"] = func(e *emitter, tier string, seed uint64) {
		if fuzzSecs(tier) == 0 {
			return
		}
		// the decode target's corpus through the parsing ops that have a model (run after FZ09 in the same check)
		for _, v := range fuzzCorpus("FuzzDecode") {
			if len(v) < 2 {
				continue
			}
			b := litBytes(v[1])
			if len(b) > 4096 {
				continue
			}
			h := hex.EncodeToString(b)
			switch litUint(v[0]) % 6 {
			case 0:
				e.run("C01.parse", h)
				e.run("C01.exact", h)
			case 1:
				e.run("C01.stream", h)
				e.run("C01.txs", h)
			case 2:
				e.run("C09.input", "0", h)
				e.run("C09.input", "1", h)
				e.run("C09.output", h)
			}
			e.note("fuzz.corpus.decode")
		}
	}
	generators["FZ14"] = func(e *emitter, tier string, seed uint64) {
		secs := fuzzSecs(tier)
		if secs == 0 {
			return
		}
		runFuzz(e, "FuzzInspect", secs, func(v []string) {
			if len(v) < 1 {
				return
			}
			h := hex.EncodeToString(litBytes(v[0]))
			if h == "" {
				h = "e"
			}
			e.runIsolated("C14.inspect", h)
		})
		for _, v := range fuzzCorpus("FuzzInspect") {
			b := litBytes(v[0])
			if len(b) == 0 || len(b) > 2048 {
				continue
			}
			e.run("C14.inspect", hex.EncodeToString(b))
			e.note("fuzz.corpus.inspect")
		}
	}
}
