package main

import (
	"bytes"
	"context"
	"fmt"
	"github.com/libsv/go-bt/v2/bscript/interpreter"
	"github.com/libsv/go-bt/v2/bscript/interpreter/scriptflag"
	"strings"

	"github.com/libsv/go-bt/v2"
	"github.com/libsv/go-bt/v2/bscript"
	"github.com/libsv/go-bt/v2/sighash"
	"github.com/libsv/go-bt/v2/unlocker"
)

func init() {
	// C04.mut <flags> <mutTx> <idx> <sats> <lock> <origTx> <origIdx> <origSats> <origLock>
	executors["C04.mut"] = func(a []string) string {
		idx := int(mustU(a[2], 31))
		var unlock []byte
		if t := parseDesc(a[1]); idx < len(t.Inputs) && t.Inputs[idx].UnlockingScript != nil {
			unlock = *t.Inputs[idx].UnlockingScript
		}
		r := implExec(mustU(a[0], 32), unlock, unE(a[4]), a[1], idx, mustU(a[3], 64), 1)
		// the same check through the engine's other accepted way of naming the spent output — scripts given with
		// WithScripts, the value in a previous output that carries no script — on a transaction object that still holds the
		// values it was built with, and on one freshly parsed from bytes (all spent values zero): the verdict is the same
		acc := strings.HasPrefix(r.verdict, "accept")
		for which := 0; which < 2; which++ {
			tx := parseDesc(a[1])
			if which == 1 {
				if t2, err := bt.NewTxFromBytes(tx.Bytes()); err == nil {
					tx = t2
				}
			}
			us, ls := bscript.NewFromBytes(append([]byte{}, unlock...)), bscript.NewFromBytes(unE(a[4]))
			var err error
			crashed := safe(func() string {
				err = interpreter.NewEngine().Execute(interpreter.WithFlags(scriptflag.Flag(mustU(a[0], 32))),
					interpreter.WithTx(tx, idx, &bt.Output{Satoshis: mustU(a[3], 64)}), interpreter.WithScripts(ls, us))
				return ""
			})
			if crashed != "" || (err == nil) != acc {
				return fmt.Sprintf("route-dependent-verdict main=%s other(%d)=%v %s mut=%s t=%s", r.verdict, which, err, crashed, r.mut, strings.Join(r.trace, "|"))
			}
		}
		return fmt.Sprintf("%s mut=%s t=%s", r.verdict, r.mut, strings.Join(r.trace, "|"))
	}
	generators["C04"] = genC04
}

func p2pkhOf(k keyPair) []byte {
	s, _ := bscript.NewP2PKHFromPubKeyBytes(k.pubC)
	return *s
}

func cloneTx(tx *bt.Tx) *bt.Tx { return parseDesc(descTx(tx)) }

func genC04(e *emitter, tier string, seed uint64) {
	r := newRng(seed ^ 0xC04)
	quick := tier == "quick"
	shapes := 9
	if !quick {
		shapes = 120
	}
	flagTypes := []struct {
		ht    sighash.Flag
		flags int
	}{{0x41, fForkID}, {0x42, fForkID}, {0x43, fForkID}, {0xc1, fForkID}, {0xc2, fForkID}, {0xc3, fForkID},
		{0x01, 0}, {0x02, 0}, {0x03, 0}, {0x81, 0}, {0x82, 0}, {0x83, 0}}
	for sh := 0; sh < shapes; sh++ {
		k := genKey(r)
		nIn, nOut := 1+r.n(4), r.n(5)
		if sh == 8 {
			nIn, nOut = 3, 1 // shape 8: SINGLE signed at a position with no matching output (FORKID: zero hashOutputs, the
			// rest of the digest still committed; legacy: the constant 1, nothing committed)
		}
		if sh >= 5 && sh <= 7 {
			nIn, nOut = 3, 3 // shapes 5..7 of every run: three inputs, three outputs, signed position 0, 1, 2 (SINGLE has a
			// matching output with other outputs before and after it)
		}
		tx := &bt.Tx{Version: 1 + uint32(r.n(2)), LockTime: uint32(r.n(1000))}
		locks := make([][]byte, nIn)
		hasReturn := false
		sats := make([]uint64, nIn)
		for i := 0; i < nIn; i++ {
			locks[i] = p2pkhOf(k)
			if r.chance(25) {
				locks[i] = append(append([]byte{}, p2pkhOf(k)...), mustHex("0063036f726451046161616100026869")...)
				locks[i] = append(locks[i], 0x68)
				// enriched inscription: OP_RETURN and a tail of 1..5 bytes that is part of the script code
				if r.chance(60) {
					locks[i] = append(locks[i], 0x6a)
					if n := r.n(5); n == 0 {
						locks[i] = append(locks[i], 0x00)
					} else {
						locks[i] = append(append(locks[i], byte(n)), r.bytes(n)...)
					}
					hasReturn = true
				}
			}
			sats[i] = uint64(1 + r.n(100000))
			tx.Inputs = append(tx.Inputs, mkInput(r.bytes(32), uint32(r.n(4)), nil, uint32(0xfffffff0+r.n(16)), sats[i], scr(locks[i])))
		}
		for i := 0; i < nOut; i++ {
			tx.Outputs = append(tx.Outputs, &bt.Output{Satoshis: uint64(r.n(5000)), LockingScript: scr(p2pkhOf(genKey(r)))})
		}
		pos := r.n(nIn)
		if sh >= 5 && sh <= 7 {
			pos = sh - 5
		}
		if sh == 8 {
			pos = 2
		}
		if sh < 5 {
			// the first shapes of every run: the signed input spends an enriched inscription whose OP_RETURN tail is a
			// push of sh bytes (serialised tails of 1..5 bytes)
			l := append(append([]byte{}, p2pkhOf(k)...), mustHex("0063036f726451046161616100026869686a")...)
			if sh == 0 {
				l = append(l, 0x00)
			} else {
				l = append(append(l, byte(sh)), r.bytes(sh)...)
			}
			locks[pos] = l
			tx.Inputs[pos].PreviousTxScript = scr(l)
			hasReturn = true
		}
		// the other signing path: FillAllInputs with the library's unlocker getter (default hash type ALL|FORKID) signs
		// every input — plain P2PKH and inscriptions alike — and each is then accepted
		{
			sa := cloneTx(tx)
			if err := sa.FillAllInputs(context.Background(), &unlocker.Getter{PrivateKey: k.priv}); err != nil {
				e.note("sign-all-error")
			} else {
				era := []int{0, fAfterGenesis}[r.n(2)]
				if hasReturn {
					era = fAfterGenesis
				}
				for i := 0; i < nIn; i++ {
					res := e.run("C04.mut", fmt.Sprint(fForkID|era), descTx(sa), fmt.Sprint(i), fmt.Sprint(sats[i]), hexE(locks[i]),
						descTx(sa), fmt.Sprint(i), fmt.Sprint(sats[i]), hexE(locks[i]))
					e.note("mut.fill-all-inputs." + strings.Fields(res)[0])
				}
			}
		}
		for fi, ft := range flagTypes {
			if quick && (fi+sh)%3 != 0 && !(sh >= 5 && sh <= 8 && ft.ht&0x1f == 3) {
				continue
			}
			st := cloneTx(tx)
			err := st.FillInput(context.Background(), &unlocker.Simple{PrivateKey: k.priv}, bt.UnlockerParams{InputIdx: uint32(pos), SigHashFlags: ft.ht})
			if err != nil {
				e.note("sign-error")
				continue
			}
			era := []int{0, fAfterGenesis}[r.n(2)]
			if hasReturn {
				era = fAfterGenesis // a top-level OP_RETURN is only spendable under the post-Genesis rules
			}
			flags := ft.flags | era
			run := func(kind string, mt *bt.Tx, midx int, msats uint64, mlock []byte) {
				// the unlocking script travels with the signed input
				res := e.run("C04.mut", fmt.Sprint(flags), descTx(mt), fmt.Sprint(midx), fmt.Sprint(msats), hexE(mlock),
					descTx(st), fmt.Sprint(pos), fmt.Sprint(sats[pos]), hexE(locks[pos]))
				e.note("mut." + kind + "." + strings.Fields(res)[0])
				e.note(fmt.Sprintf("hashtype.%02x", byte(ft.ht)))
			}
			run("none", cloneTx(st), pos, sats[pos], locks[pos])
			{ // version, locktime
				m := cloneTx(st)
				m.Version ^= 1
				run("version", m, pos, sats[pos], locks[pos])
				m = cloneTx(st)
				m.LockTime++
				run("locktime", m, pos, sats[pos], locks[pos])
			}
			for i := 0; i < nIn; i++ { // each input's outpoint / sequence
				m := cloneTx(st)
				m.Inputs[i].PreviousTxOutIndex ^= 1
				run(fmt.Sprintf("outpoint-%s", ownOther(i, pos)), m, pos, sats[pos], locks[pos])
				m = cloneTx(st)
				m.Inputs[i].SequenceNumber ^= 1
				run(fmt.Sprintf("sequence-%s", ownOther(i, pos)), m, pos, sats[pos], locks[pos])
			}
			for i := 0; i < nOut; i++ { // each output's value / script
				m := cloneTx(st)
				m.Outputs[i].Satoshis++
				run(fmt.Sprintf("out-value-%s", sameOther(i, pos)), m, pos, sats[pos], locks[pos])
				m = cloneTx(st)
				(*m.Outputs[i].LockingScript)[3] ^= 1
				run(fmt.Sprintf("out-script-%s", sameOther(i, pos)), m, pos, sats[pos], locks[pos])
			}
			{ // output insertion (end / front) and removal (last / first)
				m := cloneTx(st)
				m.Outputs = append(m.Outputs, &bt.Output{Satoshis: 7, LockingScript: scr([]byte{0x51})})
				run("out-append", m, pos, sats[pos], locks[pos])
				m = cloneTx(st)
				m.Outputs = append([]*bt.Output{{Satoshis: 7, LockingScript: scr([]byte{0x51})}}, m.Outputs...)
				run("out-prepend", m, pos, sats[pos], locks[pos])
				if nOut > 0 {
					m = cloneTx(st)
					m.Outputs = m.Outputs[:nOut-1]
					run("out-remove-last", m, pos, sats[pos], locks[pos])
					m = cloneTx(st)
					m.Outputs = m.Outputs[1:]
					run("out-remove-first", m, pos, sats[pos], locks[pos])
				}
			}
			{ // input insertion after / before the signed one (index moves), removal of another input
				extra := mkInput(r.bytes(32), 0, scr([]byte{}), 0xffffffff, 5, scr([]byte{0x51}))
				m := cloneTx(st)
				m.Inputs = append(m.Inputs, extra)
				run("in-append", m, pos, sats[pos], locks[pos])
				m = cloneTx(st)
				m.Inputs = append([]*bt.Input{extra}, m.Inputs...)
				run("in-prepend", m, pos+1, sats[pos], locks[pos])
				if nIn > 1 {
					m = cloneTx(st)
					other := (pos + 1) % nIn
					m.Inputs = append(append([]*bt.Input{}, m.Inputs[:other]...), m.Inputs[other+1:]...)
					np := pos
					if other < pos {
						np--
					}
					run("in-remove-other", m, np, sats[pos], locks[pos])
				}
			}
			// spent value and spent script
			run("spent-value", cloneTx(st), pos, sats[pos]+1, locks[pos])
			run("spent-value-zero", cloneTx(st), pos, 0, locks[pos]) // the tx object still carries the signed value
			ml := append([]byte{}, locks[pos]...)
			ml = append(ml, 0x61)
			run("spent-script", cloneTx(st), pos, sats[pos], ml)
		}
	}
	// library-made signatures whose DER integers sit on a padding boundary (R = 00 80.., R of 31 bytes, S of 31 bytes): the
	// lock time is stepped until the deterministic signature has the shape; the interpreter must accept every one of them
	for _, shp := range []func(rr, ss []byte) bool{
		func(rr, ss []byte) bool { return len(rr) == 33 && rr[1] == 0x80 },
		func(rr, ss []byte) bool { return len(rr) == 31 },
		func(rr, ss []byte) bool { return len(ss) == 31 },
		func(rr, ss []byte) bool { return len(rr) == 32 && rr[0] == 0x7f },
	} {
		k := genKey(r)
		lock := p2pkhOf(k)
		for _, ft := range []struct {
			ht    sighash.Flag
			flags int
		}{{0x41, fForkID}, {0x01, 0}} {
			var found *bt.Tx
			for lt := uint32(0); lt < 100000 && found == nil; lt++ {
				tx := &bt.Tx{Version: 1, LockTime: lt}
				tx.Inputs = append(tx.Inputs, mkInput(bytes.Repeat([]byte{7}, 32), 0, nil, 0xffffffff, 1000, scr(lock)))
				tx.Outputs = append(tx.Outputs, &bt.Output{Satoshis: 900, LockingScript: scr(lock)})
				if err := tx.FillInput(context.Background(), &unlocker.Simple{PrivateKey: k.priv}, bt.UnlockerParams{InputIdx: 0, SigHashFlags: ft.ht}); err != nil {
					break
				}
				u := []byte(*tx.Inputs[0].UnlockingScript)
				sig := u[1 : 1+int(u[0])]
				rl := int(sig[3])
				if shp(sig[4:4+rl], sig[6+rl:len(sig)-1]) {
					found = tx
				}
			}
			if found == nil {
				e.note("mut.der-boundary.not-found")
				continue
			}
			for _, era := range []int{0, fAfterGenesis} {
				res := e.run("C04.mut", fmt.Sprint(ft.flags|era), descTx(found), "0", "1000", hexE(lock), descTx(found), "0", "1000", hexE(lock))
				e.note("mut.der-boundary." + strings.Fields(res)[0])
			}
		}
	}
	// the spent script carries a push at each push-opcode boundary (direct / PUSHDATA1 / PUSHDATA2 / PUSHDATA4): the script
	// code the interpreter rebuilds for the digest must be the script that was signed
	for _, size := range []int{75, 76, 255, 256, 65535, 65536, 70001} {
		k := genKey(r)
		itx := bt.NewTx()
		if err := itx.Inscribe(&bscript.InscriptionArgs{LockingScriptPrefix: scr(p2pkhOf(k)), ContentType: "x/y", Data: r.bytes(size)}); err != nil {
			panic(err)
		}
		lock := []byte(*itx.Outputs[0].LockingScript)
		for _, ft := range []struct {
			ht    sighash.Flag
			flags int
		}{{0x41, fForkID}, {0xc3, fForkID}, {0x01, 0}} {
			tx := &bt.Tx{Version: 1, LockTime: 0}
			tx.Inputs = append(tx.Inputs, mkInput(r.bytes(32), 0, nil, 0xffffffff, 1, scr(lock)))
			tx.Outputs = append(tx.Outputs, &bt.Output{Satoshis: 1, LockingScript: scr(p2pkhOf(genKey(r)))})
			if err := tx.FillInput(context.Background(), &unlocker.Simple{PrivateKey: k.priv}, bt.UnlockerParams{InputIdx: 0, SigHashFlags: ft.ht}); err != nil {
				e.note("sign-error")
				continue
			}
			res := e.run("C04.mut", fmt.Sprint(ft.flags|fAfterGenesis), descTx(tx), "0", "1", hexE(lock), descTx(tx), "0", "1", hexE(lock))
			e.note("mut.big-push." + strings.Fields(res)[0])
		}
	}
}

func ownOther(i, pos int) string {
	if i == pos {
		return "own"
	}
	return "other"
}
func sameOther(i, pos int) string {
	if i == pos {
		return "same-index"
	}
	return "other-index"
}
