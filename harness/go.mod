module verif/harness

go 1.17

require (
	github.com/libsv/go-bk v0.1.6
	github.com/libsv/go-bt/v2 v2.0.0
)

require (
	github.com/pkg/errors v0.9.1 // indirect
	golang.org/x/crypto v0.14.0 // indirect
)

replace github.com/libsv/go-bt/v2 => /repo
