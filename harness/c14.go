package main

import (
	"encoding/hex"
	"encoding/json"
	"errors"
	"fmt"
	"strings"

	"github.com/libsv/go-bt/v2"
	"github.com/libsv/go-bt/v2/bscript"
)

func q(f func() string) string {
	r := safe(f)
	if strings.HasPrefix(r, "panic") {
		return "PANIC"
	}
	return r
}

func b01(b bool) string {
	if b {
		return "1"
	}
	return "0"
}

func implInspect(sb []byte) string {
	s := bscript.NewFromBytes(sb)
	ty := q(func() string { return s.ScriptType() })
	p2pkh := q(func() string { return b01(s.IsP2PKH()) })
	p2pk := q(func() string { return b01(s.IsP2PK()) })
	p2sh := q(func() string { return b01(s.IsP2SH()) })
	ms := q(func() string { return b01(s.IsMultiSigOut()) })
	data := q(func() string { return b01(s.IsData()) })
	insc := q(func() string { return b01(s.IsP2PKHInscription()) })
	pkh := q(func() string {
		h, err := s.PublicKeyHash()
		switch {
		case err == nil:
			return "ok:" + hex.EncodeToString(h)
		case errors.Is(err, bscript.ErrEmptyScript):
			return "err-empty"
		case errors.Is(err, bscript.ErrNotP2PKH):
			return "err-notp2pkh"
		}
		return "err-decode"
	})
	asm := q(func() string {
		a, err := s.ToASM()
		if err != nil {
			return "err"
		}
		return strings.ReplaceAll(a, " ", "|")
	})
	pi := q(func() string {
		ia, err := s.ParseInscription()
		if err != nil {
			if errors.Is(err, bscript.ErrP2PKHInscriptionNotFound) {
				return "err-notfound"
			}
			return "err-decode"
		}
		return fmt.Sprintf("ok:%s:%s:%s", hex.EncodeToString(*ia.LockingScriptPrefix), hex.EncodeToString([]byte(ia.ContentType)), hex.EncodeToString(ia.Data))
	})
	addrs := q(func() string {
		a, err := s.Addresses()
		if err != nil {
			return "err"
		}
		return fmt.Sprint(len(a))
	})
	js := q(func() string {
		tx := bt.NewTx()
		tx.AddOutput(&bt.Output{Satoshis: 1, LockingScript: s})
		if _, err := json.Marshal(tx.NodeJSON()); err != nil {
			return "err"
		}
		return "ok"
	})
	inscd := q(func() string { return b01(s.IsInscribed()) })
	return fmt.Sprintf("type=%s p2pkh=%s p2pk=%s p2sh=%s ms=%s data=%s insc=%s pkh=%s asm=%s pi=%s addrs=%s json=%s inscd=%s",
		ty, p2pkh, p2pk, p2sh, ms, data, insc, pkh, asm, pi, addrs, js, inscd)
}

func init() {
	executors["C14.inspect"] = func(a []string) string {
		x := a[0]
		if x == "e" {
			x = ""
		}
		return implInspect(mustHex(x))
	}
	generators["C14"] = genC14
}

func tmplP2PKH(r *rng) []byte {
	s, _ := bscript.NewP2PKHFromPubKeyHash(r.bytes(20))
	return *s
}
func randKey(r *rng) []byte {
	if r.chance(60) {
		return append([]byte{byte(2 + r.n(2))}, r.bytes(32)...)
	}
	return append([]byte{[]byte{4, 6, 7}[r.n(3)]}, r.bytes(64)...)
}
func tmplP2PK(r *rng) []byte { return append(pushOf(randKey(r)), 0xac) }
func tmplMultisig(r *rng) []byte {
	n := 1 + r.n(5)
	if r.chance(30) {
		n = 1 + r.n(16) // up to OP_16
	}
	m := r.n(n + 1)
	opn := func(k int) byte {
		if k == 0 {
			return 0
		}
		return byte(0x50 + k)
	}
	s := []byte{opn(m)}
	for i := 0; i < n; i++ {
		s = append(s, pushOf(randKey(r))...)
	}
	return append(s, opn(n), 0xae)
}
func tmplData(r *rng) []byte {
	var s []byte
	if r.chance(50) {
		s = []byte{0x00}
	}
	s = append(s, 0x6a)
	switch r.n(4) {
	case 0:
	case 1:
		s = append(s, r.bytes(r.n(6))...)
	case 2:
		s = append(s, 0x51, 0x01, 0xae) // looks like the tail of a multisig
	default:
		for i := r.n(4); i >= 0; i-- {
			s = append(s, pushOf(r.bytes(1+r.n(300)))...)
		}
	}
	return s
}
func tmplInscription(r *rng) []byte {
	s := tmplP2PKH(r)
	s = append(s, 0x00, 0x63, 0x03, 0x6f, 0x72, 0x64, 0x51)
	s = append(s, pushOf(r.bytes(1+r.n(30)))...)
	s = append(s, 0x00)
	s = append(s, pushOf(r.bytes(1+r.n(400)))...)
	s = append(s, 0x68)
	if r.chance(40) {
		s = append(s, 0x6a)
		s = append(s, pushOf(r.bytes(1+r.n(20)))...)
	}
	return s
}

func genC14(e *emitter, tier string, seed uint64) {
	r := newRng(seed ^ 0xC14)
	quick := tier == "quick"
	// the data / hash-puzzle outputs as the library builds them (txoutput.go), on a generator of their own
	if quick {
		genOutC14(e, newRng(seed^0xC14F), 150)
	} else {
		genOutC14(e, newRng(seed^0xC14F), 5000)
	}
	ins := func(b []byte, kind string) {
		h := hex.EncodeToString(b)
		if len(b) == 0 {
			h = "e"
		}
		res := e.run("C14.inspect", h)
		e.note("kind." + kind)
		e.note("type." + strings.TrimPrefix(strings.Fields(res)[0], "type="))
	}
	// (0) every m-of-n bare multisig with 0 <= m <= n <= 16 (OP_0 and OP_1..OP_16 as the count opcodes)
	for n := 1; n <= 16; n++ {
		for m := 0; m <= n; m++ {
			opn := func(k int) byte {
				if k == 0 {
					return 0
				}
				return byte(0x50 + k)
			}
			sc := []byte{opn(m)}
			for i := 0; i < n; i++ {
				sc = append(sc, pushOf(randKey(r))...)
			}
			ins(append(sc, opn(n), 0xae), "multisig-m-of-n")
		}
	}
	// (1) exhaustive short strings
	maxLen := 2
	if !quick {
		maxLen = 3
	}
	var rec func(p []byte)
	rec = func(p []byte) {
		ins(p, "exhaustive")
		if len(p) == maxLen {
			return
		}
		for b := 0; b < 256; b++ {
			if len(p) == 2 && !quick && p[0] > 0x4e && p[0] != 0x76 && b%4 != int(seed%4) {
				continue
			}
			rec(append(append([]byte{}, p...), byte(b)))
		}
	}
	rec(nil)
	// (2) templates and their mutants
	tmpls := []struct {
		name string
		f    func(*rng) []byte
	}{{"p2pkh", tmplP2PKH}, {"p2pk", tmplP2PK}, {"multisig", tmplMultisig}, {"data", tmplData}, {"inscription", tmplInscription}}
	reps := 6
	if !quick {
		reps = 60
	}
	for _, t := range tmpls {
		for k := 0; k < reps; k++ {
			s := t.f(r)
			ins(s, "template-"+t.name)
			// every single-byte mutation (sampled positions for long scripts), truncations, removals
			step := 1
			if len(s) > 120 {
				step = len(s) / 60
			}
			for i := 0; i < len(s); i += step {
				m := append([]byte{}, s...)
				m[i] ^= byte(1 + r.n(255))
				ins(m, "mutant-byte")
				m2 := append([]byte{}, s...)
				m2[i] = []byte{0x00, 0x4c, 0x4d, 0x4e, 0x6a, 0xae, 0xac}[r.n(7)]
				ins(m2, "mutant-special")
				ins(s[:i], "mutant-truncated")
				ins(append(append([]byte{}, s[:i]...), s[i+1:]...), "mutant-removed")
			}
			// replace each part by a zero-length PUSHDATA form / empty push / truncated push
			parts, err := bscript.DecodeParts(s)
			if err == nil {
				for pi := range parts {
					for _, repl := range [][]byte{{0x4c, 0x00}, {0x4d, 0x00, 0x00}, {0x4e, 0, 0, 0, 0}, {0x00}, {0x4c, 0x05, 0x01}, {}} {
						var m []byte
						for pj, p := range parts {
							if pj == pi {
								m = append(m, repl...)
							} else if len(p) == 1 && (p[0] == 0 || p[0] > 0x4e) {
								m = append(m, p[0])
							} else {
								m = append(m, pushOf(p)...)
							}
						}
						ins(m, "mutant-part-replaced")
					}
					// the same push with shorter / longer data (every shorter length up to 6, then sampled)
					p := parts[pi]
					if len(p) >= 2 {
						for k := 1; k <= len(p); k++ {
							if k > 6 && k < len(p)-1 && !r.chance(10) {
								continue
							}
							data := append([]byte{}, p[:k%len(p)+0]...)
							if k == len(p) {
								data = append(append([]byte{}, p...), byte(r.n(256)))
							} else {
								data = append([]byte{}, p[:k]...)
							}
							var m []byte
							for pj, pp := range parts {
								switch {
								case pj == pi:
									m = append(m, pushOf(data)...)
								case len(pp) == 1 && (pp[0] == 0 || pp[0] > 0x4e):
									m = append(m, pp[0])
								default:
									m = append(m, pushOf(pp)...)
								}
							}
							ins(m, "mutant-part-resized")
						}
					}
				}
			}
		}
	}
	// (3) zero-length PUSHDATA forms in every position of short part sequences
	zl := [][]byte{{0x4c, 0x00}, {0x4d, 0x00, 0x00}, {0x4e, 0, 0, 0, 0}}
	heads := [][]byte{{}, {0x01, 0xaa}, {0x51}, {0x76, 0xa9}, {0x00}, {0x21}, pushOf(make([]byte, 33))}
	tails := [][]byte{{}, {0xac}, {0xae}, {0x51, 0xae}, {0x6a}}
	for _, h := range heads {
		for _, z := range zl {
			for _, t := range tails {
				ins(append(append(append([]byte{}, h...), z...), t...), "zero-length-pushdata")
				ins(append(append(append(append([]byte{}, z...), h...), z...), t...), "zero-length-pushdata")
			}
		}
	}
	// 13+ part sequences made of empty parts and inscription-like shapes shorter than 25 bytes
	for k := 0; k < 40; k++ {
		var s []byte
		n := 12 + r.n(4)
		for i := 0; i < n; i++ {
			switch r.n(4) {
			case 0:
				s = append(s, zl[r.n(3)]...)
			case 1:
				s = append(s, []byte{0x76, 0xa9, 0x88, 0xac, 0x00, 0x63, 0x51, 0x68}[r.n(8)])
			case 2:
				s = append(s, 0x03, 0x6f, 0x72, 0x64)
			default:
				s = append(s, pushOf(r.bytes(1+r.n(3)))...)
			}
		}
		ins(s, "many-parts")
	}
	// the short "inscription" whose prefix is not a 25-byte P2PKH
	ins(mustHex("76a90088ac0063036f726451015100015268"), "short-inscription")
	ins(mustHex("76a9"+"14"+strings.Repeat("11", 20)+"88ac0063036f72645101510001526800"), "inscription-extra")
	// inscriptions whose content type / payload / "ord" pushes use every push form (minimal or not), content types ending
	// in bytes that look like push opcodes, tiny payloads: the parser re-walks the raw script next to the decoded parts
	form := func(d []byte, k int) []byte {
		switch k {
		case 1:
			return append([]byte{0x4c, byte(len(d))}, d...)
		case 2:
			return append([]byte{0x4d, byte(len(d)), byte(len(d) >> 8)}, d...)
		case 3:
			return append([]byte{0x4e, byte(len(d)), byte(len(d) >> 8), 0, 0}, d...)
		}
		return pushOf(d)
	}
	lastBytes := []byte{0x00, 0x4b, 0x4c, 0x4d, 0x4e, 0x4f, 0x51, 0x68, 'a'}
	payloads := [][]byte{{}, {0x00}, {0x07}, {0x4e}, {1, 2}, {0x4d, 0, 0}, r.bytes(5), r.bytes(80)}
	for fc := 0; fc < 4; fc++ {
		for fp := 0; fp < 4; fp++ {
			for _, lb := range lastBytes {
				for pi, pl := range payloads {
					if quick && (pi+int(lb)+fc+fp)%3 != 0 {
						continue
					}
					for _, ctLen := range []int{1, 2, 9} {
						ct := append(r.bytes(ctLen-1), lb)
						s := tmplP2PKH(r)
						s = append(s, 0x00, 0x63)
						s = append(s, form([]byte("ord"), (fc+fp)%4*(pi%2))...)
						s = append(s, 0x51)
						s = append(s, form(ct, fc)...)
						s = append(s, 0x00)
						if len(pl) == 0 && fp == 0 {
							s = append(s, 0x00)
						} else {
							s = append(s, form(pl, fp)...)
						}
						s = append(s, 0x68)
						ins(s, "inscription-push-forms")
					}
				}
			}
		}
	}
	// PUSHDATA4 pushes whose 4-byte length has non-zero upper bytes while only the low 16 bits' worth of data follows
	// (undecodable: never a key-bearing type), next to the same scripts with an honest PUSHDATA4 length
	for k := 0; k < 60; k++ {
		key := append([]byte{2 + byte(r.n(2))}, r.bytes(32)...)
		hi := []byte{byte(1 + r.n(3)), byte(r.n(2))}
		pd4 := func(d []byte, upper []byte) []byte {
			return append([]byte{0x4e, byte(len(d)), byte(len(d) >> 8), upper[0], upper[1]}, d...)
		}
		for _, up := range [][]byte{hi, {0, 0}, {0, 1}} {
			ins(append(pd4(key, up), 0xac), "pushdata4-upper-bytes")                                              // P2PK shape
			ins(append(append([]byte{0x51}, pd4(key, up)...), 0x51, 0xae), "pushdata4-upper-bytes")               // 1-of-1 multisig shape
			ins(append(append([]byte{0x76, 0xa9}, pd4(r.bytes(20), up)...), 0x88, 0xac), "pushdata4-upper-bytes") // P2PKH-like
			s := append(tmplP2PKH(r), 0x00, 0x63, 0x03, 0x6f, 0x72, 0x64, 0x51)
			s = append(s, pd4(r.bytes(1+r.n(9)), up)...)
			s = append(s, 0x00)
			s = append(s, pd4(r.bytes(r.n(6)), up)...)
			ins(append(s, 0x68), "pushdata4-upper-bytes") // inscription shape
			ins(append([]byte{0x6a}, pd4(r.bytes(5), up)...), "pushdata4-upper-bytes")
		}
	}
	// (4) random strings
	n := 2000
	if !quick {
		n = 200000
	}
	for i := 0; i < n; i++ {
		ins(r.bytes(r.n(40)), "random")
	}
}
