package main

import (
	"bytes"
	"encoding/hex"
	"encoding/json"
	"errors"
	"fmt"
	"github.com/libsv/go-bt/v2/bscript"
	"os"
	"strconv"
	"strings"

	"github.com/libsv/go-bt/v2"
	"github.com/libsv/go-bt/v2/sighash"
)

func errClass(err error) string {
	switch {
	case errors.Is(err, bt.ErrInputNoExist):
		return "noinput"
	case errors.Is(err, bt.ErrEmptyPreviousTxID):
		return "notxid"
	case errors.Is(err, bt.ErrEmptyPreviousTxScript):
		return "noscript"
	}
	return "other"
}

func implPre(tx *bt.Tx, idx uint32, flag sighash.Flag, legacy bool) string {
	before := tx.ExtendedBytes()
	var pre []byte
	var err error
	if legacy {
		pre, err = tx.CalcInputPreimageLegacy(idx, flag)
	} else {
		pre, err = tx.CalcInputPreimage(idx, flag)
	}
	if err != nil {
		return "err " + errClass(err)
	}
	pre0 := pre
	pre = append([]byte{}, pre...)
	dig0, err := tx.CalcInputSignatureHash(idx, flag)
	if err != nil {
		return "err " + errClass(err)
	}
	dig := append([]byte{}, dig0...)
	// the caller owns what it was given: it reuses both buffers, then asks again — the answers must not change
	for i := range pre0 {
		pre0[i] = 0xee // fixed values, not a mask: were the buffers library memory, a second pass must not undo the first
	}
	for i := range dig0 {
		dig0[i] = 0xdd
	}
	var pre1 []byte
	if legacy {
		pre1, _ = tx.CalcInputPreimageLegacy(idx, flag)
	} else {
		pre1, _ = tx.CalcInputPreimage(idx, flag)
	}
	dig1, _ := tx.CalcInputSignatureHash(idx, flag)
	if !bytes.Equal(pre1, pre) || !bytes.Equal(dig1, dig) {
		pre, dig = append([]byte{}, pre1...), append([]byte{}, dig1...) // the later, differing answers are the ones reported
	}
	mut := 0
	if !bytes.Equal(before, tx.ExtendedBytes()) {
		mut = 1
	}
	return fmt.Sprintf("ok %s %s mut=%d", hex.EncodeToString(pre), hex.EncodeToString(dig), mut)
}

// implPreWithHistory: the same computation on a transaction object with a past.  A different transaction with the same
// shape (outputs rotated and their scripts / values exchanged so that count and total are what they will be, sequence
// numbers and scripts of the inputs altered) is hashed with several hash types on every input first, then edited IN PLACE,
// field by field, into the transaction of the op; whatever the object remembered from before must not show.
func implPreWithHistory(desc string, idx uint32, flag sighash.Flag, legacy bool) string {
	target := parseDesc(desc)
	w := parseDesc(desc)
	n := len(w.Outputs)
	for i := 0; i < n/2; i++ { // exchange the contents of outputs i and n-1-i (count and total unchanged)
		a, b := w.Outputs[i], w.Outputs[n-1-i]
		a.Satoshis, b.Satoshis = b.Satoshis, a.Satoshis
		a.LockingScript, b.LockingScript = b.LockingScript, a.LockingScript
	}
	if n == 1 {
		w.Outputs[0].LockingScript = scr(append([]byte{0x51}, *w.Outputs[0].LockingScript...))
	}
	for _, in := range w.Inputs {
		in.SequenceNumber ^= 0x5a5a
		in.PreviousTxOutIndex ^= 1
	}
	w.LockTime ^= 0x0101
	for i := range w.Inputs {
		for _, f := range []sighash.Flag{sighash.AllForkID, sighash.All, sighash.SingleForkID, sighash.Flag(0xc1), sighash.Flag(0x83)} {
			_, _ = w.CalcInputSignatureHash(uint32(i), f)
			_, _ = w.CalcInputPreimage(uint32(i), f|sighash.ForkID)
			_, _ = w.CalcInputPreimageLegacy(uint32(i), f&^sighash.ForkID)
		}
	}
	// edit in place into the target
	w.Version, w.LockTime = target.Version, target.LockTime
	for i, in := range w.Inputs {
		t := target.Inputs[i]
		in.SequenceNumber, in.PreviousTxOutIndex = t.SequenceNumber, t.PreviousTxOutIndex
	}
	for i, o := range w.Outputs {
		o.Satoshis, o.LockingScript = target.Outputs[i].Satoshis, target.Outputs[i].LockingScript
	}
	return implPre(w, idx, flag, legacy)
}

// both: the fresh computation, or — if it differs — what the object with a history gave
// implPreShared: the same transaction built the way a wallet builds it — equal scripts are ONE script object (one
// locking script handed to FromUTXOs for several UTXOs of the same key, one script paid to by several outputs): whether
// two inputs hold the same pointer must not matter, only their bytes.
func implPreShared(desc string, idx uint32, flag sighash.Flag, legacy bool) string {
	tx := parseDesc(desc)
	seen := map[string]*bscript.Script{}
	share := func(p **bscript.Script) {
		if *p == nil {
			return
		}
		k := string(**p)
		if q, ok := seen[k]; ok {
			*p = q
		} else {
			seen[k] = *p
		}
	}
	for _, in := range tx.Inputs {
		share(&in.PreviousTxScript)
	}
	for _, in := range tx.Inputs {
		share(&in.UnlockingScript)
	}
	for _, o := range tx.Outputs {
		share(&o.LockingScript)
	}
	return implPre(tx, idx, flag, legacy)
}

// implPreNilSlices: the same transaction with every empty script held as a nil slice behind its pointer
// (new(bscript.Script), bscript.NewFromBytes(nil)) instead of an empty non-nil one: an empty script is an empty script
func implPreNilSlices(desc string, idx uint32, flag sighash.Flag, legacy bool) string {
	tx := parseDesc(desc)
	for _, in := range tx.Inputs {
		if in.PreviousTxScript != nil && len(*in.PreviousTxScript) == 0 {
			in.PreviousTxScript = new(bscript.Script)
		}
		if in.UnlockingScript != nil && len(*in.UnlockingScript) == 0 {
			in.UnlockingScript = bscript.NewFromBytes(nil)
		}
	}
	for _, o := range tx.Outputs {
		if o.LockingScript != nil && len(*o.LockingScript) == 0 {
			o.LockingScript = new(bscript.Script)
		}
	}
	return implPre(tx, idx, flag, legacy)
}

func implPreBoth(desc string, idx uint32, flag sighash.Flag, legacy bool) string {
	fresh := implPre(parseDesc(desc), idx, flag, legacy)
	if h := implPreNilSlices(desc, idx, flag, legacy); h != fresh {
		return h
	}
	if h := implPreWithHistory(desc, idx, flag, legacy); h != fresh {
		return h
	}
	if h := implPreShared(desc, idx, flag, legacy); h != fresh {
		return h
	}
	return fresh
}

func init() {
	executors["C02.pre"] = func(a []string) string {
		return implPreBoth(a[0], uint32(mustU(a[1], 32)), sighash.Flag(mustU(a[2], 8)), false)
	}
	executors["C03.pre"] = func(a []string) string {
		return implPreBoth(a[0], uint32(mustU(a[1], 32)), sighash.Flag(mustU(a[2], 8)), true)
	}
	// SH.vec: pass-through of the node-generated vectors shipped in the repository; the
	// "implementation" column is the node's expected digest (go-bt cannot represent 32-bit hash types)
	executors["SH.vec"] = func(a []string) string { return a[5] }
}

// genSigTx: transaction shapes for the signature-hash properties; every input has a previous
// script (sometimes nil to hit the error path) and value.
func genSigTx(r *rng, nIn, nOut int, allowNil bool) *bt.Tx {
	tx := &bt.Tx{Version: r.u32edge(), LockTime: r.u32edge()}
	for i := 0; i < nIn; i++ {
		in := mkInput(r.bytes(32), r.u32edge(), scr(r.bytes(r.pick([]int{0, 1, 25, 107, 252, 253, 300}))), r.u32edge(), r.u64edge(), scr(r.bytes(r.pick([]int{0, 1, 25, 35, 252, 253, 254, 700}))))
		if r.chance(20) {
			in.UnlockingScript = nil
		}
		if allowNil && r.chance(4) {
			in.PreviousTxScript = nil
		}
		tx.Inputs = append(tx.Inputs, in)
	}
	for i := 0; i < nOut; i++ {
		tx.Outputs = append(tx.Outputs, &bt.Output{Satoshis: r.u64edge(), LockingScript: scr(r.bytes(r.pick([]int{0, 1, 25, 252, 253, 400})))})
	}
	return tx
}

func genSighash(e *emitter, tier string, seed uint64, legacy bool) {
	r := newRng(seed ^ 0x5167)
	op := "C02.pre"
	if legacy {
		op = "C03.pre"
	}
	shapes := 40
	if tier != "quick" {
		shapes = 150
	}
	var flags []int
	for f := 0; f < 256; f++ {
		if (f&0x40 != 0) != legacy {
			flags = append(flags, f)
		}
	}
	for s := 0; s < shapes; s++ {
		nIn := 1 + r.n(6)
		nOut := r.n(7)
		if s%5 == 0 { // more inputs than outputs
			nIn = 2 + r.n(5)
			nOut = r.n(nIn)
		}
		tx := genSigTx(r, nIn, nOut, true)
		if s%4 == 1 && nIn > 1 {
			// several inputs spending outputs of the same key (equal previous scripts), outputs paying to one script, an
			// unlocking script equal to a previous script
			for i := 1; i < nIn; i++ {
				if tx.Inputs[0].PreviousTxScript != nil && r.chance(70) {
					tx.Inputs[i].PreviousTxScript = scr(append([]byte{}, *tx.Inputs[0].PreviousTxScript...))
				}
			}
			for i := 1; i < nOut; i++ {
				if r.chance(50) {
					tx.Outputs[i].LockingScript = scr(append([]byte{}, *tx.Outputs[0].LockingScript...))
				}
			}
			if tx.Inputs[0].PreviousTxScript != nil && r.chance(50) {
				tx.Inputs[nIn-1].UnlockingScript = scr(append([]byte{}, *tx.Inputs[0].PreviousTxScript...))
			}
		}
		d := descTx(tx)
		idxs := []uint32{0, uint32(nIn - 1), uint32(r.n(nIn)), uint32(nIn), 0xffffffff}
		// every 8-bit hash type of this family on two indices, a sample on the rest
		for _, f := range flags {
			for k, idx := range idxs {
				if k >= 2 && !r.chance(8) {
					continue
				}
				res := e.run(op, d, strconv.Itoa(int(idx)), strconv.Itoa(f))
				e.note(op + "." + strings.Fields(res)[0] + fmt.Sprintf(".base%d.acp%d", minInt(f&31, 4), f>>7))
			}
		}
		e.note(fmt.Sprintf("shape.in%d.out%d", minInt(nIn, 4), minInt(nOut, 4)))
	}
	// the shipped node vectors validate the specification functions
	file := "/repo/bscript/interpreter/data/sighash_bip143.json"
	kind := "bip143"
	if legacy {
		file, kind = "/repo/bscript/interpreter/data/sighash_legacy.json", "legacy"
	}
	raw, err := os.ReadFile(file)
	if err == nil {
		var rows [][]interface{}
		if json.Unmarshal(raw, &rows) == nil {
			for _, row := range rows {
				if len(row) != 5 {
					continue
				}
				sc := row[1].(string)
				if sc == "" {
					sc = "-"
				}
				e.run("SH.vec", kind, row[0].(string), sc, strconv.Itoa(int(row[2].(float64))), strconv.FormatInt(int64(row[3].(float64)), 10), row[4].(string))
				e.note("vector." + kind)
			}
		}
	}
}

func minInt(a, b int) int {
	if a < b {
		return a
	}
	return b
}

func init() {
	generators["C02"] = func(e *emitter, tier string, seed uint64) { genSighash(e, tier, seed, false) }
	generators["C03"] = func(e *emitter, tier string, seed uint64) { genSighash(e, tier, seed, true) }
}
