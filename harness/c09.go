package main

import (
	"bytes"
	"encoding/hex"
	"encoding/json"
	"fmt"
	"io"
	"os"
	"os/exec"
	"runtime"
	"strconv"
	"strings"
	"syscall"
	"time"

	"github.com/libsv/go-bt/v2"
)

// oneByteReader hands out one byte per Read call
type oneByteReader struct{ r io.Reader }

func (o oneByteReader) Read(p []byte) (int, error) {
	if len(p) == 0 {
		return 0, nil
	}
	return o.r.Read(p[:1])
}

// runIsolated executes one op in a child process with an address-space limit and a watchdog,
// so that an unbounded allocation or a hang cannot take the harness down
func (e *emitter) runIsolated(op string, args ...string) string {
	cmd := exec.Command(os.Args[0], append([]string{"one", op}, args...)...)
	total := 0
	for _, a := range args {
		total += len(a)
	}
	if total > 100000 { // a single argument is limited to 128 KiB by the kernel
		cmd = exec.Command(os.Args[0], "one", op, "@stdin")
		cmd.Stdin = strings.NewReader(strings.Join(args, " "))
	}
	cmd.Env = append(os.Environ(), "VERIF_AS_LIMIT=6442450944", "GOMEMLIMIT=2GiB")
	var out bytes.Buffer
	cmd.Stdout = &out
	done := make(chan error, 1)
	if err := cmd.Start(); err != nil {
		panic(err)
	}
	go func() { done <- cmd.Wait() }()
	res := ""
	select {
	case err := <-done:
		if err != nil {
			res = "CRASH " + strings.ReplaceAll(err.Error(), " ", "_")
		} else {
			res = strings.TrimRight(out.String(), "\n")
		}
	case <-time.After(30 * time.Second):
		_ = cmd.Process.Kill()
		res = "CRASH hang"
	}
	e.emit(op, strings.Join(args, " "), res)
	return res
}

func applyASLimit() {
	if v := os.Getenv("VERIF_AS_LIMIT"); v != "" {
		if n, err := strconv.ParseUint(v, 10, 64); err == nil {
			_ = syscall.Setrlimit(syscall.RLIMIT_AS, &syscall.Rlimit{Cur: n, Max: n})
		}
	}
}

func measureAlloc(f func()) uint64 {
	var a, b runtime.MemStats
	runtime.GC()
	runtime.ReadMemStats(&a)
	f()
	runtime.ReadMemStats(&b)
	return b.TotalAlloc - a.TotalAlloc
}

func init() {
	executors["C09.reader"] = func(a []string) string {
		b := mustHex(a[0])
		tx := &bt.Tx{}
		n, err := tx.ReadFrom(oneByteReader{bytes.NewReader(b)})
		if err != nil {
			return fmt.Sprintf("err n=%d", n)
		}
		return fmt.Sprintf("ok n=%d txid=%s", n, hex.EncodeToString(tx.TxIDBytes()))
	}
	executors["C09.input"] = func(a []string) string {
		b := mustHex(a[1])
		in := &bt.Input{}
		var n int64
		var err error
		if a[0] == "1" {
			n, err = in.ReadFromExtended(bytes.NewReader(b))
		} else {
			n, err = in.ReadFrom(bytes.NewReader(b))
		}
		if err != nil {
			return fmt.Sprintf("err n=%d", n)
		}
		return fmt.Sprintf("ok n=%d in=%s", n, descInput(in))
	}
	executors["C09.output"] = func(a []string) string {
		b := mustHex(a[0])
		o := &bt.Output{}
		n, err := o.ReadFrom(bytes.NewReader(b))
		if err != nil {
			return fmt.Sprintf("err n=%d", n)
		}
		return fmt.Sprintf("ok n=%d out=%d:%s", n, o.Satoshis, optHex(o.LockingScript))
	}
	// C09.alloc <len> <entry> <hex>: bytes allocated while decoding
	executors["C09.alloc"] = func(a []string) string {
		b := mustHex(a[2])
		res := ""
		alloc := measureAlloc(func() {
			res = safe(func() string {
				switch a[1] {
				case "tx":
					_, n, err := bt.NewTxFromStream(b)
					return fmt.Sprintf("n=%d err=%v", n, err != nil)
				case "txs":
					var txs bt.Txs
					n, err := txs.ReadFrom(bytes.NewReader(b))
					return fmt.Sprintf("n=%d err=%v", n, err != nil)
				case "input":
					in := &bt.Input{}
					n, err := in.ReadFromExtended(bytes.NewReader(b))
					return fmt.Sprintf("n=%d err=%v", n, err != nil)
				case "output":
					o := &bt.Output{}
					n, err := o.ReadFrom(bytes.NewReader(b))
					return fmt.Sprintf("n=%d err=%v", n, err != nil)
				case "reader":
					tx := &bt.Tx{}
					n, err := tx.ReadFrom(oneByteReader{bytes.NewReader(b)})
					return fmt.Sprintf("n=%d err=%v", n, err != nil)
				}
				return "?"
			})
		})
		if strings.HasPrefix(res, "panic") {
			return "PANIC " + res
		}
		return fmt.Sprintf("alloc=%d %s", alloc, res)
	}
	executors["C09.njtx"] = func(a []string) string {
		js := shapeToJSON(a[0])
		return q(func() string {
			tx := bt.NewTx()
			if err := json.Unmarshal([]byte(js), tx.NodeJSON()); err != nil {
				return "err"
			}
			return "ok tx=" + descTx(tx)
		})
	}
	// C09.rawjson <kind> <hex of json text>
	executors["C09.rawjson"] = func(a []string) string {
		text := mustHex(a[1])
		return q(func() string {
			var err error
			switch a[0] {
			case "tx":
				err = json.Unmarshal(text, bt.NewTx())
			case "nodetx":
				err = json.Unmarshal(text, bt.NewTx().NodeJSON())
			case "nodetxs":
				var txs bt.Txs
				err = json.Unmarshal(text, txs.NodeJSON())
			case "output":
				err = json.Unmarshal(text, &bt.Output{})
			case "nodeoutput":
				err = json.Unmarshal(text, (&bt.Output{}).NodeJSON())
			case "input":
				err = json.Unmarshal(text, &bt.Input{})
			case "utxo":
				err = json.Unmarshal(text, &bt.UTXO{})
			case "nodeutxo":
				err = json.Unmarshal(text, (&bt.UTXO{}).NodeJSON())
			case "nodeutxos":
				var us bt.UTXOs
				err = json.Unmarshal(text, us.NodeJSON())
			}
			if err != nil {
				return "err"
			}
			return "ok"
		})
	}
	generators["C09"] = genC09
}

// shapeToJSON renders the shape text of C09.njtx as node-style JSON
func shapeToJSON(sh string) string {
	get := map[string]string{}
	for _, f := range strings.Split(sh, ";") {
		kv := strings.SplitN(f, "=", 2)
		get[kv[0]] = kv[1]
	}
	hexStr := func(v string) string {
		if v == "BAD" {
			return "zz"
		}
		return v
	}
	var sb strings.Builder
	sb.WriteString(fmt.Sprintf(`{"version":%s,"locktime":%s`, get["v"], get["lt"]))
	if get["hex"] != "-" {
		sb.WriteString(fmt.Sprintf(`,"hex":"%s"`, hexStr(get["hex"])))
	}
	sb.WriteString(`,"vin":[`)
	if get["vin"] != "" {
		for i, in := range strings.Split(get["vin"], "|") {
			if i > 0 {
				sb.WriteByte(',')
			}
			if in == "null" {
				sb.WriteString("null")
				continue
			}
			m := map[string]string{}
			for _, f := range strings.Split(in, ",") {
				kv := strings.SplitN(f, ":", 2)
				m[kv[0]] = kv[1]
			}
			sb.WriteByte('{')
			if m["ss"] != "ABSENT" {
				sb.WriteString(fmt.Sprintf(`"scriptSig":{"asm":"","hex":"%s"},`, hexStr(m["ss"])))
			}
			sb.WriteString(fmt.Sprintf(`"txid":"%s","vout":%s,"sequence":%s}`, hexStr(m["txid"]), m["vout"], m["seq"]))
		}
	}
	sb.WriteString(`],"vout":[`)
	if get["vout"] != "" {
		for i, o := range strings.Split(get["vout"], "|") {
			if i > 0 {
				sb.WriteByte(',')
			}
			if o == "null" {
				sb.WriteString("null")
				continue
			}
			m := map[string]string{}
			for _, f := range strings.Split(o, ",") {
				kv := strings.SplitN(f, ":", 2)
				m[kv[0]] = kv[1]
			}
			nField := fmt.Sprint(i)
			if v, ok := m["n"]; ok {
				nField = v // the declared position (the decoder takes outputs in array order whatever it says)
			}
			sb.WriteString(fmt.Sprintf(`{"value":%s,"n":%s`, m["val"], nField))
			if m["spk"] != "ABSENT" {
				sb.WriteString(fmt.Sprintf(`,"scriptPubKey":{"asm":"","hex":"%s","type":"x"}`, hexStr(m["spk"])))
			}
			sb.WriteByte('}')
		}
	}
	sb.WriteString(`]}`)
	return sb.String()
}

func le64b(v uint64) []byte {
	b := make([]byte, 8)
	for i := range b {
		b[i] = byte(v >> (8 * uint(i)))
	}
	return b
}

func genC09(e *emitter, tier string, seed uint64) {
	r := newRng(seed ^ 0xC09)
	quick := tier == "quick"
	// (1) seed transactions: every truncation and single-bit flips, through every binary entry point
	nSeeds := 12
	if !quick {
		nSeeds = 50
	}
	for s := 0; s < nSeeds; s++ {
		tx := genTx(r, r.n(3), r.n(3), false)
		for _, b := range [][]byte{tx.Bytes(), tx.ExtendedBytes()} {
			if len(b) > 500 {
				continue
			}
			for cut := 0; cut <= len(b); cut++ {
				h := hex.EncodeToString(b[:cut])
				e.run("C01.parse", h)
				e.run("C09.reader", h)
				e.note("truncation")
			}
			flips := 40
			if !quick {
				flips = 200
			}
			for k := 0; k < flips; k++ {
				m := append([]byte{}, b...)
				p := r.n(len(m))
				m[p] ^= 1 << uint(r.n(8))
				h := hex.EncodeToString(m)
				e.runIsolated("C01.parse", h)
				e.note("bitflip")
			}
		}
		for _, in := range tx.Inputs {
			ib := in.Bytes(false)
			for cut := 0; cut <= len(ib) && cut < 120; cut++ {
				e.run("C09.input", "0", hex.EncodeToString(ib[:cut]))
			}
		}
		for _, o := range tx.Outputs {
			ob := o.Bytes()
			for cut := 0; cut <= len(ob) && cut < 120; cut++ {
				e.run("C09.output", hex.EncodeToString(ob[:cut]))
			}
		}
	}
	// (2) crafted prefixes: length/count fields claiming far more than is present (isolated child)
	claims := []uint64{0xfd, 0xffff, 0x10000, 1 << 20, 1 << 31, 1<<32 - 1, 1 << 32, 1 << 40, 1 << 62, 1 << 63, 1<<63 + 1, 1<<64 - 1}
	vi := func(v uint64) []byte {
		if r.chance(50) || v >= 1<<32 {
			return nonMinimalVarint(v, 9)
		}
		return bt.VarInt(v).Bytes()
	}
	for _, c := range claims {
		for _, follow := range []int{0, 1, 7, 64} {
			tail := r.bytes(follow)
			// script length in an input
			b := append([]byte{1, 0, 0, 0, 1}, r.bytes(36)...)
			b = append(append(b, vi(c)...), tail...)
			// output script length
			o := append(le64b(5), append(vi(c), tail...)...)
			b2 := append(append([]byte{1, 0, 0, 0, 0, 1}, o...), 0, 0, 0, 0)
			// input / output / tx counts
			b3 := append(append([]byte{1, 0, 0, 0}, vi(c)...), tail...)
			b4 := append(append([]byte{1, 0, 0, 0, 0}, vi(c)...), tail...)
			b5 := append(vi(c), tail...)
			// extended input: previous script length
			b6 := append([]byte{1, 0, 0, 0, 0, 0, 0, 0, 0, 0xEF, 1}, r.bytes(36)...)
			b6 = append(b6, 0, 0xff, 0xff, 0xff, 0xff)
			b6 = append(b6, le64b(7)...)
			b6 = append(append(b6, vi(c)...), tail...)
			// extended format: the input count re-read after the marker, and the output count after it
			b7 := append(append([]byte{1, 0, 0, 0, 0, 0, 0, 0, 0, 0xEF}, vi(c)...), tail...)
			b8 := append(append([]byte{1, 0, 0, 0, 0, 0, 0, 0, 0, 0xEF, 0}, vi(c)...), tail...)
			for _, x := range []struct {
				entry string
				b     []byte
			}{{"tx", b}, {"tx", b2}, {"tx", b3}, {"tx", b4}, {"txs", b5}, {"tx", b6}, {"tx", b7}, {"tx", b8}, {"reader", b7}, {"reader", b}, {"output", o}, {"input", b6[11:]}} {
				e.runIsolated("C09.alloc", strconv.Itoa(len(x.b)), x.entry, hex.EncodeToString(x.b))
				e.note("crafted." + x.entry)
			}
			e.runIsolated("C01.parse", hex.EncodeToString(b))
			e.runIsolated("C01.parse", hex.EncodeToString(b7))
			e.runIsolated("C01.parse", hex.EncodeToString(b8))
			e.runIsolated("C01.txs", hex.EncodeToString(b5))
			e.runIsolated("C09.input", "1", hex.EncodeToString(b6[11:]))
			e.runIsolated("C09.output", hex.EncodeToString(o))
		}
	}
	// (2a) a script length with the top bit set followed by MORE than one read chunk of real data: the chunked reader gets
	//      past its first chunk before it runs out (a buffer re-grown from the claimed length must not trust it)
	for _, c := range []uint64{1 << 63, 1<<63 + 1, 1<<64 - 1, 1 << 62, 1 << 32} {
		for _, follow := range []int{65536, 65537, 140000} {
			tail := r.bytes(follow)
			b := append([]byte{1, 0, 0, 0, 1}, r.bytes(36)...)
			b = append(append(b, nonMinimalVarint(c, 9)...), tail...)
			o := append(le64b(5), append(nonMinimalVarint(c, 9), tail...)...)
			b2 := append(append([]byte{1, 0, 0, 0, 0, 1}, o...), 0, 0, 0, 0)
			b6 := append([]byte{1, 0, 0, 0, 0, 0, 0, 0, 0, 0xEF, 1}, r.bytes(36)...)
			b6 = append(b6, 0, 0xff, 0xff, 0xff, 0xff)
			b6 = append(b6, le64b(7)...)
			b6 = append(append(b6, nonMinimalVarint(c, 9)...), tail...)
			for _, x := range []struct {
				entry string
				b     []byte
			}{{"tx", b}, {"tx", b2}, {"tx", b6}, {"reader", b}, {"output", o}} {
				if quick && follow == 140000 && x.entry != "tx" {
					continue
				}
				e.runIsolated("C09.alloc", strconv.Itoa(len(x.b)), x.entry, hex.EncodeToString(x.b))
				e.note("crafted-long-tail." + x.entry)
			}
		}
	}
	// (2a') the same with MEGABYTES of real data behind the claim: a reader that starts to trust the length field once
	//       "enough" of it has really arrived (16 chunks, 1 MiB, …) reserves the rest in one go
	megs := []int{1<<20 + 200}
	if !quick {
		megs = []int{1 << 20, 1<<20 + 200, 2<<20 + 1, 4<<20 + 77}
	}
	for _, c := range []uint64{1<<64 - 1, 1 << 40, 1 << 28} {
		for _, follow := range megs {
			tail := r.bytes(follow)
			b := append([]byte{1, 0, 0, 0, 1}, r.bytes(36)...)
			b = append(append(b, nonMinimalVarint(c, 9)...), tail...)
			o := append(le64b(5), append(nonMinimalVarint(c, 9), tail...)...)
			for _, x := range []struct {
				entry string
				b     []byte
			}{{"tx", b}, {"output", o}} {
				if quick && c == 1<<40 && x.entry == "output" {
					continue
				}
				e.runIsolated("C09.alloc", strconv.Itoa(len(x.b)), x.entry, hex.EncodeToString(x.b))
				e.note("crafted-megabyte-tail." + x.entry)
			}
		}
	}
	// (2b) counts whose product with a plausible per-element size wraps modulo 2^64 to something small: a bounds test of
	//      the form count*size <= remaining passes although the count is astronomically large
	var sizes []uint64
	for m := uint64(2); m <= 64; m++ {
		sizes = append(sizes, m)
	}
	sizes = append(sizes, 72, 80, 96, 100, 128, 148, 180, 256)
	for _, m := range sizes {
		// c = ceil(2^64 / m): c*m mod 2^64 < m
		c := (1<<64-1)/m + 1
		tail := r.bytes(int(m) + 40)
		b3 := append(append([]byte{1, 0, 0, 0}, nonMinimalVarint(c, 9)...), tail...)
		b4 := append(append([]byte{1, 0, 0, 0, 0}, nonMinimalVarint(c, 9)...), tail...)
		b5 := append(nonMinimalVarint(c, 9), tail...)
		b7 := append(append([]byte{1, 0, 0, 0, 0, 0, 0, 0, 0, 0xEF}, nonMinimalVarint(c, 9)...), tail...)
		b8 := append(append([]byte{1, 0, 0, 0, 0, 0, 0, 0, 0, 0xEF, 0}, nonMinimalVarint(c, 9)...), tail...)
		for _, x := range []struct {
			entry string
			b     []byte
		}{{"tx", b3}, {"tx", b4}, {"txs", b5}, {"tx", b7}, {"tx", b8}, {"reader", b3}} {
			if quick && m > 48 && m != 64 && x.entry == "reader" {
				continue
			}
			e.runIsolated("C09.alloc", strconv.Itoa(len(x.b)), x.entry, hex.EncodeToString(x.b))
			e.note("crafted-product-wrap." + x.entry)
		}
	}
	// (3) random bytes
	n := 1500
	if !quick {
		n = 200000
	}
	for i := 0; i < n; i++ {
		b := r.bytes(r.n(100))
		if len(b) > 6 && r.chance(60) {
			b[4] = byte(r.n(3))
		}
		h := hex.EncodeToString(b)
		if i%50 == 0 {
			e.runIsolated("C01.parse", h)
		} else {
			e.run("C09.input", strconv.Itoa(r.n(2)), h)
			e.run("C09.output", h)
		}
	}
	// (4) node-JSON shapes: field presence / null / bad hex
	m := 600
	if !quick {
		m = 30000
	}
	fld := func(goodLen int) string {
		switch r.n(10) {
		case 0:
			return "BAD"
		default:
			return hex.EncodeToString(r.bytes(goodLen))
		}
	}
	for i := 0; i < m; i++ {
		var vin, vout []string
		for k := r.n(3); k > 0; k-- {
			if r.chance(8) {
				vin = append(vin, "null")
				continue
			}
			ss := fld(r.n(5))
			if r.chance(12) {
				ss = "ABSENT"
			}
			txid := fld(32)
			if r.chance(20) {
				// every length class of the previous-transaction id, far beyond 32 bytes too (a decoder that copies the
				// digits into a fixed buffer must measure them first)
				txid = hex.EncodeToString(r.bytes([]int{0, 1, 31, 33, 34, 48, 64, 96, 300}[r.n(9)]))
			}
			vin = append(vin, fmt.Sprintf("ss:%s,txid:%s,vout:%d,seq:%d", ss, txid, r.n(9), r.u32edge()))
		}
		for k := r.n(3); k > 0; k-- {
			if r.chance(8) {
				vout = append(vout, "null")
				continue
			}
			spk := fld(r.n(30))
			if r.chance(12) {
				spk = "ABSENT"
			}
			vals := []string{"0", "0.00000001", "0.29", "1", "20999999.9769", "0.00000003", "12.5", "0.1", "0.00000546"}
			ent := fmt.Sprintf("val:%s,spk:%s", vals[r.n(len(vals))], spk)
			if r.chance(25) {
				ent += ",n:" + []string{"0", "1", "2", "3", "4", "-1", "4294967295", "5", "100"}[r.n(9)] // integers: anything else is encoding/json's business
			}
			vout = append(vout, ent)
		}
		hx := "-"
		if r.chance(25) {
			hx = hex.EncodeToString(genTx(r, r.n(3), r.n(3), false).Bytes())
			if r.chance(20) {
				hx = hx[:len(hx)/2*2-2]
			} else if r.chance(25) {
				hx += []string{"00", "ff", "0000000000", "01000000"}[r.n(4)] // a complete transaction followed by more bytes
			}
			if r.chance(10) {
				hx = "BAD"
			}
		}
		sh := fmt.Sprintf("v=%d;lt=%d;hex=%s;vin=%s;vout=%s", r.u32edge(), r.u32edge(), hx, strings.Join(vin, "|"), strings.Join(vout, "|"))
		res := e.run("C09.njtx", sh)
		e.note("njtx." + strings.Fields(res)[0])
	}
	// (5) raw JSON texts from a small grammar (wrong types, nulls, nesting) for every JSON entry point
	atoms := []string{`null`, `{}`, `[]`, `[null]`, `""`, `"zz"`, `"00"`, `1`, `-1`, `1e400`, `true`, `{"hex":"00"}`, `{"vin":[{}]}`, `{"vout":[{}]}`,
		`{"vin":[null]}`, `{"vout":[null]}`, `{"vin":[{"scriptSig":null}]}`, `{"vout":[{"scriptPubKey":null,"value":1}]}`, `{"inputs":[null]}`,
		`{"inputs":[{}]}`, `{"outputs":[{}]}`, `{"outputs":[null]}`, `{"hex":""}`, `{"txid":"00","vout":1,"lockingScript":"zz"}`, `{"scriptPubKey":{"hex":"51"},"value":0.5}`,
		`{"value":"x"}`, `{"amount":1e30,"scriptPubKey":"51","txid":"00"}`, `[{"txid":"00"}]`, `[{}]`, `{"satoshis":-1}`, `{"satoshis":1,"lockingScript":"51"}`,
		`{"unlockingScript":null,"txid":null}`, `{"version":"1"}`, `{"locktime":4294967296}`}
	kinds := []string{"tx", "nodetx", "nodetxs", "output", "nodeoutput", "input", "utxo", "nodeutxo", "nodeutxos"}
	for _, k := range kinds {
		for _, a := range atoms {
			e.run("C09.rawjson", k, hex.EncodeToString([]byte(a)))
			e.run("C09.rawjson", k, hex.EncodeToString([]byte("["+a+"]")))
			e.note("rawjson." + k)
		}
	}
}
