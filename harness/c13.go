package main

import (
	"bytes"
	"encoding/hex"
	"encoding/json"
	"fmt"
	"strconv"
	"strings"

	"github.com/libsv/go-bt/v2/bscript"
	"github.com/libsv/go-bt/v2/bscript/interpreter"
)

func showItems(parts [][]byte) string {
	if len(parts) == 0 {
		return "-"
	}
	ss := make([]string, len(parts))
	for i, p := range parts {
		if len(p) == 0 {
			ss[i] = "e"
		} else {
			ss[i] = hex.EncodeToString(p)
		}
	}
	return strings.Join(ss, ",")
}

func parseItems(s string) [][]byte {
	if s == "-" {
		return nil
	}
	var out [][]byte
	for _, t := range strings.Split(s, ",") {
		if t == "e" {
			out = append(out, []byte{})
		} else {
			out = append(out, mustHex(t))
		}
	}
	return out
}

func okErr(err error) string {
	if err != nil {
		return "err"
	}
	return "ok"
}

func init() {
	executors["C13.enc"] = func(a []string) string {
		items := parseItems(a[0])
		enc, err := bscript.EncodeParts(items)
		if err != nil {
			return "err"
		}
		back, err := bscript.DecodeParts(enc)
		return fmt.Sprintf("ok %s back=%s:%s", hex.EncodeToString(enc), okErr(err), showItems(back))
	}
	executors["C13.tok"] = func(a []string) string {
		s := mustHex(a[0])
		p := interpreter.DefaultOpcodeParser{}
		ops, err := p.Parse(bscript.NewFromBytes(s))
		ps, un := "err", "-"
		if err == nil {
			var sb []string
			for _, o := range ops {
				sb = append(sb, fmt.Sprintf("%d:%d:%s", o.Value(), o.Length(), hex.EncodeToString(o.Data)))
			}
			ps = "ok:" + strings.Join(sb, ";")
			u, err := p.Unparse(ops)
			if err != nil {
				un = "err"
			} else {
				un = hex.EncodeToString(*u)
			}
		}
		parts, derr := bscript.DecodeParts(s)
		return fmt.Sprintf("p=%s un=%s d=%s:%s", ps, un, okErr(derr), showItems(parts))
	}
	executors["C13.asm"] = func(a []string) string {
		s := bscript.NewFromBytes(mustHex(a[0]))
		asm, err := s.ToASM()
		if err != nil {
			return "asm-err"
		}
		back := "err"
		if b, err := bscript.NewFromASM(asm); err == nil {
			back = hex.EncodeToString(*b)
		}
		return fmt.Sprintf("asm=%s back=%s", strings.ReplaceAll(asm, " ", "|"), back)
	}
	executors["C13.hexjson"] = func(a []string) string {
		s := bscript.NewFromBytes(mustHex(a[0]))
		// the renderings of one script object, in the order a caller may well use them: assembly, type, then hex and JSON —
		// an earlier rendering must not change what a later one shows
		_, _ = s.ToASM()
		_ = s.ScriptType()
		h := s.String()
		b1, err := bscript.NewFromHexString(h)
		if err != nil {
			return "hex-err"
		}
		js, err := json.Marshal(s)
		if err != nil {
			return "json-err"
		}
		var b2 bscript.Script
		if err := json.Unmarshal(js, &b2); err != nil {
			return "unjson-err"
		}
		// destinations that already hold a script (longer, equal, shorter; a struct field; a slice element the decoder
		// reuses): the decoded value is the new script, nothing of the old one
		var bad []byte
		for _, old := range [][]byte{bytes.Repeat([]byte{0x6a}, len(*s)+7), bytes.Repeat([]byte{0x51}, len(*s)), {0xac}} {
			dst := bscript.Script(append([]byte{}, old...))
			if err := json.Unmarshal(js, &dst); err != nil {
				return "unjson-err"
			}
			holder := struct{ S bscript.Script }{S: append([]byte{}, old...)}
			if err := json.Unmarshal([]byte(`{"S":`+string(js)+`}`), &holder); err != nil {
				return "unjson-err"
			}
			list := []bscript.Script{append([]byte{}, old...), append([]byte{}, old...)}
			if err := json.Unmarshal([]byte(`[`+string(js)+`,`+string(js)+`]`), &list); err != nil || len(list) != 2 {
				return "unjson-err"
			}
			for _, got := range [][]byte{dst, holder.S, list[0], list[1]} {
				if bad == nil && !bytes.Equal(got, b2) {
					bad = append([]byte{}, got...) // the first populated-destination result that differs is the one reported
				}
			}
		}
		if bad != nil {
			b2 = bad
		}
		return fmt.Sprintf("%s %s back=%s jback=%s", h, string(js), hex.EncodeToString(*b1), hex.EncodeToString(b2))
	}
	executors["C13.minpush"] = func(a []string) string {
		x := a[0]
		if x == "e" {
			x = ""
		}
		return strconv.Itoa(bscript.MinPushSize(mustHex(x)))
	}
	generators["C13"] = genC13
}

var pushLens = []int{1, 2, 3, 74, 75, 76, 77, 254, 255, 256, 257, 520, 521}
var pushLensBig = []int{65535, 65536, 65537}

// named non-push opcodes usable in ASM round trips (everything except pushes 0x01..0x4e)
func randOpcode(r *rng) byte {
	for {
		b := byte(r.n(256))
		if b >= 1 && b <= 0x4e {
			continue
		}
		return b
	}
}

func pushOf(d []byte) []byte {
	p, _ := bscript.PushDataPrefix(d)
	return append(p, d...)
}

func genWellFormed(r *rng, nOps int, allowRet bool, minimalMulti bool) []byte {
	var s []byte
	for i := 0; i < nOps; i++ {
		switch {
		case r.chance(45):
			l := pushLens[r.n(len(pushLens))]
			if r.chance(40) {
				l = 2 + r.n(40)
			}
			if minimalMulti && l < 2 {
				l = 2
			}
			s = append(s, pushOf(r.bytes(l))...)
		case !minimalMulti && r.chance(15):
			// non-minimal push forms
			d := r.bytes(r.n(5))
			switch r.n(3) {
			case 0:
				s = append(s, 0x4c, byte(len(d)))
			case 1:
				s = append(s, 0x4d, byte(len(d)), 0)
			default:
				s = append(s, 0x4e, byte(len(d)), 0, 0, 0)
			}
			s = append(s, d...)
		default:
			b := randOpcode(r)
			if b == 0x6a && !allowRet {
				b = 0x76
			}
			s = append(s, b)
		}
	}
	return s
}

func genC13(e *emitter, tier string, seed uint64) {
	r := newRng(seed ^ 0xC13)
	quick := tier == "quick"
	// (1) item lists on every push boundary
	for _, l := range append(append([]int{}, pushLens...), 0) {
		e.run("C13.enc", showItems([][]byte{r.bytes(l)}))
		e.run("C13.minpush", map[bool]string{true: "e", false: hex.EncodeToString(r.bytes(l))}[l == 0])
		e.note("enc.len=" + strconv.Itoa(l))
	}
	for v := 0; v < 256; v++ { // every one-byte item
		e.run("C13.enc", hex.EncodeToString([]byte{byte(v)}))
		e.run("C13.minpush", hex.EncodeToString([]byte{byte(v)}))
	}
	// the PUSHDATA4 boundary (65536 and its neighbours) is part of every run
	for _, l := range pushLensBig {
		e.run("C13.enc", showItems([][]byte{r.bytes(l), r.bytes(3)}))
		e.note("enc.len=" + strconv.Itoa(l))
	}
	// every explicit-length push form at the lengths where a byte of its length prefix changes, through both tokenisers
	// (Parse then Unparse must return the bytes; the prefixes are rebuilt from the parsed lengths)
	for _, form := range []struct {
		op   byte
		w    int
		lens []int
	}{{0x4c, 1, []int{0, 1, 75, 76, 255}}, {0x4d, 2, []int{0, 1, 255, 256, 257, 65535}}, {0x4e, 4, []int{0, 1, 255, 256, 300, 65535, 65536, 65537, 70000, 131072 + 513}}} {
		for _, l := range form.lens {
			sc := []byte{form.op}
			for k := 0; k < form.w; k++ {
				sc = append(sc, byte(l>>(8*uint(k))))
			}
			sc = append(append(sc, r.bytes(l)...), 0x75, 0x51)
			e.run("C13.tok", hex.EncodeToString(sc))
			e.note(fmt.Sprintf("tok.explicit-push.%02x", form.op))
		}
	}
	// every direct push 0x01..0x4b with payload bytes that would themselves read as push opcodes if a boundary slipped
	for l := 1; l <= 75; l++ {
		d := r.bytes(l)
		d[l-1] = []byte{0x4c, 0x4d, 0x4e, 0x01, 0x4b}[l%5]
		sc := append(append([]byte{byte(l)}, d...), 0x75, 0x51)
		e.run("C13.tok", hex.EncodeToString(sc))
		e.note("tok.direct-push")
	}
	n := 300
	if !quick {
		n = 20000
	}
	for i := 0; i < n; i++ {
		k := 1 + r.n(5)
		var items [][]byte
		for j := 0; j < k; j++ {
			l := pushLens[r.n(len(pushLens))]
			if r.chance(50) {
				l = 1 + r.n(90)
			}
			items = append(items, r.bytes(l))
		}
		e.run("C13.enc", showItems(items))
	}
	// (2) all byte strings up to length 2 (quick) / 3 (thorough) through both tokenisers and ASM
	maxLen := 2
	if !quick {
		maxLen = 3
	}
	var rec func(prefix []byte)
	rec = func(prefix []byte) {
		h := hex.EncodeToString(prefix)
		e.run("C13.tok", h)
		if len(prefix) <= 2 {
			e.run("C13.asm", h)
		}
		if len(prefix) == maxLen {
			return
		}
		for b := 0; b < 256; b++ {
			if len(prefix) == 2 && !quick && b%3 != int(seed%3) && prefix[0] > 0x4e && prefix[1] > 0x4e {
				continue // thorough: thin out the pure-opcode region of the 3-byte space
			}
			rec(append(append([]byte{}, prefix...), byte(b)))
		}
	}
	rec(nil)
	e.note("exhaustive.maxlen=" + strconv.Itoa(maxLen))
	// (2b) data scripts made of short pushes (the assembly rendering shows them as numbers), every pair of lengths 0..5,
	//      each followed by more script: rendering one after the other must not disturb the object
	for _, prefix := range [][]byte{{0x6a}, {0x00, 0x6a}} {
		for l1 := 0; l1 <= 5; l1++ {
			for l2 := 0; l2 <= 5; l2++ {
				sc := append([]byte{}, prefix...)
				sc = append(append(sc, pushOf(r.bytes(l1))...), pushOf(r.bytes(l2))...)
				sc = append(sc, pushOf(r.bytes(6+r.n(20)))...)
				e.run("C13.hexjson", hex.EncodeToString(sc))
				e.run("C13.asm", hex.EncodeToString(sc))
				e.note("data-short-pushes")
			}
		}
	}
	// (3) well-formed scripts: every cut position; OP_RETURN tails; ASM/hex/JSON
	m := 120
	if !quick {
		m = 3000
	}
	for i := 0; i < m; i++ {
		s := genWellFormed(r, 1+r.n(8), r.chance(30), false)
		e.run("C13.tok", hex.EncodeToString(s))
		e.run("C13.hexjson", hex.EncodeToString(s))
		if len(s) < 700 {
			step := 1
			if len(s) > 60 {
				step = len(s) / 40
			}
			for cut := 1; cut < len(s); cut += step {
				e.run("C13.tok", hex.EncodeToString(s[:cut]))
				e.note("tok.cut")
			}
		}
		// data after a top-level OP_RETURN: 0..5 raw bytes and longer tails
		for _, tail := range []int{0, 1, 2, 3, 4, 5, 40} {
			t := append(append(append([]byte{}, genWellFormed(r, r.n(3), false, false)...), 0x6a), r.bytes(tail)...)
			e.run("C13.tok", hex.EncodeToString(t))
			e.note("tok.opreturn-tail=" + strconv.Itoa(tail))
			if quick && i > 20 {
				break
			}
		}
		// OP_RETURN inside a conditional followed by more script
		c := append([]byte{0x51, 0x63, 0x6a}, genWellFormed(r, r.n(3), false, false)...)
		c = append(c, 0x68)
		c = append(c, genWellFormed(r, r.n(3), true, false)...)
		e.run("C13.tok", hex.EncodeToString(c))
		// ASM-eligible scripts: named non-push opcodes and minimal multi-byte pushes
		a := genWellFormed(r, 1+r.n(8), false, true)
		e.run("C13.asm", hex.EncodeToString(a))
		e.note("asm.eligible-shape")
		e.run("C13.asm", hex.EncodeToString(s))
	}
	// PUSHDATA2 / PUSHDATA4 headers whose *upper* length bytes are set, followed by 65536+ real bytes: a tokeniser that
	// assembles the length with a wrong shift reads a much shorter push and accepts what is a truncated push
	for _, hdr := range [][]byte{{0x4e, 0x00, 0x00, 0x00, 0x01}, {0x4e, 0x01, 0x00, 0x00, 0x01}, {0x4e, 0x00, 0x00, 0x01, 0x00}, {0x4e, 0x00, 0x00, 0x02, 0x00},
		{0x4e, 0x10, 0x00, 0x01, 0x00}, {0x4d, 0x00, 0x01}, {0x4d, 0x00, 0xff}, {0x4e, 0x00, 0x01, 0x00, 0x00}} {
		for _, follow := range []int{65536, 65552, 70000, 131073} {
			if quick && follow > 70000 {
				continue
			}
			s := append(append([]byte{}, hdr...), r.bytes(follow)...)
			e.run("C13.tok", hex.EncodeToString(s))
			e.run("C13.tok", hex.EncodeToString(append([]byte{0x51}, s...)))
			e.note("tok.upper-length-bytes")
		}
	}
	// ASM of non-data scripts that merely *look* like data at the part level: a first push whose payload starts with
	// OP_RETURN's byte, or OP_0 / a push starting 00 followed by such a push (the data test is on the script's bytes)
	for k := 0; k < 24; k++ {
		pay := append([]byte{0x6a}, r.bytes(1+r.n(6))...)
		tailOps := genWellFormed(r, 1+r.n(3), false, true)
		first := append([]byte{byte(len(pay))}, pay...)
		e.run("C13.asm", hex.EncodeToString(append(append([]byte{}, first...), tailOps...)))
		e.run("C13.asm", hex.EncodeToString(append(append([]byte{0x00}, first...), tailOps...)))
		z := append([]byte{0x00}, r.bytes(1+r.n(4))...)
		e.run("C13.asm", hex.EncodeToString(append(append(append([]byte{byte(len(z))}, z...), first...), tailOps...)))
		e.note("asm.looks-like-data")
	}
	for b := 0; b < 256; b++ { // every single opcode, alone and between two others
		e.run("C13.asm", hex.EncodeToString([]byte{byte(b)}))
		e.run("C13.asm", hex.EncodeToString([]byte{0x76, byte(b), 0x87}))
	}
}
