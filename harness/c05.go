package main

import (
	"fmt"
	"strings"
)

const (
	fBip16          = 1 << 0
	fStrictMultiSig = 1 << 1
	fDiscourageNops = 1 << 2
	fCLTV           = 1 << 3
	fCSV            = 1 << 4
	fCleanStack     = 1 << 5
	fDERSig         = 1 << 6
	fLowS           = 1 << 7
	fMinimalData    = 1 << 8
	fNullFail       = 1 << 9
	fSigPushOnly    = 1 << 10
	fForkID         = 1 << 11
	fStrictEnc      = 1 << 12
	fBip143         = 1 << 13
	fAfterGenesis   = 1 << 14
	fMinimalIf      = 1 << 15
)

// rawPush: the shortest push opcode form (never OP_N), so that operands are exactly the given bytes
func rawPush(d []byte) []byte {
	if len(d) == 0 {
		return []byte{0x00}
	}
	return pushOf(d)
}

// minimalPush: what MINIMALDATA demands
func minimalPush(d []byte) []byte {
	if len(d) == 1 && d[0] >= 1 && d[0] <= 16 {
		return []byte{0x50 + d[0]}
	}
	if len(d) == 1 && d[0] == 0x81 {
		return []byte{0x4f}
	}
	return rawPush(d)
}

func rep(b byte, n int) []byte { return []byte(strings.Repeat(string([]byte{b}), n)) }

func edgeOperands(quick bool) [][]byte {
	e := [][]byte{{}, {0x00}, {0x80}, {0x01}, {0x81}, {0x02}, {0x7f}, {0xff}, {0x10}, {0x11},
		{0x00, 0x80}, {0x01, 0x80}, {0x01, 0x00, 0x80}, {0x7f, 0x00, 0x00, 0x80}, {0x01, 0x00}, {0x00, 0x01}, {0xff, 0x00}, {0xff, 0x80}, {0x80, 0x00}, {0xff, 0x7f},
		{0xff, 0xff, 0xff, 0x7f}, {0xff, 0xff, 0xff, 0xff}, {0x00, 0x00, 0x00, 0x80}, {0x01, 0x00, 0x00, 0x00},
		{0x00, 0x00, 0x00, 0x80, 0x00}, {0x01, 0x02, 0x03, 0x04, 0x05}, {0xff, 0xff, 0xff, 0xff, 0x7f},
		append(rep(0x11, 32), 0x91), append(rep(0x22, 33), 0x80),
		// beyond the int64 range (post-Genesis numbers may be that long): 2^63, 2^64+1, -2^63, 2^71-1
		{0, 0, 0, 0, 0, 0, 0, 0x80, 0x00}, {1, 0, 0, 0, 0, 0, 0, 0, 0x01}, {0, 0, 0, 0, 0, 0, 0, 0x80, 0x80}, {0xff, 0xff, 0xff, 0xff, 0xff, 0xff, 0xff, 0xff, 0x7f}}
	if !quick {
		e = append(e, [][]byte{{0x00, 0x00}, {0x80, 0x80}, {0x03}, {0x08}, {0x09}, {0x21}, {0x00, 0x00, 0x01},
			{0xff, 0xff, 0xff, 0xff, 0xff, 0xff, 0xff, 0xff, 0x7f}, {0x00, 0x00, 0x00, 0x00, 0x00, 0x00, 0x00, 0x80},
			append(rep(0xff, 32), 0x7f), rep(0xab, 519), rep(0xab, 520), rep(0xab, 521),
			append(rep(0x00, 600), 0x01), rep(0x5a, 2000)}...)
	}
	return e
}

var unaryOps = []byte{0x82, 0x83, 0x8b, 0x8c, 0x8f, 0x90, 0x91, 0x92, 0x81, 0x76, 0x73, 0x75, 0x69, 0xa6, 0xa7, 0xa8, 0xa9, 0xaa, 0x6b, 0x8d, 0x8e}
var binaryOps = []byte{0x7e, 0x7f, 0x80, 0x84, 0x85, 0x86, 0x87, 0x88, 0x93, 0x94, 0x95, 0x96, 0x97, 0x98, 0x99, 0x9a, 0x9b, 0x9c, 0x9d, 0x9e,
	0x9f, 0xa0, 0xa1, 0xa2, 0xa3, 0xa4, 0x77, 0x78, 0x7c, 0x7d, 0x6d, 0x6e, 0x79, 0x7a}

func ixExec(e *emitter, flags int, unlock, lock []byte) string {
	return e.run("IX.exec", fmt.Sprint(flags), hexE(unlock), hexE(lock), "-", "0", "0")
}

func noteVerdict(e *emitter, res string, kind string) {
	f := strings.Fields(res)
	v := f[0]
	e.note(kind + "." + v)
	if strings.Count(res, "|") >= 2 {
		e.note("programs-with>=3-steps")
	}
}

// stackWords: opcodes and the minimum depth they need / net effect (for type-directed generation)
type opInfo struct {
	op      byte
	need    int
	delta   int
	numeric bool
}

var genOps = []opInfo{
	{0x61, 0, 0, false}, {0x6b, 1, -1, false}, {0x6d, 2, -2, false}, {0x6e, 2, 2, false}, {0x6f, 3, 3, false}, {0x70, 4, 2, false},
	{0x71, 6, 0, false}, {0x72, 4, 0, false}, {0x73, 1, 0, false}, {0x74, 0, 1, false}, {0x75, 1, -1, false}, {0x76, 1, 1, false},
	{0x77, 2, -1, false}, {0x78, 2, 1, false}, {0x7b, 3, 0, false}, {0x7c, 2, 0, false}, {0x7d, 2, 1, false}, {0x7e, 2, -1, false},
	{0x82, 1, 1, false}, {0x83, 1, 0, false}, {0x84, 2, -1, false}, {0x85, 2, -1, false}, {0x86, 2, -1, false}, {0x87, 2, -1, false},
	{0x8b, 1, 0, true}, {0x8c, 1, 0, true}, {0x8f, 1, 0, true}, {0x90, 1, 0, true}, {0x91, 1, 0, true}, {0x92, 1, 0, true},
	{0x93, 2, -1, true}, {0x94, 2, -1, true}, {0x95, 2, -1, true}, {0x96, 2, -1, true}, {0x97, 2, -1, true}, {0x9a, 2, -1, true},
	{0x9b, 2, -1, true}, {0x9c, 2, -1, true}, {0x9e, 2, -1, true}, {0x9f, 2, -1, true}, {0xa0, 2, -1, true}, {0xa1, 2, -1, true},
	{0xa2, 2, -1, true}, {0xa3, 2, -1, true}, {0xa4, 2, -1, true}, {0xa5, 3, -2, true}, {0xa6, 1, 0, false}, {0xa7, 1, 0, false},
	{0xa8, 1, 0, false}, {0xa9, 1, 0, false}, {0xaa, 1, 0, false}, {0x81, 1, 0, false}, {0xab, 0, 0, false}, {0xb0, 0, 0, false},
	{0xb1, 0, 0, false}, {0xb2, 0, 0, false}, {0xb9, 0, 0, false}, {0x4f, 0, 1, false}, {0x51, 0, 1, false}, {0x60, 0, 1, false}, {0x00, 0, 1, false},
}

// genProgram: a stack-depth-aware random program; `wild` adds opcodes regardless of depth, reserved / disabled /
// undefined opcodes and conditionals with OP_RETURN
func genProgram(r *rng, n int, wild bool) []byte {
	var s []byte
	depth := 0
	open := 0
	smallNum := func() []byte {
		switch r.n(6) {
		case 0:
			return []byte{}
		case 1:
			return []byte{byte(r.n(256))}
		case 2:
			return []byte{byte(r.n(256)), byte(r.n(256))}
		case 3:
			return []byte{byte(1 + r.n(20))}
		case 4:
			return r.bytes(4)
		default:
			return r.bytes(r.n(7))
		}
	}
	for i := 0; i < n; i++ {
		switch {
		case depth < 2 || r.chance(30):
			d := smallNum()
			if r.chance(80) {
				s = append(s, minimalPush(d)...)
			} else {
				s = append(s, rawPush(d)...)
			}
			depth++
		case r.chance(6): // PICK / ROLL with a valid index
			k := r.n(depth)
			s = append(s, minimalPush(numBytes(k))...)
			s = append(s, []byte{0x79, 0x7a}[r.n(2)])
			if s[len(s)-1] == 0x79 {
				depth++
			}
		case r.chance(5): // SPLIT / NUM2BIN / shifts with small arguments
			s = append(s, minimalPush(numBytes(r.n(6)))...)
			op := []byte{0x7f, 0x80, 0x98, 0x99}[r.n(4)]
			s = append(s, op)
			if op == 0x7f {
				depth++
			}
		case r.chance(8) && open < 4:
			s = append(s, []byte{0x63, 0x64}[r.n(2)])
			depth--
			open++
		case r.chance(8) && open > 0:
			if r.chance(50) {
				s = append(s, 0x67)
			} else {
				s = append(s, 0x68)
				open--
			}
		case wild && r.chance(5):
			s = append(s, []byte{0x6a, 0x65, 0x66, 0x50, 0x62, 0x89, 0x8a, 0x8d, 0x8e, 0xba, 0xff, 0x69, 0x88, 0x9d, 0x6c}[r.n(15)])
		default:
			var oi opInfo
			for tries := 0; tries < 20; tries++ {
				oi = genOps[r.n(len(genOps))]
				if oi.need <= depth || (wild && r.chance(3)) {
					break
				}
			}
			s = append(s, oi.op)
			depth += oi.delta
			if depth < 0 {
				depth = 0
			}
		}
	}
	for ; open > 0; open-- {
		if r.chance(85) {
			s = append(s, 0x68)
		}
	}
	return s
}

func numBytes(k int) []byte {
	if k == 0 {
		return []byte{}
	}
	var b []byte
	for v := k; v > 0; v >>= 8 {
		b = append(b, byte(v))
	}
	if b[len(b)-1]&0x80 != 0 {
		b = append(b, 0)
	}
	return b
}

func genC05(e *emitter, tier string, seed uint64) {
	r := newRng(seed ^ 0xC05)
	quick := tier == "quick"
	E := edgeOperands(quick)
	eras := []int{0, fAfterGenesis}
	// (a) exhaustive: every unary opcode x E, every binary opcode x E x E, WITHIN x E'^3, both eras
	for _, era := range eras {
		for _, op := range unaryOps {
			for _, a := range E {
				noteVerdict(e, ixExec(e, era, rawPush(a), []byte{op}), "unary")
			}
		}
		for _, op := range binaryOps {
			for _, a := range E {
				for _, b := range E {
					if quick && len(a)+len(b) > 8 && r.n(3) != 0 {
						continue
					}
					if op == 0x80 && len(b) >= 3 && era != 0 {
						continue // OP_NUM2BIN to megabytes/gigabytes only exhausts memory: out of model (see DESIGN.md)
					}
					noteVerdict(e, ixExec(e, era, append(rawPush(a), rawPush(b)...), []byte{op}), "binary")
				}
			}
		}
		E3 := E[:10]
		for _, a := range E3 {
			for _, b := range E3 {
				for _, c := range E3 {
					noteVerdict(e, ixExec(e, era, append(append(rawPush(a), rawPush(b)...), rawPush(c)...), []byte{0xa5}), "ternary")
				}
			}
		}
		// shifts: operand lengths x every count 0..8*len+1, negative and huge counts
		for _, l := range []int{0, 1, 2, 3, 4, 16, 33} {
			x := r.bytes(l)
			if l > 0 {
				x[0] |= 0x81
				x[l-1] |= 0x81
			}
			for n := 0; n <= 8*l+1; n++ {
				if quick && l >= 16 && n%5 != 0 && n != 8*l && n != 8*l+1 {
					continue
				}
				for _, op := range []byte{0x98, 0x99} {
					noteVerdict(e, ixExec(e, era, append(rawPush(x), rawPush(numBytes(n))...), []byte{op}), "shift")
				}
			}
			for _, cnt := range [][]byte{{0x81}, {0xff, 0xff, 0xff, 0x7f}, {0x00, 0x01}, {0xff, 0xff, 0xff, 0xff, 0x7f}} {
				for _, op := range []byte{0x98, 0x99} {
					noteVerdict(e, ixExec(e, era, append(rawPush(x), rawPush(cnt)...), []byte{op}), "shift")
				}
			}
		}
	}
	// (b) type-directed random programs, both eras, sampled policy flags
	n := 2500
	if !quick {
		n = 120000
	}
	policy := []int{0, fMinimalData, fMinimalIf, fDiscourageNops, fMinimalData | fMinimalIf, fBip16 | fCleanStack, fCLTV | fCSV, fSigPushOnly, fBip16}
	for i := 0; i < n; i++ {
		era := eras[i%2]
		flags := era | policy[r.n(len(policy))]
		wild := r.chance(40)
		var u, l []byte
		switch r.n(4) {
		case 0:
			l = genProgram(r, 4+r.n(30), wild)
		case 1:
			u = genProgram(r, 1+r.n(6), false)
			l = genProgram(r, 3+r.n(25), wild)
		default:
			for k := r.n(4); k >= 0; k-- {
				u = append(u, minimalPush(r.bytes(r.n(5)))...)
			}
			l = genProgram(r, 3+r.n(25), wild)
		}
		noteVerdict(e, ixExec(e, flags, u, l), "random")
	}
	// (c) conditionals: nested IF/NOTIF/ELSE/ENDIF with OP_RETURN / VERIF / disabled / undefined opcodes in both branches
	conds := []string{"63", "64"}
	inner := []string{"6a", "65", "66", "8d", "ba", "50", "61", "5293", "67", "6768", "6a01", "51", "00"}
	for _, era := range eras {
		for _, c1 := range conds {
			for _, v := range []string{"00", "51", "0101", "0102", "0100", "020100", "0180", "e"} {
				for _, in1 := range inner {
					for _, in2 := range inner {
						if quick && r.n(3) != 0 {
							continue
						}
						for _, fl := range []int{0, fMinimalIf} {
							lock := mustHex(c1 + in1 + "67" + in2 + "68" + "51")
							var u []byte
							if v != "e" {
								u = mustHex(v)
							}
							noteVerdict(e, ixExec(e, era|fl, u, lock), "conditional")
						}
					}
				}
			}
		}
		// nesting depth 2..4 with skipped branches
		for k := 0; k < 300; k++ {
			depth := 2 + r.n(3)
			var l []byte
			for d := 0; d < depth; d++ {
				l = append(l, byte(r.n(2)), 0x63+byte(r.n(2)))
				if r.chance(30) {
					l = append(l, mustHex(inner[r.n(len(inner))])...)
				}
			}
			for d := 0; d < depth; d++ {
				if r.chance(50) {
					l = append(l, 0x67)
					if r.chance(25) {
						l = append(l, 0x67)
					}
				}
				if r.chance(30) {
					l = append(l, mustHex(inner[r.n(len(inner))])...)
				}
				l = append(l, 0x68)
			}
			l = append(l, 0x51)
			noteVerdict(e, ixExec(e, era, nil, l), "conditional")
		}
	}
	// (d) limit probes
	for _, era := range eras {
		for _, k := range []int{200, 201, 499, 500, 501} {
			l := append(rep(0x61, k), 0x51)
			noteVerdict(e, ixExec(e, era, nil, l), "limit-ops")
		}
		for _, k := range []int{999, 1000, 1001} {
			l := rep(0x51, k)
			noteVerdict(e, ixExec(e, era, nil, l), "limit-stack")
			l2 := append(rep(0x51, k/2), rep(0x6b, k/2-1)...) // via the alt stack
			l2 = append(l2, rep(0x51, k-k/2+1)...)
			noteVerdict(e, ixExec(e, era, nil, l2), "limit-stack")
		}
		for _, k := range []int{519, 520, 521} {
			noteVerdict(e, ixExec(e, era, pushOf(rep(0x01, k)), []byte{0x82}), "limit-element")
			noteVerdict(e, ixExec(e, era, append(pushOf(rep(0x01, k-1)), 0x51), []byte{0x7e}), "limit-element")
		}
		for _, k := range []int{9999, 10000, 10001} {
			l := append(rep(0x61, 100), 0x51)
			for len(l) < k {
				chunk := k - len(l)
				if chunk > 400 {
					chunk = 400
				}
				if chunk < 4 {
					l = append(l, rep(0x61, chunk)...)
					continue
				}
				l = append(l, pushOf(rep(0x07, chunk-4))...)
				l = append(l, 0x75)
			}
			noteVerdict(e, ixExec(e, era, nil, l[:k]), "limit-script-size")
		}
		// pay-to-script-hash re-entry
		for k := 0; k < 40; k++ {
			redeem := genProgram(r, 2+r.n(8), false)
			h := hash160(redeem)
			lock := append(append([]byte{0xa9, 0x14}, h...), 0x87)
			var u []byte
			for j := r.n(3); j > 0; j-- {
				u = append(u, minimalPush(r.bytes(r.n(4)))...)
			}
			u = append(u, pushOf(redeem)...)
			if len(redeem) == 0 {
				u = append(u[:len(u)-len(pushOf(redeem))], 0x00)
			}
			noteVerdict(e, ixExec(e, era|fBip16, u, lock), "p2sh")
			noteVerdict(e, ixExec(e, era|fBip16|fCleanStack, u, lock), "p2sh")
			noteVerdict(e, ixExec(e, era, u, lock), "p2sh")
			bad := append([]byte{}, u...)
			bad[len(bad)-1] ^= 1
			noteVerdict(e, ixExec(e, era|fBip16, bad, lock), "p2sh")
			noteVerdict(e, ixExec(e, era|fBip16, append([]byte{0x76}, u...), lock), "p2sh")
		}
	}
	// (d') pay-to-script-hash with degenerate redeem scripts: the empty script (skipped like any zero-length script,
	//      the verdict is then that of the arguments), single opcodes, with 0..2 arguments of either truth value
	for _, era := range []int{0, fAfterGenesis} {
		for _, redeem := range [][]byte{{}, {0x51}, {0x00}, {0x61}, {0x75}, {0x76}, {0x87}, {0x51, 0x51}, {0x6a}, {0x63, 0x68}} {
			lock := append(append([]byte{0xa9, 0x14}, hash160(redeem)...), 0x87)
			for _, args := range [][]byte{{}, {0x51}, {0x00}, {0x51, 0x00}, {0x00, 0x51}, {0x51, 0x51}} {
				u := append(append([]byte{}, args...), minimalPush(redeem)...)
				if len(redeem) == 0 {
					u = append(append([]byte{}, args...), 0x00)
				}
				for _, fl := range []int{fBip16, fBip16 | fCleanStack, 0} {
					noteVerdict(e, ixExec(e, era|fl, u, lock), "p2sh-degenerate")
				}
			}
		}
	}
	// (f) OP_RETURN and what follows it: a top-level OP_RETURN ends the script (the rest is never decoded), one inside a
	//     conditional does not; whether it is top-level must not depend on reserved words skipped on the way
	for _, era := range eras {
		prefixes := []string{"51", "510063656851", "5100636668", "51006300636868", "51516368", "5100636765686a", "510063676668", "51006365676851",
			"5100636563686868", "51006366006368", "5151636700636568", "00630068", "5163", "510063", "51006365"}
		tails := []string{"", "00", "4c", "4cff01", "0501", "4d0500aa", "4effffffff", "5151", "68", "6751", "ff", "65", "ab"}
		for _, p := range prefixes {
			for _, t := range tails {
				for _, close := range []string{"", "68", "6868"} {
					l := mustHex(p + "6a" + t + close)
					noteVerdict(e, ixExec(e, era, nil, l), "return-tail")
					noteVerdict(e, ixExec(e, era, l, []byte{0x51}), "return-tail")
				}
			}
		}
	}
	// (f') what an early return in the UNLOCKING script hands to the locking script: each script has its own alt stack, and
	//      an empty locking script is skipped as after a normal end
	for _, era := range eras {
		unlocks := []string{"516a", "516b516a", "516b526b516a", "51516b6a", "516b51636a68", "516b5163006a68", "6a", "516b6a", "00516b6a", "516b516a51", "516b51"}
		locks := []string{"", "6c", "6c51", "6c6c", "51", "6b", "6c87", "516c", "74", "6c76", "00", "6a", "6c6a"}
		for _, u := range unlocks {
			for _, l := range locks {
				var lb []byte
				if l != "" {
					lb = mustHex(l)
				}
				noteVerdict(e, ixExec(e, era, mustHex(u), lb), "return-handover")
				noteVerdict(e, ixExec(e, era|fCleanStack|fBip16, mustHex(u), lb), "return-handover")
			}
		}
	}
	// (g) a P2SH-shaped output with an unlocking script that is not push-only: refused where pay-to-script-hash exists
	//     (BIP16 flag before Genesis) or under SIGPUSHONLY, an ordinary hash puzzle otherwise
	for _, redeem := range [][]byte{{0x51}, {0x00}, {0x51, 0x51, 0x87}, {0x6a}, r.bytes(20)} {
		lock := append(append([]byte{0xa9, 0x14}, hash160(redeem)...), 0x87)
		unlocks := [][]byte{pushOf(redeem), append([]byte{0x51, 0x75}, pushOf(redeem)...), append(pushOf(redeem), 0x61),
			append(pushOf(redeem), 0x76, 0x75), append([]byte{0x51}, pushOf(redeem)...), append([]byte{0x51, 0x61}, pushOf(redeem)...)}
		for _, u := range unlocks {
			for _, fl := range []int{0, fBip16, fSigPushOnly, fBip16 | fSigPushOnly, fBip16 | fCleanStack} {
				for _, era := range eras {
					noteVerdict(e, ixExec(e, era|fl, u, lock), "p2sh-shaped")
				}
			}
		}
	}
	// (h) OP_CHECKLOCKTIMEVERIFY / OP_CHECKSEQUENCEVERIFY with a transaction context: lock times and sequence numbers on
	//     both sides of every threshold and mask, operands in minimal and non-minimal encodings, all the policy flags
	{
		le := func(v uint64, n int) []byte {
			b := make([]byte, n)
			for i := range b {
				b[i] = byte(v >> (8 * uint(i)))
			}
			return b
		}
		operands := [][]byte{{}, {0x00}, {0x80}, {0x01}, {0x14, 0x00}, {0x14}, {0x81}, le(499999999, 4), le(500000000, 4), le(500000001, 4),
			le(0xffffffff, 5), le(0x80000000, 5), le(0x7fffffff, 4), le(1<<22, 3), le(1<<22|5, 3), le(1<<31|5, 5), le(0xffff, 3), le(0xffff, 2), le(5, 1), le(5, 2), le(1<<40, 6)}
		lockTimes := []uint32{0, 20, 21, 499999999, 500000000, 500000001, 0xffffffff}
		seqs := []uint32{0xffffffff, 0, 5, 6, 1 << 22, 1<<22 | 5, 1<<22 | 6, 1 << 31, 1<<31 | 5, 0xfffffffe, 0xffff, 0x10000}
		flagSets := []int{fCLTV | fCSV, fCLTV | fCSV | fMinimalData, fCLTV | fCSV | fDiscourageNops, 0, fDiscourageNops, fCLTV | fCSV | fAfterGenesis, fCLTV | fCSV | fAfterGenesis | fDiscourageNops}
		for _, op := range []byte{0xb1, 0xb2} {
			for _, operand := range operands {
				for _, fl := range flagSets {
					for k := 0; k < 4; k++ {
						tx := genSigTx(r, 2, 1, false)
						tx.Version = uint32(1 + r.n(2))
						tx.LockTime = lockTimes[r.n(len(lockTimes))]
						idx := r.n(2)
						tx.Inputs[idx].SequenceNumber = seqs[r.n(len(seqs))]
						if k == 0 { // a satisfied lock: transaction fields derived from the operand
							v := uint64(0)
							for i, b := range operand {
								if i < 5 {
									v |= uint64(b&0xff) << (8 * uint(i))
								}
							}
							if len(operand) > 0 && len(operand) <= 5 && operand[len(operand)-1]&0x80 != 0 {
								v &^= 0x80 << (8 * uint(len(operand)-1))
							}
							tx.LockTime = uint32(v)
							tx.Version = 2
							tx.Inputs[idx].SequenceNumber = uint32(v) &^ (1 << 31)
							if op == 0xb1 {
								tx.Inputs[idx].SequenceNumber = 0
							}
						}
						lock := []byte{op, 0x75, 0x51}
						res := e.run("IX.exec", fmt.Sprint(fl), hexE(rawPush(operand)), hexE(lock), descTx(tx), fmt.Sprint(idx), "1000")
						noteVerdict(e, res, "locktime")
					}
				}
			}
		}
	}
	// (e) every push form in minimal and non-minimal encodings under MINIMALDATA
	for _, era := range eras {
		for _, fl := range []int{0, fMinimalData} {
			for _, d := range [][]byte{{}, {0x01}, {0x10}, {0x11}, {0x81}, {0x00}, {0x80}, rep(1, 75), rep(1, 76), rep(1, 255), rep(1, 256), rep(1, 65535), rep(1, 65536)} {
				if len(d) > 60000 && era == 0 {
					continue // larger than a pre-Genesis script may be
				}
				forms := [][]byte{rawPush(d), minimalPush(d), append([]byte{0x4c, byte(len(d))}, d...), append([]byte{0x4d, byte(len(d)), byte(len(d) >> 8)}, d...),
					append([]byte{0x4e, byte(len(d)), byte(len(d) >> 8), byte(len(d) >> 16), 0}, d...)}
				for _, f := range forms {
					if (len(d) > 255 && f[0] == 0x4c) || (len(d) > 65535 && f[0] == 0x4d) {
						continue
					}
					noteVerdict(e, ixExec(e, era|fl, f, []byte{0x82, 0x75, 0x51}), "push-forms")
					noteVerdict(e, ixExec(e, era|fl, nil, append(append([]byte{0x00, 0x63}, f...), 0x68, 0x51)), "push-forms")
				}
			}
		}
	}
	// (e') non-minimal pushes in every kind of place that is not executed: dead branches, ELSE arms of conditionals nested
	//      in dead branches, behind an OP_RETURN executed inside a conditional, behind a top-level OP_RETURN - and, for
	//      contrast, the same places when they are executed
	for _, era := range eras {
		ctxs := []string{"0063X6851", "51636aX68", "5151636aX68", "5151636a68X", "00630063 67X 686851", "0063516367X686851", "006351 63X67X 686851",
			"516367X6851", "006467X6851", "51630063X6867X6851", "0063006367X67X686851", "00630063X686751X68", "516a X", "51636a6700630067X6868", "0063006300636767X68686851",
			"5163X6851", "006367X6851", "5163516367686a X68"}
		pushes := []string{"0105", "4c0107", "4d010007", "0181", "4c00", "4d0000", "4e00000000", "4c020102", "010051"}
		for _, c := range ctxs {
			for _, p := range pushes {
				for _, fl := range []int{0, fMinimalData} {
					l := mustHex(strings.ReplaceAll(strings.ReplaceAll(c, " ", ""), "X", p))
					noteVerdict(e, ixExec(e, era|fl, nil, l), "nonminimal-unexecuted")
					noteVerdict(e, ixExec(e, era|fl, []byte{0x51}, l), "nonminimal-unexecuted")
				}
			}
		}
	}
}

func init() {
	generators["C05"] = genC05
}
