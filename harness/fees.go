package main

import (
	"context"
	"encoding/hex"
	"errors"
	"fmt"
	"strconv"
	"strings"

	"github.com/libsv/go-bk/bec"
	"github.com/libsv/go-bt/v2"
	"github.com/libsv/go-bt/v2/bscript"
	"github.com/libsv/go-bt/v2/unlocker"
)

func feeErr(err error) string {
	switch {
	case errors.Is(err, bt.ErrEmptyPreviousTxScript):
		return "err-emptyprev"
	case errors.Is(err, bt.ErrUnsupportedScript):
		return "err-unsupported"
	case errors.Is(err, bt.ErrInsufficientInputs):
		return "err-insufficient-inputs"
	case errors.Is(err, bt.ErrOutputNoExist):
		return "err-nooutput"
	case errors.Is(err, bt.ErrInsufficientFunds):
		return "err-insufficient-funds"
	case errors.Is(err, bt.ErrInvalidTxID):
		return "err-invalidtxid"
	case errors.Is(err, errSupplier):
		return "err-supplier"
	}
	return "err-other:" + strings.ReplaceAll(err.Error(), " ", "_")
}

var errSupplier = errors.New("supplier failed")

// parseFq builds the quote "stdSat/stdBytes,dataSat/dataBytes" with properly tagged fees.
func parseFq(s string) *bt.FeeQuote { return parseFqVariant(s, 0) }

// A quote is looked up by the key a fee is registered under (AddQuote does not look at the fee's own FeeType field), so
// the same quote can be built in several ways: 0 properly tagged fees, 1 fee literals without a FeeType, 2 tags swapped,
// 3 (equal rates) one *Fee registered under both keys.
func parseFqVariant(s string, variant int) *bt.FeeQuote {
	p := strings.Split(s, ",")
	a, b := strings.Split(p[0], "/"), strings.Split(p[1], "/")
	fq := bt.NewFeeQuote()
	std := &bt.Fee{FeeType: bt.FeeTypeStandard, MiningFee: bt.FeeUnit{Satoshis: int(mustU(a[0], 31)), Bytes: int(mustU(a[1], 31))}}
	data := &bt.Fee{FeeType: bt.FeeTypeData, MiningFee: bt.FeeUnit{Satoshis: int(mustU(b[0], 31)), Bytes: int(mustU(b[1], 31))}}
	switch variant {
	case 1:
		std.FeeType, data.FeeType = "", ""
	case 2:
		std.FeeType, data.FeeType = bt.FeeTypeData, bt.FeeTypeStandard
	case 3:
		if p[0] == p[1] {
			data = std
		}
	}
	fq.AddQuote(bt.FeeTypeStandard, std)
	fq.AddQuote(bt.FeeTypeData, data)
	return fq
}

// quoteVariants runs f with the quote built in each of the four ways; the results must coincide (a result that
// differs from the properly tagged one is returned in its place)
func quoteVariants(s string, f func(fq *bt.FeeQuote) string) string {
	first := f(parseFqVariant(s, 0))
	for v := 1; v < 4; v++ {
		if r := f(parseFqVariant(s, v)); r != first {
			// the result that depends on how the quote object was built is the one judged against the model
			return r
		}
	}
	return first
}

var c10Change func(a []string, fq *bt.FeeQuote) string
var c12Fund func(a []string, fq *bt.FeeQuote) string
var c11Fee func(a []string, fq *bt.FeeQuote) string

func init() {
	executors["C11.fee"] = func(a []string) string {
		return quoteVariants(a[1], func(fq *bt.FeeQuote) string { return c11Fee(a, fq) })
	}
	c11Fee = func(a []string, fq *bt.FeeQuote) string {
		tx := parseDesc(a[0])
		sz := q(func() string { s := tx.SizeWithTypes(); return fmt.Sprintf("%d,%d,%d", s.TotalBytes, s.TotalStdBytes, s.TotalDataBytes) })
		est := q(func() string {
			s, err := tx.EstimateSizeWithTypes()
			if err != nil {
				return feeErr(err)
			}
			return fmt.Sprintf("ok:%d,%d,%d", s.TotalBytes, s.TotalStdBytes, s.TotalDataBytes)
		})
		fees := q(func() string {
			f, err := tx.EstimateFeesPaid(fq)
			if err != nil {
				return feeErr(err)
			}
			return fmt.Sprintf("ok:%d", f.TotalFeePaid)
		})
		paid := q(func() string {
			b, err := tx.IsFeePaidEnough(fq)
			if err != nil {
				return feeErr(err)
			}
			return b01(b)
		})
		estpaid := q(func() string {
			b, err := tx.EstimateIsFeePaidEnough(fq)
			if err != nil {
				return feeErr(err)
			}
			return "ok:" + b01(b)
		})
		// the deficit is unexported: observe it as the first argument handed to a Fund supplier on a clone
		deficit := q(func() string {
			c := tx.Clone()
			d := uint64(0)
			err := c.Fund(context.Background(), fq, func(ctx context.Context, deficit uint64) ([]*bt.UTXO, error) {
				d = deficit
				return nil, bt.ErrNoUTXO
			})
			if err != nil && !errors.Is(err, bt.ErrInsufficientFunds) {
				return feeErr(err)
			}
			return fmt.Sprintf("ok:%d", d)
		})
		return fmt.Sprintf("size=%s est=%s fees=%s paid=%s estpaid=%s deficit=%s", sz, est, fees, paid, estpaid, deficit)
	}
	executors["C11.signed"] = func(a []string) string {
		tx := parseDesc(a[0])
		est := "err"
		if n, err := tx.EstimateSize(); err == nil {
			est = strconv.Itoa(n)
		}
		// sign every input that has no unlocking script with a key derived from its outpoint
		maxul := 0
		for i, in := range tx.Inputs {
			if in.UnlockingScript != nil && len(*in.UnlockingScript) > 0 {
				continue
			}
			seed := append([]byte{}, in.PreviousTxID()...)
			seed[0] ^= byte(i + 1)
			priv, _ := bec.PrivKeyFromBytes(bec.S256(), seed)
			if err := tx.FillInput(context.Background(), &unlocker.Simple{PrivateKey: priv}, bt.UnlockerParams{InputIdx: uint32(i)}); err != nil {
				return "sign-err:" + strings.ReplaceAll(err.Error(), " ", "_")
			}
			if l := len(*tx.Inputs[i].UnlockingScript); l > maxul {
				maxul = l
			}
		}
		return fmt.Sprintf("est=%s signed=%d maxul=%d", est, tx.Size(), maxul)
	}
	executors["C10.change"] = func(a []string) string {
		return quoteVariants(a[1], func(fq *bt.FeeQuote) string { return c10Change(a, fq) })
	}
	c10Change = func(a []string, fq *bt.FeeQuote) string {
		tx := parseDesc(a[0])
		n := len(tx.Outputs)
		var err error
		before := descTx(tx)
		switch {
		case strings.HasPrefix(a[2], "new:"):
			err = tx.Change(scr(mustHex(a[2][4:])), fq)
		case strings.HasPrefix(a[2], "idx:"):
			err = tx.ChangeToExistingOutput(uint(mustU(a[2][4:], 32)), fq)
		}
		if err != nil {
			return feeErr(err)
		}
		after := descTx(tx)
		added := len(tx.Outputs) != n || after != before
		return fmt.Sprintf("ok added=%s tx=%s", b01(added), after)
	}
	executors["C12.fund"] = func(a []string) string {
		return quoteVariants(a[1], func(fq *bt.FeeQuote) string { return c12Fund(a, fq) })
	}
	c12Fund = func(a []string, fq *bt.FeeQuote) string {
		tx := parseDesc(a[0])
		var hist []string
		if a[2] != "-" {
			hist = strings.Split(a[2], ";")
		}
		var calls []string
		k := 0
		err := tx.Fund(context.Background(), fq, func(ctx context.Context, deficit uint64) ([]*bt.UTXO, error) {
			calls = append(calls, strconv.FormatUint(deficit, 10))
			if k >= len(hist) {
				return nil, bt.ErrNoUTXO
			}
			r := hist[k]
			k++
			switch {
			case r == "x":
				return nil, bt.ErrNoUTXO
			case r == "w": // exhaustion reported the idiomatic way: the sentinel wrapped with context
				return nil, fmt.Errorf("wallet drained after %d calls: %w", k, bt.ErrNoUTXO)
			case r == "e":
				return nil, errSupplier
			case r == "b":
				return []*bt.UTXO{}, nil
			}
			var us []*bt.UTXO
			for _, u := range strings.Split(r[2:], "|") {
				f := strings.Split(u, ":")
				u := &bt.UTXO{TxID: mustHex(f[0]), Vout: uint32(mustU(f[1], 32)), LockingScript: optScr(f[2]), Satoshis: mustU(f[3], 64)}
				if len(f) > 4 { // whatever sequence number the supplier's record carries: funded inputs are final regardless
					u.SequenceNumber = uint32(mustU(f[4], 32))
				}
				us = append(us, u)
			}
			return us, nil
		})
		oc := "ok"
		if err != nil {
			oc = feeErr(err)
		}
		cs := "-"
		if len(calls) > 0 {
			cs = strings.Join(calls, ",")
		}
		return fmt.Sprintf("%s calls=%s tx=%s", oc, cs, descTx(tx))
	}
	generators["C10"] = genC10
	generators["C11"] = genC11
	generators["C12"] = genC12
}

var feeQuotes = []string{"5/100,5/100", "1/1,1/1", "2/1,2/1", "7/3,1/2", "1/1000,1/1000", "500/1000,1/4", "3/2,0/1", "0/1,9/4", "10/1,1/1"}

func p2pkhScript(r *rng) []byte { return tmplP2PKH(r) }

// nonData makes a random script a non-data one (C10 quantifies over non-data change scripts: a data script as change
// destination is charged at the data rate by the size accounting and at the standard rate by Tx.change)
func nonData(b []byte) []byte {
	for bscript.NewFromBytes(b).IsData() {
		b[0] ^= 0x11
	}
	return b
}

// genFeeTx: P2PKH-funded transaction, nIn inputs (unsigned unless signedPct), outputs incl. data outputs
func genFeeTx(r *rng, nIn, nOut int, dataPct int, unlockedPct int) *bt.Tx {
	tx := &bt.Tx{Version: 1, LockTime: 0}
	for i := 0; i < nIn; i++ {
		var prev []byte
		if r.chance(12) {
			prev = tmplInscription(r)
		} else {
			prev = p2pkhScript(r)
		}
		in := mkInput(r.bytes(32), uint32(r.n(5)), nil, 0xffffffff, uint64(r.n(100000)), scr(prev))
		switch {
		case r.chance(unlockedPct):
			in.UnlockingScript = scr(r.bytes(100 + r.n(9))) // "signed": 100..108 bytes
		case r.chance(30):
			in.UnlockingScript = scr([]byte{})
		}
		tx.Inputs = append(tx.Inputs, in)
	}
	for i := 0; i < nOut; i++ {
		var s []byte
		switch {
		case r.chance(dataPct):
			s = tmplData(r)
		case r.chance(10):
			s = r.bytes(r.n(40))
		default:
			s = p2pkhScript(r)
		}
		tx.Outputs = append(tx.Outputs, &bt.Output{Satoshis: uint64(r.n(20000)), LockingScript: scr(s)})
	}
	return tx
}

func genC11(e *emitter, tier string, seed uint64) {
	r := newRng(seed ^ 0xC11)
	n := 400
	if tier != "quick" {
		n = 20000
	}
	// quotes that cannot answer, on a generator of their own
	genNoQuoteC11(e, newRng(seed^0xC11F), n/5)
	// input / output counts on either side of the one-byte varint limit (the two count prefixes change width separately)
	boundary := [][2]int{{1, 252}, {1, 253}, {2, 254}, {252, 1}, {253, 1}, {254, 2}, {253, 253}, {252, 253}, {253, 252}}
	for i := 0; i < n; i++ {
		tx := genFeeTx(r, 1+r.n(4), r.n(7), 35, 40)
		if i < 2*len(boundary) {
			tx = genFeeTx(r, boundary[i/2][0], boundary[i/2][1], 35, 40)
			e.note("fee.count-boundary")
		}
		switch r.n(12) {
		case 0:
			tx.Inputs[r.n(len(tx.Inputs))].PreviousTxScript = nil
		case 1:
			tx.Inputs[r.n(len(tx.Inputs))].PreviousTxScript = scr(r.bytes(r.n(30)))
		case 2:
			tx.Inputs[0].PreviousTxScript = scr(tmplP2PK(r))
		case 3:
			// spent scripts that carry an "ord" envelope without being a P2PKH inscription (P2PK / multisig / arbitrary
			// prefix + envelope), and P2PKH inscriptions whose "ord" tag or content type uses a PUSHDATA form: the
			// estimate supports exactly P2PKH and the P2PKH-inscription template, not "anything that looks inscribed"
			insc := tmplInscription(r)
			env := insc[25:]
			var s []byte
			switch r.n(5) {
			case 0:
				s = append(tmplP2PK(r), env...)
			case 1:
				s = append(r.bytes(1+r.n(30)), env...)
			case 2:
				s = append(append([]byte{}, insc[:25]...), append([]byte{0x00, 0x63, 0x4c, 0x03, 0x6f, 0x72, 0x64}, env[6:]...)...) // PUSHDATA1 "ord"
			case 3:
				s = append(append([]byte{}, insc[:24]...), env...) // template cut by one byte
			default:
				s = env
			}
			tx.Inputs[r.n(len(tx.Inputs))].PreviousTxScript = scr(s)
			e.note("fee.enveloped-non-template-prev")
		}
		// steer the amount relation around the fee threshold
		fq := feeQuotes[r.n(len(feeQuotes))]
		if r.chance(70) {
			if sz, err := tx.EstimateSizeWithTypes(); err == nil {
				_ = sz
				f, _ := tx.EstimateFeesPaid(parseFq(fq))
				if f != nil {
					out := tx.TotalOutputSatoshis()
					want := out + f.TotalFeePaid + uint64(r.n(5)) - 2
					var have uint64
					for _, in := range tx.Inputs[1:] {
						have += in.PreviousTxSatoshis
					}
					if want > have {
						tx.Inputs[0].PreviousTxSatoshis = want - have
					}
				}
			}
		}
		res := e.run("C11.fee", descTx(tx), fq)
		e.note("fee." + strings.SplitN(strings.SplitN(res, "est=", 2)[1], ":", 2)[0][:2])
		if strings.Contains(res, "paid=1") {
			e.note("fee.paid")
		}
	}
	// rates that are not binary fractions, with byte counts whose product with the rate is an exact integer: the fee is
	// floor(bytes x satoshis / per-bytes) in integers — a detour through floating point lands one satoshi low
	for _, rate := range [][2]int{{145, 1000}, {290, 1000}, {29, 100}, {57, 100}, {7, 1000}, {1, 3}, {58, 100}, {113, 1000}, {3, 10}, {7, 10}} {
		for _, mult := range []int{1, 2, 3} {
			per := rate[1]
			tx := genFeeTx(r, 1, 0, 0, 100)
			data := append([]byte{0x00, 0x6a}, r.bytes(per*mult-2)...) // data bytes = per*mult exactly
			tx.Outputs = append(tx.Outputs, &bt.Output{Satoshis: 0, LockingScript: scr(data)})
			pad := &bt.Output{Satoshis: 1000, LockingScript: scr(nonData(r.bytes(30)))}
			tx.Outputs = append(tx.Outputs, pad)
			for tries := 0; tries < 5; tries++ { // pad the standard part to a multiple of the quote's byte unit
				sz := tx.SizeWithTypes()
				rem := int(sz.TotalStdBytes) % per
				if rem == 0 {
					break
				}
				pad.LockingScript = scr(nonData(r.bytes(len(*pad.LockingScript) + per - rem)))
			}
			fq := fmt.Sprintf("%d/%d,%d/%d", rate[0], rate[1], rate[0], rate[1])
			f, _ := tx.EstimateFeesPaid(parseFq(fq))
			for _, delta := range []int{-1, 0, 1} {
				if f != nil {
					tx.Inputs[0].PreviousTxSatoshis = uint64(int(tx.TotalOutputSatoshis()+f.TotalFeePaid) + delta)
				}
				e.run("C11.fee", descTx(tx), fq)
				e.note("fee.exact-product")
			}
		}
	}
	// amount relations at the edge of uint64: one output within a few fees of 2^64 against small and huge inputs (a
	// predicate written as inputs >= outputs + fee wraps; sums of several outputs are kept below 2^64 on purpose)
	for k := 0; k < 40; k++ {
		tx := genFeeTx(r, 1, 1+r.n(2), 35, 40)
		for _, o := range tx.Outputs {
			o.Satoshis = 0
		}
		fq := feeQuotes[r.n(len(feeQuotes))]
		f, _ := tx.EstimateFeesPaid(parseFq(fq))
		var fee uint64 = 100
		if f != nil {
			fee = f.TotalFeePaid
		}
		const top = ^uint64(0) // 2^64-1
		outs := []uint64{top, top - 1, top - fee, top - fee + 1, top - fee - 1, top - fee/2, 1 << 63, 1<<63 - 1}
		ins := []uint64{0, 1, fee - 1, fee, fee + 1, 1000, 1 << 63, top, top - 1}
		tx.Outputs[0].Satoshis = outs[k%len(outs)]
		tx.Inputs[0].PreviousTxSatoshis = ins[(k/len(outs)+k)%len(ins)]
		e.run("C11.fee", descTx(tx), fq)
		e.note("fee.uint64-edge")
	}
	// signed sizes from the real signer
	m := 60
	if tier != "quick" {
		m = 4000
	}
	for i := 0; i < m; i++ {
		tx := genFeeTx(r, 1+r.n(4), 1+r.n(3), 20, 30)
		e.run("C11.signed", descTx(tx))
		e.note("signed")
	}
}

func genC10(e *emitter, tier string, seed uint64) {
	r := newRng(seed ^ 0xC10)
	n := 250
	if tier != "quick" {
		n = 12000
	}
	dests := func() string {
		switch r.n(8) {
		case 0:
			return "new:" + hex.EncodeToString(nonData(r.bytes(1)))
		case 1:
			return "new:" + hex.EncodeToString(nonData(r.bytes(26)))
		case 2:
			return "new:" + hex.EncodeToString(append([]byte{0x76}, r.bytes(199)...))
		case 3:
			return "new:" + hex.EncodeToString(append([]byte{0x76}, r.bytes(252)...))
		case 4:
			return "new:" + hex.EncodeToString(tmplInscription(r))
		default:
			return "new:" + hex.EncodeToString(p2pkhScript(r))
		}
	}
	for i := 0; i < n; i++ {
		nOut := r.n(7)
		if i%9 == 0 {
			nOut = []int{251, 252, 253, 254}[r.n(4)]
		}
		tx := genFeeTx(r, 1+r.n(4), nOut, 25, 30)
		fqs := feeQuotes[r.n(len(feeQuotes))]
		fq := parseFq(fqs)
		dest := dests()
		if len(tx.Outputs) > 0 && r.chance(25) {
			dest = "idx:" + strconv.Itoa(r.n(len(tx.Outputs)+1))
		}
		// amount relations around the thresholds: insufficient, = fee, fee+1, fee+dust, fee+dust+1, ample
		f, err := tx.EstimateFeesPaid(fq)
		if err == nil {
			out := tx.TotalOutputSatoshis()
			base := out + f.TotalFeePaid
			extra := []int64{-3, 0, 1, 2, 3, 20, 60, 400, 5000, 100000}[r.n(10)]
			// a change output costs roughly (34 bytes) more: probe around that threshold as well
			if r.chance(50) {
				std, _ := fq.Fee(bt.FeeTypeStandard)
				extra += int64(34 * std.MiningFee.Satoshis / std.MiningFee.Bytes)
			}
			want := int64(base) + extra
			if want < 0 {
				want = 0
			}
			var have uint64
			for _, in := range tx.Inputs[1:] {
				have += in.PreviousTxSatoshis
			}
			if uint64(want) > have {
				tx.Inputs[0].PreviousTxSatoshis = uint64(want) - have
			}
		}
		res := e.run("C10.change", descTx(tx), fqs, dest)
		e.note("change." + strings.Join(strings.Fields(res)[:min2(2, len(strings.Fields(res)))], "."))
		e.note("dest." + dest[:3])
	}
	// rates that are not binary fractions, the final size swept over a whole period of the quote's byte unit so that
	// size x satoshis divides exactly at least once: the fee is an integer division, never a rounded product
	for _, rate := range [][2]int{{7, 10}, {3, 10}, {29, 100}, {57, 100}, {58, 100}, {1, 3}, {113, 1000}} {
		per := rate[1]
		steps := per
		if steps > 100 {
			steps = 100 // a tenth of the period, where 113/1000 has its exact products every 1000 bytes: start on one
		}
		fqs := fmt.Sprintf("%d/%d,%d/%d", rate[0], rate[1], rate[0], rate[1])
		base := genFeeTx(r, 2, 0, 0, 0)
		for _, in := range base.Inputs {
			in.PreviousTxScript = scr(p2pkhScript(r))
			in.PreviousTxSatoshis = 500000
		}
		for k := 0; k < steps; k++ {
			tx := parseDesc(descTx(base))
			tx.Outputs = append(tx.Outputs, &bt.Output{Satoshis: 1000, LockingScript: scr(nonData(r.bytes(1 + k)))})
			res := e.run("C10.change", descTx(tx), fqs, "new:"+hex.EncodeToString(p2pkhScript(r)))
			e.note("change.exact-product." + strings.Fields(res)[0])
		}
	}
}

func min2(a, b int) int {
	if a < b {
		return a
	}
	return b
}

func genC12(e *emitter, tier string, seed uint64) {
	r := newRng(seed ^ 0xC12)
	n := 300
	if tier != "quick" {
		n = 15000
	}
	// inputs from a previous transaction's outputs (Tx.AddP2PKHInputsFromTx), on a generator of their own
	genFromTxC12(e, newRng(seed^0xC12F), n/2)
	utxo := func(sats int, bad bool) string {
		txid := r.bytes(32)
		if bad {
			txid = r.bytes(31)
		}
		sc := hex.EncodeToString(p2pkhScript(r))
		if r.chance(3) {
			sc = "-"
		} else if r.chance(3) {
			sc = hex.EncodeToString(r.bytes(10))
		}
		if r.chance(40) {
			return fmt.Sprintf("%s:%d:%s:%d:%d", hex.EncodeToString(txid), r.n(4), sc, sats, []uint32{5, 1, 0xfffffffe, 0xffffff, 0xffffffff}[r.n(5)])
		}
		return fmt.Sprintf("%s:%d:%s:%d", hex.EncodeToString(txid), r.n(4), sc, sats)
	}
	decimalQuotes := []string{"145/1000,29/100", "7/10,3/10", "1/3,57/100", "113/1000,113/1000"}
	for i := 0; i < n; i++ {
		tx := genFeeTx(r, r.n(3), r.n(5), 25, 20)
		fqs := feeQuotes[r.n(len(feeQuotes))]
		if i%7 == 3 {
			fqs = decimalQuotes[r.n(len(decimalQuotes))] // rates that are not binary fractions
		}
		if i < 8 {
			// funding carries the input count across the one-byte varint limit (the size estimate grows by two more bytes)
			tx = genFeeTx(r, 249+i/2, 1+r.n(3), 25, 20)
			e.note("fund.count-boundary")
		}
		var hist []string
		steps := r.n(6)
		for s := 0; s < steps; s++ {
			switch {
			case r.chance(12):
				hist = append(hist, []string{"x", "w"}[r.n(2)])
			case r.chance(6):
				hist = append(hist, "e")
			case r.chance(12):
				hist = append(hist, "b")
			default:
				k := 1 + r.n(3)
				var us []string
				for j := 0; j < k; j++ {
					us = append(us, utxo([]int{0, 1, 50, 500, 5000, 30000}[r.n(6)], r.chance(2)))
				}
				hist = append(hist, "b="+strings.Join(us, "|"))
			}
		}
		h := "-"
		if len(hist) > 0 {
			h = strings.Join(hist, ";")
		}
		res := e.run("C12.fund", descTx(tx), fqs, h)
		e.note("fund." + strings.Fields(res)[0])
	}
	// starting transactions that already hold *unlocked* inputs spending inscription outputs (and plain P2PKH ones), the
	// unlocking scripts far from the 107-byte dummy: the estimate must size them as they are, so the deficit handed to the
	// supplier and the stopping point move with their length (rates of one satoshi per byte and more make every byte count)
	for i := 0; i < n/6+20; i++ {
		tx := genFeeTx(r, 0, 1+r.n(3), 0, 0)
		for j := 0; j < 1+r.n(2); j++ {
			prev := tmplInscription(r)
			if r.chance(30) {
				prev = p2pkhScript(r)
			}
			in := mkInput(r.bytes(32), uint32(r.n(5)), nil, 0xffffffff, uint64(r.n(3000)), scr(prev))
			in.UnlockingScript = scr(r.bytes([]int{1, 50, 106, 108, 139, 200, 400}[r.n(7)]))
			tx.Inputs = append(tx.Inputs, in)
		}
		fqs := []string{"1/1,1/1", "2/1,2/1", "7/3,1/2", "10/1,1/1", "3/2,0/1"}[r.n(5)]
		var hist []string
		for s := 0; s < 1+r.n(4); s++ {
			k := 1 + r.n(2)
			var us []string
			for j := 0; j < k; j++ {
				us = append(us, utxo([]int{1, 50, 200, 500, 5000}[r.n(5)], false))
			}
			hist = append(hist, "b="+strings.Join(us, "|"))
		}
		res := e.run("C12.fund", descTx(tx), fqs, strings.Join(hist, ";"))
		e.note("fund.unlocked-inscription-start")
		e.note("fund." + strings.Fields(res)[0])
	}
	// precise landings: after each batch the input total sits at a chosen distance from "outputs + standard fee", inside and
	// on either edge of the window that the data part of the fee opens (transactions with data outputs, non-zero data rate)
	m := 40
	if tier != "quick" {
		m = 2000
	}
	for i := 0; i < m; i++ {
		tx := genFeeTx(r, r.n(2), 1+r.n(3), 0, 0)
		payload := r.bytes([]int{40, 300, 1200, 5000}[r.n(4)])
		ds := bscript.Script(append([]byte{0x6a}, pushOf(payload)...))
		if r.chance(40) {
			ds = bscript.Script(append([]byte{0x00, 0x6a}, pushOf(payload)...))
		}
		tx.Outputs = append(tx.Outputs, &bt.Output{Satoshis: 0, LockingScript: &ds})
		fqs := []string{"1/2,1/4", "1/1,1/2", "5/100,5/100", "7/3,1/2", "1/1000,9/4", "3/2,1/3"}[r.n(6)]
		fq := parseFq(fqs)
		shadow := tx.Clone()
		var hist []string
		for step := 0; step < 1+r.n(3); step++ {
			u := &bt.UTXO{TxID: r.bytes(32), Vout: uint32(r.n(4)), LockingScript: scr(p2pkhScript(r)), Satoshis: 0}
			_ = shadow.FromUTXOs(u)
			fees, err := shadow.EstimateFeesPaid(fq)
			if err != nil {
				break
			}
			k := []int64{-1, 0, 1, int64(fees.DataFeePaid) / 2, int64(fees.DataFeePaid) - 1, int64(fees.DataFeePaid), int64(fees.DataFeePaid) + 1}[r.n(7)]
			want := int64(shadow.TotalOutputSatoshis()) + int64(fees.StdFeePaid) + k - int64(shadow.TotalInputSatoshis())
			if want < 0 {
				want = 0
			}
			shadow.Inputs[len(shadow.Inputs)-1].PreviousTxSatoshis = uint64(want)
			hist = append(hist, fmt.Sprintf("b=%s:%d:%s:%d", hex.EncodeToString(u.TxID), u.Vout, hex.EncodeToString(*u.LockingScript), want))
		}
		if len(hist) == 0 {
			continue
		}
		res := e.run("C12.fund", descTx(tx), fqs, strings.Join(hist, ";"))
		e.note("fund-landing." + strings.Fields(res)[0])
	}
}

var _ = bscript.NewFromBytes
