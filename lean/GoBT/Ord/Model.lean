/-
  ord/list.go, ord/bid.go, ord/2dummies.go, inscriptions.go: the transaction *assembly* of the ordinals flows
  (which inputs and outputs end up where, the change computation, the validation gates), shaped like the Go code.
  Signing (Tx.FillInput) only installs unlocking scripts and is left out of the structure: the correspondence check
  compares shapes with the freshly installed unlocking scripts blanked, and verifies the installed scripts by
  running every input through the interpreter model.  Core Lean only.
-/
import GoBT.Fee.Model
import GoBT.Script.Classify
namespace GoBT.Ord
open GoBT GoBT.Fee

inductive OErr
  | invalidOffer | insufficientUTXOs | emptyScripts | insufficientUTXOValue | addInput | fee (e : Fee.Err)
  | insufficientFees | notP2PKH | cloneFatal | dataTooBig
  deriving Repr, DecidableEq

/-- bt.NewTx() -/
def newTx : Tx := { version := 1, inputs := [], outputs := [], lockTime := 0 }

/-- "move the first UTXO larger than the price to the front" -/
def pick (p : Nat) : List UTXO → Option (UTXO × List UTXO)
  | [] => none
  | u :: us => if u.sats > p then some (u, us) else (pick p us).map fun (v, r) => (v, u :: r)

/-- ValidateListingArgs.Validate -/
def validateListing (pstx : Tx) (listed : UTXO) : Bool :=
  pstx.inputs.length == 1 && pstx.outputs.length == 1 &&
  (pstx.inputs[0]?.map (·.prevTxID)) == some listed.txid &&
  (pstx.inputs[0]?.map (·.vout)) == some listed.vout

def addInputs (tx : Tx) (us : List UTXO) : Except OErr Tx :=
  match fromUTXOs tx us with
  | (t, true) => .ok t
  | (_, false) => .error .addInput

/-- Tx.Change to a new output followed by the flows' check that the estimated final transaction pays the quote
    (Change itself adds nothing and reports no error when the funds do not cover the fee) -/
def withChange (tx : Tx) (fq : FeeQuote) (chg : Bytes) : Except OErr Tx :=
  match change tx fq (.newOutput chg) with
  | .ok (t, _) =>
    match estimateIsFeePaidEnough t fq with
    | .error e => .error (.fee e)
    | .ok true => .ok t
    | .ok false => .error (.fee .insufficientFunds)
  | .error e => .error (.fee e)

/-- AcceptOrdinalSaleListing, up to signing -/
def acceptListing (pstx : Tx) (listed : UTXO) (utxos : List UTXO) (buyer dummy chg : Bytes) (fq : FeeQuote) :
    Except OErr Tx :=
  if !validateListing pstx listed then .error .invalidOffer else
  match pstx.inputs, pstx.outputs with
  | [sin], [sout] =>
    if utxos.length < 2 then .error .insufficientUTXOs else
    match pick sout.sats utxos with
    | none => .error .insufficientUTXOValue
    | some (u0, rest) => do
      let t1 ← addInputs newTx [u0]
      let t2 ← addInputs { t1 with inputs := t1.inputs ++ [sin] } rest
      withChange { t2 with outputs :=
        [{ sats := u0.sats - sout.sats, script := dummy }, sout, { sats := 1, script := buyer }] } fq chg
  | _, _ => .error .invalidOffer

/-- AcceptOrdinalSaleListing2Dummies, up to signing -/
def acceptListing2D (pstx : Tx) (listed : UTXO) (utxos : List UTXO) (buyer dummy chg : Bytes) (fq : FeeQuote) :
    Except OErr Tx :=
  if !validateListing pstx listed then .error .invalidOffer else
  match pstx.inputs, pstx.outputs with
  | [sin], [sout] =>
    match utxos with
    | d0 :: d1 :: pay :: more => do
      let t1 ← addInputs newTx [d0, d1]
      let t2 ← addInputs { t1 with inputs := t1.inputs ++ [sin] } (pay :: more)
      withChange { t2 with outputs :=
        [{ sats := (d0.sats + d1.sats) % 2 ^ 64, script := dummy }, { sats := 1, script := buyer }, sout] } fq chg
    | _ => .error .insufficientUTXOs
  | _, _ => .error .invalidOffer

/-- the placeholder ordinal input of the bid flows: zero sequence number, no value, a fixed inscription script -/
def emptyOrdInput (txid : Bytes) (vout : Nat) (placeholder : Bytes) : Input :=
  { prevTxID := txid, vout := vout, unlocking := none, sequence := 0, prevSats := 0, prevScript := some placeholder }

/-- MakeBidToBuy1SatOrdinal, up to signing.  `placeholder` / `funny` are the two constant scripts of the code. -/
def makeBid (bid : Nat) (ordTxid : Bytes) (ordVout : Nat) (utxos : List UTXO) (buyer dummy chg : Bytes)
    (fq : FeeQuote) (placeholder funny : Bytes) : Except OErr Tx :=
  if utxos.length < 2 then .error .insufficientUTXOs else
  match pick bid utxos with
  | none => .error .insufficientUTXOValue
  | some (u0, rest) => do
    let t1 ← addInputs newTx [u0]
    if ordTxid.length ≠ 32 then .error .addInput else
    let t2 ← addInputs { t1 with inputs := t1.inputs ++ [emptyOrdInput ordTxid ordVout placeholder] } rest
    withChange { t2 with outputs :=
      [{ sats := u0.sats - bid, script := dummy }, { sats := bid, script := funny }, { sats := 1, script := buyer }] } fq chg

/-- MakeBidToBuy1SatOrdinal2Dummies, up to signing -/
def makeBid2D (bid : Nat) (ordTxid : Bytes) (ordVout : Nat) (utxos : List UTXO) (buyer dummy chg : Bytes)
    (fq : FeeQuote) (placeholder funny : Bytes) : Except OErr Tx :=
  match utxos with
  | d0 :: d1 :: pay :: more => do
    let t1 ← addInputs newTx [d0, d1]
    if ordTxid.length ≠ 32 then .error .addInput else
    let t2 ← addInputs { t1 with inputs := t1.inputs ++ [emptyOrdInput ordTxid ordVout placeholder] } (pay :: more)
    withChange { t2 with outputs :=
      [{ sats := (d0.sats + d1.sats) % 2 ^ 64, script := dummy }, { sats := 1, script := buyer }, { sats := bid, script := funny }] } fq chg
  | _ => .error .insufficientUTXOs

def setOutSats (outs : List Output) (k : Nat) (v : Nat) : List Output :=
  outs.zipIdx.map fun (o, i) => if i = k then { o with sats := v } else o
def setOutScript (outs : List Output) (k : Nat) (s : Bytes) : List Output :=
  outs.zipIdx.map fun (o, i) => if i = k then { o with script := s } else o
def setInPrev (ins : List Input) (k : Nat) (u : UTXO) : List Input :=
  ins.zipIdx.map fun (i, j) => if j = k then { i with prevScript := u.script, prevSats := u.sats } else i

/-- ValidateBidArgs.Validate: returns the (mutated) partially signed transaction when valid -/
def validateBid (pstx : Tx) (ord : UTXO) (bid : Nat) (fq : FeeQuote) : Option Tx :=
  if pstx.inputs.length < 3 || pstx.outputs.length < 3 then none else
  if (pstx.inputs[1]?.map (·.prevTxID)) != some ord.txid || (pstx.inputs[1]?.map (·.vout)) != some ord.vout then none else
  let p := { pstx with outputs := setOutSats pstx.outputs 1 bid }
  if isFeePaidEnough p fq then some p else none

def setInUnlock (ins : List Input) (k : Nat) (u : Bytes) : List Input :=
  ins.zipIdx.map fun (i, j) => if j = k then { i with unlocking := some u } else i

/-- AcceptBidToBuy1SatOrdinal.  `unlock` is the unlocking script signing installs on input 1 (signing is not
    modelled; the fee check runs on the signed transaction, so its size matters). -/
def acceptBid (pstx : Tx) (ord : UTXO) (bid : Nat) (fq : FeeQuote) (seller unlock : Bytes) : Except OErr Tx :=
  match validateBid pstx ord bid fq with
  | none => .error .invalidOffer
  | some p =>
    match clone p with
    | none => .error .cloneFatal
    | some c =>
      let t := { c with outputs := setOutScript c.outputs 1 seller }
      let t := { t with inputs := setInUnlock (setInPrev t.inputs 1 ord) 1 unlock }
      if !isFeePaidEnough t fq then .error .insufficientFees else .ok t

/-- ValidateBid2DArgs.Validate -/
def validateBid2D (pstx : Tx) (prev : List UTXO) (bid : Nat) (fq : FeeQuote) : Option Tx :=
  if pstx.inputs.length < 4 || pstx.outputs.length < 4 then none else
  if prev.length != pstx.inputs.length then none else
  if !(List.zip pstx.inputs prev).all (fun (i, u) => i.prevTxID == u.txid && i.vout == u.vout) then none else
  if (((prev[0]?.map (·.sats)).getD 0 + (prev[1]?.map (·.sats)).getD 0) % 2 ^ 64) != ((pstx.outputs[0]?.map (·.sats)).getD 0) then none else
  let p := { pstx with outputs := setOutSats pstx.outputs 2 bid }
  if isFeePaidEnough p fq then some p else none

/-- AcceptBidToBuy1SatOrdinal2Dummies, up to signing input 2: the transaction is rebuilt from its standard
    serialisation, so the previous-output fields of every other input are gone -/
def acceptBid2D (pstx : Tx) (prev : List UTXO) (bid : Nat) (fq : FeeQuote) (seller : Bytes) : Except OErr Tx :=
  match validateBid2D pstx prev bid fq with
  | none => .error .invalidOffer
  | some p =>
    if !Script.isP2PKH seller then .error .notP2PKH else
    match parseExact (serialize false p) with
    | none => .error .cloneFatal
    | some r =>
      let t := { r.tx with outputs := setOutScript r.tx.outputs 2 seller }
      match prev[2]? with
      | none => .error .invalidOffer
      | some ord => .ok { t with inputs := setInPrev t.inputs 2 ord }

/-! ### first-in-first-out satoshi ordering -/

/-- index of the output that receives the satoshi at (0-based) position `n` of the concatenated input value -/
def satOwner : List Output → Nat → Nat → Option Nat
  | [], _, _ => none
  | o :: os, n, k => if n < o.sats then some k else satOwner os (n - o.sats) (k + 1)

/-- position of the first satoshi of input `k` -/
def satOffset (ins : List Input) (k : Nat) : Nat := ((ins.take k).map (·.prevSats)).sum

/-! ### inscriptions.go -/

def pushData (d : Bytes) : Option Bytes := (Script.pushPrefix d.length).map (· ++ d)

/-- Tx.Inscribe's locking script (without enriched OP_RETURN arguments) -/
def inscriptionScript (pre ct data : Bytes) : Option Bytes := do
  let o ← pushData [0x6f, 0x72, 0x64]     -- OrdinalsPrefix = "ord"
  let c ← pushData ct
  let d ← pushData data
  pure (pre ++ [0x00, 0x63] ++ o ++ [0x51] ++ c ++ [0x00] ++ d ++ [0x68])

/-- rangeAbove: value of the inputs in front of input `idx`, plus the offset of the chosen satoshi.
    (The guard is `len < idx`, so `idx = len` is accepted.) -/
def rangeAbove (ins : List Input) (idx sat : Nat) : Except String Nat :=
  if ins.length < idx then .error "specified_output_does_not_exist"
  else if (ins.take idx).any (·.prevSats == 0) then .error "input_satoshi_value_is_not_provided"
  else .ok ((((ins.take idx).map (·.prevSats)).sum + sat) % 2 ^ 64)

/-- Tx.InscribeSpecificOrdinal -/
def inscribeSpecific (tx : Tx) (idx sat : Nat) (extra pre ct data : Bytes) : Except String Tx :=
  match rangeAbove tx.inputs idx sat with
  | .error e => .error e
  | .ok amount =>
    if tx.outputs.length > 0 then .error "transaction_outputs_must_be_empty_to_avoid_messing_with_Ordinal_ordering_scheme"
    else match inscriptionScript pre ct data with
      | none => .error "data_too_big"
      | some s => .ok { tx with outputs := [{ sats := amount, script := extra }, { sats := 1, script := s }] }

end GoBT.Ord
