/-
  What a legacy (non-FORKID) signature commits to.

  The legacy preimage (`satoshiSpec`, to which `C03.legacy_preimage_eq_spec` equates the code's
  `CalcInputPreimageLegacy`) is the *standard serialisation of a modified transaction* followed by the 4-byte hash
  type.  `sigTx` is that modified transaction — the signed input carrying the script code, the others blanked, the
  NONE / SINGLE / ANYONECANPAY truncations applied.  Because the wire codec is injective on well-formed transactions
  (`C01.parse_serialize_std`: parsing the serialisation gives the transaction back, whatever follows), two signing
  contexts with the same preimage have the same `sigTx` and the same hash type: the preimage determines — the
  signature commits to — exactly the fields `sigTx` keeps, and nothing it drops.
-/
import GoBT.Props.C03
namespace GoBT.Sighash.LegacyCommit
open GoBT GoBT.Sighash

/-- input `k` as the legacy algorithm serialises it: the signed one carries the script code, the others are blanked
    (and lose their sequence number under NONE / SINGLE) -/
def sigIn (idx ht : Nat) (sc : Bytes) (k : Nat) (i : Input) : Input :=
  { prevTxID := i.prevTxID, vout := i.vout, unlocking := some (if k = idx then sc else []),
    sequence := if k ≠ idx ∧ (ht &&& 0x1f = 2 ∨ ht &&& 0x1f = 3) then 0 else i.sequence }

/-- the transaction a legacy signature with hash type `ht` on input `idx` with script code `sc` serialises -/
def sigTx (tx : Tx) (idx ht : Nat) (sc : Bytes) : Tx :=
  let bt := ht &&& 0x1f
  let ins := mapIdxFrom (sigIn idx ht sc) 0 tx.inputs
  let ins := if ht &&& 0x80 ≠ 0 then (ins.drop idx).take 1 else ins
  let outs : List Output :=
    if bt = 2 then []
    else if bt = 3 then List.replicate idx { sats := 2 ^ 64 - 1, script := [] } ++ (tx.outputs.drop idx).take 1
    else tx.outputs
  { version := tx.version, inputs := ins, outputs := outs, lockTime := tx.lockTime }

theorem flatten_mapIdxFrom_eq {α : Type} (f : Nat → α → Bytes) (g : Nat → α → Input)
    (h : ∀ k a, f k a = serInput (g k a)) (k : Nat) (l : List α) :
    mapIdxFrom f k l = (mapIdxFrom g k l).map serInput := by
  induction l generalizing k with
  | nil => simp [mapIdxFrom]
  | cons a as ih => simp [mapIdxFrom, h, ih]

/-- the legacy preimage is the standard serialisation of `sigTx` followed by the hash type -/
theorem spec_eq_serialize (tx : Tx) (idx ht : Nat) (sc : Bytes) :
    satoshiSpec tx idx ht sc = serialize false (sigTx tx idx ht sc) ++ leEnc 4 ht := by
  unfold satoshiSpec sigTx serialize serInputs serOutputs
  have e := flatten_mapIdxFrom_eq
    (fun k (i : Input) => i.prevTxID.reverse ++ leEnc 4 i.vout ++
      (if k = idx then varintEnc sc.length ++ sc else [0x00]) ++
      leEnc 4 (if k ≠ idx ∧ (ht &&& 0x1f = 2 ∨ ht &&& 0x1f = 3) then 0 else i.sequence))
    (sigIn idx ht sc)
    (by intro k a; by_cases hk : k = idx <;> simp [sigIn, serInput, serOptScript, hk, varintEnc]) 0 tx.inputs
  simp only [e, Bool.false_eq_true, ↓reduceIte, List.append_nil, serInputF]
  have hf : serInputF false = serInput := by funext i; simp [serInputF]
  by_cases hacp : ht &&& 0x80 ≠ 0
  · simp [hacp, hf, List.map_take, List.map_drop, List.flatMap_def]
  · simp [hacp, hf, List.flatMap_def]

theorem mapIdxFrom_mem {α β : Type} (f : Nat → α → β) (k : Nat) (l : List α) (b : β)
    (h : b ∈ mapIdxFrom f k l) : ∃ j a, a ∈ l ∧ b = f j a := by
  induction l generalizing k with
  | nil => simp [mapIdxFrom] at h
  | cons a as ih =>
    simp only [mapIdxFrom, List.mem_cons] at h
    rcases h with h | h
    · exact ⟨k, a, by simp, h⟩
    · obtain ⟨j, a', ha, hb⟩ := ih (k + 1) h
      exact ⟨j, a', by simp [ha], hb⟩

/-- `sigTx` of a well-formed transaction (with a script code of representable length and an index inside the input
    list) is well-formed -/
theorem sigTx_wf (tx : Tx) (hwf : tx.wf) (idx ht : Nat) (sc : Bytes) (hsc : sc.length < 2 ^ 64)
    (hidx : idx < tx.inputs.length) : (sigTx tx idx ht sc).wf := by
  obtain ⟨hv, hl, hni, hno, hi, ho⟩ := hwf
  have hins : ∀ i ∈ mapIdxFrom (sigIn idx ht sc) 0 tx.inputs,
      i.wf := by
    intro i hmem
    obtain ⟨j, a, ha, rfl⟩ := mapIdxFrom_mem _ _ _ _ hmem
    obtain ⟨w1, w2, w3, w4, w5, w6⟩ := hi a ha
    refine ⟨w1, w2, ?_, by simp [sigIn], ?_, by simp [sigIn, optLen]⟩
    · show (if j ≠ idx ∧ (ht &&& 0x1f = 2 ∨ ht &&& 0x1f = 3) then 0 else a.sequence) < 2 ^ 32
      split
      · decide
      · exact w3
    · show optLen (some (if j = idx then sc else [])) < 2 ^ 64
      by_cases hj : j = idx <;> simp [optLen, hj, hsc]
  unfold sigTx
  refine ⟨hv, hl, ?_, ?_, ?_, ?_⟩
  · show (if ht &&& 0x80 ≠ 0 then _ else _ : List Input).length < 2 ^ 64
    split
    · simp only [List.length_take, List.length_drop, C03.mapIdxFrom_length]; omega
    · simp only [C03.mapIdxFrom_length]; exact hni
  · show (if ht &&& 0x1f = 2 then _ else if ht &&& 0x1f = 3 then _ else _ : List Output).length < 2 ^ 64
    split
    · simp
    · split
      · simp only [List.length_append, List.length_replicate, List.length_take, List.length_drop]; omega
      · exact hno
  · intro i hmem
    have : i ∈ (if ht &&& 0x80 ≠ 0 then _ else _ : List Input) := hmem
    split at this
    · exact hins i (List.mem_of_mem_drop (List.mem_of_mem_take this))
    · exact hins i this
  · intro o hmem
    have : o ∈ (if ht &&& 0x1f = 2 then _ else if ht &&& 0x1f = 3 then _ else _ : List Output) := hmem
    split at this
    · simp at this
    · split at this
      · rcases List.mem_append.mp this with h | h
        · rw [List.mem_replicate] at h
          rw [h.2]; exact ⟨by decide, by decide⟩
        · exact ho o (List.mem_of_mem_drop (List.mem_of_mem_take h))
      · exact ho o this

theorem sigTx_inputs_ne_nil (tx : Tx) (idx ht : Nat) (sc : Bytes) (hidx : idx < tx.inputs.length) :
    (sigTx tx idx ht sc).inputs ≠ [] := by
  unfold sigTx
  intro h
  have hl := congrArg List.length h
  simp only [List.length_nil] at hl
  split at hl
  · simp only [List.length_take, List.length_drop, C03.mapIdxFrom_length] at hl; omega
  · simp only [C03.mapIdxFrom_length] at hl; omega

theorem sigTx_norm (tx : Tx) (idx ht : Nat) (sc : Bytes) : (sigTx tx idx ht sc).norm false = sigTx tx idx ht sc := by
  have hmap : ∀ l : List Input, (∀ i ∈ l, i.norm false = i) → l.map (Input.norm false) = l := by
    intro l hl
    induction l with
    | nil => rfl
    | cons a as ih => simp [hl a (by simp), ih (fun i hi => hl i (by simp [hi]))]
  have hins : ∀ i ∈ mapIdxFrom (sigIn idx ht sc) 0 tx.inputs,
      i.norm false = i := by
    intro i hmem
    obtain ⟨j, a, _, rfl⟩ := mapIdxFrom_mem _ _ _ _ hmem
    simp [sigIn, Input.norm, Input.normStd]
  unfold sigTx Tx.norm
  simp only
  congr 1
  apply hmap
  intro i hmem
  split at hmem
  · exact hins i (List.mem_of_mem_drop (List.mem_of_mem_take hmem))
  · exact hins i hmem

/-- **Commitment (legacy).**  Two signing contexts — well-formed transactions, input indices inside their input lists,
    script codes of representable length, any hash-type words — with the same legacy preimage have the same modified
    transaction and the same 4-byte hash type: every field `sigTx` keeps is determined by the preimage. -/
theorem legacy_commits (tx tx' : Tx) (hwf : tx.wf) (hwf' : tx'.wf) (idx idx' ht ht' : Nat) (sc sc' : Bytes)
    (hsc : sc.length < 2 ^ 64) (hsc' : sc'.length < 2 ^ 64)
    (hidx : idx < tx.inputs.length) (hidx' : idx' < tx'.inputs.length)
    (h : satoshiSpec tx idx ht sc = satoshiSpec tx' idx' ht' sc') :
    sigTx tx idx ht sc = sigTx tx' idx' ht' sc' ∧ ht % 2 ^ 32 = ht' % 2 ^ 32 := by
  rw [spec_eq_serialize, spec_eq_serialize] at h
  have p := C01.parse_serialize_std _ (sigTx_wf tx hwf idx ht sc hsc hidx)
    (fun a => sigTx_inputs_ne_nil tx idx ht sc hidx a.1) (leEnc 4 ht)
  have p' := C01.parse_serialize_std _ (sigTx_wf tx' hwf' idx' ht' sc' hsc' hidx')
    (fun a => sigTx_inputs_ne_nil tx' idx' ht' sc' hidx' a.1) (leEnc 4 ht')
  rw [h, p'] at p
  injection p with hp hrest
  injection hp with htx
  rw [sigTx_norm, sigTx_norm] at htx
  refine ⟨htx.symm, ?_⟩
  have : ht % 256 ^ 4 = ht' % 256 ^ 4 := by rw [← leDec_leEnc, ← leDec_leEnc, hrest]
  simpa using this

theorem mapIdxFrom_getElem? {α β : Type} (f : Nat → α → β) (k : Nat) (l : List α) (j : Nat) :
    (mapIdxFrom f k l)[j]? = l[j]?.map (f (k + j)) := by
  induction l generalizing k j with
  | nil => simp [mapIdxFrom]
  | cons a as ih =>
    cases j with
    | zero => simp [mapIdxFrom]
    | succ j => simp [mapIdxFrom, ih]; congr 2; omega

theorem map_mapIdxFrom_const {α β γ : Type} (f : Nat → α → β) (g : β → γ) (h : α → γ)
    (hg : ∀ k a, g (f k a) = h a) (k : Nat) (l : List α) : (mapIdxFrom f k l).map g = l.map h := by
  induction l generalizing k with
  | nil => simp [mapIdxFrom]
  | cons a as ih => simp [mapIdxFrom, hg, ih]

/-- **What an ALL signature commits to (legacy).**  With a hash type whose base is neither NONE nor SINGLE and
    without ANYONECANPAY, two contexts signing input `idx` with the same preimage agree on the version, the lock time,
    the whole output list, every input's outpoint and sequence number, and the script code.  (The unlocking scripts,
    previous-output values and previous scripts of the inputs are absent from `sigTx`: changing them changes
    nothing — `C04.legacy_ignores_spent_value` and the definition of `satoshiSpec`.) -/
theorem legacy_all_commits (tx tx' : Tx) (hwf : tx.wf) (hwf' : tx'.wf) (idx ht : Nat) (sc sc' : Bytes)
    (hsc : sc.length < 2 ^ 64) (hsc' : sc'.length < 2 ^ 64)
    (hidx : idx < tx.inputs.length) (hidx' : idx < tx'.inputs.length)
    (hall : ht &&& 0x1f ≠ 2 ∧ ht &&& 0x1f ≠ 3) (hacp : ht &&& 0x80 = 0)
    (h : satoshiSpec tx idx ht sc = satoshiSpec tx' idx ht sc') :
    tx.version = tx'.version ∧ tx.lockTime = tx'.lockTime ∧ tx.outputs = tx'.outputs ∧
    tx.inputs.map (fun i => (i.prevTxID, i.vout, i.sequence)) = tx'.inputs.map (fun i => (i.prevTxID, i.vout, i.sequence)) ∧
    sc = sc' := by
  have e := (legacy_commits tx tx' hwf hwf' idx idx ht ht sc sc' hsc hsc' hidx hidx' h).1
  unfold sigTx at e
  simp only [hall.1, hall.2, hacp, ne_eq, not_true_eq_false, ↓reduceIte, Tx.mk.injEq] at e
  obtain ⟨hv, hi, ho, hl⟩ := e
  refine ⟨hv, hl, ho, ?_, ?_⟩
  · have m := congrArg (List.map fun i : Input => (i.prevTxID, i.vout, i.sequence)) hi
    rw [map_mapIdxFrom_const _ _ (fun i : Input => (i.prevTxID, i.vout, i.sequence)),
        map_mapIdxFrom_const _ _ (fun i : Input => (i.prevTxID, i.vout, i.sequence))] at m
    · exact m
    · intro k a; simp [sigIn, hall.1, hall.2]
    · intro k a; simp [sigIn, hall.1, hall.2]
  · have m := congrArg (fun l : List Input => l[idx]?.map (·.unlocking)) hi
    simp only [mapIdxFrom_getElem?, Nat.zero_add, List.getElem?_eq_getElem hidx, List.getElem?_eq_getElem hidx',
      Option.map_some, sigIn, ↓reduceIte, Option.some.injEq] at m
    exact m

/-- **SINGLE (legacy) commits to the output at the signed index** — and to nothing else of the output list: two contexts
    with the same preimage and a matching output have the same output there; conversely the preimage does not depend on
    the other outputs at all (`legacy_single_other_outputs_free`). -/
theorem legacy_single_commits (tx tx' : Tx) (hwf : tx.wf) (hwf' : tx'.wf) (idx ht : Nat) (sc sc' : Bytes)
    (hsc : sc.length < 2 ^ 64) (hsc' : sc'.length < 2 ^ 64)
    (hidx : idx < tx.inputs.length) (hidx' : idx < tx'.inputs.length) (hs : ht &&& 0x1f = 3)
    (h : satoshiSpec tx idx ht sc = satoshiSpec tx' idx ht sc') :
    tx.outputs[idx]? = tx'.outputs[idx]? := by
  have e := (legacy_commits tx tx' hwf hwf' idx idx ht ht sc sc' hsc hsc' hidx hidx' h).1
  have eo := congrArg Tx.outputs e
  unfold sigTx at eo
  simp only [hs, show (3 : Nat) ≠ 2 by decide, ↓reduceIte] at eo
  have := (List.append_inj eo (by simp)).2
  have t := congrArg (fun l : List Output => l[0]?) this
  simpa [List.getElem?_take, List.getElem?_drop] using t

theorem legacy_single_other_outputs_free (tx : Tx) (outs : List Output) (idx ht : Nat) (sc : Bytes)
    (hs : ht &&& 0x1f = 3) (hsame : outs[idx]? = tx.outputs[idx]?) :
    satoshiSpec { tx with outputs := outs } idx ht sc = satoshiSpec tx idx ht sc := by
  have : (outs.drop idx).take 1 = (tx.outputs.drop idx).take 1 := by
    apply List.ext_getElem?
    intro j
    cases j with
    | zero => simpa [List.getElem?_take, List.getElem?_drop] using hsame
    | succ j => simp [List.getElem?_take]
  unfold satoshiSpec
  simp only [hs, show (3 : Nat) ≠ 2 by decide, ↓reduceIte, this]

/-- NONE (legacy) does not commit to the outputs -/
theorem legacy_none_outputs_free (tx : Tx) (outs : List Output) (idx ht : Nat) (sc : Bytes) (hn : ht &&& 0x1f = 2) :
    satoshiSpec { tx with outputs := outs } idx ht sc = satoshiSpec tx idx ht sc := by
  unfold satoshiSpec
  simp only [hn, ↓reduceIte]

end GoBT.Sighash.LegacyCommit
