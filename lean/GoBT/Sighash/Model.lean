/-
  signaturehash.go / txinput.go (hash helpers) / sighash/flag.go.
  `Model` part: functions shaped like the Go code (zero-initialised hashes overwritten under
  the flag tests, clone-and-mutate for the legacy algorithm).
  `Spec` part: the BSV replay-protected digest ("BIP143") and the original Satoshi algorithm,
  written declaratively and general in the 32-bit hash type.
  The hash function is a parameter (`H`): nothing here depends on SHA-256 itself.
-/
import GoBT.Tx.Wire
namespace GoBT.Sighash
open GoBT

/-- the double-SHA-256 used throughout, as a parameter -/
abbrev Hash := Bytes → Bytes

inductive Err | noInput | noTxID | noScript
  deriving Repr, DecidableEq

def zero32 : Bytes := List.replicate 32 0

/-- `defaultHex`: the constant 1 as a little-endian 256-bit number -/
def one256 : Bytes := 1 :: List.replicate 31 0

/-! ### sighash/flag.go -/
def fAll : Nat := 1
def fNone : Nat := 2
def fSingle : Nat := 3
def fAnyOneCanPay : Nat := 0x80
def fForkID : Nat := 0x40
def fMask : Nat := 0x1f

def base (flag : Nat) : Nat := flag &&& fMask
def hasACP (flag : Nat) : Bool := flag &&& fAnyOneCanPay != 0
def hasForkID (flag : Nat) : Bool := flag &&& fForkID == fForkID

/-! ### txinput.go / signaturehash.go helpers -/

def outpoint (i : Input) : Bytes := i.prevTxID.reverse ++ leEnc 4 i.vout

/-- Tx.PreviousOutHash -/
def previousOutHash (H : Hash) (tx : Tx) : Bytes := H (tx.inputs.flatMap outpoint)

/-- Tx.SequenceHash -/
def sequenceHash (H : Hash) (tx : Tx) : Bytes := H (tx.inputs.flatMap fun i => leEnc 4 i.sequence)

/-- Output.BytesForSigHash -/
def outForSigHash (o : Output) : Bytes := leEnc 8 o.sats ++ varintEnc o.script.length ++ o.script

/-- Tx.OutputsHash(-1) -/
def outputsHashAll (H : Hash) (tx : Tx) : Bytes := H (tx.outputs.flatMap outForSigHash)

/-- Go's three error checks, in order (shared by both algorithms). -/
def checkInput (tx : Tx) (idx : Nat) : Except Err (Input × Bytes) :=
  match tx.inputs[idx]? with
  | none => .error .noInput
  | some i =>
    if i.prevTxID.length = 0 then .error .noTxID
    else match i.prevScript with
      | none => .error .noScript
      | some sc => .ok (i, sc)

/-- CalcInputPreimage (FORKID algorithm), shaped like the Go code. -/
def preimageForkID (H : Hash) (tx : Tx) (idx : Nat) (flag : Nat) : Except Err Bytes := do
  let (i, sc) ← checkInput tx idx
  let hashPreviousOuts := if flag &&& fAnyOneCanPay = 0 then previousOutHash H tx else zero32
  let hashSequence :=
    if flag &&& fAnyOneCanPay = 0 ∧ flag &&& 31 ≠ fSingle ∧ flag &&& 31 ≠ fNone then sequenceHash H tx else zero32
  let hashOutputs :=
    if flag &&& 31 ≠ fSingle ∧ flag &&& 31 ≠ fNone then outputsHashAll H tx
    else if flag &&& 31 = fSingle ∧ idx < tx.outputs.length then
      H (outForSigHash (tx.outputs[idx]?.getD default))
    else zero32
  pure (leEnc 4 tx.version ++ hashPreviousOuts ++ hashSequence ++ outpoint i ++
        varintEnc sc.length ++ sc ++ leEnc 8 i.prevSats ++ leEnc 4 i.sequence ++
        hashOutputs ++ leEnc 4 tx.lockTime ++ leEnc 4 flag)

/-- map with the element's position, counting from `k` (Go's `for i := range …`) -/
def mapIdxFrom {α β : Type} (f : Nat → α → β) : Nat → List α → List β
  | _, [] => []
  | k, a :: as => f k a :: mapIdxFrom f (k + 1) as

/-- the legacy clone-and-mutate steps on the input list -/
def legacyInputs (ins : List Input) (idx : Nat) (sc : Bytes) (zeroSeq : Bool) : List Input :=
  mapIdxFrom (fun k i =>
    if k = idx then { i with prevScript := some sc }
    else { i with unlocking := some [], prevScript := some [],
                  sequence := if zeroSeq then 0 else i.sequence }) 0 ins

/-- the manual re-serialisation at the end of CalcInputPreimageLegacy: the *previous* script is
    written in the script position of every input -/
def serLegacyInput (i : Input) : Bytes :=
  outpoint i ++ varintEnc (optLen i.prevScript) ++ i.prevScript.getD [] ++ leEnc 4 i.sequence

/-- CalcInputPreimageLegacy, shaped like the Go code.  `cl` is Tx.Clone (C01). -/
def preimageLegacy (tx : Tx) (idx : Nat) (flag : Nat) : Except Err Bytes :=
  match checkInput tx idx with
  | .error e => .error e
  | .ok (_, sc) =>
    if flag &&& fMask = fSingle ∧ tx.outputs.length ≤ idx then
      .ok one256
    else
      match clone tx with
      | none => .ok []      -- log.Fatal: unreachable for well-formed transactions (C01.clone_eq)
      | some c =>
        let zeroSeq := decide (flag &&& fMask = fNone) || decide (flag &&& fMask = fSingle)
        let ins := legacyInputs c.inputs idx sc zeroSeq
        let outs : List Output :=
          if flag &&& fMask = fNone then []
          else if flag &&& fMask = fSingle then
            (List.replicate idx { sats := 18446744073709551615, script := [] }) ++ (c.outputs.drop idx).take 1
          else c.outputs
        let ins := if flag &&& fAnyOneCanPay ≠ 0 then (ins.drop idx).take 1 else ins
        .ok (leEnc 4 tx.version ++ varintEnc ins.length ++ ins.flatMap serLegacyInput ++
              varintEnc outs.length ++ outs.flatMap serOutput ++ leEnc 4 tx.lockTime ++ leEnc 4 flag)

/-- CalcInputSignatureHash: choose by the FORKID bit, double-hash unless the buffer is the constant. -/
def signatureHash (H : Hash) (tx : Tx) (idx : Nat) (flag : Nat) : Except Err Bytes := do
  let buf ← if flag &&& fForkID = fForkID then preimageForkID H tx idx flag else preimageLegacy tx idx flag
  if buf = one256 then pure buf else pure (H buf)

/-! ### specifications -/

/-- The BSV replay-protected digest preimage, items 1–10 of the specification, for a
    32-bit hash type and an explicit script code and amount. -/
def bip143Spec (H : Hash) (tx : Tx) (idx : Nat) (hashType : Nat) (scriptCode : Bytes) (amount : Nat) : Bytes :=
  let i := tx.inputs[idx]?.getD default
  let acp := hashType &&& 0x80 ≠ 0
  let bt := hashType &&& 0x1f
  let hashPrevouts := if ¬ acp then H (tx.inputs.flatMap outpoint) else zero32
  let hashSequence := if ¬ acp ∧ bt ≠ 3 ∧ bt ≠ 2 then H (tx.inputs.flatMap fun i => leEnc 4 i.sequence) else zero32
  let hashOutputs :=
    if bt ≠ 3 ∧ bt ≠ 2 then H (tx.outputs.flatMap serOutput)
    else if bt = 3 ∧ idx < tx.outputs.length then H (serOutput (tx.outputs[idx]?.getD default))
    else zero32
  leEnc 4 tx.version ++ hashPrevouts ++ hashSequence ++ (i.prevTxID.reverse ++ leEnc 4 i.vout) ++
  (varintEnc scriptCode.length ++ scriptCode) ++ leEnc 8 amount ++ leEnc 4 i.sequence ++
  hashOutputs ++ leEnc 4 tx.lockTime ++ leEnc 4 hashType

/-- The original Satoshi SignatureHash serialisation (for an in-range index): one serialisation
    over blanked inputs and selected outputs, followed by the 4-byte hash type. -/
def satoshiSpec (tx : Tx) (idx : Nat) (hashType : Nat) (scriptCode : Bytes) : Bytes :=
  let acp := hashType &&& 0x80 ≠ 0
  let bt := hashType &&& 0x1f
  let serIn (i : Input) (k : Nat) : Bytes :=
    i.prevTxID.reverse ++ leEnc 4 i.vout ++
    (if k = idx then varintEnc scriptCode.length ++ scriptCode else [0x00]) ++
    leEnc 4 (if k ≠ idx ∧ (bt = 2 ∨ bt = 3) then 0 else i.sequence)
  let ins := mapIdxFrom (fun k i => serIn i k) 0 tx.inputs
  let ins := if acp then (ins.drop idx).take 1 else ins
  let outs : List Output :=
    if bt = 2 then []
    else if bt = 3 then List.replicate idx { sats := 2 ^ 64 - 1, script := [] } ++ (tx.outputs.drop idx).take 1
    else tx.outputs
  leEnc 4 tx.version ++ varintEnc ins.length ++ ins.flatten ++
  varintEnc outs.length ++ outs.flatMap serOutput ++ leEnc 4 tx.lockTime ++ leEnc 4 hashType

end GoBT.Sighash
