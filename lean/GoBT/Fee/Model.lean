/-
  tx.go (Size*, Estimate*, feesPaid, IsFeePaidEnough, estimateDeficit), txchange.go (change and wrappers),
  txinput.go (FromUTXOs, Fund).  Core Lean only.
-/
import GoBT.Tx.Wire
import GoBT.Script.Classify
import GoBT.Gen.Limits
namespace GoBT.Fee
open GoBT GoBT.Script

/-- a FeeQuote reduced to what the fee arithmetic reads: mining fee of the two fee types -/
structure FeeQuote where
  stdSat : Nat
  stdBytes : Nat
  dataSat : Nat
  dataBytes : Nat
  deriving Repr, DecidableEq

def FeeQuote.wf (fq : FeeQuote) : Prop := 0 < fq.stdBytes ∧ 0 < fq.dataBytes

/-- TxSize -/
structure TxSize where
  total : Nat
  std : Nat
  data : Nat
  deriving Repr, DecidableEq

def totalIn (tx : Tx) : Nat := (tx.inputs.map (·.prevSats)).sum
def totalOut (tx : Tx) : Nat := (tx.outputs.map (·.sats)).sum

def dataBytes (outs : List Output) : Nat := (outs.map fun o => if isData o.script then o.script.length else 0).sum

/-- Tx.SizeWithTypes -/
def sizeWithTypes (tx : Tx) : TxSize :=
  let total := (serialize false tx).length
  let data := dataBytes tx.outputs
  { total := total, std := total - data, data := data }

/-- the dummy P2PKH unlocking script of estimatedFinalTx (regenerated literal) -/
def dummyUnlocking : Bytes := (hexDec GoBT.Gen.dummyUnlockingHex).getD []

inductive Err
  | emptyPrevScript | unsupportedScript | insufficientInputs | outputNoExist | insufficientFunds
  | invalidTxID | supplier | panic | fatal
  deriving Repr, DecidableEq

/-- the per-input step of estimatedFinalTx -/
def estimateInput (i : Input) : Except Err Input :=
  match i.prevScript with
  | none => .error .emptyPrevScript
  | some ps =>
    match isP2PKHInscription ps with
    | none => .error .panic
    | some insc =>
      if !(isP2PKH ps || insc) then .error .unsupportedScript
      else if (i.unlocking.getD []).length = 0 then .ok { i with unlocking := some dummyUnlocking }
      else .ok i

def estimateInputs : List Input → Except Err (List Input)
  | [] => .ok []
  | i :: is => do
    let i' ← estimateInput i
    let is' ← estimateInputs is
    pure (i' :: is')

/-- Tx.estimatedFinalTx -/
def estimatedFinalTx (tx : Tx) : Except Err Tx :=
  match clone tx with
  | none => .error .fatal
  | some c => do
    let ins ← estimateInputs c.inputs
    pure { c with inputs := ins }

/-- Tx.EstimateSizeWithTypes -/
def estimateSizeWithTypes (tx : Tx) : Except Err TxSize := do
  let t ← estimatedFinalTx tx
  pure (sizeWithTypes t)

/-- Tx.feesPaid: floor arithmetic per fee type -/
def feesPaid (sz : TxSize) (fq : FeeQuote) : Nat :=
  sz.std * fq.stdSat / fq.stdBytes + sz.data * fq.dataSat / fq.dataBytes

/-- Tx.IsFeePaidEnough -/
def isFeePaidEnough (tx : Tx) (fq : FeeQuote) : Bool :=
  let exp := feesPaid (sizeWithTypes tx) fq
  if totalIn tx < totalOut tx then false else decide (totalIn tx - totalOut tx ≥ exp)

/-- Tx.EstimateIsFeePaidEnough -/
def estimateIsFeePaidEnough (tx : Tx) (fq : FeeQuote) : Except Err Bool := do
  let t ← estimatedFinalTx tx
  let exp := feesPaid (sizeWithTypes t) fq
  pure (if totalIn t < totalOut t then false else decide (totalIn t - totalOut t ≥ exp))

/-- Tx.EstimateFeesPaid -/
def estimateFeesPaid (tx : Tx) (fq : FeeQuote) : Except Err Nat := do
  let sz ← estimateSizeWithTypes tx
  pure (feesPaid sz fq)

/-- Tx.estimateDeficit -/
def estimateDeficit (tx : Tx) (fq : FeeQuote) : Except Err Nat := do
  let fee ← estimateFeesPaid tx fq
  pure (if totalIn tx > totalOut tx + fee then 0 else totalOut tx + fee - totalIn tx)

/-- Tx.estimateDeficit with the code's 64-bit arithmetic: `totalOutputSatoshis + fee` is a uint64 sum and wraps.  The
    driver prints this one (it is what the code computes for every input); the theorems are about `estimateDeficit` and
    hold for the code wherever outputs + fee stay below 2^64 (`estimateDeficit64_eq`) — beyond that (more than 8000 times
    the coin supply) the code's answer is the wrapped one, recorded in DESIGN §11.5. -/
def estimateDeficit64 (tx : Tx) (fq : FeeQuote) : Except Err Nat := do
  let fee ← estimateFeesPaid tx fq
  let s := (totalOut tx + fee) % 2 ^ 64
  pure (if totalIn tx > s then 0 else s - totalIn tx)

theorem estimateDeficit64_eq (tx : Tx) (fq : FeeQuote)
    (h : ∀ fee, estimateFeesPaid tx fq = .ok fee → totalOut tx + fee < 2 ^ 64) :
    estimateDeficit64 tx fq = estimateDeficit tx fq := by
  unfold estimateDeficit64 estimateDeficit
  cases hf : estimateFeesPaid tx fq with
  | error e => rfl
  | ok fee =>
    have := h fee hf
    simp only [bind, Except.bind, pure, Except.pure]
    rw [Nat.mod_eq_of_lt this]

/-! ### change -/

def dustLimit : Nat := 1

/-- map with position, counting from `k` -/
def mapIdx {α β : Type} (f : Nat → α → β) : Nat → List α → List β
  | _, [] => []
  | k, a :: as => f k a :: mapIdx f (k + 1) as

inductive ChangeDest
  | newOutput (script : Bytes)
  | existing (idx : Nat)
  deriving Repr, DecidableEq

/-- bytes a new output with script `s` adds to a transaction that has `n` outputs:
    value, script-length prefix, script, and the growth of the output-count prefix -/
def newOutputBytes (n : Nat) (s : Bytes) : Nat :=
  8 + varintLen s.length + s.length + (upperLimitInc n).toNat

/-- extra standard bytes charged for the change destination -/
def changeExtra (tx : Tx) (dest : ChangeDest) : Nat :=
  match dest with
  | .newOutput s => newOutputBytes tx.outputs.length s
  | .existing _ => 0

/-- the fee Tx.change reserves -/
def changeFee (tx : Tx) (fq : FeeQuote) (dest : ChangeDest) (size : TxSize) : Nat :=
  (size.std + changeExtra tx dest) * fq.stdSat / fq.stdBytes + size.data * fq.dataSat / fq.dataBytes

/-- adding `amt` to the output at position `idx` -/
def bump (idx amt : Nat) (k : Nat) (o : Output) : Output := if k = idx then { o with sats := o.sats + amt } else o

/-- put the change where it was asked to go -/
def changeApply (tx : Tx) (dest : ChangeDest) (amt : Nat) : Tx :=
  match dest with
  | .newOutput s => { tx with outputs := tx.outputs ++ [{ sats := amt, script := s }] }
  | .existing idx => { tx with outputs := mapIdx (bump idx amt) 0 tx.outputs }

/-- the body of Tx.change once the size estimate is known -/
def changeWith (tx : Tx) (fq : FeeQuote) (dest : ChangeDest) (est : Except Err TxSize) : Except Err (Tx × Bool) :=
  if totalIn tx < totalOut tx then .error .insufficientInputs else
  match est with
  | .error e => .error e
  | .ok size =>
    if upperLimitInc tx.outputs.length = -1 then .ok (tx, false)
    else if totalIn tx - totalOut tx ≤ changeFee tx fq dest size ∨
            totalIn tx - totalOut tx - changeFee tx fq dest size ≤ dustLimit then .ok (tx, false)
    else .ok (changeApply tx dest (totalIn tx - totalOut tx - changeFee tx fq dest size), true)

/-- Tx.change + the wrappers Change / ChangeToExistingOutput: the new transaction and whether change was added -/
def change (tx : Tx) (fq : FeeQuote) (dest : ChangeDest) : Except Err (Tx × Bool) :=
  match dest with
  | .existing idx =>
    if idx + 1 > tx.outputs.length then .error .outputNoExist
    else changeWith tx fq dest (estimateSizeWithTypes tx)
  | .newOutput _ => changeWith tx fq dest (estimateSizeWithTypes tx)

/-! ### funding -/

structure UTXO where
  txid : Bytes
  vout : Nat
  script : Option Bytes
  sats : Nat
  deriving Repr, DecidableEq

inductive Response
  | batch (utxos : List UTXO)
  | exhausted          -- the supplier returns ErrNoUTXO
  | failed             -- the supplier returns some other error
  deriving Repr, DecidableEq

/-- Tx.FromUTXOs: inputs are appended one by one; an invalid txid aborts, keeping what was added -/
def fromUTXOs (tx : Tx) : List UTXO → Tx × Bool
  | [] => (tx, true)
  | u :: us =>
    if u.txid.length ≠ 32 then (tx, false)
    else
      let inp : Input :=
        { prevTxID := u.txid, vout := u.vout, unlocking := none, sequence := 0xFFFFFFFF,
          prevSats := u.sats, prevScript := u.script }
      fromUTXOs { tx with inputs := tx.inputs ++ [inp] } us

inductive Outcome | ok | err (e : Err)
  deriving Repr, DecidableEq

structure FundResult where
  tx : Tx
  calls : List Nat       -- the deficit handed to the supplier on each call
  outcome : Outcome
  deriving Repr, DecidableEq

/-- the Fund loop over an abstract deficit estimator -/
def fundWith (deficit : Tx → Except Err Nat) : List Response → Tx → List Nat → FundResult
  | hist, tx, calls =>
    match deficit tx with
    | .error e => ⟨tx, calls, .err e⟩
    | .ok 0 => ⟨tx, calls, .ok⟩
    | .ok (d + 1) =>
      match hist with
      | [] => ⟨tx, calls ++ [d + 1], .err .insufficientFunds⟩
      | .exhausted :: _ => ⟨tx, calls ++ [d + 1], .err .insufficientFunds⟩
      | .failed :: _ => ⟨tx, calls ++ [d + 1], .err .supplier⟩
      | .batch us :: rest =>
        let (tx', ok) := fromUTXOs tx us
        if !ok then ⟨tx', calls ++ [d + 1], .err .invalidTxID⟩
        else fundWith deficit rest tx' (calls ++ [d + 1])

/-- Tx.Fund against a supplier that answers with the given history (a history that runs out counts
    as exhaustion). -/
def fund (fq : FeeQuote) (hist : List Response) (tx : Tx) (calls : List Nat) : FundResult :=
  fundWith (fun t => estimateDeficit t fq) hist tx calls

end GoBT.Fee
