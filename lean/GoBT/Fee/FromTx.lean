/-
  txinput.go: Tx.AddP2PKHInputsFromTx — add every output of a previous transaction that pays to a given public key
  as an input (through Tx.FromUTXOs).  Core Lean only.  The HASH160 and the transaction id are parameters.
-/
import GoBT.Fee.Model
import GoBT.Script.Classify
namespace GoBT.Fee
open GoBT GoBT.Script

/-- the loop over the previous transaction's outputs, `k` = index of the head of `outs`.
    `none` = a run-time panic inside Script.PublicKeyHash (proved impossible, C14); the flag is `false` when the
    function returns an error (the inputs added so far stay, as in the code). -/
def fromTxLoop (h : Bytes) (prevID : Bytes) : Nat → List Output → Tx → Option (Tx × Bool)
  | _, [], tx => some (tx, true)
  | k, o :: os, tx =>
    match publicKeyHash o.script with
    | none => none
    | some (.ok p) =>
      if p == h then
        match fromUTXOs tx [{ txid := prevID, vout := k, script := some o.script, sats := o.sats }] with
        | (t, true) => fromTxLoop h prevID (k + 1) os t
        | (t, false) => some (t, false)
      else fromTxLoop h prevID (k + 1) os tx
    | some _ => some (tx, false)

/-- Tx.AddP2PKHInputsFromTx(pvsTx, matchPK) -/
def addP2PKHInputsFromTx (H160 : Bytes → Bytes) (txidOf : Tx → Bytes) (tx pvs : Tx) (key : Bytes) : Option (Tx × Bool) :=
  fromTxLoop (H160 key) (txidOf pvs) 0 pvs.outputs tx

end GoBT.Fee
