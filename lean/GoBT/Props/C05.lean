/-
  C05 — the interpreter evaluates all non-signature opcodes per the BSV script rules.
  Model ↔ code: GoBT/Interp/Exec.lean (`execute`, `executeOpcode`, `handler`) mirrors thread.go / operations.go;
  GoBT/Interp/Num.lean mirrors number.go.  Every run compares, program by program, the verdict and the data / alt /
  conditional stacks after every executed instruction with the real interpreter (recording Debugger).
  Theorems here: the regenerated limits, flags and dispatch table are the ones the model is written against;
  decision logic of OP_RETURN, disabled / reserved opcodes, limits; numeric layer facts.
-/
import GoBT.Interp.Exec
import GoBT.Interp.Dispatch
import GoBT.Gen.Opcodes
import GoBT.Gen.Limits
import GoBT.Interp.NumLemmas
import GoBT.Interp.NoPanicMain
namespace GoBT.C05
open GoBT GoBT.Interp GoBT.Script

/-! ### ✓gen — regenerated facts -/

/-- every row of interpreter.opcodeArray dispatches to the handler the model assumes for that opcode value -/
theorem dispatch_table_matches :
    (GoBT.Gen.opcodeArray.all fun r => r.handler == expectedHandler r.idx) = true := by
  decide +kernel

def look (k : String) : Option Int := GoBT.Gen.configReturns.lookup k

/-- the per-era limits returned by config.go are the BSV limits the model uses
    (500 ops, 1000 stack items, 10,000-byte scripts, 520-byte elements, 4-byte numbers, 20 keys before Genesis) -/
theorem limits_match :
    look "beforeGenesisConfig.AfterGenesis" = some 0 ∧
    look "beforeGenesisConfig.MaxOps" = some cfgBefore.maxOps ∧
    look "beforeGenesisConfig.MaxStackSize" = some cfgBefore.maxStack ∧
    look "beforeGenesisConfig.MaxScriptSize" = some cfgBefore.maxScriptSize ∧
    look "beforeGenesisConfig.MaxScriptElementSize" = some cfgBefore.maxElem ∧
    look "beforeGenesisConfig.MaxScriptNumberLength" = some cfgBefore.maxNumLen ∧
    look "beforeGenesisConfig.MaxPubKeysPerMultiSig" = some cfgBefore.maxPubKeys ∧
    look "afterGenesisConfig.AfterGenesis" = some 1 ∧
    look "afterGenesisConfig.MaxOps" = some cfgAfter.maxOps ∧
    look "afterGenesisConfig.MaxStackSize" = some cfgAfter.maxStack ∧
    look "afterGenesisConfig.MaxScriptSize" = some cfgAfter.maxScriptSize ∧
    look "afterGenesisConfig.MaxScriptElementSize" = some cfgAfter.maxElem ∧
    look "afterGenesisConfig.MaxScriptNumberLength" = some cfgAfter.maxNumLen ∧
    look "afterGenesisConfig.MaxPubKeysPerMultiSig" = some cfgAfter.maxPubKeys := by
  decide +kernel

def flagOf (k : String) : Option Int := GoBT.Gen.intConsts.lookup ("scriptflag." ++ k)

/-- the script-flag bit assignments are the ones the model tests -/
theorem flags_match :
    flagOf "Bip16" = some fBip16 ∧ flagOf "StrictMultiSig" = some fStrictMultiSig ∧
    flagOf "DiscourageUpgradableNops" = some fDiscourageNops ∧ flagOf "VerifyCheckLockTimeVerify" = some fCLTV ∧
    flagOf "VerifyCheckSequenceVerify" = some fCSV ∧ flagOf "VerifyCleanStack" = some fCleanStack ∧
    flagOf "VerifyDERSignatures" = some fDERSig ∧ flagOf "VerifyLowS" = some fLowS ∧
    flagOf "VerifyMinimalData" = some fMinimalData ∧ flagOf "VerifyNullFail" = some fNullFail ∧
    flagOf "VerifySigPushOnly" = some fSigPushOnly ∧ flagOf "EnableSighashForkID" = some fForkID ∧
    flagOf "VerifyStrictEncoding" = some fStrictEnc ∧ flagOf "VerifyBip143SigHash" = some fBip143 ∧
    flagOf "UTXOAfterGenesis" = some fAfterGenesis ∧ flagOf "VerifyMinimalIf" = some fMinimalIf ∧
    GoBT.Gen.intConsts.lookup "interpreter.LockTimeThreshold" = some 500000000 := by
  decide +kernel

/-! ### decision logic stated outright -/

/-- OP_RETURN before Genesis is an error; after Genesis it marks the early return and, at the top level
    (no open conditional), ends the current script successfully whatever follows. -/
theorem op_return_logic (env : Env) (cur : List POp) (off : Nat) (s : St) :
    let o : POp := ⟨0x6a, [], 1⟩
    (env.cfg.afterGenesis = false → handler env cur off o s = .err "ErrEarlyReturn") ∧
    (env.cfg.afterGenesis = true → s.cond = [] → handler env cur off o s = .success { s with early := true }) ∧
    (env.cfg.afterGenesis = true → s.cond ≠ [] → handler env cur off o s = .ok { s with early := true }) := by
  refine ⟨?_, ?_, ?_⟩
  · intro h; simp [handler, handlerFlow, h]
  · intro h hc; simp [handler, handlerFlow, h, hc]
  · intro h hc
    cases hcs : s.cond with
    | nil => exact absurd hcs hc
    | cons c cs => simp [handler, handlerFlow, h, hcs]

/-- Disabled opcodes (OP_2MUL, OP_2DIV) fail even in a branch that is not executed before Genesis, and only
    when executed after Genesis; OP_VERIF / OP_VERNOTIF are always illegal before Genesis. -/
theorem disabled_reserved_logic (env : Env) (cur : List POp) (off : Nat) (o : POp) (s : St)
    (hsz : o.data.length ≤ env.cfg.maxElem) :
    (isDisabledOp o.op = true → env.cfg.afterGenesis = false →
        executeOpcode env cur off o s = .err "ErrDisabledOpcode") ∧
    (alwaysIllegalOp o.op = true → env.cfg.afterGenesis = false →
        executeOpcode env cur off o s = .err "ErrReservedOpcode") := by
  have hnot : ¬ o.data.length > env.cfg.maxElem := by omega
  constructor
  · intro hd hg; simp [executeOpcode, hnot, hd, hg]
  · intro hi hg
    have hdis : isDisabledOp o.op = false := by
      simp only [alwaysIllegalOp, Bool.or_eq_true, beq_iff_eq] at hi
      rcases hi with h | h <;> simp [isDisabledOp, h]
    simp [executeOpcode, hnot, hi, hg, hdis]

/-- An element larger than the era's limit is rejected before anything else looks at the opcode. -/
theorem oversized_element_rejected (env : Env) (cur : List POp) (off : Nat) (o : POp) (s : St)
    (h : o.data.length > env.cfg.maxElem) : executeOpcode env cur off o s = .err "ErrElementTooBig" := by
  simp [executeOpcode, h]

/-- After every executed instruction the combined depth of the data and alt stacks is within the era's
    limit: every snapshot a run records satisfies it. -/
theorem stack_depth_invariant (env : Env) (sidx : Nat) (cur ops : List POp) (off : Nat) (s : St) (tr : List Snap)
    (htr : ∀ sn ∈ tr, sn.st.ds.length + sn.st.as.length ≤ env.cfg.maxStack) :
    ∀ sn ∈ (runOps env sidx cur ops off s tr).2, sn.st.ds.length + sn.st.as.length ≤ env.cfg.maxStack := by
  induction ops generalizing off s tr with
  | nil => simpa [runOps] using htr
  | cons o rest ih =>
    unfold runOps
    split
    · simpa using htr
    · simpa using htr
    · simpa using htr
    · next s' hs =>
      split
      · simpa using htr
      · next hle =>
        split
        · simpa using htr
        · apply ih
          intro sn hsn
          simp only [List.mem_cons] at hsn
          rcases hsn with rfl | hsn
          · simpa using Nat.le_of_not_lt hle
          · exact htr sn hsn

/-- ✓gen — the lock-time constants of the code are the ones the model's CLTV / CSV use -/
theorem locktime_consts_match :
    GoBT.Gen.intConsts.lookup "interpreter.LockTimeThreshold" = some lockTimeThreshold ∧
    GoBT.Gen.intConsts.lookup "bt.SequenceLockTimeIsSeconds" = some seqLockTimeSeconds ∧
    GoBT.Gen.intConsts.lookup "bt.SequenceLockTimeDisabled" = some (seqLockTimeDisabled : Int) ∧
    GoBT.Gen.intConsts.lookup "bt.MaxTxInSequenceNum" = some (maxTxInSequenceNum : Int) ∧
    (do let a ← GoBT.Gen.intConsts.lookup "bt.SequenceLockTimeIsSeconds"
        let b ← GoBT.Gen.intConsts.lookup "bt.SequenceLockTimeMask"
        pure (a.toNat ||| b.toNat)) = some seqLockTimeMask := by
  decide +kernel

/-! ### numeric layer (number.go) -/

/-- truthiness: empty and all-zero strings are false, and so is "negative zero" -/
theorem asBool_facts :
    asBool [] = false ∧ asBool [0x00] = false ∧ asBool [0x80] = false ∧ asBool [0x00, 0x80] = false ∧
    asBool [0x80, 0x00] = true ∧ asBool [0x01] = true := by decide

/-- the minimal-encoding check rejects exactly a most-significant byte that carries no magnitude bits unless the
    byte below needs it for its sign bit -/
theorem isMinimalNum_iff (v : Bytes) :
    isMinimalNum v = true ↔
      v = [] ∨ ∃ last, v.getLast? = some last ∧
        (last.toNat &&& 0x7f ≠ 0 ∨ ∃ prev, (v.dropLast).getLast? = some prev ∧ prev.toNat &&& 0x80 ≠ 0) := by
  unfold isMinimalNum
  cases hr : v.reverse with
  | nil =>
    have : v = [] := by simpa using hr
    simp [this]
  | cons last rest =>
    have hv : v = rest.reverse ++ [last] := by
      have := congrArg List.reverse hr; simpa using this
    subst hv
    simp only [List.getLast?_append, List.getLast?_singleton, Option.some_or, List.dropLast_concat,
      Option.some.injEq, exists_eq_left', reduceCtorEq, List.append_eq_nil_iff, List.cons_ne_self, and_false,
      false_or, List.getLast?_reverse]
    by_cases h7 : last.toNat &&& 0x7f = 0
    · cases rest with
      | nil => simp [h7]
      | cons prev r2 => simp [h7]
    · simp [h7]

/-- **Script numbers are the integers.**  Decoding the encoding of any integer returns it; the encoding is minimal;
    `makeScriptNumber` (with or without the minimal-data requirement) accepts it whenever it fits the length limit. -/
theorem script_numbers_are_integers (z : Int) :
    decodeNum (encodeNum z) = z ∧ isMinimalNum (encodeNum z) = true ∧
    ∀ maxLen req, (encodeNum z).length ≤ maxLen → makeScriptNumber (encodeNum z) maxLen req = .ok z :=
  ⟨decodeNum_encodeNum z, isMinimalNum_encodeNum z, fun m r h => makeScriptNumber_encodeNum z m r h⟩

theorem toNum_encodeNum (env : Env) (z : Int) (h : (encodeNum z).length ≤ env.cfg.maxNumLen) :
    toNum env (encodeNum z) = .ok z := by
  unfold toNum
  rw [makeScriptNumber_encodeNum z _ _ h]

/-- **Arithmetic opcodes compute on ℤ**: a binary numeric opcode applied to the encodings of `a` (second from top) and
    `b` (top) leaves the encoding of `f a b` — exact integer arithmetic, no wrap-around — or `f`'s error; operands
    only have to respect the era's length limit. -/
theorem binary_opcode_on_integers (env : Env) (s : St) (f : Int → Int → Except String Int) (a b : Int) (r : List Bytes)
    (hs : s.ds = encodeNum b :: encodeNum a :: r)
    (ha : (encodeNum a).length ≤ env.cfg.maxNumLen) (hb : (encodeNum b).length ≤ env.cfg.maxNumLen) :
    binaryNum env s f = (match f a b with
      | .ok z => .ok { s with ds := encodeNum z :: r }
      | .error e => .err e) := by
  unfold binaryNum
  rw [hs]
  simp only [toNum_encodeNum env a ha, toNum_encodeNum env b hb]
  cases f a b <;> rfl

/-- e.g. OP_ADD, OP_SUB, OP_MUL: the sum / difference / product of the two integers, whatever their size -/
theorem add_sub_mul_exact (env : Env) (cur : List POp) (off : Nat) (s : St) (a b : Int) (r : List Bytes)
    (hs : s.ds = encodeNum b :: encodeNum a :: r)
    (ha : (encodeNum a).length ≤ env.cfg.maxNumLen) (hb : (encodeNum b).length ≤ env.cfg.maxNumLen) :
    handler env cur off ⟨0x93, [], 1⟩ s = .ok { s with ds := encodeNum (a + b) :: r } ∧
    handler env cur off ⟨0x94, [], 1⟩ s = .ok { s with ds := encodeNum (a - b) :: r } ∧
    handler env cur off ⟨0x95, [], 1⟩ s = .ok { s with ds := encodeNum (a * b) :: r } := by
  refine ⟨?_, ?_, ?_⟩ <;>
    simp [handler, handlerNum, binary_opcode_on_integers env s _ a b r hs ha hb]

/-! ### non-vacuity / executable spot checks of the numeric layer (exhaustive ranges are run by the driver) -/
example : decodeNum (encodeNum (-255)) = -255 ∧ encodeNum 128 = [0x80, 0x00] ∧ encodeNum (-128) = [0x80, 0x80] ∧
    decodeNum [0xff, 0xff, 0xff, 0xff, 0x80] = -4294967295 ∧ minimallyEncode [0x01, 0x00, 0x80] = [0x81] := by
  decide

/-- **The parser's nesting count is the run-time depth of the conditional stack.**  Scanning for a top-level
    OP_RETURN, the parser adds one for OP_IF / OP_NOTIF and subtracts one for OP_ENDIF — exactly what executing the
    opcode does to the conditional stack (`executeOpcode_cond`), for every opcode byte; in particular the reserved
    words OP_VERIF / OP_VERNOTIF open nothing.  So "top-level" means the same thing to the parser and to the run. -/
theorem parser_depth_is_runtime_depth (b : UInt8) (d : Int) : depthStep b d = d + rtDelta b.toNat := by
  by_cases h63 : b.toNat = 0x63
  · have e := uint8_eq_of_toNat (by decide) h63; subst e
    simp [rtDelta, depthStep, Script.isCondOpen]
  by_cases h64 : b.toNat = 0x64
  · have e := uint8_eq_of_toNat (by decide) h64; subst e
    simp [rtDelta, depthStep, Script.isCondOpen]
  by_cases h68 : b.toNat = 0x68
  · have e := uint8_eq_of_toNat (by decide) h68; subst e
    simp [rtDelta, depthStep, Script.isCondOpen, opENDIF]
    omega
  · have hne : b ≠ opENDIF := by
      intro e; subst e; exact h68 rfl
    have h1 : b ≠ 0x63 := by intro e; subst e; exact h63 rfl
    have h2 : b ≠ 0x64 := by intro e; subst e; exact h64 rfl
    simp [rtDelta, h63, h64, h68, depthStep, hne, Script.isCondOpen, h1, h2]

/-- **Each script has its own alt stack.**  However a script ends — by running to its end or by a top-level OP_RETURN
    after Genesis — the state handed to the next script has an empty alt stack (the node's `EvalScript` keeps the alt
    stack in a local variable).  The code used to skip this on the early-return path (finding F-C05-04):
    `1 TOALTSTACK 1 RETURN | FROMALTSTACK` was accepted. -/
theorem alt_stack_does_not_persist (env : Env) (sidx : Nat) (ops : List POp) (s : St) (tr : List Snap) (s' : St)
    (tr' : List Snap)
    (h : runScript env sidx ops s tr = (.normal s', tr') ∨ runScript env sidx ops s tr = (.byReturn s', tr')) :
    s'.as = [] := by
  unfold runScript at h
  rcases h with h | h <;>
  · split at h
    · simp at h
    · simp at h
    · first
      | (simp only [Prod.mk.injEq, Ended.byReturn.injEq, Ended.normal.injEq, reduceCtorEq, false_and] at h
         try (obtain ⟨h1, _⟩ := h; rw [← h1]))
      | skip
    · split at h
      · simp at h
      · first
        | (simp only [Prod.mk.injEq, Ended.normal.injEq, reduceCtorEq, false_and] at h
           try (obtain ⟨h1, _⟩ := h; rw [← h1]))
        | skip

end GoBT.C05
