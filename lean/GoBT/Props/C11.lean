/-
  C11 — size and fee accounting is exact and the size estimate is an upper bound.
  Model ↔ code: `sizeWithTypes` = Tx.SizeWithTypes, `feesPaid` = Tx.feesPaid, `isFeePaidEnough` =
  Tx.IsFeePaidEnough, `estimatedFinalTx` = Tx.estimatedFinalTx (clone + 107-byte dummy unlocking script,
  the literal being regenerated from the source on every run).
-/
import GoBT.Fee.Model
import GoBT.Props.C01
namespace GoBT.C11
open GoBT GoBT.Fee GoBT.Script

theorem dataBytes_le (outs : List Output) : dataBytes outs ≤ (serOutputs outs).length := by
  induction outs with
  | nil => simp [dataBytes, serOutputs]
  | cons o os ih =>
    simp only [dataBytes, List.map_cons, List.sum_cons, serOutputs, List.flatMap_cons, List.length_append] at ih ⊢
    have : (if isData o.script = true then o.script.length else 0) ≤ (serOutput o).length := by
      simp only [serOutput, List.length_append, leEnc_length]
      split <;> omega
    omega

/-- The size breakdown: total = serialised length = standard + data bytes, and the data bytes are exactly
    the script bytes of the data-carrier outputs. -/
theorem size_partition (tx : Tx) :
    (sizeWithTypes tx).total = (serialize false tx).length ∧
    (sizeWithTypes tx).total = (sizeWithTypes tx).std + (sizeWithTypes tx).data ∧
    (sizeWithTypes tx).data = (tx.outputs.map fun o => if isData o.script then o.script.length else 0).sum := by
  refine ⟨rfl, ?_, rfl⟩
  simp only [sizeWithTypes]
  have h1 := dataBytes_le tx.outputs
  have h2 : (serOutputs tx.outputs).length ≤ (serialize false tx).length := by
    simp only [serialize, List.length_append]; omega
  omega

/-- Script.IsData is "starts with OP_RETURN or OP_FALSE OP_RETURN". -/
theorem isData_iff (s : Bytes) :
    isData s = true ↔ (∃ r, s = 0x6a :: r) ∨ (∃ r, s = 0x00 :: 0x6a :: r) := by
  constructor
  · intro hd
    simp only [isData, Bool.or_eq_true, Bool.and_eq_true, decide_eq_true_eq, beq_iff_eq] at hd
    rcases hd with ⟨_, h0⟩ | ⟨⟨_, h0⟩, h1⟩
    · left
      cases s with
      | nil => simp at h0
      | cons a r => simp [opRETURN] at h0; exact ⟨r, by rw [h0]⟩
    · right
      match s, h0, h1 with
      | a :: b :: r, h0, h1 => simp [opRETURN] at h0 h1; exact ⟨r, by rw [h0, h1]⟩
  · rintro (⟨r, rfl⟩ | ⟨r, rfl⟩) <;> simp [isData, opRETURN]

/-- The fee computed from a quote is floor(standard bytes × standard rate) + floor(data bytes × data rate). -/
theorem feesPaid_def (sz : TxSize) (fq : FeeQuote) :
    feesPaid sz fq = sz.std * fq.stdSat / fq.stdBytes + sz.data * fq.dataSat / fq.dataBytes := rfl

/-- The sufficiency predicate is true exactly when inputs minus outputs reach that amount
    (and false when outputs exceed inputs). -/
theorem isFeePaidEnough_iff (tx : Tx) (fq : FeeQuote) :
    isFeePaidEnough tx fq = true ↔
      totalOut tx ≤ totalIn tx ∧ feesPaid (sizeWithTypes tx) fq ≤ totalIn tx - totalOut tx := by
  unfold isFeePaidEnough
  split
  · next h => constructor
              · intro hf; cases hf
              · intro ⟨h1, _⟩; omega
  · next h => simp only [ge_iff_le, decide_eq_true_eq]; constructor
              · intro hf; exact ⟨by omega, hf⟩
              · intro ⟨_, h2⟩; exact h2

/-- the regenerated dummy unlocking script is 107 bytes long -/
theorem dummy_length : dummyUnlocking.length = 107 := by decide +kernel

/-- what estimatedFinalTx does to one input once it has passed the script checks -/
def padInput (d : Bytes) (i : Input) : Input :=
  if (i.unlocking.getD []).length = 0 then { i with unlocking := some d } else i

theorem estimateInput_ok {i i' : Input} (h : estimateInput i = .ok i') : i' = padInput dummyUnlocking i := by
  unfold estimateInput at h
  split at h
  · cases h
  · split at h
    · cases h
    · split at h
      · cases h
      · split at h
        · next he => cases h; simp [padInput, he]
        · next he => cases h; simp [padInput, he]

theorem estimateInputs_ok {is is' : List Input} (h : estimateInputs is = .ok is') :
    is' = is.map (padInput dummyUnlocking) := by
  induction is generalizing is' with
  | nil => simp [estimateInputs] at h; subst h; rfl
  | cons i is ih =>
    simp only [estimateInputs, bind, Except.bind] at h
    split at h
    · cases h
    · next i' hi =>
      split at h
      · cases h
      · next is'' his =>
        simp only [pure, Except.pure, Except.ok.injEq] at h
        subst h
        rw [estimateInput_ok hi, ih his]; rfl

/-- Estimation reports an error rather than guessing: it fails as soon as some input has no previous
    script or a previous script that is neither P2PKH nor a P2PKH inscription. -/
theorem estimate_errors (i : Input) :
    (i.prevScript = none → estimateInput i = .error .emptyPrevScript) ∧
    (∀ ps, i.prevScript = some ps → isP2PKH ps = false → isP2PKHInscription ps = some false →
        estimateInput i = .error .unsupportedScript) := by
  constructor
  · intro h; simp [estimateInput, h]
  · intro ps h h1 h2; simp [estimateInput, h, h1, h2]

theorem estimateInputs_error_mem {is : List Input} {e : Err} (i : Input) (hi : i ∈ is)
    (he : estimateInput i = .error e) : ∃ e', estimateInputs is = .error e' := by
  induction is with
  | nil => cases hi
  | cons j js ih =>
    simp only [estimateInputs, bind, Except.bind]
    cases hj : estimateInput j with
    | error e1 => exact ⟨e1, rfl⟩
    | ok j' =>
      simp only [List.mem_cons] at hi
      rcases hi with rfl | hi
      · rw [he] at hj; cases hj
      · obtain ⟨e', he'⟩ := ih hi
        exact ⟨e', by simp [he']⟩

private theorem serOpt_len_mono {a b : Option Bytes} (h : optLen a ≤ optLen b) :
    (serOptScript a).length ≤ (serOptScript b).length := by
  rw [C01.serOptScript_getD_eq a, C01.serOptScript_getD_eq b]
  simp only [List.length_append, varintEnc_length]
  have := varintLen_mono h
  simp only [optLen] at h
  omega

/-- The size estimated for a not-yet-signed transaction is never smaller than its real size once every
    empty unlocking script has been filled with a script of at most 107 bytes (which is what the library's
    signer produces: DER signature ≤ 72 bytes + hash type, compressed 33-byte key, two push opcodes). -/
theorem estimate_ge_signed (tx : Tx) (hwf : tx.wf) (hamb : ¬ tx.ambiguous) (est : Tx)
    (he : estimatedFinalTx tx = .ok est) (sig : Input → Bytes) (hsig : ∀ i, (sig i).length ≤ 107) :
    (serialize false { tx with inputs := tx.inputs.map fun i => padInput (sig i) i }).length ≤
      (sizeWithTypes est).total := by
  unfold estimatedFinalTx at he
  rw [C01.clone_eq tx hwf hamb] at he
  simp only [bind, Except.bind] at he
  split at he
  · cases he
  · next ins hins =>
    simp only [pure, Except.pure, Except.ok.injEq] at he
    subst he
    rw [estimateInputs_ok hins]
    simp only [sizeWithTypes, serialize, C01.cloneNorm, List.length_append, List.length_map, Bool.false_eq_true,
      ↓reduceIte]
    have key : ∀ is : List Input,
        (serInputs false (is.map fun i => padInput (sig i) i)).length ≤
        (serInputs false ((is.map fun i => { i with unlocking := some (i.unlocking.getD []) }).map
          (padInput dummyUnlocking))).length := by
      intro is
      induction is with
      | nil => simp [serInputs]
      | cons i is ih =>
        simp only [serInputs, List.map_cons, List.flatMap_cons, List.length_append] at ih ⊢
        have h1 : (serInputF false (padInput (sig i) i)).length ≤
            (serInputF false (padInput dummyUnlocking { i with unlocking := some (i.unlocking.getD []) })).length := by
          simp only [serInputF, Bool.false_eq_true, ↓reduceIte, serInput, List.length_append, padInput]
          have hd := dummy_length
          have hs := hsig i
          by_cases hz : (i.unlocking.getD []).length = 0
          · simp only [hz, ↓reduceIte, Option.getD_some]
            have := @serOpt_len_mono (some (sig i)) (some dummyUnlocking) (by simp [optLen]; omega)
            omega
          · simp only [hz, ↓reduceIte, Option.getD_some]
            have := @serOpt_len_mono i.unlocking (some (i.unlocking.getD [])) (by simp [optLen])
            omega
        omega
    have := key tx.inputs
    omega

/-! ### non-vacuity -/
example : ∃ tx est, tx.wf ∧ ¬ tx.ambiguous ∧ estimatedFinalTx tx = .ok est := by
  refine ⟨{ version := 1, lockTime := 0, outputs := [],
            inputs := [ { prevTxID := List.replicate 32 1, vout := 0, unlocking := none, sequence := 0,
                          prevSats := 10,
                          prevScript := some ([0x76, 0xa9, 0x14] ++ List.replicate 20 7 ++ [0x88, 0xac]) } ] },
          _, ?_, ?_, rfl⟩
  · simp [-List.reduceReplicate, Tx.wf, Input.wf, Output.wf, optLen]
  · simp [Tx.ambiguous]

end GoBT.C11
