/-
  C20 — the ordinals sale / bid flows protect seller and buyer; inscriptions round-trip.

  The flows' transaction assembly is modelled in GoBT/Ord/Model.lean (tied to ord/*.go by the correspondence check,
  which also runs every input of every completed transaction through the interpreter model and the real
  interpreter).  Proved here, for every listing, UTXO set, script and fee quote:
    * `acceptListing_layout` / `acceptListing2D_layout` — where the seller's input and output, the buyer's
      1-satoshi output and the dummy output end up;
    * `seller_signature_survives(_2D)` — the digest the seller's SINGLE|ANYONECANPAY|FORKID signature was made over
      in the one-input listing is the digest of the completed transaction at the seller's new index, so the
      signature still verifies and still pays exactly the requested output;
    * `ordinal_goes_to_buyer(_2D)` — under first-in-first-out satoshi ordering the first satoshi of the listed
      output lands in the buyer's output;
    * `completed_flow_pays_estimated_fee` — a completed flow's transaction passes the fee-quote test on its
      estimated final form (C11.estimate_ge_signed relates that to the signed size);
    * `specific_ordinal_lands_in_inscription` — InscribeSpecificOrdinal puts the chosen satoshi in the inscription;
    * `seller_input_accepted_in_completed_listing` — end to end: a seller's signature that verified for the one-input
      listing makes the interpreter model accept the seller's input of the completed transaction (layout + digest
      survival + `sigDigest` = specification + the P2PKH acceptance theorem of C04).
-/
import GoBT.Ord.Model
import GoBT.Props.C02
import GoBT.Props.C10
import GoBT.Props.C20Insc
import GoBT.Props.C04
import GoBT.Interp.SigDigest
import GoBT.Props.C14
import GoBT.Script.WriteReviewLib
import GoBT.Script.SliceHeap
namespace GoBT.C20
open GoBT GoBT.Fee GoBT.Ord GoBT.Sighash

def mkIn (u : UTXO) : Input :=
  { prevTxID := u.txid, vout := u.vout, unlocking := none, sequence := 0xFFFFFFFF, prevSats := u.sats, prevScript := u.script }

theorem fromUTXOs_ok (tx t : Tx) (us : List UTXO) (h : fromUTXOs tx us = (t, true)) :
    t.inputs = tx.inputs ++ us.map mkIn ∧ t.outputs = tx.outputs ∧ t.version = tx.version ∧ t.lockTime = tx.lockTime := by
  induction us generalizing tx with
  | nil => simp only [fromUTXOs, Prod.mk.injEq, and_true] at h; subst h; simp
  | cons u us ih =>
    simp only [fromUTXOs] at h
    split at h
    · simp at h
    · obtain ⟨h1, h2, h3, h4⟩ := ih _ h
      refine ⟨?_, h2, h3, h4⟩
      simp only [h1, List.map_cons, List.append_assoc, List.singleton_append, mkIn]

theorem addInputs_ok (tx t : Tx) (us : List UTXO) (h : addInputs tx us = .ok t) :
    t.inputs = tx.inputs ++ us.map mkIn ∧ t.outputs = tx.outputs ∧ t.version = tx.version ∧ t.lockTime = tx.lockTime := by
  unfold addInputs at h
  split at h
  · next t' heq => cases h; exact fromUTXOs_ok _ _ _ heq
  · cases h

/-- the change step keeps inputs, version, locktime and every existing output; it may append one output -/
theorem withChange_ok (tx t : Tx) (fq : FeeQuote) (chg : Bytes) (h : withChange tx fq chg = .ok t) :
    t.inputs = tx.inputs ∧ t.version = tx.version ∧ t.lockTime = tx.lockTime ∧
    (t.outputs = tx.outputs ∨ ∃ amt, t.outputs = tx.outputs ++ [{ sats := amt, script := chg }]) ∧
    estimateIsFeePaidEnough t fq = .ok true := by
  unfold withChange at h
  split at h
  · next t' added hc =>
    split at h
    · cases h
    · next hfee =>
      cases h
      unfold change at hc
      simp only at hc
      obtain ⟨h1, h2, h3, h4, h5, _⟩ := C10.change_preserves tx fq (.newOutput chg) _ t added hc
      refine ⟨h1, h2, h3, ?_, hfee⟩
      cases added with
      | false => left; rw [h4 rfl]
      | true =>
        right
        obtain ⟨amt, ha⟩ := h5 rfl
        exact ⟨amt, by rw [ha]; rfl⟩
    · cases h
  · cases h

/-- **Layout of a completed standard listing acceptance.**  `u0` is the funding output that was moved to the
    front (the first one larger than the price). -/
theorem acceptListing_layout (pstx tx : Tx) (listed : UTXO) (utxos : List UTXO) (buyer dummy chg : Bytes) (fq : FeeQuote)
    (h : acceptListing pstx listed utxos buyer dummy chg fq = .ok tx) :
    ∃ sin sout u0 rest, pstx.inputs = [sin] ∧ pstx.outputs = [sout] ∧ pick sout.sats utxos = some (u0, rest) ∧
      tx.inputs = mkIn u0 :: sin :: rest.map mkIn ∧
      (∃ tail, tx.outputs = { sats := u0.sats - sout.sats, script := dummy } :: sout :: { sats := 1, script := buyer } :: tail) ∧
      tx.version = 1 ∧ tx.lockTime = 0 ∧ estimateIsFeePaidEnough tx fq = .ok true := by
  unfold acceptListing at h
  split at h
  · cases h
  · split at h
    · next sin sout hin hout =>
      split at h
      · cases h
      · split at h
        · cases h
        · next u0 rest hp =>
          simp only [bind, Except.bind] at h
          split at h
          · cases h
          · next t1 h1 =>
            split at h
            · cases h
            · next t2 h2 =>
              obtain ⟨a1, a2, a3, a4⟩ := addInputs_ok _ _ _ h1
              obtain ⟨b1, b2, b3, b4⟩ := addInputs_ok _ _ _ h2
              obtain ⟨c1, c2, c3, c4, c5⟩ := withChange_ok _ _ _ _ h
              refine ⟨sin, sout, u0, rest, hin, hout, hp, ?_, ?_, ?_, ?_, c5⟩
              · rw [c1]; simp only [b1, a1, newTx]; simp
              · rcases c4 with c4 | ⟨amt, c4⟩
                · exact ⟨[], by rw [c4]⟩
                · exact ⟨[_], by rw [c4]; rfl⟩
              · rw [c2]; simp only [b3, a3, newTx]
              · rw [c3]; simp only [b4, a4, newTx]
    · cases h

/-- `pick` returns an output worth more than the price -/
theorem pick_gt (p : Nat) (us : List UTXO) (u : UTXO) (r : List UTXO) (h : pick p us = some (u, r)) : u.sats > p := by
  induction us generalizing r with
  | nil => simp [pick] at h
  | cons v vs ih =>
    simp only [pick] at h
    split at h
    · next hgt => cases h; exact hgt
    · simp only [Option.map_eq_some_iff] at h
      obtain ⟨⟨w, r'⟩, hw, he⟩ := h
      cases he
      exact ih _ hw

/-- **The seller's signature survives the re-indexing.**  The seller signed input 0 of the listing with
    SINGLE|ANYONECANPAY|FORKID (0xC3); in the completed transaction the same input sits at index 1 and the same
    output at index 1, and the digest is the same — for any script code and spent value. -/
theorem seller_signature_survives (H : Hash) (pstx tx : Tx) (listed : UTXO) (utxos : List UTXO)
    (buyer dummy chg : Bytes) (fq : FeeQuote) (sc : Bytes) (amt : Nat)
    (hv : pstx.version = 1) (hl : pstx.lockTime = 0)
    (h : acceptListing pstx listed utxos buyer dummy chg fq = .ok tx) :
    bip143Spec H tx 1 0xC3 sc amt = bip143Spec H pstx 0 0xC3 sc amt := by
  obtain ⟨sin, sout, u0, rest, hin, hout, _, hti, ⟨tail, hto⟩, htv, htl, _⟩ :=
    acceptListing_layout pstx tx listed utxos buyer dummy chg fq h
  apply C02.anyonecanpay_independent H tx pstx 1 0 0xC3 sc amt (by decide) (by rw [htv, hv]) (by rw [htl, hl])
  · simp [hti, hin]
  · simp [hto, hout]

/-- **The seller's input of a completed listing is accepted by the interpreter** — end to end.  The seller listed a P2PKH
    output (paying `h`, worth `amt`) and signed input 0 of the one-input listing `pstx` with SINGLE|ANYONECANPAY|FORKID; if
    that signature `sig` verifies under `pk` for the listing's digest (which is what the library's signing path produced),
    then in *every* completed transaction `tx` that `AcceptOrdinalSaleListing` builds from it — whatever the buyer's funding
    outputs, scripts and fee quote — `Engine.Execute` accepts input 1 (the seller's input at its new index) against the
    listed output, for every flag word with the FORKID flag. -/
theorem seller_input_accepted_in_completed_listing (H : Interp.Crypto) (flags : Nat)
    (pstx tx : Tx) (listed : UTXO) (utxos : List UTXO) (buyer dummy chg : Bytes) (fq : FeeQuote)
    (sig pk h : Bytes) (amt : Nat)
    (hv : pstx.version = 1) (hl : pstx.lockTime = 0)
    (hacc : acceptListing pstx listed utxos buyer dummy chg fq = .ok tx)
    (htxid : ∀ sin, pstx.inputs = [sin] → sin.prevTxID.length ≠ 0)
    (hH : ∀ b, (H.sha256 (H.sha256 b)).length = 32)
    (hs : 1 ≤ sig.length ∧ sig.length ≤ 74) (hp : 2 ≤ pk.length ∧ pk.length ≤ 75) (hh : h.length = 20)
    (hkey : H.ripemd160 (H.sha256 pk) = h)
    (c : Interp.Ctx) (hc : c = ⟨tx, 1, { sats := amt, script := Interp.P2PKH.lockBytes h }⟩)
    (hflags : Interp.hasFlag (Interp.mkEnv H flags (some c)).flags Interp.fCleanStack = true →
              Interp.hasFlag (Interp.mkEnv H flags (some c)).flags Interp.fBip16 = true)
    (hfork : Interp.hasFlag (Interp.mkEnv H flags (some c)).flags Interp.fForkID = true)
    (hht : Interp.checkHashTypeEncoding (Interp.mkEnv H flags (some c)) 0xC3 = none)
    (hse : Interp.checkSignatureEncoding (Interp.mkEnv H flags (some c)) sig = none)
    (hpe : Interp.checkPubKeyEncoding (Interp.mkEnv H flags (some c)) pk = none)
    (hpk : H.pubKeyOk pk = true)
    (hver : H.verify (Interp.hasFlag (Interp.mkEnv H flags (some c)).flags Interp.fStrictEnc ||
                      Interp.hasFlag (Interp.mkEnv H flags (some c)).flags Interp.fDERSig) sig
              (H.sha256 (H.sha256 (bip143Spec (fun b => H.sha256 (H.sha256 b)) pstx 0 0xC3 (Interp.P2PKH.lockBytes h) amt)))
              pk = some true) :
    (Interp.execute H flags (some c) (Interp.P2PKH.unlockBytes (sig ++ [0xC3]) pk) (Interp.P2PKH.lockBytes h)).1 = .accept := by
  obtain ⟨sin, sout, u0, rest, hin, hout, _, hti, _, _, _, _⟩ :=
    acceptListing_layout pstx tx listed utxos buyer dummy chg fq hacc
  have hlast : ((sig ++ [0xC3]).getLast?.getD 0).toNat = 0xC3 := by simp
  have hdrop : (sig ++ [0xC3]).dropLast = sig := by simp
  have hsurv := seller_signature_survives (fun b => H.sha256 (H.sha256 b)) pstx tx listed utxos buyer dummy chg fq
    (Interp.P2PKH.lockBytes h) amt hv hl hacc
  have henvH : (Interp.mkEnv H flags (some c)).H = H := by unfold Interp.mkEnv; rfl
  have hidx : c.tx.inputs[c.idx]? = some sin := by subst hc; simp [hti]
  have hdig := Interp.sigDigest_forkid (Interp.mkEnv H flags (some c)) c (Interp.P2PKH.lockBytes h) 0xC3 sin
    (by rw [henvH]; exact hH) hidx (htxid sin hin) (by decide)
  rw [henvH] at hdig
  have hspec : bip143Spec (fun b => H.sha256 (H.sha256 b)) c.tx c.idx 0xC3 (Interp.P2PKH.lockBytes h) c.prevOut.sats =
      bip143Spec (fun b => H.sha256 (H.sha256 b)) pstx 0 0xC3 (Interp.P2PKH.lockBytes h) amt := by
    subst hc; exact hsurv
  rw [hspec] at hdig
  exact C04.p2pkh_forkid_signature_accepted H flags c (sig ++ [0xC3]) pk h _ hflags hfork (by rw [hlast]; decide)
    (by simp only [List.length_append, List.length_cons, List.length_nil]; omega) hp hh hkey
    (by rw [hlast]; exact hht) (by rw [hdrop]; exact hse) hpe (by rw [hlast]; exact hdig) hpk (by rw [hdrop]; exact hver)

/-- **An inscribed output is recognised as such.**  The locking script `Tx.Inscribe` builds on the P2PKH template for a
    20-byte hash — any content type, any payload — is classified `pubkeyhashinscription` by `ScriptType` (and so by the
    node-JSON rendering). -/
theorem inscribed_output_is_classified (h ct data lock : Bytes) (hh : h.length = 20)
    (hl : inscriptionScript (Interp.P2PKH.lockBytes h) ct data = some lock) :
    Script.scriptType lock = some .inscription := by
  -- the three pushes succeeded, so the lengths are below 2^32
  have lim : ∀ (d : Bytes) pre, Script.pushPrefix d.length = some pre → d.length < 2 ^ 32 := by
    intro d pre hp
    unfold Script.pushPrefix at hp
    by_cases a1 : d.length ≤ 75
    · omega
    · by_cases a2 : d.length ≤ 0xFF
      · omega
      · by_cases a3 : d.length ≤ 0xFFFF
        · omega
        · by_cases a4 : d.length ≤ 0xFFFFFFFF
          · omega
          · simp [a1, a2, a3, a4] at hp
  unfold inscriptionScript pushData at hl
  simp only [bind, Option.bind, pure, List.length_cons, List.length_nil, Nat.zero_add, Nat.reduceAdd] at hl
  cases ho : Script.pushPrefix 3 with
  | none => simp [ho] at hl
  | some po =>
    cases hc : Script.pushPrefix ct.length with
    | none => simp [ho, hc] at hl
    | some pc =>
      cases hd : Script.pushPrefix data.length with
      | none => simp [ho, hc, hd] at hl
      | some pd =>
        simp only [ho, hc, hd, Option.map_some, Option.some.injEq] at hl
        obtain ⟨s, hs, hty⟩ := C14.inscription_template_classified h ct data hh (lim ct pc hc) (lim data pd hd)
        have item : ∀ (d : Bytes) pre, Script.pushPrefix d.length = some pre → (C14.itemTok d).enc = some (pre ++ d) := by
          intro d pre hp
          unfold C14.itemTok
          split
          · next h0 =>
            have : d = [] := List.length_eq_zero_iff.mp h0
            subst this
            simp only [List.length_nil, Script.pushPrefix, Nat.zero_le, ↓reduceIte, Option.some.injEq] at hp
            rw [← hp]; rfl
          · simp [C13.Tok.enc, hp]
        have hpo : po = [0x03] := by
          simp only [Script.pushPrefix, show (3 : Nat) ≤ 75 from by decide, ↓reduceIte, Option.some.injEq] at ho
          exact ho.symm
        have hph : Script.pushPrefix h.length = some [UInt8.ofNat h.length] := by
          simp [Script.pushPrefix, hh]
        have henc := C14.encToks_of_encs
          [.op Script.opDUP, .op Script.opHASH160, .push h, .op Script.opEQUALVERIFY, .op Script.opCHECKSIG, .op 0x00,
            .op Script.opIF, .push [0x6f, 0x72, 0x64], .op Script.opTRUE, C14.itemTok ct, .op 0x00, C14.itemTok data,
            .op Script.opENDIFc]
          [[Script.opDUP], [Script.opHASH160], [UInt8.ofNat h.length] ++ h, [Script.opEQUALVERIFY], [Script.opCHECKSIG], [0x00],
            [Script.opIF], [0x03] ++ [0x6f, 0x72, 0x64], [Script.opTRUE], pc ++ ct, [0x00], pd ++ data, [Script.opENDIFc]]
          (by
            simp only [List.map_cons, List.map_nil, item ct pc hc, item data pd hd]
            simp only [C13.Tok.enc, hph, Option.map_some,
              show Script.pushPrefix ([0x6f, 0x72, 0x64] : Bytes).length = some [0x03] from by simp [Script.pushPrefix]])
        have : s = lock := by
          rw [henc] at hs
          simp only [Option.some.injEq] at hs
          rw [← hs, ← hl, hpo]
          simp [Interp.P2PKH.lockBytes, Script.opDUP, Script.opHASH160, Script.opEQUALVERIFY, Script.opCHECKSIG, Script.opIF,
            Script.opTRUE, Script.opENDIFc, hh]
        rw [← this]
        exact hty

/-! ### first-in-first-out routing -/

/-- **The ordinal goes to the buyer** (standard listing): the satoshi at the start of the seller's input — position
    `u0.sats` of the concatenated input value — is received by output 2, which pays the buyer's script. -/
theorem ordinal_goes_to_buyer (pstx tx : Tx) (listed : UTXO) (utxos : List UTXO) (buyer dummy chg : Bytes) (fq : FeeQuote)
    (h : acceptListing pstx listed utxos buyer dummy chg fq = .ok tx) :
    satOwner tx.outputs (satOffset tx.inputs 1) 0 = some 2 ∧ (tx.outputs[2]?.map (·.script)) = some buyer := by
  obtain ⟨sin, sout, u0, rest, hin, hout, hp, hti, ⟨tail, hto⟩, _, _, _⟩ :=
    acceptListing_layout pstx tx listed utxos buyer dummy chg fq h
  have hgt := pick_gt _ _ _ _ hp
  refine ⟨?_, by simp [hto]⟩
  simp only [hti, hto, satOffset, List.take_succ_cons, List.take_zero, List.map_cons, List.map_nil, List.sum_cons,
    List.sum_nil, Nat.add_zero, mkIn, satOwner]
  have e1 : ¬ u0.sats < u0.sats - sout.sats := by omega
  have e2 : ¬ u0.sats - (u0.sats - sout.sats) < sout.sats := by omega
  have e3 : u0.sats - (u0.sats - sout.sats) - sout.sats < 1 := by omega
  simp [e1, e2, e3]

/-! ### two-dummy variant -/

theorem acceptListing2D_layout (pstx tx : Tx) (listed : UTXO) (utxos : List UTXO) (buyer dummy chg : Bytes) (fq : FeeQuote)
    (h : acceptListing2D pstx listed utxos buyer dummy chg fq = .ok tx) :
    ∃ sin sout d0 d1 pay, pstx.inputs = [sin] ∧ pstx.outputs = [sout] ∧ utxos = d0 :: d1 :: pay ∧ pay ≠ [] ∧
      tx.inputs = mkIn d0 :: mkIn d1 :: sin :: pay.map mkIn ∧
      (∃ tail, tx.outputs = { sats := (d0.sats + d1.sats) % 2 ^ 64, script := dummy } :: { sats := 1, script := buyer } :: sout :: tail) ∧
      tx.version = 1 ∧ tx.lockTime = 0 ∧ estimateIsFeePaidEnough tx fq = .ok true := by
  unfold acceptListing2D at h
  split at h
  · cases h
  · split at h
    · next sin sout hin hout =>
      split at h
      · next d0 d1 pay more =>
        simp only [bind, Except.bind] at h
        split at h
        · cases h
        · next t1 h1 =>
          split at h
          · cases h
          · next t2 h2 =>
            obtain ⟨a1, a2, a3, a4⟩ := addInputs_ok _ _ _ h1
            obtain ⟨b1, b2, b3, b4⟩ := addInputs_ok _ _ _ h2
            obtain ⟨c1, c2, c3, c4, c5⟩ := withChange_ok _ _ _ _ h
            refine ⟨sin, sout, d0, d1, pay :: more, hin, hout, rfl, by simp, ?_, ?_, ?_, ?_, c5⟩
            · rw [c1]; simp only [b1, a1, newTx]; simp
            · rcases c4 with c4 | ⟨amt, c4⟩
              · exact ⟨[], by rw [c4]⟩
              · exact ⟨[_], by rw [c4]; rfl⟩
            · rw [c2]; simp only [b3, a3, newTx]
            · rw [c3]; simp only [b4, a4, newTx]
      · cases h
    · cases h

theorem seller_signature_survives_2D (H : Hash) (pstx tx : Tx) (listed : UTXO) (utxos : List UTXO)
    (buyer dummy chg : Bytes) (fq : FeeQuote) (sc : Bytes) (amt : Nat)
    (hv : pstx.version = 1) (hl : pstx.lockTime = 0)
    (h : acceptListing2D pstx listed utxos buyer dummy chg fq = .ok tx) :
    bip143Spec H tx 2 0xC3 sc amt = bip143Spec H pstx 0 0xC3 sc amt := by
  obtain ⟨sin, sout, d0, d1, pay, hin, hout, _, _, hti, ⟨tail, hto⟩, htv, htl, _⟩ :=
    acceptListing2D_layout pstx tx listed utxos buyer dummy chg fq h
  apply C02.anyonecanpay_independent H tx pstx 2 0 0xC3 sc amt (by decide) (by rw [htv, hv]) (by rw [htl, hl])
  · simp [hti, hin]
  · simp [hto, hout]

/-- two-dummy listing: the dummies pass through output 0 and the ordinal's first satoshi lands in output 1
    (values below 2^64, as on chain) -/
theorem ordinal_goes_to_buyer_2D (pstx tx : Tx) (listed : UTXO) (utxos : List UTXO) (buyer dummy chg : Bytes) (fq : FeeQuote)
    (hsum : ∀ d0 d1 r, utxos = d0 :: d1 :: r → d0.sats + d1.sats < 2 ^ 64)
    (h : acceptListing2D pstx listed utxos buyer dummy chg fq = .ok tx) :
    satOwner tx.outputs (satOffset tx.inputs 2) 0 = some 1 ∧ (tx.outputs[1]?.map (·.script)) = some buyer := by
  obtain ⟨sin, sout, d0, d1, pay, hin, hout, hu, _, hti, ⟨tail, hto⟩, _, _, _⟩ :=
    acceptListing2D_layout pstx tx listed utxos buyer dummy chg fq h
  have hlt := hsum d0 d1 pay hu
  refine ⟨?_, by simp [hto]⟩
  simp only [hti, hto, satOffset, List.take_succ_cons, List.take_zero, List.map_cons, List.map_nil, List.sum_cons,
    List.sum_nil, Nat.add_zero, mkIn, satOwner, Nat.mod_eq_of_lt hlt]
  simp

/-- **Fee.**  Every completed listing acceptance passes the fee-quote test on its estimated final form
    (unsigned inputs padded with a 107-byte unlocking script). -/
theorem completed_flow_pays_estimated_fee (pstx tx : Tx) (listed : UTXO) (utxos : List UTXO) (buyer dummy chg : Bytes)
    (fq : FeeQuote)
    (h : acceptListing pstx listed utxos buyer dummy chg fq = .ok tx ∨ acceptListing2D pstx listed utxos buyer dummy chg fq = .ok tx) :
    estimateIsFeePaidEnough tx fq = .ok true := by
  rcases h with h | h
  · obtain ⟨_, _, _, _, _, _, _, _, _, _, _, hf⟩ := acceptListing_layout pstx tx listed utxos buyer dummy chg fq h
    exact hf
  · obtain ⟨_, _, _, _, _, _, _, _, _, _, _, _, _, hf⟩ := acceptListing2D_layout pstx tx listed utxos buyer dummy chg fq h
    exact hf

/-- **InscribeSpecificOrdinal**: the chosen satoshi — offset `sat` inside input `idx` — is received by the
    inscription output (index 1), whenever that satoshi exists and values stay below 2^64. -/
theorem specific_ordinal_lands_in_inscription (tx t : Tx) (idx sat : Nat) (extra pre ct data : Bytes)
    (hlt : satOffset tx.inputs idx + sat < 2 ^ 64)
    (h : inscribeSpecific tx idx sat extra pre ct data = .ok t) :
    satOwner t.outputs (satOffset tx.inputs idx + sat) 0 = some 1 ∧
    (t.outputs[1]?.map (·.script)) = inscriptionScript pre ct data := by
  unfold inscribeSpecific at h
  split at h
  · cases h
  · next amount hr =>
    split at h
    · cases h
    · split at h
      · cases h
      · next s hs =>
        cases h
        unfold rangeAbove at hr
        split at hr
        · cases hr
        · split at hr
          · cases hr
          · cases hr
            simp only [satOffset] at hlt ⊢
            simp only [Nat.mod_eq_of_lt hlt, satOwner, hs]
            simp

/-! ### bid flow -/

/-- layout of the bidder's partially signed transaction -/
theorem makeBid_layout (bid : Nat) (ordTxid : Bytes) (ordVout : Nat) (utxos : List UTXO) (buyer dummy chg : Bytes)
    (fq : FeeQuote) (placeholder funny : Bytes) (tx : Tx)
    (h : makeBid bid ordTxid ordVout utxos buyer dummy chg fq placeholder funny = .ok tx) :
    ∃ u0 rest, pick bid utxos = some (u0, rest) ∧
      tx.inputs = mkIn u0 :: emptyOrdInput ordTxid ordVout placeholder :: rest.map mkIn ∧
      (∃ tail, tx.outputs = { sats := u0.sats - bid, script := dummy } :: { sats := bid, script := funny } ::
          { sats := 1, script := buyer } :: tail) ∧
      estimateIsFeePaidEnough tx fq = .ok true := by
  unfold makeBid at h
  split at h
  · cases h
  · split at h
    · cases h
    · next u0 rest hp =>
      simp only [bind, Except.bind] at h
      split at h
      · cases h
      · next t1 h1 =>
        split at h
        · cases h
        · split at h
          · cases h
          · next t2 h2 =>
            obtain ⟨a1, a2, a3, a4⟩ := addInputs_ok _ _ _ h1
            obtain ⟨b1, b2, b3, b4⟩ := addInputs_ok _ _ _ h2
            obtain ⟨c1, c2, c3, c4, c5⟩ := withChange_ok _ _ _ _ h
            refine ⟨u0, rest, hp, ?_, ?_, c5⟩
            · rw [c1]; simp only [b1, a1, newTx]; simp
            · rcases c4 with c4 | ⟨amt, c4⟩
              · exact ⟨[], by rw [c4]⟩
              · exact ⟨[_], by rw [c4]; rfl⟩

/-- in a bid, too, the first satoshi of the ordinal input (which follows the bidder's first input) is received by
    output 2, the buyer's; the seller's payment is output 1 -/
theorem bid_ordinal_goes_to_buyer (bid : Nat) (ordTxid : Bytes) (ordVout : Nat) (utxos : List UTXO) (buyer dummy chg : Bytes)
    (fq : FeeQuote) (placeholder funny : Bytes) (tx : Tx)
    (h : makeBid bid ordTxid ordVout utxos buyer dummy chg fq placeholder funny = .ok tx) :
    satOwner tx.outputs (satOffset tx.inputs 1) 0 = some 2 ∧ (tx.outputs[2]?.map (·.script)) = some buyer ∧
    (tx.outputs[1]?.map (·.sats)) = some bid := by
  obtain ⟨u0, rest, hp, hti, ⟨tail, hto⟩, _⟩ := makeBid_layout _ _ _ _ _ _ _ _ _ _ _ h
  have hgt := pick_gt _ _ _ _ hp
  refine ⟨?_, by simp [hto], by simp [hto]⟩
  simp only [hti, hto, satOffset, List.take_succ_cons, List.take_zero, List.map_cons, List.map_nil, List.sum_cons,
    List.sum_nil, Nat.add_zero, mkIn, satOwner]
  have e1 : ¬ u0.sats < u0.sats - bid := by omega
  have e2 : ¬ u0.sats - (u0.sats - bid) < bid := by omega
  have e3 : u0.sats - (u0.sats - bid) - bid < 1 := by omega
  simp [e1, e2, e3]

/-- **Inscription round trip** (proved in GoBT/Props/C20Insc.lean): for every 20-byte key hash, content type and
    payload below 2^32 bytes — the empty ones included — the script Tx.Inscribe builds on the P2PKH prefix parses
    back to exactly that prefix, content type and payload. -/
theorem inscribe_parse_round_trip (h ct data : Bytes) (hh : h.length = 20) (hct : ct.length < 2 ^ 32)
    (hd : data.length < 2 ^ 32) :
    ∃ s, inscriptionScript (p2pkh h) ct data = some s ∧
      Script.parseInscription s = some (.ok (p2pkh h) ct data) :=
  inscription_round_trip h ct data hh hct hd

/-! ### non-vacuity: a concrete listing and acceptance -/
def sampleOrd : UTXO := { txid := List.replicate 32 7, vout := 0, script := some [0x51], sats := 1 }
def sampleFq : FeeQuote := { stdSat := 1, stdBytes := 2, dataSat := 1, dataBytes := 2 }
def p2pkhT : Bytes := [0x76, 0xa9, 0x14] ++ List.replicate 20 1 ++ [0x88, 0xac]
def samplePstx : Tx :=
  { version := 1, lockTime := 0, inputs := [{ mkIn { sampleOrd with script := some p2pkhT } with unlocking := some (List.replicate 106 9) }],
    outputs := [{ sats := 1000, script := p2pkhT }] }
def sampleUtxos : List UTXO :=
  [{ txid := List.replicate 32 1, vout := 0, script := some p2pkhT, sats := 500 },
   { txid := List.replicate 32 2, vout := 1, script := some p2pkhT, sats := 5000 },
   { txid := List.replicate 32 3, vout := 2, script := some p2pkhT, sats := 900 }]

example : (acceptListing samplePstx sampleOrd sampleUtxos p2pkhT p2pkhT p2pkhT sampleFq).toOption.isSome = true := by
  decide +kernel

/-- Regenerated fact (go/ssa write-site table of packages bt and bscript, `Gen/WritesLib.lean`): in the inscription routines every
    store, `copy`, `append` and every call that writes through a parameter or a `*Script` targets a buffer allocated in the
    same function (or is a reviewed part of the function's contract), and every byte slice handed to another package
    goes to a reviewed read-only function (GoBT/Script/WriteReviewLib.lean).  Code that appends to or writes into a
    slice it was handed — a previous-output script, a caller's hash, a destination's old buffer — adds a row with a
    `param:` / `field:` / `deref:` origin and breaks this obligation. -/
theorem lib_writes_only_fresh_buffers : GoBT.Script.WriteReviewLib.writesOkFor "C20" = true := by decide +kernel

/-- `Tx.Inscribe` on Go's slice semantics (GoBT/Script/SliceHeap.lean: slices are windows into backing arrays, `append`
    writes into spare capacity when the result fits).  For every heap and every well-formed prefix slice — whatever its
    spare capacity and whatever else lives in its array — copying the prefix and then making the run of appends that
    `Inscribe` makes yields a script that reads exactly as the value model's `inscriptionScript`, and every slice the
    caller held before (the prefix's own array included: the script a parsed prefix was cut from) reads as before.
    This is the statement finding F-C20-04 violated (`SliceHeap.header_copy_clobbers` is the witness for the
    header-only copy); the regenerated obligation `lib_writes_only_fresh_buffers` checks that the code still copies. -/
theorem inscribe_leaves_caller_memory_alone (h : SliceHeap.Heap UInt8) (p : SliceHeap.Slice) (wf : p.WF h)
    (ct data s : Bytes) (hs : Ord.inscriptionScript (h.read p) ct data = some s) :
    ∃ run : List Bytes,
      (SliceHeap.copyThenAppends h p run).1.read (SliceHeap.copyThenAppends h p run).2 = s ∧
      ∀ t : SliceHeap.Slice, t.WF h → (SliceHeap.copyThenAppends h p run).1.read t = h.read t := by
  unfold Ord.inscriptionScript at hs
  cases ho : Ord.pushData [0x6f, 0x72, 0x64] with
  | none => simp [ho] at hs
  | some o =>
    cases hc : Ord.pushData ct with
    | none => simp [ho, hc] at hs
    | some c =>
      cases hd : Ord.pushData data with
      | none => simp [ho, hc, hd] at hs
      | some d =>
        simp [ho, hc, hd] at hs
        refine ⟨[[0x00, 0x63], o, [0x51], c, [0x00], d, [0x68]], ?_, fun t wt => SliceHeap.copyThenAppends_preserves_read h p t _ wf wt⟩
        rw [SliceHeap.copyThenAppends_read h p _ wf, ← hs]
        simp [List.append_assoc]

/-! ### the validation gates (ValidateListingArgs / ValidateBidArgs / ValidateBid2DArgs .Validate) -/


/-- **Listing gate**: an offer passes `ValidateListingArgs.Validate` only if it has exactly one input and one output
    and that input spends exactly the listed outpoint. -/
theorem listing_gate_protects_outpoint (pstx : Tx) (listed : UTXO) (h : validateListing pstx listed = true) :
    ∃ i o, pstx.inputs = [i] ∧ pstx.outputs = [o] ∧ i.prevTxID = listed.txid ∧ i.vout = listed.vout := by
  unfold validateListing at h
  simp only [Bool.and_eq_true, beq_iff_eq] at h
  obtain ⟨⟨⟨hi, ho⟩, ht⟩, hv⟩ := h
  match hins : pstx.inputs, houts : pstx.outputs with
  | [i], [o] =>
    refine ⟨i, o, rfl, rfl, ?_, ?_⟩
    · simpa [hins] using ht
    · simpa [hins] using hv
  | [], _ => simp [hins] at hi
  | _ :: _ :: _, _ => simp [hins] at hi
  | [_], [] => simp [houts] at ho
  | [_], _ :: _ :: _ => simp [houts] at ho

/-- **Bid gate**: a bid passes `ValidateBidArgs.Validate` only if its second input spends exactly the seller's
    ordinal outpoint, and what comes back is the offer with the bid amount written into output 1, paying the quoted fee. -/
theorem bid_gate_protects_outpoint (pstx p : Tx) (ord : UTXO) (bid : Nat) (fq : FeeQuote)
    (h : validateBid pstx ord bid fq = some p) :
    (∃ i, pstx.inputs[1]? = some i ∧ i.prevTxID = ord.txid ∧ i.vout = ord.vout) ∧
    p = { pstx with outputs := setOutSats pstx.outputs 1 bid } ∧ isFeePaidEnough p fq = true ∧
    3 ≤ pstx.inputs.length ∧ 3 ≤ pstx.outputs.length := by
  unfold validateBid at h
  split at h
  · simp at h
  · rename_i hc
    split at h
    · simp at h
    · rename_i ho
      simp only at h
      by_cases hf : isFeePaidEnough { pstx with outputs := setOutSats pstx.outputs 1 bid } fq = true
      · rw [if_pos hf] at h
        simp at h
        subst h
        simp only [Bool.or_eq_true, decide_eq_true_eq, not_or, Nat.not_lt] at hc
        refine ⟨?_, rfl, hf, hc.1, hc.2⟩
        cases hi : pstx.inputs[1]? with
        | none => simp [hi] at ho
        | some i =>
          simp [hi] at ho
          exact ⟨i, rfl, ho.1, ho.2⟩
      · rw [if_neg hf] at h
        simp at h

/-- **Bid gate, two dummies**: a bid passes `ValidateBid2DArgs.Validate` only if every input spends the previous output
    listed for its position (so input 2 spends the ordinal) and the first output passes the two dummies through. -/
theorem bid2d_gate_protects_outpoints (pstx p : Tx) (prev : List UTXO) (bid : Nat) (fq : FeeQuote)
    (h : validateBid2D pstx prev bid fq = some p) :
    prev.length = pstx.inputs.length ∧
    (∀ (k : Nat) (i : Input) (u : UTXO), pstx.inputs[k]? = some i → prev[k]? = some u → i.prevTxID = u.txid ∧ i.vout = u.vout) ∧
    p = { pstx with outputs := setOutSats pstx.outputs 2 bid } ∧ isFeePaidEnough p fq = true := by
  unfold validateBid2D at h
  split at h
  · simp at h
  · split at h
    · simp at h
    · rename_i hl
      split at h
      · simp at h
      · rename_i hz
        split at h
        · simp at h
        · simp only at h
          by_cases hf : isFeePaidEnough { pstx with outputs := setOutSats pstx.outputs 2 bid } fq = true
          · rw [if_pos hf] at h
            simp at h
            subst h
            refine ⟨by simpa using hl, ?_, rfl, hf⟩
            intro k i u hi hu
            have hz' : (List.zip pstx.inputs prev).all (fun x => x.1.prevTxID == x.2.txid && x.1.vout == x.2.vout) = true := by
              simpa using hz
            rw [List.all_eq_true] at hz'
            have hm : (i, u) ∈ List.zip pstx.inputs prev :=
              List.mem_of_getElem? (i := k) (by simp [List.getElem?_zip_eq_some, hi, hu])
            simpa using hz' _ hm
          · rw [if_neg hf] at h
            simp at h

/-- the completing flows go through their gates: no transaction is built from an offer the gate refuses -/
theorem accept_listing_needs_valid_offer (pstx tx : Tx) (listed : UTXO) (utxos : List UTXO) (buyer dummy chg : Bytes)
    (fq : FeeQuote) (h : acceptListing pstx listed utxos buyer dummy chg fq = .ok tx) :
    validateListing pstx listed = true := by
  unfold acceptListing at h
  cases hv : validateListing pstx listed with
  | true => rfl
  | false => simp [hv] at h

theorem accept_listing2D_needs_valid_offer (pstx tx : Tx) (listed : UTXO) (utxos : List UTXO) (buyer dummy chg : Bytes)
    (fq : FeeQuote) (h : acceptListing2D pstx listed utxos buyer dummy chg fq = .ok tx) :
    validateListing pstx listed = true := by
  unfold acceptListing2D at h
  cases hv : validateListing pstx listed with
  | true => rfl
  | false => simp [hv] at h

theorem accept_bid_needs_valid_offer (pstx tx : Tx) (ord : UTXO) (bid : Nat) (fq : FeeQuote) (seller unlock : Bytes)
    (h : acceptBid pstx ord bid fq seller unlock = .ok tx) : (validateBid pstx ord bid fq).isSome = true := by
  unfold acceptBid at h
  cases hv : validateBid pstx ord bid fq with
  | some _ => rfl
  | none => simp [hv] at h

theorem accept_bid2D_needs_valid_offer (pstx tx : Tx) (prev : List UTXO) (bid : Nat) (fq : FeeQuote) (seller : Bytes)
    (h : acceptBid2D pstx prev bid fq seller = .ok tx) : (validateBid2D pstx prev bid fq).isSome = true := by
  unfold acceptBid2D at h
  cases hv : validateBid2D pstx prev bid fq with
  | some _ => rfl
  | none => simp [hv] at h


/-- a one-input one-output offer spending output 2 of a transaction -/
def gateOffer : Tx :=
  { version := 1, lockTime := 0,
    inputs := [Input.mk (List.replicate 32 7) 2 (some [0x51]) 0xffffffff 0 none],
    outputs := [{ sats := 1000, script := [0x51] }] }

/-- non-vacuity: the offer passes the listing gate for the listed outpoint and is refused for the neighbouring output of
    the same transaction -/
example : validateListing gateOffer { txid := List.replicate 32 7, vout := 2, script := none, sats := 1 } = true ∧
    validateListing gateOffer { txid := List.replicate 32 7, vout := 3, script := none, sats := 1 } = false := by
  decide

/-- the script `Tx.Inscribe` builds carries the marker `Script.IsInscribed` looks for, whatever prefix, content type and payload -/
theorem inscribed_output_is_inscribed (pre ct data s : Bytes) (h : inscriptionScript pre ct data = some s) :
    Script.isInscribed s = true := by
  unfold inscriptionScript at h
  have ho : pushData [111, 114, 100] = some [3, 111, 114, 100] := by decide
  rw [ho] at h
  cases hc : pushData ct with
  | none => simp [hc] at h
  | some c =>
    cases hd : pushData data with
    | none => simp [hc, hd] at h
    | some d =>
      simp [hc, hd] at h
      subst h
      simp only [Script.isInscribed, decide_eq_true_eq]
      exact ⟨pre, 81 :: (c ++ 0 :: (d ++ [104])), by simp [Script.inscriptionMarker]⟩


private theorem getElem?_zipIdx_map {α β : Type} (l : List α) (f : α × Nat → β) (k : Nat) :
    (l.zipIdx.map f)[k]? = (l[k]?).map fun x => f (x, k) := by
  simp [List.getElem?_map, List.getElem?_zipIdx]
  cases l[k]? <;> simp

private theorem setIn_at (l : List Input) (u : UTXO) (ul : Bytes) :
    (setInUnlock (setInPrev l 1 u) 1 ul)[1]? =
      (l[1]?).map fun i => { i with prevScript := u.script, prevSats := u.sats, unlocking := some ul } := by
  unfold setInUnlock setInPrev
  rw [getElem?_zipIdx_map, getElem?_zipIdx_map]
  cases l[1]? <;> simp

/-- **A completed bid spends the seller's ordinal** (variant with one dummy): whenever `AcceptBidToBuy1SatOrdinal` returns a
    transaction for a well-formed offer, input 1 of that transaction spends exactly the seller's ordinal outpoint, carries the
    seller's unlocking script and the ordinal's value and script, the outputs are the offer's with the bid amount and the
    seller's script written into output 1, and the quoted fee is paid. -/
theorem accepted_bid_spends_the_ordinal (pstx tx : Tx) (ord : UTXO) (bid : Nat) (fq : FeeQuote) (seller unlock : Bytes)
    (hwf : ({ pstx with outputs := setOutSats pstx.outputs 1 bid } : Tx).wf)
    (hamb : ¬ ({ pstx with outputs := setOutSats pstx.outputs 1 bid } : Tx).ambiguous)
    (h : acceptBid pstx ord bid fq seller unlock = .ok tx) :
    (∃ i, tx.inputs[1]? = some i ∧ i.prevTxID = ord.txid ∧ i.vout = ord.vout ∧ i.unlocking = some unlock ∧
        i.prevSats = ord.sats ∧ i.prevScript = ord.script) ∧
    tx.outputs = setOutScript (setOutSats pstx.outputs 1 bid) 1 seller ∧ isFeePaidEnough tx fq = true := by
  unfold acceptBid at h
  cases hv : validateBid pstx ord bid fq with
  | none => simp [hv] at h
  | some p =>
    obtain ⟨⟨i0, hi0, ht, hvout⟩, hp, _, _, _⟩ := bid_gate_protects_outpoint pstx p ord bid fq hv
    subst hp
    simp only [hv] at h
    rw [C01.clone_eq _ hwf hamb] at h
    simp only at h
    split at h
    · simp at h
    · rename_i hfee
      simp at h
      subst h
      refine ⟨?_, by simp [C01.cloneNorm], by simpa using hfee⟩
      simp only [setIn_at, C01.cloneNorm, List.getElem?_map, hi0, Option.map_some]
      exact ⟨_, rfl, ht, hvout, rfl, rfl, rfl⟩


/-- non-vacuity: a three-input, three-output offer for the ordinal at (07…07, 2), completed with a zero fee quote -/
def bidOffer : Tx :=
  { version := 1, lockTime := 0,
    inputs := [Input.mk (List.replicate 32 1) 0 (some [0x51]) 0xffffffff 1000 (some [0x51]),
               Input.mk (List.replicate 32 7) 2 none 0xffffffff 0 none,
               Input.mk (List.replicate 32 3) 1 (some [0x51]) 0xffffffff 5000 (some [0x51])],
    outputs := [{ sats := 1000, script := [0x51] }, { sats := 0, script := [0x52] }, { sats := 1, script := [0x53] }] }

example : (match acceptBid bidOffer { txid := List.replicate 32 7, vout := 2, script := some [0x51], sats := 1 } 500
      { stdSat := 0, stdBytes := 1, dataSat := 0, dataBytes := 1 } [0x54] [0x55] with
    | .ok _ => true | .error _ => false) = true := by decide +kernel

example : ({ bidOffer with outputs := setOutSats bidOffer.outputs 1 500 } : Tx).wf ∧
    ¬ ({ bidOffer with outputs := setOutSats bidOffer.outputs 1 500 } : Tx).ambiguous :=
  ⟨by simp [-List.reduceReplicate, Tx.wf, Input.wf, Output.wf, bidOffer, optLen, setOutSats, List.zipIdx],
   by simp [-List.reduceReplicate, Tx.ambiguous, bidOffer]⟩

/-- **A completed bid with two dummies spends the seller's ordinal**: whenever `AcceptBidToBuy1SatOrdinal2Dummies` returns
    a transaction (up to signing) for a well-formed offer, input 2 spends exactly the previous output listed for that
    position and carries its value and script, and the outputs are the offer's with the bid amount and the seller's
    script written into output 2. -/
theorem accepted_bid2D_spends_the_ordinal (pstx tx : Tx) (prev : List UTXO) (bid : Nat) (fq : FeeQuote) (seller : Bytes)
    (hwf : ({ pstx with outputs := setOutSats pstx.outputs 2 bid } : Tx).wf)
    (hamb : ¬ ({ pstx with outputs := setOutSats pstx.outputs 2 bid } : Tx).ambiguous)
    (h : acceptBid2D pstx prev bid fq seller = .ok tx) :
    (∃ i u, tx.inputs[2]? = some i ∧ prev[2]? = some u ∧ i.prevTxID = u.txid ∧ i.vout = u.vout ∧
        i.prevSats = u.sats ∧ i.prevScript = u.script) ∧
    tx.outputs = setOutScript (setOutSats pstx.outputs 2 bid) 2 seller := by
  unfold acceptBid2D at h
  cases hv : validateBid2D pstx prev bid fq with
  | none => simp [hv] at h
  | some p =>
    obtain ⟨hlen, hall, hp, _⟩ := bid2d_gate_protects_outpoints pstx p prev bid fq hv
    subst hp
    simp only [hv] at h
    split at h
    · simp at h
    · rw [C01.parseExact_serialize _ hwf hamb] at h
      simp only at h
      cases hu : prev[2]? with
      | none => simp [hu] at h
      | some u =>
        simp [hu] at h
        subst h
        refine ⟨?_, by simp [Tx.norm]⟩
        have h2 : 2 < pstx.inputs.length := by
          have := (List.getElem?_eq_some_iff.mp hu).1
          omega
        obtain ⟨i0, hi0⟩ : ∃ i0, pstx.inputs[2]? = some i0 := ⟨pstx.inputs[2], by simp [h2]⟩
        obtain ⟨ht, hvout⟩ := hall 2 i0 u hi0 hu
        refine ⟨{ (Input.norm false i0) with prevScript := u.script, prevSats := u.sats }, u, ?_, rfl, ?_⟩
        · simp [setInPrev, Tx.norm, List.getElem?_map, hi0]
        · simp [Input.norm, Input.normStd, ht, hvout]



/-- **A completed listing spends the listed ordinal**: whenever `AcceptOrdinalSaleListing` returns a transaction, its input 1
    is the seller's input of the offer unchanged, and that input spends exactly the listed outpoint; output 1 is the
    seller's output of the offer unchanged. -/
theorem completed_listing_spends_the_listed_ordinal (pstx tx : Tx) (listed : UTXO) (utxos : List UTXO)
    (buyer dummy chg : Bytes) (fq : FeeQuote) (h : acceptListing pstx listed utxos buyer dummy chg fq = .ok tx) :
    ∃ sin sout, pstx.inputs = [sin] ∧ pstx.outputs = [sout] ∧ tx.inputs[1]? = some sin ∧ tx.outputs[1]? = some sout ∧
      sin.prevTxID = listed.txid ∧ sin.vout = listed.vout := by
  obtain ⟨sin, sout, u0, rest, hin, hout, _, hti, ⟨tail, hto⟩, _⟩ := acceptListing_layout pstx tx listed utxos buyer dummy chg fq h
  obtain ⟨i, o, hi, ho, ht, hv⟩ := listing_gate_protects_outpoint pstx listed
    (accept_listing_needs_valid_offer pstx tx listed utxos buyer dummy chg fq h)
  have : i = sin := by rw [hin] at hi; simpa using hi.symm
  subst this
  exact ⟨i, sout, hin, hout, by simp [hti], by simp [hto], ht, hv⟩

/-- the same for `AcceptOrdinalSaleListing2Dummies`: the seller's input and output sit at index 2 -/
theorem completed_listing2D_spends_the_listed_ordinal (pstx tx : Tx) (listed : UTXO) (utxos : List UTXO)
    (buyer dummy chg : Bytes) (fq : FeeQuote) (h : acceptListing2D pstx listed utxos buyer dummy chg fq = .ok tx) :
    ∃ sin sout, pstx.inputs = [sin] ∧ pstx.outputs = [sout] ∧ tx.inputs[2]? = some sin ∧ tx.outputs[2]? = some sout ∧
      sin.prevTxID = listed.txid ∧ sin.vout = listed.vout := by
  obtain ⟨sin, sout, d0, d1, pay, hin, hout, _, _, hti, ⟨tail, hto⟩, _⟩ :=
    acceptListing2D_layout pstx tx listed utxos buyer dummy chg fq h
  obtain ⟨i, o, hi, ho, ht, hv⟩ := listing_gate_protects_outpoint pstx listed
    (accept_listing2D_needs_valid_offer pstx tx listed utxos buyer dummy chg fq h)
  have : i = sin := by rw [hin] at hi; simpa using hi.symm
  subst this
  exact ⟨i, sout, hin, hout, by simp [hti], by simp [hto], ht, hv⟩


end GoBT.C20
