/-
  C12 — funding stops exactly when covered and consumes the supplier's UTXOs faithfully.
  Model ↔ code: `fund` = Tx.Fund driven by a supplier that answers with a given history of responses;
  `fromUTXOs` = Tx.FromUTXOs; `estimateDeficit` = Tx.estimateDeficit (C11).
-/
import GoBT.Fee.Model
import GoBT.Fee.FromTx
namespace GoBT.C12
open GoBT GoBT.Fee

/-- the input Tx.FromUTXOs builds from a UTXO: the supplier's txid, index, value and script, no unlocking
    script, final sequence number -/
def inputOf (u : UTXO) : Input :=
  { prevTxID := u.txid, vout := u.vout, unlocking := none, sequence := 0xFFFFFFFF,
    prevSats := u.sats, prevScript := u.script }

theorem fromUTXOs_outputs (tx : Tx) (us : List UTXO) :
    (fromUTXOs tx us).1.outputs = tx.outputs ∧ (fromUTXOs tx us).1.version = tx.version ∧
    (fromUTXOs tx us).1.lockTime = tx.lockTime := by
  induction us generalizing tx with
  | nil => simp [fromUTXOs]
  | cons u us ih =>
    unfold fromUTXOs
    split
    · simp
    · have := ih { tx with inputs := tx.inputs ++ [inputOf u] }
      simpa [inputOf] using this

/-- a fully valid batch is appended in order, each UTXO turned into `inputOf` -/
theorem fromUTXOs_ok (tx : Tx) (us : List UTXO) (h : (fromUTXOs tx us).2 = true) :
    (fromUTXOs tx us).1.inputs = tx.inputs ++ us.map inputOf := by
  induction us generalizing tx with
  | nil => simp [fromUTXOs]
  | cons u us ih =>
    unfold fromUTXOs at h ⊢
    split at h
    · cases h
    · next hv =>
      simp only [hv, ↓reduceIte]
      have := ih { tx with inputs := tx.inputs ++ [inputOf u] } (by simpa [inputOf] using h)
      simpa [inputOf] using this

/-- the batches actually consumed by a run: the first `k` responses, all of them batches -/
def batchesOf : List Response → List (List UTXO)
  | [] => []
  | .batch us :: rest => us :: batchesOf rest
  | _ :: _ => []

/-- In every case — success, insufficient funds, supplier error, invalid txid inside a batch, estimation
    error — the outputs, version and locktime are left untouched. -/
theorem fundWith_outputs_untouched (dfc : Tx → Except Err Nat) (hist : List Response) (tx : Tx) (calls : List Nat) :
    (fundWith dfc hist tx calls).tx.outputs = tx.outputs ∧ (fundWith dfc hist tx calls).tx.version = tx.version ∧
    (fundWith dfc hist tx calls).tx.lockTime = tx.lockTime := by
  induction hist generalizing tx calls with
  | nil =>
    unfold fundWith
    split <;> simp
  | cons r rest ih =>
    unfold fundWith
    split
    · simp
    · simp
    · next d hd =>
      cases r with
      | exhausted => simp
      | failed => simp
      | batch us =>
        simp only
        split
        · simpa using fromUTXOs_outputs tx us
        · have h1 := ih (fromUTXOs tx us).1 (calls ++ [d + 1])
          have h2 := fromUTXOs_outputs tx us
          exact ⟨h1.1.trans h2.1, h1.2.1.trans h2.2.1, h1.2.2.trans h2.2.2⟩

/-- When funding succeeds: the inputs are the previous inputs followed by every UTXO of the consumed
    batches, in order, each carrying the supplier's txid, index, value and script and a final sequence
    number; the transaction is covered (the estimated deficit is zero); the supplier was called exactly
    once per consumed batch, each time while a deficit remained and with exactly the current deficit. -/
theorem fundWith_ok (dfc : Tx → Except Err Nat) (hist : List Response) (tx : Tx) (calls : List Nat)
    (h : (fundWith dfc hist tx calls).outcome = .ok) :
    ∃ k, k ≤ hist.length ∧
      (∀ r ∈ hist.take k, ∃ us, r = .batch us) ∧
      (fundWith dfc hist tx calls).tx.inputs = tx.inputs ++ ((batchesOf (hist.take k)).flatten.map inputOf) ∧
      dfc (fundWith dfc hist tx calls).tx = .ok 0 ∧
      ∃ ds : List Nat, (fundWith dfc hist tx calls).calls = calls ++ ds ∧ ds.length = k ∧ ∀ d ∈ ds, 0 < d := by
  induction hist generalizing tx calls with
  | nil =>
    unfold fundWith at h ⊢
    split at h
    · cases h
    · next hz => exact ⟨0, by simp, by simp, by simp [batchesOf], by simpa using hz, [], by simp, rfl, by simp⟩
    · cases h
  | cons r rest ih =>
    unfold fundWith at h ⊢
    split at h
    · cases h
    · next hz =>
      refine ⟨0, by simp, by simp, by simp [batchesOf], ?_, [], by simp, rfl, by simp⟩
      simpa using hz
    · next d hd =>
      simp only [hd] at h ⊢
      cases r with
      | exhausted => cases h
      | failed => cases h
      | batch us =>
        simp only at h ⊢
        split at h
        · cases h
        · next hok =>
          simp only [hok, Bool.false_eq_true, ↓reduceIte] at ⊢
          have hok' : (fromUTXOs tx us).2 = true := by simpa using hok
          obtain ⟨k, hk, hall, hins, hdef, ds, hcalls, hlen, hpos⟩ := ih (fromUTXOs tx us).1 (calls ++ [d + 1]) h
          refine ⟨k + 1, by simp; omega, ?_, ?_, hdef, (d + 1) :: ds, ?_, by simp [hlen], ?_⟩
          · intro r hr
            simp only [List.take_succ_cons, List.mem_cons] at hr
            rcases hr with rfl | hr
            · exact ⟨us, rfl⟩
            · exact hall r hr
          · rw [hins, fromUTXOs_ok tx us hok']
            simp [batchesOf, List.append_assoc]
          · rw [hcalls]; simp
          · intro x hx
            simp only [List.mem_cons] at hx
            rcases hx with rfl | hx
            · omega
            · exact hpos x hx

/-- In every case — success, insufficient funds, supplier error, invalid txid inside a batch, estimation
    error — the outputs, version and locktime are left untouched. -/
theorem fund_outputs_untouched (fq : FeeQuote) (hist : List Response) (tx : Tx) (calls : List Nat) :
    (fund fq hist tx calls).tx.outputs = tx.outputs ∧ (fund fq hist tx calls).tx.version = tx.version ∧
    (fund fq hist tx calls).tx.lockTime = tx.lockTime :=
  fundWith_outputs_untouched _ hist tx calls

/-- When funding succeeds: the inputs are the previous inputs followed by every UTXO of the consumed
    batches, in order, each carrying the supplier's txid, index, value and script and a final sequence
    number; the transaction is covered (the estimated deficit is zero); the supplier was called exactly
    once per consumed batch, each time while a deficit remained (and with exactly the current deficit:
    see `fund_call_argument`). -/
theorem fund_ok (fq : FeeQuote) (hist : List Response) (tx : Tx) (calls : List Nat)
    (h : (fund fq hist tx calls).outcome = .ok) :
    ∃ k, k ≤ hist.length ∧
      (∀ r ∈ hist.take k, ∃ us, r = .batch us) ∧
      (fund fq hist tx calls).tx.inputs = tx.inputs ++ ((batchesOf (hist.take k)).flatten.map inputOf) ∧
      estimateDeficit (fund fq hist tx calls).tx fq = .ok 0 ∧
      ∃ ds : List Nat, (fund fq hist tx calls).calls = calls ++ ds ∧ ds.length = k ∧ ∀ d ∈ ds, 0 < d :=
  fundWith_ok _ hist tx calls h

/-- Each call hands the supplier exactly the current deficit: the first recorded call is the deficit of the
    transaction as it stands, and after a valid batch the run continues from the extended transaction. -/
theorem fund_call_argument (fq : FeeQuote) (us : List UTXO) (rest : List Response) (tx : Tx) (calls : List Nat)
    (d : Nat) (hd : estimateDeficit tx fq = .ok (d + 1)) (hv : (fromUTXOs tx us).2 = true) :
    fund fq (.batch us :: rest) tx calls = fund fq rest (fromUTXOs tx us).1 (calls ++ [d + 1]) := by
  unfold fund
  conv => lhs; unfold fundWith
  simp only [hd, hv, Bool.not_true, Bool.false_eq_true, ↓reduceIte]

/-- If the supplier reports exhaustion (or its history ends) while a deficit remains, the result is an
    insufficient-funds error; the supplier's own error is passed through. -/
theorem fund_exhausted (fq : FeeQuote) (tx : Tx) (calls : List Nat) (rest : List Response) (d : Nat)
    (hd : estimateDeficit tx fq = .ok (d + 1)) :
    (fund fq (.exhausted :: rest) tx calls).outcome = .err .insufficientFunds ∧
    (fund fq [] tx calls).outcome = .err .insufficientFunds ∧
    (fund fq (.failed :: rest) tx calls).outcome = .err .supplier ∧
    (fund fq (.exhausted :: rest) tx calls).tx = tx := by
  refine ⟨?_, ?_, ?_, ?_⟩ <;> · unfold fund fundWith; simp only [hd]

/-- The supplier is never called once the transaction is covered. -/
theorem fund_no_call_when_covered (fq : FeeQuote) (hist : List Response) (tx : Tx) (calls : List Nat)
    (h0 : estimateDeficit tx fq = .ok 0) : fund fq hist tx calls = ⟨tx, calls, .ok⟩ := by
  cases hist <;> (unfold fund fundWith; simp only [h0])

/-- The code computes the deficit in uint64 (`estimateDeficit64`, the definition the correspondence check runs): it is
    the deficit of the theorems above whenever outputs plus fee stay below 2^64.  (Beyond that the sum wraps; the
    transaction then claims more than 8000 times the coin supply — DESIGN §11.5.) -/
theorem deficit_arithmetic_exact_below_2_64 (tx : Tx) (fq : FeeQuote)
    (h : ∀ fee, estimateFeesPaid tx fq = .ok fee → totalOut tx + fee < 2 ^ 64) :
    estimateDeficit64 tx fq = estimateDeficit tx fq := estimateDeficit64_eq tx fq h

/-! ### Tx.AddP2PKHInputsFromTx (inputs from the outputs of a previous transaction that pay to a key) -/

open GoBT.Script

/-- what an input added by AddP2PKHInputsFromTx looks like: it spends output `k` of the previous transaction, carries
    that output's value and script, and that script pays to the key hash asked for -/
def SpendsMatching (h prevID : Bytes) (outs : List Output) (base : Nat) (i : Input) : Prop :=
  ∃ k o, outs[k]? = some o ∧ i.vout = base + k ∧ i.prevSats = o.sats ∧ i.prevScript = some o.script ∧
    i.prevTxID = prevID ∧ i.unlocking = none ∧ i.sequence = 0xFFFFFFFF ∧ publicKeyHash o.script = some (.ok h)

private theorem SpendsMatching.shift {h prevID : Bytes} {o : Output} {os : List Output} {base : Nat} {i : Input}
    (hs : SpendsMatching h prevID os (base + 1) i) : SpendsMatching h prevID (o :: os) base i := by
  obtain ⟨k, o', hk, hv, rest⟩ := hs
  exact ⟨k + 1, o', by simpa using hk, by omega, rest⟩

theorem fromTxLoop_spec (h prevID : Bytes) (outs : List Output) :
    ∀ (base : Nat) (tx t : Tx) (ok : Bool), fromTxLoop h prevID base outs tx = some (t, ok) →
      ∃ added, t = { tx with inputs := tx.inputs ++ added } ∧ ∀ i ∈ added, SpendsMatching h prevID outs base i := by
  induction outs with
  | nil =>
    intro base tx t ok hh
    simp [fromTxLoop] at hh
    exact ⟨[], by simp [hh.1.symm], by simp⟩
  | cons o os ih =>
    intro base tx t ok hh
    unfold fromTxLoop at hh
    cases hp : publicKeyHash o.script with
    | none => simp [hp] at hh
    | some r =>
      cases r with
      | ok p =>
        simp only [hp] at hh
        by_cases hph : (p == h) = true
        · rw [if_pos hph] at hh
          by_cases hl : prevID.length = 32
          · simp only [fromUTXOs, hl, ne_eq, not_true_eq_false, if_false] at hh
            obtain ⟨added, ht, hall⟩ := ih (base + 1) _ t ok hh
            refine ⟨({ prevTxID := prevID, vout := base, unlocking := none, sequence := 0xFFFFFFFF, prevSats := o.sats, prevScript := some o.script } : Input) :: added, ?_, ?_⟩
            · simp [ht]
            · intro i hi
              rcases List.mem_cons.mp hi with rfl | hi
              · exact ⟨0, o, by simp, by simp, rfl, rfl, rfl, rfl, rfl, by simpa [beq_iff_eq.mp hph] using hp⟩
              · exact (hall i hi).shift
          · simp [fromUTXOs, hl] at hh
            exact ⟨[], by simp [hh.1.symm], by simp⟩
        · rw [if_neg hph] at hh
          obtain ⟨added, ht, hall⟩ := ih (base + 1) tx t ok hh
          exact ⟨added, ht, fun i hi => (hall i hi).shift⟩
      | errEmpty => simp [hp] at hh; exact ⟨[], by simp [hh.1.symm], by simp⟩
      | errNotP2PKH => simp [hp] at hh; exact ⟨[], by simp [hh.1.symm], by simp⟩
      | errDecode => simp [hp] at hh; exact ⟨[], by simp [hh.1.symm], by simp⟩

/-- **Tx.AddP2PKHInputsFromTx**: whatever it returns, the transaction's own inputs and everything else are untouched and
    every input it added spends an output of the previous transaction that pays to HASH160 of the given key, with
    that output's index, value and script, the previous transaction's id, no unlocking script and a final sequence. -/
theorem inputs_from_tx_spend_matching_outputs (H160 : Bytes → Bytes) (txidOf : Tx → Bytes) (tx pvs t : Tx) (key : Bytes)
    (ok : Bool) (hh : addP2PKHInputsFromTx H160 txidOf tx pvs key = some (t, ok)) :
    ∃ added, t = { tx with inputs := tx.inputs ++ added } ∧
      ∀ i ∈ added, SpendsMatching (H160 key) (txidOf pvs) pvs.outputs 0 i :=
  fromTxLoop_spec _ _ _ 0 tx t ok hh



/-- the converse of `fromTxLoop_spec` when no error is reported: every output paying to the key hash is spent by one of
    the added inputs -/
theorem fromTxLoop_complete (h prevID : Bytes) (hid : prevID.length = 32) (outs : List Output) :
    ∀ (base : Nat) (tx t : Tx), fromTxLoop h prevID base outs tx = some (t, true) →
      ∃ added, t.inputs = tx.inputs ++ added ∧
        ∀ (k : Nat) (o : Output), outs[k]? = some o → publicKeyHash o.script = some (.ok h) →
          ∃ i ∈ added, i.vout = base + k ∧ i.prevSats = o.sats ∧ i.prevScript = some o.script := by
  induction outs with
  | nil =>
    intro base tx t hh
    simp [fromTxLoop] at hh
    exact ⟨[], by simp [hh], fun k o hk => by simp at hk⟩
  | cons o' os ih =>
    intro base tx t hh
    unfold fromTxLoop at hh
    cases hp' : publicKeyHash o'.script with
    | none => simp [hp'] at hh
    | some r =>
      cases r with
      | ok p =>
        simp only [hp'] at hh
        by_cases hph : (p == h) = true
        · rw [if_pos hph] at hh
          simp only [fromUTXOs, hid, ne_eq, not_true_eq_false, if_false] at hh
          obtain ⟨added, ht, hall⟩ := ih (base + 1) _ t hh
          refine ⟨({ prevTxID := prevID, vout := base, unlocking := none, sequence := 0xFFFFFFFF, prevSats := o'.sats, prevScript := some o'.script } : Input) :: added, by simp [ht], ?_⟩
          intro k o hk hp
          cases k with
          | zero =>
            simp at hk; subst hk
            exact ⟨_, List.mem_cons_self, by simp, rfl, rfl⟩
          | succ k =>
            obtain ⟨i, hi, hv, rest⟩ := hall k o (by simpa using hk) hp
            exact ⟨i, List.mem_cons_of_mem _ hi, by omega, rest⟩
        · rw [if_neg hph] at hh
          obtain ⟨added, ht, hall⟩ := ih (base + 1) tx t hh
          refine ⟨added, ht, ?_⟩
          intro k o hk hp
          cases k with
          | zero =>
            simp at hk; subst hk
            rw [hp'] at hp
            simp at hp
            simp [hp] at hph
          | succ k =>
            obtain ⟨i, hi, hv, rest⟩ := hall k o (by simpa using hk) hp
            exact ⟨i, hi, by omega, rest⟩
      | errEmpty => simp [hp'] at hh
      | errNotP2PKH => simp [hp'] at hh
      | errDecode => simp [hp'] at hh

/-- **Tx.AddP2PKHInputsFromTx, completeness**: when it reports no error (and the previous id has its 32 bytes), every output
    of the previous transaction whose script pays to HASH160 of the key has become an input with that output's index,
    value and script. -/
theorem inputs_from_tx_cover_matching_outputs (H160 : Bytes → Bytes) (txidOf : Tx → Bytes) (tx pvs t : Tx) (key : Bytes)
    (hid : (txidOf pvs).length = 32) (hh : addP2PKHInputsFromTx H160 txidOf tx pvs key = some (t, true)) :
    ∃ added, t.inputs = tx.inputs ++ added ∧
      ∀ (k : Nat) (o : Output), pvs.outputs[k]? = some o → publicKeyHash o.script = some (.ok (H160 key)) →
        ∃ i ∈ added, i.vout = k ∧ i.prevSats = o.sats ∧ i.prevScript = some o.script := by
  obtain ⟨added, ht, hall⟩ := fromTxLoop_complete _ _ hid _ 0 tx t hh
  exact ⟨added, ht, fun k o hk hp => by simpa using hall k o hk hp⟩


end GoBT.C12
