/-
  C10 — change never creates value, never underpays the quoted fee, never burns change.
  Model ↔ code: `change` = Tx.change with its wrappers Change / ChangeToExistingOutput (ChangeToAddress builds a
  P2PKH script and calls Change).  "Quoted fee for the estimated final size" is `estimateFeesPaid` (C11) of the
  resulting transaction.
-/
import GoBT.Fee.Model
import GoBT.Props.C11
import GoBT.Gen.Limits
namespace GoBT.C10
open GoBT GoBT.Fee GoBT.Script

/-! ### helper facts -/

theorem mapIdx_length {α β : Type} (f : Nat → α → β) (k : Nat) (l : List α) : (mapIdx f k l).length = l.length := by
  induction l generalizing k with
  | nil => rfl
  | cons a as ih => simp [mapIdx, ih]

theorem sum_bump (idx amt k : Nat) (outs : List Output) (h : k ≤ idx) (hi : idx < k + outs.length) :
    ((mapIdx (bump idx amt) k outs).map (·.sats)).sum = (outs.map (·.sats)).sum + amt := by
  induction outs generalizing k with
  | nil => simp at hi; omega
  | cons o os ih =>
    simp only [mapIdx, List.map_cons, List.sum_cons]
    by_cases hk : k = idx
    · subst hk
      have hrest : ∀ (j : Nat) (l : List Output), k < j → mapIdx (bump k amt) j l = l := by
        intro j l hj
        induction l generalizing j with
        | nil => rfl
        | cons a as iha =>
          simp only [mapIdx, bump]
          rw [iha (j + 1) (by omega)]
          have : ¬ j = k := by omega
          simp [this]
      rw [hrest (k + 1) os (by omega)]
      simp [bump]; omega
    · have := ih (k + 1) (by omega) (by simp at hi; omega)
      simp only [bump, hk, ↓reduceIte] at this ⊢
      omega

theorem bump_scripts (idx amt k : Nat) (outs : List Output) :
    (mapIdx (bump idx amt) k outs).map (·.script) = outs.map (·.script) := by
  induction outs generalizing k with
  | nil => rfl
  | cons o os ih =>
    simp only [mapIdx, List.map_cons, ih]
    congr 1
    simp only [bump]; split <;> rfl

/-! ### the four clauses, for the body of Tx.change with an arbitrary size estimate -/

/-- Whatever happens, inputs, version and locktime are untouched; when no change is added the transaction is
    returned unchanged; when change goes to a new output every pre-existing output is untouched and the new
    output carries the given script; when it goes to an existing output only that output's value changes. -/
theorem change_preserves (tx : Tx) (fq : FeeQuote) (dest : ChangeDest) (est : Except Err TxSize) (tx' : Tx)
    (added : Bool) (h : changeWith tx fq dest est = .ok (tx', added)) :
    tx'.inputs = tx.inputs ∧ tx'.version = tx.version ∧ tx'.lockTime = tx.lockTime ∧
    (added = false → tx' = tx) ∧
    (added = true → ∃ amt, tx' = changeApply tx dest amt) ∧
    (∀ amt, (changeApply tx dest amt).outputs.map (·.script) =
        tx.outputs.map (·.script) ++ (match dest with | .newOutput s => [s] | .existing _ => [])) := by
  refine ⟨?_, ?_, ?_, ?_, ?_, ?_⟩
  all_goals try (
    unfold changeWith at h
    split at h
    · cases h
    · split at h
      · cases h
      · split at h
        · cases h; simp
        · split at h
          · cases h; simp
          · cases h; cases dest <;> simp [changeApply])
  · intro _
    unfold changeWith at h
    split at h
    · cases h
    · split at h
      · cases h
      · split at h
        · cases h; simp at *
        · split at h
          · cases h; simp at *
          · cases h; exact ⟨_, rfl⟩
  · intro amt
    cases dest with
    | newOutput s => simp [changeApply]
    | existing idx => simp [changeApply, bump_scripts]

/-- Total outputs never exceed total inputs after a successful change operation, and the fee left is exactly
    the fee the operation computed: (standard bytes + bytes of the new output) at the standard rate plus
    data bytes at the data rate. -/
theorem change_fee_left (tx : Tx) (fq : FeeQuote) (dest : ChangeDest) (size : TxSize) (tx' : Tx)
    (hidx : ∀ idx, dest = .existing idx → idx < tx.outputs.length)
    (h : changeWith tx fq dest (.ok size) = .ok (tx', true)) :
    totalOut tx' ≤ totalIn tx' ∧ totalIn tx' - totalOut tx' = changeFee tx fq dest size ∧
    totalIn tx' = totalIn tx ∧
    tx' = changeApply tx dest (totalIn tx - totalOut tx - changeFee tx fq dest size) := by
  unfold changeWith at h
  split at h
  · cases h
  · next hge =>
    simp only at h
    split at h
    · cases h
    · split at h
      · cases h
      · next hno =>
        simp only [Except.ok.injEq, Prod.mk.injEq, and_true] at h
        subst h
        refine ⟨?_, ?_, ?_, rfl⟩
        all_goals
          cases dest with
          | newOutput s =>
            simp only [changeApply, totalIn, totalOut, List.map_append, List.sum_append, List.map_cons, List.map_nil,
              List.sum_cons, List.sum_nil] at hge hno ⊢
            try omega
          | existing idx =>
            have hb := sum_bump idx (totalIn tx - totalOut tx - changeFee tx fq (.existing idx) size) 0 tx.outputs
              (Nat.zero_le _) (by simpa using hidx idx rfl)
            simp only [changeApply, totalIn, totalOut] at hge hno hb ⊢
            try rw [hb]
            try omega

/-- If no change was added the transaction is unchanged, and that happens only when the output counter cannot
    grow any more or what remains after the fee a change output would require is at or below the dust limit. -/
theorem nochange_iff (tx : Tx) (fq : FeeQuote) (dest : ChangeDest) (size : TxSize) (tx' : Tx)
    (h : changeWith tx fq dest (.ok size) = .ok (tx', false)) :
    tx' = tx ∧ totalOut tx ≤ totalIn tx ∧
      (upperLimitInc tx.outputs.length = -1 ∨ totalIn tx - totalOut tx ≤ changeFee tx fq dest size + dustLimit) := by
  unfold changeWith at h
  split at h
  · cases h
  · next hge =>
    simp only at h
    split at h
    · next hu => cases h; exact ⟨rfl, by omega, Or.inl hu⟩
    · split at h
      · next hno => cases h; exact ⟨rfl, by omega, Or.inr (by omega)⟩
      · cases h

/-- Errors: outputs exceeding inputs is an error, not a silent success. -/
theorem change_insufficient_inputs (tx : Tx) (fq : FeeQuote) (dest : ChangeDest) (est : Except Err TxSize)
    (h : totalIn tx < totalOut tx) : changeWith tx fq dest est = .error .insufficientInputs := by
  simp [changeWith, h]

/-! ### the estimated size of the result -/

theorem serialize_length_addOutput (tx : Tx) (o : Output) :
    (serialize false { tx with outputs := tx.outputs ++ [o] }).length + varintLen tx.outputs.length =
      (serialize false tx).length + (serOutput o).length + varintLen (tx.outputs.length + 1) := by
  simp only [serialize, serOutputs, List.length_append, List.flatMap_append, List.flatMap_cons, List.flatMap_nil,
    List.append_nil, varintEnc_length, List.length_cons, List.length_nil, Nat.zero_add]
  omega

theorem dataBytes_append (outs : List Output) (o : Output) (h : isData o.script = false) :
    dataBytes (outs ++ [o]) = dataBytes outs := by
  simp [dataBytes, h]

/-- The estimated size of the transaction with the change output appended: the standard bytes grow by exactly
    the bytes `change` charged for (value, script prefix, script, growth of the output counter); data bytes
    are unchanged for a non-data change script. -/
theorem estimate_with_change_output (tx : Tx) (hwf : tx.wf) (hne : tx.inputs ≠ []) (s : Bytes) (amt : Nat)
    (hamt : amt < 2 ^ 64) (hs : s.length < 2 ^ 64) (hn : tx.outputs.length < 2 ^ 64 - 1)
    (hnd : isData s = false) (size : TxSize) (he : estimateSizeWithTypes tx = .ok size) :
    estimateSizeWithTypes { tx with outputs := tx.outputs ++ [{ sats := amt, script := s }] } =
      .ok { total := size.total + newOutputBytes tx.outputs.length s,
            std := size.std + newOutputBytes tx.outputs.length s, data := size.data } := by
  have hamb : ¬ tx.ambiguous := fun h => hne h.1
  have hwf' : ({ tx with outputs := tx.outputs ++ [{ sats := amt, script := s }] } : Tx).wf := by
    obtain ⟨h1, h2, h3, h4, h5, h6⟩ := hwf
    refine ⟨h1, h2, h3, by simp; omega, h5, ?_⟩
    intro o ho
    simp only [List.mem_append, List.mem_cons, List.not_mem_nil, or_false] at ho
    rcases ho with ho | rfl
    · exact h6 o ho
    · exact ⟨hamt, hs⟩
  have hamb' : ¬ ({ tx with outputs := tx.outputs ++ [{ sats := amt, script := s }] } : Tx).ambiguous :=
    fun h => hne h.1
  unfold estimateSizeWithTypes estimatedFinalTx at he ⊢
  rw [C01.clone_eq _ hwf hamb] at he
  rw [C01.clone_eq _ hwf' hamb']
  simp only [C01.cloneNorm, bind, Except.bind] at he ⊢
  cases hins : estimateInputs (tx.inputs.map fun i => { i with unlocking := some (i.unlocking.getD []) }) with
  | error e => rw [hins] at he; cases he
  | ok ins =>
    rw [hins] at he
    simp only [pure, Except.pure, Except.ok.injEq] at he ⊢
    subst he
    -- sizes
    have hlen := serialize_length_addOutput
      { version := tx.version, inputs := ins, outputs := tx.outputs, lockTime := tx.lockTime } { sats := amt, script := s }
    have hd := dataBytes_append tx.outputs { sats := amt, script := s } hnd
    have hgrow := upperLimitInc_eq tx.outputs.length hn
    have hle := C11.dataBytes_le tx.outputs
    have hser : (serOutputs tx.outputs).length ≤
        (serialize false { version := tx.version, inputs := ins, outputs := tx.outputs, lockTime := tx.lockTime }).length := by
      simp only [serialize, List.length_append]; omega
    have hmono := varintLen_mono (Nat.le_add_right tx.outputs.length 1)
    simp only [sizeWithTypes, newOutputBytes, hd, serOutput, List.length_append, leEnc_length, varintEnc_length] at hlen ⊢
    have hnn : (upperLimitInc tx.outputs.length).toNat = varintLen (tx.outputs.length + 1) - varintLen tx.outputs.length := by
      rw [hgrow]; omega
    rw [hnn]
    congr 1 <;> omega

/-- **Never underpays, never burns** (change to a new, non-data output): when change is added, the fee left is
    exactly the quoted fee for the estimated final size of the resulting transaction — so it is at least the
    quoted fee and exceeds it by no slack at all. -/
theorem change_new_output_pays_quoted_fee (tx : Tx) (hwf : tx.wf) (fq : FeeQuote) (s : Bytes) (tx' : Tx)
    (hs : s.length < 2 ^ 64) (hn : tx.outputs.length < 2 ^ 64 - 1) (hnd : isData s = false)
    (hin : totalIn tx < 2 ^ 64)
    (h : change tx fq (.newOutput s) = .ok (tx', true)) :
    totalOut tx' ≤ totalIn tx' ∧
    estimateFeesPaid tx' fq = .ok (totalIn tx' - totalOut tx') := by
  unfold change at h
  simp only at h
  cases he : estimateSizeWithTypes tx with
  | error e => rw [he] at h; simp [changeWith] at h; split at h <;> cases h
  | ok size =>
    rw [he] at h
    obtain ⟨hle, hleft, hsame, happ⟩ := change_fee_left tx fq (.newOutput s) size tx' (by intro idx hh; cases hh) h
    generalize hamtdef : totalIn tx - totalOut tx - changeFee tx fq (.newOutput s) size = amt at happ
    have htx' : tx' = { tx with outputs := tx.outputs ++ [{ sats := amt, script := s }] } := by
      rw [happ]; rfl
    -- the amount added is below the input total
    have hamt : amt < 2 ^ 64 := by
      have : totalOut tx' = totalOut tx + amt := by
        rw [htx']; simp [totalOut]
      omega
    have hne : tx.inputs ≠ [] := by
      intro e
      have : totalIn tx = 0 := by simp [totalIn, e]
      have : totalOut tx' = totalOut tx + amt := by rw [htx']; simp [totalOut]
      -- with no inputs nothing is available, so no change could have been added
      unfold changeWith at h
      simp only [‹totalIn tx = 0›] at h
      split at h
      · cases h
      · simp only [Nat.zero_sub, Nat.zero_le, true_or, ↓reduceIte] at h
        split at h <;> simp at h
    refine ⟨hle, ?_⟩
    unfold estimateFeesPaid
    rw [htx', estimate_with_change_output tx hwf hne s amt hamt hs hn hnd size he]
    simp only [bind, Except.bind, pure, Except.pure, feesPaid, Except.ok.injEq]
    rw [← htx', hleft]
    rfl

/-! ### non-vacuity: the dust boundary -/
example : changeWith
    { version := 1, lockTime := 0, outputs := [],
      inputs := [ { prevTxID := [], vout := 0, unlocking := none, sequence := 0, prevSats := 1000 } ] }
    { stdSat := 1, stdBytes := 2, dataSat := 1, dataBytes := 1 } (.newOutput [0x51])
    (.ok { total := 100, std := 100, data := 0 }) =
    .ok ({ version := 1, lockTime := 0, outputs := [{ sats := 945, script := [0x51] }],
           inputs := [ { prevTxID := [], vout := 0, unlocking := none, sequence := 0, prevSats := 1000 } ] }, true) := by
  rfl

/-- ✓gen — bt.DustLimit is the dust limit of the model -/
theorem dust_limit_matches : GoBT.Gen.intConsts.lookup "bt.DustLimit" = some (dustLimit : Int) := by
  decide +kernel

end GoBT.C10
