/-
  C14 — script inspection is total and classifies by the standard templates.
  Model ↔ code: GoBT/Script/Classify.lean mirrors bscript/script.go with every Go index expression
  made an explicit `[i]?` whose `none` is the run-time panic.  "Never panics" is then the statement that
  no query evaluates to `none`.
-/
import GoBT.Script.Classify
import GoBT.Script.IndexReviewLib
import GoBT.Props.C13
import GoBT.Script.TokLemmas
import GoBT.Script.Build
namespace GoBT.C14
open GoBT GoBT.Script

private theorem uncons {l : List UInt8} {n : Nat} (h : l.length = n + 1) : ∃ a t, l = a :: t ∧ t.length = n := by
  cases l with
  | nil => simp at h
  | cons a t => exact ⟨a, t, rfl, by simpa using h⟩

private theorem head?_of_pos {α : Type} (l : List α) (h : l.length > 0) : ∃ a, l[0]? = some a := by
  cases l with
  | nil => simp at h
  | cons a t => exact ⟨a, rfl⟩

theorem isP2PK_total (s : Bytes) : (isP2PK s).isSome = true := by
  unfold isP2PK
  generalize decodeParts s = dp
  obtain ⟨parts, ok⟩ := dp
  cases ok with
  | false => simp
  | true =>
    simp only [Bool.not_true, Bool.false_eq_true, ↓reduceIte]
    split
    · next hl =>
      match parts, hl with
      | [p0, p1], _ =>
        simp only [List.getElem?_cons_zero, List.getElem?_cons_succ, bind, Option.bind]
        split
        · next hg =>
          simp only [Bool.and_eq_true, decide_eq_true_eq] at hg
          obtain ⟨a, ha⟩ := head?_of_pos p0 hg.1
          obtain ⟨b, hb⟩ := head?_of_pos p1 hg.2
          simp only [ha, hb]
          repeat' split
          all_goals simp [pure]
        · simp [pure]
    · simp

theorem isMultiSigOut_total (s : Bytes) : (isMultiSigOut s).isSome = true := by
  unfold isMultiSigOut
  generalize decodeParts s = dp
  obtain ⟨parts, ok⟩ := dp
  cases ok with
  | false => simp
  | true =>
    simp only [Bool.not_true, Bool.false_eq_true, ↓reduceIte]
    split
    · simp
    · next hl =>
      have h0 : ∃ p0, parts[0]? = some p0 := ⟨parts[0]'(by omega), List.getElem?_eq_getElem (by omega)⟩
      have hm : ∃ pm, parts[parts.length - 2]? = some pm := ⟨parts[parts.length - 2]'(by omega), List.getElem?_eq_getElem (by omega)⟩
      have hlast : ∃ pl, parts[parts.length - 1]? = some pl := ⟨parts[parts.length - 1]'(by omega), List.getElem?_eq_getElem (by omega)⟩
      obtain ⟨p0, e0⟩ := h0
      obtain ⟨pm, em⟩ := hm
      obtain ⟨pl, el⟩ := hlast
      simp only [e0, em, el, bind, Option.bind]
      split
      · first | rfl | simp [pure] | simp
      · next hne =>
        have hp : p0.length > 0 := by
          simp only [beq_iff_eq] at hne; omega
        obtain ⟨b0, hb0⟩ := head?_of_pos p0 hp
        simp only [hb0]
        split
        · first | rfl | simp [pure] | simp
        · split
          · first | rfl | simp [pure] | simp
          · split
            · next hpm =>
              obtain ⟨bm, hbm⟩ := head?_of_pos pm (by simpa using hpm)
              simp only [hbm]
              split
              · next hc =>
                simp only [Bool.and_eq_true, decide_eq_true_eq] at hc
                obtain ⟨bl, hbl⟩ := head?_of_pos pl hc.2
                simp [hbl, pure]
              · first | rfl | simp [pure] | simp
            · first | rfl | simp [pure] | simp

/-- under the guards, every part the inscription helper looks at has the bytes it reads -/
theorem isP2PKHInscriptionParts_total (parts : List Bytes) : (isP2PKHInscriptionParts parts).isSome = true := by
  unfold isP2PKHInscriptionParts
  split
  · simp
  · next hl =>
    split
    · simp
    · next hreq =>
      split
      · simp
      · next h7 =>
        split
        · simp
        · next h13 =>
          -- name the thirteen parts
          have hlen : 13 ≤ parts.length := by omega
          have get : ∀ i, i < 13 → ∃ p, parts[i]? = some p := fun i hi =>
            ⟨parts[i]'(by omega), List.getElem?_eq_getElem (by omega)⟩
          simp only [List.any_eq_true, not_exists, not_and, beq_iff_eq, inscRequired] at hreq
          have pos : ∀ i ∈ [0, 1, 3, 4, 5, 6, 8, 10, 12], ∃ p b, parts[i]? = some p ∧ p[0]? = some b := by
            intro i hi
            have hi13 : i < 13 := by
              simp only [List.mem_cons, List.not_mem_nil, or_false] at hi
              omega
            obtain ⟨p, hp⟩ := get i hi13
            have := hreq i hi
            rw [hp] at this
            simp only [Option.getD_some] at this
            obtain ⟨b, hb⟩ := head?_of_pos p (by omega)
            exact ⟨p, b, hp, hb⟩
          obtain ⟨q0, b0, e0, f0⟩ := pos 0 (by simp)
          obtain ⟨q1, b1, e1, f1⟩ := pos 1 (by simp)
          obtain ⟨q3, b3, e3, f3⟩ := pos 3 (by simp)
          obtain ⟨q4, b4, e4, f4⟩ := pos 4 (by simp)
          obtain ⟨q5, b5, e5, f5⟩ := pos 5 (by simp)
          obtain ⟨q6, b6, e6, f6⟩ := pos 6 (by simp)
          obtain ⟨q8, b8, e8, f8⟩ := pos 8 (by simp)
          obtain ⟨q10, b10, e10, f10⟩ := pos 10 (by simp)
          obtain ⟨q12, b12, e12, f12⟩ := pos 12 (by simp)
          obtain ⟨q7, e7⟩ := get 7 (by omega)
          rw [e7] at h7
          simp only [Option.getD_some, Nat.not_lt] at h7
          have g0 : ∃ c, q7[0]? = some c := ⟨q7[0]'(by omega), List.getElem?_eq_getElem (by omega)⟩
          have g1 : ∃ c, q7[1]? = some c := ⟨q7[1]'(by omega), List.getElem?_eq_getElem (by omega)⟩
          have g2 : ∃ c, q7[2]? = some c := ⟨q7[2]'(by omega), List.getElem?_eq_getElem (by omega)⟩
          obtain ⟨c0, hc0⟩ := g0
          obtain ⟨c1, hc1⟩ := g1
          obtain ⟨c2, hc2⟩ := g2
          simp only [e0, e1, e3, e4, e5, e6, e7, e8, e10, e12, f0, f1, f3, f4, f5, f6, f8, f10, f12, hc0, hc1, hc2,
            bind, Option.bind, pure]
          split
          · next hgt =>
            have hgt' : 13 < parts.length := by simpa using hgt
            have h13' : ∃ p, parts[13]? = some p := ⟨parts[13]'hgt', List.getElem?_eq_getElem hgt'⟩
            obtain ⟨q13, e13⟩ := h13'
            rcases q13 with _ | ⟨b13, t13⟩
            · rw [e13] at h13; simp [hgt'] at h13
            · simp [e13]
          · simp

theorem isP2PKHInscription_total (s : Bytes) : (isP2PKHInscription s).isSome = true := by
  unfold isP2PKHInscription
  generalize decodeParts s = dp
  obtain ⟨parts, ok⟩ := dp
  cases ok with
  | false => simp
  | true => simpa using isP2PKHInscriptionParts_total parts

/-- the part walk of ParseInscription never indexes outside the script (guarded) nor outside the first twelve of at
    least twelve parts -/
theorem inscZeroFlags_total (s : Bytes) (parts : List Bytes) (h12 : 12 ≤ parts.length) :
    ∀ (fuel i off : Nat) (z9 z11 : Bool), (inscZeroFlags s parts fuel i off z9 z11).isSome = true := by
  intro fuel
  induction fuel with
  | zero => intros; rfl
  | succ n ih =>
    intro i off z9 z11
    unfold inscZeroFlags
    by_cases hc : (i > 11 || off ≥ s.length) = true
    · simp [hc]
    · simp only [Bool.or_eq_true, decide_eq_true_eq, not_or, Nat.not_lt, Nat.not_le] at hc
      have hs : s[off]? = some (s[off]'hc.2) := List.getElem?_eq_getElem hc.2
      have hp : parts[i]? = some (parts[i]'(by omega)) := List.getElem?_eq_getElem (by omega)
      have hn : ¬ (i > 11 || off ≥ s.length) = true := by simp; omega
      simp only [hn, Bool.false_eq_true, ↓reduceIte, hs, hp, bind, Option.bind, pure]
      exact ih _ _ _ _

/-- For every byte string, every inspection query returns a value or an error — none of them panics. -/
theorem inspect_no_panic (s : Bytes) :
    (scriptType s).isSome = true ∧ (isP2PK s).isSome = true ∧ (isMultiSigOut s).isSome = true ∧
    (isP2PKHInscription s).isSome = true ∧ (publicKeyHash s).isSome = true ∧
    (parseInscription s).isSome = true := by
  obtain ⟨a, ha⟩ := Option.isSome_iff_exists.mp (isP2PK_total s)
  obtain ⟨b, hb⟩ := Option.isSome_iff_exists.mp (isMultiSigOut_total s)
  obtain ⟨c, hc⟩ := Option.isSome_iff_exists.mp (isP2PKHInscription_total s)
  refine ⟨?_, isP2PK_total s, isMultiSigOut_total s, isP2PKHInscription_total s, ?_, ?_⟩
  · unfold scriptType
    simp only [ha, hb, hc, bind, Option.bind, pure]
    repeat' split
    all_goals simp
  · unfold publicKeyHash
    split
    · simp
    · split
      · simp
      · next h1 h2 =>
        generalize hd : decodeParts (s.drop 2) = dp
        obtain ⟨parts, ok⟩ := dp
        cases ok with
        | false => simp
        | true =>
          -- the remainder is non-empty, so decoding produced at least one part
          have hlen : (s.drop 2).length > 0 := by
            simp only [Bool.or_eq_true, bne_iff_ne, ne_eq, decide_eq_true_eq, not_or, Decidable.not_not, Nat.not_le] at h2
            simp; omega
          have : parts ≠ [] := by
            intro e
            subst e
            unfold decodeParts at hd
            cases hs : s.drop 2 with
            | nil => rw [hs] at hlen; simp at hlen
            | cons x xs =>
              rw [hs] at hd
              simp only [List.length_cons, decodePartsAux] at hd
              split at hd
              · cases hd
              · simp at hd
          cases parts with
          | nil => exact absurd rfl this
          | cons p ps => simp [bind, Option.bind, pure]
  · unfold parseInscription
    generalize decodeParts s = dp
    obtain ⟨parts, ok⟩ := dp
    cases ok with
    | false => simp
    | true =>
      obtain ⟨v, hv⟩ := Option.isSome_iff_exists.mp (isP2PKHInscriptionParts_total parts)
      simp only [Bool.not_true, Bool.false_eq_true, ↓reduceIte, hv, bind, Option.bind, pure]
      cases v with
      | false => simp
      | true =>
        simp only [Bool.not_true, Bool.false_eq_true, ↓reduceIte]
        split
        · simp
        · -- the helper returned true, so there are at least 13 parts: parts[9], parts[11] exist
          have h13 : 13 ≤ parts.length := by
            rcases Nat.lt_or_ge parts.length 13 with hc | hc
            · simp [isP2PKHInscriptionParts, hc] at hv
            · exact hc
          have g9 : ∃ p, parts[9]? = some p := ⟨parts[9]'(by omega), List.getElem?_eq_getElem (by omega)⟩
          have g11 : ∃ p, parts[11]? = some p := ⟨parts[11]'(by omega), List.getElem?_eq_getElem (by omega)⟩
          obtain ⟨p9, e9⟩ := g9
          obtain ⟨p11, e11⟩ := g11
          obtain ⟨z, hz⟩ := Option.isSome_iff_exists.mp (inscZeroFlags_total s parts (by omega) 12 0 0 false false)
          simp only [e9, e11, hz]
          rfl

/-- A script is reported as P2PKH exactly when it is the 25-byte template
    OP_DUP OP_HASH160 <20 bytes> OP_EQUALVERIFY OP_CHECKSIG. -/
theorem p2pkh_iff_template (s : Bytes) :
    scriptType s = some .pubkeyhash ↔
      ∃ h : Bytes, h.length = 20 ∧ s = [opDUP, opHASH160, 0x14] ++ h ++ [opEQUALVERIFY, opCHECKSIG] := by
  have key : isP2PKH s = true ↔
      ∃ h : Bytes, h.length = 20 ∧ s = [opDUP, opHASH160, 0x14] ++ h ++ [opEQUALVERIFY, opCHECKSIG] := by
    constructor
    · intro hp
      simp only [isP2PKH, Bool.and_eq_true, beq_iff_eq] at hp
      obtain ⟨⟨⟨⟨⟨hl0, h0⟩, h1⟩, h2⟩, h23⟩, h24⟩ := hp
      obtain ⟨a0, t1, rfl, hl1⟩ := uncons hl0
      obtain ⟨a1, t2, rfl, hl2⟩ := uncons hl1
      obtain ⟨a2, t3, rfl, hl3⟩ := uncons hl2
      obtain ⟨a3, t4, rfl, hl4⟩ := uncons hl3
      obtain ⟨a4, t5, rfl, hl5⟩ := uncons hl4
      obtain ⟨a5, t6, rfl, hl6⟩ := uncons hl5
      obtain ⟨a6, t7, rfl, hl7⟩ := uncons hl6
      obtain ⟨a7, t8, rfl, hl8⟩ := uncons hl7
      obtain ⟨a8, t9, rfl, hl9⟩ := uncons hl8
      obtain ⟨a9, t10, rfl, hl10⟩ := uncons hl9
      obtain ⟨a10, t11, rfl, hl11⟩ := uncons hl10
      obtain ⟨a11, t12, rfl, hl12⟩ := uncons hl11
      obtain ⟨a12, t13, rfl, hl13⟩ := uncons hl12
      obtain ⟨a13, t14, rfl, hl14⟩ := uncons hl13
      obtain ⟨a14, t15, rfl, hl15⟩ := uncons hl14
      obtain ⟨a15, t16, rfl, hl16⟩ := uncons hl15
      obtain ⟨a16, t17, rfl, hl17⟩ := uncons hl16
      obtain ⟨a17, t18, rfl, hl18⟩ := uncons hl17
      obtain ⟨a18, t19, rfl, hl19⟩ := uncons hl18
      obtain ⟨a19, t20, rfl, hl20⟩ := uncons hl19
      obtain ⟨a20, t21, rfl, hl21⟩ := uncons hl20
      obtain ⟨a21, t22, rfl, hl22⟩ := uncons hl21
      obtain ⟨a22, t23, rfl, hl23⟩ := uncons hl22
      obtain ⟨a23, t24, rfl, hl24⟩ := uncons hl23
      obtain ⟨a24, t25, rfl, hl25⟩ := uncons hl24
      have ht : t25 = [] := List.length_eq_zero_iff.mp hl25
      subst ht
      simp only [List.getElem?_cons_zero, List.getElem?_cons_succ, Option.some.injEq] at h0 h1 h2 h23 h24
      subst h0 h1 h2 h23 h24
      exact ⟨[a3, a4, a5, a6, a7, a8, a9, a10, a11, a12, a13, a14, a15, a16, a17, a18, a19, a20, a21, a22], rfl, rfl⟩
    · rintro ⟨h, hl, rfl⟩
      simp [isP2PKH, hl, List.getElem?_append_right, List.getElem?_append_left]
  constructor
  · intro ht
    apply key.mp
    unfold scriptType at ht
    split at ht
    · cases ht
    · split at ht
      · assumption
      · -- the remaining branches never yield `.pubkeyhash`
        obtain ⟨a, ha⟩ := Option.isSome_iff_exists.mp (isP2PK_total s)
        obtain ⟨b, hb⟩ := Option.isSome_iff_exists.mp (isMultiSigOut_total s)
        obtain ⟨c, hc⟩ := Option.isSome_iff_exists.mp (isP2PKHInscription_total s)
        simp only [ha, hb, hc, bind, Option.bind, pure] at ht
        repeat' split at ht
        all_goals cases ht
  · intro h
    have hp := key.mpr h
    have hlen : (s.length == 0) = false := by
      simp only [isP2PKH, Bool.and_eq_true, beq_iff_eq] at hp
      simp [hp.1.1.1.1.1]
    unfold scriptType
    simp [hp, hlen]

/-! ### scripts that instantiate a standard template are reported as that type -/

/-- **Data carrier template**: a script that starts with OP_RETURN, or with OP_FALSE OP_RETURN, is reported as data. -/
theorem data_template_classified (s : Bytes)
    (h : s[0]? = some opRETURN ∨ (s[0]? = some 0x00 ∧ s[1]? = some opRETURN)) : scriptType s = some .nulldata := by
  have hne : (s.length == 0) = false := by
    cases s with
    | nil => rcases h with h | h <;> simp at h
    | cons a t => simp
  have hp : isP2PKH s = false := by
    unfold isP2PKH
    rcases h with h | ⟨h, _⟩ <;> simp [h, opRETURN, opDUP]
  have hd : isData s = true := by
    unfold isData
    cases s with
    | nil => simp at hne
    | cons a t =>
      rcases h with h | ⟨h0, h1⟩
      · simp only [List.getElem?_cons_zero, Option.some.injEq] at h
        simp [h]
      · cases t with
        | nil => simp at h1
        | cons b u =>
          simp only [List.getElem?_cons_zero, List.getElem?_cons_succ, Option.some.injEq] at h0 h1
          simp [h0, h1]
  unfold scriptType
  simp [hne, hp, hd]

/-- **Pay-to-public-key template**: `<key> OP_CHECKSIG` with a 33-byte key starting 02/03 or a 65-byte key starting
    04/06/07 is reported as `pubkey`. -/
theorem p2pk_template_classified (key : Bytes)
    (hk : (key.length = 33 ∧ (key[0]? = some 0x02 ∨ key[0]? = some 0x03)) ∨
          (key.length = 65 ∧ (key[0]? = some 0x04 ∨ key[0]? = some 0x06 ∨ key[0]? = some 0x07))) :
    ∃ s, C13.encToks [.push key, .op opCHECKSIG] = some s ∧ scriptType s = some .pubkey := by
  have hok : ∀ t ∈ [C13.Tok.push key, C13.Tok.op opCHECKSIG], t.ok := by
    intro t ht
    simp only [List.mem_cons, List.mem_nil_iff, or_false] at ht
    rcases ht with rfl | rfl
    · simp only [C13.Tok.ok]; rcases hk with ⟨h, _⟩ | ⟨h, _⟩ <;> omega
    · simp [C13.Tok.ok, opCHECKSIG]
  obtain ⟨enc, he, hd⟩ := C13.decode_toks _ hok
  refine ⟨enc, he, ?_⟩
  have hdec : decodeParts enc = ([key, [opCHECKSIG]], true) := by
    unfold decodeParts; simpa [C13.Tok.part] using hd enc.length (Nat.le_refl _)
  -- the concrete bytes
  have henc : enc = (if key.length = 33 then [0x21] else [0x41]) ++ key ++ [opCHECKSIG] := by
    rcases hk with ⟨h, _⟩ | ⟨h, _⟩ <;>
      (simp [C13.encToks, C13.Tok.enc, pushPrefix, h, bind, Option.bind] at he; rw [← he]; simp [h])
  have hlen : enc.length = key.length + 2 := by rw [henc]; split <;> simp
  have h0 : enc[0]? = some (if key.length = 33 then 0x21 else 0x41) := by rw [henc]; split <;> simp
  have hne : (enc.length == 0) = false := by rw [hlen]; simp
  have hp : isP2PKH enc = false := by
    unfold isP2PKH
    have : (enc.length == 25) = false := by rw [hlen]; rcases hk with ⟨h, _⟩ | ⟨h, _⟩ <;> simp [h]
    simp [this]
  have hdt : isData enc = false := by
    unfold isData
    rw [h0]
    split <;> simp [opRETURN]
  have hpk : isP2PK enc = some true := by
    unfold isP2PK
    simp only [hdec, Bool.not_true, Bool.false_eq_true, ↓reduceIte, List.length_cons, List.length_nil, beq_self_eq_true,
      List.getElem?_cons_zero, List.getElem?_cons_succ, bind, Option.bind, pure]
    cases key with
    | nil => rcases hk with ⟨h, _⟩ | ⟨h, _⟩ <;> simp at h
    | cons k0 kt =>
      simp only [List.getElem?_cons_zero, Option.some.injEq] at hk
      rcases hk with ⟨h, hv⟩ | ⟨h, hv⟩
      · rcases hv with hv | hv <;> (subst hv; simp [h, opCHECKSIG])
      · rcases hv with hv | hv | hv <;> (subst hv; simp [h, opCHECKSIG])
  unfold scriptType
  simp [hne, hp, hdt, hpk, bind, Option.bind]

/-- **Bare multisig template**: `OP_m <key>… OP_n OP_CHECKMULTISIG` — `m`, `n` small-integer opcodes, any number of
    non-empty keys — is reported as `multisig`. -/
theorem multisig_template_classified (m n : UInt8) (keys : List Bytes)
    (hm : isSmallIntOp m = true) (hn : isSmallIntOp n = true) (hkeys : ∀ k ∈ keys, 1 ≤ k.length ∧ k.length < 2 ^ 32) :
    ∃ s, C13.encToks (.op m :: keys.map .push ++ [.op n, .op opCHECKMULTISIG]) = some s ∧ scriptType s = some .multisig := by
  have small : ∀ b : UInt8, isSmallIntOp b = true → b = 0x00 ∨ (0x51 ≤ b.toNat ∧ b.toNat ≤ 0x60) := by
    intro b hb
    unfold isSmallIntOp at hb
    simp only [Bool.or_eq_true, beq_iff_eq, Bool.and_eq_true, decide_eq_true_eq] at hb
    exact hb
  have opok : ∀ b : UInt8, isSmallIntOp b = true → (C13.Tok.op b).ok := by
    intro b hb
    simp only [C13.Tok.ok]
    rcases small b hb with rfl | h
    · decide
    · omega
  have hok : ∀ t ∈ (C13.Tok.op m :: keys.map C13.Tok.push ++ [C13.Tok.op n, C13.Tok.op opCHECKMULTISIG]), t.ok := by
    intro t ht
    simp only [List.cons_append, List.mem_cons, List.mem_append, List.mem_map, List.mem_nil_iff, or_false] at ht
    rcases ht with rfl | ⟨k, hk, rfl⟩ | rfl | rfl
    · exact opok m hm
    · exact hkeys k hk
    · exact opok n hn
    · simp [C13.Tok.ok, opCHECKMULTISIG]
  obtain ⟨enc, he, hd⟩ := C13.decode_toks _ hok
  refine ⟨enc, he, ?_⟩
  have hparts : decodeParts enc = ([m] :: keys ++ [[n], [opCHECKMULTISIG]], true) := by
    unfold decodeParts
    have := hd enc.length (Nat.le_refl _)
    simpa [C13.Tok.part, List.map_append, Function.comp_def] using this
  -- shape of the bytes: the first is `m`; the second is a push opcode or `n`
  have hshape : ∃ rest, enc = m :: rest ∧ (∀ b, rest[0]? = some b → b ≠ opRETURN) := by
    simp only [List.cons_append, C13.encToks, C13.Tok.enc, bind, Option.bind] at he
    cases hr : C13.encToks (keys.map C13.Tok.push ++ [C13.Tok.op n, C13.Tok.op opCHECKMULTISIG]) with
    | none => simp [hr] at he
    | some rest =>
      simp only [hr, pure, Option.some.injEq, List.cons_append, List.nil_append] at he
      refine ⟨rest, he.symm, ?_⟩
      cases keys with
      | nil =>
        simp only [List.map_nil, List.nil_append, C13.encToks, C13.Tok.enc, bind, Option.bind, pure, Option.some.injEq] at hr
        subst hr
        intro b hb
        simp only [List.cons_append, List.nil_append, List.getElem?_cons_zero, Option.some.injEq] at hb
        subst hb
        rcases small n hn with rfl | h
        · decide
        · intro e; subst e; simp [opRETURN] at h
      | cons k ks =>
        obtain ⟨b0, r0, hb0, h1, h2⟩ := push_enc_head k (hkeys k (by simp))
        simp only [List.map_cons, List.cons_append, C13.encToks, hb0, bind, Option.bind] at hr
        cases hr2 : C13.encToks (ks.map C13.Tok.push ++ [C13.Tok.op n, C13.Tok.op opCHECKMULTISIG]) with
        | none => simp [hr2] at hr
        | some r2 =>
          simp only [hr2, pure, Option.some.injEq, List.cons_append] at hr
          subst hr
          intro b hb
          simp only [List.getElem?_cons_zero, Option.some.injEq] at hb
          subst hb
          intro e; subst e; simp [opRETURN] at h2
  obtain ⟨rest, henc, hsnd⟩ := hshape
  have hne : (enc.length == 0) = false := by rw [henc]; simp
  have hp : isP2PKH enc = false := by
    unfold isP2PKH
    have : (enc[0]? == some opDUP) = false := by
      rw [henc]
      simp only [List.getElem?_cons_zero]
      rcases small m hm with rfl | h
      · decide
      · have : m ≠ opDUP := by intro e; subst e; simp [opDUP] at h
        simp [this]
    simp [this]
  have hdt : isData enc = false := by
    unfold isData
    rw [henc]
    have h0 : m ≠ opRETURN := by
      rcases small m hm with rfl | h
      · decide
      · intro e; subst e; simp [opRETURN] at h
    simp only [List.getElem?_cons_zero, List.getElem?_cons_succ, Option.some.injEq, List.length_cons]
    cases hr0 : rest[0]? with
    | none => simp [h0]
    | some b => have := hsnd b hr0; simp [h0, this]
  have hpk : isP2PK enc = some false := by
    unfold isP2PK
    simp [hparts]
  have hms : isMultiSigOut enc = some true := by
    obtain ⟨parts, hpe⟩ : ∃ parts, parts = [m] :: keys ++ [[n], [opCHECKMULTISIG]] := ⟨_, rfl⟩
    have hlen : parts.length = keys.length + 3 := by rw [hpe]; simp
    have h0 : parts[0]? = some [m] := by rw [hpe]; rfl
    have hmid : (parts.drop 1).take (parts.length - 3) = keys := by
      rw [hlen, hpe]
      simp only [List.cons_append, List.drop_succ_cons, List.drop_zero, Nat.add_sub_cancel]
      exact List.take_left' rfl
    have hpm : parts[parts.length - 2]? = some [n] := by
      rw [hlen, hpe]
      have : keys.length + 3 - 2 = keys.length + 1 := by omega
      rw [this]
      simp only [List.cons_append, List.getElem?_cons_succ]
      rw [List.getElem?_append_right (Nat.le_refl _)]
      simp
    have hpl : parts[parts.length - 1]? = some [opCHECKMULTISIG] := by
      rw [hlen, hpe]
      have : keys.length + 3 - 1 = keys.length + 1 + 1 := by omega
      rw [this]
      simp only [List.cons_append, List.getElem?_cons_succ]
      rw [List.getElem?_append_right (by omega)]
      simp
    have hany : (keys.any fun p => decide (p.length < 1)) = false := by
      rw [List.any_eq_false]
      intro k hk
      have h1 := (hkeys k hk).1
      simp only [decide_eq_true_eq, Nat.not_lt]
      exact h1
    rw [← hpe] at hparts
    unfold isMultiSigOut
    have hl : ¬ (parts.length < 3) := by omega
    simp only [hparts, Bool.not_true, Bool.false_eq_true, ↓reduceIte, hl, h0, bind, Option.bind, List.length_singleton,
      show ((1 : Nat) == 0) = false from rfl, List.getElem?_cons_zero, hm, hmid, hany, hpm, hpl, pure,
      show (1 : Nat) > 0 from Nat.one_pos, hn, Bool.true_and, decide_true, beq_self_eq_true]

  unfold scriptType
  simp [hne, hp, hdt, hpk, hms, bind, Option.bind]

/-- a pushed item as a token: OP_0 for the empty string (what AppendPushData writes), else a push -/
def itemTok (d : Bytes) : C13.Tok := if d.length = 0 then .op 0x00 else .push d

/-- **P2PKH-inscription template**: the P2PKH template for a 20-byte hash followed by
    `OP_0 OP_IF "ord" OP_1 <content type> OP_0 <data> OP_ENDIF` (content type and data of any length below 2^32, empty
    ones written as OP_0) is reported as `pubkeyhashinscription`. -/
theorem inscription_template_classified (h ct data : Bytes) (hh : h.length = 20)
    (hct : ct.length < 2 ^ 32) (hdata : data.length < 2 ^ 32) :
    ∃ s, C13.encToks [.op opDUP, .op opHASH160, .push h, .op opEQUALVERIFY, .op opCHECKSIG, .op 0x00, .op opIF,
        .push [0x6f, 0x72, 0x64], .op opTRUE, itemTok ct, .op 0x00, itemTok data, .op opENDIFc] = some s ∧
      scriptType s = some .inscription := by
  have itemOk : ∀ d : Bytes, d.length < 2 ^ 32 → (itemTok d).ok := by
    intro d hd
    unfold itemTok
    split
    · simp [C13.Tok.ok]
    · simp only [C13.Tok.ok]; omega
  have hok : ∀ t ∈ [C13.Tok.op opDUP, .op opHASH160, .push h, .op opEQUALVERIFY, .op opCHECKSIG, .op 0x00, .op opIF,
        .push [0x6f, 0x72, 0x64], .op opTRUE, itemTok ct, .op 0x00, itemTok data, .op opENDIFc], t.ok := by
    intro t ht
    simp only [List.mem_cons, List.mem_nil_iff, or_false] at ht
    rcases ht with rfl | rfl | rfl | rfl | rfl | rfl | rfl | rfl | rfl | rfl | rfl | rfl | rfl
    · simp [C13.Tok.ok, opDUP]
    · simp [C13.Tok.ok, opHASH160]
    · simp only [C13.Tok.ok]; omega
    · simp [C13.Tok.ok, opEQUALVERIFY]
    · simp [C13.Tok.ok, opCHECKSIG]
    · simp [C13.Tok.ok]
    · simp [C13.Tok.ok, opIF]
    · simp [C13.Tok.ok]
    · simp [C13.Tok.ok, opTRUE]
    · exact itemOk ct hct
    · simp [C13.Tok.ok]
    · exact itemOk data hdata
    · simp [C13.Tok.ok, opENDIFc]
  obtain ⟨enc, he, hd⟩ := C13.decode_toks _ hok
  refine ⟨enc, he, ?_⟩
  have hparts : decodeParts enc = ([[opDUP], [opHASH160], h, [opEQUALVERIFY], [opCHECKSIG], [0x00], [opIF],
      [0x6f, 0x72, 0x64], [opTRUE], (itemTok ct).part, [0x00], (itemTok data).part, [opENDIFc]], true) := by
    unfold decodeParts
    simpa [C13.Tok.part] using hd enc.length (Nat.le_refl _)
  -- the bytes start with OP_DUP and are longer than 25
  have hshape : ∃ rest, enc = opDUP :: opHASH160 :: rest ∧ 25 < enc.length := by
    obtain ⟨a1, r1, ha1, hr1, e1⟩ := encToks_cons _ _ _ he
    obtain ⟨a2, r2, ha2, hr2, e2⟩ := encToks_cons _ _ _ hr1
    obtain ⟨a3, r3, ha3, hr3, e3⟩ := encToks_cons _ _ _ hr2
    simp only [C13.Tok.enc, Option.some.injEq] at ha1 ha2
    subst ha1 ha2
    have h3 : a3.length = 21 := by
      simp only [C13.Tok.enc, pushPrefix, hh, show (20 : Nat) ≤ 75 from by decide, ↓reduceIte, Option.map_some,
        Option.some.injEq] at ha3
      rw [← ha3]; simp [hh]
    have h10 := encToks_length_ge _ _ hr3 (fun t ht => hok t (by simp only [List.mem_cons] at ht ⊢; grind))
    simp only [List.length_cons, List.length_nil] at h10
    refine ⟨a3 ++ r3, by rw [e1, e2, e3]; rfl, ?_⟩
    rw [e1, e2, e3]
    simp only [List.length_append, List.length_cons, List.length_nil, h3]
    omega
  obtain ⟨rest, henc, hlen⟩ := hshape
  have hne : (enc.length == 0) = false := by rw [beq_eq_false_iff_ne]; omega
  have hp : isP2PKH enc = false := by
    unfold isP2PKH
    have : (enc.length == 25) = false := by rw [beq_eq_false_iff_ne]; omega
    simp [this]
  have hdt : isData enc = false := by
    unfold isData
    rw [henc]
    simp [opDUP, opRETURN]
  have hpk : isP2PK enc = some false := by
    unfold isP2PK
    simp [hparts]
  have hms : isMultiSigOut enc = some false := by
    unfold isMultiSigOut
    simp [hparts, isSmallIntOp, opDUP, bind, Option.bind, pure]
  have hpart : ∀ d : Bytes, (itemTok d).part ≠ [] := by
    intro d
    unfold itemTok
    split
    · simp [C13.Tok.part]
    · next hne => simp only [C13.Tok.part]; intro e; subst e; simp at hne
  have hin : isP2PKHInscription enc = some true := by
    unfold isP2PKHInscription
    simp only [hparts, Bool.not_true, Bool.false_eq_true, ↓reduceIte]
    unfold isP2PKHInscriptionParts inscRequired
    have hhne : (h.length == 0) = false := by rw [hh]; rfl
    have c1 : ((itemTok ct).part.length == 0) = false := by
      rw [beq_eq_false_iff_ne]; intro e; exact hpart ct (List.length_eq_zero_iff.mp e)
    have c2 : ((itemTok data).part.length == 0) = false := by
      rw [beq_eq_false_iff_ne]; intro e; exact hpart data (List.length_eq_zero_iff.mp e)
    simp [opDUP, opHASH160, opEQUALVERIFY, opCHECKSIG, opIF, opTRUE, opENDIFc, bind, Option.bind, pure]
  unfold scriptType
  simp [hne, hp, hdt, hpk, hms, hin, bind, Option.bind]

/-- A script is reported as data only if it starts with OP_RETURN or OP_FALSE OP_RETURN. -/
theorem data_only_if_prefix (s : Bytes) (h : scriptType s = some .nulldata) :
    (∃ r, s = opRETURN :: r) ∨ (∃ r, s = 0x00 :: opRETURN :: r) := by
  have hd : isData s = true := by
    unfold scriptType at h
    split at h
    · cases h
    · split at h
      · cases h
      · obtain ⟨a, ha⟩ := Option.isSome_iff_exists.mp (isP2PK_total s)
        obtain ⟨b, hb⟩ := Option.isSome_iff_exists.mp (isMultiSigOut_total s)
        obtain ⟨c, hc⟩ := Option.isSome_iff_exists.mp (isP2PKHInscription_total s)
        simp only [ha, hb, hc, bind, Option.bind, pure] at h
        repeat' split at h
        all_goals first | assumption | cases h
  simp only [isData, Bool.or_eq_true, Bool.and_eq_true, decide_eq_true_eq, beq_iff_eq] at hd
  rcases hd with ⟨_, h0⟩ | ⟨⟨_, h0⟩, h1⟩
  · left
    cases s with
    | nil => simp at h0
    | cons a r => simp at h0; exact ⟨r, by rw [h0]⟩
  · right
    match s, h0, h1 with
    | a :: b :: r, h0, h1 => simp at h0 h1; exact ⟨r, by rw [h0, h1]⟩

/-- Undecodable scripts are never reported as a key-bearing type. -/
theorem undecodable_not_keybearing (s : Bytes) (h : (decodeParts s).2 = false) :
    scriptType s ≠ some .pubkey ∧ scriptType s ≠ some .multisig ∧ scriptType s ≠ some .inscription := by
  have e1 : isP2PK s = some false := by
    unfold isP2PK; generalize hd : decodeParts s = dp at h; obtain ⟨p, ok⟩ := dp; simp at h; simp [h]
  have e2 : isMultiSigOut s = some false := by
    unfold isMultiSigOut; generalize hd : decodeParts s = dp at h; obtain ⟨p, ok⟩ := dp; simp at h; simp [h]
  have e3 : isP2PKHInscription s = some false := by
    unfold isP2PKHInscription; generalize hd : decodeParts s = dp at h; obtain ⟨p, ok⟩ := dp; simp at h; simp [h]
  unfold scriptType
  simp only [e1, e2, e3, bind, Option.bind, pure]
  refine ⟨?_, ?_, ?_⟩ <;> · repeat' split
                            all_goals simp_all

/-- ✓gen — every index / slice expression in the current sources of bscript belongs to a function reviewed in
    GoBT/Script/IndexReviewLib.lean, with the number of expressions reviewed (a tripwire for model drift) -/
theorem index_sites_reviewed_bscript : GoBT.Script.indexReviewBscriptOk = true := by decide +kernel

/-! ### the data outputs the library builds itself (txoutput.go) -/

/-- **The data output the library builds itself** (`CreateOpReturnOutput`, `Tx.AddOpReturnOutput`, `Tx.AddOpReturnPartsOutput`):
    for every list of data items it can encode, the script is reported as data. -/
theorem opreturn_output_is_data (parts : List Bytes) (s : Bytes) (h : opReturnScript parts = some s) :
    scriptType s = some .nulldata ∧ isData s = true := by
  unfold opReturnScript at h
  cases hp : encodeParts parts with
  | none => simp [hp] at h
  | some p =>
    simp [hp] at h
    subst h
    refine ⟨data_template_classified _ (Or.inr ⟨by simp, by simp⟩), ?_⟩
    simp [isData, opRETURN]

/-- the constructor refuses nothing below 2^32 bytes per item -/
theorem opreturn_output_exists (parts : List Bytes) (h : ∀ p ∈ parts, p.length < 2 ^ 32) :
    (opReturnScript parts).isSome = true := by
  unfold opReturnScript
  simp only [Option.isSome_map]
  induction parts with
  | nil => simp [encodeParts]
  | cons p ps ih =>
    have hp : p.length < 2 ^ 32 := h p (by simp)
    have ih' := ih (fun q hq => h q (by simp [hq]))
    cases he : encodeParts ps with
    | none => simp [he] at ih'
    | some r =>
      have : (pushPrefix p.length).isSome = true := by
        unfold pushPrefix
        repeat' split
        all_goals first | rfl | omega
      cases hpp : pushPrefix p.length with
      | none => simp [hpp] at this
      | some pre => simp [encodeParts, hpp, he]

open GoBT.C13


private theorem encToks_pushes (items : List Bytes) : encToks (items.map Tok.push) = encodeParts items := by
  induction items with
  | nil => rfl
  | cons p ps ih =>
    simp only [List.map_cons, encToks, Tok.enc, encodeParts, ih]
    cases pushPrefix p.length <;> cases encodeParts ps <;> simp

/-- **The data items of a library-built data output are recoverable**: decoding the script `CreateOpReturnOutput` builds
    from non-empty items gives OP_FALSE, OP_RETURN and then exactly the items. -/
theorem opreturn_output_parts (items : List Bytes) (h : ∀ i ∈ items, 1 ≤ i.length ∧ i.length < 2 ^ 32) :
    ∃ s, opReturnScript items = some s ∧ decodeParts s = ([0x00] :: [opRETURN] :: items, true) := by
  have hok : ∀ t ∈ (Tok.op 0x00 :: Tok.op opRETURN :: items.map Tok.push), t.ok := by
    intro t ht
    simp only [List.mem_cons, List.mem_map] at ht
    rcases ht with rfl | rfl | ⟨i, hi, rfl⟩
    · simp [Tok.ok]
    · simp [Tok.ok, opRETURN]
    · exact h i hi
  obtain ⟨enc, he, hd⟩ := decode_toks _ hok
  simp only [encToks, Tok.enc, encToks_pushes] at he
  cases hp : encodeParts items with
  | none => simp [hp] at he
  | some p =>
    simp [hp] at he
    refine ⟨enc, by simp [opReturnScript, hp, ← he], ?_⟩
    have := hd enc.length (Nat.le_refl _)
    simpa [decodeParts, Tok.part, List.map_map, Function.comp_def] using this

/-- the same for the hash-puzzle output of `AddHashPuzzleOutput` -/
theorem hash_puzzle_parts (sh pkh : Bytes) (h1 : 1 ≤ sh.length ∧ sh.length < 2 ^ 32) (h2 : 1 ≤ pkh.length ∧ pkh.length < 2 ^ 32) :
    ∃ s, hashPuzzleScript sh pkh = some s ∧
      decodeParts s = ([[0xa9], sh, [0x88], [0x76], [0xa9], pkh, [0x88], [0xac]], true) := by
  have hok : ∀ t ∈ [Tok.op 0xa9, Tok.push sh, Tok.op 0x88, Tok.op 0x76, Tok.op 0xa9, Tok.push pkh, Tok.op 0x88, Tok.op 0xac], t.ok := by
    intro t ht
    simp only [List.mem_cons, List.not_mem_nil, or_false] at ht
    rcases ht with rfl | rfl | rfl | rfl | rfl | rfl | rfl | rfl
    all_goals first | exact h1 | exact h2 | simp [Tok.ok]
  obtain ⟨enc, he, hd⟩ := decode_toks _ hok
  simp only [encToks, Tok.enc] at he
  cases ha : pushPrefix sh.length with
  | none => simp [ha] at he
  | some a =>
    cases hb : pushPrefix pkh.length with
    | none => simp [ha, hb] at he
    | some b =>
      simp [ha, hb] at he
      refine ⟨enc, by simp [hashPuzzleScript, encodeParts, ha, hb, ← he], ?_⟩
      have := hd enc.length (Nat.le_refl _)
      simpa [decodeParts, Tok.part] using this


/-- **The hash-puzzle output is never mistaken for a key-bearing or data type**: the script `AddHashPuzzleOutput` builds is
    reported as non-standard, whatever the two hashes. -/
theorem hash_puzzle_is_nonstandard (sh pkh s : Bytes) (h1 : 1 ≤ sh.length ∧ sh.length < 2 ^ 32)
    (h2 : 1 ≤ pkh.length ∧ pkh.length < 2 ^ 32) (hs : hashPuzzleScript sh pkh = some s) :
    scriptType s = some .nonstandard := by
  obtain ⟨s', hs', hd⟩ := hash_puzzle_parts sh pkh h1 h2
  rw [hs] at hs'; cases hs'
  -- the script starts with OP_HASH160 and is longer than one byte
  have hshape : ∃ t, s = 0xa9 :: t := by
    unfold hashPuzzleScript at hs
    cases ha : encodeParts [sh] with
    | none => simp [ha] at hs
    | some a =>
      cases hb : encodeParts [pkh] with
      | none => simp [ha, hb] at hs
      | some b => simp [ha, hb] at hs; exact ⟨_, hs.symm⟩
  obtain ⟨t, rfl⟩ := hshape
  have hp2 : isP2PKH (0xa9 :: t) = false := by simp [isP2PKH, opDUP]
  have hdat : isData (0xa9 :: t) = false := by simp [isData, opRETURN]
  have hpk : isP2PK (0xa9 :: t) = some false := by simp [isP2PK, hd]
  have hms : isMultiSigOut (0xa9 :: t) = some false := by simp [isMultiSigOut, hd, isSmallIntOp]
  have hin : isP2PKHInscription (0xa9 :: t) = some false := by simp [isP2PKHInscription, hd, isP2PKHInscriptionParts]
  simp [scriptType, hp2, hdat, hpk, hms, hin]

end GoBT.C14
