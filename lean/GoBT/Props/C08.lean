/-
  C08 — execution has no side effects on caller data and stack items never alias.
  The value-semantics interpreter model (GoBT/Interp/Exec.lean) cannot even express aliasing, so the tie for this
  property is: (1) the correspondence check compares *every* stack item after *every* step with that model —
  an in-place write shows up as a differing twin — and compares the caller's script buffers and tx bytes before
  and after execution; (2) the reference-semantics model below, where the statement "handlers allocate their
  results" implies that duplicated / split / script-backed items keep their values.
-/
import GoBT.Interp.Heap
namespace GoBT.C08
open GoBT GoBT.Interp.Heap

/-- appending a cell never changes what an existing reference designates -/
theorem deref_alloc (h : Heap) (b : Bytes) (r : Ref) (hv : r.valid h) : deref (alloc h b).1 r = deref h r := by
  unfold deref alloc Ref.valid at *
  simp only
  rw [List.getD_eq_getElem?_getD, List.getD_eq_getElem?_getD, List.getElem?_append_left hv]

/-- the new reference designates exactly the allocated bytes -/
theorem deref_alloc_new (h : Heap) (b : Bytes) : deref (alloc h b).1 (alloc h b).2 = b := by
  unfold deref alloc
  simp [List.getD_eq_getElem?_getD]

/-- **No aliasing under the allocate-the-result discipline.**  A unary opcode that allocates its result changes
    the top item to `f` of its value and leaves the value of *every other* item on the stack unchanged — whatever
    sharing there is between them (duplicates, halves of a split, slices of the caller's script). -/
theorem fresh_preserves_others (f : Bytes → Bytes) (s s' : HState) (hvalid : ∀ r ∈ s.ds, r.valid s.heap)
    (h : unaryStep .fresh f s = some s') :
    ∃ v rest, s.values = v :: rest ∧ s'.values = f v :: rest := by
  unfold unaryStep at h
  match hds : s.ds, h with
  | r :: rest, h =>
    simp only [Option.some.injEq] at h
    subst h
    refine ⟨deref s.heap r, rest.map (deref s.heap), by simp [HState.values, hds], ?_⟩
    simp only [HState.values, List.map_cons]
    rw [deref_alloc_new]
    congr 1
    apply List.map_congr_left
    intro x hx
    exact deref_alloc s.heap _ x (hvalid x (by simp [hds, hx]))

/-- DUP only creates a reference: every existing value is unchanged and the new item is a copy. -/
theorem dup_values (s s' : HState) (h : dupStep s = some s') :
    ∃ v rest, s.values = v :: rest ∧ s'.values = v :: v :: rest := by
  unfold dupStep at h
  match hds : s.ds, h with
  | r :: rest, h =>
    cases h
    exact ⟨deref s.heap r, rest.map (deref s.heap), by simp [HState.values, hds], by simp [HState.values]⟩

/-- SPLIT only creates references into the same array: the heap is untouched, the two new items are the two
    halves of the old top item, and everything below keeps its value. -/
theorem split_values (k : Nat) (s s' : HState) (h : splitStep k s = some s') :
    s'.heap = s.heap ∧ ∃ v rest, s.values = v :: rest ∧ s'.values = v.drop k :: v.take k :: rest := by
  unfold splitStep at h
  match hds : s.ds, h with
  | r :: rest, h =>
    by_cases hk : k > r.len
    · simp [hk] at h
    · simp only [hk, ↓reduceIte, Option.some.injEq] at h
      subst h
      refine ⟨rfl, deref s.heap r, rest.map (deref s.heap), by simp [HState.values, hds], ?_⟩
      simp only [HState.values, List.map_cons, deref]
      congr 1
      · rw [List.drop_take, List.drop_drop]
      · congr 1
        rw [List.take_take]
        congr 1; omega

/-- **Why writing in place is wrong** (machine-checked witness of the defect repaired in OP_LSHIFT / OP_RSHIFT /
    OP_BIN2NUM): push 0x01 from the script, DUP, then transform the top copy in place with x ↦ x << 1 — the twin
    underneath, and the script cell itself, change from 01 to 02. -/
theorem in_place_changes_twin :
    let s0 : HState := { heap := [[0x01]], ds := [⟨0, 0, 1⟩] }            -- cell 0 is the caller's script data
    let shl : Bytes → Bytes := fun b => b.map (fun x => x <<< (1 : UInt8))
    (do let s1 ← dupStep s0; let s2 ← unaryStep .inPlace shl s1; pure (s2.values, s2.heap)) =
      some ([[0x02], [0x02]], [[0x02]]) ∧
    (do let s1 ← dupStep s0; let s2 ← unaryStep .fresh shl s1; pure (s2.values, s2.heap.take 1)) =
      some ([[0x02], [0x01]], [[0x01]]) := by
  decide

end GoBT.C08
