/-
  C08 — execution has no side effects on caller data and stack items never alias.
  The value-semantics interpreter model (GoBT/Interp/Exec.lean) cannot even express aliasing, so the tie for this
  property is: (1) the correspondence check compares *every* stack item after *every* step with that model —
  an in-place write shows up as a differing twin — and compares the caller's script buffers and tx bytes before
  and after execution; (2) the reference-semantics model below, where the statement "handlers allocate their
  results" implies that duplicated / split / script-backed items keep their values.
-/
import GoBT.Interp.Heap
import GoBT.Interp.WriteReview
import GoBT.Interp.HeapExec
namespace GoBT.C08
open GoBT GoBT.Interp GoBT.Script GoBT.Interp.Heap

/-- appending a cell never changes what an existing reference designates -/
theorem deref_alloc (h : Heap) (b : Bytes) (r : Ref) (hv : r.valid h) : deref (alloc h b).1 r = deref h r := by
  unfold deref alloc Ref.valid at *
  simp only
  rw [List.getD_eq_getElem?_getD, List.getD_eq_getElem?_getD, List.getElem?_append_left hv]

/-- the new reference designates exactly the allocated bytes -/
theorem deref_alloc_new (h : Heap) (b : Bytes) : deref (alloc h b).1 (alloc h b).2 = b := by
  unfold deref alloc
  simp [List.getD_eq_getElem?_getD]

/-- **No aliasing under the allocate-the-result discipline.**  A unary opcode that allocates its result changes
    the top item to `f` of its value and leaves the value of *every other* item on the stack unchanged — whatever
    sharing there is between them (duplicates, halves of a split, slices of the caller's script). -/
theorem fresh_preserves_others (f : Bytes → Bytes) (s s' : HState) (hvalid : ∀ r ∈ s.ds, r.valid s.heap)
    (h : unaryStep .fresh f s = some s') :
    ∃ v rest, s.values = v :: rest ∧ s'.values = f v :: rest := by
  unfold unaryStep at h
  match hds : s.ds, h with
  | r :: rest, h =>
    simp only [Option.some.injEq] at h
    subst h
    refine ⟨deref s.heap r, rest.map (deref s.heap), by simp [HState.values, hds], ?_⟩
    simp only [HState.values, List.map_cons]
    rw [deref_alloc_new]
    congr 1
    apply List.map_congr_left
    intro x hx
    exact deref_alloc s.heap _ x (hvalid x (by simp [hds, hx]))

/-- DUP only creates a reference: every existing value is unchanged and the new item is a copy. -/
theorem dup_values (s s' : HState) (h : dupStep s = some s') :
    ∃ v rest, s.values = v :: rest ∧ s'.values = v :: v :: rest := by
  unfold dupStep at h
  match hds : s.ds, h with
  | r :: rest, h =>
    cases h
    exact ⟨deref s.heap r, rest.map (deref s.heap), by simp [HState.values, hds], by simp [HState.values]⟩

/-- SPLIT only creates references into the same array: the heap is untouched, the two new items are the two
    halves of the old top item, and everything below keeps its value. -/
theorem split_values (k : Nat) (s s' : HState) (h : splitStep k s = some s') :
    s'.heap = s.heap ∧ ∃ v rest, s.values = v :: rest ∧ s'.values = v.drop k :: v.take k :: rest := by
  unfold splitStep at h
  match hds : s.ds, h with
  | r :: rest, h =>
    by_cases hk : k > r.len
    · simp [hk] at h
    · simp only [hk, ↓reduceIte, Option.some.injEq] at h
      subst h
      refine ⟨rfl, deref s.heap r, rest.map (deref s.heap), by simp [HState.values, hds], ?_⟩
      simp only [HState.values, List.map_cons, deref]
      congr 1
      · rw [List.drop_take, List.drop_drop]
      · congr 1
        rw [List.take_take]
        congr 1; omega

/-- **Why writing in place is wrong** (machine-checked witness of the defect repaired in OP_LSHIFT / OP_RSHIFT /
    OP_BIN2NUM): push 0x01 from the script, DUP, then transform the top copy in place with x ↦ x << 1 — the twin
    underneath, and the script cell itself, change from 01 to 02. -/
theorem in_place_changes_twin :
    let s0 : HState := { heap := [[0x01]], ds := [⟨0, 0, 1⟩] }            -- cell 0 is the caller's script data
    let shl : Bytes → Bytes := fun b => b.map (fun x => x <<< (1 : UInt8))
    (do let s1 ← dupStep s0; let s2 ← unaryStep .inPlace shl s1; pure (s2.values, s2.heap)) =
      some ([[0x02], [0x02]], [[0x02]]) ∧
    (do let s1 ← dupStep s0; let s2 ← unaryStep .fresh shl s1; pure (s2.values, s2.heap.take 1)) =
      some ([[0x02], [0x01]], [[0x01]]) := by
  decide

/-! ### the whole interpreter step on references (GoBT/Interp/HeapExec.lean)

`hExecuteOpcode` is thread.executeOpcode over stacks of *references*: OP_TOALTSTACK … OP_TUCK move and duplicate slice
headers (after OP_DUP both items are the same memory), every other opcode computes on the values and allocates what is
new — which is what the regenerated obligation below establishes for the current sources. -/

/-- **No aliasing is observable, for every program.**  Run any sequence of opcodes of any script on any state of
    references (whatever sharing there is between the items: duplicates, picks, items that came from the script) and
    read the stacks at the end: the result is exactly that of the value-semantics model `vRun` — which is the state
    evolution of `runOps`, the function the interpreter-equivalence and no-panic theorems are about — on the values. -/
theorem stack_items_never_alias (env : Env) (cur ops : List POp) (off : Nat) (h : HSt) (hv : h.Valid) :
    (hRun env cur ops off h).abs = vRun env cur ops off h.abs ∧
    ∀ sidx tr, (runOps env sidx cur ops off h.abs tr).1 = toEnd (vRun env cur ops off h.abs) :=
  ⟨hRun_refines env cur ops off h hv, fun sidx tr => runOps_eq_vRun env sidx cur ops off h.abs tr⟩

/-- **No side effects on memory that existed before the run.**  After any program that ends normally, every heap cell
    that existed before — the caller's script and transaction buffers are such cells — holds the bytes it held before,
    and every reference that was valid before designates the same bytes. -/
theorem execution_leaves_existing_memory_alone (env : Env) (cur ops : List POp) (off : Nat) (h h' : HSt) (hv : h.Valid)
    (hrun : hRun env cur ops off h = .ok h' ∨ hRun env cur ops off h = .success h') :
    (∀ i, i < h.heap.length → h'.heap[i]? = h.heap[i]?) ∧ (∀ r : Ref, r.valid h.heap → deref h'.heap r = deref h.heap r) := by
  have hg := hRun_heap env cur ops off h hv
  have : (∃ cells, h'.heap = h.heap ++ cells) := by
    rcases hrun with hr | hr <;> (rw [hr] at hg; exact hg.1)
  obtain ⟨cells, hc⟩ := this
  exact ⟨fun i hi => by rw [hc]; exact grows_cell _ _ i hi, fun r hr => by rw [hc]; exact deref_append _ _ r hr⟩

/-- the same for a single opcode -/
theorem one_opcode_refines (env : Env) (cur : List POp) (off : Nat) (o : POp) (h : HSt) (hv : h.Valid) :
    (hExecuteOpcode env cur off o h).abs = executeOpcode env cur off o h.abs ∧ (hExecuteOpcode env cur off o h).Grows h :=
  ⟨hExecuteOpcode_refines env cur off o h hv, hExecuteOpcode_heap env cur off o h hv⟩

/-- non-vacuity: push-from-script cell 0 = `01`, the program `DUP INVERT` — the twins share cell 0 after DUP; INVERT
    allocates its result: values `fe`, `01`; cell 0 still `01` -/
example :
    let H : Crypto := ⟨id, id, id, fun _ => true, fun _ _ _ _ => some true, fun _ => false⟩
    let env : Env := ⟨H, 0, cfgBefore, none⟩
    let prog : List POp := [⟨0x76, [], 1⟩, ⟨0x83, [], 1⟩]
    let h0 : HSt := ⟨[[0x01]], [⟨0, 0, 1⟩], [], {}⟩
    (match hRun env prog prog 0 h0 with
     | .ok h' => some (h'.abs.ds, h'.heap.take 1, h'.ds.map (·.cell))
     | _ => none) = some ([[0xfe], [0x01]], [[0x01]], [1, 0]) := by decide

/-- ✓gen — **the allocate-the-result discipline holds in the current sources.**  Every byte-slice element store, `copy`,
    `append` and parameter-writing call in bscript/interpreter (regenerated by go/ssa on every run:
    GoBT/Gen/Writes.lean) targets a buffer allocated in the same function (or a reviewed snapshot slot), and every
    function outside the package that receives a shared buffer is on the reviewed read-only list
    (GoBT/Interp/WriteReview.lean).  A handler that starts writing into a popped operand, the script's bytes, a
    package-level scratch buffer or a pooled buffer changes a row's origin and breaks this obligation. -/
theorem handlers_write_only_fresh_buffers : GoBT.Interp.WriteReview.writesOk = true := by decide +kernel

end GoBT.C08
