/-
  C13 — script codecs round-trip: push-data, opcode parse/unparse, hex, ASM tables.
  Model ↔ code: `encodeParts`/`decodeParts`/`pushPrefix` = bscript.EncodeParts/DecodeParts/PushDataPrefix;
  `parseScript`/`unparse` = interpreter.DefaultOpcodeParser.Parse/Unparse; `opLength` is checked against the
  regenerated interpreter.opcodeArray; the ASM name tables are the regenerated bscript.opCodeValues/opCodeStrings.
-/
import GoBT.Script.ParseUnparse
import GoBT.Script.Parse
import GoBT.Script.Asm
import GoBT.Script.TableFacts
import GoBT.Script.WriteReviewLib
namespace GoBT.C13
open GoBT GoBT.Script

/-! ### push-data encode / decode -/

private theorem u8n {n : Nat} (h : n < 256) : (UInt8.ofNat n).toNat = n := by
  simp [UInt8.toNat_ofNat', Nat.mod_eq_of_lt h]

private theorem ne_of_toNat_ne {a b : UInt8} (h : a.toNat ≠ b.toNat) : a ≠ b := fun e => h (by rw [e])

/-- decoding one push written by PushDataPrefix yields exactly the data and the remainder -/
theorem decodeStep_push (p rest : Bytes) (h1 : 1 ≤ p.length) (h2 : p.length < 2 ^ 32) :
    ∃ pre, pushPrefix p.length = some pre ∧ pre ≠ [] ∧
      decodeStep (pre.headD 0) (pre.tail ++ p ++ rest) = some (p, rest) := by
  unfold pushPrefix
  by_cases c1 : p.length ≤ 75
  · refine ⟨[UInt8.ofNat p.length], by simp [c1], by simp, ?_⟩
    have hn : (UInt8.ofNat p.length).toNat = p.length := u8n (by omega)
    have e1 : UInt8.ofNat p.length ≠ opPUSHDATA1 := ne_of_toNat_ne (by rw [hn]; simp [opPUSHDATA1]; omega)
    have e2 : UInt8.ofNat p.length ≠ opPUSHDATA2 := ne_of_toNat_ne (by rw [hn]; simp [opPUSHDATA2]; omega)
    have e3 : UInt8.ofNat p.length ≠ opPUSHDATA4 := ne_of_toNat_ne (by rw [hn]; simp [opPUSHDATA4]; omega)
    simp only [List.headD_cons, List.tail_cons, List.nil_append, decodeStep, e1, e2, e3, ↓reduceIte, hn]
    have : 1 ≤ p.length ∧ p.length ≤ 75 := ⟨h1, c1⟩
    simp [this]
  · by_cases c2 : p.length ≤ 0xFF
    · refine ⟨[opPUSHDATA1, UInt8.ofNat p.length], by simp [c1, c2], by simp, ?_⟩
      have hn : (UInt8.ofNat p.length).toNat = p.length := u8n (by omega)
      simp [decodeStep, hn]
    · by_cases c3 : p.length ≤ 0xFFFF
      · refine ⟨opPUSHDATA2 :: leEnc 2 p.length, by simp [c1, c2, c3], by simp, ?_⟩
        have hd : leDec (leEnc 2 p.length) = p.length := leDec_leEnc_of_lt (by simp; omega)
        have ne : opPUSHDATA2 ≠ opPUSHDATA1 := by decide
        simp only [List.headD_cons, List.tail_cons, decodeStep, ne, ↓reduceIte, List.append_assoc]
        have ht : List.take 2 (leEnc 2 p.length ++ (p ++ rest)) = leEnc 2 p.length := by
          rw [List.take_append_of_le_length (by simp)]; simp [List.take_of_length_le]
        have hdr : List.drop 2 (leEnc 2 p.length ++ (p ++ rest)) = p ++ rest := by
          rw [List.drop_append_of_le_length (by simp)]; simp [List.drop_of_length_le]
        simp [ht, hdr, hd]
      · have c4 : p.length ≤ 0xFFFFFFFF := by
          have : (2:Nat) ^ 32 = 4294967296 := by decide
          omega
        refine ⟨opPUSHDATA4 :: leEnc 4 p.length, by simp [c1, c2, c3, c4], by simp, ?_⟩
        have hd : leDec (leEnc 4 p.length) = p.length := leDec_leEnc_of_lt (by simp; omega)
        have ne1 : opPUSHDATA4 ≠ opPUSHDATA1 := by decide
        have ne2 : opPUSHDATA4 ≠ opPUSHDATA2 := by decide
        simp only [List.headD_cons, List.tail_cons, decodeStep, ne1, ne2, ↓reduceIte, List.append_assoc]
        have ht : List.take 4 (leEnc 4 p.length ++ (p ++ rest)) = leEnc 4 p.length := by
          rw [List.take_append_of_le_length (by simp)]; simp [List.take_of_length_le]
        have hdr : List.drop 4 (leEnc 4 p.length ++ (p ++ rest)) = p ++ rest := by
          rw [List.drop_append_of_le_length (by simp)]; simp [List.drop_of_length_le]
        simp [ht, hdr, hd]

theorem decodePartsAux_encode (items : List Bytes) (h : ∀ i ∈ items, 1 ≤ i.length ∧ i.length < 2 ^ 32) :
    ∃ enc, encodeParts items = some enc ∧ ∀ fuel, enc.length ≤ fuel → decodePartsAux fuel enc = (items, true) := by
  induction items with
  | nil => exact ⟨[], rfl, fun fuel _ => by cases fuel <;> rfl⟩
  | cons p ps ih =>
    obtain ⟨enc', he', hd'⟩ := ih (fun i hi => h i (by simp [hi]))
    obtain ⟨hp1, hp2⟩ := h p (by simp)
    obtain ⟨pre, hpre, hne, hstep⟩ := decodeStep_push p enc' hp1 hp2
    refine ⟨pre ++ p ++ enc', by simp [encodeParts, hpre, he'], ?_⟩
    intro fuel hf
    match pre, hne, hstep with
    | b :: t, _, hstep =>
      simp only [List.headD_cons, List.tail_cons] at hstep
      cases fuel with
      | zero => simp at hf
      | succ f =>
        simp only [List.cons_append, decodePartsAux]
        simp only [List.append_assoc] at hstep ⊢
        rw [hstep]
        have := hd' f (by simp at hf; omega)
        simp [this]

/-- Encoding any list of non-empty items (< 2^32 bytes each) and decoding it returns the same items. -/
theorem decode_encode (items : List Bytes) (h : ∀ i ∈ items, 1 ≤ i.length ∧ i.length < 2 ^ 32) :
    ∃ enc, encodeParts items = some enc ∧ decodeParts enc = (items, true) := by
  obtain ⟨enc, he, hd⟩ := decodePartsAux_encode items h
  exact ⟨enc, he, hd enc.length (Nat.le_refl _)⟩

/-! ### scripts as element lists: bare opcodes and data pushes -/

/-- a script element as Inscribe writes it: a bare opcode (not a push opcode) or a data push -/
inductive Tok
  | op (b : UInt8)
  | push (p : Bytes)

def Tok.ok : Tok → Prop
  | .op b => ¬ (1 ≤ b.toNat ∧ b.toNat ≤ 0x4e)
  | .push p => 1 ≤ p.length ∧ p.length < 2 ^ 32

def Tok.enc : Tok → Option Bytes
  | .op b => some [b]
  | .push p => (pushPrefix p.length).map (· ++ p)

def Tok.part : Tok → Bytes
  | .op b => [b]
  | .push p => p

def encToks : List Tok → Option Bytes
  | [] => some []
  | t :: ts => do
    let a ← t.enc
    let r ← encToks ts
    pure (a ++ r)

/-- one decoding step on an encoded element -/
theorem decodeStep_tok (t : Tok) (ht : t.ok) (rest : Bytes) :
    ∃ e, t.enc = some e ∧ e ≠ [] ∧ decodeStep (e.headD 0) (e.tail ++ rest) = some (t.part, rest) := by
  cases t with
  | op b =>
    refine ⟨[b], rfl, by simp, ?_⟩
    simp only [Tok.ok, not_and, Nat.not_le] at ht
    have h1 : b ≠ opPUSHDATA1 := by intro e; subst e; simp [opPUSHDATA1] at ht
    have h2 : b ≠ opPUSHDATA2 := by intro e; subst e; simp [opPUSHDATA2] at ht
    have h3 : b ≠ opPUSHDATA4 := by intro e; subst e; simp [opPUSHDATA4] at ht
    have h4 : ¬ (1 ≤ b.toNat ∧ b.toNat ≤ 75) := by intro ⟨a, c⟩; have := ht a; omega
    simp [decodeStep, h1, h2, h3, h4, Tok.part]
  | push p =>
    obtain ⟨pre, hpre, hne, hstep⟩ := decodeStep_push p rest ht.1 ht.2
    refine ⟨pre ++ p, by simp [Tok.enc, hpre], by simp [hne], ?_⟩
    cases pre with
    | nil => exact absurd rfl hne
    | cons b t =>
      simp only [List.headD_cons, List.tail_cons, List.cons_append, List.append_assoc] at hstep ⊢
      exact hstep

/-- decoding an encoded element list gives back the elements' parts -/
theorem decode_toks (ts : List Tok) (h : ∀ t ∈ ts, t.ok) :
    ∃ enc, encToks ts = some enc ∧ ∀ fuel, enc.length ≤ fuel → decodePartsAux fuel enc = (ts.map Tok.part, true) := by
  induction ts with
  | nil => exact ⟨[], rfl, fun fuel _ => by cases fuel <;> rfl⟩
  | cons t ts ih =>
    obtain ⟨enc', he', hd'⟩ := ih (fun x hx => h x (by simp [hx]))
    obtain ⟨e, het, hne, hstep⟩ := decodeStep_tok t (h t (by simp)) enc'
    refine ⟨e ++ enc', by simp [encToks, het, he'], ?_⟩
    intro fuel hf
    cases e with
    | nil => exact absurd rfl hne
    | cons b r =>
      simp only [List.headD_cons, List.tail_cons] at hstep
      cases fuel with
      | zero => simp at hf
      | succ f =>
        simp only [List.cons_append, decodePartsAux, hstep]
        have := hd' f (by simp at hf; omega)
        simp [this]

/-- the four push forms and the data lengths each can express -/
def formLen (form : Nat) : Nat := match form with | 0 => 1 | 1 => 2 | 2 => 3 | _ => 5
def formMax (form : Nat) : Nat := match form with | 0 => 75 | 1 => 0xFF | 2 => 0xFFFF | _ => 0xFFFFFFFF

/-- Each push uses the shortest opcode form able to carry its length. -/
theorem pushPrefix_shortest (n : Nat) (pre : Bytes) (h : pushPrefix n = some pre) :
    (∀ form, form ≤ 3 → n ≤ formMax form → pre.length ≤ formLen form) ∧
    (∃ form, form ≤ 3 ∧ n ≤ formMax form ∧ pre.length = formLen form) := by
  unfold pushPrefix at h
  split at h
  · next c =>
    cases h
    refine ⟨fun form _ _ => by simp; unfold formLen; split <;> omega, 0, by omega, c, rfl⟩
  · next c1 =>
    split at h
    · next c2 =>
      cases h
      refine ⟨fun form hf hn => ?_, 1, by omega, c2, rfl⟩
      match form, hf with
      | 0, _ => simp [formMax] at hn; omega
      | 1, _ => simp [formLen]
      | 2, _ => simp [formLen]
      | 3, _ => simp [formLen]
    · next c2 =>
      split at h
      · next c3 =>
        cases h
        refine ⟨fun form hf hn => ?_, 2, by omega, c3, by simp [formLen]⟩
        match form, hf with
        | 0, _ => simp [formMax] at hn; omega
        | 1, _ => simp [formMax] at hn; omega
        | 2, _ => simp [formLen]
        | 3, _ => simp [formLen]
      · next c3 =>
        split at h
        · next c4 =>
          cases h
          refine ⟨fun form hf hn => ?_, 3, by omega, c4, by simp [formLen]⟩
          match form, hf with
          | 0, _ => simp [formMax] at hn; omega
          | 1, _ => simp [formMax] at hn; omega
          | 2, _ => simp [formMax] at hn; omega
          | 3, _ => simp [formLen]
        · cases h

/-! ### opcode parse / unparse -/

private theorem map_ok {α β : Type} {e : Except PErr α} {f : α → β} {b : β} (h : e.map f = .ok b) :
    ∃ a, e = .ok a ∧ f a = b := by
  cases e with
  | error x => cases h
  | ok a => exact ⟨a, rfl, by simpa [Except.map] using h⟩

theorem unparse_parseAux (topRet errCS : Bool) (fuel : Nat) (s : Bytes) (cond : Int) (ops : List POp)
    (hf : s.length ≤ fuel) (h : parseAux topRet errCS fuel s cond = .ok ops) : unparse ops = .ok s := by
  induction fuel generalizing s cond ops with
  | zero =>
    have : s = [] := List.length_eq_zero_iff.mp (by omega)
    subst this
    simp only [parseAux, Except.ok.injEq] at h; subst h; rfl
  | succ fuel ih =>
    cases s with
    | nil => simp only [parseAux, Except.ok.injEq] at h; subst h; rfl
    | cons b rest =>
      simp only [parseAux] at h
      split at h
      · cases h
      · split at h
        · -- top-level OP_RETURN
          match rest, h with
          | [], h => simp only [Except.ok.injEq] at h; subst h; simp [unparse, POp.bytes, bind, Except.bind, pure, Except.pure]
          | [x], h => simp only [Except.ok.injEq] at h; subst h; simp [unparse, POp.bytes, bind, Except.bind, pure, Except.pure]
          | x :: y :: more, h =>
            simp only [Except.ok.injEq] at h; subst h
            have h1 : ¬ ((1:Int) + ((y :: more).length : Nat) = 1) := by simp; omega
            have h2 : (1:Int) + ((y :: more).length : Nat) > 1 := by simp; omega
            have h3 : 1 + (y :: more).length = ((1:Int) + ((y :: more).length : Nat)).toNat := by simp; omega
            simp only [unparse, POp.bytes, List.length_nil, ne_eq, not_true_eq_false, ↓reduceIte, h1, h2, h3,
              bind, Except.bind, pure, Except.pure]
            simp
        · split at h
          · next hl =>
            obtain ⟨os, ho, hc⟩ := map_ok h
            subst hc
            have := ih rest _ os (by simp at hf; omega) ho
            simp [unparse, POp.bytes, this, bind, Except.bind, pure, Except.pure]
          · next hl =>
            split at h
            · next hgt =>
              split at h
              · cases h
              · next hlen =>
                obtain ⟨os, ho, hc⟩ := map_ok h
                subst hc
                have hk : (opLength b).toNat - 1 ≤ rest.length := by omega
                have := ih (rest.drop ((opLength b).toNat - 1)) _ os (by simp at hf ⊢; omega) ho
                have h1 : ¬ opLength b = 1 := hl
                have hlen2 : 1 + (List.take ((opLength b).toNat - 1) rest).length = (opLength b).toNat := by
                  rw [List.length_take]; omega
                have hmin : min ((opLength b).toNat - 1) rest.length = (opLength b).toNat - 1 := Nat.min_eq_left hk
                have hone : 1 + ((opLength b).toNat - 1) = (opLength b).toNat := by omega
                simp [unparse, POp.bytes, this, bind, Except.bind, pure, Except.pure, h1, hgt, hmin, hone]
            · next hgt =>
              split at h
              · cases h
              · next hlen =>
                split at h
                · cases h
                · next hn =>
                  obtain ⟨os, ho, hc⟩ := map_ok h
                  subst hc
                  have hk : (-opLength b).toNat ≤ rest.length := by omega
                  have hnn : leDec (List.take (-opLength b).toNat rest) ≤ (List.drop (-opLength b).toNat rest).length := by omega
                  have := ih ((rest.drop (-opLength b).toNat).drop (leDec (rest.take (-opLength b).toNat))) _ os
                    (by simp at hf ⊢; omega) ho
                  have h1 : ¬ opLength b = 1 := hl
                  have htl : (List.take (-opLength b).toNat rest).length = (-opLength b).toNat := by
                    rw [List.length_take]; omega
                  have hdl : (List.take (leDec (List.take (-opLength b).toNat rest)) (List.drop (-opLength b).toNat rest)).length
                      = leDec (List.take (-opLength b).toNat rest) := by
                    rw [List.length_take]; omega
                  have hle : leEnc (-opLength b).toNat (leDec (List.take (-opLength b).toNat rest)) = List.take (-opLength b).toNat rest := by
                    have := leEnc_leDec (List.take (-opLength b).toNat rest)
                    rwa [htl] at this
                  simp only [unparse, POp.bytes, h1, hgt, ↓reduceIte, hdl, hle, ne_eq, not_true_eq_false, this, bind,
                    Except.bind, pure, Except.pure]
                  simp
                  rw [← List.drop_drop, List.take_append_drop, List.take_append_drop]

/-- Parsing any script the parser accepts and unparsing it returns the identical bytes — including the
    "unformatted data" after a top-level OP_RETURN. -/
theorem unparse_parse (s : Bytes) (errCS : Bool) (ops : List POp) (h : parseScript s errCS = .ok ops) :
    unparse ops = .ok s :=
  unparse_parseAux true errCS s.length s 0 ops (Nat.le_refl _) h

/-! ### the two tokenisers agree -/

private theorem decodeAux_cons (fuel : Nat) (b : UInt8) (rest : Bytes) :
    decodePartsAux (fuel + 1) (b :: rest) =
      match decodeStep b rest with
      | none => ([], false)
      | some (part, r) => ((decodePartsAux fuel r).1 |> (part :: ·), (decodePartsAux fuel r).2) := by
  cases h : decodeStep b rest with
  | none => simp [decodePartsAux, h]
  | some pr => obtain ⟨part, r⟩ := pr; simp [decodePartsAux, h]

/-- With the top-level OP_RETURN rule switched off, the interpreter's parser and DecodeParts are the same
    automaton: they accept the same scripts, and on acceptance every push begins and ends at the same place
    (the parts are exactly the parsed opcodes' data / opcode bytes); a truncated push is an error for both. -/
theorem parseAux_agrees_decodeParts (fuel : Nat) (s : Bytes) (cond : Int) (hf : s.length ≤ fuel) :
    match parseAux false false fuel s cond with
    | .ok ops => decodePartsAux fuel s = (ops.map POp.part, true)
    | .error _ => (decodePartsAux fuel s).2 = false := by
  induction fuel generalizing s cond with
  | zero =>
    have : s = [] := List.length_eq_zero_iff.mp (by omega)
    subst this; simp [parseAux, decodePartsAux]
  | succ fuel ih =>
    cases s with
    | nil => simp [parseAux, decodePartsAux]
    | cons b rest =>
      have hfr : ∀ k, (rest.drop k).length ≤ fuel := fun k => by simp at hf ⊢; omega
      rw [decodeAux_cons]
      simp only [parseAux, Bool.false_and, Bool.false_eq_true, ↓reduceIte]
      have hb := UInt8.toNat_lt b
      by_cases r1 : 1 ≤ b.toNat ∧ b.toNat ≤ 75
      · -- direct push of b bytes
        have hl : opLength b = (b.toNat : Int) + 1 := by simp [opLength, r1]
        have e1 : b ≠ opPUSHDATA1 := fun e => by rw [e] at r1; simp [opPUSHDATA1] at r1
        have e2 : b ≠ opPUSHDATA2 := fun e => by rw [e] at r1; simp [opPUSHDATA2] at r1
        have e3 : b ≠ opPUSHDATA4 := fun e => by rw [e] at r1; simp [opPUSHDATA4] at r1
        have hn1 : ¬ ((b.toNat : Int) + 1 = 1) := by omega
        have hg : (b.toNat : Int) + 1 > 1 := by omega
        have hk : ((b.toNat : Int) + 1).toNat - 1 = b.toNat := by omega
        simp only [hl, hn1, hg, ↓reduceIte, hk, decodeStep, e1, e2, e3, r1, and_self]
        by_cases hlen : rest.length < b.toNat
        · simp [hlen]
        · simp only [hlen, ↓reduceIte]
          have := ih (rest.drop b.toNat) (if isCondOpen b = true then cond + 1 else if b = opENDIF then cond - 1 else cond) (hfr _)
          cases hp : parseAux false false fuel (rest.drop b.toNat) (if isCondOpen b = true then cond + 1 else if b = opENDIF then cond - 1 else cond) with
          | error e => rw [hp] at this; simpa [Except.map] using this
          | ok ops =>
            rw [hp] at this
            simp [Except.map, this, POp.part, r1]; omega
      · by_cases p1 : b = opPUSHDATA1
        · subst p1
          have hl : opLength opPUSHDATA1 = -1 := by decide
          simp only [hl, decodeStep, ↓reduceIte]
          cases rest with
          | nil => simp
          | cons l r =>
            have hle : leDec (List.take (Int.toNat (- -1)) (l :: r)) = l.toNat := by simp [leDec]
            have hdr : List.drop (Int.toNat (- -1)) (l :: r) = r := by simp
            have c0 : ¬ ((-1 : Int) = 1) := by decide
            have c1 : ¬ ((-1 : Int) > 1) := by decide
            have c2 : ¬ ((l :: r).length < Int.toNat (- -1)) := by simp
            simp only [c0, c1, c2, ↓reduceIte, hle, hdr]
            by_cases hlen : r.length < l.toNat
            · have : l.toNat > r.length := hlen
              simp [hlen, this]
            · have hng : ¬ l.toNat > r.length := by omega
              simp only [hlen, hng, ↓reduceIte]
              have := ih (r.drop l.toNat) (if isCondOpen opPUSHDATA1 = true then cond + 1 else if opPUSHDATA1 = opENDIF then cond - 1 else cond)
                (by simp at hf ⊢; omega)
              cases hp : parseAux false false fuel (r.drop l.toNat) (if isCondOpen opPUSHDATA1 = true then cond + 1 else if opPUSHDATA1 = opENDIF then cond - 1 else cond) with
              | error e => rw [hp] at this; simpa [Except.map] using this
              | ok ops =>
                rw [hp] at this
                simp [Except.map, this, POp.part, opPUSHDATA1]
        · by_cases p2 : b = opPUSHDATA2
          · subst p2
            have hl : opLength opPUSHDATA2 = -2 := by decide
            have ne1 : opPUSHDATA2 ≠ opPUSHDATA1 := by decide
            have c0 : ¬ ((-2 : Int) = 1) := by decide
            have c1 : ¬ ((-2 : Int) > 1) := by decide
            have c3 : Int.toNat (- -2) = 2 := by decide
            simp only [hl, decodeStep, ne1, ↓reduceIte, c0, c1, c3]
            by_cases hlen : rest.length < 2
            · simp [hlen]
            · simp only [hlen, ↓reduceIte]
              by_cases hn : rest.length - 2 < leDec (rest.take 2)
              · simp [hn, List.length_drop]
              · simp only [List.length_drop, gt_iff_lt, hn, ↓reduceIte]
                have := ih (rest.drop (2 + leDec (rest.take 2))) (if isCondOpen opPUSHDATA2 = true then cond + 1 else if opPUSHDATA2 = opENDIF then cond - 1 else cond)
                  (by simp at hf ⊢; omega)
                simp only [List.drop_drop]
                cases hp : parseAux false false fuel (rest.drop (2 + leDec (rest.take 2))) (if isCondOpen opPUSHDATA2 = true then cond + 1 else if opPUSHDATA2 = opENDIF then cond - 1 else cond) with
                | error e => rw [hp] at this; simpa [Except.map] using this
                | ok ops =>
                  rw [hp] at this
                  simp [Except.map, this, POp.part, opPUSHDATA2]
          · by_cases p4 : b = opPUSHDATA4
            · subst p4
              have hl : opLength opPUSHDATA4 = -4 := by decide
              have ne1 : opPUSHDATA4 ≠ opPUSHDATA1 := by decide
              have ne2 : opPUSHDATA4 ≠ opPUSHDATA2 := by decide
              have c0 : ¬ ((-4 : Int) = 1) := by decide
              have c1 : ¬ ((-4 : Int) > 1) := by decide
              have c3 : Int.toNat (- -4) = 4 := by decide
              simp only [hl, decodeStep, ne1, ne2, ↓reduceIte, c0, c1, c3]
              by_cases hlen : rest.length < 4
              · simp [hlen]
              · simp only [hlen, ↓reduceIte]
                by_cases hn : rest.length - 4 < leDec (rest.take 4)
                · simp [hn, List.length_drop]
                · simp only [List.length_drop, gt_iff_lt, hn, ↓reduceIte]
                  have := ih (rest.drop (4 + leDec (rest.take 4))) (if isCondOpen opPUSHDATA4 = true then cond + 1 else if opPUSHDATA4 = opENDIF then cond - 1 else cond)
                    (by simp at hf ⊢; omega)
                  simp only [List.drop_drop]
                  cases hp : parseAux false false fuel (rest.drop (4 + leDec (rest.take 4))) (if isCondOpen opPUSHDATA4 = true then cond + 1 else if opPUSHDATA4 = opENDIF then cond - 1 else cond) with
                  | error e => rw [hp] at this; simpa [Except.map] using this
                  | ok ops =>
                    rw [hp] at this
                    simp [Except.map, this, POp.part, opPUSHDATA4]
            · -- a plain opcode
              have hl : opLength b = 1 := by simp [opLength, r1, p1, p2, p4]
              have r2 : ¬ (1 ≤ b.toNat ∧ b.toNat ≤ 0x4b) := r1
              simp only [hl, ↓reduceIte, decodeStep, p1, p2, p4, r2]
              have := ih rest (if isCondOpen b = true then cond + 1 else if b = opENDIF then cond - 1 else cond) (by simp at hf; omega)
              cases hp : parseAux false false fuel rest (if isCondOpen b = true then cond + 1 else if b = opENDIF then cond - 1 else cond) with
              | error e => rw [hp] at this; simpa [Except.map] using this
              | ok ops =>
                rw [hp] at this
                have hnp : ¬ (1 ≤ b.toNat ∧ b.toNat ≤ 0x4e) := by
                  intro hh
                  have a1 : b.toNat ≠ 0x4c := fun e => p1 (UInt8.toNat_inj.mp (by simpa [opPUSHDATA1] using e))
                  have a2 : b.toNat ≠ 0x4d := fun e => p2 (UInt8.toNat_inj.mp (by simpa [opPUSHDATA2] using e))
                  have a4 : b.toNat ≠ 0x4e := fun e => p4 (UInt8.toNat_inj.mp (by simpa [opPUSHDATA4] using e))
                  omega
                simp [Except.map, this, POp.part, hnp]

/-- A script containing no OP_RETURN byte is parsed by the real parser exactly as with the rule off. -/
theorem parseAux_no_return (errCS : Bool) (fuel : Nat) (s : Bytes) (cond : Int) (h : opRETURN ∉ s) :
    parseAux true errCS fuel s cond = parseAux false errCS fuel s cond := by
  induction fuel generalizing s cond with
  | zero => rfl
  | succ fuel ih =>
    cases s with
    | nil => rfl
    | cons b rest =>
      have hb : b ≠ opRETURN := fun e => h (by simp [e])
      have hr : ∀ k, opRETURN ∉ rest.drop k := fun k hm => h (by simp [List.mem_of_mem_drop hm])
      have hr0 : opRETURN ∉ rest := fun hm => h (by simp [hm])
      have hrr : ∀ k n, opRETURN ∉ (rest.drop k).drop n := fun k n hm =>
        hr k (List.mem_of_mem_drop hm)
      simp only [parseAux, hb, decide_false, Bool.and_false, Bool.false_and, Bool.false_eq_true, ↓reduceIte,
        ih rest _ hr0, ih (rest.drop _) _ (hr _), ih ((rest.drop _).drop _) _ (hrr _ _)]

/-- Tokeniser agreement for every script without an OP_RETURN byte: Parse and DecodeParts accept the same
    scripts and, when they do, agree on where every push begins and ends. -/
theorem tokenisers_agree (s : Bytes) (h : opRETURN ∉ s) :
    match parseScript s with
    | .ok ops => decodeParts s = (ops.map POp.part, true)
    | .error _ => (decodeParts s).2 = false := by
  unfold parseScript decodeParts
  rw [parseAux_no_return false s.length s 0 h]
  exact parseAux_agrees_decodeParts s.length s 0 (Nat.le_refl _)

/-! ### hex -/

private theorem hexVal_hexDigit (n : Nat) (h : n < 16) : hexVal (hexDigit n) = some n := by
  have : ∀ k : Fin 16, hexVal (hexDigit k.val) = some k.val := by decide
  exact this ⟨n, h⟩

/-- The hex rendering of any byte string converts back to the original bytes
    (Script.String / NewFromHexString; the JSON form is the same hex between quotes). -/
theorem hexDec_hexEnc (b : Bytes) : hexDec (hexEnc b) = some b := by
  unfold hexDec hexEnc
  simp only [String.toList_ofList]
  induction b with
  | nil => rfl
  | cons x xs ih =>
    have hx : x.toNat < 256 := UInt8.toNat_lt x
    simp only [List.flatMap_cons, List.cons_append, List.nil_append, hexDecChars]
    rw [hexVal_hexDigit _ (by omega), hexVal_hexDigit _ (by omega), ih]
    simp only [bind, Option.bind, pure]
    congr 2
    have : 16 * (x.toNat / 16) + x.toNat % 16 = x.toNat := by omega
    rw [this]
    simp

/-! ### regenerated tables (✓gen) -/

/-- the model's `opLength` is the length column of the regenerated interpreter.opcodeArray, row i sits at
    index i with value i, and every row has a handler -/
theorem opLength_matches_table :
    GoBT.Gen.opcodeArray.length = 256 ∧
    (GoBT.Gen.opcodeArray.zipIdx.all fun (r, i) =>
      r.idx == i && r.val == i && r.length == opLength (UInt8.ofNat i) && r.handler != "") = true :=
  TableFacts.opLength_matches_table

/-- every opcode value has an ASM name starting with "OP_", and the name maps back to the same value
    (so the two name tables are mutually inverse on opcode values) -/
theorem asm_tables_inverse :
    ((List.range 256).all fun v =>
      let name := opName (UInt8.ofNat v)
      name.startsWith "OP_" && opValue? name == some v) = true :=
  TableFacts.asm_tables_inverse

/-- every ASM name accepted by NewFromASM starts with "OP_" — so no hex string is an opcode name -/
theorem asm_names_prefixed :
    (GoBT.Gen.opCodeStrings.all fun p => p.1.startsWith "OP_") = true :=
  TableFacts.asm_names_prefixed

/-! ### assembly round trip -/

/-- elements whose ASM token converts back: any bare (non-push) opcode, and any push of two or more bytes written
    in its minimal form (a one-byte push is rendered as if its byte were an opcode: the documented exception) -/
def Tok.asmOk : Tok → Prop
  | .op b => ¬ (1 ≤ b.toNat ∧ b.toNat ≤ 0x4e)
  | .push p => 2 ≤ p.length ∧ p.length < 2 ^ 32

theorem opName_facts (b : UInt8) : opName b ≠ "" ∧ opValue? (opName b) = some b.toNat := by
  have hlt : b.toNat < 256 := UInt8.toNat_lt b
  have hb : UInt8.ofNat b.toNat = b := by
    apply UInt8.toNat_inj.mp; simp [Nat.mod_eq_of_lt hlt]
  have h1 := TableFacts.asm_names_nonempty
  have h2 := TableFacts.asm_tables_inverse
  simp only [List.all_eq_true, List.mem_range] at h1 h2
  have a := h1 b.toNat hlt
  have c := h2 b.toNat hlt
  rw [hb] at a c
  simp only [Bool.and_eq_true, beq_iff_eq, bne_iff_ne, ne_eq] at a c
  exact ⟨a, c.2⟩

/-- a hex string is never an opcode name -/
theorem opValue_hexEnc (p : Bytes) (hp : p ≠ []) : opValue? (hexEnc p) = none := by
  unfold opValue?
  cases hf : GoBT.Gen.opCodeStrings.find? (fun q => q.1 == hexEnc p) with
  | none => rfl
  | some q =>
    exfalso
    have hmem := List.mem_of_find?_eq_some hf
    have heq : q.1 = hexEnc p := by
      have := List.find?_some hf
      simpa using this
    have hall := TableFacts.asm_names_first_char
    simp only [List.all_eq_true] at hall
    have hq := hall q hmem
    rw [heq] at hq
    cases p with
    | nil => exact hp rfl
    | cons x xs =>
      have hx : x.toNat < 256 := UInt8.toNat_lt x
      simp only [hexEnc, String.toList_ofList, List.flatMap_cons, List.cons_append] at hq
      rw [hexVal_hexDigit _ (by omega)] at hq
      simp at hq

theorem hexEnc_ne_empty (p : Bytes) (hp : p ≠ []) : hexEnc p ≠ "" := by
  intro h
  have := congrArg String.toList h
  cases p with
  | nil => exact hp rfl
  | cons x xs => simp [hexEnc] at this

/-- one element: its ASM token converts back to its encoding -/
theorem fromAsmToken_tok (t : Tok) (ht : t.asmOk) : fromAsmToken (asmToken false t.part) = t.enc := by
  cases t with
  | op b =>
    simp only [Tok.asmOk] at ht
    obtain ⟨hne, hval⟩ := opName_facts b
    have hlt : b.toNat < 256 := UInt8.toNat_lt b
    have hb : UInt8.ofNat b.toNat = b := by
      apply UInt8.toNat_inj.mp; simp [Nat.mod_eq_of_lt hlt]
    simp only [Tok.part, asmToken, Bool.false_and, Bool.false_eq_true, ↓reduceIte, fromAsmToken, hne, hval, ht, Tok.enc, hb]
  | push p =>
    obtain ⟨h2, h32⟩ := ht
    have hp : p ≠ [] := by intro e; subst e; simp at h2
    have hnot1 : ∀ b, p ≠ [b] := by intro b e; subst e; simp at h2
    have htok : asmToken false p = hexEnc p := by
      unfold asmToken
      split
      · next b => exact absurd rfl (hnot1 b)
      · simp
    simp only [Tok.part, htok, fromAsmToken, hexEnc_ne_empty p hp, ↓reduceIte, opValue_hexEnc p hp, hexDec_hexEnc, Tok.enc]

/-- **Assembly round trip.**  For every script that is a sequence of bare opcodes and minimal pushes of at least two
    bytes (each below 2^32), is not empty and is not a data script: ToASM then NewFromASM returns the script. -/
theorem asm_round_trip (ts : List Tok) (enc : Bytes) (hts : ∀ t ∈ ts, t.ok ∧ t.asmOk) (henc : encToks ts = some enc)
    (hne : enc ≠ []) (hnd : isDataScript enc = false) :
    ∃ toks, toAsmTokens enc = some toks ∧ fromAsmTokens toks = some enc := by
  obtain ⟨enc', he', hdec⟩ := decode_toks ts (fun t ht => (hts t ht).1)
  rw [henc] at he'
  cases he'
  have hparts : decodeParts enc = (ts.map Tok.part, true) := hdec enc.length (Nat.le_refl _)
  refine ⟨ts.map (fun t => asmToken false t.part), ?_, ?_⟩
  · unfold toAsmTokens
    have : enc.isEmpty = false := by cases enc with | nil => exact absurd rfl hne | cons _ _ => rfl
    simp [this, hparts, hnd, List.map_map, Function.comp_def]
  · clear hdec hparts hne hnd
    induction ts generalizing enc with
    | nil => simp only [encToks, Option.some.injEq] at henc; subst henc; rfl
    | cons t ts ih =>
      simp only [encToks, bind, Option.bind] at henc
      cases hte : t.enc with
      | none => rw [hte] at henc; cases henc
      | some e =>
        rw [hte] at henc
        simp only at henc
        cases hr : encToks ts with
        | none => rw [hr] at henc; cases henc
        | some er =>
          rw [hr] at henc
          simp only [pure, Option.some.injEq] at henc
          subst henc
          have h1 := fromAsmToken_tok t (hts t (by simp)).2
          rw [hte] at h1
          have h2 := ih er (fun x hx => hts x (by simp [hx])) hr
          simp only [List.map_cons, fromAsmTokens, h1, h2, bind, Option.bind, pure]

/-! ### non-vacuity -/
example : ∃ enc, encodeParts [[0xaa], List.replicate 76 1, List.replicate 256 2] = some enc ∧
    decodeParts enc = ([[0xaa], List.replicate 76 1, List.replicate 256 2], true) :=
  decode_encode _ (by
    intro i hi
    simp only [List.mem_cons, List.not_mem_nil, or_false] at hi
    rcases hi with rfl | rfl | rfl <;> simp [-List.reduceReplicate])

example : parseScript [0x51, 0x6a, 0x01, 0x02, 0x03] = .ok [⟨0x51, [], 1⟩, ⟨0x6a, [], 1⟩, ⟨0x01, [0x02, 0x03], 3⟩] := by
  rfl

/-- **The converse round trip**: unparsing a list of well-formed parsed opcodes (each in the shape the parser produces for
    its opcode value — direct pushes of 1..75 bytes, PUSHDATA1/2/4 with their length fields, data-less opcodes — and no
    OP_RETURN, whose tail the parser keeps as one blob) and parsing the bytes gives the list back, for pushes of every
    length up to 2^32. -/
theorem parse_unparse_round_trip (errCS : Bool) (ops : List POp) (bytes : Bytes)
    (hall : ∀ o ∈ ops, o.WF ∧ o.op ≠ opRETURN ∧ (errCS = true → requiresTx o.op = false))
    (hb : unparse ops = .ok bytes) (hlen : ops.length ≤ bytes.length) : parseScript bytes errCS = .ok ops :=
  parseScript_unparse errCS ops bytes hall hb hlen

/-- Regenerated fact (go/ssa write-site table of packages bt and bscript, `Gen/WritesLib.lean`): in the script codecs (package bscript) every
    store, `copy`, `append` and every call that writes through a parameter or a `*Script` targets a buffer allocated in the
    same function (or is a reviewed part of the function's contract), and every byte slice handed to another package
    goes to a reviewed read-only function (GoBT/Script/WriteReviewLib.lean).  Code that appends to or writes into a
    slice it was handed — a previous-output script, a caller's hash, a destination's old buffer — adds a row with a
    `param:` / `field:` / `deref:` origin and breaks this obligation. -/
theorem lib_writes_only_fresh_buffers : GoBT.Script.WriteReviewLib.writesOkFor "C13" = true := by decide +kernel

end GoBT.C13
