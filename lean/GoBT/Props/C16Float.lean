/-
  C16: node-JSON amounts survive the float64 detour for every representable amount.
  `encodeAmount` / `decodeAmount` (GoBT/Json/Amount.lean) model `float64(sats)/1e8` and
  `uint64(math.Round(value*1e8))` with round-to-nearest-even to 53 bits on exact rationals.
  This module is proof-only and uses Mathlib's ordered-field tactics (never imported by the driver).
-/
import GoBT.Json.Amount
import Mathlib.Tactic.Linarith
import Mathlib.Tactic.Positivity
import Mathlib.Tactic.FieldSimp
import Mathlib.Tactic.NormNum
import Mathlib.Tactic.Ring
import Mathlib.Algebra.Order.Field.Power
namespace GoBT.C16F
open GoBT.Json

theorem pow2_eq (e : ℤ) : pow2 e = (2 : ℚ) ^ e := by
  unfold pow2
  split
  · next h =>
    obtain ⟨n, rfl⟩ := Int.eq_ofNat_of_zero_le h
    simp
  · next h =>
    have hneg : 0 ≤ -e := by omega
    obtain ⟨n, hn⟩ := Int.eq_ofNat_of_zero_le hneg
    have he : e = -(n : ℤ) := by omega
    subst he
    simp

theorem pow2_pos (e : ℤ) : 0 < pow2 e := by rw [pow2_eq]; positivity

/-- `log2Up` never overshoots -/
theorem log2Up_le (fuel : ℕ) : ∀ (num den e : ℕ), den ≤ num →
    e ≤ log2Up fuel num den e ∧ den * 2 ^ (log2Up fuel num den e - e) ≤ num := by
  induction fuel with
  | zero => intro num den e h; simp [log2Up]; exact h
  | succ f ih =>
    intro num den e h
    unfold log2Up
    split
    · next hge =>
      obtain ⟨h1, h2⟩ := ih num (2 * den) (e + 1) hge
      refine ⟨by omega, ?_⟩
      have : log2Up f num (2 * den) (e + 1) - e = (log2Up f num (2 * den) (e + 1) - (e + 1)) + 1 := by omega
      rw [this, pow_succ]
      nlinarith [h2]
    · simp; exact h

/-- with enough fuel `log2Up` stops because the next doubling would overshoot -/
theorem log2Up_lt (fuel : ℕ) : ∀ (num den e : ℕ), 0 < den → num < den * 2 ^ fuel →
    num < den * 2 ^ (log2Up fuel num den e - e + 1) := by
  induction fuel with
  | zero => intro num den e hd h; simp [log2Up]; simp at h; omega
  | succ f ih =>
    intro num den e hd h
    unfold log2Up
    split
    · next hge =>
      have h' : num < 2 * den * 2 ^ f := by rw [pow_succ] at h; nlinarith [h]
      have := ih num (2 * den) (e + 1) (by omega) h'
      have hle := (log2Up_le f num (2 * den) (e + 1) hge).1
      have e1 : log2Up f num (2 * den) (e + 1) - e + 1 = (log2Up f num (2 * den) (e + 1) - (e + 1) + 1) + 1 := by omega
      rw [e1, pow_succ]
      nlinarith [this]
    · next hlt => simp; omega

/-- the exponent computation on numerator / denominator, as `floorLog2` does it -/
def floorLog2ND (n d : ℕ) : ℤ :=
  if n ≥ d then (log2Up (n.log2 + 2) n d 0 : ℕ)
  else
    let k := log2Up (d.log2 + 2) d n 0
    if n * 2 ^ k = d then -(k : ℤ) else -(k : ℤ) - 1

theorem floorLog2_eq (q : ℚ) : floorLog2 q = floorLog2ND q.num.toNat q.den := rfl

theorem pow2_floorLog2ND_le (n d : ℕ) (hn : 0 < n) (hd : 0 < d) : pow2 (floorLog2ND n d) ≤ (n : ℚ) / (d : ℚ) := by
  have hdq : (0 : ℚ) < (d : ℚ) := by exact_mod_cast hd
  unfold floorLog2ND
  split
  · next hge =>
    obtain ⟨_, h2⟩ := log2Up_le (n.log2 + 2) n d 0 hge
    simp only [Nat.sub_zero] at h2
    rw [pow2_eq]
    simp only [zpow_natCast]
    rw [le_div_iff₀ hdq]
    have : ((d * 2 ^ (log2Up (n.log2 + 2) n d 0) : ℕ) : ℚ) ≤ (n : ℚ) := by exact_mod_cast h2
    push_cast at this
    linarith
  · next hlt =>
    have hlt' : n < d := by omega
    obtain ⟨_, h2⟩ := log2Up_le (d.log2 + 2) d n 0 (le_of_lt hlt')
    simp only [Nat.sub_zero] at h2
    simp only []
    generalize hk : log2Up (d.log2 + 2) d n 0 = k at h2 ⊢
    have hpk : (0 : ℚ) < 2 ^ k := by positivity
    split
    · next heq =>
      rw [pow2_eq, zpow_neg, zpow_natCast]
      have : (d : ℚ) = (n : ℚ) * 2 ^ k := by exact_mod_cast heq.symm
      rw [this]
      have hnq : (0 : ℚ) < (n : ℚ) := by exact_mod_cast hn
      rw [le_div_iff₀ (by positivity)]
      field_simp
      exact le_refl _
    · have hfuel : d < n * 2 ^ (d.log2 + 2) := by
        have h1 : d < 2 ^ (d.log2 + 1) := Nat.lt_log2_self
        have h2' : 2 ^ (d.log2 + 1) ≤ n * 2 ^ (d.log2 + 2) := by
          rw [pow_succ 2 (d.log2 + 1)]
          nlinarith [Nat.one_le_two_pow (n := d.log2 + 1)]
        omega
      have h3 := log2Up_lt (d.log2 + 2) d n 0 hn hfuel
      simp only [Nat.sub_zero] at h3
      rw [hk] at h3
      have h3q : (d : ℚ) < (n : ℚ) * 2 ^ (k + 1) := by exact_mod_cast h3
      have e : (-(k : ℤ) - 1) = -((k + 1 : ℕ) : ℤ) := by push_cast; ring
      rw [pow2_eq, e, zpow_neg, zpow_natCast, le_div_iff₀ hdq]
      have hp : (0 : ℚ) < 2 ^ (k + 1) := by positivity
      rw [inv_mul_le_iff₀ hp]
      linarith

/-- the exponent chosen for a positive rational is not above its binary logarithm -/
theorem pow2_floorLog2_le (q : ℚ) (hq : 0 < q) : pow2 (floorLog2 q) ≤ q := by
  have hnum : 0 < q.num := Rat.num_pos.mpr hq
  obtain ⟨n, hn⟩ := Int.eq_ofNat_of_zero_le (le_of_lt hnum)
  have hnpos : 0 < n := by omega
  have hqeq : (n : ℚ) / (q.den : ℚ) = q := by
    have := Rat.num_div_den q
    rw [hn] at this
    simpa using this
  rw [floorLog2_eq, hn, Int.toNat_natCast]
  calc pow2 (floorLog2ND n q.den) ≤ (n : ℚ) / (q.den : ℚ) := pow2_floorLog2ND_le n q.den hnpos q.den_pos
    _ = q := hqeq

/-- rounding to the nearest integer moves by at most one half -/
theorem roundHalfEven_bound (q : ℚ) : |((roundHalfEven q : ℤ) : ℚ) - q| ≤ 1 / 2 := by
  have h1 := Rat.floor_le q
  have h2 := Rat.lt_floor_add_one q
  push_cast at h2
  unfold roundHalfEven
  simp only []
  rw [abs_le]
  split
  · next h => constructor <;> linarith
  · split
    · next h _ => push_cast; constructor <;> linarith
    · next hn1 hn2 =>
      have : q - (q.floor : ℚ) = 1 / 2 := le_antisymm (not_lt.mp hn2) (not_lt.mp hn1)
      split
      · constructor <;> linarith
      · push_cast; constructor <;> linarith

/-- an integer is its own rounding -/
theorem roundHalfEven_int (z : ℤ) : roundHalfEven (z : ℚ) = z := by
  unfold roundHalfEven
  simp [Rat.floor_intCast]

/-- **Half an ulp, relatively**: rounding a positive rational to 53 bits moves it by at most 2^-53 of itself -/
theorem rn53_rel (q : ℚ) (hq : 0 < q) : |rn53 q - q| ≤ q / 2 ^ 53 := by
  unfold rn53
  simp only [not_le.mpr hq, ↓reduceIte]
  have hu : 0 < pow2 (floorLog2 q - 52) := pow2_pos _
  have hb := roundHalfEven_bound (q / pow2 (floorLog2 q - 52))
  have hle := pow2_floorLog2_le q hq
  -- |R*u - q| = |R - q/u| * u ≤ u/2, and u = 2^e / 2^52 ≤ q / 2^52
  have hu_eq : pow2 (floorLog2 q - 52) = pow2 (floorLog2 q) / 2 ^ 52 := by
    rw [pow2_eq, pow2_eq, zpow_sub₀ (by norm_num : (2 : ℚ) ≠ 0)]
    norm_num
  have key : ((roundHalfEven (q / pow2 (floorLog2 q - 52)) : ℤ) : ℚ) * pow2 (floorLog2 q - 52) - q =
      (((roundHalfEven (q / pow2 (floorLog2 q - 52)) : ℤ) : ℚ) - q / pow2 (floorLog2 q - 52)) * pow2 (floorLog2 q - 52) := by
    field_simp
  rw [key, abs_mul, abs_of_pos hu]
  calc |((roundHalfEven (q / pow2 (floorLog2 q - 52)) : ℤ) : ℚ) - q / pow2 (floorLog2 q - 52)| * pow2 (floorLog2 q - 52)
      ≤ 1 / 2 * pow2 (floorLog2 q - 52) := by exact mul_le_mul_of_nonneg_right hb (le_of_lt hu)
    _ = pow2 (floorLog2 q) / 2 ^ 53 := by rw [hu_eq]; ring
    _ ≤ q / 2 ^ 53 := by apply div_le_div_of_nonneg_right hle; positivity

theorem rn53_pos (q : ℚ) (hq : 0 < q) : 0 < rn53 q := by
  have := rn53_rel q hq
  rw [abs_le] at this
  have : q / 2 ^ 53 < q := by
    rw [div_lt_iff₀ (by positivity)]
    have : (1 : ℚ) < 2 ^ 53 := by norm_num
    nlinarith
  linarith [this]

/-- natural numbers below 2^53 are representable: rounding leaves them alone -/
theorem rn53_nat (n : ℕ) (h : n < 2 ^ 53) : rn53 (n : ℚ) = n := by
  by_cases h0 : n = 0
  · subst h0; simp [rn53]
  have hq : (0 : ℚ) < n := by exact_mod_cast Nat.pos_of_ne_zero h0
  unfold rn53
  simp only [not_le.mpr hq, ↓reduceIte]
  have hle := pow2_floorLog2_le (n : ℚ) hq
  -- the exponent is at most 52, so the unit 2^(e-52) is the reciprocal of a power of two
  have he : floorLog2 (n : ℚ) ≤ 52 := by
    by_contra hc
    have h53 : (53 : ℤ) ≤ floorLog2 (n : ℚ) := by omega
    have : (2 : ℚ) ^ (53 : ℤ) ≤ pow2 (floorLog2 (n : ℚ)) := by
      rw [pow2_eq]; exact zpow_le_zpow_right₀ (by norm_num) h53
    have hn : (n : ℚ) < 2 ^ (53 : ℤ) := by
      have h' : (n : ℚ) < ((2 ^ 53 : ℕ) : ℚ) := by exact_mod_cast h
      have e : ((2 ^ 53 : ℕ) : ℚ) = (2 : ℚ) ^ (53 : ℤ) := by norm_num
      rw [e] at h'
      exact h'
    linarith
  obtain ⟨k, hk⟩ := Int.eq_ofNat_of_zero_le (show 0 ≤ 52 - floorLog2 (n : ℚ) by omega)
  have hu : pow2 (floorLog2 (n : ℚ) - 52) = 1 / 2 ^ k := by
    rw [pow2_eq, show floorLog2 (n : ℚ) - 52 = -(k : ℤ) by omega, zpow_neg, zpow_natCast]
    simp
  rw [hu]
  have : (n : ℚ) / (1 / 2 ^ k) = ((n * 2 ^ k : ℕ) : ℤ) := by push_cast; field_simp
  rw [this, roundHalfEven_int]
  push_cast
  field_simp

/-- `math.Round` of something within half a unit of an integer is that integer -/
theorem roundHalfAway_near (w : ℚ) (N : ℤ) (h1 : (N : ℚ) - 1 / 2 < w) (h2 : w < (N : ℚ) + 1 / 2) :
    roundHalfAway w = N := by
  unfold roundHalfAway
  simp only []
  have hf1 := Rat.floor_le w
  have hf2 := Rat.lt_floor_add_one w
  push_cast at hf2
  by_cases hge : (N : ℚ) ≤ w
  · -- floor is N
    have hfl : w.floor = N := by
      apply le_antisymm
      · have : w.floor < N + 1 := Rat.floor_lt_iff.mpr (by push_cast; linarith)
        omega
      · exact Rat.le_floor_iff.mpr hge
    rw [hfl]
    have : w - (N : ℚ) < 1 / 2 := by linarith
    rw [if_pos this]
  · -- floor is N - 1
    have hlt : w < (N : ℚ) := not_le.mp hge
    have hfl : w.floor = N - 1 := by
      apply le_antisymm
      · have : w.floor < N := Rat.floor_lt_iff.mpr hlt
        omega
      · apply Rat.le_floor_iff.mpr
        push_cast; linarith
    rw [hfl]
    have : ¬ (w - ((N - 1 : ℤ) : ℚ) < 1 / 2) := by push_cast; linarith
    rw [if_neg this]
    omega

/-- **Every amount up to the 21-million-coin cap survives the float64 detour**: converting satoshis to a coin
    value (`float64(sats) / 1e8`, correctly rounded) and back (`uint64(math.Round(value * 1e8))`) returns the
    satoshis, for every n ≤ 2,100,000,000,000,000. -/
theorem amount_round_trip (n : ℕ) (hn : n ≤ 2100000000000000) : decodeAmount (encodeAmount n) = n := by
  by_cases h0 : n = 0
  · subst h0
    have e1 : rn53 ((0 : ℕ) : ℚ) = 0 := by simp [rn53]
    have e2 : rn53 (0 : ℚ) = 0 := by simp [rn53]
    simp only [decodeAmount, encodeAmount, e1, zero_div, e2, zero_mul]
    have : roundHalfAway 0 = 0 := roundHalfAway_near 0 0 (by norm_num) (by norm_num)
    rw [this]; rfl
  have hN : (0 : ℚ) < (n : ℚ) := by exact_mod_cast Nat.pos_of_ne_zero h0
  have hNle : (n : ℚ) ≤ 2100000000000000 := by exact_mod_cast hn
  unfold decodeAmount encodeAmount
  rw [rn53_nat n (by omega)]
  -- x = n / 1e8, v = rn(x), y = v * 1e8, w = rn(y)
  have hx : (0 : ℚ) < (n : ℚ) / 100000000 := by positivity
  have hv := rn53_rel _ hx
  have hvpos := rn53_pos _ hx
  have hy : (0 : ℚ) < rn53 ((n : ℚ) / 100000000) * 100000000 := by positivity
  have hw := rn53_rel _ hy
  rw [abs_le] at hv hw
  have hnear : ((n : ℤ) : ℚ) - 1 / 2 < rn53 (rn53 ((n : ℚ) / 100000000) * 100000000) ∧
      rn53 (rn53 ((n : ℚ) / 100000000) * 100000000) < ((n : ℤ) : ℚ) + 1 / 2 := by
    have e53 : (2 : ℚ) ^ 53 = 9007199254740992 := by norm_num
    rw [e53] at hv hw
    push_cast
    constructor <;> nlinarith [hv.1, hv.2, hw.1, hw.2]
  rw [roundHalfAway_near _ (n : ℤ) hnear.1 hnear.2]
  simp

end GoBT.C16F
