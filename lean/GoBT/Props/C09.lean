/-
  C09 — decoding untrusted transaction bytes is total and resource-bounded.
  Model ↔ code: the readers of GoBT/Tx/Wire.lean (total functions carrying Go's byte accounting on the error
  path), `readBytesRequested` = the allocation behaviour of bt.readBytes (chunked reads), and
  GoBT/Json/Shapes.lean for the JSON entry points after encoding/json has filled the wrapper structs.
-/
import GoBT.Tx.WireLemmas
import GoBT.Json.Shapes
import GoBT.Gen.Limits
import GoBT.Script.IndexReviewLib
namespace GoBT.C09
open GoBT GoBT.Json

/-- what "returns a value or an error, never reporting more bytes than supplied" means for a reader -/
def Bounded {α : Type} (bs : Bytes) (r : Rd α) : Prop :=
  match r with
  | .ok _ rest => ∃ pre, bs = pre ++ rest        -- success: consumed a prefix (so consumed ≤ supplied)
  | .err n => n ≤ bs.length                       -- error: the reported count is at most what was supplied

/-- Every binary entry point, on every byte string: Tx.ReadFrom / NewTxFromStream / NewTxFromBytes,
    Txs.ReadFrom, Input.ReadFrom / ReadFromExtended, Output.ReadFrom, VarInt.ReadFrom. -/
theorem decoders_bounded (bs : Bytes) :
    Bounded bs (parse bs) ∧ Bounded bs (parseTxs bs) ∧ Bounded bs (readInput false bs) ∧
    Bounded bs (readInput true bs) ∧ Bounded bs (readOutput bs) ∧ Bounded bs (varintRead bs) :=
  ⟨parse_sound bs, parseTxs_sound bs, readInput_sound false bs, readInput_sound true bs,
   readOutput_sound bs, varintRead_sound bs⟩

/-- the byte count of NewTxFromStream never exceeds the input, on success and on failure -/
theorem stream_count_le (bs : Bytes) :
    match parseStream bs with
    | .ok (_, n) => n ≤ bs.length
    | .error n => n ≤ bs.length := by
  unfold parseStream
  have h := parse_sound bs
  cases hp : parse bs with
  | ok p rest =>
    simp only
    unfold consumed; omega
  | err n =>
    rw [hp] at h
    exact h

/-! ### allocation: bt.readBytes requests memory as data arrives -/

/-- bt.readChunkSize (regenerated constant) -/
def chunk : Nat := 65536

theorem chunk_matches_source :
    GoBT.Gen.intConsts.lookup "bt.readChunkSize" = some (chunk : Int) := by decide +kernel

/-- the loop of readBytes for a claimed length `l` with `avail` bytes left in the reader: total bytes
    requested from the allocator for chunks (`got` bytes have been received so far) -/
def chunkLoop : Nat → Nat → Nat → Nat → Nat
  | 0, _, _, _ => 0
  | fuel + 1, l, got, avail =>
    if got < l then
      let want := min (l - got) chunk
      let n := min want avail
      if n < want then want                      -- short read: the loop stops with an error
      else want + chunkLoop fuel l (got + n) (avail - n)
    else 0

/-- bytes requested by readBytes(l) -/
def readBytesRequested (l avail : Nat) : Nat :=
  if l ≤ chunk then l else chunkLoop (l / chunk + 2) l 0 avail

theorem chunkLoop_le (fuel l got avail : Nat) : chunkLoop fuel l got avail ≤ avail + chunk := by
  induction fuel generalizing got avail with
  | zero => simp [chunkLoop]
  | succ fuel ih =>
    unfold chunkLoop
    split
    · simp only
      split
      · have : min (l - got) chunk ≤ chunk := Nat.min_le_right _ _
        omega
      · next hn =>
        have h1 : min (l - got) chunk ≤ avail := by
          have := Nat.min_le_right (min (l - got) chunk) avail
          omega
        have h2 : min (min (l - got) chunk) avail = min (l - got) chunk := Nat.min_eq_left h1
        have := ih (got + min (min (l - got) chunk) avail) (avail - min (min (l - got) chunk) avail)
        rw [h2] at this ⊢
        omega
    · omega

/-- Memory requested while reading a length-prefixed field is bounded by the bytes actually available plus
    one chunk — whatever length (up to 2^64-1) the prefix claims. -/
theorem readBytes_alloc_linear (l avail : Nat) : readBytesRequested l avail ≤ avail + chunk ∨
    (l ≤ chunk ∧ readBytesRequested l avail = l) := by
  unfold readBytesRequested
  split
  · next h => exact Or.inr ⟨h, rfl⟩
  · exact Or.inl (chunkLoop_le _ _ _ _)

theorem readBytes_alloc_bound (l avail : Nat) : readBytesRequested l avail ≤ avail + chunk + chunk := by
  rcases readBytes_alloc_linear l avail with h | ⟨h1, h2⟩
  · omega
  · rw [h2]; omega

/-! ### JSON entry points: absent / null fields are errors, not dereferences -/

theorem node_json_nil_is_error :
    nodeInToInput none = .error .err ∧
    (∀ i : NodeIn, i.scriptSig = none → nodeInToInput (some i) = .error .err) ∧
    nodeOutToOutput none = .error .err ∧
    (∀ o : NodeOut, o.scriptPubKey = none → nodeOutToOutput (some o) = .error .err) := by
  refine ⟨rfl, ?_, rfl, ?_⟩
  · intro i h; simp [nodeInToInput, h]
  · intro o h; simp [nodeOutToOutput, h]

/-- a decoded node-JSON input always has a 32-byte txid (so later cloning/serialisation cannot misalign) -/
theorem node_json_input_txid (i : Option NodeIn) (inp : Input) (h : nodeInToInput i = .ok inp) :
    inp.prevTxID.length = 32 := by
  unfold nodeInToInput at h
  split at h
  · cases h
  · split at h
    · split at h
      · next hl => cases h; exact hl
      · cases h
    · cases h

/-! ### non-vacuity: a prefix claiming 2^64-1 script bytes with 3 bytes following -/
example : readBytesRequested (2 ^ 64 - 1) 3 = 65536 := by decide +kernel

/-- ✓gen — every index / slice expression in the current sources of the root package belongs to a function reviewed in
    GoBT/Script/IndexReviewLib.lean, with the number of expressions reviewed (a tripwire for model drift) -/
theorem index_sites_reviewed_bt : GoBT.Script.indexReviewBtOk = true := by decide +kernel

end GoBT.C09
