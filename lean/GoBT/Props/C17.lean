/-
  C17 — BIP276 text encoding round-trips; layout; rejection of malformed text.
  Model ↔ code: `encodeBip276` = EncodeBIP276/createBIP276, `decodeBip276` = DecodeBIP276 with the regular
  expression written as an explicit splitter.  The double SHA-256 is a parameter `H`.
  KNOWN FINDING F-C17-01: the code writes the *network* field before the *version* field, whereas BIP276
  specifies version first; the repository's own test pins the code's order, so it is recorded, not repaired.
-/
import GoBT.Addr.Bip276
import GoBT.Props.C17RT
namespace GoBT.C17
open GoBT GoBT.Addr

/-- The text is laid out as: prefix, colon, two hex digits, two hex digits, hex data, eight hex digits of
    checksum — with the two-digit fields being network then version (see the known finding above). -/
theorem bip276_layout (H : Bytes → Bytes) (b : Bip276) (txt : List Char) (h : encodeBip276 H b = some txt) :
    txt = b.pfx ++ [':'] ++ hex2 b.network ++ hex2 b.version ++ hexChars b.data ++
          hexChars ((H ((bip276Payload b).map fun c => UInt8.ofNat c.toNat)).take 4) ∧
    1 ≤ b.version ∧ b.version ≤ 255 ∧ 1 ≤ b.network ∧ b.network ≤ 255 := by
  unfold encodeBip276 at h
  split at h
  · cases h
  · next hr =>
    simp only [Option.some.injEq] at h
    subst h
    refine ⟨rfl, ?_⟩
    omega

/-- The BIP's own layout (version before network) is *not* what is produced when the two differ:
    machine-checked witness for the known finding (version 1, network 2). -/
theorem layout_counterexample :
    bip276Payload { pfx := "bitcoin-script".toList, version := 1, network := 2, data := [0x51] } ≠
      "bitcoin-script".toList ++ [':'] ++ hex2 1 ++ hex2 2 ++ hexChars [0x51] := by
  decide

/-- Text that is accepted has the layout above — a non-empty prefix without newline, a colon, at least twelve
    further characters all of them hex digits — and its last eight characters are exactly the checksum of the
    canonical payload of the decoded fields: a wrong checksum or a malformed layout is rejected. -/
theorem decode_accepts_only_wellformed (H : Bytes → Bytes) (txt : List Char) (b : Bip276)
    (h : decodeBip276 H txt = .ok b) :
    ∃ rest, splitLastColon txt = some (b.pfx, rest) ∧ b.pfx ≠ [] ∧ 12 ≤ rest.length ∧
      rest.all isHexChar = true ∧ rest.drop (rest.length - 8) = bip276Checksum H b ∧
      hexDecChars ((rest.drop 4).take (rest.length - 12)) = some b.data ∧
      b.version < 256 ∧ b.network < 256 := by
  unfold decodeBip276 at h
  split at h
  · cases h
  · next pfx rest hs =>
    split at h
    · cases h
    · next hc =>
      split at h
      · next n v hn hv =>
        dsimp only at h
        split at h
        · cases h
        · next d hd =>
          split at h
          · cases h
          · next hck =>
            simp only [Except.ok.injEq] at h
            subst h
            simp only [not_or, Decidable.not_not, Nat.not_lt] at hc
            refine ⟨rest, hs, ?_, hc.2.2.1, ?_, ?_, hd, UInt8.toNat_lt v, UInt8.toNat_lt n⟩
            · intro e; simp at e; simp [e] at hc
            · simpa using hc.2.2.2
            · simpa using hck
      · cases h

/-- Address validation accepts a `bitcoin-script:` string exactly when it decodes (definitional in the code:
    ValidateAddress dispatches on the prefix and calls DecodeBIP276). -/
theorem validate_script_iff_decodes (H : Bytes → Bytes) (txt : List Char) :
    (match decodeBip276 H txt with | .ok _ => true | .error _ => false) = true ↔
      ∃ b, decodeBip276 H txt = .ok b := by
  cases h : decodeBip276 H txt with
  | ok b => simp
  | error e => simp

/-- **Round trip** (proof in GoBT/Props/C17RT.lean): for every non-empty prefix without a newline, version and
    network in 1..255, payload, and checksum function with at least four bytes of output, DecodeBIP276 of the
    EncodeBIP276 text returns exactly the encoded fields. -/
theorem bip276_round_trip (H : Bytes → Bytes) (hH : ∀ x, 4 ≤ (H x).length) (b : Bip276) (txt : List Char)
    (hp : b.pfx ≠ []) (hnl : ∀ c ∈ b.pfx, c ≠ '\n') (h : encodeBip276 H b = some txt) :
    decodeBip276 H txt = .ok b :=
  decode_encode H hH b txt hp hnl h

/-! ### non-vacuity / executable round trip on concrete values (all 65,025 version/network pairs are also enumerated by
    the correspondence check on every run) -/
example : let H : Bytes → Bytes := fun _ => [0xde, 0xad, 0xbe, 0xef]
    (encodeBip276 H { pfx := "bitcoin-script".toList, version := 10, network := 2, data := [0x51, 0xff] }).map
      (decodeBip276 H) = some (.ok { pfx := "bitcoin-script".toList, version := 10, network := 2, data := [0x51, 0xff] }) := by
  rfl

end GoBT.C17
