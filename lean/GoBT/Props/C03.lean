/-
  C03 — the legacy signature hash equals the original Satoshi algorithm, including the SINGLE bug.
  Model ↔ code: `preimageLegacy` = Tx.CalcInputPreimageLegacy (clone, blank, truncate, re-serialise),
  `signatureHash` = Tx.CalcInputSignatureHash.  `satoshiSpec` is the original algorithm written as one
  serialisation (validated on every run against the 500 node-generated legacy vectors shipped in the
  repository).  The codec round trip of C01 (`clone_eq`) is a premise of this proof.
-/
import GoBT.Sighash.Model
import GoBT.Props.C01
import GoBT.Gen.Limits
import GoBT.Script.WriteReviewLib
import GoBT.Script.SliceHeap
namespace GoBT.C03
open GoBT GoBT.Sighash

theorem mapIdxFrom_length {α β : Type} (f : Nat → α → β) (k : Nat) (l : List α) :
    (mapIdxFrom f k l).length = l.length := by
  induction l generalizing k with
  | nil => rfl
  | cons a as ih => simp [mapIdxFrom, ih]

theorem mapIdxFrom_map {α β γ : Type} (f : Nat → β → γ) (g : α → β) (k : Nat) (l : List α) :
    mapIdxFrom f k (l.map g) = mapIdxFrom (fun k a => f k (g a)) k l := by
  induction l generalizing k with
  | nil => rfl
  | cons a as ih => simp [mapIdxFrom, ih]

theorem map_mapIdxFrom {α β γ : Type} (h : β → γ) (f : Nat → α → β) (k : Nat) (l : List α) :
    (mapIdxFrom f k l).map h = mapIdxFrom (fun k a => h (f k a)) k l := by
  induction l generalizing k with
  | nil => rfl
  | cons a as ih => simp [mapIdxFrom, ih]

theorem mapIdxFrom_congr {α β : Type} (f g : Nat → α → β) (k : Nat) (l : List α)
    (h : ∀ j a, a ∈ l → f j a = g j a) : mapIdxFrom f k l = mapIdxFrom g k l := by
  induction l generalizing k with
  | nil => rfl
  | cons a as ih =>
    simp only [mapIdxFrom]
    rw [h k a (by simp), ih (k + 1) (fun j b hb => h j b (by simp [hb]))]

/-- For every well-formed transaction, in-range input index with a previous script, and *every*
    hash-type byte (in particular the 128 without the FORKID bit), except SINGLE with no matching
    output: the preimage is the original serialisation — other inputs' scripts blanked, the signed input
    carrying the script code, NONE/SINGLE output truncation with sequence zeroing of the other inputs,
    ANYONECANPAY isolating the signed input — followed by the 4-byte hash type. -/
theorem legacy_preimage_eq_spec (tx : Tx) (hwf : tx.wf) (idx flag : Nat) (i : Input) (sc : Bytes)
    (hi : tx.inputs[idx]? = some i) (ht : i.prevTxID.length ≠ 0) (hs : i.prevScript = some sc)
    (hns : ¬ (flag &&& 0x1f = 3 ∧ tx.outputs.length ≤ idx)) :
    preimageLegacy tx idx flag = .ok (satoshiSpec tx idx flag sc) := by
  have hne : tx.inputs ≠ [] := by
    intro e; rw [e] at hi; simp at hi
  have hamb : ¬ tx.ambiguous := fun h => hne h.1
  unfold preimageLegacy checkInput
  simp only [hi, ht, ↓reduceIte, hs, bind, Except.bind, pure, Except.pure, fMask, fSingle]
  simp only [hns, ↓reduceIte, C01.clone_eq tx hwf hamb]
  simp only [C01.cloneNorm, satoshiSpec, fNone, fAnyOneCanPay]
  congr 1
  -- the input lists correspond element by element
  have hins : (legacyInputs (tx.inputs.map fun i => { i with unlocking := some (i.unlocking.getD []) }) idx sc
        (decide (flag &&& 31 = 2) || decide (flag &&& 31 = 3))).map serLegacyInput =
      mapIdxFrom (fun k (i : Input) =>
        i.prevTxID.reverse ++ leEnc 4 i.vout ++
          (if k = idx then varintEnc sc.length ++ sc else [0x00]) ++
          leEnc 4 (if k ≠ idx ∧ (flag &&& 31 = 2 ∨ flag &&& 31 = 3) then 0 else i.sequence)) 0 tx.inputs := by
    unfold legacyInputs
    rw [mapIdxFrom_map, map_mapIdxFrom]
    apply mapIdxFrom_congr
    intro j a _
    by_cases hj : j = idx
    · simp [hj, serLegacyInput, outpoint, optLen]
    · by_cases h2 : flag &&& 31 = 2 <;> by_cases h3 : flag &&& 31 = 3 <;>
        simp [hj, serLegacyInput, outpoint, optLen, h2, h3, varintEnc]
  rw [← hins]
  have h18 : (18446744073709551615 : Nat) = 2 ^ 64 - 1 := by decide
  by_cases hacp : flag &&& 128 = 0
  · simp [hacp, List.flatMap_def]
    rfl
  · simp [hacp, List.flatMap_def, List.map_take, List.map_drop]
    rfl

/-- The SINGLE bug: a SINGLE-type hash (low five bits = 3) for an input index with no matching output is
    the constant 1 as a little-endian 256-bit number — returned un-hashed, not an error. -/
theorem legacy_single_bug (H : Hash) (tx : Tx) (idx flag : Nat) (i : Input) (sc : Bytes)
    (hi : tx.inputs[idx]? = some i) (ht : i.prevTxID.length ≠ 0) (hs : i.prevScript = some sc)
    (hf : flag &&& fForkID ≠ fForkID) (h3 : flag &&& 0x1f = 3) (hout : tx.outputs.length ≤ idx) :
    preimageLegacy tx idx flag = .ok one256 ∧ signatureHash H tx idx flag = .ok one256 := by
  have hp : preimageLegacy tx idx flag = .ok one256 := by
    unfold preimageLegacy checkInput
    simp [hi, ht, hs, bind, Except.bind, pure, Except.pure, fMask, fSingle, h3, hout]
  refine ⟨hp, ?_⟩
  unfold signatureHash
  simp [hf, hp, bind, Except.bind, pure, Except.pure]

/-- The un-hashed shortcut fires only for the bug case: every genuine legacy preimage of a
    transaction whose signed input has a non-empty txid is longer than 32 bytes, so the digest is
    the hash of the preimage. -/
theorem legacy_no_false_shortcut (H : Hash) (tx : Tx) (hwf : tx.wf) (idx flag : Nat) (i : Input) (sc : Bytes)
    (hi : tx.inputs[idx]? = some i) (ht : i.prevTxID.length ≠ 0) (hs : i.prevScript = some sc)
    (hf : flag &&& fForkID ≠ fForkID) (hns : ¬ (flag &&& 0x1f = 3 ∧ tx.outputs.length ≤ idx)) :
    signatureHash H tx idx flag = .ok (H (satoshiSpec tx idx flag sc)) := by
  unfold signatureHash
  simp only [hf, ↓reduceIte, legacy_preimage_eq_spec tx hwf idx flag i sc hi ht hs hns, bind, Except.bind,
    pure, Except.pure]
  have hlen : 33 ≤ (satoshiSpec tx idx flag sc).length := by
    have hidx : idx < tx.inputs.length := by
      rcases Nat.lt_or_ge idx tx.inputs.length with h | h
      · exact h
      · rw [List.getElem?_eq_none h] at hi; cases hi
    have h32 : i.prevTxID.length = 32 := by
      have := hwf.2.2.2.2.1 i (List.mem_of_getElem? hi)
      exact this.1
    unfold satoshiSpec
    simp only [List.length_append, leEnc_length]
    -- the signed input alone contributes 32+4+…; keep only the fixed-size parts
    have key : ∀ (l : List Bytes), 0 ≤ l.flatten.length := fun _ => Nat.zero_le _
    have hin : 40 ≤ (if flag &&& 128 ≠ 0 then
        List.take 1 (List.drop idx (mapIdxFrom (fun k (i : Input) =>
          i.prevTxID.reverse ++ leEnc 4 i.vout ++ (if k = idx then varintEnc sc.length ++ sc else [0x00]) ++
            leEnc 4 (if k ≠ idx ∧ (flag &&& 31 = 2 ∨ flag &&& 31 = 3) then 0 else i.sequence)) 0 tx.inputs))
        else mapIdxFrom (fun k (i : Input) =>
          i.prevTxID.reverse ++ leEnc 4 i.vout ++ (if k = idx then varintEnc sc.length ++ sc else [0x00]) ++
            leEnc 4 (if k ≠ idx ∧ (flag &&& 31 = 2 ∨ flag &&& 31 = 3) then 0 else i.sequence)) 0 tx.inputs).flatten.length := by
      -- every element has length ≥ 40 when its txid has 32 bytes; the list is non-empty
      have hall : ∀ (k : Nat) (l : List Input), (∀ a ∈ l, a.prevTxID.length = 32) →
          ∀ x ∈ mapIdxFrom (fun k (i : Input) =>
            i.prevTxID.reverse ++ leEnc 4 i.vout ++ (if k = idx then varintEnc sc.length ++ sc else [0x00]) ++
              leEnc 4 (if k ≠ idx ∧ (flag &&& 31 = 2 ∨ flag &&& 31 = 3) then 0 else i.sequence)) k l,
          40 ≤ x.length := by
        intro k l
        induction l generalizing k with
        | nil => intro _ x hx; simp [mapIdxFrom] at hx
        | cons a as ih =>
          intro hl x hx
          simp only [mapIdxFrom, List.mem_cons] at hx
          rcases hx with rfl | hx
          · simp only [List.length_append, List.length_reverse, leEnc_length, hl a (by simp)]
            omega
          · exact ih (k + 1) (fun b hb => hl b (by simp [hb])) x hx
      have h32all : ∀ a ∈ tx.inputs, a.prevTxID.length = 32 := fun a ha => (hwf.2.2.2.2.1 a ha).1
      have hmem := hall 0 tx.inputs h32all
      have hlenm := mapIdxFrom_length (fun k (i : Input) =>
            i.prevTxID.reverse ++ leEnc 4 i.vout ++ (if k = idx then varintEnc sc.length ++ sc else [0x00]) ++
              leEnc 4 (if k ≠ idx ∧ (flag &&& 31 = 2 ∨ flag &&& 31 = 3) then 0 else i.sequence)) 0 tx.inputs
      generalize mapIdxFrom (fun k (i : Input) =>
            i.prevTxID.reverse ++ leEnc 4 i.vout ++ (if k = idx then varintEnc sc.length ++ sc else [0x00]) ++
              leEnc 4 (if k ≠ idx ∧ (flag &&& 31 = 2 ∨ flag &&& 31 = 3) then 0 else i.sequence)) 0 tx.inputs = M at hmem hlenm ⊢
      have hflat : ∀ (L : List Bytes), L ≠ [] → (∀ x ∈ L, 40 ≤ x.length) → 40 ≤ L.flatten.length := by
        intro L hL hx
        cases L with
        | nil => exact absurd rfl hL
        | cons y ys =>
          have := hx y (by simp)
          simp only [List.flatten_cons, List.length_append]
          omega
      split
      · apply hflat
        · intro e
          have : (List.take 1 (List.drop idx M)).length = 0 := by rw [e]; rfl
          simp at this
          omega
        · intro x hx
          exact hmem x (List.mem_of_mem_drop (List.mem_of_mem_take hx))
      · apply hflat
        · intro e; rw [e] at hlenm; simp at hlenm; omega
        · exact hmem
    omega
  have hne : satoshiSpec tx idx flag sc ≠ one256 := by
    intro e; rw [e] at hlen; simp [one256] at hlen
  simp [hne]

/-! ### non-vacuity: two inputs, one output, SINGLE on the second input (the bug case) and on the first -/
def sample : Tx :=
  { version := 1, lockTime := 0,
    inputs := [ { prevTxID := List.replicate 32 7, vout := 0, unlocking := some [0x51], sequence := 1,
                  prevSats := 5, prevScript := some [0x52] },
                { prevTxID := List.replicate 32 8, vout := 1, unlocking := none, sequence := 2,
                  prevSats := 6, prevScript := some [0x53, 0x54] } ],
    outputs := [ { sats := 3, script := [0x6a] } ] }

example : sample.wf ∧ sample.inputs[1]? = some (sample.inputs[1]?.getD default) ∧
    (3 &&& 0x1f = 3 ∧ sample.outputs.length ≤ 1) ∧ ¬ (3 &&& 0x1f = 3 ∧ sample.outputs.length ≤ 0) :=
  ⟨by simp [-List.reduceReplicate, Tx.wf, Input.wf, Output.wf, sample, optLen], rfl, by decide, by decide⟩

/-- ✓gen — the hash-type constants of sighash/flag.go are the ones the model uses -/
theorem sighash_consts_match :
    GoBT.Gen.intConsts.lookup "sighash.All" = some (fAll : Int) ∧ GoBT.Gen.intConsts.lookup "sighash.None" = some (fNone : Int) ∧
    GoBT.Gen.intConsts.lookup "sighash.Single" = some (fSingle : Int) ∧
    GoBT.Gen.intConsts.lookup "sighash.AnyOneCanPay" = some (fAnyOneCanPay : Int) ∧
    GoBT.Gen.intConsts.lookup "sighash.ForkID" = some (fForkID : Int) ∧ GoBT.Gen.intConsts.lookup "sighash.Mask" = some (fMask : Int) := by
  decide +kernel

/-- Regenerated fact (go/ssa write-site table of packages bt and bscript, `Gen/WritesLib.lean`): in the legacy signature-hash routine every
    store, `copy`, `append` and every call that writes through a parameter or a `*Script` targets a buffer allocated in the
    same function (or is a reviewed part of the function's contract), and every byte slice handed to another package
    goes to a reviewed read-only function (GoBT/Script/WriteReviewLib.lean).  Code that appends to or writes into a
    slice it was handed — a previous-output script, a caller's hash, a destination's old buffer — adds a row with a
    `param:` / `field:` / `deref:` origin and breaks this obligation. -/
theorem lib_writes_only_fresh_buffers : GoBT.Script.WriteReviewLib.writesOkFor "C03" = true := by decide +kernel

/-- "Computing the hash leaves the transaction unchanged", on Go's slice semantics (GoBT/Script/SliceHeap.lean): the
    routine assembles the preimage by appending pieces to a buffer it made itself (that it does is the regenerated
    obligation `lib_writes_only_fresh_buffers`).  For every heap and every way of cutting the preimage into appended
    pieces, the assembled buffer reads as the specification's preimage, and every slice the caller held before — the
    scripts and txids of the transaction, whatever spare capacity they have — reads exactly as before. -/
theorem preimage_assembly_leaves_caller_memory_alone (tx : Tx) (idx ht : Nat) (sc : Bytes) (h : SliceHeap.Heap UInt8)
    (pieces : List Bytes) (hp : pieces.flatten = satoshiSpec tx idx ht sc) :
    (SliceHeap.freshAppends h pieces).1.read (SliceHeap.freshAppends h pieces).2 = satoshiSpec tx idx ht sc ∧
    ∀ t : SliceHeap.Slice, t.WF h → (SliceHeap.freshAppends h pieces).1.read t = h.read t :=
  ⟨by rw [SliceHeap.freshAppends_read, hp], fun t wt => SliceHeap.freshAppends_preserves_read h pieces t wt⟩

end GoBT.C03
