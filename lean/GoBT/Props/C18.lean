/-
  C18 — thread-safe types are race-free; concurrent validation equals sequential validation.

  What is a theorem here is the logic of the property:
    * `guarded_programs_race_free` — for ANY number of threads running ANY programs that obey the lock discipline
      (every access to a field happens while the object's mutex is held, writes in write mode), under EVERY schedule,
      no reachable state has two threads about to perform conflicting accesses;
    * `reads_return_initial_or_written` — every value a thread can read is the initial value or one some thread's
      write action stored;
    * `fee_methods_guarded` / `fee_methods_lock_order` — regenerated from fees.go on every run: EVERY method of
      FeeQuote / FeeQuotes (JSON marshalling, expiry and Quote included) obeys the discipline, and mutexes are taken
      in one global order;
    * `frames_independent` + `engine_stateless` — tasks that own their frame compute their sequential result
      under every interleaving; the engine has no fields and no package-level variable is written after init.
  What is NOT a theorem: the Go memory model / scheduler / sync.RWMutex itself, data reachable through returned
  pointers (`*Fee`, `*FeeQuote`), races inside callees (encoding/json, math/big).  Those are searched by the
  race-detector harness (level: partial).
-/
import GoBT.Conc.LocksProofs
import GoBT.Conc.Frames
import GoBT.Conc.Compile
import GoBT.Conc.Deadlock
import GoBT.Gen.Shared
namespace GoBT.C18
open GoBT.Conc

/-- **Race freedom from the lock discipline**, for every program set, initial memory and schedule. -/
theorem guarded_programs_race_free (progs : List (List Act)) (mem0 : Nat × Nat → Nat) (sched : List Nat)
    (hg : ∀ p ∈ progs, guardedFrom [] p = true) : ¬ Race (run (init progs mem0) sched) :=
  inv_no_race _ (run_inv _ sched (init_inv progs mem0 hg))

/-- **Reads see writes**: in every reachable state the content of every location is its initial value or a value
    that a write action of one of the programs stores there. -/
theorem reads_return_initial_or_written (progs : List (List Act)) (mem0 : Nat × Nat → Nat) (sched : List Nat)
    (l : Nat × Nat) :
    (run (init progs mem0) sched).mem l = mem0 l ∨ (run (init progs mem0) sched).mem l ∈ writesOf progs l :=
  (run_meminv progs mem0 _ sched (init_meminv progs mem0)).vals l

/-- mutual exclusion itself: in every reachable state a mutex with a writer has no readers -/
theorem writer_excludes_readers (progs : List (List Act)) (mem0 : Nat × Nat → Nat) (sched : List Nat)
    (hg : ∀ p ∈ progs, guardedFrom [] p = true) (m t : Nat)
    (h : ((run (init progs mem0) sched).mu m).writer = some t) : ((run (init progs mem0) sched).mu m).readers = [] :=
  (run_inv _ sched (init_inv progs mem0 hg)).excl m t h

/-- **No deadlock from a global lock order**: if, in addition, every program acquires mutexes in increasing order,
    then in every reachable state in which some thread still has actions left, some thread can take a step.
    (`fee_methods_lock_order` below is the regenerated fact that the fee-quote methods do: a FeeQuotes' mutex is
    always taken before that of a FeeQuote reached through it, never the other way round; number the objects
    accordingly.) -/
theorem ordered_programs_deadlock_free (progs : List (List Act)) (mem0 : Nat × Nat → Nat) (sched : List Nat)
    (hg : ∀ p ∈ progs, guardedFrom [] p = true) (ho : ∀ p ∈ progs, orderedFrom [] p = true)
    (hwork : ∃ (t : Nat) (th : Thread), (run (init progs mem0) sched).threads[t]? = some th ∧ th.rest ≠ []) :
    ∃ t, (step (run (init progs mem0) sched) t).isSome = true :=
  no_deadlock progs mem0 sched hg ho hwork

/-- ✓gen — every method of FeeQuote / FeeQuotes in the current fees.go obeys the discipline -/
theorem fee_methods_guarded : allGuarded GoBT.Gen.Locks.methods = true := by decide +kernel

/-- ✓gen — and acquires mutexes in one global order (FeeQuotes before the FeeQuote it holds) -/
theorem fee_methods_lock_order : allOrdered GoBT.Gen.Locks.methods = true := by decide +kernel

/-- the discipline does not depend on which objects the method runs on: compiled for receiver 0 / callee 1 above;
    instantiating both at other (distinct) ids gives the same answer — checked here for a second pair, proved in
    general for renamings by `guardedFrom`'s use of equality tests only -/
theorem fee_methods_guarded_other_ids :
    (GoBT.Gen.Locks.methods.all fun (_, body) =>
      match compileBody GoBT.Gen.Locks.methods 5 3 body with
      | some p => guardedFrom [] p
      | none => false) = true := by decide +kernel

/-- **Concurrent = sequential for frame-owning tasks**: under every schedule task `i` ends with what `k` steps of its
    own step function make of its initial frame, `k` the number of times it was scheduled. -/
theorem frames_independent {σ : Type} (f : Nat → σ → σ) (frames : List σ) (sched : List Nat) (i : Nat) :
    (runSched f frames sched)[i]? = (frames[i]?).map (iter (f i) (sched.count i)) :=
  runSched_frame f frames sched i

/-- types whose methods are documented as safe for concurrent use (trusted): a method call on a package-level
    variable of such a type is not shared mutable state -/
def concurrencySafeTypes : List String := ["*regexp.Regexp"]

/-- ✓gen — interpreter.engine has no fields; no package-level variable of bt, bscript, interpreter, sighash or
    scriptflag is assigned, incremented or address-taken outside init functions; and the only methods invoked on
    package-level variables belong to types documented as safe for concurrent use -/
theorem engine_stateless :
    GoBT.Gen.Shared.engineFields = 0 ∧ GoBT.Gen.Shared.writtenGlobals = [] ∧
    (GoBT.Gen.Shared.globalMethodCalls.all fun c => concurrencySafeTypes.any fun t => c.startsWith (t ++ " ")) = true := by
  decide +kernel

/-- non-vacuity: two threads running AddQuote and Fee on one FeeQuote are guarded programs; an unguarded writer
    (the shape UnmarshalJSON had) next to a guarded reader does reach a race -/
example : guardedFrom [] [.lock 0 true, .write 0 1 7, .unlock 0 true] = true ∧
          guardedFrom [] [.lock 0 false, .read 0 1, .unlock 0 false] = true := by decide

theorem unguarded_writer_races :
    Race (run (init [[.write 0 1 7], [.lock 0 false, .read 0 1, .unlock 0 false]] (fun _ => 0)) [1]) :=
  ⟨0, 1, .write 0 1 7, .read 0 1, by decide, by decide, by decide, by decide⟩

end GoBT.C18
