/-
  C15 — P2PKH construction and addresses are coherent and checksum-protected.
  Model ↔ code: GoBT/Addr/Base58.lean (go-bk base58, dependency model), GoBT/Addr/Address.lean
  (address.go, addressvalidation.go, the P2PKH constructors).  The double SHA-256 is a parameter `H`.
  KNOWN FINDING F-C15-01: NewAddressFromString (hence NewP2PKHFromAddress, PayToAddress, ChangeToAddress) does
  not verify the checksum; the repository's own tests pay to mistyped addresses, so it cannot be repaired
  without editing them.  The "accepted only if …" clause is therefore proved for ValidateAddress and stated
  with a machine-checked counterexample for the script-building path.
-/
import GoBT.Addr.Address
import GoBT.Addr.Base58Lemmas
import GoBT.Gen.Limits
import GoBT.Script.WriteReviewLib
import GoBT.Addr.ValidateConverse
namespace GoBT.C15
open GoBT GoBT.Addr

/-- the Base58Check text of a version byte and a 20-byte hash -/
def base58check (H : Hash) (v : UInt8) (h : Bytes) : List Char := b58check H (v :: h)

/-- ValidateAddress accepts a string only if it is the Base58Check encoding of a supported version byte and a
    20-byte hash with a correct checksum (given a hash function producing at least four bytes). -/
theorem validate_accepts_only_base58check (H : Hash) (hH : ∀ b, 4 ≤ (H b).length) (s : List Char)
    (h : validA58 H s = .ok ()) :
    ∃ v h20, (v = verMain ∨ v = verTest) ∧ h20.length = 20 ∧ s = base58check H v h20 := by
  unfold validA58 at h
  split at h
  · cases h
  · next n hn =>
    simp only at h
    split at h
    · cases h
    · next hv =>
      split at h
      · cases h
      · next hck =>
        split at h
        · cases h
        · next hcan =>
          -- the 25 accumulated bytes
          generalize ha : (leEnc 25 n).reverse = a at h hv hck hcan
          have hlen : a.length = 25 := by rw [← ha]; simp
          simp only [Decidable.not_not] at hck hcan
          have hsplit : a = a.take 21 ++ a.drop 21 := (List.take_append_drop 21 a).symm
          match a, hlen with
          | v :: t, hlen =>
            simp only [List.headD_cons] at hv
            refine ⟨v, t.take 20, ?_, by simp at hlen ⊢; omega, ?_⟩
            · by_cases h0 : v = verMain
              · exact Or.inl h0
              · by_cases h1 : v = verTest
                · exact Or.inr h1
                · exact absurd ⟨h0, h1⟩ hv
            · rw [← hcan]
              unfold base58check b58check
              congr 1
              have e1 : (v :: t).take 21 = v :: t.take 20 := by simp
              rw [e1] at hck hsplit
              rw [← hck]
              exact hsplit

/-- The script-building path does *not* enforce the checksum: with a hash function that maps everything to
    zeros, the Base58 text of version 0, twenty zero bytes and the checksum bytes 01 01 01 01 is turned into a
    locking script although its checksum is wrong (machine-checked witness of known finding F-C15-01). -/
theorem new_address_ignores_checksum :
    let H : Hash := fun _ => List.replicate 32 0
    let s := b58enc (0 :: List.replicate 20 0 ++ [1, 1, 1, 1])
    (addressToPKH H s = .ok (List.replicate 20 0)) ∧ (validA58 H s = .error .checksum) := by
  constructor <;> rfl

/-- Every way of building the P2PKH script from a 20-byte hash yields the canonical 25 bytes, which is exactly
    the template IsP2PKH recognises, and the hash is recovered from it. -/
theorem p2pkh_script_canonical (h : Bytes) (hl : h.length = 20) :
    (p2pkhScript h).length = 25 ∧ Script.isP2PKH (p2pkhScript h) = true ∧
    Script.publicKeyHash (p2pkhScript h) = some (.ok h) := by
  have hl' : h.length = 20 := hl
  obtain ⟨a0, t1, rfl, h1⟩ : ∃ a t, h = a :: t ∧ t.length = 19 := by
    cases h with
    | nil => simp at hl
    | cons a t => exact ⟨a, t, rfl, by simpa using hl⟩
  clear hl'
  refine ⟨by simp [p2pkhScript, h1], ?_, ?_⟩
  · simp [p2pkhScript, Script.isP2PKH, hl, Script.opDUP, Script.opHASH160, Script.opEQUALVERIFY, Script.opCHECKSIG,
      List.getElem?_append_right, List.getElem?_append_left, h1]
  · simp only [Script.publicKeyHash, p2pkhScript]
    simp only [List.cons_append, List.nil_append, List.length_cons, List.length_append, List.length_nil,
      Script.opDUP, Script.opHASH160]
    simp [Script.decodeParts, Script.decodePartsAux, Script.decodeStep, Script.opPUSHDATA1, Script.opPUSHDATA2,
      Script.opPUSHDATA4, h1, bind, Option.bind, pure]

/-- **Base58 round trip** (go-bk's codec, dependency model): for every byte string, Decode (Encode bs) = bs. -/
theorem base58_round_trip (bs : Bytes) : b58dec (b58enc bs) = bs := b58dec_b58enc bs

/-- **Address round trip**: the address derived from any 20-byte hash on either network decodes back to that hash
    (given a checksum function with at least four bytes of output). -/
theorem address_round_trip (H : Hash) (hH : ∀ b, 4 ≤ (H b).length) (mainnet : Bool) (h : Bytes) (hl : h.length = 20) :
    addressToPKH H (encodeAddress H mainnet h) = .ok h := by
  unfold addressToPKH encodeAddress b58check
  rw [b58dec_b58enc]
  have hv : (if mainnet then verMain else verTest) = verMain ∨ (if mainnet then verMain else verTest) = verTest := by
    cases mainnet <;> simp
  generalize (if mainnet then verMain else verTest) = v at hv ⊢
  have hck : (cksum H (v :: h)).length = 4 := by
    unfold cksum; rw [List.length_take]; exact Nat.min_eq_left (hH _)
  have hlen : (v :: (h ++ cksum H (v :: h))).length = 25 := by simp [hl, hck]
  have hnot : ¬ ((v :: (h ++ cksum H (v :: h))).length ≠ 25) := fun hc => hc hlen
  simp only [List.cons_append, hnot, ↓reduceIte, List.headD_cons, hv, List.drop_succ_cons, List.drop_zero]
  congr 1
  have e20 : 20 ≤ h.length := by omega
  have e20' : h.length ≤ 20 := by omega
  rw [List.take_append_of_le_length e20]
  exact List.take_of_length_le e20'

/-- **Every derived address validates** (the converse of `validate_accepts_only_base58check`): for either network and
    every 20-byte hash, the address the library derives is accepted by ValidateAddress — the 25-byte
    accumulate-and-carry decoder returns the payload's value without overflow, the version and checksum tests pass and
    the canonical re-encoding is the address itself (proof in GoBT/Addr/ValidateConverse.lean). -/
theorem derived_address_validates (H : Hash) (hH : ∀ b, 4 ≤ (H b).length) (mainnet : Bool) (h : Bytes)
    (hl : h.length = 20) : validA58 H (encodeAddress H mainnet h) = .ok () := by
  unfold encodeAddress
  cases mainnet
  · exact validA58_b58check H hH verTest (Or.inr rfl) h hl
  · exact validA58_b58check H hH verMain (Or.inl rfl) h hl

/-- ✓gen — the address version bytes of address.go are the ones the model uses -/
theorem version_bytes_match :
    GoBT.Gen.intConsts.lookup "bscript.hashP2PKH" = some (verMain.toNat : Int) ∧
    GoBT.Gen.intConsts.lookup "bscript.hashTestNetP2PKH" = some (verTest.toNat : Int) := by
  decide +kernel

/-- Regenerated fact (go/ssa write-site table of packages bt and bscript, `Gen/WritesLib.lean`): in the address and P2PKH constructors every
    store, `copy`, `append` and every call that writes through a parameter or a `*Script` targets a buffer allocated in the
    same function (or is a reviewed part of the function's contract), and every byte slice handed to another package
    goes to a reviewed read-only function (GoBT/Script/WriteReviewLib.lean).  Code that appends to or writes into a
    slice it was handed — a previous-output script, a caller's hash, a destination's old buffer — adds a row with a
    `param:` / `field:` / `deref:` origin and breaks this obligation. -/
theorem lib_writes_only_fresh_buffers : GoBT.Script.WriteReviewLib.writesOkFor "C15" = true := by decide +kernel

/-- **Every way of building the script agrees**: the script built from the address derived from a 20-byte hash
    (`NewP2PKHFromAddress`, hence `PayToAddress`, `AddP2PKHOutputFromAddress`, `ChangeToAddress`) is the canonical script
    built from the hash itself (`NewP2PKHFromPubKeyHash`, hence the key routes), on either network. -/
theorem script_from_derived_address_is_canonical (H : Hash) (hH : ∀ b, 4 ≤ (H b).length) (mainnet : Bool) (h : Bytes)
    (hl : h.length = 20) : p2pkhFromAddress H (encodeAddress H mainnet h) = .ok (p2pkhScript h) := by
  unfold p2pkhFromAddress
  rw [address_round_trip H hH mainnet h hl]
  simp [p2pkhScript, hl]

end GoBT.C15
