/-
  C02 — the FORKID signature hash equals the BSV replay-protected digest for every hash type.
  Model ↔ code: `preimageForkID` = Tx.CalcInputPreimage, `signatureHash` = Tx.CalcInputSignatureHash.
  `bip143Spec` is the digest algorithm of the BSV specification (validated on every run against the
  500 node-generated vectors shipped in the repository, which use 32-bit hash types).
  The double SHA-256 is a parameter `H`.
-/
import GoBT.Sighash.Model
import GoBT.Gen.Limits
import GoBT.Script.WriteReviewLib
import GoBT.Script.SliceHeap
namespace GoBT.C02
open GoBT GoBT.Sighash

/-- For *every* hash-type byte (in particular all 128 with the FORKID bit, including undefined base
    types 0 and 4..31 and SINGLE without a matching output), every transaction and every existing input
    with a previous txid and previous script: the preimage is exactly the specification's ten items. -/
theorem forkid_preimage_eq_spec (H : Hash) (tx : Tx) (idx flag : Nat) (i : Input) (sc : Bytes)
    (hi : tx.inputs[idx]? = some i) (ht : i.prevTxID.length ≠ 0) (hs : i.prevScript = some sc) :
    preimageForkID H tx idx flag = .ok (bip143Spec H tx idx flag sc i.prevSats) := by
  have eo : outForSigHash = serOutput := by funext o; rfl
  unfold preimageForkID checkInput bip143Spec
  simp only [hi, ht, ↓reduceIte, hs, Option.getD_some]
  simp only [bind, Except.bind, pure, Except.pure]
  congr 1
  simp only [previousOutHash, sequenceHash, outputsHashAll, eo, outpoint,
    fAnyOneCanPay, fSingle, fNone, ne_eq, Decidable.not_not, List.append_assoc]
  have e : (fun o : Output => leEnc 8 o.sats ++ (varintEnc o.script.length ++ o.script)) =
      fun o => leEnc 8 o.sats ++ varintEnc o.script.length ++ o.script := by
    funext o; simp
  by_cases h1 : flag &&& 128 = 0 <;> by_cases h2 : flag &&& 31 = 3 <;> by_cases h3 : flag &&& 31 = 2 <;>
    by_cases h4 : idx < tx.outputs.length <;> simp [h1, h2, h3, h4, e, eo]

/-- The three error cases, in the order the code checks them, and only those. -/
theorem forkid_errors (H : Hash) (tx : Tx) (idx flag : Nat) :
    (tx.inputs[idx]? = none → preimageForkID H tx idx flag = .error .noInput) ∧
    (∀ i, tx.inputs[idx]? = some i → i.prevTxID.length = 0 → preimageForkID H tx idx flag = .error .noTxID) ∧
    (∀ i, tx.inputs[idx]? = some i → i.prevTxID.length ≠ 0 → i.prevScript = none →
        preimageForkID H tx idx flag = .error .noScript) ∧
    (∀ e, preimageForkID H tx idx flag = .error e →
        tx.inputs[idx]? = none ∨ ∃ i, tx.inputs[idx]? = some i ∧ (i.prevTxID.length = 0 ∨ i.prevScript = none)) := by
  refine ⟨?_, ?_, ?_, ?_⟩
  · intro h; simp [preimageForkID, checkInput, h, bind, Except.bind]
  · intro i h h0; simp [preimageForkID, checkInput, h, h0, bind, Except.bind]
  · intro i h h0 hn; simp [preimageForkID, checkInput, h, h0, hn, bind, Except.bind]
  · intro e he
    cases hi : tx.inputs[idx]? with
    | none => exact Or.inl rfl
    | some i =>
      refine Or.inr ⟨i, rfl, ?_⟩
      by_cases h0 : i.prevTxID.length = 0
      · exact Or.inl h0
      · cases hs : i.prevScript with
        | none => exact Or.inr rfl
        | some sc =>
          rw [forkid_preimage_eq_spec H tx idx flag i sc hi h0 hs] at he
          cases he

/-- A FORKID preimage is at least 157 bytes when the hash yields 32 bytes, so it can never be
    mistaken for the 32-byte "hash is one" constant … -/
theorem forkid_preimage_length (H : Hash) (hH : ∀ b, (H b).length = 32) (tx : Tx) (idx ht : Nat)
    (sc : Bytes) (amt : Nat) : 125 + ((tx.inputs[idx]?.getD default).prevTxID.length) ≤
      (bip143Spec H tx idx ht sc amt).length := by
  unfold bip143Spec
  simp only [List.length_append, leEnc_length, List.length_reverse]
  have hv := varintLen_pos sc.length
  rw [← varintEnc_length] at hv
  have z : zero32.length = 32 := by simp [zero32]
  repeat' split
  all_goals simp only [hH, z]
  all_goals omega

/-- … hence the signature hash of a FORKID type is the double SHA-256 of the preimage. -/
theorem forkid_digest (H : Hash) (hH : ∀ b, (H b).length = 32) (tx : Tx) (idx flag : Nat)
    (hf : flag &&& fForkID = fForkID) (pre : Bytes) (hp : preimageForkID H tx idx flag = .ok pre) :
    signatureHash H tx idx flag = .ok (H pre) := by
  unfold signatureHash
  simp only [hf, ↓reduceIte, hp, bind, Except.bind, pure, Except.pure]
  have hne : pre ≠ one256 := by
    intro e
    -- recover the shape of `pre`
    cases hi : tx.inputs[idx]? with
    | none => simp [preimageForkID, checkInput, hi, bind, Except.bind] at hp
    | some i =>
      by_cases h0 : i.prevTxID.length = 0
      · simp [preimageForkID, checkInput, hi, h0, bind, Except.bind] at hp
      · cases hs : i.prevScript with
        | none => simp [preimageForkID, checkInput, hi, h0, hs, bind, Except.bind] at hp
        | some sc =>
          rw [forkid_preimage_eq_spec H tx idx flag i sc hi h0 hs] at hp
          cases hp
          have hl := forkid_preimage_length H hH tx idx flag sc i.prevSats
          rw [e] at hl
          simp [one256] at hl
          omega
  simp [hne]

/-- ANYONECANPAY: the preimage does not depend on the other inputs or on the position of the signed
    input — only on version, the signed input, the outputs selected by the base type, locktime and the
    hash type.  (Used by C04 and C20: the seller's SINGLE|ANYONECANPAY signature stays valid when the
    input and its output are moved to another index together.) -/
theorem anyonecanpay_independent (H : Hash) (tx tx' : Tx) (idx idx' ht : Nat) (sc : Bytes) (amt : Nat)
    (hacp : ht &&& 0x80 ≠ 0) (hv : tx.version = tx'.version) (hl : tx.lockTime = tx'.lockTime)
    (hi : tx.inputs[idx]?.getD default = tx'.inputs[idx']?.getD default)
    (ho : if ht &&& 0x1f = 3 then
            (idx < tx.outputs.length ↔ idx' < tx'.outputs.length) ∧
              (idx < tx.outputs.length → tx.outputs[idx]? = tx'.outputs[idx']?)
          else if ht &&& 0x1f = 2 then True else tx.outputs = tx'.outputs) :
    bip143Spec H tx idx ht sc amt = bip143Spec H tx' idx' ht sc amt := by
  unfold bip143Spec
  simp only [hacp, ne_eq, not_true_eq_false, not_false_eq_true, false_and, ↓reduceIte, hv, hl, hi]
  by_cases h3 : ht &&& 31 = 3
  · simp only [h3, ↓reduceIte] at ho
    obtain ⟨hiff, heq⟩ := ho
    by_cases hlt : idx < tx.outputs.length
    · have hlt' := hiff.mp hlt
      have hq := heq hlt
      rw [List.getElem?_eq_getElem hlt, List.getElem?_eq_getElem hlt'] at hq
      injection hq with hq
      simp [h3, hlt, hlt', hq]
    · have hlt' : ¬ idx' < tx'.outputs.length := fun h => hlt (hiff.mpr h)
      simp [h3, hlt, hlt']
  · by_cases h2 : ht &&& 31 = 2
    · simp [h2]
    · simp only [h3, h2, ↓reduceIte] at ho
      simp [h3, h2, ho]

/-- NONE: no output enters the preimage. -/
theorem none_independent_of_outputs (H : Hash) (tx : Tx) (outs : List Output) (idx ht : Nat) (sc : Bytes)
    (amt : Nat) (h2 : ht &&& 0x1f = 2) :
    bip143Spec H { tx with outputs := outs } idx ht sc amt = bip143Spec H tx idx ht sc amt := by
  unfold bip143Spec
  simp [h2]

/-! ### non-vacuity -/
example : ∃ (H : Hash) (tx : Tx) (i : Input) (sc : Bytes),
    (∀ b, (H b).length = 32) ∧ tx.inputs[1]? = some i ∧ i.prevTxID.length ≠ 0 ∧ i.prevScript = some sc :=
  ⟨fun _ => zero32,
   { version := 1, lockTime := 0, outputs := [],
     inputs := [ { prevTxID := [1], vout := 0, unlocking := none, sequence := 0 },
                 { prevTxID := [2, 3], vout := 7, unlocking := none, sequence := 5, prevSats := 9,
                   prevScript := some [0x51] } ] },
   _, [0x51], by simp [zero32], rfl, by simp, rfl⟩

/-- ✓gen — the hash-type constants of sighash/flag.go are the ones the model uses -/
theorem sighash_consts_match :
    GoBT.Gen.intConsts.lookup "sighash.All" = some (fAll : Int) ∧ GoBT.Gen.intConsts.lookup "sighash.None" = some (fNone : Int) ∧
    GoBT.Gen.intConsts.lookup "sighash.Single" = some (fSingle : Int) ∧
    GoBT.Gen.intConsts.lookup "sighash.AnyOneCanPay" = some (fAnyOneCanPay : Int) ∧
    GoBT.Gen.intConsts.lookup "sighash.ForkID" = some (fForkID : Int) ∧ GoBT.Gen.intConsts.lookup "sighash.Mask" = some (fMask : Int) := by
  decide +kernel

/-- Regenerated fact (go/ssa write-site table of packages bt and bscript, `Gen/WritesLib.lean`): in the FORKID signature-hash routines every
    store, `copy`, `append` and every call that writes through a parameter or a `*Script` targets a buffer allocated in the
    same function (or is a reviewed part of the function's contract), and every byte slice handed to another package
    goes to a reviewed read-only function (GoBT/Script/WriteReviewLib.lean).  Code that appends to or writes into a
    slice it was handed — a previous-output script, a caller's hash, a destination's old buffer — adds a row with a
    `param:` / `field:` / `deref:` origin and breaks this obligation. -/
theorem lib_writes_only_fresh_buffers : GoBT.Script.WriteReviewLib.writesOkFor "C02" = true := by decide +kernel

/-- "Computing the hash leaves the transaction unchanged", on Go's slice semantics (GoBT/Script/SliceHeap.lean): the
    routine assembles the preimage by appending pieces to a buffer it made itself (that it does is the regenerated
    obligation `lib_writes_only_fresh_buffers`).  For every heap and every way of cutting the preimage into appended
    pieces, the assembled buffer reads as the specification's preimage, and every slice the caller held before — the
    scripts and txids of the transaction, whatever spare capacity they have — reads exactly as before. -/
theorem preimage_assembly_leaves_caller_memory_alone (H : Hash) (tx : Tx) (idx ht : Nat) (sc : Bytes) (amt : Nat) (h : SliceHeap.Heap UInt8)
    (pieces : List Bytes) (hp : pieces.flatten = bip143Spec H tx idx ht sc amt) :
    (SliceHeap.freshAppends h pieces).1.read (SliceHeap.freshAppends h pieces).2 = bip143Spec H tx idx ht sc amt ∧
    ∀ t : SliceHeap.Slice, t.WF h → (SliceHeap.freshAppends h pieces).1.read t = h.read t :=
  ⟨by rw [SliceHeap.freshAppends_read, hp], fun t wt => SliceHeap.freshAppends_preserves_read h pieces t wt⟩

end GoBT.C02
