/-
  C06 — signature opcodes accept exactly valid, correctly ordered signatures.
  Model ↔ code: `opCheckSig` / `opCheckMultiSig` / `multisigLoop` / the three encoding predicates mirror
  operations.go and thread.go; ECDSA, DER and public-key parsing of go-bk are the `Crypto` parameters (executable
  Lean implementations in the driver, validated against go-bk vectors).  Every run signs fresh transactions with the
  library's own signer and compares verdict and stacks after every step with the real interpreter.
-/
import GoBT.Interp.Exec
import GoBT.Interp.FlagLemmas
import GoBT.Interp.WriteReview
import GoBT.Props.C05
namespace GoBT.C06
open GoBT GoBT.Interp GoBT.Script

/-! ### the key/signature walk of OP_CHECKMULTISIG is "signatures verify, in order, against a subsequence of keys" -/

/-- the walk, abstracted from encodings: `v s k` = "signature s verifies under key k" -/
def walk {S K : Type} (v : S → K → Bool) : List S → List K → Bool
  | [], _ => true
  | _ :: _, [] => false
  | s :: ss, k :: ks =>
    if (s :: ss).length > (k :: ks).length then false
    else if v s k then walk v ss ks else walk v (s :: ss) ks

inductive All₂ {S K : Type} (v : S → K → Bool) : List S → List K → Prop
  | nil : All₂ v [] []
  | cons {s k ss ks} : v s k = true → All₂ v ss ks → All₂ v (s :: ss) (k :: ks)

/-- there is an order-preserving choice of keys under which every signature verifies -/
def Matches {S K : Type} (v : S → K → Bool) (ss : List S) (ks : List K) : Prop :=
  ∃ ks', List.Sublist ks' ks ∧ All₂ v ss ks'

theorem All₂.length_eq {S K : Type} {v : S → K → Bool} {ss : List S} {ks : List K} (h : All₂ v ss ks) :
    ss.length = ks.length := by
  induction h with
  | nil => rfl
  | cons _ _ ih => simp [ih]

theorem matches_length {S K : Type} {v : S → K → Bool} {ss : List S} {ks : List K} (h : Matches v ss ks) :
    ss.length ≤ ks.length := by
  obtain ⟨ks', hsub, hall⟩ := h
  rw [hall.length_eq]
  exact hsub.length_le

/-- **Order-preserving matching.**  The walk succeeds exactly when the signatures are valid for keys taken in key
    order (each key used at most once); otherwise it yields false — never an error. -/
theorem walk_iff_matches {S K : Type} (v : S → K → Bool) (ss : List S) (ks : List K) :
    walk v ss ks = true ↔ Matches v ss ks := by
  induction ks generalizing ss with
  | nil =>
    cases ss with
    | nil => simp only [walk, true_iff]; exact ⟨[], List.Sublist.slnil, All₂.nil⟩
    | cons s ss =>
      simp only [walk]
      constructor
      · intro h; cases h
      · intro h; have := matches_length h; simp at this
  | cons k ks ih =>
    cases ss with
    | nil => simp only [walk, true_iff]; exact ⟨[], List.nil_sublist _, All₂.nil⟩
    | cons s ss =>
      simp only [walk]
      split
      · next hlen =>
        constructor
        · intro h; cases h
        · intro h; have := matches_length h; simp at hlen this; omega
      · next hlen =>
        split
        · next hv =>
          rw [ih ss]
          constructor
          · rintro ⟨ks', hsub, hf⟩
            exact ⟨k :: ks', hsub.cons_cons k, All₂.cons hv hf⟩
          · rintro ⟨ks', hsub, hf⟩
            cases hf with
            | cons hsk hrest =>
              rename_i k0 ks0
              cases hsub with
              | cons _ hsub' => exact ⟨ks0, (List.sublist_of_cons_sublist hsub'), hrest⟩
              | cons_cons _ hsub' => exact ⟨ks0, hsub', hrest⟩
        · next hv =>
          rw [ih (s :: ss)]
          constructor
          · rintro ⟨ks', hsub, hf⟩
            exact ⟨ks', hsub.cons k, hf⟩
          · rintro ⟨ks', hsub, hf⟩
            cases hf with
            | cons hsk hrest =>
              rename_i k0 ks0
              cases hsub with
              | cons _ hsub' => exact ⟨k0 :: ks0, hsub', All₂.cons hsk hrest⟩
              | cons_cons _ hsub' => exact absurd hsk (by simpa using hv)

/-- The interpreter's loop *is* that walk whenever no hard encoding failure is raised: with no encoding flags
    set, non-empty signatures that parse, keys that parse and a computable digest, `multisigLoop` returns
    `walk` of "ECDSA verification of the signature (without its hash-type byte) over the digest for that hash type". -/
theorem multisigLoop_eq_walk (env : Env) (c : Ctx) (sc : Bytes) (sigs keys : List Bytes) (fuel : Nat)
    (hflags : hasFlag env.flags fStrictEnc = false ∧ hasFlag env.flags fDERSig = false ∧ hasFlag env.flags fLowS = false)
    (hkeys : ∀ k ∈ keys, env.H.pubKeyOk k = true)
    (hsigs : ∀ sg ∈ sigs, sg.length ≠ 0 ∧ ∃ h, sigDigest env c sc ((sg.getLast?.getD 0).toNat) = some h ∧
        ∀ k ∈ keys, ∃ b, env.H.verify false sg.dropLast h k = some b)
    (hfuel : keys.length < fuel) :
    multisigLoop env c (.ok sc) fuel sigs keys [] =
      .inr (walk (fun sg k =>
        match sigDigest env c sc ((sg.getLast?.getD 0).toNat) with
        | some h => (env.H.verify false sg.dropLast h k).getD false
        | none => false) sigs keys) := by
  obtain ⟨hf1, hf2, hf3⟩ := hflags
  have hHT : ∀ shf, checkHashTypeEncoding env shf = none := by intro shf; simp [checkHashTypeEncoding, hf1]
  have hSE : ∀ sg, checkSignatureEncoding env sg = none := by intro sg; simp [checkSignatureEncoding, hf1, hf2, hf3]
  have hPK : ∀ k, checkPubKeyEncoding env k = none := by intro k; simp [checkPubKeyEncoding, hf1]
  induction keys generalizing sigs fuel with
  | nil =>
    cases fuel with
    | zero => simp at hfuel
    | succ fuel =>
      cases sigs with
      | nil => simp [multisigLoop, walk]
      | cons sg rest => simp [multisigLoop, walk]
  | cons key ks ih =>
    cases fuel with
    | zero => simp at hfuel
    | succ fuel =>
      cases sigs with
      | nil => simp [multisigLoop, walk]
      | cons sg rest =>
        obtain ⟨hne, h, hd, hver⟩ := hsigs sg (by simp)
        obtain ⟨b, hb⟩ := hver key (by simp)
        have hk : env.H.pubKeyOk key = true := hkeys key (by simp)
        have hlen0 : (sg.length == 0) = false := by simp [hne]
        simp only [multisigLoop, walk, hlen0, Bool.false_eq_true, ↓reduceIte, List.contains_nil, Bool.not_false,
          hHT, hSE, hPK, hk, Bool.not_true, hd, hf1, hf2, Bool.or_self, hb]
        split
        · rfl
        · have hks : ∀ k ∈ ks, env.H.pubKeyOk k = true := fun k hk' => hkeys k (by simp [hk'])
          cases b with
          | true =>
            simp only [Option.getD_some, ↓reduceIte]
            apply ih rest fuel hks
            · intro sg' hs'
              obtain ⟨a1, h', a2, a3⟩ := hsigs sg' (by simp [hs'])
              exact ⟨a1, h', a2, fun k hk' => a3 k (by simp [hk'])⟩
            · simp at hfuel; omega
          | false =>
            simp only [Option.getD_some, Bool.false_eq_true, ↓reduceIte]
            apply ih (sg :: rest) fuel hks
            · intro sg' hs'
              obtain ⟨a1, h', a2, a3⟩ := hsigs sg' hs'
              exact ⟨a1, h', a2, fun k hk' => a3 k (by simp [hk'])⟩
            · simp at hfuel; omega

/-! ### Signature removal removes the signature push, nothing else -/

/-- **What legacy signature removal takes out of the script code**: an instruction stays unless it is a canonical
    data push (opcode ≤ OP_PUSHDATA4) of exactly the signature bytes. -/
theorem signature_removal_exact (ops : List POp) (sig : Bytes) (o : POp) :
    o ∈ removeOpcodeByData ops sig ↔ o ∈ ops ∧ ¬ (o.op.toNat ≤ 0x4e ∧ canonicalPush o = true ∧ o.data = sig) := by
  simp only [removeOpcodeByData, List.mem_filter, Bool.not_eq_eq_eq_not, Bool.not_true, Bool.and_eq_false_imp,
    Bool.and_eq_true, decide_eq_true_eq, beq_iff_eq, beq_eq_false_iff_ne, ne_eq, and_congr_right_iff]
  intro _
  constructor
  · intro h ⟨a, b, c⟩; exact h ⟨a, b⟩ c
  · intro h ⟨a, b⟩ c; exact h ⟨a, b, c⟩

/-- removal never reorders or invents instructions -/
theorem signature_removal_sublist (ops : List POp) (sig : Bytes) : (removeOpcodeByData ops sig).Sublist ops := by
  unfold removeOpcodeByData; exact List.filter_sublist

/-- a script without a push of the signature is its own script code (apart from separators) -/
theorem signature_removal_noop (ops : List POp) (sig : Bytes) (h : ∀ o ∈ ops, o.data ≠ sig) :
    removeOpcodeByData ops sig = ops := by
  unfold removeOpcodeByData
  apply List.filter_eq_self.2
  intro o ho
  have := h o ho
  simp [this]

/-- the rule go-bt applied before fix F-C06-04 (containment) is a different function: it also removes a push of
    `sig ‖ 01`, which the script rules keep (kernel-checked witness; the replay of the finding is this shape) -/
theorem containment_removal_differs :
    let sig : Bytes := [0x30, 0x06, 0x02, 0x01, 0x01, 0x02, 0x01, 0x01, 0x01]
    let embed : POp := { op := 10, data := sig ++ [0x01], len := 11 }
    removeOpcodeByData [embed] sig = [embed] ∧ removeOpcodeContaining [embed] sig = [] := by
  decide

/-! ### OP_CHECKSIG, stated outright -/

/-- the script code OP_CHECKSIG signs: the sub-script (from after the last executed OP_CODESEPARATOR, `subScript`),
    with — for legacy signatures only — the signature pushes and remaining separators removed -/
def scriptCode (env : Env) (sub : List POp) (fullSig : Bytes) : List POp :=
  if !hasFlag env.flags fForkID || ((fullSig.getLast?.getD 0).toNat &&& 0x40 != 0x40)
  then removeOpcode (removeOpcodeByData sub fullSig) 0xab else sub

/-- **OP_CHECKSIG reports success exactly when the signature verifies** under the supplied key over the signature
    hash of the script code.  With a transaction context, a non-empty signature whose hash type / DER / key encodings
    pass the active flags, and a computable digest `h`: the opcode pops key and signature and
    * pushes true iff the key parses and `verify sig h key` says true;
    * otherwise pushes false — unless NULLFAIL is set, which turns it into the error ErrNullFail. -/
theorem checksig_iff_verifies (env : Env) (c : Ctx) (sub : List POp) (s : St) (pk fullSig : Bytes) (r : List Bytes)
    (code h : Bytes)
    (hctx : env.ctx = some c) (hs : s.ds = pk :: fullSig :: r) (hne : fullSig ≠ [])
    (h1 : checkHashTypeEncoding env (fullSig.getLast?.getD 0).toNat = none)
    (h2 : checkSignatureEncoding env fullSig.dropLast = none) (h3 : checkPubKeyEncoding env pk = none)
    (hcode : unparse (scriptCode env sub fullSig) = .ok code)
    (hdig : sigDigest env c code (fullSig.getLast?.getD 0).toNat = some h) :
    let ok := env.H.pubKeyOk pk &&
      (env.H.verify (hasFlag env.flags fStrictEnc || hasFlag env.flags fDERSig) fullSig.dropLast h pk == some true)
    opCheckSig env sub s =
      if !ok && hasFlag env.flags fNullFail && fullSig.dropLast.length > 0 then .err "ErrNullFail"
      else .ok (pushBool ok { s with ds := r }) := by
  have hlen : ¬ fullSig.length < 1 := by
    cases fullSig with
    | nil => exact absurd rfl hne
    | cons _ _ => simp
  unfold scriptCode at hcode
  simp only [opCheckSig, hs, hlen, ↓reduceIte, h1, h2, h3, hcode, hctx, hdig]
  cases hk : env.H.pubKeyOk pk with
  | false => simp
  | true =>
    simp only [Bool.not_true, Bool.false_eq_true, ↓reduceIte, Bool.true_and]
    cases hv : env.H.verify (hasFlag env.flags fStrictEnc || hasFlag env.flags fDERSig) fullSig.dropLast h pk with
    | none => simp
    | some b => cases b <;> simp

/-! ### flag decision logic, stated outright -/

/-- NULLDUMMY: with the flag, a non-empty dummy element is a hard failure … -/
theorem nulldummy_logic (env : Env) (sub : List POp) (s : St) (dummy : Bytes) (rest : List Bytes)
    (hf : hasFlag env.flags fStrictMultiSig = true) (hd : dummy.length ≠ 0)
    (hs : s.ds = [] :: [] :: dummy :: rest) (hmax : 0 ≤ (env.cfg.maxPubKeys : Int)) (hops : s.numOps ≤ env.cfg.maxOps) :
    opCheckMultiSig env sub s = .err "ErrSigNullDummy" := by
  have hd' : (dummy.length != 0) = true := by simp [hd]
  simp [opCheckMultiSig, hs, toNum, makeScriptNumber, isMinimalNum, decodeNum, clamp64, popN, hf, hd', hops]
  have h1 : ¬ ((env.cfg.maxPubKeys : Int) < 0) := by omega
  have h2 : ¬ (env.cfg.maxOps < s.numOps) := by omega
  try simp [h1, h2]


/-- An empty signature is never a hard failure of its own: OP_CHECKSIG pushes false — unless the public key it is checked
    against is malformed under STRICTENC, which is a hard failure whatever the signature (the node polices both encodings
    before it looks at the signature; finding F-C06-06). -/
theorem empty_signature_is_false (env : Env) (sub : List POp) (s : St) (pk : Bytes) (rest : List Bytes)
    (hs : s.ds = pk :: [] :: rest) :
    (checkPubKeyEncoding env pk = none → opCheckSig env sub s = .ok (pushBool false { s with ds := rest })) ∧
    (∀ e, checkPubKeyEncoding env pk = some e → opCheckSig env sub s = .err e) := by
  constructor
  · intro h; simp [opCheckSig, hs, h]
  · intro e h; simp [opCheckSig, hs, h]

/-- **A malformed public key is a hard failure of OP_CHECKSIG whatever the signature** (under the flags that police key
    encodings): if the signature is empty, or its hash type and encoding pass their checks, the result is the key's
    encoding error — no boolean is pushed. -/
theorem malformed_key_fails_checksig (env : Env) (sub : List POp) (s : St) (pk fullSig : Bytes) (rest : List Bytes) (e : String)
    (hs : s.ds = pk :: fullSig :: rest) (hk : checkPubKeyEncoding env pk = some e)
    (hsig : fullSig.length < 1 ∨
      (checkHashTypeEncoding env (fullSig.getLast?.getD 0).toNat = none ∧ checkSignatureEncoding env fullSig.dropLast = none)) :
    opCheckSig env sub s = .err e := by
  rcases hsig with h | ⟨h1, h2⟩
  · simp [opCheckSig, hs, h, hk]
  · by_cases h : fullSig.length < 1
    · simp [opCheckSig, hs, h, hk]
    · simp [opCheckSig, hs, h, hk, h1, h2]

/-- … and of OP_CHECKMULTISIG for the pair it evaluates next: with at least as many keys left as signatures, a malformed
    next key ends the loop with its encoding error when the next signature is empty or passes its own checks. -/
theorem malformed_key_fails_multisig_pair (env : Env) (c : Ctx) (code : Except PErr Bytes) (fuel : Nat)
    (sg key : Bytes) (sigsRest keysRest bad : List Bytes) (e : String)
    (hlen : (sg :: sigsRest).length ≤ (key :: keysRest).length) (hk : checkPubKeyEncoding env key = some e)
    (hsig : sg.length = 0 ∨
      (checkHashTypeEncoding env (sg.getLast?.getD 0).toNat = none ∧ checkSignatureEncoding env sg.dropLast = none)) :
    multisigLoop env c code (fuel + 1) (sg :: sigsRest) (key :: keysRest) bad = .inl e := by
  have hgt : ¬ ((sg :: sigsRest).length > (key :: keysRest).length) := by omega
  have hle : sigsRest.length ≤ keysRest.length := by simpa using hlen
  unfold multisigLoop
  rcases hsig with h | ⟨h1, h2⟩
  · simp [hgt, h, hk, hle]
  · by_cases h : sg.length = 0
    · simp [hgt, h, hk, hle]
    · have hb : (sg.length == 0) = false := by simp [h]
      simp only [hgt, ↓reduceIte, hb, Bool.false_eq_true]
      by_cases hfl : bad.contains sg <;> simp [hfl, h1, h2, hk]

/-- The hash-type / signature / public-key encoding checks only ever object under the flags that ask for them. -/
theorem encoding_checks_need_flags (env : Env)
    (h1 : hasFlag env.flags fStrictEnc = false) (h2 : hasFlag env.flags fDERSig = false)
    (h3 : hasFlag env.flags fLowS = false) (shf : Nat) (sig pk : Bytes) :
    checkHashTypeEncoding env shf = none ∧ checkSignatureEncoding env sig = none ∧ checkPubKeyEncoding env pk = none := by
  simp [checkHashTypeEncoding, checkSignatureEncoding, checkPubKeyEncoding, h1, h2, h3]

/-- **Replay protection**: once FORKID signatures are enabled (which switches strict encoding on, `mkEnv`), a hash
    type without the FORKID bit is a hard failure of the encoding check — for every hash-type byte, whatever the
    other flags. -/
theorem forkid_flag_refuses_legacy_hash_types (H : Crypto) (flags : Nat) (ctx : Option Ctx) (shf : Nat)
    (hf : hasFlag flags fForkID = true) (h : shf &&& 0x40 ≠ 0x40) :
    (checkHashTypeEncoding (mkEnv H flags ctx) shf).isSome = true := by
  have hfl : (mkEnv H flags ctx).flags = flags ||| fStrictEnc := by simp only [mkEnv, hf, ↓reduceIte]
  have hs : hasFlag (mkEnv H flags ctx).flags fStrictEnc = true := by rw [hfl]; exact hasFlag_or_self _ _
  have hf' : hasFlag (mkEnv H flags ctx).flags fForkID = true := by rw [hfl]; exact hasFlag_or_of _ _ _ hf
  have hbit : (shf &&& 0x7f) &&& 0x40 = shf &&& 0x40 := by rw [Nat.and_assoc]; rfl
  have h0 : shf &&& 0x40 = 0 := (and_0x40_cases shf).resolve_right h
  unfold checkHashTypeEncoding
  simp only [hs, Bool.not_true, Bool.false_eq_true, ↓reduceIte, hf', h0, beq_self_eq_true, Bool.and_true]
  cases hq : hasFlag (mkEnv H flags ctx).flags fBip143
  · simp only [Bool.false_eq_true, ↓reduceIte, hbit, h0]
    simp only [show ((0 : Nat) != 0x40) = true from rfl, ↓reduceIte, Bool.and_self]
    split <;> rfl
  · simp

/-! ### non-vacuity -/
example : walk (· == ·) [2, 5] [1, 2, 3, 5] = true ∧ walk (· == ·) [5, 2] [1, 2, 3, 5] = false := by decide

/-- the verification relation of the multisig walk: the signature (without its hash-type byte) verifies under the key for
    the digest of the script code for that hash type -/
def sigVerifies (env : Env) (c : Ctx) (sc : Bytes) (sg k : Bytes) : Bool :=
  match sigDigest env c sc ((sg.getLast?.getD 0).toNat) with
  | some h => (env.H.verify false sg.dropLast h k).getD false
  | none => false

/-- **OP_CHECKMULTISIG reports success exactly when the signatures are valid for keys taken in key order.**  The whole
    opcode, not only its loop: the stack holds `n, keys…, m, signatures…, dummy` (counts as script numbers, keys and
    signatures in the order they are popped), the counts respect the era's limits, no encoding / null-dummy / null-fail /
    FORKID flag is set (those turn specific malformed cases into hard failures: `nulldummy_logic`, `encoding_checks_need_flags`,
    `forkid_flag_refuses_legacy_hash_types`), the keys parse and the signatures are non-empty and parse.  Then the opcode
    pops everything, counts the keys as operations, and pushes `true` iff there is an order-preserving assignment of the
    signatures to keys under which every signature verifies over the script code with the signatures (and separators)
    removed — otherwise `false`, never an error. -/
theorem checkmultisig_iff_matches (env : Env) (sub : List Script.POp) (s : St) (keys sigs : List Bytes) (dummy : Bytes)
    (r : List Bytes) (c : Ctx) (sc : Bytes)
    (hds : s.ds = encodeNum (keys.length : Int) :: (keys ++ encodeNum (sigs.length : Int) :: (sigs ++ dummy :: r)))
    (hflags : hasFlag env.flags fStrictEnc = false ∧ hasFlag env.flags fDERSig = false ∧ hasFlag env.flags fLowS = false)
    (hnd : hasFlag env.flags fStrictMultiSig = false) (hnf : hasFlag env.flags fNullFail = false)
    (hfk : hasFlag env.flags fForkID = false)
    (hnk : (encodeNum (keys.length : Int)).length ≤ env.cfg.maxNumLen)
    (hns : (encodeNum (sigs.length : Int)).length ≤ env.cfg.maxNumLen)
    (hmaxk : keys.length ≤ env.cfg.maxPubKeys) (hsmall : keys.length ≤ 2147483647)
    (hops : s.numOps + keys.length ≤ env.cfg.maxOps)
    (hle : sigs.length ≤ keys.length)
    (hcode : Script.unparse (sigs.foldl (fun code sg => removeOpcode (removeOpcodeByData code sg) 0xab) sub) = .ok sc)
    (hctx : env.ctx = some c)
    (hkeys : ∀ k ∈ keys, env.H.pubKeyOk k = true)
    (hsigs : ∀ sg ∈ sigs, sg.length ≠ 0 ∧ ∃ h, sigDigest env c sc ((sg.getLast?.getD 0).toNat) = some h ∧
        ∀ k ∈ keys, ∃ b, env.H.verify false sg.dropLast h k = some b) :
    (∃ ok : Bool, opCheckMultiSig env sub s = .ok (pushBool ok { s with ds := r, numOps := s.numOps + keys.length }) ∧
      (ok = true ↔ Matches (sigVerifies env c sc) sigs keys)) := by
  have hloop := multisigLoop_eq_walk env c sc sigs keys (keys.length + sigs.length + 1) hflags hkeys hsigs (by omega)
  refine ⟨walk (sigVerifies env c sc) sigs keys, ?_, walk_iff_matches _ _ _⟩
  have hk64 : clamp64 (keys.length : Int) = (keys.length : Int) := by
    unfold clamp64
    have a1 : ¬ ((keys.length : Int) > 9223372036854775807) := by omega
    have a2 : ¬ ((keys.length : Int) < -9223372036854775808) := by omega
    simp only [a1, a2, ↓reduceIte]
  have hs64 : clamp64 (sigs.length : Int) = (sigs.length : Int) := by
    unfold clamp64
    have a1 : ¬ ((sigs.length : Int) > 9223372036854775807) := by omega
    have a2 : ¬ ((sigs.length : Int) < -9223372036854775808) := by omega
    simp only [a1, a2, ↓reduceIte]
  have hlegacy : (sigs.foldl (fun code sg =>
      if sg.length > 0 && !(!hasFlag env.flags fForkID || (sg.getLast?.getD 0).toNat &&& 0x40 != 0x40) then code
      else removeOpcode (removeOpcodeByData code sg) 0xab) sub) =
      sigs.foldl (fun code sg => removeOpcode (removeOpcodeByData code sg) 0xab) sub := by
    congr 1
    funext code sg
    simp [hfk]
  unfold opCheckMultiSig
  simp only [hds, C05.toNum_encodeNum env _ hnk, hk64]
  have h1 : ¬ ((keys.length : Int) < 0) := by omega
  have h2 : ¬ ((keys.length : Int) > (env.cfg.maxPubKeys : Int)) := by omega
  have h3 : ¬ (s.numOps + (keys.length : Int).toNat > env.cfg.maxOps) := by simp only [Int.toNat_natCast]; omega
  simp only [h1, ↓reduceIte, h2, h3, Int.toNat_natCast]
  have hp1 : popN keys.length (keys ++ encodeNum (sigs.length : Int) :: (sigs ++ dummy :: r)) =
      some (keys, encodeNum (sigs.length : Int) :: (sigs ++ dummy :: r)) := by
    unfold popN; simp
  simp only [hp1, C05.toNum_encodeNum env _ hns, hs64]
  have h4 : ¬ ((sigs.length : Int) < 0) := by omega
  have h5 : ¬ ((sigs.length : Int) > (keys.length : Int)) := by omega
  simp only [h4, ↓reduceIte, h5, Int.toNat_natCast]
  have hp2 : popN sigs.length (sigs ++ dummy :: r) = some (sigs, dummy :: r) := by
    unfold popN; simp
  simp only [hp2, hnd, Bool.false_and, Bool.false_eq_true, ↓reduceIte, hctx, hlegacy, hcode, hloop, hnf]
  unfold sigVerifies
  have h6 : ¬ (s.numOps + keys.length > env.cfg.maxOps) := by omega
  simp [h6]

/-- non-vacuity: a 1-of-2 check with a toy verifier (accepts exactly when signature and key start with the same byte) -/
def toyTx : Tx :=
  { version := 1, lockTime := 0,
    inputs := [ { prevTxID := List.replicate 32 7, vout := 0, unlocking := none, sequence := 1, prevSats := 5, prevScript := some [0x52] } ],
    outputs := [ { sats := 3, script := [0x6a] } ] }
def toyEnv : Env :=
  { H := ⟨id, id, id, fun _ => true, fun _ sg _ k => some (sg.head? == k.head?), fun _ => false⟩, flags := 0, cfg := cfgBefore,
    ctx := some ⟨toyTx, 0, { sats := 5, script := [0xae] }⟩ }
example :
    opCheckMultiSig toyEnv [⟨0xae, [], 1⟩] { ds := [encodeNum 2, [2], [3], encodeNum 1, [3, 1], []] } =
      .ok (pushBool true { ds := [], numOps := 2 }) ∧
    opCheckMultiSig toyEnv [⟨0xae, [], 1⟩] { ds := [encodeNum 2, [2], [3], encodeNum 2, [3, 1], [2, 1], []] } =
      .ok (pushBool false { ds := [], numOps := 2 }) := by
  refine ⟨by decide +kernel, by decide +kernel⟩

/-- ✓gen — **building the script code never edits the script being executed.**  `removeOpcodeByData` / `removeOpcode`
    (signature and separator removal) write only into a slice they allocate themselves (regenerated write-site table,
    go/ssa): the model's `List.filter` — a new list — is an adequate description.  An in-place filter of the thread's own
    parsed script (`p[:0]` + append) would make the opcodes *after* the signature check a different program. -/
theorem cleanup_allocates_script_code :
    GoBT.Interp.WriteReview.rowsOkFor
      ["interpreter.ParsedScript.removeOpcode", "interpreter.ParsedScript.removeOpcodeByData"] = true := by decide +kernel

end GoBT.C06
