/-
  C04 — library-made signatures commit to exactly what their hash type says.

  The accept/reject behaviour is decided by the interpreter model (GoBT/Interp/Exec.lean, tied to the code by the
  step-by-step correspondence) together with the digest models of C02/C03.  What is proved here is the coverage
  statement at the digest level, for every transaction, index and 32-bit hash type:
    * `forkid_commits` — two signing contexts with the same FORKID preimage agree on every field the hash type
      commits to (version, the signed input's outpoint and sequence, script code, spent value, locktime, and the
      three hashed summaries of prevouts / sequences / outputs);
    * `forkid_summaries_commit` — for a collision-free hash the three summaries pin down the serialised outpoints,
      sequences and outputs they summarise, under exactly the ALL/NONE/SINGLE/ANYONECANPAY rules;
    * `uncommitted_change_keeps_digest` (from C02) — the converse: what the hash type does not commit to can
      change freely.
  "Fails verification" for a different digest is ECDSA unforgeability, outside any model (trusted base).

  The first sentence of the property — a library-made P2PKH signature is accepted by the interpreter — is
  `p2pkh_forkid_signature_accepted` / `p2pkh_legacy_signature_accepted`: symbolic execution of the interpreter model
  (`Engine.Execute`: option checks, both parsers, seven instructions, final check) on the template, for every flag word,
  key, transaction context and signature (GoBT/Interp/P2PKH.lean).
-/
import GoBT.Props.C02
import GoBT.Props.C03
import GoBT.Sighash.LegacyCommit
import GoBT.Interp.P2PKH
import GoBT.Interp.P2PKHInsc
namespace GoBT.C04
open GoBT GoBT.Sighash

def hPrev (H : Hash) (tx : Tx) (ht : Nat) : Bytes :=
  if ¬ (ht &&& 0x80 ≠ 0) then H (tx.inputs.flatMap outpoint) else zero32
def hSeq (H : Hash) (tx : Tx) (ht : Nat) : Bytes :=
  if ¬ (ht &&& 0x80 ≠ 0) ∧ ht &&& 0x1f ≠ 3 ∧ ht &&& 0x1f ≠ 2 then H (tx.inputs.flatMap fun i => leEnc 4 i.sequence) else zero32
def hOut (H : Hash) (tx : Tx) (idx ht : Nat) : Bytes :=
  if ht &&& 0x1f ≠ 3 ∧ ht &&& 0x1f ≠ 2 then H (tx.outputs.flatMap serOutput)
  else if ht &&& 0x1f = 3 ∧ idx < tx.outputs.length then H (serOutput (tx.outputs[idx]?.getD default))
  else zero32

theorem spec_layout (H : Hash) (tx : Tx) (idx ht : Nat) (sc : Bytes) (amt : Nat) :
    bip143Spec H tx idx ht sc amt =
      leEnc 4 tx.version ++ (hPrev H tx ht ++ (hSeq H tx ht ++
        ((tx.inputs[idx]?.getD default).prevTxID.reverse ++ (leEnc 4 (tx.inputs[idx]?.getD default).vout ++
        (varintEnc sc.length ++ (sc ++ (leEnc 8 amt ++ (leEnc 4 (tx.inputs[idx]?.getD default).sequence ++
        (hOut H tx idx ht ++ (leEnc 4 tx.lockTime ++ leEnc 4 ht)))))))))) := by
  simp only [bip143Spec, hPrev, hSeq, hOut, List.append_assoc]

theorem zero32_length : zero32.length = 32 := by simp [zero32]

theorem hPrev_length (H : Hash) (hH : ∀ b, (H b).length = 32) (tx : Tx) (ht : Nat) : (hPrev H tx ht).length = 32 := by
  unfold hPrev; split <;> simp [hH, zero32_length]
theorem hSeq_length (H : Hash) (hH : ∀ b, (H b).length = 32) (tx : Tx) (ht : Nat) : (hSeq H tx ht).length = 32 := by
  unfold hSeq; split <;> simp [hH, zero32_length]
theorem hOut_length (H : Hash) (hH : ∀ b, (H b).length = 32) (tx : Tx) (idx ht : Nat) : (hOut H tx idx ht).length = 32 := by
  unfold hOut; split
  · simp [hH]
  · split <;> simp [hH, zero32_length]

theorem leEnc_inj {k a b : Nat} (h : leEnc k a = leEnc k b) : a % 256 ^ k = b % 256 ^ k := by
  rw [← leDec_leEnc, ← leDec_leEnc, h]

/-- a length-prefixed byte string followed by anything determines the string -/
theorem varint_prefixed_inj {a b r s : Bytes} (ha : a.length < 2 ^ 64) (hb : b.length < 2 ^ 64)
    (h : varintEnc a.length ++ (a ++ r) = varintEnc b.length ++ (b ++ s)) : a = b ∧ r = s := by
  have h1 := varintRead_enc a.length ha (a ++ r)
  rw [h, varintRead_enc b.length hb (b ++ s)] at h1
  injection h1 with hn hrest
  injection hn with hn
  exact List.append_inj hrest.symm hn.symm

/-- **Commitment.**  If two signing contexts — (transaction, input index, script code, spent value) — have the
    same FORKID preimage for a hash type, they agree on every directly serialised field and on the three
    hashed summaries. -/
theorem forkid_commits (H : Hash) (hH : ∀ b, (H b).length = 32) (tx tx' : Tx) (idx idx' ht : Nat)
    (sc sc' : Bytes) (amt amt' : Nat)
    (hsc : sc.length < 2 ^ 64) (hsc' : sc'.length < 2 ^ 64)
    (hid : (tx.inputs[idx]?.getD default).prevTxID.length = (tx'.inputs[idx']?.getD default).prevTxID.length)
    (h : bip143Spec H tx idx ht sc amt = bip143Spec H tx' idx' ht sc' amt') :
    tx.version % 2 ^ 32 = tx'.version % 2 ^ 32 ∧
    hPrev H tx ht = hPrev H tx' ht ∧ hSeq H tx ht = hSeq H tx' ht ∧
    (tx.inputs[idx]?.getD default).prevTxID = (tx'.inputs[idx']?.getD default).prevTxID ∧
    (tx.inputs[idx]?.getD default).vout % 2 ^ 32 = (tx'.inputs[idx']?.getD default).vout % 2 ^ 32 ∧
    sc = sc' ∧ amt % 2 ^ 64 = amt' % 2 ^ 64 ∧
    (tx.inputs[idx]?.getD default).sequence % 2 ^ 32 = (tx'.inputs[idx']?.getD default).sequence % 2 ^ 32 ∧
    hOut H tx idx ht = hOut H tx' idx' ht ∧
    tx.lockTime % 2 ^ 32 = tx'.lockTime % 2 ^ 32 := by
  rw [spec_layout, spec_layout] at h
  obtain ⟨h1, h⟩ := List.append_inj h (by simp)
  obtain ⟨h2, h⟩ := List.append_inj h (by rw [hPrev_length H hH, hPrev_length H hH])
  obtain ⟨h3, h⟩ := List.append_inj h (by rw [hSeq_length H hH, hSeq_length H hH])
  obtain ⟨h4, h⟩ := List.append_inj h (by simp [hid])
  obtain ⟨h5, h⟩ := List.append_inj h (by simp)
  obtain ⟨h6, h⟩ := varint_prefixed_inj hsc hsc' h
  obtain ⟨h7, h⟩ := List.append_inj h (by simp)
  obtain ⟨h8, h⟩ := List.append_inj h (by simp)
  obtain ⟨h9, h⟩ := List.append_inj h (by rw [hOut_length H hH, hOut_length H hH])
  obtain ⟨h10, _⟩ := List.append_inj h (by simp)
  have e32 : (256 : Nat) ^ 4 = 2 ^ 32 := by decide
  have e64 : (256 : Nat) ^ 8 = 2 ^ 64 := by decide
  refine ⟨e32 ▸ leEnc_inj h1, h2, h3, List.reverse_inj.mp h4, e32 ▸ leEnc_inj h5, h6, e64 ▸ leEnc_inj h7,
    e32 ▸ leEnc_inj h8, h9, e32 ▸ leEnc_inj h10⟩

/-- fixed-width chunks: equal concatenations of equally wide pieces are equal piecewise -/
theorem flatMap_fixed_inj {α : Type} (f : α → Bytes) (w : Nat) (hw : 0 < w) (hf : ∀ a, (f a).length = w) :
    ∀ (l l' : List α), l.flatMap f = l'.flatMap f → l.map f = l'.map f
  | [], [], _ => rfl
  | [], b :: l', h => by
      have := congrArg List.length h
      simp only [List.flatMap_nil, List.length_nil, List.flatMap_cons, List.length_append, hf] at this
      omega
  | a :: l, [], h => by
      have := congrArg List.length h
      simp only [List.flatMap_nil, List.length_nil, List.flatMap_cons, List.length_append, hf] at this
      omega
  | a :: l, b :: l', h => by
      simp only [List.flatMap_cons] at h
      obtain ⟨h1, h2⟩ := List.append_inj h (by rw [hf, hf])
      simp only [List.map_cons, h1, flatMap_fixed_inj f w hw hf l l' h2]

/-- **What the summaries pin down** (collision-free hash, 32-byte transaction ids).
    Without ANYONECANPAY every input's outpoint is committed; with base type ALL (neither NONE nor SINGLE) and
    without ANYONECANPAY every input's sequence number is; with base type ALL the serialisation of the whole output
    list is; with SINGLE the serialisation of the output at the signed index (and whether there is one). -/
theorem forkid_summaries_commit (H : Hash) (hinj : Function.Injective H) (tx tx' : Tx) (idx idx' ht : Nat)
    (hz : ∀ b, H b ≠ zero32)
    (hids : ∀ i ∈ tx.inputs ++ tx'.inputs, i.prevTxID.length = 32) :
    (ht &&& 0x80 = 0 → hPrev H tx ht = hPrev H tx' ht → tx.inputs.map outpoint = tx'.inputs.map outpoint) ∧
    (ht &&& 0x80 = 0 → ht &&& 0x1f ≠ 3 → ht &&& 0x1f ≠ 2 → hSeq H tx ht = hSeq H tx' ht →
        tx.inputs.map (fun i => leEnc 4 i.sequence) = tx'.inputs.map (fun i => leEnc 4 i.sequence)) ∧
    (ht &&& 0x1f ≠ 3 → ht &&& 0x1f ≠ 2 → hOut H tx idx ht = hOut H tx' idx' ht →
        tx.outputs.flatMap serOutput = tx'.outputs.flatMap serOutput) ∧
    (ht &&& 0x1f = 3 → hOut H tx idx ht = hOut H tx' idx' ht →
        (idx < tx.outputs.length ↔ idx' < tx'.outputs.length) ∧
        (idx < tx.outputs.length → serOutput (tx.outputs[idx]?.getD default) = serOutput (tx'.outputs[idx']?.getD default))) := by
  refine ⟨?_, ?_, ?_, ?_⟩
  · intro hacp h
    simp only [hPrev, hacp, ne_eq, not_true_eq_false, not_false_eq_true, ↓reduceIte] at h
    have h := hinj h
    -- outpoints are 36 bytes wide
    have key : ∀ (l l' : List Input), (∀ i ∈ l ++ l', i.prevTxID.length = 32) →
        l.flatMap outpoint = l'.flatMap outpoint → l.map outpoint = l'.map outpoint := by
      intro l
      induction l with
      | nil =>
        intro l' hl hh
        cases l' with
        | nil => rfl
        | cons b l' =>
          have := congrArg List.length hh
          simp [outpoint, hl b (by simp)] at this
          omega
      | cons a l ih =>
        intro l' hl hh
        cases l' with
        | nil =>
          have := congrArg List.length hh
          simp [outpoint, hl a (by simp)] at this
        | cons b l' =>
          simp only [List.flatMap_cons] at hh
          obtain ⟨h1, h2⟩ := List.append_inj hh (by simp [outpoint, hl a (by simp), hl b (by simp)])
          simp only [List.map_cons, h1]
          rw [ih l' (fun i hi => hl i (by simp at hi ⊢; rcases hi with hi | hi <;> simp [hi])) h2]
    exact key _ _ hids h
  · intro hacp h3 h2 h
    simp only [hSeq, hacp, ne_eq, not_true_eq_false, not_false_eq_true, h3, h2, and_self, ↓reduceIte] at h
    exact flatMap_fixed_inj _ 4 (by omega) (fun a => by simp) _ _ (hinj h)
  · intro h3 h2 h
    simp only [hOut, ne_eq, h3, not_false_eq_true, h2, and_self, ↓reduceIte] at h
    exact hinj h
  · intro h3 h
    simp only [hOut, h3, ne_eq, not_true_eq_false, false_and, ↓reduceIte, true_and] at h
    by_cases hl : idx < tx.outputs.length <;> by_cases hl' : idx' < tx'.outputs.length
    · simp only [hl, hl', ↓reduceIte] at h
      exact ⟨⟨fun _ => hl', fun _ => hl⟩, fun _ => hinj h⟩
    · simp only [hl, hl', ↓reduceIte] at h
      exact absurd h (hz _)
    · simp only [hl, hl', ↓reduceIte] at h
      exact absurd h.symm (hz _)
    · exact ⟨⟨fun a => absurd a hl, fun a => absurd a hl'⟩, fun a => absurd a hl⟩

/-! **Non-commitment**: what a hash type leaves out can be changed without changing the digest — the other
    inputs and the signed input's position under ANYONECANPAY (`C02.anyonecanpay_independent`), every output
    under NONE (`C02.none_independent_of_outputs`), and below: every output but the one at the signed index under
    SINGLE; the spent value under the legacy algorithm. -/

/-- SINGLE without ANYONECANPAY: only the output at the signed index matters. -/
theorem single_other_outputs_free (H : Hash) (tx : Tx) (outs : List Output) (idx ht : Nat) (sc : Bytes) (amt : Nat)
    (h3 : ht &&& 0x1f = 3) (hlen : idx < tx.outputs.length ↔ idx < outs.length)
    (hsame : tx.outputs[idx]? = outs[idx]?) :
    bip143Spec H { tx with outputs := outs } idx ht sc amt = bip143Spec H tx idx ht sc amt := by
  unfold bip143Spec
  simp only [h3, ne_eq, not_true_eq_false, false_and, ↓reduceIte, true_and, hsame]
  by_cases hl : idx < tx.outputs.length
  · simp [hl, hlen.mp hl]
  · have : ¬ idx < outs.length := fun h => hl (hlen.mpr h)
    simp [hl, this]

/-- The legacy algorithm never looks at the spent value (C04: "spent value only under FORKID"): the original
    serialisation (to which `C03.legacy_preimage_eq_spec` equates the code's preimage) is the same whatever the
    previous-output values are. -/
theorem legacy_ignores_spent_value (tx : Tx) (idx ht : Nat) (sc : Bytes) (f : Input → Nat) :
    satoshiSpec { tx with inputs := tx.inputs.map fun i => { i with prevSats := f i } } idx ht sc =
    satoshiSpec tx idx ht sc := by
  unfold satoshiSpec
  simp only [C03.mapIdxFrom_map]

/-- **Commitment (legacy algorithm).**  The legacy preimage is the standard serialisation of the modified transaction
    `LegacyCommit.sigTx` (signed input carrying the script code, others blanked, NONE / SINGLE / ANYONECANPAY
    truncations) followed by the hash type; the wire codec is injective (`C01.parse_serialize_std`), so two signing
    contexts with the same preimage have the same modified transaction and the same 4-byte hash type.  With
    `C03.legacy_preimage_eq_spec` (the code's preimage is `satoshiSpec`) and a collision-free double SHA-256 this is
    "changing any part the hash type commits to changes the digest"; what `sigTx` drops — other inputs' scripts, every
    previous-output value, under NONE the outputs, under ANYONECANPAY the other inputs — is what it does not commit to. -/
theorem legacy_commits (tx tx' : Tx) (hwf : tx.wf) (hwf' : tx'.wf) (idx idx' ht ht' : Nat) (sc sc' : Bytes)
    (hsc : sc.length < 2 ^ 64) (hsc' : sc'.length < 2 ^ 64)
    (hidx : idx < tx.inputs.length) (hidx' : idx' < tx'.inputs.length)
    (h : satoshiSpec tx idx ht sc = satoshiSpec tx' idx' ht' sc') :
    LegacyCommit.sigTx tx idx ht sc = LegacyCommit.sigTx tx' idx' ht' sc' ∧ ht % 2 ^ 32 = ht' % 2 ^ 32 :=
  LegacyCommit.legacy_commits tx tx' hwf hwf' idx idx' ht ht' sc sc' hsc hsc' hidx hidx' h

/-- … spelled out for ALL without ANYONECANPAY: version, lock time, every output, every input's outpoint and sequence
    number, and the script code are all determined by the preimage. -/
theorem legacy_all_commits (tx tx' : Tx) (hwf : tx.wf) (hwf' : tx'.wf) (idx ht : Nat) (sc sc' : Bytes)
    (hsc : sc.length < 2 ^ 64) (hsc' : sc'.length < 2 ^ 64)
    (hidx : idx < tx.inputs.length) (hidx' : idx < tx'.inputs.length)
    (hall : ht &&& 0x1f ≠ 2 ∧ ht &&& 0x1f ≠ 3) (hacp : ht &&& 0x80 = 0)
    (h : satoshiSpec tx idx ht sc = satoshiSpec tx' idx ht sc') :
    tx.version = tx'.version ∧ tx.lockTime = tx'.lockTime ∧ tx.outputs = tx'.outputs ∧
    tx.inputs.map (fun i => (i.prevTxID, i.vout, i.sequence)) = tx'.inputs.map (fun i => (i.prevTxID, i.vout, i.sequence)) ∧
    sc = sc' :=
  LegacyCommit.legacy_all_commits tx tx' hwf hwf' idx ht sc sc' hsc hsc' hidx hidx' hall hacp h

/-- SINGLE under the legacy algorithm commits to the output at the signed index … -/
theorem legacy_single_commits (tx tx' : Tx) (hwf : tx.wf) (hwf' : tx'.wf) (idx ht : Nat) (sc sc' : Bytes)
    (hsc : sc.length < 2 ^ 64) (hsc' : sc'.length < 2 ^ 64)
    (hidx : idx < tx.inputs.length) (hidx' : idx < tx'.inputs.length) (hs : ht &&& 0x1f = 3)
    (h : satoshiSpec tx idx ht sc = satoshiSpec tx' idx ht sc') :
    tx.outputs[idx]? = tx'.outputs[idx]? :=
  LegacyCommit.legacy_single_commits tx tx' hwf hwf' idx ht sc sc' hsc hsc' hidx hidx' hs h

/-- … and to no other output; NONE commits to no output at all: changing parts the hash type does not commit to leaves
    the preimage (hence the signature's validity) unchanged. -/
theorem legacy_uncommitted_outputs_free (tx : Tx) (outs : List Output) (idx ht : Nat) (sc : Bytes) :
    (ht &&& 0x1f = 3 → outs[idx]? = tx.outputs[idx]? →
      satoshiSpec { tx with outputs := outs } idx ht sc = satoshiSpec tx idx ht sc) ∧
    (ht &&& 0x1f = 2 → satoshiSpec { tx with outputs := outs } idx ht sc = satoshiSpec tx idx ht sc) :=
  ⟨fun hs hsame => LegacyCommit.legacy_single_other_outputs_free tx outs idx ht sc hs hsame,
   fun hn => LegacyCommit.legacy_none_outputs_free tx outs idx ht sc hn⟩

/-- the hypotheses are satisfiable, and the modified transaction is what the text says (one input, ALL) -/
example :
    let tx : Tx := { version := 1, inputs := [{ prevTxID := List.replicate 32 7, vout := 0, unlocking := some [0x51], sequence := 5 }],
                     outputs := [{ sats := 9, script := [0x51] }], lockTime := 0 }
    tx.wf ∧ 0 < tx.inputs.length ∧
    LegacyCommit.sigTx tx 0 1 [0xac] =
      { version := 1, inputs := [{ prevTxID := List.replicate 32 7, vout := 0, unlocking := some [0xac], sequence := 5 }],
        outputs := [{ sats := 9, script := [0x51] }], lockTime := 0 } := by decide

/-! ### a signed P2PKH input is accepted -/
section Accept
open GoBT.Interp GoBT.Interp.P2PKH

/-- **A FORKID signature made for the input is accepted.**  Whatever the flag word (with the FORKID flag; either era;
    any further policy flags the engine accepts as a combination), the transaction, the input index and the spent
    output recorded in the context `c`: if `pk` hashes to the 20 bytes `h` of the spent P2PKH output, `fullSig` is a
    signature with a FORKID hash type that satisfies the encoding rules in force, and it verifies under `pk` for the
    signature hash of *that* transaction, input and spent output with the locking script as script code — which is what
    the library's signing path signs (`sigDigest` is `CalcInputSignatureHash` on the checked input carrying the spent
    script and value) — then `Engine.Execute` accepts `<fullSig> <pk>` against `DUP HASH160 <h> EQUALVERIFY CHECKSIG`. -/
theorem p2pkh_forkid_signature_accepted (H : Crypto) (flags : Nat) (c : Ctx) (fullSig pk h digest : Bytes)
    (hflags : hasFlag (mkEnv H flags (some c)).flags fCleanStack = true → hasFlag (mkEnv H flags (some c)).flags fBip16 = true)
    (hfork : hasFlag (mkEnv H flags (some c)).flags Interp.fForkID = true)
    (hbit : (fullSig.getLast?.getD 0).toNat &&& 0x40 = 0x40)
    (hs : 2 ≤ fullSig.length ∧ fullSig.length ≤ 75) (hp : 2 ≤ pk.length ∧ pk.length ≤ 75) (hh : h.length = 20)
    (hkey : H.ripemd160 (H.sha256 pk) = h)
    (hht : checkHashTypeEncoding (mkEnv H flags (some c)) (fullSig.getLast?.getD 0).toNat = none)
    (hse : checkSignatureEncoding (mkEnv H flags (some c)) fullSig.dropLast = none)
    (hpe : checkPubKeyEncoding (mkEnv H flags (some c)) pk = none)
    (hdig : sigDigest (mkEnv H flags (some c)) c (lockBytes h) (fullSig.getLast?.getD 0).toNat = some digest)
    (hpk : H.pubKeyOk pk = true)
    (hver : H.verify (hasFlag (mkEnv H flags (some c)).flags fStrictEnc || hasFlag (mkEnv H flags (some c)).flags fDERSig)
              fullSig.dropLast digest pk = some true) :
    (execute H flags (some c) (unlockBytes fullSig pk) (lockBytes h)).1 = .accept :=
  p2pkh_spend_accepted H flags c fullSig pk h (lockBytes h) digest hflags hs hp hh hkey hht hse hpe
    (scriptCode_forkid _ h fullSig hh hfork hbit) hdig hpk hver

/-- **A legacy signature made for the input is accepted** (no FORKID flag, or a hash type without the FORKID bit where
    the encoding rules allow it): signature and separator removal leave the template's script code unchanged. -/
theorem p2pkh_legacy_signature_accepted (H : Crypto) (flags : Nat) (c : Ctx) (fullSig pk h digest : Bytes)
    (hflags : hasFlag (mkEnv H flags (some c)).flags fCleanStack = true → hasFlag (mkEnv H flags (some c)).flags fBip16 = true)
    (hleg : hasFlag (mkEnv H flags (some c)).flags Interp.fForkID = false ∨ (fullSig.getLast?.getD 0).toNat &&& 0x40 ≠ 0x40)
    (hs : 2 ≤ fullSig.length ∧ fullSig.length ≤ 75) (hp : 2 ≤ pk.length ∧ pk.length ≤ 75) (hh : h.length = 20)
    (hne : h ≠ fullSig)
    (hkey : H.ripemd160 (H.sha256 pk) = h)
    (hht : checkHashTypeEncoding (mkEnv H flags (some c)) (fullSig.getLast?.getD 0).toNat = none)
    (hse : checkSignatureEncoding (mkEnv H flags (some c)) fullSig.dropLast = none)
    (hpe : checkPubKeyEncoding (mkEnv H flags (some c)) pk = none)
    (hdig : sigDigest (mkEnv H flags (some c)) c (lockBytes h) (fullSig.getLast?.getD 0).toNat = some digest)
    (hpk : H.pubKeyOk pk = true)
    (hver : H.verify (hasFlag (mkEnv H flags (some c)).flags fStrictEnc || hasFlag (mkEnv H flags (some c)).flags fDERSig)
              fullSig.dropLast digest pk = some true) :
    (execute H flags (some c) (unlockBytes fullSig pk) (lockBytes h)).1 = .accept :=
  p2pkh_spend_accepted H flags c fullSig pk h (lockBytes h) digest hflags hs hp hh hkey hht hse hpe
    (scriptCode_legacy _ h fullSig hh hne hleg) hdig hpk hver

/-- non-vacuity: a toy `Crypto` (identity hashes except a constant 20-byte RIPEMD-160, a verifier that accepts), the
    sample transaction of C03, legacy hash type 0x01, no flags — every hypothesis of the legacy theorem holds, and the
    model indeed accepts -/
def toyH : Crypto := ⟨id, id, fun _ => List.replicate 20 7, fun _ => true, fun _ _ _ _ => some true, fun _ => false⟩
def toyCtx : Ctx := ⟨C03.sample, 0, { sats := 5, script := lockBytes (List.replicate 20 7) }⟩
example :
    (sigDigest (mkEnv toyH 0 (some toyCtx)) toyCtx (lockBytes (List.replicate 20 7)) 1).isSome = true ∧
    checkHashTypeEncoding (mkEnv toyH 0 (some toyCtx)) 1 = none ∧
    (execute toyH 0 (some toyCtx) (unlockBytes [0x30, 0x01] [0x02, 0x09]) (lockBytes (List.replicate 20 7))).1 = .accept := by
  refine ⟨by decide +kernel, by decide +kernel, by decide +kernel⟩

/-- **A FORKID signature made for a P2PKH-inscription input is accepted** — the "(or P2PKH-inscription)" of the property.
    `lock` is any byte string the interpreter's parser reads as the P2PKH template followed by `OP_0 OP_IF <mid> OP_ENDIF`
    with `mid` a list of opcodes that are merely stepped over in the false branch (Tx.Inscribe's pushes of "ord", the
    content type and the data, of every length within the era's element size). -/
theorem p2pkh_inscription_signature_accepted (H : Crypto) (flags : Nat) (c : Ctx) (fullSig pk h lock digest : Bytes)
    (mid : List Script.POp)
    (hflags : hasFlag (mkEnv H flags (some c)).flags fCleanStack = true → hasFlag (mkEnv H flags (some c)).flags fBip16 = true)
    (hfork : hasFlag (mkEnv H flags (some c)).flags Interp.fForkID = true)
    (hbit : (fullSig.getLast?.getD 0).toNat &&& 0x40 = 0x40)
    (hs : 2 ≤ fullSig.length ∧ fullSig.length ≤ 75) (hp : 2 ≤ pk.length ∧ pk.length ≤ 75) (hh : h.length = 20)
    (hparse : Script.parseScript lock false = .ok (lockOps h ++ envelope mid))
    (hsize : lock.length ≤ (mkEnv H flags (some c)).cfg.maxScriptSize) (hnp : Script.isP2SH lock = false)
    (hmid : ∀ o ∈ mid, Skippable (mkEnv H flags (some c)) o) (hops : 6 + mid.length ≤ (mkEnv H flags (some c)).cfg.maxOps)
    (hkey : H.ripemd160 (H.sha256 pk) = h)
    (hht : checkHashTypeEncoding (mkEnv H flags (some c)) (fullSig.getLast?.getD 0).toNat = none)
    (hse : checkSignatureEncoding (mkEnv H flags (some c)) fullSig.dropLast = none)
    (hpe : checkPubKeyEncoding (mkEnv H flags (some c)) pk = none)
    (hdig : sigDigest (mkEnv H flags (some c)) c lock (fullSig.getLast?.getD 0).toNat = some digest)
    (hpk : H.pubKeyOk pk = true)
    (hver : H.verify (hasFlag (mkEnv H flags (some c)).flags fStrictEnc || hasFlag (mkEnv H flags (some c)).flags fDERSig)
              fullSig.dropLast digest pk = some true) :
    (execute H flags (some c) (unlockBytes fullSig pk) lock).1 = .accept :=
  inscription_spend_accepted H flags c fullSig pk h lock digest mid hflags hfork hbit hs hp hh hparse hsize hnp hmid hops
    hkey hht hse hpe hdig hpk hver

/-- **… and the script Tx.Inscribe builds is of that kind, for every content type and payload**: no hypothesis about the
    parser is left.  `lock` is the locking script `Tx.Inscribe` makes from the P2PKH template for `h` (model
    `Ord.inscriptionScript`, tied to inscriptions.go by the C20 correspondence); the only size conditions are the era's
    own limits on elements and scripts. -/
theorem inscribed_p2pkh_signature_accepted (H : Crypto) (flags : Nat) (c : Ctx) (fullSig pk h ct data lock digest : Bytes)
    (hl : Ord.inscriptionScript (lockBytes h) ct data = some lock)
    (hflags : hasFlag (mkEnv H flags (some c)).flags fCleanStack = true → hasFlag (mkEnv H flags (some c)).flags fBip16 = true)
    (hfork : hasFlag (mkEnv H flags (some c)).flags Interp.fForkID = true)
    (hbit : (fullSig.getLast?.getD 0).toNat &&& 0x40 = 0x40)
    (hs : 2 ≤ fullSig.length ∧ fullSig.length ≤ 75) (hp : 2 ≤ pk.length ∧ pk.length ≤ 75) (hh : h.length = 20)
    (hct : ct.length ≤ (mkEnv H flags (some c)).cfg.maxElem) (hdata : data.length ≤ (mkEnv H flags (some c)).cfg.maxElem)
    (hsize : lock.length ≤ (mkEnv H flags (some c)).cfg.maxScriptSize)
    (hkey : H.ripemd160 (H.sha256 pk) = h)
    (hht : checkHashTypeEncoding (mkEnv H flags (some c)) (fullSig.getLast?.getD 0).toNat = none)
    (hse : checkSignatureEncoding (mkEnv H flags (some c)) fullSig.dropLast = none)
    (hpe : checkPubKeyEncoding (mkEnv H flags (some c)) pk = none)
    (hdig : sigDigest (mkEnv H flags (some c)) c lock (fullSig.getLast?.getD 0).toNat = some digest)
    (hpk : H.pubKeyOk pk = true)
    (hver : H.verify (hasFlag (mkEnv H flags (some c)).flags fStrictEnc || hasFlag (mkEnv H flags (some c)).flags fDERSig)
              fullSig.dropLast digest pk = some true) :
    (execute H flags (some c) (unlockBytes fullSig pk) lock).1 = .accept :=
  inscribed_output_spend_accepted H flags c fullSig pk h ct data lock digest hl hflags hfork hbit hs hp hh hct hdata hsize
    hkey hht hse hpe hdig hpk hver

/-- non-vacuity for the inscription theorem: the P2PKH template followed by `OP_0 OP_IF "ord" OP_1 "a/b" OP_0 <2 bytes> OP_ENDIF`
    parses as `lockOps h ++ envelope mid`, a DER-shaped FORKID signature and a compressed key pass the encoding rules under
    the FORKID flag, and the model accepts -/
def toyInscLock : Bytes :=
  lockBytes (List.replicate 20 7) ++ [0x00, 0x63, 0x03, 0x6f, 0x72, 0x64, 0x51, 0x03, 0x61, 0x2f, 0x62, 0x00, 0x02, 0xaa, 0xbb, 0x68]
def toyMid : List Script.POp :=
  [pushOp [0x6f, 0x72, 0x64], ⟨0x51, [], 1⟩, pushOp [0x61, 0x2f, 0x62], ⟨0x00, [], 1⟩, pushOp [0xaa, 0xbb]]
def toySig : Bytes := [0x30, 0x06, 0x02, 0x01, 0x01, 0x02, 0x01, 0x01, 0x41]
def toyKey : Bytes := 0x02 :: List.replicate 32 1
def toyInscCtx : Ctx := ⟨C03.sample, 0, { sats := 5, script := toyInscLock }⟩
example :
    (Script.parseScript toyInscLock false).toOption = some (lockOps (List.replicate 20 7) ++ envelope toyMid) ∧
    checkSignatureEncoding (mkEnv toyH Interp.fForkID (some toyInscCtx)) toySig.dropLast = none ∧
    checkHashTypeEncoding (mkEnv toyH Interp.fForkID (some toyInscCtx)) 0x41 = none ∧
    checkPubKeyEncoding (mkEnv toyH Interp.fForkID (some toyInscCtx)) toyKey = none ∧
    (execute toyH Interp.fForkID (some toyInscCtx) (unlockBytes toySig toyKey) toyInscLock).1 = .accept := by
  refine ⟨by decide +kernel, by decide +kernel, by decide +kernel, by decide +kernel, by decide +kernel⟩

end Accept

/-- non-vacuity of `forkid_commits`' hypotheses and a concrete uncommitted change -/
example : (C03.sample.inputs[0]?.getD default).prevTxID.length = (C03.sample.inputs[0]?.getD default).prevTxID.length := rfl

end GoBT.C04
