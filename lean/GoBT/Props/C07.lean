/-
  C07 — script execution is total: it always terminates with success or an error value.
  `execute` is a Lean function defined by structural recursion over the parsed opcodes, so termination is
  checked by Lean's kernel; every Go run-time check that could panic is an explicit `panic` outcome of the
  model, and the theorems below show which of them are unreachable.
-/
import GoBT.Interp.Exec
import GoBT.Interp.NoPanicFinal
import GoBT.Interp.IndexReview
namespace GoBT.C07
open GoBT GoBT.Interp GoBT.Script

/-- one AfterStep snapshot per executed instruction at most: the trace of a script grows by at most its length -/
theorem runOps_trace_bound (env : Env) (sidx : Nat) (cur ops : List POp) (off : Nat) (s : St) (tr : List Snap) :
    (runOps env sidx cur ops off s tr).2.length ≤ tr.length + ops.length := by
  induction ops generalizing off s tr with
  | nil => simp [runOps]
  | cons o rest ih =>
    unfold runOps
    split
    · simp only [List.length_cons]; omega
    · simp only [List.length_cons]; omega
    · simp only [List.length_cons]; omega
    · next s' hs =>
      split
      · simp only [List.length_cons]; omega
      · split
        · simp only [List.length_cons]; omega
        · have := ih (off + 1) s' (⟨sidx, ((off + 1 : Nat) : Int), s'⟩ :: tr)
          simp only [List.length_cons] at this ⊢
          omega

/-- With a transaction context, OP_CHECKSIG never hits the "no transaction" dereference. -/
theorem checksig_no_panic (env : Env) (c : Ctx) (hc : env.ctx = some c) (sub : List POp) (s : St) :
    ∀ p, opCheckSig env sub s ≠ .panic p := by
  intro p h
  unfold opCheckSig at h
  split at h
  · simp only [hc] at h
    repeat' split at h
    all_goals first | cases h | simp_all
  · simp [stackErr] at h

/-- the numeric / stack / bitwise / hash handlers return a state or an error value, never a panic:
    stated for the helper combinators every such handler is built from -/
theorem combinators_no_panic (env : Env) (s : St) (f : Int → Int) (g : Int → Int → Except String Int) (code : String) :
    (∀ p, unaryNum env s f ≠ .panic p) ∧ (∀ p, binaryNum env s g ≠ .panic p) ∧ (∀ p, verifyTop code s ≠ .panic p) := by
  refine ⟨?_, ?_, ?_⟩ <;> intro p
  · unfold unaryNum; repeat' split
    all_goals simp_all [stackErr]
  · unfold binaryNum; repeat' split
    all_goals simp_all [stackErr]
  · unfold verifyTop; repeat' split
    all_goals simp_all [stackErr]

/-- Shifting never fails and keeps the operand's length, for every operand (including the empty one) and
    every count — the two run-time panics of the original handlers (index -1, negative shift amount) are gone. -/
theorem shift_total (x : Bytes) (n : Nat) : (shiftLeft x n).length = x.length ∧ (shiftRight x n).length = x.length := by
  unfold shiftLeft shiftRight bytesOfBits
  constructor <;> split <;> simp

/-- Option validation / preparation never panics: it yields an error value or a prepared execution. -/
theorem prepare_total (H : Crypto) (flags : Nat) (ctx : Option Ctx) (u l : Bytes) :
    (∃ e, prepare H flags ctx u l = .inl e) ∨ (∃ p, prepare H flags ctx u l = .inr p) := by
  cases h : prepare H flags ctx u l with
  | inl e => exact Or.inl ⟨e, rfl⟩
  | inr p => exact Or.inr ⟨p, rfl⟩

/-- **Script execution never panics** (global statement; proof in GoBT/Interp/NoPanic*.lean, CondInv.lean,
    SuccInv.lean).  For every hash / signature oracle, flag set, optional transaction context, unlocking and locking
    script, the model's `execute` ends in `accept` or `reject <code>`: none of the model's panic sites — a
    transaction-requiring opcode without a transaction, an element whose recorded length is not the table's, the empty
    saved stack of pay-to-script-hash — is reachable.  The ingredients: the parser rejects CHECKSIG / CHECKMULTISIG /
    CHECKSEQUENCEVERIFY when no transaction was supplied and gives every element the table's length except the raw
    tail after a top-level OP_RETURN (`parseAux_Parsed`); the run-time conditional depth never exceeds the parser's
    nesting count (`executeOpcode_depth`), so that OP_RETURN is met with an empty conditional stack and ends the script
    or fails (`return_at_top_not_ok`); OP_HASH160 fails on an empty stack (`p2sh_lock_needs_item`). -/
theorem execute_never_panics (H : Crypto) (flags : Nat) (ctx : Option Ctx) (unlock lock : Bytes) :
    ∀ site, (execute H flags ctx unlock lock).1 ≠ .panic site :=
  fun site => execute_noPanic H flags ctx unlock lock site

/-- ✓gen — every index / slice expression in the current sources of bscript/interpreter belongs to a function whose
    expressions were reviewed (GoBT/Interp/IndexReview.lean: why in range, or which `panic` outcome of the model it is),
    with the number of expressions reviewed: a new or removed index expression breaks this obligation -/
theorem index_sites_reviewed : indexReviewOk = true := by decide +kernel

/-- and the step trace is bounded by the script lengths: termination with a bounded number of steps is by
    construction (structural recursion), see `runOps_trace_bound` -/
example : True := trivial

end GoBT.C07
