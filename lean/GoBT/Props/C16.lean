/-
  C16 — JSON interchange preserves transactions and satoshi amounts exactly.
  Model ↔ code: both JSON dialects carry the hex of the standard serialisation and decode it with
  NewTxFromString, so the structural round trip is hex ∘ wire codec (C13 + C01); node-style amounts are
  `encodeAmount` / `decodeAmount` over a rational model of IEEE-754 binary64 round-to-nearest-even (rn53).
-/
import GoBT.Json.Amount
import GoBT.Json.Shapes
import GoBT.Props.C01
import GoBT.Props.C13
import GoBT.Props.C16Float
import GoBT.Script.WriteReviewLib
namespace GoBT.C16
open GoBT GoBT.Json

/-- Marshal → unmarshal of a transaction in either dialect (both go through the `hex` field): the decoded
    transaction has the identical standard serialisation (hence the identical id), whatever the inputs'
    unlocking scripts are — including nil ones of not-yet-signed inputs. -/
theorem tx_json_roundtrip (tx : Tx) (h : tx.wf) (hamb : ¬ tx.ambiguous) :
    ∃ p, (hexDec (hexEnc (serialize false tx))).bind parseExact = some p ∧
      serialize false p.tx = serialize false tx := by
  refine ⟨{ tx := tx.norm false, fmt := .std, minimal := true }, ?_, C01.reserialize_std tx⟩
  rw [C13.hexDec_hexEnc]
  show parseExact (serialize false tx) = _
  exact C01.parseExact_serialize tx h hamb

/-- the node-dialect decoder with a present `hex` field is exactly that path -/
theorem node_tx_with_hex (tx : Tx) (h : tx.wf) (hamb : ¬ tx.ambiguous) (v lt : Nat)
    (vin : List (Option NodeIn)) (vout : List (Option NodeOut)) :
    nodeTxToTx { version := v, lockTime := lt, hex := some (.ok (serialize false tx)), vin := vin, vout := vout } =
      .ok (tx.norm false) := by
  simp [nodeTxToTx, C01.parseExact_serialize tx h hamb]

/-- **Every representable amount survives the float64 detour** (proof in GoBT/Props/C16Float.lean, the one module that
    uses Mathlib's ordered-field tactics): satoshis → `float64(sats)/1e8` → `uint64(math.Round(value*1e8))` is the
    identity for every amount up to the 21-million-coin cap, given correctly rounded binary64 arithmetic. -/
theorem amounts_round_trip (n : Nat) (hn : n ≤ 2100000000000000) : decodeAmount (encodeAmount n) = n :=
  C16F.amount_round_trip n hn

/-- Why truncation was wrong: 0.29 BSV (29,000,000 satoshis) came back as 28,999,999, and 3 satoshis as 2.
    (The replay of the defect repaired in go-bt; kept as a machine-checked counterexample.) -/
theorem truncation_counterexample :
    decodeAmountTrunc (encodeAmount 29000000) = 28999999 ∧ decodeAmountTrunc (encodeAmount 3) = 2 := by
  decide +kernel

/-- … while rounding to nearest recovers them. -/
theorem rounding_fixes_counterexample :
    decodeAmount (encodeAmount 29000000) = 29000000 ∧ decodeAmount (encodeAmount 3) = 3 ∧
    decodeAmount (encodeAmount 2100000000000000) = 2100000000000000 := by
  decide +kernel

/-- Regenerated fact (go/ssa write-site table of packages bt and bscript, `Gen/WritesLib.lean`): in the JSON codecs every
    store, `copy`, `append` and every call that writes through a parameter or a `*Script` targets a buffer allocated in the
    same function (or is a reviewed part of the function's contract), and every byte slice handed to another package
    goes to a reviewed read-only function (GoBT/Script/WriteReviewLib.lean).  Code that appends to or writes into a
    slice it was handed — a previous-output script, a caller's hash, a destination's old buffer — adds a row with a
    `param:` / `field:` / `deref:` origin and breaks this obligation. -/
theorem lib_writes_only_fresh_buffers : GoBT.Script.WriteReviewLib.writesOkFor "C16" = true := by decide +kernel

end GoBT.C16
