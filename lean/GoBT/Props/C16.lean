/-
  C16 — JSON interchange preserves transactions and satoshi amounts exactly.
  Model ↔ code: both JSON dialects carry the hex of the standard serialisation and decode it with
  NewTxFromString, so the structural round trip is hex ∘ wire codec (C13 + C01); node-style amounts are
  `encodeAmount` / `decodeAmount` over a rational model of IEEE-754 binary64 round-to-nearest-even (rn53).
-/
import GoBT.Json.Amount
import GoBT.Json.Shapes
import GoBT.Props.C01
import GoBT.Props.C13
import GoBT.Props.C16Float
import GoBT.Script.WriteReviewLib
namespace GoBT.C16
open GoBT GoBT.Json

/-- Marshal → unmarshal of a transaction in either dialect (both go through the `hex` field): the decoded
    transaction has the identical standard serialisation (hence the identical id), whatever the inputs'
    unlocking scripts are — including nil ones of not-yet-signed inputs. -/
theorem tx_json_roundtrip (tx : Tx) (h : tx.wf) (hamb : ¬ tx.ambiguous) :
    ∃ p, (hexDec (hexEnc (serialize false tx))).bind parseExact = some p ∧
      serialize false p.tx = serialize false tx := by
  refine ⟨{ tx := tx.norm false, fmt := .std, minimal := true }, ?_, C01.reserialize_std tx⟩
  rw [C13.hexDec_hexEnc]
  show parseExact (serialize false tx) = _
  exact C01.parseExact_serialize tx h hamb

/-- the node-dialect decoder with a present `hex` field is exactly that path -/
theorem node_tx_with_hex (tx : Tx) (h : tx.wf) (hamb : ¬ tx.ambiguous) (v lt : Nat)
    (vin : List (Option NodeIn)) (vout : List (Option NodeOut)) :
    nodeTxToTx { version := v, lockTime := lt, hex := some (.ok (serialize false tx)), vin := vin, vout := vout } =
      .ok (tx.norm false) := by
  simp [nodeTxToTx, C01.parseExact_serialize tx h hamb]

/-- **Every representable amount survives the float64 detour** (proof in GoBT/Props/C16Float.lean, the one module that
    uses Mathlib's ordered-field tactics): satoshis → `float64(sats)/1e8` → `uint64(math.Round(value*1e8))` is the
    identity for every amount up to the 21-million-coin cap, given correctly rounded binary64 arithmetic. -/
theorem amounts_round_trip (n : Nat) (hn : n ≤ 2100000000000000) : decodeAmount (encodeAmount n) = n :=
  C16F.amount_round_trip n hn

/-- node-style marshalling of an output / an input / a transaction without the `hex` field (what a node's own JSON looks
    like to the decoder) -/
def outToNode (o : Output) : NodeOut := { value := encodeAmount o.sats, scriptPubKey := some (.ok o.script) }
def inToNode (i : Input) : NodeIn :=
  { scriptSig := some (.ok (i.unlocking.getD [])), txid := .ok i.prevTxID, vout := i.vout, sequence := i.sequence }
def txToNodeFields (tx : Tx) : NodeTx :=
  { version := tx.version, lockTime := tx.lockTime, hex := none,
    vin := tx.inputs.map fun i => some (inToNode i), vout := tx.outputs.map fun o => some (outToNode o) }

/-- An output (and a UTXO) marshalled to node-style JSON and unmarshalled field by field — amount through float64,
    script through hex — is the same output, for every amount up to the 21-million-coin cap. -/
theorem node_output_roundtrip (o : Output) (h : o.sats ≤ 2100000000000000) :
    nodeOutToOutput (some (outToNode o)) = .ok o := by
  simp [nodeOutToOutput, outToNode, amounts_round_trip o.sats h]

theorem node_utxo_roundtrip (txid spk : Bytes) (vout sats : Nat) (h : sats ≤ 2100000000000000) :
    nodeUtxo (.ok txid) (.ok spk) vout (encodeAmount sats) = .ok (txid, vout, spk, sats) := by
  simp [nodeUtxo, amounts_round_trip sats h]

theorem mapM_outs (outs : List Output) (h : ∀ o ∈ outs, o.sats ≤ 2100000000000000) :
    (outs.map fun o => some (outToNode o)).mapM nodeOutToOutput = .ok outs := by
  induction outs with
  | nil => rfl
  | cons o os ih =>
    simp only [List.map_cons, List.mapM_cons, node_output_roundtrip o (h o (by simp)),
      ih (fun x hx => h x (by simp [hx]))]
    rfl

theorem mapM_ins (ins : List Input) (h : ∀ i ∈ ins, i.prevTxID.length = 32) :
    (ins.map fun i => some (inToNode i)).mapM nodeInToInput = .ok (ins.map (Input.norm false)) := by
  induction ins with
  | nil => rfl
  | cons i is ih =>
    have hi : nodeInToInput (some (inToNode i)) = .ok (i.norm false) := by
      simp [nodeInToInput, inToNode, h i (by simp), Input.norm, Input.normStd]
    simp only [List.map_cons, List.mapM_cons, hi, ih (fun x hx => h x (by simp [hx]))]
    rfl

/-- The field-by-field path of the node-style transaction decoder (no `hex` field): version, lock time, every input's
    outpoint, unlocking script and sequence number and every output's script and amount come back — the decoded
    transaction is the standard-format normal form of the original, hence has the identical serialisation and id
    (`C01.reserialize_std`). -/
theorem node_tx_fieldwise_roundtrip (tx : Tx) (hin : ∀ i ∈ tx.inputs, i.prevTxID.length = 32)
    (hout : ∀ o ∈ tx.outputs, o.sats ≤ 2100000000000000) :
    nodeTxToTx (txToNodeFields tx) = .ok (tx.norm false) ∧
    serialize false (tx.norm false) = serialize false tx := by
  refine ⟨?_, C01.reserialize_std tx⟩
  simp only [nodeTxToTx, txToNodeFields, mapM_outs tx.outputs hout, mapM_ins tx.inputs hin, bind, Except.bind, pure,
    Except.pure, Tx.norm]

/-- Why truncation was wrong: 0.29 BSV (29,000,000 satoshis) came back as 28,999,999, and 3 satoshis as 2.
    (The replay of the defect repaired in go-bt; kept as a machine-checked counterexample.) -/
theorem truncation_counterexample :
    decodeAmountTrunc (encodeAmount 29000000) = 28999999 ∧ decodeAmountTrunc (encodeAmount 3) = 2 := by
  decide +kernel

/-- … while rounding to nearest recovers them. -/
theorem rounding_fixes_counterexample :
    decodeAmount (encodeAmount 29000000) = 29000000 ∧ decodeAmount (encodeAmount 3) = 3 ∧
    decodeAmount (encodeAmount 2100000000000000) = 2100000000000000 := by
  decide +kernel

/-- Regenerated fact (go/ssa write-site table of packages bt and bscript, `Gen/WritesLib.lean`): in the JSON codecs every
    store, `copy`, `append` and every call that writes through a parameter or a `*Script` targets a buffer allocated in the
    same function (or is a reviewed part of the function's contract), and every byte slice handed to another package
    goes to a reviewed read-only function (GoBT/Script/WriteReviewLib.lean).  Code that appends to or writes into a
    slice it was handed — a previous-output script, a caller's hash, a destination's old buffer — adds a row with a
    `param:` / `field:` / `deref:` origin and breaks this obligation. -/
theorem lib_writes_only_fresh_buffers : GoBT.Script.WriteReviewLib.writesOkFor "C16" = true := by decide +kernel

end GoBT.C16
