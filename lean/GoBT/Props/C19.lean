/-
  C19 — debugging is non-intrusive: same verdict, ordered callbacks, isolated snapshots.
  In Go the debugger receives `thread.State()` — deep copies of the stacks — and returns nothing; the model of
  that contract is: (a) the execution function takes no input from the debugger (the driver runs the same
  `execute` for the three variants, and the harness compares no-debugger / recording / scribbling runs of the real
  interpreter); (b) consecutive AfterStep snapshots are related by the instruction executed between them;
  (c) in the reference-semantics model, writing into freshly copied snapshot cells leaves every cell of the
  running thread unchanged.
-/
import GoBT.Interp.Exec
import GoBT.Interp.Heap
import GoBT.Interp.WriteReview
import GoBT.Interp.EventsProofs
namespace GoBT.C19
open GoBT GoBT.Interp GoBT.Script

/-- adjacent elements of a list -/
def Adjacent {α : Type} (R : α → α → Prop) : List α → Prop
  | [] => True
  | [_] => True
  | a :: b :: rest => R a b ∧ Adjacent R (b :: rest)

/-- "b is the state after executing, from state a, the instruction of script `cur` at a's program counter" -/
def StepRel (env : Env) (cur : List POp) (b a : Snap) : Prop :=
  ∃ o, cur[a.soff.toNat]? = some o ∧ executeOpcode env cur a.soff.toNat o a.st = .ok b.st ∧ b.soff = a.soff + 1

/-- Consecutive step snapshots of one script are consistent with the instruction executed between them
    (the trace is kept newest-first).  Stated for a run that starts at offset `off` with the suffix `ops` of `cur`. -/
theorem consecutive_snapshots (env : Env) (sidx : Nat) (cur ops : List POp) (off : Nat) (s : St) (tr : List Snap)
    (hsuf : cur.drop off = ops)
    (hhead : ∀ top rest, tr = top :: rest → top.soff = (off : Int) ∧ top.st = s)
    (htr : Adjacent (StepRel env cur) tr) :
    Adjacent (StepRel env cur) (runOps env sidx cur ops off s tr).2 := by
  induction ops generalizing off s tr with
  | nil => simpa [runOps] using htr
  | cons o rest ih =>
    unfold runOps
    split
    · exact htr
    · exact htr
    · exact htr
    · next s' hs =>
      split
      · exact htr
      · split
        · exact htr
        · apply ih (off + 1) s' (⟨sidx, ((off + 1 : Nat) : Int), s'⟩ :: tr)
          · rw [← List.drop_drop, hsuf]; rfl
          · intro top r2 he
            cases he
            exact ⟨rfl, rfl⟩
          · have ho : cur[off]? = some o := by
              have : (cur.drop off)[0]? = some o := by rw [hsuf]; rfl
              simpa using this
            cases tr with
            | nil => trivial
            | cons top r2 =>
              obtain ⟨h1, h2⟩ := hhead top r2 rfl
              refine ⟨⟨o, ?_, ?_, ?_⟩, htr⟩
              · simp [h1, ho]
              · simp [h1, h2, hs]
              · simp [h1]

/-! ### snapshot isolation in the reference model -/
open GoBT.Interp.Heap

/-- writing through a reference changes no cell other than the one it points into -/
theorem writeAt_other_cell (h : Heap) (w r : Ref) (b : Bytes) (hne : r.cell ≠ w.cell) :
    deref (writeAt h w b) r = deref h r := by
  unfold deref writeAt
  simp only [List.getD_eq_getElem?_getD]
  rw [List.getElem?_set_ne (Ne.symm hne)]

/-- thread.State() copies every stack item into a fresh cell: a debugger that overwrites the bytes of a
    snapshot item leaves the value of every item of the running execution unchanged. -/
theorem scribbling_snapshot_is_harmless (h : Heap) (live : List Ref) (item : Ref) (junk : Bytes)
    (hlive : ∀ r ∈ live, r.valid h) (hitem : item.valid h) :
    let (h1, copy) := alloc h (deref h item)          -- the snapshot's copy of `item`
    let h2 := writeAt h1 copy junk                     -- the debugger scribbles over the copy
    live.map (deref h2) = live.map (deref h) := by
  simp only
  apply List.map_congr_left
  intro r hr
  have hv := hlive r hr
  rw [writeAt_other_cell]
  · exact deref_alloc' h _ r hv
  · simp only [alloc]
    unfold Ref.valid at hv
    omega
where
  deref_alloc' (h : Heap) (b : Bytes) (r : Ref) (hv : r.valid h) : deref (alloc h b).1 r = deref h r := by
    unfold deref alloc Ref.valid at *
    simp only
    rw [List.getD_eq_getElem?_getD, List.getD_eq_getElem?_getD, List.getElem?_append_left hv]

/-! ### the callback lifecycle (Interp/Events.lean, Interp/EventsProofs.lean) -/

/-- **Attaching a debugger changes nothing, and the callbacks come in the documented order.**  `executeE` is the
    interpreter model emitting the skeleton of the callback sequence (all callbacks but the four stack ones); it returns
    the verdict of `execute` — the execution takes no input from the callbacks — and for every script pair, flag word
    and context the skeleton lies in the lifecycle language `execute > step > opcode > script change > success or error`
    (the automaton `lifecycleOk`, which the correspondence check also runs on the full callback sequence, stack events
    included, recorded from the real interpreter; and the recorded sequence with stack events erased must *equal* this
    skeleton). -/
theorem callbacks_follow_lifecycle (p2sh : Bool) (H : Crypto) (flags : Nat) (ctx : Option Ctx) (unlock lock : Bytes) :
    (executeE H flags ctx unlock lock).1 = (execute H flags ctx unlock lock).1 ∧
    GoBT.Driver.lifecycleOk p2sh (executeE H flags ctx unlock lock).2 = true :=
  ⟨executeE_verdict H flags ctx unlock lock, skeleton_in_lifecycle p2sh H flags ctx unlock lock⟩

/-- non-vacuity / sanity of the automaton: it rejects a step without AfterExecuteOpcode, a success reported mid-run and
    a script change before the opcode ended -/
example : GoBT.Driver.lifecycleOk false "[soS]+".toList = false ∧ GoBT.Driver.lifecycleOk false "[soO+S]".toList = false ∧
    GoBT.Driver.lifecycleOk false "[scCoOS]+".toList = false ∧ GoBT.Driver.lifecycleOk false "[soOcCS]+".toList = true := by
  decide

/-- ✓gen — **`thread.State` builds a deep copy.**  In the current sources (write-site table regenerated by go/ssa on every
    run) every slice that `thread.State` stores into the snapshot — data, alt, else and saved-first stack items, the
    script list — is allocated in `thread.State` itself (`src:make`) and filled by `copy`; none is the live slice of the
    running thread.  This is the hypothesis "the snapshot's copy lives in a fresh cell" of
    `scribbling_snapshot_is_harmless`. -/
theorem snapshot_is_deep_copy :
    GoBT.Interp.WriteReview.rowsOkFor ["interpreter.thread.State"] = true := by decide +kernel

end GoBT.C19
