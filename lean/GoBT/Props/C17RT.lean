/-
  C17: DecodeBIP276 (EncodeBIP276 b) = b for every prefix (non-empty, no newline), version and network in 1..255 and
  payload, for any checksum function with at least four bytes of output.
-/
import GoBT.Addr.Bip276
import GoBT.Props.C13
namespace GoBT.C17
open GoBT GoBT.Addr

theorem hexVal_hexDigit' (n : Nat) (h : n < 16) : hexVal (hexDigit n) = some n := by
  have : ∀ k : Fin 16, hexVal (hexDigit k.val) = some k.val := by decide
  exact this ⟨n, h⟩

theorem hexDigit_ne_colon (n : Nat) (h : n < 16) : hexDigit n ≠ ':' := by
  have : ∀ k : Fin 16, hexDigit k.val ≠ ':' := by decide
  exact this ⟨n, h⟩

theorem hexDecChars_hexChars (b : Bytes) : hexDecChars (hexChars b) = some b := by
  have := C13.hexDec_hexEnc b
  unfold hexDec at this
  exact this

theorem hexChars_eq (b : Bytes) : hexChars b = b.flatMap fun x => [hexDigit (x.toNat / 16), hexDigit (x.toNat % 16)] := by
  simp [hexChars, hexEnc]

theorem hexChars_length (b : Bytes) : (hexChars b).length = 2 * b.length := by
  rw [hexChars_eq]
  induction b with
  | nil => rfl
  | cons x xs ih => simp only [List.flatMap_cons, List.length_append, ih, List.length_cons, List.length_nil]; omega

theorem hexChars_all_hex (b : Bytes) : ∀ c ∈ hexChars b, isHexChar c = true ∧ c ≠ ':' := by
  rw [hexChars_eq]
  intro c hc
  simp only [List.mem_flatMap, List.mem_cons, List.not_mem_nil, or_false] at hc
  obtain ⟨x, _, hx⟩ := hc
  have hlt : x.toNat < 256 := UInt8.toNat_lt x
  rcases hx with e | e <;> subst e
  · exact ⟨by simp [isHexChar, hexVal_hexDigit' _ (show x.toNat / 16 < 16 by omega)], hexDigit_ne_colon _ (by omega)⟩
  · exact ⟨by simp [isHexChar, hexVal_hexDigit' _ (show x.toNat % 16 < 16 by omega)], hexDigit_ne_colon _ (by omega)⟩

theorem hex2_all_hex (n : Nat) (h : n < 256) : ∀ c ∈ hex2 n, isHexChar c = true ∧ c ≠ ':' := by
  intro c hc
  simp only [hex2, List.mem_cons, List.not_mem_nil, or_false] at hc
  rcases hc with e | e <;> subst e
  · exact ⟨by simp [isHexChar, hexVal_hexDigit' _ (show n / 16 < 16 by omega)], hexDigit_ne_colon _ (by omega)⟩
  · exact ⟨by simp [isHexChar, hexVal_hexDigit' _ (show n % 16 < 16 by omega)], hexDigit_ne_colon _ (by omega)⟩

theorem hexDecChars_hex2 (n : Nat) (h : n < 256) : hexDecChars (hex2 n) = some [UInt8.ofNat n] := by
  simp only [hex2, hexDecChars, hexVal_hexDigit' _ (show n / 16 < 16 by omega), hexVal_hexDigit' _ (show n % 16 < 16 by omega),
    bind, Option.bind, pure]
  congr 3
  omega

/-- splitting at the last colon finds the separator when nothing after it is a colon -/
theorem splitLastColon_append (pfx rest : List Char) (h : ∀ c ∈ rest, c ≠ ':') :
    splitLastColon (pfx ++ ':' :: rest) = some (pfx, rest) := by
  unfold splitLastColon
  simp only [List.reverse_append, List.reverse_cons, List.append_assoc, List.singleton_append]
  have htw : List.takeWhile (· ≠ ':') (rest.reverse ++ ':' :: pfx.reverse) = rest.reverse := by
    rw [List.takeWhile_append_of_pos]
    · simp
    · intro c hc
      simpa using h c (by simpa using hc)
  simp only [htw, List.length_reverse, List.length_append, List.length_cons, List.reverse_reverse]
  have hne : ¬ rest.length = rest.length + (pfx.length + 1) := by omega
  simp only [hne, ↓reduceIte, Option.some.injEq, Prod.mk.injEq, and_true]
  have e : rest.length + 1 = rest.reverse.length + 1 := by simp
  rw [e, List.drop_append]
  simp

/-- **BIP276 round trip.**  For every non-empty prefix without a newline, version and network in 1..255, payload, and
    checksum function `H` with at least four bytes of output: decoding the encoded text returns exactly the fields
    that were encoded. -/
theorem decode_encode (H : Bytes → Bytes) (hH : ∀ x, 4 ≤ (H x).length) (b : Bip276) (txt : List Char)
    (hp : b.pfx ≠ []) (hnl : ∀ c ∈ b.pfx, c ≠ '\n') (h : encodeBip276 H b = some txt) :
    decodeBip276 H txt = .ok b := by
  unfold encodeBip276 at h
  split at h
  · cases h
  · next hr =>
    simp only [not_or, Nat.not_lt] at hr
    obtain ⟨hv0, hv, hn0, hn⟩ := hr
    have hv256 : b.version < 256 := by omega
    have hn256 : b.network < 256 := by omega
    simp only [Option.some.injEq] at h
    subst h
    -- the text is prefix, colon, and a run of hex digits
    let rest : List Char := hex2 b.network ++ hex2 b.version ++ hexChars b.data ++ bip276Checksum H b
    have hck_len : (bip276Checksum H b).length = 8 := by
      unfold bip276Checksum
      rw [hexChars_length, List.length_take, Nat.min_eq_left (hH _)]
    have hrest_hex : ∀ c ∈ rest, isHexChar c = true ∧ c ≠ ':' := by
      intro c hc
      simp only [rest, List.mem_append] at hc
      rcases hc with ((hc | hc) | hc) | hc
      · exact hex2_all_hex _ hn256 c hc
      · exact hex2_all_hex _ hv256 c hc
      · exact hexChars_all_hex _ c hc
      · exact hexChars_all_hex _ c hc
    have htxt : bip276Payload b ++ bip276Checksum H b = b.pfx ++ ':' :: rest := by
      simp [bip276Payload, rest]
    have hlen : rest.length = 4 + 2 * b.data.length + 8 := by
      simp only [rest, List.length_append, hex2, List.length_cons, List.length_nil, hexChars_length, hck_len]
    unfold decodeBip276
    rw [htxt, splitLastColon_append _ _ (fun c hc => (hrest_hex c hc).2)]
    simp only
    have hcond : ¬ (b.pfx.isEmpty = true ∨ (b.pfx.any (· = '\n')) = true ∨ rest.length < 12 ∨ ¬ rest.all isHexChar = true) := by
      simp only [not_or, Decidable.not_not, Nat.not_lt]
      refine ⟨by simpa using hp, ?_, by omega, ?_⟩
      · simp only [List.any_eq_true, decide_eq_true_eq, not_exists, not_and]
        intro c hc; exact hnl c hc
      · simp only [List.all_eq_true]
        intro c hc; exact (hrest_hex c hc).1
    simp only [hcond, ↓reduceIte]
    -- the four fields
    have t2 : rest.take 2 = hex2 b.network := by simp [rest, hex2]
    have d2t2 : (rest.drop 2).take 2 = hex2 b.version := by simp [rest, hex2]
    have hdata : (rest.drop 4).take (rest.length - 12) = hexChars b.data := by
      have : rest.drop 4 = hexChars b.data ++ bip276Checksum H b := by simp [rest, hex2]
      rw [this, hlen]
      have : 4 + 2 * b.data.length + 8 - 12 = (hexChars b.data).length := by rw [hexChars_length]; omega
      rw [this, List.take_left']
      rfl
    have hck : rest.drop (rest.length - 8) = bip276Checksum H b := by
      have e : rest.length - 8 = (hex2 b.network ++ hex2 b.version ++ hexChars b.data).length := by
        rw [hlen]; simp [hex2, hexChars_length]; omega
      rw [e]
      simp only [rest]
      rw [List.drop_left']
      rfl
    rw [t2, d2t2, hexDecChars_hex2 _ hn256, hexDecChars_hex2 _ hv256]
    simp only [hdata, hexDecChars_hexChars, hck]
    have e1 : (UInt8.ofNat b.version).toNat = b.version := by simp [UInt8.toNat_ofNat', Nat.mod_eq_of_lt hv256]
    have e2 : (UInt8.ofNat b.network).toNat = b.network := by simp [UInt8.toNat_ofNat', Nat.mod_eq_of_lt hn256]
    simp only [e1, e2]
    simp

end GoBT.C17
