/-
  C01 — the transaction wire codec is lossless and canonical (standard, extended, stream).
  Property theorems only; helper lemmas are in GoBT/Tx/WireLemmas.lean.

  Model ↔ code: `serialize` = Tx.toBytesHelper(0,nil,ext); `parse` = Tx.ReadFrom;
  `parseExact` = NewTxFromBytes; `parseTxs` = Txs.ReadFrom; `clone` = Tx.Clone.
  The transaction id is `reverse (sha256d (serialize false tx))` by definition in the driver
  (GoBT/Driver/C01.lean, `txid`); its agreement with Tx.TxID/TxIDBytes is a correspondence obligation.
-/
import GoBT.Tx.WireLemmas
import GoBT.Script.WriteReviewLib
import GoBT.Script.Build
namespace GoBT.C01
open GoBT

private theorem varintRead_zero (rest : Bytes) : varintRead (0x00 :: rest) = .ok (0, true) rest := by
  simp [varintRead]

private theorem varintEnc_zero : varintEnc 0 = [0x00] := by decide

private theorem readN4_cons (a b c d : UInt8) (x : Bytes) :
    readN 4 (a :: b :: c :: d :: x) = .ok [a, b, c, d] x := by
  have : ¬ (x.length + 1 + 1 + 1 + 1 < 4) := by omega
  simp [readN, take?, this]

private theorem beDec_marker : beDec [0x00, 0x00, 0x00, 0xEF] = 0xEF := by decide

/-- Standard format: serialise, then parse (with anything following) gives back every field —
    version, locktime, inputs (outpoint, unlocking script, sequence), outputs — consumes exactly the
    serialisation, and reports the standard format with every prefix minimal. -/
theorem parse_serialize_std (tx : Tx) (h : tx.wf) (hamb : ¬ tx.ambiguous) (rest : Bytes) :
    parse (serialize false tx ++ rest) =
      .ok { tx := tx.norm false, fmt := .std, minimal := true } rest := by
  have hwf := h
  obtain ⟨hv, hlt, hni, hno, hi, ho⟩ := h
  have ev : leDec (leEnc 4 tx.version) = tx.version := leDec_leEnc_of_lt (by simpa using hv)
  have el : leDec (leEnc 4 tx.lockTime) = tx.lockTime := leDec_leEnc_of_lt (by simpa using hlt)
  simp only [serialize, Bool.false_eq_true, ↓reduceIte, List.append_nil, List.append_assoc]
  unfold parse
  rd_step (readN_append _ _ (by simp))
  rd_step (varintRead_enc _ hni _)
  by_cases hin : tx.inputs.length = 0
  · -- no inputs
    have hnil : tx.inputs = [] := List.length_eq_zero_iff.mp hin
    simp only [hin, ↓reduceIte]
    simp only [hnil, serInputs, List.flatMap_nil, List.nil_append]
    rd_step (varintRead_enc _ hno _)
    by_cases hout : tx.outputs.length = 0
    · have honil : tx.outputs = [] := List.length_eq_zero_iff.mp hout
      simp only [hout, ↓reduceIte]
      simp only [honil, serOutputs, List.flatMap_nil, List.nil_append]
      rd_step (readN_append _ _ (by simp))
      have hne : beDec (leEnc 4 tx.lockTime) ≠ 0xEF := fun e => hamb ⟨hnil, honil, e⟩
      simp only [ne_eq, hne, not_false_eq_true, ↓reduceIte]
      simp [Tx.norm, hnil, honil, ev, el]
    · simp only [hout, ↓reduceIte]
      rd_step (readOutputs_ser _ ho _)
      rd_step (readN_append _ _ (by simp))
      simp [Tx.norm, hnil, ev, el]
  · simp only [hin, ↓reduceIte]
    rw [readBody_ser (leDec (leEnc 4 tx.version)) false tx hwf true rest]
    simp [Tx.norm, ev]

/-- Extended format: additionally every input's previous-output value and script survive
    (a nil previous script comes back empty). -/
theorem parse_serialize_ext (tx : Tx) (h : tx.wf) (rest : Bytes) :
    parse (serialize true tx ++ rest) =
      .ok { tx := tx.norm true, fmt := .ext, minimal := true } rest := by
  have hwf := h
  obtain ⟨hv, hlt, hni, hno, hi, ho⟩ := h
  have ev : leDec (leEnc 4 tx.version) = tx.version := leDec_leEnc_of_lt (by simpa using hv)
  simp only [serialize, ↓reduceIte, extMarker, List.append_assoc, List.cons_append, List.nil_append]
  unfold parse
  rd_step (readN_append _ _ (by simp))
  rd_step (varintRead_zero _)
  simp only [↓reduceIte]
  rd_step (varintRead_zero _)
  simp only [↓reduceIte]
  rd_step (readN4_cons _ _ _ _ _)
  simp only [beDec_marker, ne_eq, not_true_eq_false, ↓reduceIte]
  rd_step (varintRead_enc _ hni _)
  rw [readBody_ser (leDec (leEnc 4 tx.version)) true tx hwf _ rest]
  simp [Tx.norm, ev]

/-- Re-serialising what was parsed reproduces the standard bytes exactly. -/
theorem reserialize_std (tx : Tx) : serialize false (tx.norm false) = serialize false tx := by
  have : ∀ is : List Input, serInputs false (is.map (Input.norm false)) = serInputs false is := by
    intro is
    induction is with
    | nil => rfl
    | cons i is ih =>
      simp only [serInputs, List.map_cons, List.flatMap_cons] at ih ⊢
      rw [ih]
      congr 1
      cases hu : i.unlocking <;>
        simp [serInputF, serInput, Input.norm, Input.normStd, serOptScript, hu, varintEnc]
  simp [serialize, Tx.norm, this]

theorem reserialize_ext (tx : Tx) : serialize true (tx.norm true) = serialize true tx := by
  have : ∀ is : List Input, serInputs true (is.map (Input.norm true)) = serInputs true is := by
    intro is
    induction is with
    | nil => rfl
    | cons i is ih =>
      simp only [serInputs, List.map_cons, List.flatMap_cons] at ih ⊢
      rw [ih]
      congr 1
      cases hu : i.unlocking <;> cases hp : i.prevScript <;>
        simp [serInputF, serInput, serInputExtTail, Input.norm, Input.normExt, serOptScript, hu, hp, varintEnc]
  simp [serialize, Tx.norm, this]

/-- Any byte string the parser accepts: the bytes consumed are a prefix of the input (so the
    count never exceeds what was supplied), the decoded transaction is well formed, and when every
    length prefix was minimally encoded, serialising it in the format it arrived in reproduces
    exactly the consumed bytes. -/
theorem serialize_parse {bs rest : Bytes} {p : Parsed} (h : parse bs = .ok p rest) :
    ∃ pre, bs = pre ++ rest ∧ (p.minimal = true → serialize p.fmt.isExt p.tx = pre) := by
  unfold parse at h
  obtain ⟨ver, r1, h1, h⟩ := Rd.andThen_eq_ok.mp h
  obtain ⟨⟨nIn, m1⟩, r2, h2, h⟩ := Rd.andThen_eq_ok.mp h
  obtain ⟨e1, l1⟩ := readN_ok h1
  obtain ⟨_, p2, e2, _, hm2⟩ := varintRead_ok h2
  have ever : leEnc 4 (leDec ver) = ver := by have := leEnc_leDec ver; rwa [l1] at this
  -- the common tail
  have body : ∀ {v : Nat} {ext : Bool} {n : Nat} {m0 : Bool} {b r : Bytes} {q : Parsed},
      readBody v ext n m0 b = .ok q r →
      ∃ pre, b = pre ++ r ∧ q.fmt.isExt = ext ∧ q.tx.version = v ∧ q.tx.inputs.length = n ∧
        (q.minimal = true → m0 = true ∧
          pre = serInputs ext q.tx.inputs ++ varintEnc q.tx.outputs.length ++ serOutputs q.tx.outputs ++
            leEnc 4 q.tx.lockTime) := by
    intro v ext n m0 b r q hb
    unfold readBody at hb
    obtain ⟨⟨ins, mi⟩, s1, g1, hb⟩ := Rd.andThen_eq_ok.mp hb
    obtain ⟨⟨nOut, mo⟩, s2, g2, hb⟩ := Rd.andThen_eq_ok.mp hb
    obtain ⟨⟨outs, mos⟩, s3, g3, hb⟩ := Rd.andThen_eq_ok.mp hb
    obtain ⟨lt, s4, g4, hb⟩ := Rd.andThen_eq_ok.mp hb
    obtain ⟨li, _, pi, ei, hpi⟩ := readInputs_inv g1
    obtain ⟨_, pc, ec, _, hpc⟩ := varintRead_ok g2
    obtain ⟨lo, _, po, eo, hpo⟩ := readOutputs_inv g3
    obtain ⟨el, ll⟩ := readN_ok g4
    have elt : leEnc 4 (leDec lt) = lt := by have := leEnc_leDec lt; rwa [ll] at this
    simp only [Rd.ok.injEq] at hb
    obtain ⟨hq, hr⟩ := hb
    subst hq hr
    refine ⟨pi ++ pc ++ po ++ lt, by rw [ei, ec, eo, el]; simp, by cases ext <;> rfl, rfl, li, ?_⟩
    intro hm
    simp only [Bool.and_eq_true] at hm
    obtain ⟨⟨⟨h0, hmi⟩, hmo⟩, hmos⟩ := hm
    refine ⟨h0, ?_⟩
    rw [hpi hmi, hpc hmo, hpo hmos, lo, elt]
  dsimp only at h
  split at h
  · next hz =>
    subst hz
    obtain ⟨⟨nOut, m2⟩, r3, h3, h⟩ := Rd.andThen_eq_ok.mp h
    obtain ⟨_, p3, e3, _, hm3⟩ := varintRead_ok h3
    dsimp only at h
    split at h
    · next hz2 =>
      subst hz2
      obtain ⟨lt, r4, h4, h⟩ := Rd.andThen_eq_ok.mp h
      obtain ⟨e4, l4⟩ := readN_ok h4
      have elt : leEnc 4 (leDec lt) = lt := by have := leEnc_leDec lt; rwa [l4] at this
      split at h
      · -- standard, empty transaction
        simp only [Rd.ok.injEq] at h
        obtain ⟨hq, hr⟩ := h
        subst hq hr
        refine ⟨ver ++ p2 ++ p3 ++ lt, by rw [e1, e2, e3, e4]; simp, ?_⟩
        intro hm
        simp only [Bool.and_eq_true] at hm
        rw [hm2 hm.1, hm3 hm.2]
        simp [serialize, Fmt.isExt, serInputs, serOutputs, ever, elt]
      · next hef =>
        -- extended marker
        obtain ⟨⟨nIn', m3⟩, r5, h5, h⟩ := Rd.andThen_eq_ok.mp h
        obtain ⟨_, p5, e5, _, hm5⟩ := varintRead_ok h5
        obtain ⟨pre, eb, hfmt, hver, hlen, hpre⟩ := body h
        refine ⟨ver ++ p2 ++ p3 ++ lt ++ p5 ++ pre, by rw [e1, e2, e3, e4, e5, eb]; simp, ?_⟩
        intro hm
        obtain ⟨h0, hp⟩ := hpre hm
        simp only [Bool.and_eq_true] at h0
        obtain ⟨⟨hm1, hm2'⟩, hm3'⟩ := h0
        have hlt : lt = [0x00, 0x00, 0x00, 0xEF] := by
          have hbe : beDec lt = 0xEF := by simpa using hef
          match lt, l4, hbe with
          | [a, b, c, d], _, hbe =>
            simp only [beDec, List.reverse_cons, List.reverse_nil, List.nil_append, List.cons_append, leDec] at hbe
            have ha := UInt8.toNat_lt a; have hb := UInt8.toNat_lt b
            have hc := UInt8.toNat_lt c; have hd := UInt8.toNat_lt d
            have : a.toNat = 0 ∧ b.toNat = 0 ∧ c.toNat = 0 ∧ d.toNat = 0xEF := by omega
            obtain ⟨a0, b0, c0, d0⟩ := this
            have := UInt8.toNat_inj.mp (show a.toNat = (0:UInt8).toNat from a0)
            have := UInt8.toNat_inj.mp (show b.toNat = (0:UInt8).toNat from b0)
            have := UInt8.toNat_inj.mp (show c.toNat = (0:UInt8).toNat from c0)
            have := UInt8.toNat_inj.mp (show d.toNat = (0xEF:UInt8).toNat from d0)
            simp_all
        rw [hm2 hm1, hm3 hm2', hm5 hm3', hp, hfmt, hlt]
        simp [serialize, extMarker, varintEnc_zero, ever, hver, hlen]
    · -- no inputs, some outputs
      obtain ⟨⟨outs, mo⟩, r4, h4, h⟩ := Rd.andThen_eq_ok.mp h
      obtain ⟨lt, r5, h5, h⟩ := Rd.andThen_eq_ok.mp h
      obtain ⟨lo, _, po, eo, hpo⟩ := readOutputs_inv h4
      obtain ⟨e5, l5⟩ := readN_ok h5
      have elt : leEnc 4 (leDec lt) = lt := by have := leEnc_leDec lt; rwa [l5] at this
      simp only [Rd.ok.injEq] at h
      obtain ⟨hq, hr⟩ := h
      subst hq hr
      refine ⟨ver ++ p2 ++ p3 ++ po ++ lt, by rw [e1, e2, e3, eo, e5]; simp, ?_⟩
      intro hm
      simp only [Bool.and_eq_true] at hm
      rw [hm2 hm.1.1, hm3 hm.1.2, hpo hm.2, ← lo]
      simp [serialize, Fmt.isExt, serInputs, ever, elt]
  · obtain ⟨pre, eb, hfmt, hver, hlen, hpre⟩ := body h
    refine ⟨ver ++ p2 ++ pre, by rw [e1, e2, eb]; simp, ?_⟩
    intro hm
    obtain ⟨h0, hp⟩ := hpre hm
    rw [hm2 h0, hp, hfmt]
    simp [serialize, ever, hver, hlen]

/-- The byte count of a successful parse never exceeds the input, and neither does the count
    reported together with an error (Tx.ReadFrom / NewTxFromStream / Txs.ReadFrom). -/
theorem consumed_le_supplied (bs : Bytes) :
    (∀ p rest, parse bs = .ok p rest → consumed bs rest ≤ bs.length ∧ ∃ pre, bs = pre ++ rest) ∧
    (∀ n, parse bs = .err n → n ≤ bs.length) := by
  have hs := parse_sound bs
  constructor
  · intro p rest h
    rw [h] at hs
    exact ⟨by unfold consumed; omega, hs⟩
  · intro n h
    rw [h] at hs
    exact hs

/-- NewTxFromBytes accepts exactly when the parser consumes the whole input. -/
theorem parseExact_iff (bs : Bytes) (p : Parsed) : parseExact bs = some p ↔ parse bs = .ok p [] := by
  unfold parseExact
  split
  · next q heq => simp [heq]
  · next hne =>
    constructor
    · intro h; cases h
    · intro h; exact absurd h (hne p)

/-- A serialised transaction is accepted by the exact-length entry point. -/
theorem parseExact_serialize (tx : Tx) (h : tx.wf) (hamb : ¬ tx.ambiguous) :
    parseExact (serialize false tx) = some { tx := tx.norm false, fmt := .std, minimal := true } := by
  rw [parseExact_iff]
  have := parse_serialize_std tx h hamb []
  simpa using this

/-- Stream / block-list parsing: a counted list of serialised transactions (standard or extended,
    mixed) followed by anything is decoded transaction by transaction, each consumed exactly to
    its end. -/
theorem parseTxs_serialize (txs : List (Tx × Bool)) (hlen : txs.length < 2 ^ 64)
    (h : ∀ t ∈ txs, t.1.wf ∧ (t.2 = false → ¬ t.1.ambiguous)) (rest : Bytes) :
    parseTxs (varintEnc txs.length ++ txs.flatMap (fun t => serialize t.2 t.1) ++ rest) =
      .ok (txs.map fun t => { tx := t.1.norm t.2, fmt := if t.2 then .ext else .std, minimal := true }) rest := by
  unfold parseTxs
  rw [List.append_assoc]
  rd_step (varintRead_enc _ hlen _)
  induction txs with
  | nil => simp [readTxs]
  | cons t ts ih =>
    obtain ⟨tx, ext⟩ := t
    simp only [List.flatMap_cons, List.append_assoc, List.length_cons, List.map_cons]
    unfold readTxs
    have ht := h (tx, ext) (by simp)
    have hp : parse (serialize ext tx ++ (List.flatMap (fun t => serialize t.2 t.1) ts ++ rest)) =
        .ok { tx := tx.norm ext, fmt := if ext then .ext else .std, minimal := true }
          (List.flatMap (fun t => serialize t.2 t.1) ts ++ rest) := by
      cases ext with
      | false => simpa using parse_serialize_std tx ht.1 (ht.2 rfl) _
      | true => simpa using parse_serialize_ext tx ht.1 _
    rd_step hp
    have := ih (by simp at hlen; omega) (fun t ht' => h t (by simp [ht']))
    rd_step this

/-- Tx.Clone: for a well-formed, non-ambiguous transaction the clone exists (the `log.Fatal`
    branch is unreachable), has the same standard and extended serialisation, and carries over the
    previous-output fields. -/
theorem clone_spec (tx : Tx) (h : tx.wf) (hamb : ¬ tx.ambiguous) :
    ∃ c, clone tx = some c ∧ serialize false c = serialize false tx ∧
      c.inputs.map (fun i => (i.prevSats, i.prevScript)) = tx.inputs.map (fun i => (i.prevSats, i.prevScript)) := by
  unfold clone
  rw [parseExact_serialize tx h hamb]
  simp only [Tx.norm, List.length_map, ↓reduceIte]
  refine ⟨_, rfl, ?_, ?_⟩
  · have : ∀ is : List Input, serInputs false (List.zipWith
        (fun (c o : Input) => { c with prevSats := o.prevSats, prevScript := o.prevScript })
        (is.map (Input.norm false)) is) = serInputs false is := by
      intro is
      induction is with
      | nil => rfl
      | cons i is ih =>
        simp only [serInputs, List.map_cons, List.zipWith_cons_cons, List.flatMap_cons] at ih ⊢
        rw [ih]
        congr 1
        cases hu : i.unlocking <;>
          simp [serInputF, serInput, Input.norm, Input.normStd, serOptScript, hu, varintEnc]
    simp [serialize, this]
  · generalize tx.inputs = is
    induction is with
    | nil => rfl
    | cons i is ih => simp [ih]

theorem serOptScript_getD_eq (s : Option Bytes) : serOptScript s = varintEnc (optLen s) ++ s.getD [] :=
  serOptScript_getD s

/-- what Tx.Clone returns: the same transaction with nil unlocking scripts replaced by empty ones -/
def cloneNorm (tx : Tx) : Tx :=
  { tx with inputs := tx.inputs.map fun i => { i with unlocking := some (i.unlocking.getD []) } }

theorem clone_eq (tx : Tx) (h : tx.wf) (hamb : ¬ tx.ambiguous) : clone tx = some (cloneNorm tx) := by
  unfold clone
  rw [parseExact_serialize tx h hamb]
  simp only [Tx.norm, List.length_map, ↓reduceIte, cloneNorm]
  congr 2
  generalize tx.inputs = is
  induction is with
  | nil => rfl
  | cons i is ih => simp [ih, Input.norm, Input.normStd]

/-! ### varint classes (VarInt.Length agrees with VarInt.Bytes; UpperLimitInc is the growth) -/

theorem varint_length_classes (n : Nat) :
    (varintEnc n).length = varintLen n ∧
    (varintLen n = 1 ↔ n < 253) ∧ (varintLen n = 3 ↔ 253 ≤ n ∧ n < 65536) ∧
    (varintLen n = 5 ↔ 65536 ≤ n ∧ n < 4294967296) ∧ (varintLen n = 9 ↔ 4294967296 ≤ n) := by
  refine ⟨varintEnc_length n, ?_, ?_, ?_, ?_⟩ <;>
  · unfold varintLen
    repeat' split
    all_goals omega

/-! ### non-vacuity: a two-input / two-output transaction with a 253-byte script, extended fields set -/

def sampleTx : Tx :=
  { version := 2, lockTime := 0xEF000000,
    inputs := [ { prevTxID := List.replicate 32 0xab, vout := 1, unlocking := some (List.replicate 253 0x51),
                  sequence := 0xffffffff, prevSats := 1000, prevScript := some [0x76, 0xa9] },
                { prevTxID := List.replicate 32 0x01, vout := 0xffffffff, unlocking := none,
                  sequence := 0, prevSats := 2 ^ 64 - 1, prevScript := none } ],
    outputs := [ { sats := 546, script := [0x6a] }, { sats := 0, script := [] } ] }

example : sampleTx.wf ∧ ¬ sampleTx.ambiguous :=
  ⟨by simp [-List.reduceReplicate, Tx.wf, Input.wf, Output.wf, sampleTx, optLen],
   by simp [-List.reduceReplicate, Tx.ambiguous, sampleTx]⟩

/-- Regenerated fact (go/ssa write-site table of packages bt and bscript, `Gen/WritesLib.lean`): in serialisation every
    store, `copy`, `append` and every call that writes through a parameter or a `*Script` targets a buffer allocated in the
    same function (or is a reviewed part of the function's contract), and every byte slice handed to another package
    goes to a reviewed read-only function (GoBT/Script/WriteReviewLib.lean).  Code that appends to or writes into a
    slice it was handed — a previous-output script, a caller's hash, a destination's old buffer — adds a row with a
    `param:` / `field:` / `deref:` origin and breaks this obligation. -/
theorem lib_writes_only_fresh_buffers : GoBT.Script.WriteReviewLib.writesOkFor "C01" = true := by decide +kernel

/-! ### Tx.BytesWithClearedInputs (the serialisation variant of toBytesHelper with a locking script) -/

/-- Input.Bytes(true) is the serialisation of the input with an empty unlocking script -/
theorem serInputCleared_eq (i : Input) : serInputCleared i = serInput { i with unlocking := some [] } := by
  simp [serInputCleared, serInput, serOptScript, varintEnc_zero]

private theorem serInputsCleared_oob (ls : Bytes) (is : List Input) :
    ∀ k idx, k + is.length ≤ idx →
      serInputsCleared ls k idx is = serInputs false (is.map fun i => { i with unlocking := some [] }) := by
  induction is with
  | nil => intro k idx _; simp [serInputsCleared, serInputs]
  | cons i is ih =>
    intro k idx h
    have hk : k ≠ idx := by simp at h; omega
    have := ih (k + 1) idx (by simp at h; omega)
    simp [serInputsCleared, hk, this, serInputs, serInputF, serInputCleared_eq]

/-- **Tx.BytesWithClearedInputs**: with no script it is `Tx.Bytes`; with a script and an index beyond the inputs it is
    the standard serialisation of the transaction with every unlocking script emptied. -/
theorem cleared_nil_is_bytes (idx : Nat) (tx : Tx) : bytesWithClearedInputs idx none tx = serialize false tx := rfl

theorem cleared_out_of_range (idx : Nat) (ls : Bytes) (tx : Tx) (h : tx.inputs.length ≤ idx) :
    bytesWithClearedInputs idx (some ls) tx =
      serialize false { tx with inputs := tx.inputs.map fun i => { i with unlocking := some [] } } := by
  simp [bytesWithClearedInputs, serialize, serInputsCleared_oob ls tx.inputs 0 idx (by omega)]

/-- Tx.IsCoinbase, stated outright: exactly one input, spending the all-zero transaction id, with the output index or the
    sequence number at 0xFFFFFFFF -/
theorem isCoinbase_iff (tx : Tx) :
    isCoinbase tx = true ↔
      ∃ i, tx.inputs = [i] ∧ i.prevTxID = List.replicate 32 0 ∧ (i.vout = 0xffffffff ∨ i.sequence = 0xffffffff) := by
  unfold isCoinbase
  constructor
  · intro h
    split at h
    · next i hi =>
      simp only [Bool.and_eq_true, beq_iff_eq, Bool.or_eq_true] at h
      exact ⟨i, hi, h.1, h.2⟩
    · simp at h
  · rintro ⟨i, hi, h1, h2⟩
    simp only [hi, Bool.and_eq_true, beq_iff_eq, Bool.or_eq_true]
    exact ⟨h1, h2⟩

end GoBT.C01
