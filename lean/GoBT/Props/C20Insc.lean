/-
  C20 (inscriptions): Tx.Inscribe followed by Script.ParseInscription returns the prefix, content type and payload
  that went in — for every 20-byte key hash, every content type and every payload below 2^32 bytes (the largest
  push the library can write), the empty ones included.
-/
import GoBT.Ord.Model
import GoBT.Props.C13
namespace GoBT.C20
open GoBT GoBT.Script GoBT.Ord GoBT.C13

/-- how AppendPushData writes a byte string: OP_0 for the empty one -/
def tokOf (p : Bytes) : Tok := if p = [] then .op 0x00 else .push p

theorem tokOf_ok (p : Bytes) (h : p.length < 2 ^ 32) : (tokOf p).ok := by
  unfold tokOf
  split
  · simp [Tok.ok]
  · next hne =>
    refine ⟨?_, h⟩
    cases p with
    | nil => exact absurd rfl hne
    | cons _ _ => simp

theorem tokOf_enc (p : Bytes) : (tokOf p).enc = pushData p := by
  unfold tokOf pushData
  split
  · next h => subst h; simp [Tok.enc, pushPrefix]
  · simp [Tok.enc]

private theorem u8n' {n : Nat} (h : n < 256) : (UInt8.ofNat n).toNat = n := by
  simp [UInt8.toNat_ofNat', Nat.mod_eq_of_lt h]

/-- the length the part walk of ParseInscription advances by, for an encoded element -/
theorem walk_step (t : Tok) (ht : t.ok) (e : Bytes) (he : t.enc = some e) :
    ∃ b r, e = b :: r ∧
      (if b == opPUSHDATA1 then 2 + t.part.length
       else if b == opPUSHDATA2 then 3 + t.part.length
       else if b == opPUSHDATA4 then 5 + t.part.length
       else if 0x01 ≤ b.toNat && b.toNat ≤ 0x4b then 1 + t.part.length
       else 1) = e.length ∧
      ((b == 0x00) = (match t with | .op c => c == 0x00 | .push _ => false)) := by
  cases t with
  | op c =>
    simp only [Tok.enc, Option.some.injEq] at he
    subst he
    simp only [Tok.ok, not_and, Nat.not_le] at ht
    refine ⟨c, [], rfl, ?_, rfl⟩
    have h1 : (c == opPUSHDATA1) = false := by
      apply beq_false_of_ne; intro e; subst e; simp [opPUSHDATA1] at ht
    have h2 : (c == opPUSHDATA2) = false := by
      apply beq_false_of_ne; intro e; subst e; simp [opPUSHDATA2] at ht
    have h3 : (c == opPUSHDATA4) = false := by
      apply beq_false_of_ne; intro e; subst e; simp [opPUSHDATA4] at ht
    have h4 : (decide (1 ≤ c.toNat) && decide (c.toNat ≤ 75)) = false := by
      rcases Nat.lt_or_ge c.toNat 1 with a | a
      · simp; omega
      · have := ht a; simp; omega
    simp [h1, h2, h3, h4, Tok.part]
  | push p =>
    obtain ⟨hp1, hp2⟩ := ht
    simp only [Tok.enc, Option.map_eq_some_iff] at he
    obtain ⟨pre, hpre, hee⟩ := he
    subst hee
    unfold pushPrefix at hpre
    simp only [Tok.part]
    by_cases c1 : p.length ≤ 75
    · simp only [c1, ↓reduceIte, Option.some.injEq] at hpre
      subst hpre
      have hn : (UInt8.ofNat p.length).toNat = p.length := u8n' (by omega)
      generalize UInt8.ofNat p.length = b at hn
      refine ⟨b, p, rfl, ?_, ?_⟩
      · have e1 : (b == opPUSHDATA1) = false := by
          apply beq_false_of_ne; intro e; subst e; simp [opPUSHDATA1] at hn; omega
        have e2 : (b == opPUSHDATA2) = false := by
          apply beq_false_of_ne; intro e; subst e; simp [opPUSHDATA2] at hn; omega
        have e3 : (b == opPUSHDATA4) = false := by
          apply beq_false_of_ne; intro e; subst e; simp [opPUSHDATA4] at hn; omega
        have e4 : (decide (1 ≤ b.toNat) && decide (b.toNat ≤ 75)) = true := by
          rw [hn]; simp; omega
        simp only [e1, e2, e3, e4, Bool.false_eq_true, ↓reduceIte, List.length_append, List.length_cons, List.length_nil]
      · apply beq_false_of_ne; intro e; subst e; simp at hn; omega
    · by_cases c2 : p.length ≤ 0xFF
      · simp only [c1, c2, ↓reduceIte, Option.some.injEq] at hpre
        subst hpre
        refine ⟨opPUSHDATA1, UInt8.ofNat p.length :: p, rfl, ?_, by decide⟩
        simp; omega
      · by_cases c3 : p.length ≤ 0xFFFF
        · simp only [c1, c2, c3, ↓reduceIte, Option.some.injEq] at hpre
          subst hpre
          refine ⟨opPUSHDATA2, leEnc 2 p.length ++ p, rfl, ?_, by decide⟩
          have : (opPUSHDATA2 == opPUSHDATA1) = false := by decide
          simp [this]; omega
        · have c4 : p.length ≤ 0xFFFFFFFF := by
            have : (2:Nat) ^ 32 = 4294967296 := by decide
            omega
          simp only [c1, c2, c3, c4, ↓reduceIte, Option.some.injEq] at hpre
          subst hpre
          refine ⟨opPUSHDATA4, leEnc 4 p.length ++ p, rfl, ?_, by decide⟩
          have a1 : (opPUSHDATA4 == opPUSHDATA1) = false := by decide
          have a2 : (opPUSHDATA4 == opPUSHDATA2) = false := by decide
          simp [a1, a2]; omega

def isOp0 : Tok → Bool
  | .op c => c == 0x00
  | .push _ => false

/-- the flags the walk computes over a token list starting at part index `i` -/
def zf : Nat → List Tok → Bool × Bool → Bool × Bool
  | _, [], z => z
  | i, t :: ts, (z9, z11) => zf (i + 1) ts (z9 || (isOp0 t && i == 9), z11 || (isOp0 t && i == 11))

/-- one step of the walk, when both accesses are in range -/
theorem inscZeroFlags_step (s : Bytes) (parts : List Bytes) (fuel i off : Nat) (z9 z11 : Bool) (b : UInt8) (p : Bytes)
    (hi : i ≤ 11) (hoff : off < s.length) (hs : s[off]? = some b) (hp : parts[i]? = some p) :
    inscZeroFlags s parts (fuel + 1) i off z9 z11 =
      inscZeroFlags s parts fuel (i + 1)
        (off + (if b == opPUSHDATA1 then 2 + p.length
          else if b == opPUSHDATA2 then 3 + p.length
          else if b == opPUSHDATA4 then 5 + p.length
          else if 0x01 ≤ b.toNat && b.toNat ≤ 0x4b then 1 + p.length
          else 1))
        (z9 || (b == 0x00 && i == 9)) (z11 || (b == 0x00 && i == 11)) := by
  rw [inscZeroFlags]
  have hcond : (decide (i > 11) || decide (off ≥ s.length)) = false := by simp; omega
  simp only [hcond, Bool.false_eq_true, ↓reduceIte, hs, hp, bind, Option.bind]

/-- the part walk of ParseInscription, run next to the bytes of an encoded element list, visits the first byte of
    every element -/
theorem walk_toks (s : Bytes) (parts : List Bytes) (ts : List Tok) :
    ∀ (done : Bytes) (pdone : List Bytes) (enc tail : Bytes) (ptail : List Bytes) (k : Nat) (z9 z11 : Bool),
      (∀ t ∈ ts, t.ok) → encToks ts = some enc → s = done ++ (enc ++ tail) →
      parts = pdone ++ (ts.map Tok.part ++ ptail) → pdone.length + ts.length ≤ 12 →
      inscZeroFlags s parts (ts.length + k) pdone.length done.length z9 z11 =
        inscZeroFlags s parts k (pdone.length + ts.length) (done.length + enc.length)
          (zf pdone.length ts (z9, z11)).1 (zf pdone.length ts (z9, z11)).2 := by
  induction ts with
  | nil =>
    intro done pdone enc tail ptail k z9 z11 _ he _ _ _
    simp only [encToks, Option.some.injEq] at he
    subst he
    simp [zf]
  | cons t ts ih =>
    intro done pdone enc tail ptail k z9 z11 hok he hs hp hlen
    simp only [encToks, bind, Option.bind] at he
    cases hte : t.enc with
    | none => rw [hte] at he; cases he
    | some e =>
      rw [hte] at he
      simp only at he
      cases hrest : encToks ts with
      | none => rw [hrest] at he; cases he
      | some enc' =>
        rw [hrest] at he
        simp only [pure, Option.some.injEq] at he
        subst he
        obtain ⟨b, r, hbr, hstep, hzero⟩ := walk_step t (hok t (by simp)) e hte
        subst hbr
        simp only [List.length_cons] at hlen
        have hfuel : (t :: ts).length + k = (ts.length + k) + 1 := by simp; omega
        rw [hfuel]
        have hsget : s[done.length]? = some b := by
          rw [hs]; simp
        have hpget : parts[pdone.length]? = some t.part := by
          rw [hp]; simp
        rw [inscZeroFlags_step s parts (ts.length + k) pdone.length done.length z9 z11 b t.part (by omega)
          (by rw [hs]; simp) hsget hpget]
        have := ih (done ++ b :: r) (pdone ++ [t.part]) enc' tail ptail k
          (z9 || (b == 0x00 && pdone.length == 9)) (z11 || (b == 0x00 && pdone.length == 11))
          (fun x hx => hok x (by simp [hx])) hrest (by rw [hs]; simp) (by rw [hp]; simp) (by simp; omega)
        simp only [List.length_append, List.length_cons, List.length_nil, Nat.zero_add] at this
        rw [hstep]
        simp only [List.length_cons] at this ⊢
        rw [this]
        have hz : (b == 0x00) = isOp0 t := by
          rw [hzero]; cases t <;> rfl
        simp only [zf, hz, List.length_append, List.length_cons]
        have e1 : pdone.length + 1 + ts.length = pdone.length + (ts.length + 1) := by omega
        have e2 : done.length + (r.length + 1) + enc'.length = done.length + (r.length + 1 + enc'.length) := by omega
        rw [e1, e2]

def p2pkh (h : Bytes) : Bytes := [0x76, 0xa9, 0x14] ++ h ++ [0x88, 0xac]

def ordBytes : Bytes := [0x6f, 0x72, 0x64]

/-- the elements Tx.Inscribe writes after (and including) a P2PKH prefix, except the closing OP_ENDIF -/
def inscToks (h ct data : Bytes) : List Tok :=
  [.op 0x76, .op 0xa9, .push h, .op 0x88, .op 0xac, .op 0x00, .op 0x63, .push ordBytes, .op 0x51, tokOf ct,
   .op 0x00, tokOf data]

theorem inscToks_ok (h ct data : Bytes) (hh : h.length = 20) (hct : ct.length < 2 ^ 32) (hd : data.length < 2 ^ 32) :
    ∀ t ∈ inscToks h ct data ++ [Tok.op 0x68], t.ok := by
  intro t ht
  simp only [inscToks, List.cons_append, List.nil_append, List.mem_cons, List.not_mem_nil, or_false] at ht
  rcases ht with e | e | e | e | e | e | e | e | e | e | e | e | e <;> subst e
  all_goals first
    | exact tokOf_ok _ hct
    | exact tokOf_ok _ hd
    | (simp [Tok.ok, hh, ordBytes]; done)
    | (simp only [Tok.ok]; decide)

/-- **Inscription round trip.**  For every 20-byte key hash, content type and payload (each below 2^32 bytes):
    the locking script Tx.Inscribe builds on a P2PKH prefix parses back, with ParseInscription, to exactly that prefix,
    content type and payload — empty content types and payloads included. -/
theorem inscription_round_trip (h ct data : Bytes) (hh : h.length = 20) (hct : ct.length < 2 ^ 32)
    (hd : data.length < 2 ^ 32) :
    ∃ s, inscriptionScript (p2pkh h) ct data = some s ∧
      parseInscription s = some (.ok (p2pkh h) ct data) := by
  have hok := inscToks_ok h ct data hh hct hd
  obtain ⟨enc, henc, hdec⟩ := decode_toks (inscToks h ct data ++ [Tok.op 0x68]) hok
  obtain ⟨enc12, henc12, _⟩ := decode_toks (inscToks h ct data) (fun t ht => hok t (by simp [ht]))
  -- the encodings of the two variable elements
  obtain ⟨ec, hec⟩ : ∃ e, pushData ct = some e := by
    have := tokOf_ok ct hct
    obtain ⟨e, he, _⟩ := decodeStep_tok (tokOf ct) this []
    exact ⟨e, by rw [← tokOf_enc]; exact he⟩
  obtain ⟨ed, hed⟩ : ∃ e, pushData data = some e := by
    have := tokOf_ok data hd
    obtain ⟨e, he, _⟩ := decodeStep_tok (tokOf data) this []
    exact ⟨e, by rw [← tokOf_enc]; exact he⟩
  have hpre20 : pushPrefix h.length = some [0x14] := by rw [hh]; decide
  have hpre3 : pushPrefix ordBytes.length = some [0x03] := by decide
  have henc12' : encToks (inscToks h ct data) =
      some (p2pkh h ++ [0x00, 0x63] ++ ([0x03] ++ ordBytes) ++ [0x51] ++ ec ++ [0x00] ++ ed) := by
    simp only [inscToks, encToks, tokOf_enc, hec, hed, bind, Option.bind, pure]
    simp only [Tok.enc, hpre20, hpre3, Option.map_some]
    simp [p2pkh]
  have e12 : enc12 = p2pkh h ++ [0x00, 0x63] ++ ([0x03] ++ ordBytes) ++ [0x51] ++ ec ++ [0x00] ++ ed := by
    rw [henc12'] at henc12; exact (Option.some.inj henc12).symm
  have eAll : enc = enc12 ++ [0x68] := by
    have : encToks (inscToks h ct data ++ [Tok.op 0x68]) = some (enc12 ++ [0x68]) := by
      rw [e12]
      simp only [inscToks, List.cons_append, List.nil_append, encToks, tokOf_enc, hec, hed, bind, Option.bind, pure]
      simp only [Tok.enc, hpre20, hpre3, Option.map_some]
      simp [p2pkh]
    rw [this] at henc
    exact (Option.some.inj henc).symm
  have hscript : inscriptionScript (p2pkh h) ct data = some enc := by
    have hpre3' : pushPrefix ([0x6f, 0x72, 0x64] : Bytes).length = some [0x03] := by decide
    simp only [inscriptionScript, pushData, hpre3', Option.map_some, bind, Option.bind, pure]
    have hc' := hec; have hd' := hed
    simp only [pushData] at hc' hd'
    rw [hc', hd', eAll, e12]
    simp [ordBytes]
  refine ⟨enc, hscript, ?_⟩
  -- decoding
  have hparts : decodeParts enc = ((inscToks h ct data ++ [Tok.op 0x68]).map Tok.part, true) := hdec enc.length (Nat.le_refl _)
  unfold parseInscription
  rw [hparts]
  have hhelper : isP2PKHInscriptionParts ((inscToks h ct data ++ [Tok.op 0x68]).map Tok.part) = some true := by
    simp [inscToks, Tok.part, isP2PKHInscriptionParts, inscRequired, ordBytes, opDUP, opHASH160, opEQUALVERIFY, opCHECKSIG,
      opIF, opTRUE, opENDIFc, hh, bind, Option.bind]
  have hlen25 : ¬ enc.length < 25 := by rw [eAll, e12]; simp [p2pkh, hh]; omega
  have htake : enc.take 25 = p2pkh h := by
    rw [eAll, e12]
    simp only [List.append_assoc]
    rw [List.take_append_of_le_length (by simp [p2pkh, hh])]
    exact List.take_of_length_le (by simp [p2pkh, hh])
  have hwalk := walk_toks enc ((inscToks h ct data ++ [Tok.op 0x68]).map Tok.part) (inscToks h ct data) [] [] enc12 [0x68]
    [[0x68]] 0 false false (fun t ht => hok t (by simp [ht])) henc12 (by simp [eAll])
    (by simp [Tok.part]) (by simp [inscToks])
  have hl12 : (inscToks h ct data).length = 12 := by simp [inscToks]
  simp only [List.length_nil, Nat.zero_add, hl12, Nat.add_zero] at hwalk
  have hz : zf 0 (inscToks h ct data) (false, false) = (isOp0 (tokOf ct), isOp0 (tokOf data)) := by
    simp [zf, inscToks, isOp0]
  have h9 : ((inscToks h ct data ++ [Tok.op 0x68]).map Tok.part)[9]? = some (tokOf ct).part := by simp [inscToks]
  have h11 : ((inscToks h ct data ++ [Tok.op 0x68]).map Tok.part)[11]? = some (tokOf data).part := by simp [inscToks]
  have hfin : inscZeroFlags enc ((inscToks h ct data ++ [Tok.op 0x68]).map Tok.part) 12 0 0 false false =
      some (isOp0 (tokOf ct), isOp0 (tokOf data)) := by
    rw [hwalk, hz]; rfl
  simp only [Bool.not_true, Bool.false_eq_true, ↓reduceIte, hhelper, bind, Option.bind, pure, hlen25, h9, h11, hfin, htake]
  -- the flags undo the OP_0 ambiguity
  have fix : ∀ p : Bytes, (if isOp0 (tokOf p) = true then [] else (tokOf p).part) = p := by
    intro p
    unfold tokOf
    by_cases e : p = []
    · simp [e, isOp0]
    · simp [e, isOp0, Tok.part]
  rw [fix ct, fix data]

end GoBT.C20
