/-
  tx.go / input.go / output.go: the transaction structures, the single serialiser
  (`toBytesHelper`, `Input.Bytes`, `Output.Bytes`) and the decoder (`Tx.ReadFrom`,
  `Input.readFrom`, `Output.ReadFrom`, `NewTxFromBytes`, `NewTxFromStream`,
  `Txs.ReadFrom`, `Tx.Clone`) with Go's byte accounting.  Core Lean only.
-/
import GoBT.Basic.VarInt
namespace GoBT

/-- bt.Input.  `prevTxID` is the stored (display-order) id; the wire carries it reversed.
    `none` scripts are Go nil pointers. -/
structure Input where
  prevTxID : Bytes
  vout : Nat
  unlocking : Option Bytes
  sequence : Nat
  prevSats : Nat := 0
  prevScript : Option Bytes := none
  deriving Repr, DecidableEq, Inhabited

/-- bt.Output -/
structure Output where
  sats : Nat
  script : Bytes
  deriving Repr, DecidableEq, Inhabited

/-- bt.Tx -/
structure Tx where
  version : Nat
  inputs : List Input
  outputs : List Output
  lockTime : Nat
  deriving Repr, DecidableEq, Inhabited

inductive Fmt | std | ext
  deriving Repr, DecidableEq, Inhabited

def Fmt.isExt : Fmt → Bool
  | .std => false
  | .ext => true

/-! ### serialisation -/

def optLen (s : Option Bytes) : Nat := (s.getD []).length

/-- a script behind a possibly-nil pointer: nil is written as a zero length. -/
def serOptScript (s : Option Bytes) : Bytes :=
  match s with
  | none => [0x00]
  | some b => varintEnc b.length ++ b

/-- Input.Bytes(false) -/
def serInput (i : Input) : Bytes :=
  i.prevTxID.reverse ++ leEnc 4 i.vout ++ serOptScript i.unlocking ++ leEnc 4 i.sequence

/-- the extended-format tail of one input in toBytesHelper -/
def serInputExtTail (i : Input) : Bytes :=
  leEnc 8 i.prevSats ++ serOptScript i.prevScript

def serInputF (ext : Bool) (i : Input) : Bytes :=
  if ext then serInput i ++ serInputExtTail i else serInput i

/-- Output.Bytes -/
def serOutput (o : Output) : Bytes :=
  leEnc 8 o.sats ++ varintEnc o.script.length ++ o.script

def serInputs (ext : Bool) (is : List Input) : Bytes := is.flatMap (serInputF ext)
def serOutputs (os : List Output) : Bytes := os.flatMap serOutput

def extMarker : Bytes := [0x00, 0x00, 0x00, 0x00, 0x00, 0xEF]

/-- Tx.toBytesHelper(0, nil, ext) = Tx.Bytes / Tx.ExtendedBytes -/
def serialize (ext : Bool) (tx : Tx) : Bytes :=
  leEnc 4 tx.version ++ (if ext then extMarker else []) ++
  varintEnc tx.inputs.length ++ serInputs ext tx.inputs ++
  varintEnc tx.outputs.length ++ serOutputs tx.outputs ++
  leEnc 4 tx.lockTime

/-! ### decoding -/

/-- Input.readFrom.  The Bool is the ghost "all varints minimal". -/
def readInput (ext : Bool) (bs : Bytes) : Rd (Input × Bool) :=
  Rd.andThen bs (readN 32 bs) fun txid r1 =>
  Rd.andThen r1 (readN 4 r1) fun vout r2 =>
  Rd.andThen r2 (varintRead r2) fun (l, m1) r3 =>
  Rd.andThen r3 (readN l r3) fun script r4 =>
  Rd.andThen r4 (readN 4 r4) fun seq r5 =>
  if ext then
    Rd.andThen r5 (readN 8 r5) fun sats r6 =>
    Rd.andThen r6 (varintRead r6) fun (l2, m2) r7 =>
    Rd.andThen r7 (readN l2 r7) fun pscript r8 =>
    .ok ({ prevTxID := txid.reverse, vout := leDec vout, unlocking := some script,
           sequence := leDec seq, prevSats := leDec sats, prevScript := some pscript }, m1 && m2) r8
  else
    .ok ({ prevTxID := txid.reverse, vout := leDec vout, unlocking := some script,
           sequence := leDec seq, prevSats := 0, prevScript := none }, m1) r5

/-- Output.ReadFrom -/
def readOutput (bs : Bytes) : Rd (Output × Bool) :=
  Rd.andThen bs (readN 8 bs) fun sats r1 =>
  Rd.andThen r1 (varintRead r1) fun (l, m) r2 =>
  Rd.andThen r2 (readN l r2) fun script r3 =>
  .ok ({ sats := leDec sats, script := script }, m) r3

def readInputs (ext : Bool) : Nat → Bytes → Rd (List Input × Bool)
  | 0, bs => .ok ([], true) bs
  | n + 1, bs =>
    Rd.andThen bs (readInput ext bs) fun (i, m) r1 =>
    Rd.andThen r1 (readInputs ext n r1) fun (is, ms) r2 =>
    .ok (i :: is, m && ms) r2

def readOutputs : Nat → Bytes → Rd (List Output × Bool)
  | 0, bs => .ok ([], true) bs
  | n + 1, bs =>
    Rd.andThen bs (readOutput bs) fun (o, m) r1 =>
    Rd.andThen r1 (readOutputs n r1) fun (os, ms) r2 =>
    .ok (o :: os, m && ms) r2

structure Parsed where
  tx : Tx
  fmt : Fmt
  minimal : Bool
  deriving Repr, DecidableEq

/-- the common tail of Tx.ReadFrom once the format and the input count are known:
    inputs, (re-read) output count, outputs, locktime. -/
def readBody (version : Nat) (ext : Bool) (nIn : Nat) (m0 : Bool) (bs : Bytes) : Rd Parsed :=
  Rd.andThen bs (readInputs ext nIn bs) fun (ins, m1) r1 =>
  Rd.andThen r1 (varintRead r1) fun (nOut, m2) r2 =>
  Rd.andThen r2 (readOutputs nOut r2) fun (outs, m3) r3 =>
  Rd.andThen r3 (readN 4 r3) fun lt r4 =>
  .ok { tx := { version := version, inputs := ins, outputs := outs, lockTime := leDec lt },
        fmt := if ext then .ext else .std, minimal := m0 && m1 && m2 && m3 } r4

/-- Tx.ReadFrom, including the extended-format detection by reading ahead. -/
def parse (bs : Bytes) : Rd Parsed :=
  Rd.andThen bs (readN 4 bs) fun ver r1 =>
  Rd.andThen r1 (varintRead r1) fun (nIn, m1) r2 =>
  if nIn = 0 then
    Rd.andThen r2 (varintRead r2) fun (nOut, m2) r3 =>
    if nOut = 0 then
      Rd.andThen r3 (readN 4 r3) fun lt r4 =>
      if beDec lt ≠ 0xEF then
        .ok { tx := { version := leDec ver, inputs := [], outputs := [], lockTime := leDec lt },
              fmt := .std, minimal := m1 && m2 } r4
      else
        Rd.andThen r4 (varintRead r4) fun (nIn', m3) r5 =>
        readBody (leDec ver) true nIn' (m1 && m2 && m3) r5
    else
      -- no inputs, some outputs: the count just read is the output count
      Rd.andThen r3 (readOutputs nOut r3) fun (outs, m3) r4 =>
      Rd.andThen r4 (readN 4 r4) fun lt r5 =>
      .ok { tx := { version := leDec ver, inputs := [], outputs := outs, lockTime := leDec lt },
            fmt := .std, minimal := m1 && m2 && m3 } r5
  else
    readBody (leDec ver) false nIn m1 r2

/-- bytes consumed by a successful read -/
def consumed (bs rest : Bytes) : Nat := bs.length - rest.length

/-- NewTxFromStream: the transaction and the bytes used -/
def parseStream (bs : Bytes) : Except Nat (Parsed × Nat) :=
  match parse bs with
  | .ok p rest => .ok (p, consumed bs rest)
  | .err n => .error n

/-- NewTxFromBytes: exactly one transaction, no trailing bytes -/
def parseExact (bs : Bytes) : Option Parsed :=
  match parse bs with
  | .ok p [] => some p
  | _ => none

def readTxs : Nat → Bytes → Rd (List Parsed)
  | 0, bs => .ok [] bs
  | n + 1, bs =>
    Rd.andThen bs (parse bs) fun p r1 =>
    Rd.andThen r1 (readTxs n r1) fun ps r2 =>
    .ok (p :: ps) r2

/-- Txs.ReadFrom: a varint count followed by that many transactions -/
def parseTxs (bs : Bytes) : Rd (List Parsed) :=
  Rd.andThen bs (varintRead bs) fun (n, _) r1 => readTxs n r1

/-! ### well-formedness (Go's field types) and normal forms -/

def Input.wf (i : Input) : Prop :=
  i.prevTxID.length = 32 ∧ i.vout < 2 ^ 32 ∧ i.sequence < 2 ^ 32 ∧ i.prevSats < 2 ^ 64 ∧
  optLen i.unlocking < 2 ^ 64 ∧ optLen i.prevScript < 2 ^ 64

def Output.wf (o : Output) : Prop := o.sats < 2 ^ 64 ∧ o.script.length < 2 ^ 64

def Tx.wf (tx : Tx) : Prop :=
  tx.version < 2 ^ 32 ∧ tx.lockTime < 2 ^ 32 ∧ tx.inputs.length < 2 ^ 64 ∧
  tx.outputs.length < 2 ^ 64 ∧ (∀ i ∈ tx.inputs, i.wf) ∧ (∀ o ∈ tx.outputs, o.wf)

instance (i : Input) : Decidable i.wf := by unfold Input.wf; infer_instance
instance (o : Output) : Decidable o.wf := by unfold Output.wf; infer_instance
instance (tx : Tx) : Decidable tx.wf := by unfold Tx.wf; infer_instance

/-- what a standard-format round trip keeps of an input -/
def Input.normStd (i : Input) : Input :=
  { i with unlocking := some (i.unlocking.getD []), prevSats := 0, prevScript := none }

/-- what an extended-format round trip keeps of an input -/
def Input.normExt (i : Input) : Input :=
  { i with unlocking := some (i.unlocking.getD []), prevScript := some (i.prevScript.getD []) }

def Input.norm (ext : Bool) (i : Input) : Input := if ext then i.normExt else i.normStd

def Tx.norm (ext : Bool) (tx : Tx) : Tx := { tx with inputs := tx.inputs.map (Input.norm ext) }

/-- the one shape the extended marker makes ambiguous -/
def Tx.ambiguous (tx : Tx) : Prop :=
  tx.inputs = [] ∧ tx.outputs = [] ∧ beDec (leEnc 4 tx.lockTime) = 0xEF

instance (tx : Tx) : Decidable tx.ambiguous := by unfold Tx.ambiguous; infer_instance

/-- Tx.Clone: re-parse the standard serialisation, then copy the previous-output fields.
    `none` models the `log.Fatal` branch. -/
def clone (tx : Tx) : Option Tx :=
  match parseExact (serialize false tx) with
  | none => none
  | some p =>
    if p.tx.inputs.length = tx.inputs.length then
      let ins := List.zipWith
        (fun (c o : Input) => { c with prevSats := o.prevSats, prevScript := o.prevScript })
        p.tx.inputs tx.inputs
      some { p.tx with inputs := ins }
    else none

end GoBT
