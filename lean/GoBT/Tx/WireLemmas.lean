/-
  Helper lemmas about the wire model (GoBT.Tx.Wire).  Property statements live in
  GoBT/Props/C01.lean and GoBT/Props/C09.lean.
-/
import GoBT.Tx.Wire
namespace GoBT

/-! ### the sequencing combinator -/


theorem Rd.andThen_eq_ok {α β : Type} {bs : Bytes} {r : Rd α} {f : α → Bytes → Rd β} {b : β} {r' : Bytes} :
    Rd.andThen bs r f = .ok b r' ↔ ∃ a rest, r = .ok a rest ∧ f a rest = .ok b r' := by
  unfold Rd.andThen
  constructor
  · intro h
    split at h
    · cases h
    · next a rest =>
      split at h
      · next b' r'' hf =>
        simp only [Rd.ok.injEq] at h
        obtain ⟨h1, h2⟩ := h; subst h1 h2
        exact ⟨a, rest, rfl, hf⟩
      · cases h
  · rintro ⟨a, rest, hr, hf⟩
    subst hr
    simp [hf]

theorem Rd.andThen_ok {α β : Type} {bs : Bytes} {r : Rd α} {f : α → Bytes → Rd β} {a : α} {rest : Bytes}
    (hr : r = .ok a rest) : Rd.andThen bs r f =
      (match f a rest with | .ok b r' => .ok b r' | .err m => .err (bs.length - rest.length + m)) := by
  subst hr; rfl

theorem Rd.andThen_ok_ok {α β : Type} {bs : Bytes} {r : Rd α} {f : α → Bytes → Rd β} {a : α} {rest : Bytes}
    {b : β} {r' : Bytes} (hr : r = .ok a rest) (hf : f a rest = .ok b r') :
    Rd.andThen bs r f = .ok b r' := by
  rw [Rd.andThen_ok hr, hf]

/-- one successful read step: rewrite and reduce the pattern-matching continuation -/
macro "rd_step " h:term : tactic => `(tactic| (rw [Rd.andThen_ok_ok $h]; try dsimp only))

/-- a reader is *sound* when successes consume a prefix and errors report no more than supplied -/
def Rd.Sound {α : Type} (bs : Bytes) (r : Rd α) : Prop :=
  match r with
  | .ok _ rest => ∃ pre, bs = pre ++ rest
  | .err n => n ≤ bs.length

theorem Rd.andThen_sound {α β : Type} {bs : Bytes} {r : Rd α} {f : α → Bytes → Rd β}
    (hr : Rd.Sound bs r) (hf : ∀ a rest, r = .ok a rest → Rd.Sound rest (f a rest)) :
    Rd.Sound bs (Rd.andThen bs r f) := by
  unfold Rd.andThen
  split
  · exact hr
  · next a rest =>
    have h1 := hf a rest rfl
    obtain ⟨pre, hpre⟩ := hr
    split
    · next b r' hfa =>
      rw [hfa] at h1
      obtain ⟨pre2, hpre2⟩ := h1
      exact ⟨pre ++ pre2, by rw [hpre, hpre2, List.append_assoc]⟩
    · next m hfa =>
      rw [hfa] at h1
      have h1' : m ≤ rest.length := h1
      show bs.length - rest.length + m ≤ bs.length
      rw [hpre]; simp; omega

theorem readN_sound (k : Nat) (bs : Bytes) : Rd.Sound bs (readN k bs) := by
  unfold Rd.Sound
  split
  · next a rest h => exact ⟨a, (readN_ok h).1⟩
  · next n h => exact readN_err h

theorem varintRead_sound (bs : Bytes) : Rd.Sound bs (varintRead bs) := by
  unfold Rd.Sound
  split
  · next a rest h =>
    obtain ⟨n, m⟩ := a
    obtain ⟨_, pre, hp, _⟩ := varintRead_ok h
    exact ⟨pre, hp⟩
  · next n h => exact varintRead_err h

theorem ok_sound {α : Type} (bs : Bytes) (a : α) : Rd.Sound bs (Rd.ok a bs) := ⟨[], rfl⟩

theorem readInput_sound (ext : Bool) (bs : Bytes) : Rd.Sound bs (readInput ext bs) := by
  unfold readInput
  refine Rd.andThen_sound (readN_sound _ _) fun _ r1 _ => ?_
  refine Rd.andThen_sound (readN_sound _ _) fun _ r2 _ => ?_
  refine Rd.andThen_sound (varintRead_sound _) fun a r3 _ => ?_
  refine Rd.andThen_sound (readN_sound _ _) fun _ r4 _ => ?_
  refine Rd.andThen_sound (readN_sound _ _) fun _ r5 _ => ?_
  split
  · refine Rd.andThen_sound (readN_sound _ _) fun _ r6 _ => ?_
    refine Rd.andThen_sound (varintRead_sound _) fun a r7 _ => ?_
    refine Rd.andThen_sound (readN_sound _ _) fun _ r8 _ => ?_
    exact ok_sound _ _
  · exact ok_sound _ _

theorem readOutput_sound (bs : Bytes) : Rd.Sound bs (readOutput bs) := by
  unfold readOutput
  refine Rd.andThen_sound (readN_sound _ _) fun _ r1 _ => ?_
  refine Rd.andThen_sound (varintRead_sound _) fun a r2 _ => ?_
  refine Rd.andThen_sound (readN_sound _ _) fun _ r3 _ => ?_
  exact ok_sound _ _

theorem readInputs_sound (ext : Bool) (n : Nat) (bs : Bytes) : Rd.Sound bs (readInputs ext n bs) := by
  induction n generalizing bs with
  | zero => exact ok_sound _ _
  | succ n ih =>
    unfold readInputs
    refine Rd.andThen_sound (readInput_sound _ _) fun _ r1 _ => ?_
    refine Rd.andThen_sound (ih _) fun _ r2 _ => ?_
    exact ok_sound _ _

theorem readOutputs_sound (n : Nat) (bs : Bytes) : Rd.Sound bs (readOutputs n bs) := by
  induction n generalizing bs with
  | zero => exact ok_sound _ _
  | succ n ih =>
    unfold readOutputs
    refine Rd.andThen_sound (readOutput_sound _) fun _ r1 _ => ?_
    refine Rd.andThen_sound (ih _) fun _ r2 _ => ?_
    exact ok_sound _ _

theorem readBody_sound (v : Nat) (ext : Bool) (n : Nat) (m : Bool) (bs : Bytes) :
    Rd.Sound bs (readBody v ext n m bs) := by
  unfold readBody
  refine Rd.andThen_sound (readInputs_sound _ _ _) fun _ r1 _ => ?_
  refine Rd.andThen_sound (varintRead_sound _) fun _ r2 _ => ?_
  refine Rd.andThen_sound (readOutputs_sound _ _) fun _ r3 _ => ?_
  refine Rd.andThen_sound (readN_sound _ _) fun _ r4 _ => ?_
  exact ok_sound _ _

theorem parse_sound (bs : Bytes) : Rd.Sound bs (parse bs) := by
  unfold parse
  refine Rd.andThen_sound (readN_sound _ _) fun _ r1 _ => ?_
  refine Rd.andThen_sound (varintRead_sound _) fun a r2 _ => ?_
  obtain ⟨nIn, m1⟩ := a
  dsimp only
  split
  · refine Rd.andThen_sound (varintRead_sound _) fun a r3 _ => ?_
    obtain ⟨nOut, m2⟩ := a
    dsimp only
    split
    · refine Rd.andThen_sound (readN_sound _ _) fun _ r4 _ => ?_
      split
      · exact ok_sound _ _
      · refine Rd.andThen_sound (varintRead_sound _) fun a r5 _ => ?_
        exact readBody_sound _ _ _ _ _
    · refine Rd.andThen_sound (readOutputs_sound _ _) fun _ r4 _ => ?_
      refine Rd.andThen_sound (readN_sound _ _) fun _ r5 _ => ?_
      exact ok_sound _ _
  · exact readBody_sound _ _ _ _ _

theorem readTxs_sound (n : Nat) (bs : Bytes) : Rd.Sound bs (readTxs n bs) := by
  induction n generalizing bs with
  | zero => exact ok_sound _ _
  | succ n ih =>
    unfold readTxs
    refine Rd.andThen_sound (parse_sound _) fun _ r1 _ => ?_
    refine Rd.andThen_sound (ih _) fun _ r2 _ => ?_
    exact ok_sound _ _

theorem parseTxs_sound (bs : Bytes) : Rd.Sound bs (parseTxs bs) := by
  unfold parseTxs
  exact Rd.andThen_sound (varintRead_sound _) fun _ r1 _ => readTxs_sound _ _

/-! ### serialise-then-read, component by component -/

theorem serOptScript_getD (s : Option Bytes) : serOptScript s = varintEnc (optLen s) ++ s.getD [] := by
  cases s with
  | none => rfl
  | some b => rfl

theorem readInput_ser (ext : Bool) (i : Input) (h : i.wf) (rest : Bytes) :
    readInput ext (serInputF ext i ++ rest) = .ok (i.norm ext, true) rest := by
  obtain ⟨h32, hv, hs, hp, hu, hps⟩ := h
  have e1 : leDec (leEnc 4 i.vout) = i.vout := leDec_leEnc_of_lt (by simpa using hv)
  have e2 : leDec (leEnc 4 i.sequence) = i.sequence := leDec_leEnc_of_lt (by simpa using hs)
  have e3 : leDec (leEnc 8 i.prevSats) = i.prevSats := leDec_leEnc_of_lt (by simpa using hp)
  cases ext with
  | false =>
    simp only [serInputF, serInput, serOptScript_getD, List.append_assoc, Bool.false_eq_true, ↓reduceIte]
    unfold readInput
    rd_step (readN_append _ _ (by simp [h32]))
    rd_step (readN_append _ _ (by simp))
    rd_step (varintRead_enc _ hu _)
    rd_step (readN_append _ _ (by simp [optLen]))
    rd_step (readN_append _ _ (by simp))
    simp [Input.norm, Input.normStd, e1, e2]
  | true =>
    simp only [serInputF, serInput, serInputExtTail, serOptScript_getD, List.append_assoc, ↓reduceIte]
    unfold readInput
    rd_step (readN_append _ _ (by simp [h32]))
    rd_step (readN_append _ _ (by simp))
    rd_step (varintRead_enc _ hu _)
    rd_step (readN_append _ _ (by simp [optLen]))
    rd_step (readN_append _ _ (by simp))
    simp only [↓reduceIte]
    rd_step (readN_append _ _ (by simp))
    rd_step (varintRead_enc _ hps _)
    rd_step (readN_append _ _ (by simp [optLen]))
    simp [Input.norm, Input.normExt, e1, e2, e3]

theorem readOutput_ser (o : Output) (h : o.wf) (rest : Bytes) :
    readOutput (serOutput o ++ rest) = .ok (o, true) rest := by
  obtain ⟨hs, hl⟩ := h
  have e1 : leDec (leEnc 8 o.sats) = o.sats := leDec_leEnc_of_lt (by simpa using hs)
  simp only [serOutput, List.append_assoc]
  unfold readOutput
  rd_step (readN_append _ _ (by simp))
  rd_step (varintRead_enc _ hl _)
  rd_step (readN_append _ _ rfl)
  simp [e1]

theorem readInputs_ser (ext : Bool) (is : List Input) (h : ∀ i ∈ is, i.wf) (rest : Bytes) :
    readInputs ext is.length (serInputs ext is ++ rest) = .ok (is.map (Input.norm ext), true) rest := by
  induction is with
  | nil => simp [readInputs, serInputs]
  | cons i is ih =>
    simp only [serInputs, List.flatMap_cons, List.append_assoc, List.length_cons]
    unfold readInputs
    rd_step (readInput_ser ext i (h i (by simp)) _)
    have ih' := ih (fun j hj => h j (by simp [hj]))
    simp only [serInputs] at ih'
    rd_step ih'
    simp

theorem readOutputs_ser (os : List Output) (h : ∀ o ∈ os, o.wf) (rest : Bytes) :
    readOutputs os.length (serOutputs os ++ rest) = .ok (os, true) rest := by
  induction os with
  | nil => simp [readOutputs, serOutputs]
  | cons o os ih =>
    simp only [serOutputs, List.flatMap_cons, List.append_assoc, List.length_cons]
    unfold readOutputs
    rd_step (readOutput_ser o (h o (by simp)) _)
    have ih' := ih (fun j hj => h j (by simp [hj]))
    simp only [serOutputs] at ih'
    rd_step ih'
    simp

theorem readBody_ser (v : Nat) (ext : Bool) (tx : Tx) (h : tx.wf) (m0 : Bool) (rest : Bytes) :
    readBody v ext tx.inputs.length m0
      (serInputs ext tx.inputs ++ (varintEnc tx.outputs.length ++ (serOutputs tx.outputs ++
        (leEnc 4 tx.lockTime ++ rest)))) =
    .ok { tx := { version := v, inputs := tx.inputs.map (Input.norm ext), outputs := tx.outputs,
                  lockTime := tx.lockTime },
          fmt := if ext then .ext else .std, minimal := m0 } rest := by
  obtain ⟨_, hlt, _, hno, hi, ho⟩ := h
  have e1 : leDec (leEnc 4 tx.lockTime) = tx.lockTime := leDec_leEnc_of_lt (by simpa using hlt)
  unfold readBody
  rd_step (readInputs_ser ext _ hi _)
  rd_step (varintRead_enc _ hno _)
  rd_step (readOutputs_ser _ ho _)
  rd_step (readN_append _ _ (by simp))
  simp [e1]

/-! ### read-then-serialise (inversion), component by component -/

theorem readInput_inv {ext : Bool} {bs rest : Bytes} {i : Input} {m : Bool}
    (h : readInput ext bs = .ok (i, m) rest) :
    i.wf ∧ ∃ pre, bs = pre ++ rest ∧ (m = true → pre = serInputF ext i) := by
  unfold readInput at h
  obtain ⟨txid, r1, h1, h⟩ := Rd.andThen_eq_ok.mp h
  obtain ⟨vout, r2, h2, h⟩ := Rd.andThen_eq_ok.mp h
  obtain ⟨⟨l, m1⟩, r3, h3, h⟩ := Rd.andThen_eq_ok.mp h
  obtain ⟨script, r4, h4, h⟩ := Rd.andThen_eq_ok.mp h
  obtain ⟨seq, r5, h5, h⟩ := Rd.andThen_eq_ok.mp h
  obtain ⟨e1, l1⟩ := readN_ok h1
  obtain ⟨e2, l2⟩ := readN_ok h2
  obtain ⟨hl, p3, e3, _, hm3⟩ := varintRead_ok h3
  obtain ⟨e4, l4⟩ := readN_ok h4
  obtain ⟨e5, l5⟩ := readN_ok h5
  have hvout := leDec_lt vout; rw [l2] at hvout
  have hseq := leDec_lt seq; rw [l5] at hseq
  have ev : leEnc 4 (leDec vout) = vout := by have := leEnc_leDec vout; rwa [l2] at this
  have es : leEnc 4 (leDec seq) = seq := by have := leEnc_leDec seq; rwa [l5] at this
  cases ext with
  | false =>
    simp only [Bool.false_eq_true, ↓reduceIte, Rd.ok.injEq, Prod.mk.injEq] at h
    obtain ⟨⟨hi, hm⟩, hr⟩ := h
    subst hi hm hr
    refine ⟨⟨by simp [l1], by simpa using hvout, by simpa using hseq, by simp, by simp [optLen, l4]; omega, by simp [optLen]⟩,
      txid ++ vout ++ p3 ++ script ++ seq, by rw [e1, e2, e3, e4, e5]; simp, ?_⟩
    intro hm
    rw [hm3 hm]
    simp [serInputF, serInput, serOptScript, ev, es, l4]
  | true =>
    simp only [↓reduceIte] at h
    obtain ⟨sats, r6, h6, h⟩ := Rd.andThen_eq_ok.mp h
    obtain ⟨⟨l2', m2⟩, r7, h7, h⟩ := Rd.andThen_eq_ok.mp h
    obtain ⟨pscript, r8, h8, h⟩ := Rd.andThen_eq_ok.mp h
    obtain ⟨e6, l6⟩ := readN_ok h6
    obtain ⟨hl7, p7, e7, _, hm7⟩ := varintRead_ok h7
    obtain ⟨e8, l8⟩ := readN_ok h8
    have hsats := leDec_lt sats; rw [l6] at hsats
    have esat : leEnc 8 (leDec sats) = sats := by have := leEnc_leDec sats; rwa [l6] at this
    simp only [Rd.ok.injEq, Prod.mk.injEq] at h
    obtain ⟨⟨hi, hm⟩, hr⟩ := h
    subst hi hm hr
    refine ⟨⟨by simp [l1], by simpa using hvout, by simpa using hseq, by simpa using hsats,
        by simp [optLen, l4]; omega, by simp [optLen, l8]; omega⟩,
      txid ++ vout ++ p3 ++ script ++ seq ++ sats ++ p7 ++ pscript,
      by rw [e1, e2, e3, e4, e5, e6, e7, e8]; simp, ?_⟩
    intro hm
    simp only [Bool.and_eq_true] at hm
    rw [hm3 hm.1, hm7 hm.2]
    simp [serInputF, serInput, serInputExtTail, serOptScript, ev, es, esat, l4, l8]

theorem readOutput_inv {bs rest : Bytes} {o : Output} {m : Bool}
    (h : readOutput bs = .ok (o, m) rest) :
    o.wf ∧ ∃ pre, bs = pre ++ rest ∧ (m = true → pre = serOutput o) := by
  unfold readOutput at h
  obtain ⟨sats, r1, h1, h⟩ := Rd.andThen_eq_ok.mp h
  obtain ⟨⟨l, m1⟩, r2, h2, h⟩ := Rd.andThen_eq_ok.mp h
  obtain ⟨script, r3, h3, h⟩ := Rd.andThen_eq_ok.mp h
  obtain ⟨e1, l1⟩ := readN_ok h1
  obtain ⟨hl, p2, e2, _, hm2⟩ := varintRead_ok h2
  obtain ⟨e3, l3⟩ := readN_ok h3
  have hsats := leDec_lt sats; rw [l1] at hsats
  have esat : leEnc 8 (leDec sats) = sats := by have := leEnc_leDec sats; rwa [l1] at this
  simp only [Rd.ok.injEq, Prod.mk.injEq] at h
  obtain ⟨⟨ho, hm⟩, hr⟩ := h
  subst ho hm hr
  refine ⟨⟨by simpa using hsats, by simp [l3]; omega⟩, sats ++ p2 ++ script, by rw [e1, e2, e3]; simp, ?_⟩
  intro hm
  rw [hm2 hm]
  simp [serOutput, esat, l3]

theorem readInputs_inv {ext : Bool} {n : Nat} {bs rest : Bytes} {is : List Input} {m : Bool}
    (h : readInputs ext n bs = .ok (is, m) rest) :
    is.length = n ∧ (∀ i ∈ is, i.wf) ∧ ∃ pre, bs = pre ++ rest ∧ (m = true → pre = serInputs ext is) := by
  induction n generalizing bs is m with
  | zero =>
    simp only [readInputs, Rd.ok.injEq, Prod.mk.injEq] at h
    obtain ⟨⟨h1, _⟩, h2⟩ := h; subst h1 h2
    exact ⟨rfl, by simp, [], by simp, fun _ => by simp [serInputs]⟩
  | succ n ih =>
    unfold readInputs at h
    obtain ⟨⟨i, m1⟩, r1, h1, h⟩ := Rd.andThen_eq_ok.mp h
    obtain ⟨⟨is', m2⟩, r2, h2, h⟩ := Rd.andThen_eq_ok.mp h
    simp only [Rd.ok.injEq, Prod.mk.injEq] at h
    obtain ⟨⟨hi, hm⟩, hr⟩ := h
    subst hi hm hr
    obtain ⟨wf1, p1, e1, hp1⟩ := readInput_inv h1
    obtain ⟨len2, wf2, p2, e2, hp2⟩ := ih h2
    refine ⟨by simp [len2], ?_, p1 ++ p2, by rw [e1, e2]; simp, ?_⟩
    · intro j hj
      simp only [List.mem_cons] at hj
      rcases hj with rfl | hj
      · exact wf1
      · exact wf2 j hj
    · intro hm
      simp only [Bool.and_eq_true] at hm
      rw [hp1 hm.1, hp2 hm.2]
      simp [serInputs]

theorem readOutputs_inv {n : Nat} {bs rest : Bytes} {os : List Output} {m : Bool}
    (h : readOutputs n bs = .ok (os, m) rest) :
    os.length = n ∧ (∀ o ∈ os, o.wf) ∧ ∃ pre, bs = pre ++ rest ∧ (m = true → pre = serOutputs os) := by
  induction n generalizing bs os m with
  | zero =>
    simp only [readOutputs, Rd.ok.injEq, Prod.mk.injEq] at h
    obtain ⟨⟨h1, _⟩, h2⟩ := h; subst h1 h2
    exact ⟨rfl, by simp, [], by simp, fun _ => by simp [serOutputs]⟩
  | succ n ih =>
    unfold readOutputs at h
    obtain ⟨⟨o, m1⟩, r1, h1, h⟩ := Rd.andThen_eq_ok.mp h
    obtain ⟨⟨os', m2⟩, r2, h2, h⟩ := Rd.andThen_eq_ok.mp h
    simp only [Rd.ok.injEq, Prod.mk.injEq] at h
    obtain ⟨⟨hi, hm⟩, hr⟩ := h
    subst hi hm hr
    obtain ⟨wf1, p1, e1, hp1⟩ := readOutput_inv h1
    obtain ⟨len2, wf2, p2, e2, hp2⟩ := ih h2
    refine ⟨by simp [len2], ?_, p1 ++ p2, by rw [e1, e2]; simp, ?_⟩
    · intro j hj
      simp only [List.mem_cons] at hj
      rcases hj with rfl | hj
      · exact wf1
      · exact wf2 j hj
    · intro hm
      simp only [Bool.and_eq_true] at hm
      rw [hp1 hm.1, hp2 hm.2]
      simp [serOutputs]

end GoBT
