/-
  Reference semantics for stack items (C08): Go stack items are slices `(backing array, offset, length)`;
  DUP / OVER / PICK / TUCK / IFDUP push the *same* slice, SPLIT pushes two sub-slices of one array, a push from
  the script points into the caller's script buffer.  A handler either allocates its result (`fresh`) or
  overwrites an operand's array (`inPlace`).  Core Lean only.
-/
import GoBT.Basic.Bytes
namespace GoBT.Interp.Heap
open GoBT

/-- a slice into heap cell `cell` -/
structure Ref where
  cell : Nat
  off : Nat
  len : Nat
  deriving Repr, DecidableEq

abbrev Heap := List Bytes

def deref (h : Heap) (r : Ref) : Bytes := ((h.getD r.cell []).drop r.off).take r.len

def Ref.valid (h : Heap) (r : Ref) : Prop := r.cell < h.length

/-- allocate a new cell holding `b`; returns the extended heap and a reference to the whole cell -/
def alloc (h : Heap) (b : Bytes) : Heap × Ref := (h ++ [b], ⟨h.length, 0, b.length⟩)

/-- overwrite the bytes a reference designates (what an in-place handler does) -/
def writeAt (h : Heap) (r : Ref) (b : Bytes) : Heap :=
  h.set r.cell (((h.getD r.cell []).take r.off) ++ b ++ ((h.getD r.cell []).drop (r.off + b.length)))

/-- a machine state: the heap, and the data stack as references (top first) -/
structure HState where
  heap : Heap
  ds : List Ref
  deriving Repr, DecidableEq

def HState.values (s : HState) : List Bytes := s.ds.map (deref s.heap)

/-- how a unary byte-level opcode produces its result -/
inductive Discipline | fresh | inPlace
  deriving Repr, DecidableEq

/-- a unary opcode computing `f` on the top item under the given write discipline -/
def unaryStep (d : Discipline) (f : Bytes → Bytes) (s : HState) : Option HState :=
  match s.ds with
  | [] => none
  | r :: rest =>
    let v := f (deref s.heap r)
    match d with
    | .fresh =>
      let (h', r') := alloc s.heap v
      some { heap := h', ds := r' :: rest }
    | .inPlace =>
      -- the result is written over the operand's bytes and the same slice is pushed back
      some { heap := writeAt s.heap r v, ds := { r with len := v.length } :: rest }

/-- OP_DUP: the same slice twice -/
def dupStep (s : HState) : Option HState :=
  match s.ds with
  | [] => none
  | r :: rest => some { s with ds := r :: r :: rest }

/-- OP_SPLIT at position `k`: two sub-slices of the same array -/
def splitStep (k : Nat) (s : HState) : Option HState :=
  match s.ds with
  | [] => none
  | r :: rest =>
    if k > r.len then none
    else some { s with ds := { r with off := r.off + k, len := r.len - k } :: { r with len := k } :: rest }

end GoBT.Interp.Heap
