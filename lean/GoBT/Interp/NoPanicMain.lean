/-
  C07, global statement: `execute` never produces a `panic` outcome.
-/
import GoBT.Interp.CondInv
namespace GoBT.Interp
open GoBT GoBT.Script

/-- what the separator position may be after an opcode: unchanged, or the opcode's own offset (OP_CODESEPARATOR) -/
def sepAfter (v off : Nat) (s s' : St) : Prop :=
  (v ≠ 0xab → s'.lastCodeSep = s.lastCodeSep ∧ s'.sepSeen = s.sepSeen) ∧
  (v = 0xab → s'.lastCodeSep = off ∧ s'.sepSeen = true)

theorem sepAfter_of_same {v off : Nat} {s s' : St} (hv : v ≠ 0xab) (h : s'.same s) : sepAfter v off s s' :=
  ⟨fun _ => ⟨h.2.1, h.2.2⟩, fun e => absurd e hv⟩

theorem handler_depth (env : Env) (cur : List POp) (off : Nat) (o : POp) (s s' : St)
    (h : handler env cur off o s = .ok s') :
    (s'.cond.length : Int) = s.cond.length + rtDelta o.op.toNat ∧ sepAfter o.op.toNat off s s' := by
  unfold handler at h
  simp only [] at h
  split at h
  · next hv => cases h; simp at hv; simp [rtDelta, hv, sepAfter]
  split at h
  · next hv => cases h; refine ⟨by simp [rtDelta]; omega, ⟨fun _ => ⟨rfl, rfl⟩, fun e => by omega⟩⟩
  split at h
  · next hv => cases h; simp at hv; simp [rtDelta, hv, pushNum, sepAfter]
  split at h
  · cases h
  split at h
  · next hv => cases h; refine ⟨by simp [rtDelta]; omega, ⟨fun _ => ⟨rfl, rfl⟩, fun e => by omega⟩⟩
  split at h
  · next h1 h2 =>
    have := handlerFlow_depth _ _ _ _ _ h
    exact ⟨this.1, ⟨fun _ => this.2, fun e => by omega⟩⟩
  split at h
  · next h1 h2 =>
    have := handlerStack_cond _ _ _ _ h
    exact ⟨by rw [this.1]; simp [rtDelta]; omega, sepAfter_of_same (by omega) this⟩
  split at h
  · next h1 h2 =>
    have := handlerSplice_cond _ _ _ _ h
    exact ⟨by rw [this.1]; simp [rtDelta]; omega, sepAfter_of_same (by omega) this⟩
  split at h
  · next h1 h2 =>
    have := handlerNum_cond _ _ _ _ h
    exact ⟨by rw [this.1]; simp [rtDelta]; omega, sepAfter_of_same (by omega) this⟩
  split at h
  · next h1 h2 =>
    have := handlerCrypto_cond _ _ _ _ _ _ h
    by_cases hab : o.op.toNat = 0xab
    · have t := this.2 hab
      exact ⟨by rw [t.1]; simp [rtDelta]; omega, ⟨fun e => absurd hab e, fun _ => t.2⟩⟩
    · have t := this.1 hab
      exact ⟨by rw [t.1]; simp [rtDelta]; omega, sepAfter_of_same hab t⟩
  split at h
  · next h1 h2 =>
    have := handlerLock_cond _ _ _ _ h
    exact ⟨by rw [this.1]; simp [rtDelta]; omega, sepAfter_of_same (by omega) this⟩
  · cases h

/-- the parser's nesting count after an opcode -/
def depthStep (b : UInt8) (d : Int) : Int :=
  if isCondOpen b then d + 1 else if b = opENDIF then d - 1 else d

theorem rtDelta_le_depthStep (b : UInt8) (d : Int) : d + rtDelta b.toNat ≤ depthStep b d := by
  by_cases h63 : b.toNat = 0x63
  · have e := uint8_eq_of_toNat (by decide) h63; subst e
    simp [rtDelta, depthStep, isCondOpen]
  by_cases h64 : b.toNat = 0x64
  · have e := uint8_eq_of_toNat (by decide) h64; subst e
    simp [rtDelta, depthStep, isCondOpen]
  by_cases h68 : b.toNat = 0x68
  · have e := uint8_eq_of_toNat (by decide) h68; subst e
    simp [rtDelta, depthStep, isCondOpen, opENDIF]
    omega
  · have hne : b ≠ opENDIF := by
      intro e; subst e; exact h68 rfl
    simp only [rtDelta, h63, h64, h68, or_self, ↓reduceIte, Int.add_zero, depthStep, hne]
    split <;> omega

theorem depthStep_nonCond (b : UInt8) (d : Int) (h : isConditionalOp b = false) : depthStep b d = d := by
  unfold isConditionalOp at h
  simp only [Bool.or_eq_false_iff, beq_eq_false_iff_ne, ne_eq] at h
  obtain ⟨⟨⟨⟨⟨h63, h64⟩, h67⟩, h68⟩, h65⟩, h66⟩ := h
  simp [depthStep, isCondOpen, opENDIF, h63, h64, h65, h66, h68]

theorem bump_cond (o : POp) (s : St) : (bump o s).cond = s.cond := by
  unfold bump; split <;> rfl

theorem bump_sep (o : POp) (s : St) : (bump o s).lastCodeSep = s.lastCodeSep ∧ (bump o s).sepSeen = s.sepSeen := by
  unfold bump; split <;> exact ⟨rfl, rfl⟩

/-- how `executeOpcode` can complete normally: the opcode was skipped (then it is not a conditional), or its
    handler ran on the counted state; and it then passed the format check -/
theorem executeOpcode_ok (env : Env) (cur : List POp) (off : Nat) (o : POp) (s s' : St)
    (h : executeOpcode env cur off o s = .ok s') :
    (s' = bump o s ∧ isConditionalOp o.op = false ∧
        (isBranchExecuting (bump o s) = false ∨ shouldExec env s o.op = false)) ∨
      handler env cur off o (bump o s) = .ok s' := by
  unfold executeOpcode at h
  simp only [] at h
  split at h
  · cases h
  split at h
  · cases h
  split at h
  · cases h
  split at h
  · cases h
  split at h
  · next hc =>
    left
    cases h
    simp only [Bool.and_eq_true, Bool.not_eq_eq_eq_not, Bool.not_true] at hc
    exact ⟨rfl, hc.2, Or.inl hc.1⟩
  split at h
  · cases h
  split at h
  · next hc =>
    left
    cases h
    simp only [Bool.and_eq_true, Bool.not_eq_eq_eq_not, Bool.not_true] at hc
    exact ⟨rfl, hc.2, Or.inr hc.1⟩
  split at h
  · cases h
  · right; exact h

/-- **Depth invariant**: if the run-time conditional depth is at most the parser's count before an opcode completes
    normally, it is at most the parser's count after it; and the separator position is unchanged or the opcode's
    own offset. -/
theorem executeOpcode_depth (env : Env) (cur : List POp) (off : Nat) (o : POp) (s s' : St) (d : Int)
    (h : executeOpcode env cur off o s = .ok s') (hd : (s.cond.length : Int) ≤ d) :
    (s'.cond.length : Int) ≤ depthStep o.op d ∧
    ((s'.lastCodeSep = s.lastCodeSep ∧ s'.sepSeen = s.sepSeen) ∨ (s'.lastCodeSep = off ∧ s'.sepSeen = true)) := by
  rcases executeOpcode_ok _ _ _ _ _ _ h with ⟨e, hnc, _⟩ | hh
  · rw [e, bump_cond, depthStep_nonCond _ _ hnc]
    exact ⟨hd, Or.inl (bump_sep o s)⟩
  · have key := rtDelta_le_depthStep o.op d
    have := handler_depth _ _ _ _ _ _ hh
    rw [bump_cond] at this
    refine ⟨by omega, ?_⟩
    by_cases hab : o.op.toNat = 0xab
    · exact Or.inr (this.2.2 hab)
    · have t := this.2.1 hab
      rw [(bump_sep o s).1, (bump_sep o s).2] at t
      exact Or.inl t

/-! ### what the parser guarantees -/

/-- A parsed script relative to the parser's nesting count `d`: every element has the table's length and, when no
    transaction was supplied (`noTx`), does not need one — except that after an OP_RETURN at nesting count 0 the
    parser stores the rest of the script as (at most) one raw element. -/
inductive Parsed (noTx : Bool) : Int → List POp → Prop
  | nil (d : Int) : Parsed noTx d []
  | ret (rest : List POp) : Parsed noTx 0 (⟨opRETURN, [], 1⟩ :: rest)
  | cons (d : Int) (o : POp) (rest : List POp) (hnr : ¬ (o.op = opRETURN ∧ d = 0)) (hlen : o.len = opLength o.op)
      (htx : noTx = true → requiresTx o.op = false) (hrest : Parsed noTx (depthStep o.op d) rest) :
      Parsed noTx d (o :: rest)

theorem parseAux_Parsed (errCS : Bool) (fuel : Nat) :
    ∀ (s : Bytes) (cond : Int) (ops : List POp), parseAux true errCS fuel s cond = .ok ops → Parsed errCS cond ops := by
  induction fuel with
  | zero => intro s cond ops h; simp only [parseAux] at h; cases h; exact .nil _
  | succ n ih =>
    intro s cond ops h
    cases s with
    | nil => simp only [parseAux] at h; cases h; exact .nil _
    | cons b rest =>
      simp only [parseAux] at h
      split at h
      · cases h
      · next hcs =>
        have htx : errCS = true → requiresTx b = false := by
          intro he
          cases hr : requiresTx b with
          | false => rfl
          | true => exact absurd (by simp [he, hr]) hcs
        split at h
        · next hret =>
          -- top-level OP_RETURN
          simp only [Bool.true_and, Bool.and_eq_true, decide_eq_true_eq] at hret
          obtain ⟨hb, hc⟩ := hret
          subst hb; subst hc
          split at h <;> (cases h; exact .ret _)
        · next hret =>
          have hnr : ¬ (b = opRETURN ∧ cond = 0) := by
            intro ⟨e1, e2⟩
            exact hret (by simp [e1, e2])
          have step : ∀ (data : Bytes) (l : Int) (tail : Bytes) (ops' : List POp),
              l = opLength b → parseAux true errCS n tail
                (if isCondOpen b = true then cond + 1 else if b = opENDIF then cond - 1 else cond) = .ok ops' →
              Parsed errCS cond (⟨b, data, l⟩ :: ops') := by
            intro data l tail ops' hl hp
            exact .cons cond ⟨b, data, l⟩ ops' hnr hl htx (ih _ _ _ hp)
          split at h
          · next hl1 =>
            cases hp : parseAux true errCS n rest (if isCondOpen b = true then cond + 1 else if b = opENDIF then cond - 1 else cond) with
            | error e => rw [hp] at h; cases h
            | ok ops' =>
              rw [hp] at h
              simp only [Except.map] at h
              cases h
              exact step [] 1 rest ops' hl1.symm hp
          · split at h
            · split at h
              · cases h
              · cases hp : parseAux true errCS n (rest.drop ((opLength b).toNat - 1))
                    (if isCondOpen b = true then cond + 1 else if b = opENDIF then cond - 1 else cond) with
                | error e => rw [hp] at h; cases h
                | ok ops' =>
                  rw [hp] at h
                  simp only [Except.map] at h
                  cases h
                  exact step _ _ _ ops' rfl hp
            · split at h
              · cases h
              · split at h
                · cases h
                · cases hp : parseAux true errCS n ((rest.drop (-(opLength b)).toNat).drop (leDec (rest.take (-(opLength b)).toNat)))
                      (if isCondOpen b = true then cond + 1 else if b = opENDIF then cond - 1 else cond) with
                  | error e => rw [hp] at h; cases h
                  | ok ops' =>
                    rw [hp] at h
                    simp only [Except.map] at h
                    cases h
                    exact step _ _ _ ops' rfl hp

theorem opLength_return : opLength opRETURN = 1 := by decide

/-- an OP_RETURN met with an empty conditional stack never "completes normally": before Genesis it is an error,
    after Genesis it ends the script -/
theorem return_at_top_not_ok (env : Env) (cur : List POp) (off : Nat) (s s' : St) (hc : s.cond = [])
    (h : executeOpcode env cur off ⟨opRETURN, [], 1⟩ s = .ok s') : False := by
  rcases executeOpcode_ok _ _ _ _ _ _ h with ⟨_, _, hskip⟩ | hh
  · rcases hskip with hb | hx
    · simp [isBranchExecuting, bump_cond, hc] at hb
    · simp [shouldExec, hc, opRETURN] at hx
  · have hbc : (bump ⟨opRETURN, [], 1⟩ s).cond = [] := by rw [bump_cond]; exact hc
    revert hh
    generalize bump ⟨opRETURN, [], 1⟩ s = s1 at hbc
    simp only [handler, opRETURN, handlerFlow]
    simp [hbc]
    split <;> simp

/-- the recorded separator position lies inside the current script (or none was recorded) -/
def SepOK (cur : List POp) (s : St) : Prop :=
  s.lastCodeSep < cur.length ∨ (s.lastCodeSep = 0 ∧ s.sepSeen = false)

theorem subScript_some (cur : List POp) (s : St) (h : SepOK cur s) : subScript cur s ≠ none := by
  unfold subScript
  rcases h with h | ⟨h0, hs⟩
  · split
    · have : ¬ (s.lastCodeSep + 1 > cur.length) := by omega
      simp [this]
    · simp
  · simp [h0, hs]

theorem SepOK_bump (cur : List POp) (o : POp) (s : St) (h : SepOK cur s) : SepOK cur (bump o s) := by
  unfold SepOK at *
  rw [(bump_sep o s).1, (bump_sep o s).2]
  exact h

/-- **No panic while running a parsed script**, for every suffix, offset, state and trace. -/
theorem runOps_noPanic (env : Env) (sidx : Nat) (cur : List POp) :
    ∀ (ops : List POp) (off : Nat) (s : St) (tr : List Snap) (d : Int),
      Parsed env.ctx.isNone d ops → (s.cond.length : Int) ≤ d → off + ops.length = cur.length → SepOK cur s →
      ∀ p, (runOps env sidx cur ops off s tr).1 ≠ .panicked p := by
  intro ops
  induction ops with
  | nil => intro off s tr d _ _ _ _ p h; simp [runOps] at h
  | cons o rest ih =>
    intro off s tr d hp hd hoff hsep p h
    have hofflt : off < cur.length := by simp at hoff; omega
    unfold runOps at h
    cases he : executeOpcode env cur off o s with
    | err e => rw [he] at h; simp at h
    | success s1 => rw [he] at h; simp at h
    | panic q =>
      -- excluded by the parser's guarantees and the separator invariant
      have hq := executeOpcode_isPanic env cur off o s (by rw [he]; rfl)
      have hsub := subScript_some cur (bump o s) (SepOK_bump cur o s hsep)
      cases hp with
      | ret rest' =>
        rcases hq with ⟨_, hr⟩ | hl | hs
        · simp [requiresTx, opRETURN] at hr
        · exact hl opLength_return.symm
        · exact hsub hs
      | cons d' o' rest' hnr hlen htx hrest =>
        rcases hq with ⟨hn, hr⟩ | hl | hs
        · have := htx (by simp [hn])
          rw [this] at hr; cases hr
        · exact hl hlen
        · exact hsub hs
    | ok s1 =>
      rw [he] at h
      simp only at h
      cases hp with
      | ret rest' =>
        have hc : s.cond = [] := by
          cases hcs : s.cond with
          | nil => rfl
          | cons a b => rw [hcs] at hd; simp at hd; omega
        exact return_at_top_not_ok env cur off s s1 hc he
      | cons d' o' rest' hnr hlen htx hrest =>
        have hdep := executeOpcode_depth _ _ _ _ _ _ _ he hd
        have hsep1 : SepOK cur s1 := by
          rcases hdep.2 with ⟨e1, e2⟩ | ⟨e1, e2⟩
          · unfold SepOK at *; rw [e1, e2]; exact hsep
          · left; rw [e1]; exact hofflt
        split at h
        · simp at h
        · split at h
          · simp at h
          · exact ih _ _ _ _ hrest hdep.1 (by simp at hoff ⊢; omega) hsep1 p h

end GoBT.Interp
