/-
  C08 — the "allocate the result" discipline as a regenerated fact.
  GoBT/Gen/Writes.lean (extract/writes.go, go/ssa, rewritten on every run) lists every place in bscript/interpreter where
  bytes are written into a byte slice — element stores, `copy`, `append`, calls of same-package functions that write into
  a parameter — together with the origin of the slice written to, and every call that hands a byte slice that is *not*
  provably fresh to a function outside the package.  The obligation `C08.handlers_write_only_fresh_buffers` demands:

  * the target of every store / copy / append is freshly allocated in the same function (`make`, a local array, `nil`
    grown by append, a `[]byte(string)` conversion, the result of a same-package function all of whose returns are
    fresh — `freshcall:` — or of a reviewed external allocator), or a parameter of an unexported function (then every
    call site carries its own `callwrite:` row), or the row is a reviewed exception below;
  * every external callee that receives a shared buffer is on the reviewed read-only list;
  * slices with other element types (stack slots `[][]byte`, conditional entries, parsed opcodes) are written only when
    fresh or part of the interpreter's own state (thread / stack / State fields) — never a parameter or a callee's
    result (an in-place filter of a ParsedScript parameter is such a write);
  * `thread.State`, which builds the debugger snapshot, stores only freshly allocated slices (`src:make`): the snapshot is
    a deep copy (C19).

  The value-semantics model (Interp/Exec.lean) is an adequate description of the Go handlers only under this discipline
  (`Heap.refines_*`, `C08.fresh_preserves_others`); `C08.in_place_changes_twin` is what happens without it.
-/
import GoBT.Gen.Writes
namespace GoBT.Interp.WriteReview

/-- prefix test by characters (kernel-friendly) -/
def hasPrefix (p s : String) : Bool := p.toList.isPrefixOf s.toList

/-- allocators outside the package whose result is a new buffer -/
def externalFresh : List String := ["call:big.Int.Bytes"]

def freshOrigin (c : String) : Bool :=
  c == "make" || c == "alloc" || c == "nil" || c == "convert:string" || hasPrefix "freshcall:" c || externalFresh.contains c

/-- the function's own name (after the last '.') starts with a lower-case letter: unexported, so every call site is
    in the package and appears in the table as a `callwrite:` row -/
def unexported (fn : String) : Bool :=
  match ((fn.toList.reverse.takeWhile (· != '.')).reverse).head? with
  | some c => c.isLower
  | none => false

/-- external callees reviewed as *reading* their byte-slice arguments only -/
def readOnlyCallees : List String := [
  "bytes.Equal",                       -- comparison
  "(hash.Hash).Write",                 -- hashes absorb their input
  "sha256.Sum256", "sha1.Sum", "crypto.Sha256d",
  "bec.ParseDERSignature", "bec.ParseSignature", "bec.ParsePubKey",   -- parse into big.Int / curve points (copies)
  "bec.Signature.Verify",              -- reads the digest
  "big.Int.SetBytes",                  -- copies into the big.Int's own words
  "hex.Dump",                          -- stack.String: formatting
  "bscript.NewFromBytes"               -- wraps the slice in a *Script (P2SH redeem script): aliasing, no write
]

/-- reviewed exceptions: (function, kind, origin, why it is harmless) -/
def reviewed : List (String × String × List String × String) := [
  ("interpreter.thread.State", "copy", ["elem:field:interpreter.State.DataStack"],
   "snapshot slot: ts.DataStack[i] = make([]byte, len(dd)) on the line above the copy"),
  ("interpreter.thread.State", "copy", ["elem:field:interpreter.State.AltStack"], "snapshot slot, as DataStack"),
  ("interpreter.thread.State", "copy", ["elem:field:interpreter.State.ElseStack"], "snapshot slot, as DataStack"),
  ("interpreter.thread.State", "copy", ["elem:field:interpreter.State.SavedFirstStack"], "snapshot slot, as DataStack"),
  ("interpreter.stack.beforeStackPush", "extcall:(interpreter.Debugger).BeforeStackPush", ["param:bb"],
   "the debugger API hands the item itself (not a snapshot) to the stack callbacks: a debugger that writes into this argument is outside C19's quantifier (snapshots), recorded in DESIGN §11.5"),
  ("interpreter.stack.afterStackPush", "extcall:(interpreter.Debugger).AfterStackPush", ["param:bb"], "as BeforeStackPush"),
  ("interpreter.stack.afterStackPop", "extcall:(interpreter.Debugger).AfterStackPop", ["param:bb"], "as BeforeStackPush"),
  ("interpreter.thread.State", "copy[interpreter.ParsedOpcode]", ["elem:field:interpreter.State.Scripts"],
   "the snapshot's Scripts are copies of the ParsedOpcode structs whose Data fields still point into the parsed script (shallow): script data is not stack data, so outside C19's third clause; recorded in DESIGN §11.5")
]

def isReviewed (r : String × String × List String) : Bool :=
  reviewed.any fun e => e.1 == r.1 && e.2.1 == r.2.1 && e.2.2.1 == r.2.2

/-- slices that are the interpreter's own mutable state (the thread, its stacks, a snapshot under construction):
    rows about slices whose elements are not bytes (stack slots, conditional entries, parsed opcodes) may target these -/
def ownState (c : String) : Bool :=
  hasPrefix "field:interpreter.thread." c || hasPrefix "field:interpreter.stack." c ||
  hasPrefix "field:interpreter.State." c || hasPrefix "elem:field:interpreter.State." c

/-- inside `thread.State` only the snapshot under construction may be written: taking a snapshot never touches the thread -/
def snapshotState (c : String) : Bool :=
  hasPrefix "field:interpreter.State." c || hasPrefix "elem:field:interpreter.State." c

/-- a row about a slice whose elements are not bytes: the kind carries the element type in brackets -/
def typedRow (kind : String) : Bool := kind.toList.contains '['

def isSrc (c : String) : Bool := hasPrefix "src:" c

def rowOk (r : String × String × List String) : Bool :=
  isReviewed r ||
  (if hasPrefix "extcall:" r.2.1 then readOnlyCallees.contains (String.ofList (r.2.1.toList.drop 8))
   else if typedRow r.2.1 then
     -- target: freshly allocated, or the interpreter's own state — never a parameter or a callee's result
     ((r.2.2.filter fun c => !isSrc c).all fun c => freshOrigin c ||
        (if r.1 == "interpreter.thread.State" then snapshotState c else ownState c)) &&
     -- thread.State (the debugger snapshot) stores only freshly allocated slices: deep copies (C19)
     (r.1 != "interpreter.thread.State" || (r.2.2.filter isSrc).all fun c => freshOrigin (String.ofList (c.toList.drop 4)))
   else r.2.2.all fun c => freshOrigin c || (hasPrefix "param:" c && unexported r.1))

/-- the rows that do not satisfy the discipline (empty on the unchanged tree; the driver prints them as the witness
    when the obligation breaks) -/
def offending : List (String × String × List String) := GoBT.Gen.Writes.sites.filter fun r => !rowOk r

def writesOk : Bool := GoBT.Gen.Writes.sites.all rowOk

/-- the discipline restricted to some functions, which must have at least one row each (non-vacuity) -/
def rowsOkFor (fns : List String) : Bool :=
  (GoBT.Gen.Writes.sites.all fun r => !fns.contains r.1 || rowOk r) &&
  (fns.all fun f => GoBT.Gen.Writes.sites.any fun r => r.1 == f)

/-- every reviewed exception still exists in the code (informational: a reviewed write that has since disappeared is
    harmless, so this is not an obligation) -/
def reviewCurrent : Bool := reviewed.all fun e => GoBT.Gen.Writes.sites.any fun r => e.1 == r.1 && e.2.1 == r.2.1 && e.2.2.1 == r.2.2

end GoBT.Interp.WriteReview
