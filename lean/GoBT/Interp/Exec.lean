/-
  bscript/interpreter: thread.go (apply / execute / Step / executeOpcode / CheckErrorCondition),
  operations.go (one handler per opcode), config.go, scriptflag.go — as a pure state machine.
  Structural recursion over the parsed opcodes (so termination is checked by Lean).
  Hashes and ECDSA are parameters (`Crypto`).  Core Lean only.
-/
import GoBT.Interp.Num
import GoBT.Script.Parse
import GoBT.Script.Classify
import GoBT.Sighash.Model
namespace GoBT.Interp
open GoBT GoBT.Script

/-! ### flags (scriptflag.go: `1 << iota`) -/
def fBip16 : Nat := 1
def fStrictMultiSig : Nat := 2
def fDiscourageNops : Nat := 4
def fCLTV : Nat := 8
def fCSV : Nat := 16
def fCleanStack : Nat := 32
def fDERSig : Nat := 64
def fLowS : Nat := 128
def fMinimalData : Nat := 256
def fNullFail : Nat := 512
def fSigPushOnly : Nat := 1024
def fForkID : Nat := 2048
def fStrictEnc : Nat := 4096
def fBip143 : Nat := 8192
def fAfterGenesis : Nat := 16384
def fMinimalIf : Nat := 32768

def hasFlag (flags f : Nat) : Bool := flags &&& f == f

/-- per-era configuration (config.go) -/
structure Cfg where
  afterGenesis : Bool
  maxOps : Nat
  maxStack : Nat
  maxScriptSize : Nat
  maxElem : Nat
  maxNumLen : Nat
  maxPubKeys : Nat
  deriving Repr, DecidableEq

def cfgBefore : Cfg :=
  { afterGenesis := false, maxOps := 500, maxStack := 1000, maxScriptSize := 10000, maxElem := 520,
    maxNumLen := 4, maxPubKeys := 20 }
def cfgAfter : Cfg :=
  { afterGenesis := true, maxOps := 2147483647, maxStack := 2147483647, maxScriptSize := 2147483647,
    maxElem := 2147483647, maxNumLen := 750000, maxPubKeys := 2147483647 }

/-- hash functions and signature checking as parameters -/
structure Crypto where
  sha256 : Bytes → Bytes
  sha1 : Bytes → Bytes
  ripemd160 : Bytes → Bytes
  /-- bec.ParsePubKey succeeded? -/
  pubKeyOk : Bytes → Bool
  /-- parse (strict DER or lax) then Signature.Verify(hash, key): `none` = the signature did not parse -/
  verify : (strict : Bool) → (sig : Bytes) → (hash : Bytes) → (pubKey : Bytes) → Option Bool
  /-- S value above half the group order (only consulted after the DER structure checks passed) -/
  highS : (sBytes : Bytes) → Bool

/-- transaction context of an execution -/
structure Ctx where
  tx : Tx
  idx : Nat
  prevOut : Output
  deriving Repr

structure Env where
  H : Crypto
  flags : Nat
  cfg : Cfg
  ctx : Option Ctx

/-- thread state that the opcodes touch.  Stacks have their *top at the head*. -/
structure St where
  ds : List Bytes := []
  as : List Bytes := []
  cond : List Nat := []          -- opCondFalse = 0, opCondTrue = 1, opCondSkip = 2; innermost first
  els : List Bool := []          -- only used after Genesis
  numOps : Nat := 0
  lastCodeSep : Nat := 0
  sepSeen : Bool := false        -- thread.codeSepSeen: an OP_CODESEPARATOR was executed in the current script
  early : Bool := false
  deriving Repr, DecidableEq, Inhabited

/-- result of one opcode -/
inductive Res where
  | ok (s : St)
  | success (s : St)             -- errs.ErrOK: a top-level OP_RETURN after Genesis ends the current script
  | err (code : String)
  | panic (site : String)        -- a Go run-time panic (none is reachable: see GoBT/Props/C07.lean)
  deriving Repr, DecidableEq

def condFalse : Nat := 0
def condTrue : Nat := 1
def condSkip : Nat := 2

def isBranchExecuting (s : St) : Bool :=
  match s.cond with
  | [] => true
  | c :: _ => c == condTrue

/-- thread.shouldExec -/
def shouldExec (env : Env) (s : St) (op : UInt8) : Bool :=
  if !env.cfg.afterGenesis then true
  else (!s.cond.any (· == condFalse)) && (!s.early || op == 0x6a)

def isConditionalOp (b : UInt8) : Bool := b == 0x63 || b == 0x64 || b == 0x67 || b == 0x68 || b == 0x65 || b == 0x66
def isDisabledOp (b : UInt8) : Bool := b == 0x8d || b == 0x8e
def alwaysIllegalOp (b : UInt8) : Bool := b == 0x65 || b == 0x66

/-- ParsedOpcode.enforceMinimumDataPush: `none` = fine -/
def enforceMinimumDataPush (o : POp) : Bool :=
  let n := o.data.length
  let v := o.op.toNat
  if n == 0 && v != 0 then false
  else if n == 1 && 1 ≤ (o.data.headD 0).toNat && (o.data.headD 0).toNat ≤ 16 && v != 0x50 + (o.data.headD 0).toNat then false
  else if n == 1 && o.data.headD 0 == 0x81 && v != 0x4f then false
  else if n ≤ 75 then v == n
  else if n ≤ 255 then v == 0x4c
  else if n ≤ 65535 then v == 0x4d
  else true

/-! ### stack helpers (stack.go) -/

def popN (n : Nat) (l : List Bytes) : Option (List Bytes × List Bytes) :=
  if l.length < n then none else some (l.take n, l.drop n)

/-- PopInt with the stack's number-length limit and minimal-data setting -/
def toNum (env : Env) (b : Bytes) : Except String Int :=
  match makeScriptNumber b env.cfg.maxNumLen (hasFlag env.flags fMinimalData) with
  | .ok z => .ok z
  | .error .tooBig => .error "ErrNumberTooBig"
  | .error .notMinimal => .error "ErrMinimalData"

def pushNum (z : Int) (s : St) : St := { s with ds := encodeNum z :: s.ds }
def pushBool (b : Bool) (s : St) : St := { s with ds := fromBool b :: s.ds }

def stackErr : Res := .err "ErrInvalidStackOperation"

/-- a unary numeric opcode -/
def unaryNum (env : Env) (s : St) (f : Int → Int) : Res :=
  match s.ds with
  | a :: r => match toNum env a with
    | .ok x => .ok { s with ds := encodeNum (f x) :: r }
    | .error e => .err e
  | _ => stackErr

/-- a binary numeric opcode: `f second top` where `top` was pushed last -/
def binaryNum (env : Env) (s : St) (f : Int → Int → Except String Int) : Res :=
  match s.ds with
  | b :: a :: r =>
    match toNum env b with
    | .error e => .err e
    | .ok vb => match toNum env a with
      | .error e => .err e
      | .ok va => match f va vb with
        | .ok z => .ok { s with ds := encodeNum z :: r }
        | .error e => .err e
  | [_] => stackErr
  | [] => stackErr

def boolInt (b : Bool) : Int := if b then 1 else 0

/-- bit-string shifts of a byte array (big-endian bit order), length preserved -/
def bitsOf (x : Bytes) : Nat := x.foldl (fun acc b => acc * 256 + b.toNat) 0
def bytesOfBits (len : Nat) (v : Nat) : Bytes := (leEnc len v).reverse
def shiftLeft (x : Bytes) (n : Nat) : Bytes :=
  if n ≥ 8 * x.length then List.replicate x.length 0 else bytesOfBits x.length ((bitsOf x * 2 ^ n) % 256 ^ x.length)
def shiftRight (x : Bytes) (n : Nat) : Bytes :=
  if n ≥ 8 * x.length then List.replicate x.length 0 else bytesOfBits x.length (bitsOf x / 2 ^ n)

def zipBytes (f : UInt8 → UInt8 → UInt8) (a b : Bytes) : Bytes := List.zipWith f a b

/-- popIfBool -/
def popIfBool (env : Env) (s : St) : Except String (Bool × St) :=
  match s.ds with
  | [] => .error "ErrInvalidStackOperation"
  | b :: r =>
    if hasFlag env.flags fMinimalIf then
      if b.length > 1 then .error "ErrMinimalIf"
      else if b.length == 1 && b.headD 0 != 1 then .error "ErrMinimalIf"
      else .ok (asBool b, { s with ds := r })
    else .ok (asBool b, { s with ds := r })

/-- abstractVerify -/
def verifyTop (code : String) (s : St) : Res :=
  match s.ds with
  | [] => stackErr
  | b :: r => if asBool b then .ok { s with ds := r } else .err code

/-! ### signature checking (thread.go encodings + operations.go CHECKSIG / CHECKMULTISIG) -/

/-- checkHashTypeEncoding: `none` = fine -/
def checkHashTypeEncoding (env : Env) (shf : Nat) : Option String :=
  if !hasFlag env.flags fStrictEnc then none else
  let t0 := shf &&& 0x7f                       -- shf & ^AnyOneCanPay (8-bit)
  if hasFlag env.flags fBip143 && shf &&& 0x40 == 0 then some "ErrInvalidSigHashType" else
  let t := if hasFlag env.flags fBip143 then t0 ^^^ 0x40 else t0
  if t &&& 0x40 != 0x40 then
    (if t < 1 || t > 3 then some "ErrInvalidSigHashType"
     -- replay protection: with FORKID signatures enabled a hash type without the FORKID bit is refused
     else if hasFlag env.flags fForkID && shf &&& 0x40 != 0x40 then some "ErrIllegalForkID" else none)
  else if t < 0x41 || t > 0x43 then some "ErrInvalidSigHashType"
  else if !hasFlag env.flags fForkID && shf &&& 0x40 == 0x40 then some "ErrIllegalForkID"
  else if hasFlag env.flags fForkID && shf &&& 0x40 != 0x40 then some "ErrIllegalForkID"
  else none

/-- checkPubKeyEncoding -/
def checkPubKeyEncoding (env : Env) (pk : Bytes) : Option String :=
  if !hasFlag env.flags fStrictEnc then none
  else if pk.length == 33 && (pk.headD 0 == 0x02 || pk.headD 0 == 0x03) then none
  else if pk.length == 65 && pk.headD 0 == 0x04 then none
  else some "ErrPubKeyType"

def byteAt (b : Bytes) (i : Nat) : Nat := (b.getD i 0).toNat

/-- checkSignatureEncoding (BIP66 strict DER, low-S); every index is in range by the preceding checks -/
def checkSignatureEncoding (env : Env) (sig : Bytes) : Option String :=
  if !(hasFlag env.flags fDERSig || hasFlag env.flags fLowS || hasFlag env.flags fStrictEnc) then none else
  let n := sig.length
  if n < 8 then some "ErrSigTooShort"
  else if n > 72 then some "ErrSigTooLong"
  else if byteAt sig 0 != 0x30 then some "ErrSigInvalidSeqID"
  else if byteAt sig 1 != n - 2 then some "ErrSigInvalidDataLen"
  else
    let rLen := byteAt sig 3
    let sTypeOff := 4 + rLen
    let sLenOff := sTypeOff + 1
    if sTypeOff ≥ n then some "ErrSigMissingSTypeID"
    else if sLenOff ≥ n then some "ErrSigMissingSLen"
    else
      let sOff := sLenOff + 1
      let sLen := byteAt sig sLenOff
      if sOff + sLen != n then some "ErrSigInvalidSLen"
      else if byteAt sig 2 != 0x02 then some "ErrSigInvalidRIntID"
      else if rLen == 0 then some "ErrSigZeroRLen"
      else if byteAt sig 4 &&& 0x80 != 0 then some "ErrSigNegativeR"
      else if rLen > 1 && byteAt sig 4 == 0 && byteAt sig 5 &&& 0x80 == 0 then some "ErrSigTooMuchRPadding"
      else if byteAt sig sTypeOff != 0x02 then some "ErrSigInvalidSIntID"
      else if sLen == 0 then some "ErrSigZeroSLen"
      else if byteAt sig sOff &&& 0x80 != 0 then some "ErrSigNegativeS"
      else if sLen > 1 && byteAt sig sOff == 0 && byteAt sig (sOff + 1) &&& 0x80 == 0 then some "ErrSigTooMuchSPadding"
      else if hasFlag env.flags fLowS && env.H.highS ((sig.drop sOff).take sLen) then some "ErrSigHighS"
      else none

/-- ParsedOpcode.canonicalPush -/
def canonicalPush (o : POp) : Bool :=
  let v := o.op.toNat
  let n := o.data.length
  if v > 0x60 then true
  else if v < 0x4c && v > 0 && (n == 1 && (o.data.headD 0).toNat ≤ 16) then false
  else if v == 0x4c && n < 0x4c then false
  else if v == 0x4d && n ≤ 0xff then false
  else if v == 0x4e && n ≤ 0xffff then false
  else true

/-- `bytes.Contains(hay, needle)` (what go-bt's cleanup tested before fix F-C06-04; kept for the counterexample) -/
def containsBytes (hay needle : Bytes) : Bool :=
  (List.range (hay.length + 1)).any fun i => needle.isPrefixOf (hay.drop i)

/-- removeOpcodeByData: the script minus every canonical push of exactly `data` — the node's FindAndDelete of the
    signature push.  (A push that merely *contains* the signature stays: it is not the signature.) -/
def removeOpcodeByData (ops : List POp) (data : Bytes) : List POp :=
  ops.filter fun o => !(o.op.toNat ≤ 0x4e && canonicalPush o && o.data == data)

/-- the pre-fix cleanup (containment instead of equality, any opcode) -/
def removeOpcodeContaining (ops : List POp) (data : Bytes) : List POp :=
  ops.filter fun o => !canonicalPush o || !containsBytes o.data data

def removeOpcode (ops : List POp) (b : UInt8) : List POp := ops.filter (·.op != b)

/-- the digest CHECKSIG verifies: script code → clone with the script code as previous script →
    CalcInputSignatureHash.  `none` = the digest computation reported an error. -/
def sigDigest (env : Env) (c : Ctx) (scriptCode : Bytes) (shf : Nat) : Option Bytes :=
  let sha256d : Bytes → Bytes := fun b => env.H.sha256 (env.H.sha256 b)
  let ins := c.tx.inputs.zipIdx.map fun (i, k) =>
    if k == c.idx then { i with prevScript := some scriptCode, prevSats := c.prevOut.sats } else i
  match Sighash.signatureHash sha256d { c.tx with inputs := ins } c.idx shf with
  | .ok h => some h
  | .error _ => none

/-- opcodeCheckSig; `sub` is the current script from the last OP_CODESEPARATOR on -/
def opCheckSig (env : Env) (sub : List POp) (s : St) : Res :=
  match s.ds with
  | pk :: fullSig :: r =>
    let s := { s with ds := r }
    -- an empty signature is the compact way to fail; the public key's encoding is policed all the same (the node checks
    -- both encodings before it looks at the signature; finding F-C06-06: the code used to push false first)
    if fullSig.length < 1 then
      (match checkPubKeyEncoding env pk with
       | some e => .err e
       | none => .ok (pushBool false s)) else
    let shf := (fullSig.getLast?.getD 0).toNat
    let sig := fullSig.dropLast
    match checkHashTypeEncoding env shf with
    | some e => .err e
    | none =>
    match checkSignatureEncoding env sig with
    | some e => .err e
    | none =>
    match checkPubKeyEncoding env pk with
    | some e => .err e
    | none =>
    let sub := if !hasFlag env.flags fForkID || shf &&& 0x40 != 0x40
      then removeOpcode (removeOpcodeByData sub fullSig) 0xab else sub
    match unparse sub with
    | .error _ => .err "ErrInternal"
    | .ok code =>
    match env.ctx with
    | none => .panic "checksig-without-tx"
    | some c =>
    match sigDigest env c code shf with
    | none => .err "ErrSigHash"
    | some h =>
      let failed : Res := if hasFlag env.flags fNullFail && sig.length > 0 then .err "ErrNullFail"
                          else .ok (pushBool false s)
      if !env.H.pubKeyOk pk then failed else
      match env.H.verify (hasFlag env.flags fStrictEnc || hasFlag env.flags fDERSig) sig h pk with
      | none => failed
      | some ok =>
        if !ok && hasFlag env.flags fNullFail && sig.length > 0 then .err "ErrNullFail"
        else .ok (pushBool ok s)
  | _ => stackErr

/-- the key/signature matching loop of opcodeCheckMultiSig.  `sigs` and `keys` are in pop order.
    Returns `inl err` for a hard failure, `inr success`. -/
def multisigLoop (env : Env) (c : Ctx) (code : Except PErr Bytes) :
    (fuel : Nat) → (sigs keys : List Bytes) → (parsedBad : List Bytes) → Sum String Bool
  | 0, _, _, _ => .inr false
  | fuel + 1, sigs, keys, bad =>
    match sigs with
    | [] => .inr true
    | sg :: sigsRest =>
      match keys with
      | [] => .inr false
      | key :: keysRest =>
        if sigs.length > keys.length then .inr false
        else if sg.length == 0 then
          -- an empty signature matches no key, but every key it is tried against has its encoding policed (F-C06-06)
          (match checkPubKeyEncoding env key with
           | some e => .inl e
           | none => multisigLoop env c code fuel sigs keysRest bad)
        else
          let shf := (sg.getLast?.getD 0).toNat
          let sig := sg.dropLast
          -- the encoding checks run the first time a signature is looked at
          let firstLook := !(bad.contains sg)
          match (if firstLook then checkHashTypeEncoding env shf else none) with
          | some e => .inl e
          | none =>
          match (if firstLook then checkSignatureEncoding env sig else none) with
          | some e => .inl e
          | none =>
          match checkPubKeyEncoding env key with
          | some e => .inl e
          | none =>
            if !env.H.pubKeyOk key then multisigLoop env c code fuel sigs keysRest bad else
            match code with
            | .error _ => .inr false
            | .ok sc =>
              match sigDigest env c sc shf with
              | none => .inr false
              | some h =>
                match env.H.verify (hasFlag env.flags fStrictEnc || hasFlag env.flags fDERSig) sig h key with
                | none => multisigLoop env c code fuel sigs keysRest (sg :: bad)
                | some true => multisigLoop env c code fuel sigsRest keysRest bad
                | some false => multisigLoop env c code fuel sigs keysRest bad

/-- opcodeCheckMultiSig -/
def opCheckMultiSig (env : Env) (sub : List POp) (s : St) : Res :=
  match s.ds with
  | [] => stackErr
  | nk :: r1 =>
    match toNum env nk with
    | .error e => .err e
    | .ok nkz =>
    let numKeys := clamp64 nkz
    if numKeys < 0 then .err "ErrInvalidPubKeyCount"
    else if numKeys > env.cfg.maxPubKeys then .err "ErrInvalidPubKeyCount"
    else
    let nKeys := numKeys.toNat
    let numOps := s.numOps + nKeys
    if numOps > env.cfg.maxOps then .err "ErrTooManyOperations" else
    match popN nKeys r1 with
    | none => stackErr
    | some (keys, r2) =>
    match r2 with
    | [] => stackErr
    | ns :: r3 =>
    match toNum env ns with
    | .error e => .err e
    | .ok nsz =>
    let numSigs := clamp64 nsz
    if numSigs < 0 then .err "ErrInvalidSignatureCount"
    else if numSigs > nKeys then .err "ErrInvalidSignatureCount"
    else
    match popN numSigs.toNat r3 with
    | none => stackErr
    | some (sigs, r4) =>
    match r4 with
    | [] => stackErr
    | dummy :: r5 =>
    if hasFlag env.flags fStrictMultiSig && dummy.length != 0 then .err "ErrSigNullDummy" else
    let s := { s with ds := r5, numOps := numOps }
    let legacySig (sg : Bytes) : Bool := !hasFlag env.flags fForkID || (sg.getLast?.getD 0).toNat &&& 0x40 != 0x40
    let script := sigs.foldl (fun sc sg =>
      if sg.length > 0 && !legacySig sg then sc else removeOpcode (removeOpcodeByData sc sg) 0xab) sub
    match env.ctx with
    | none => .panic "checkmultisig-without-tx"
    | some c =>
    match multisigLoop env c (unparse script) (keys.length + sigs.length + 1) sigs keys [] with
    | .inl e => .err e
    | .inr ok =>
      if !ok && hasFlag env.flags fNullFail && sigs.any (·.length > 0) then .err "ErrNullFail"
      else .ok (pushBool ok s)

/-- LockTimeThreshold and SequenceLockTimeIsSeconds as named constants (kept folded in proofs: large `Int`
    literals under dependent matches make the kernel's defeq check recurse deeply) -/
def lockTimeThreshold : Int := 500000000
def seqLockTimeSeconds : Int := 4194304
def maxTxInSequenceNum : Nat := 0xffffffff
def seqLockTimeDisabled : Nat := 2147483648
def seqLockTimeMask : Nat := 4194304 ||| 65535

/-- verifyLockTime -/
def verifyLockTime (txLock threshold lock : Int) : Option String :=
  if !((txLock < threshold && lock < threshold) || (txLock ≥ threshold && lock ≥ threshold)) then some "ErrUnsatisfiedLockTime"
  else if lock > txLock then some "ErrUnsatisfiedLockTime"
  else none

/-! ### one opcode (thread.executeOpcode + the handler) -/

/-- 0x61–0x6a: NOP, conditionals, VERIFY, RETURN -/
def handlerFlow (env : Env) (o : POp) (s : St) (v : Nat) : Res :=
  match v with
  | 0x61 => .ok s                                                    -- NOP
  | 0x62 => .err "ErrReservedOpcode"                                 -- VER
  | 0x63 | 0x64 =>                                                   -- IF / NOTIF
    if shouldExec env s o.op then
      if isBranchExecuting s then
        match popIfBool env s with
        | .error e => .err e
        | .ok (b, s') =>
          let taken := if v == 0x63 then b else !b
          .ok { s' with cond := (if taken then condTrue else condFalse) :: s'.cond, els := false :: s'.els }
      else .ok { s with cond := condSkip :: s.cond, els := false :: s.els }
    else .ok { s with cond := condFalse :: s.cond, els := false :: s.els }
  | 0x65 | 0x66 =>                                                   -- VERIF / VERNOTIF
    if env.cfg.afterGenesis && !shouldExec env s o.op then .ok s else .err "ErrReservedOpcode"
  | 0x67 =>                                                          -- ELSE
    match s.cond with
    | [] => .err "ErrUnbalancedConditional"
    | c :: cs =>
      if env.cfg.afterGenesis then
        match s.els with
        | [] => stackErr
        | e :: es =>
          if e then .err "ErrUnbalancedConditional"
          else .ok { s with cond := (if c == condTrue then condFalse else if c == condFalse then condTrue else c) :: cs,
                            els := true :: es }
      else .ok { s with cond := (if c == condTrue then condFalse else if c == condFalse then condTrue else c) :: cs }
  | 0x68 =>                                                          -- ENDIF
    match s.cond with
    | [] => .err "ErrUnbalancedConditional"
    | _ :: cs =>
      if env.cfg.afterGenesis then
        match s.els with
        | [] => stackErr
        | _ :: es => .ok { s with cond := cs, els := es }
      else .ok { s with cond := cs }
  | 0x69 => verifyTop "ErrVerify" s                                   -- VERIFY
  | 0x6a =>                                                          -- RETURN
    if !env.cfg.afterGenesis then .err "ErrEarlyReturn"
    else if s.cond.isEmpty then .success { s with early := true } else .ok { s with early := true }
  | _ => .err "ErrReservedOpcode"

/-- 0x6b–0x7d: stack manipulation -/
def handlerStack (env : Env) (s : St) (v : Nat) : Res :=
  match v with
  | 0x6b => match s.ds with | a :: r => .ok { s with ds := r, as := a :: s.as } | _ => stackErr
  | 0x6c => match s.as with | a :: r => .ok { s with as := r, ds := a :: s.ds } | _ => stackErr
  | 0x6d => match s.ds with | _ :: _ :: r => .ok { s with ds := r } | _ => stackErr          -- 2DROP
  | 0x6e => match s.ds with | a :: b :: r => .ok { s with ds := a :: b :: a :: b :: r } | _ => stackErr
  | 0x6f => match s.ds with | a :: b :: c :: r => .ok { s with ds := a :: b :: c :: a :: b :: c :: r } | _ => stackErr
  | 0x70 => match s.ds with | a :: b :: c :: d :: r => .ok { s with ds := c :: d :: a :: b :: c :: d :: r } | _ => stackErr
  | 0x71 => match s.ds with | a :: b :: c :: d :: e :: f :: r => .ok { s with ds := e :: f :: a :: b :: c :: d :: r } | _ => stackErr
  | 0x72 => match s.ds with | a :: b :: c :: d :: r => .ok { s with ds := c :: d :: a :: b :: r } | _ => stackErr
  | 0x73 => match s.ds with | a :: r => .ok (if asBool a then { s with ds := a :: a :: r } else s) | _ => stackErr
  | 0x74 => .ok (pushNum s.ds.length s)                               -- DEPTH
  | 0x75 => match s.ds with | _ :: r => .ok { s with ds := r } | _ => stackErr
  | 0x76 => match s.ds with | a :: r => .ok { s with ds := a :: a :: r } | _ => stackErr
  | 0x77 => match s.ds with | a :: _ :: r => .ok { s with ds := a :: r } | _ => stackErr       -- NIP
  | 0x78 => match s.ds with | a :: b :: r => .ok { s with ds := b :: a :: b :: r } | _ => stackErr
  | 0x79 | 0x7a =>                                                   -- PICK / ROLL
    match s.ds with
    | [] => stackErr
    | nb :: r =>
      match toNum env nb with
      | .error e => .err e
      | .ok z =>
        let n := clamp32 z
        if n < 0 || n.toNat ≥ r.length then stackErr
        else
          let x := r.getD n.toNat []
          if v == 0x79 then .ok { s with ds := x :: r }
          else .ok { s with ds := x :: (r.take n.toNat ++ r.drop (n.toNat + 1)) }
  | 0x7b => match s.ds with | a :: b :: c :: r => .ok { s with ds := c :: a :: b :: r } | _ => stackErr   -- ROT
  | 0x7c => match s.ds with | a :: b :: r => .ok { s with ds := b :: a :: r } | _ => stackErr
  | 0x7d => match s.ds with | a :: b :: r => .ok { s with ds := a :: b :: a :: r } | _ => stackErr       -- TUCK
  | _ => .err "ErrReservedOpcode"

/-- 0x7e–0x8a: splice and bitwise -/
def handlerSplice (env : Env) (s : St) (v : Nat) : Res :=
  match v with
  | 0x7e =>                                                          -- CAT
    match s.ds with
    | b :: a :: r => if (a ++ b).length > env.cfg.maxElem then .err "ErrElementTooBig" else .ok { s with ds := (a ++ b) :: r }
    | _ => stackErr
  | 0x7f =>                                                          -- SPLIT
    match s.ds with
    | nb :: c :: r =>
      match toNum env nb with
      | .error e => .err e
      | .ok z =>
        if clamp32 z > c.length then .err "ErrNumberTooBig"
        else if z < 0 then .err "ErrNumberTooSmall"
        else .ok { s with ds := c.drop z.toNat :: c.take z.toNat :: r }
    | [_] => (match toNum env (s.ds.headD []) with | .error e => .err e | .ok _ => stackErr)
    | [] => stackErr
  | 0x80 =>                                                          -- NUM2BIN
    match s.ds with
    | nb :: a :: r =>
      match toNum env nb with
      | .error e => .err e
      | .ok n =>
        if n > env.cfg.maxElem then .err "ErrNumberTooBig" else
        let b := encodeNum (decodeNum a)
        if n < b.length then .err "ErrNumberTooSmall"
        else if n == b.length then .ok { s with ds := b :: r }
        else
          let sign : UInt8 := if b.isEmpty then 0 else (b.getLast?.getD 0) &&& 0x80
          let body := if b.isEmpty then [] else b.dropLast ++ [(b.getLast?.getD 0) &&& 0x7f]
          .ok { s with ds := (body ++ List.replicate (n.toNat - body.length - 1) 0 ++ [sign]) :: r }
    | [_] => (match toNum env (s.ds.headD []) with | .error e => .err e | .ok _ => stackErr)
    | [] => stackErr
  | 0x81 =>                                                          -- BIN2NUM
    match s.ds with
    | a :: r =>
      let b := minimallyEncode a
      if b.length > env.cfg.maxNumLen then .err "ErrNumberTooBig" else .ok { s with ds := b :: r }
    | _ => stackErr
  | 0x82 => match s.ds with | a :: _ => .ok (pushNum a.length s) | _ => stackErr              -- SIZE
  | 0x83 => match s.ds with | a :: r => .ok { s with ds := a.map (· ^^^ 0xff) :: r } | _ => stackErr
  | 0x84 | 0x85 | 0x86 =>                                            -- AND / OR / XOR
    match s.ds with
    | a :: b :: r =>
      if a.length != b.length then .err "ErrInvalidInputLength"
      else .ok { s with ds := zipBytes (if v == 0x84 then (· &&& ·) else if v == 0x85 then (· ||| ·) else (· ^^^ ·)) a b :: r }
    | _ => stackErr
  | 0x87 => match s.ds with | a :: b :: r => .ok { s with ds := fromBool (a == b) :: r } | _ => stackErr
  | 0x88 => match s.ds with
    | a :: b :: r => if a == b then .ok { s with ds := r } else .err "ErrEqualVerify"
    | _ => stackErr
  | 0x89 | 0x8a => .err "ErrReservedOpcode"
  | _ => .err "ErrReservedOpcode"

/-- 0x8b–0xa5: arithmetic -/
def handlerNum (env : Env) (s : St) (v : Nat) : Res :=
  match v with
  | 0x8b => unaryNum env s (· + 1)
  | 0x8c => unaryNum env s (· - 1)
  | 0x8d | 0x8e => .err "ErrDisabledOpcode"
  | 0x8f => unaryNum env s (fun x => -x)
  | 0x90 => unaryNum env s (fun x => x.natAbs)
  | 0x91 => unaryNum env s (fun x => boolInt (x == 0))
  | 0x92 => unaryNum env s (fun x => boolInt (x != 0))
  | 0x93 => binaryNum env s (fun a b => .ok (a + b))
  | 0x94 => binaryNum env s (fun a b => .ok (a - b))
  | 0x95 => binaryNum env s (fun a b => .ok (a * b))
  | 0x96 => binaryNum env s (fun a b => if b == 0 then .error "ErrDivideByZero" else .ok (Int.tdiv a b))
  | 0x97 => binaryNum env s (fun a b => if b == 0 then .error "ErrDivideByZero" else .ok (Int.tmod a b))
  | 0x98 | 0x99 =>                                                   -- LSHIFT / RSHIFT
    match s.ds with
    | nb :: x :: r =>
      match toNum env nb with
      | .error e => .err e
      | .ok n =>
        if n < 0 then .err "ErrNumberTooSmall"
        else .ok { s with ds := (if v == 0x98 then shiftLeft x n.toNat else shiftRight x n.toNat) :: r }
    | [_] => (match toNum env (s.ds.headD []) with
              | .error e => .err e
              | .ok n => if n < 0 then .err "ErrNumberTooSmall" else stackErr)
    | [] => stackErr
  | 0x9a => binaryNum env s (fun a b => .ok (boolInt (a != 0 && b != 0)))
  | 0x9b => binaryNum env s (fun a b => .ok (boolInt (a != 0 || b != 0)))
  | 0x9c => binaryNum env s (fun a b => .ok (boolInt (a == b)))
  | 0x9d => (match binaryNum env s (fun a b => .ok (boolInt (a == b))) with
             | .ok s' => verifyTop "ErrNumEqualVerify" s'
             | r => r)
  | 0x9e => binaryNum env s (fun a b => .ok (boolInt (a != b)))
  | 0x9f => binaryNum env s (fun a b => .ok (boolInt (a < b)))
  | 0xa0 => binaryNum env s (fun a b => .ok (boolInt (a > b)))
  | 0xa1 => binaryNum env s (fun a b => .ok (boolInt (a ≤ b)))
  | 0xa2 => binaryNum env s (fun a b => .ok (boolInt (a ≥ b)))
  | 0xa3 => binaryNum env s (fun a b => .ok (if a < b then a else b))
  | 0xa4 => binaryNum env s (fun a b => .ok (if a > b then a else b))
  | 0xa5 =>                                                          -- WITHIN
    match s.ds with
    | mx :: mn :: x :: r =>
      match toNum env mx with
      | .error e => .err e
      | .ok vmax => match toNum env mn with
        | .error e => .err e
        | .ok vmin => match toNum env x with
          | .error e => .err e
          | .ok vx => .ok { s with ds := encodeNum (boolInt (vmin ≤ vx && vx < vmax)) :: r }
    | [mx, mn] => (match toNum env mx with
        | .error e => .err e
        | .ok _ => match toNum env mn with | .error e => .err e | .ok _ => stackErr)
    | [mx] => (match toNum env mx with | .error e => .err e | .ok _ => stackErr)
    | [] => stackErr
  | _ => .err "ErrReservedOpcode"

/-- thread.subScript: the script code starts after the most recently executed OP_CODESEPARATOR of the current
    script; `none` = Go's "slice bounds out of range" (proved unreachable: GoBT/Interp/NoPanic*.lean) -/
def subScript (cur : List POp) (s : St) : Option (List POp) :=
  if s.lastCodeSep > 0 || s.sepSeen then
    (if s.lastCodeSep + 1 > cur.length then none else some (cur.drop (s.lastCodeSep + 1)))
  else some cur

/-- 0xa6–0xaf: hashes, CODESEPARATOR, signature checks -/
def handlerCrypto (env : Env) (cur : List POp) (off : Nat) (s : St) (v : Nat) : Res :=
  match v with
  | 0xa6 => match s.ds with | a :: r => .ok { s with ds := env.H.ripemd160 a :: r } | _ => stackErr
  | 0xa7 => match s.ds with | a :: r => .ok { s with ds := env.H.sha1 a :: r } | _ => stackErr
  | 0xa8 => match s.ds with | a :: r => .ok { s with ds := env.H.sha256 a :: r } | _ => stackErr
  | 0xa9 => match s.ds with | a :: r => .ok { s with ds := env.H.ripemd160 (env.H.sha256 a) :: r } | _ => stackErr
  | 0xaa => match s.ds with | a :: r => .ok { s with ds := env.H.sha256 (env.H.sha256 a) :: r } | _ => stackErr
  | 0xab => .ok { s with lastCodeSep := off, sepSeen := true }        -- CODESEPARATOR
  | 0xac | 0xad =>                                                   -- CHECKSIG(VERIFY)
    (match subScript cur s with
     | none => .panic "subScript: slice bounds out of range"
     | some sub =>
       match opCheckSig env sub s with
       | .ok s' => if v == 0xad then verifyTop "ErrCheckSigVerify" s' else .ok s'
       | r => r)
  | 0xae | 0xaf =>                                                   -- CHECKMULTISIG(VERIFY)
    (match subScript cur s with
     | none => .panic "subScript: slice bounds out of range"
     | some sub =>
       match opCheckMultiSig env sub s with
       | .ok s' => if v == 0xaf then verifyTop "ErrCheckMultiSigVerify" s' else .ok s'
       | r => r)
  | _ => .err "ErrReservedOpcode"

/-- fail with the given error, if any, else continue.  (A named function rather than an inline `match`: the kernel
    reduces matcher applications eagerly, and reducing `verifyLockTime x 500000000 y` symbolically makes it recurse on the
    literal.) -/
def errOr (r : Option String) (k : Res) : Res :=
  match r with
  | some e => .err e
  | none => k

/-- the transaction-dependent part of OP_CHECKLOCKTIMEVERIFY -/
def cltvWithTx (c : Ctx) (lock : Int) (s : St) : Res :=
  errOr (verifyLockTime c.tx.lockTime lockTimeThreshold (clamp64 lock))
    (if (c.tx.inputs.getD c.idx default).sequence == maxTxInSequenceNum then .err "ErrUnsatisfiedLockTime" else .ok s)

/-- the transaction-dependent part of OP_CHECKSEQUENCEVERIFY -/
def csvWithTx (c : Ctx) (sequence : Nat) (s : St) : Res :=
  if c.tx.version < 2 then .err "ErrUnsatisfiedLockTime" else
  let txSeq := (c.tx.inputs.getD c.idx default).sequence
  if txSeq &&& seqLockTimeDisabled != 0 then .err "ErrUnsatisfiedLockTime" else
  let mask := seqLockTimeMask
  errOr (verifyLockTime (txSeq &&& mask : Nat) seqLockTimeSeconds (sequence &&& mask : Nat)) (.ok s)

/-- 0xb0–0xb9: NOPs and lock-time checks -/
def handlerLock (env : Env) (s : St) (v : Nat) : Res :=   -- v = opcode − 0xb0
  match v with
  | 0 | 3 | 4 | 5 | 6 | 7 | 8 | 9 =>           -- NOP1, NOP4..NOP10
    if hasFlag env.flags fDiscourageNops then .err "ErrDiscourageUpgradableNOPs" else .ok s
  | 1 =>                                                          -- CHECKLOCKTIMEVERIFY
    if !hasFlag env.flags fCLTV || env.cfg.afterGenesis then
      (if hasFlag env.flags fDiscourageNops then .err "ErrDiscourageUpgradableNOPs" else .ok s)
    else match s.ds with
      | [] => stackErr
      | so :: _ =>
        match makeScriptNumber so 5 (hasFlag env.flags fMinimalData) with
        | .error .tooBig => .err "ErrNumberTooBig"
        | .error .notMinimal => .err "ErrMinimalData"
        | .ok lock =>
          if lock < 0 then .err "ErrNegativeLockTime" else
          match env.ctx with
          | none => .err "ErrInvalidParams"
          | some c => cltvWithTx c lock s
  | 2 =>                                                          -- CHECKSEQUENCEVERIFY
    if !hasFlag env.flags fCSV || env.cfg.afterGenesis then
      (if hasFlag env.flags fDiscourageNops then .err "ErrDiscourageUpgradableNOPs" else .ok s)
    else match s.ds with
      | [] => stackErr
      | so :: _ =>
        match makeScriptNumber so 5 (hasFlag env.flags fMinimalData) with
        | .error .tooBig => .err "ErrNumberTooBig"
        | .error .notMinimal => .err "ErrMinimalData"
        | .ok sq =>
          if sq < 0 then .err "ErrNegativeLockTime" else
          let sequence := (clamp64 sq).toNat
          if sequence &&& seqLockTimeDisabled != 0 then .ok s else
          match env.ctx with
          | none => .panic "csv-without-tx"
          | some c => csvWithTx c sequence s
  | _ => .err "ErrReservedOpcode"

/-- the handler of opcode `o` at offset `off` of script `cur` -/
def handler (env : Env) (cur : List POp) (off : Nat) (o : POp) (s : St) : Res :=
  let v := o.op.toNat
  -- pushes
  if v == 0x00 then .ok { s with ds := [] :: s.ds }
  else if v ≤ 0x4e then .ok { s with ds := o.data :: s.ds }
  else if v == 0x4f then .ok (pushNum (-1) s)
  else if v == 0x50 then .err "ErrReservedOpcode"
  else if v ≤ 0x60 then .ok { s with ds := [UInt8.ofNat (v - 0x50)] :: s.ds }
  else if v ≤ 0x6a then handlerFlow env o s v
  else if v ≤ 0x7d then handlerStack env s v
  else if v ≤ 0x8a then handlerSplice env s v
  else if v ≤ 0xa5 then handlerNum env s v
  else if v ≤ 0xaf then handlerCrypto env cur off s v
  else if v ≤ 0xb9 then handlerLock env s (v - 0xb0)
  else .err "ErrReservedOpcode"                                      -- 0xba..0xff: opcodeInvalid

/-- counting the operation: every opcode above OP_16 counts towards the per-script limit -/
def bump (o : POp) (s : St) : St := if o.op.toNat > 0x60 then { s with numOps := s.numOps + 1 } else s

/-- thread.executeOpcode -/
def executeOpcode (env : Env) (cur : List POp) (off : Nat) (o : POp) (s : St) : Res :=
  if o.data.length > env.cfg.maxElem then .err "ErrElementTooBig" else
  let exec := shouldExec env s o.op
  if isDisabledOp o.op && (!env.cfg.afterGenesis || exec) then .err "ErrDisabledOpcode"
  else if alwaysIllegalOp o.op && !env.cfg.afterGenesis then .err "ErrReservedOpcode"
  else
    let s := bump o s
    if o.op.toNat > 0x60 && s.numOps > env.cfg.maxOps then .err "ErrTooManyOperations"
    else if !isBranchExecuting s && !isConditionalOp o.op then .ok s
    else if hasFlag env.flags fMinimalData && isBranchExecuting s && o.op.toNat ≤ 0x4e && exec &&
            !enforceMinimumDataPush o then .err "ErrMinimalData"
    else if !exec && !isConditionalOp o.op then .ok s
    else if o.len != opLength o.op then .panic "nil-handler(unformatted data)"
    else handler env cur off o s

/-! ### running scripts (thread.Step / execute) -/

/-- snapshot handed to Debugger.AfterStep (the part that is compared) -/
structure Snap where
  sidx : Nat
  soff : Int
  st : St
  deriving Repr, DecidableEq

/-- thread.State clamps the program counter it reports: past the last script → last opcode of the last
    script; past the end of a script → its last opcode (−1 for an empty script) -/
def clampSnap (lens : List Nat) (sidx : Nat) (st : St) : Snap :=
  if sidx ≥ lens.length then
    let k := lens.length - 1
    ⟨k, (lens.getD k 0 : Int) - 1, st⟩
  else if lens.getD sidx 0 = 0 then ⟨sidx, -1, st⟩
  else ⟨sidx, 0, st⟩

inductive ScriptEnd where
  | finished (s : St)            -- ran off the end of the script
  | returned (s : St)            -- top-level OP_RETURN after Genesis
  | failed (code : String)
  | panicked (site : String)
  deriving Repr, DecidableEq

/-- run the opcodes `ops` (a suffix of script `cur`, starting at offset `off`), recording the state after
    every step that is followed by another step of the same script -/
def runOps (env : Env) (sidx : Nat) (cur : List POp) : List POp → Nat → St → List Snap → ScriptEnd × List Snap
  | [], _, s, tr => (.finished s, tr)
  | o :: rest, off, s, tr =>
    match executeOpcode env cur off o s with
    | .err e => (.failed e, tr)
    | .panic p => (.panicked p, tr)
    | .success s' => (.returned s', tr)
    | .ok s' =>
      if s'.ds.length + s'.as.length > env.cfg.maxStack then (.failed "ErrStackOverflow", tr)
      else match rest with
        | [] => (.finished s', tr)
        | _ => runOps env sidx cur rest (off + 1) s' (⟨sidx, ((off + 1 : Nat) : Int), s'⟩ :: tr)

inductive Verdict where
  | accept
  | reject (code : String)
  | panic (site : String)
  deriving Repr, DecidableEq

/-- thread.CheckErrorCondition -/
def checkErrorCondition (env : Env) (final : Bool) (s : St) : Except String St :=
  match s.ds with
  | [] => .error "ErrEmptyStack"
  | top :: r =>
    if final && hasFlag env.flags fCleanStack && s.ds.length != 1 then .error "ErrCleanStack"
    else if !asBool top then .error "ErrEvalFalse"
    else .ok { s with ds := r }

def isPushOnly (ops : List POp) : Bool := ops.all (·.op.toNat ≤ 0x60)

/-- everything thread.apply decides before the first step -/
structure Prepared where
  env : Env
  unlock : List POp
  lock : List POp
  unlockEmpty : Bool
  bip16 : Bool

def mkEnv (H : Crypto) (flags : Nat) (ctx : Option Ctx) : Env :=
  let flags := if hasFlag flags fForkID then flags ||| fStrictEnc else flags
  { H := H, flags := flags, cfg := if hasFlag flags fAfterGenesis then cfgAfter else cfgBefore, ctx := ctx }

/-- thread.apply (after option validation): `inl` = the error returned before execution starts -/
def prepare (H : Crypto) (flags : Nat) (ctx : Option Ctx) (unlock lock : Bytes) : Sum String Prepared :=
  let env := mkEnv H flags ctx
  if unlock.isEmpty && lock.isEmpty then .inl "ErrEvalFalse"
  else if hasFlag env.flags fCleanStack && !hasFlag env.flags fBip16 then .inl "ErrInvalidFlags"
  else if unlock.length > env.cfg.maxScriptSize then .inl "ErrScriptTooBig"
  else if lock.length > env.cfg.maxScriptSize then .inl "ErrScriptTooBig"
  else
    match parseScript unlock ctx.isNone with
    | .error .requiresTx => .inl "ErrInvalidParams"
    | .error _ => .inl "ErrMalformedPush"
    | .ok uops =>
      match parseScript lock ctx.isNone with
      | .error .requiresTx => .inl "ErrInvalidParams"
      | .error _ => .inl "ErrMalformedPush"
      | .ok lops =>
        if hasFlag env.flags fSigPushOnly && !isPushOnly uops then .inl "ErrNotPushOnly"
        -- pay-to-script-hash exists before Genesis only: afterwards such an output is an ordinary hash puzzle
        else if hasFlag env.flags fBip16 && !env.cfg.afterGenesis && isP2SH lock && !isPushOnly uops then .inl "ErrNotPushOnly"
        else .inr { env := env, unlock := uops, lock := lops, unlockEmpty := unlock.isEmpty,
                    bip16 := hasFlag env.flags fBip16 && isP2SH lock }

/-- how a script ended, with the state handed to the next script (after thread.shiftScript) -/
inductive Ended where
  | normal (s : St)      -- ran to its end: conditionals balanced, alt stack cleared, counters reset
  | byReturn (s : St)    -- top-level OP_RETURN after Genesis: the script succeeds there; the same hand-over as `normal`
  | stop (v : Verdict)

/-- one non-empty script from its first opcode -/
def runScript (env : Env) (sidx : Nat) (ops : List POp) (s : St) (tr : List Snap) : Ended × List Snap :=
  match runOps env sidx ops ops 0 s tr with
  | (.failed e, tr) => (.stop (.reject e), tr)
  | (.panicked p, tr) => (.stop (.panic p), tr)
  | (.returned s', tr) =>
    -- each script has its own alt stack (the node's EvalScript keeps it in a local): it does not persist after an early
    -- return either (finding F-C05-04: the code used to skip this on the early-return path)
    (.byReturn { s' with as := [], numOps := 0, early := false, lastCodeSep := 0, sepSeen := false }, tr)
  | (.finished s', tr) =>
    if !s'.cond.isEmpty then (.stop (.reject "ErrUnbalancedConditional"), tr)
    else (.normal { s' with as := [], numOps := 0, early := false, lastCodeSep := 0, sepSeen := false }, tr)

def finalCheck (env : Env) (s : St) (tr : List Snap) : Verdict × List Snap :=
  match checkErrorCondition env true s with
  | .ok _ => (.accept, tr)
  | .error e => (.reject e, tr)

/-- the redeem-script phase of pay-to-script-hash (before Genesis only) -/
def runP2SH (env : Env) (noTx : Bool) (lensUL : List Nat) (saved : List Bytes) (s2 : St) (tr : List Snap) :
    Verdict × List Snap :=
  match checkErrorCondition env false s2 with
  | .error e => (.reject e, tr)
  | .ok _ =>
    match saved with
    | [] => (.panic "savedFirstStack[-1]", tr)
    | redeem :: restStack =>
      match parseScript redeem noTx with
      | .error .requiresTx => (.reject "ErrInvalidParams", tr)
      | .error _ => (.reject "ErrMalformedPush", tr)
      | .ok rops =>
        let lens := lensUL ++ [rops.length]
        let s3 : St := { s2 with ds := restStack }
        match rops with
        | [] => finalCheck env s3 (clampSnap lens 3 s3 :: tr)
        | _ =>
          match runScript env 2 rops s3 (clampSnap lens 2 s3 :: tr) with
          | (.stop v, tr) => (v, tr)
          | (.byReturn s4, tr) => finalCheck env s4 (clampSnap lens 3 s4 :: tr)
          | (.normal s4, tr) => finalCheck env s4 (clampSnap lens 3 s4 :: tr)

/-- the locking-script phase and what follows -/
def runLock (env : Env) (p : Prepared) (noTx : Bool) (saved : List Bytes) (s1 : St) (tr : List Snap) :
    Verdict × List Snap :=
  let lens := [p.unlock.length, p.lock.length]
  match runScript env 1 p.lock s1 tr with
  | (.stop v, tr) => (v, tr)
  | (.byReturn s2, tr) => finalCheck env s2 (clampSnap lens 2 s2 :: tr)
  | (.normal s2, tr) =>
    if p.bip16 && !env.cfg.afterGenesis then runP2SH env noTx lens saved s2 tr
    else finalCheck env s2 (clampSnap lens 2 s2 :: tr)

/-- Engine.Execute for scripts that passed option validation.  The trace holds the AfterStep snapshots in
    reverse order. -/
def execute (H : Crypto) (flags : Nat) (ctx : Option Ctx) (unlock lock : Bytes) : Verdict × List Snap :=
  match prepare H flags ctx unlock lock with
  | .inl e => (.reject e, [])
  | .inr p =>
    let env := p.env
    let lens := [p.unlock.length, p.lock.length]
    match p.unlock with
    | [] =>
      -- empty unlocking script: execution starts in the locking script (which is then non-empty)
      runLock env p ctx.isNone [] {} []
    | _ =>
      match runScript env 0 p.unlock {} [] with
      | (.stop v, tr) => (v, tr)
      | (.byReturn s1, tr) =>
        -- an early return ends the unlocking script like its last opcode would: an empty locking script is skipped
        (match p.lock with
         | [] => finalCheck env s1 (clampSnap lens 2 s1 :: tr)
         | _ => runLock env p ctx.isNone s1.ds s1 (clampSnap lens 1 s1 :: tr))
      | (.normal s1, tr) =>
        match p.lock with
        | [] => finalCheck env s1 (clampSnap lens 2 s1 :: tr)
        | _ => runLock env p ctx.isNone s1.ds s1 (clampSnap lens 1 s1 :: tr)

end GoBT.Interp
