/-
  Bit-level helper lemmas about script flags and hash-type bytes (used by Props/C06).
-/
import GoBT.Interp.Exec
namespace GoBT.C06
open GoBT GoBT.Interp GoBT.Script

theorem hasFlag_or_self (a f : Nat) : hasFlag (a ||| f) f = true := by
  simp only [hasFlag, beq_iff_eq]
  apply Nat.eq_of_testBit_eq; intro i
  simp only [Nat.testBit_and, Nat.testBit_or]
  cases a.testBit i <;> cases f.testBit i <;> rfl

theorem hasFlag_or_of (a f g : Nat) (h : hasFlag a g = true) : hasFlag (a ||| f) g = true := by
  simp only [hasFlag, beq_iff_eq] at h ⊢
  apply Nat.eq_of_testBit_eq; intro i
  have := congrArg (·.testBit i) h
  simp only [Nat.testBit_and] at this
  simp only [Nat.testBit_and, Nat.testBit_or]
  cases ha : a.testBit i <;> cases hg : g.testBit i <;> cases f.testBit i <;> simp_all

theorem and_0x40_cases (n : Nat) : n &&& 0x40 = 0 ∨ n &&& 0x40 = 0x40 := by
  have h6 : n &&& 0x40 = if n.testBit 6 then 0x40 else 0 := by
    apply Nat.eq_of_testBit_eq; intro i
    have h2 : (0x40 : Nat) = 2 ^ 6 := rfl
    simp only [Nat.testBit_and]
    by_cases hi : i = 6
    · subst hi; cases n.testBit 6 <;> simp [h2, Nat.testBit_two_pow]
    · have hz : (0x40 : Nat).testBit i = false := by
        rw [h2, Nat.testBit_two_pow]; simp; omega
      cases n.testBit 6 <;> simp [hz]
  rw [h6]; split <;> simp

end GoBT.C06
