/-
  C07, global statement, assembly: scripts, pay-to-script-hash, `execute`.
-/
import GoBT.Interp.SuccInv
namespace GoBT.Interp
open GoBT GoBT.Script

/-- a script that ends by OP_RETURN hands on an empty conditional stack -/
theorem runOps_returned_cond (env : Env) (sidx : Nat) (cur : List POp) :
    ∀ (ops : List POp) (off : Nat) (s : St) (tr : List Snap) (s' : St) (tr' : List Snap),
      runOps env sidx cur ops off s tr = (.returned s', tr') → s'.cond = [] := by
  intro ops
  induction ops with
  | nil => intro off s tr s' tr' h; simp [runOps] at h
  | cons o rest ih =>
    intro off s tr s' tr' h
    unfold runOps at h
    cases he : executeOpcode env cur off o s with
    | err e => rw [he] at h; simp at h
    | panic q => rw [he] at h; simp at h
    | success s1 =>
      rw [he] at h
      simp only [Prod.mk.injEq, ScriptEnd.returned.injEq] at h
      rw [← h.1]
      exact executeOpcode_succ _ _ _ _ _ _ he
    | ok s1 =>
      rw [he] at h
      simp only at h
      split at h
      · simp at h
      · split at h
        · simp at h
        · exact ih _ _ _ _ _ h

/-- the state a script starts in: empty conditional stack, no separator recorded -/
def Fresh (s : St) : Prop := s.cond = [] ∧ s.lastCodeSep = 0 ∧ s.sepSeen = false

/-- a parsed script started fresh: no panic, and whatever state it hands to the next script is fresh again -/
theorem runScript_spec (env : Env) (sidx : Nat) (ops : List POp) (s : St) (tr : List Snap)
    (hp : Parsed env.ctx.isNone 0 ops) (hf : Fresh s) :
    (∀ p tr', runScript env sidx ops s tr ≠ (.stop (.panic p), tr')) ∧
    (∀ s' tr', runScript env sidx ops s tr = (.normal s', tr') → Fresh s') ∧
    (∀ s' tr', runScript env sidx ops s tr = (.byReturn s', tr') → Fresh s') := by
  have hnp := runOps_noPanic env sidx ops ops 0 s tr 0 hp (by simp [hf.1]) (by simp) (Or.inr ⟨hf.2.1, hf.2.2⟩)
  unfold runScript
  cases hr : runOps env sidx ops ops 0 s tr with
  | mk e tr1 =>
    cases e with
    | failed code => simp
    | panicked q => exact absurd (by rw [hr]) (hnp q)
    | returned s1 =>
      have := runOps_returned_cond env sidx ops ops 0 s tr s1 tr1 hr
      refine ⟨by simp, by simp, ?_⟩
      intro s' tr' h
      simp only [Prod.mk.injEq, Ended.byReturn.injEq] at h
      rw [← h.1]; exact ⟨this, rfl, rfl⟩
    | finished s1 =>
      simp only
      split
      · simp
      · next hne =>
        refine ⟨by simp, ?_, by simp⟩
        intro s' tr' h
        simp only [Prod.mk.injEq, Ended.normal.injEq] at h
        rw [← h.1]
        simp only [Bool.not_eq_true', Bool.not_eq_false] at hne
        exact ⟨by simpa using hne, rfl, rfl⟩

theorem finalCheck_noPanic (env : Env) (s : St) (tr : List Snap) (p : String) : (finalCheck env s tr).1 ≠ .panic p := by
  unfold finalCheck; split <;> simp

/-- the parser's guarantees for a whole script -/
theorem parseScript_Parsed (s : Bytes) (errCS : Bool) (ops : List POp) (h : parseScript s errCS = .ok ops) :
    Parsed errCS 0 ops := parseAux_Parsed errCS _ _ _ _ h

theorem opLength_hash160 : opLength 0xa9 = 1 := by decide

/-- a pay-to-script-hash locking script parses to OP_HASH160 followed by something -/
theorem p2sh_parse (lock : Bytes) (errCS : Bool) (ops : List POp) (hl : isP2SH lock = true)
    (h : parseScript lock errCS = .ok ops) : ∃ tail, ops = ⟨0xa9, [], 1⟩ :: tail := by
  unfold isP2SH at hl
  simp only [Bool.and_eq_true, beq_iff_eq] at hl
  obtain ⟨⟨⟨hlen, h0⟩, _⟩, _⟩ := hl
  cases lock with
  | nil => simp at hlen
  | cons b rest =>
    simp only [List.getElem?_cons_zero, Option.some.injEq] at h0
    subst h0
    unfold parseScript at h
    simp only [List.length_cons] at h
    simp only [parseAux] at h
    have hr : requiresTx opHASH160 = false := by decide
    have hret : (opHASH160 = opRETURN) = False := by simp [opHASH160, opRETURN]
    have hlen1 : opLength opHASH160 = 1 := by decide
    simp only [hr, Bool.and_false, Bool.false_eq_true, ↓reduceIte, hret, decide_false, Bool.and_false, hlen1] at h
    cases hp : parseAux true errCS rest.length rest
        (if isCondOpen opHASH160 = true then 0 + 1 else if opHASH160 = opENDIF then 0 - 1 else 0) with
    | error e => rw [hp] at h; cases h
    | ok tail =>
      rw [hp] at h
      simp only [Except.map] at h
      cases h
      exact ⟨tail, rfl⟩

/-- before Genesis, OP_HASH160 met with an empty conditional stack and an empty data stack is an error -/
theorem hash160_on_empty (env : Env) (cur : List POp) (off : Nat) (s s' : St) (hg : env.cfg.afterGenesis = false)
    (hc : s.cond = []) (hd : s.ds = []) (h : executeOpcode env cur off ⟨0xa9, [], 1⟩ s = .ok s') : False := by
  rcases executeOpcode_ok _ _ _ _ _ _ h with ⟨_, _, hskip⟩ | hh
  · rcases hskip with hb | hx
    · simp [isBranchExecuting, bump_cond, hc] at hb
    · simp [shouldExec, hg] at hx
  · have hbd : (bump ⟨0xa9, [], 1⟩ s).ds = [] := by unfold bump; split <;> simp [hd]
    revert hh
    generalize bump ⟨0xa9, [], 1⟩ s = s1 at hbd
    simp [handler, handlerCrypto, hbd, stackErr]

/-- a pay-to-script-hash locking script cannot run to its end from an empty stack (before Genesis) -/
theorem p2sh_lock_needs_item (env : Env) (tail : List POp) (s : St) (tr : List Snap) (s' : St) (tr' : List Snap)
    (hg : env.cfg.afterGenesis = false) (hc : s.cond = []) (hd : s.ds = [])
    (h : runScript env 1 (⟨0xa9, [], 1⟩ :: tail) s tr = (.normal s', tr')) : False := by
  unfold runScript at h
  unfold runOps at h
  cases he : executeOpcode env (⟨0xa9, [], 1⟩ :: tail) 0 ⟨0xa9, [], 1⟩ s with
  | ok s1 => exact hash160_on_empty env _ 0 s s1 hg hc hd he
  | err e => rw [he] at h; simp at h
  | success s1 => rw [he] at h; simp at h
  | panic q => rw [he] at h; simp at h

theorem runP2SH_noPanic (env : Env) (lensUL : List Nat) (saved : List Bytes) (s2 : St) (tr : List Snap)
    (hs : saved ≠ []) (hc : Fresh s2) (p : String) :
    (runP2SH env env.ctx.isNone lensUL saved s2 tr).1 ≠ .panic p := by
  unfold runP2SH
  split
  · simp
  · cases saved with
    | nil => exact absurd rfl hs
    | cons redeem restStack =>
      simp only
      split
      · simp
      · simp
      · next rops hr =>
        have hpar := parseScript_Parsed _ _ _ hr
        (try simp only [])
        split
        · exact finalCheck_noPanic _ _ _ _
        · next hne =>
          have spec := runScript_spec env 2 rops { s2 with ds := restStack }
            (clampSnap (lensUL ++ [rops.length]) 2 { s2 with ds := restStack } :: tr) hpar hc
          split
          · next v tr1 hrun =>
            intro hv
            simp only at hv
            subst hv
            exact spec.1 p tr1 hrun
          · exact finalCheck_noPanic _ _ _ _
          · exact finalCheck_noPanic _ _ _ _

/-- what `prepare` establishes -/
theorem prepare_spec (H : Crypto) (flags : Nat) (ctx : Option Ctx) (unlock lock : Bytes) (p : Prepared)
    (h : prepare H flags ctx unlock lock = .inr p) :
    p.env.ctx = ctx ∧ Parsed ctx.isNone 0 p.unlock ∧ Parsed ctx.isNone 0 p.lock ∧
    (p.bip16 = true → ∃ tail, p.lock = ⟨0xa9, [], 1⟩ :: tail) := by
  unfold prepare at h
  simp only [] at h
  split at h
  · cases h
  split at h
  · cases h
  split at h
  · cases h
  split at h
  · cases h
  split at h
  · cases h
  · cases h
  · next uops hu =>
    split at h
    · cases h
    · cases h
    · next lops hlk =>
      split at h
      · cases h
      · split at h
        · cases h
        · cases h
          refine ⟨rfl, parseScript_Parsed _ _ _ hu, parseScript_Parsed _ _ _ hlk, ?_⟩
          intro hb
          simp only [Bool.and_eq_true] at hb
          exact p2sh_parse lock _ lops hb.2 hlk

theorem runLock_noPanic (env : Env) (p : Prepared) (saved : List Bytes) (s1 : St) (tr : List Snap)
    (hpl : Parsed env.ctx.isNone 0 p.lock) (hc : Fresh s1) (hsaved : saved = s1.ds)
    (hb : p.bip16 = true → ∃ tail, p.lock = ⟨0xa9, [], 1⟩ :: tail) (q : String) :
    (runLock env p env.ctx.isNone saved s1 tr).1 ≠ .panic q := by
  unfold runLock
  simp only []
  have spec := runScript_spec env 1 p.lock s1 tr hpl hc
  split
  · next v tr1 hrun =>
    intro hv
    simp only at hv
    subst hv
    exact spec.1 q tr1 hrun
  · exact finalCheck_noPanic _ _ _ _
  · next s2 tr2 hrun =>
    split
    · next hcond =>
      simp only [Bool.and_eq_true, Bool.not_eq_eq_eq_not, Bool.not_true] at hcond
      obtain ⟨tail, htail⟩ := hb hcond.1
      apply runP2SH_noPanic env _ saved s2 tr2 _ (spec.2.1 s2 tr2 hrun)
      intro hs
      rw [htail] at hrun
      exact p2sh_lock_needs_item env tail s1 tr s2 tr2 hcond.2 hc.1 (by rw [← hsaved, hs]) hrun
    · exact finalCheck_noPanic _ _ _ _

/-- **Script execution never panics**: for every hash/signature oracle, flag set, optional transaction context,
    unlocking and locking script, `execute` ends with `accept` or `reject code` — never with a `panic` outcome. -/
theorem execute_noPanic (H : Crypto) (flags : Nat) (ctx : Option Ctx) (unlock lock : Bytes) (q : String) :
    (execute H flags ctx unlock lock).1 ≠ .panic q := by
  unfold execute
  cases hp : prepare H flags ctx unlock lock with
  | inl e => simp
  | inr p =>
    obtain ⟨hctx, hpu, hpl, hb⟩ := prepare_spec H flags ctx unlock lock p hp
    simp only []
    rw [← hctx] at hpu hpl ⊢
    split
    · exact runLock_noPanic p.env p [] {} [] hpl ⟨rfl, rfl, rfl⟩ rfl hb q
    · next hne =>
      have spec := runScript_spec p.env 0 p.unlock {} [] hpu ⟨rfl, rfl, rfl⟩
      split
      · next v tr1 hrun =>
        intro hv
        simp only at hv
        subst hv
        exact spec.1 q tr1 hrun
      · next s1 tr1 hrun =>
        (try simp only [])
        split
        · exact finalCheck_noPanic _ _ _ _
        · exact runLock_noPanic p.env p s1.ds s1 _ hpl (spec.2.2 s1 tr1 hrun) rfl hb q
      · next s1 tr1 hrun =>
        split
        · exact finalCheck_noPanic _ _ _ _
        · exact runLock_noPanic p.env p s1.ds s1 _ hpl (spec.2.1 s1 tr1 hrun) rfl hb q

end GoBT.Interp
