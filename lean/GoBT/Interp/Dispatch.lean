/-
  The opcode dispatch the interpreter model assumes (GoBT/Interp/Exec.lean `handler` is written against it),
  as a pinned table: opcode value ↦ name of the Go handler function.  GoBT/Props/C05.lean proves that the
  regenerated interpreter.opcodeArray agrees with it row by row.
-/
namespace GoBT.Interp

def expectedHandler (v : Nat) : String :=
  if v = 0 then "opcodeFalse" else
  if 1 ≤ v ∧ v ≤ 78 then "opcodePushData" else
  if v = 79 then "opcode1Negate" else
  if v = 80 then "opcodeReserved" else
  if 81 ≤ v ∧ v ≤ 96 then "opcodeN" else
  if v = 97 then "opcodeNop" else
  if v = 98 then "opcodeReserved" else
  if v = 99 then "opcodeIf" else
  if v = 100 then "opcodeNotIf" else
  if 101 ≤ v ∧ v ≤ 102 then "opcodeVerConditional" else
  if v = 103 then "opcodeElse" else
  if v = 104 then "opcodeEndif" else
  if v = 105 then "opcodeVerify" else
  if v = 106 then "opcodeReturn" else
  if v = 107 then "opcodeToAltStack" else
  if v = 108 then "opcodeFromAltStack" else
  if v = 109 then "opcode2Drop" else
  if v = 110 then "opcode2Dup" else
  if v = 111 then "opcode3Dup" else
  if v = 112 then "opcode2Over" else
  if v = 113 then "opcode2Rot" else
  if v = 114 then "opcode2Swap" else
  if v = 115 then "opcodeIfDup" else
  if v = 116 then "opcodeDepth" else
  if v = 117 then "opcodeDrop" else
  if v = 118 then "opcodeDup" else
  if v = 119 then "opcodeNip" else
  if v = 120 then "opcodeOver" else
  if v = 121 then "opcodePick" else
  if v = 122 then "opcodeRoll" else
  if v = 123 then "opcodeRot" else
  if v = 124 then "opcodeSwap" else
  if v = 125 then "opcodeTuck" else
  if v = 126 then "opcodeCat" else
  if v = 127 then "opcodeSplit" else
  if v = 128 then "opcodeNum2bin" else
  if v = 129 then "opcodeBin2num" else
  if v = 130 then "opcodeSize" else
  if v = 131 then "opcodeInvert" else
  if v = 132 then "opcodeAnd" else
  if v = 133 then "opcodeOr" else
  if v = 134 then "opcodeXor" else
  if v = 135 then "opcodeEqual" else
  if v = 136 then "opcodeEqualVerify" else
  if 137 ≤ v ∧ v ≤ 138 then "opcodeReserved" else
  if v = 139 then "opcode1Add" else
  if v = 140 then "opcode1Sub" else
  if 141 ≤ v ∧ v ≤ 142 then "opcodeDisabled" else
  if v = 143 then "opcodeNegate" else
  if v = 144 then "opcodeAbs" else
  if v = 145 then "opcodeNot" else
  if v = 146 then "opcode0NotEqual" else
  if v = 147 then "opcodeAdd" else
  if v = 148 then "opcodeSub" else
  if v = 149 then "opcodeMul" else
  if v = 150 then "opcodeDiv" else
  if v = 151 then "opcodeMod" else
  if v = 152 then "opcodeLShift" else
  if v = 153 then "opcodeRShift" else
  if v = 154 then "opcodeBoolAnd" else
  if v = 155 then "opcodeBoolOr" else
  if v = 156 then "opcodeNumEqual" else
  if v = 157 then "opcodeNumEqualVerify" else
  if v = 158 then "opcodeNumNotEqual" else
  if v = 159 then "opcodeLessThan" else
  if v = 160 then "opcodeGreaterThan" else
  if v = 161 then "opcodeLessThanOrEqual" else
  if v = 162 then "opcodeGreaterThanOrEqual" else
  if v = 163 then "opcodeMin" else
  if v = 164 then "opcodeMax" else
  if v = 165 then "opcodeWithin" else
  if v = 166 then "opcodeRipemd160" else
  if v = 167 then "opcodeSha1" else
  if v = 168 then "opcodeSha256" else
  if v = 169 then "opcodeHash160" else
  if v = 170 then "opcodeHash256" else
  if v = 171 then "opcodeCodeSeparator" else
  if v = 172 then "opcodeCheckSig" else
  if v = 173 then "opcodeCheckSigVerify" else
  if v = 174 then "opcodeCheckMultiSig" else
  if v = 175 then "opcodeCheckMultiSigVerify" else
  if v = 176 then "opcodeNop" else
  if v = 177 then "opcodeCheckLockTimeVerify" else
  if v = 178 then "opcodeCheckSequenceVerify" else
  if 179 ≤ v ∧ v ≤ 185 then "opcodeNop" else
  if 186 ≤ v ∧ v ≤ 255 then "opcodeInvalid" else
  "?"

end GoBT.Interp
