/-
  `.success` (the script-ending OP_RETURN after Genesis) only ever comes with an empty conditional stack.
-/
import GoBT.Interp.NoPanicMain
namespace GoBT.Interp
open GoBT GoBT.Script

def Res.succB : Res → Bool
  | .success s => s.cond.isEmpty
  | _ => true

@[simp] theorem succCond_ok (s : St) : (Res.ok s).succB = true := rfl
@[simp] theorem succCond_err (e : String) : (Res.err e).succB = true := rfl
@[simp] theorem succCond_panic (p : String) : (Res.panic p).succB = true := rfl
@[simp] theorem succCond_stackErr : stackErr.succB = true := rfl

macro "succ_triv" : tactic => `(tactic| ((repeat' split) <;> first | rfl | (simp; done)))

@[simp] theorem unaryNum_succ (env : Env) (s : St) (f : Int → Int) : (unaryNum env s f).succB = true := by
  unfold unaryNum; succ_triv
@[simp] theorem binaryNum_succ (env : Env) (s : St) (f : Int → Int → Except String Int) : (binaryNum env s f).succB = true := by
  unfold binaryNum; succ_triv
@[simp] theorem verifyTop_succ (code : String) (s : St) : (verifyTop code s).succB = true := by
  unfold verifyTop; succ_triv

theorem succCond_iff (r : Res) : r.succB = true ↔ ∀ s, r = .success s → s.cond = [] := by
  cases r <;> simp [Res.succB]

theorem opCheckSig_succ (env : Env) (sub : List POp) (s : St) : (opCheckSig env sub s).succB = true := by
  rw [succCond_iff]
  intro s' h
  unfold opCheckSig at h
  exfalso
  (repeat' (first | split at h | (simp only [] at h; split at h))) <;> first | (cases h; done) | (simp [stackErr] at h; done)

theorem opCheckMultiSig_succ (env : Env) (sub : List POp) (s : St) : (opCheckMultiSig env sub s).succB = true := by
  rw [succCond_iff]
  intro s' h
  unfold opCheckMultiSig at h
  exfalso
  simp only [] at h
  (repeat' (first | split at h | (simp only [] at h; split at h))) <;> first | (cases h; done) | (simp [stackErr] at h; done)

theorem wrap_succ (r : Res) (f : St → Res) (hr : r.succB = true) (hf : ∀ s, (f s).succB = true) :
    (match r with | .ok s' => f s' | r => r).succB = true := by
  cases r with
  | ok s' => exact hf s'
  | success s' => exact hr
  | err e => rfl
  | panic p => rfl

theorem handlerStack_succ (env : Env) (s : St) (v : Nat) : (handlerStack env s v).succB = true := by
  unfold handlerStack
  split
  all_goals first | succ_triv | (simp only []; succ_triv)

theorem handlerSplice_succ (env : Env) (s : St) (v : Nat) : (handlerSplice env s v).succB = true := by
  unfold handlerSplice
  split
  all_goals first | succ_triv | (simp only []; succ_triv)

theorem handlerNum_succ (env : Env) (s : St) (v : Nat) : (handlerNum env s v).succB = true := by
  unfold handlerNum
  split
  all_goals first
    | succ_triv
    | (simp only []; succ_triv)
    | exact wrap_succ _ _ (binaryNum_succ _ _ _) (fun s1 => verifyTop_succ _ _)

theorem handlerCrypto_succ (env : Env) (cur : List POp) (off : Nat) (s : St) (v : Nat) :
    (handlerCrypto env cur off s v).succB = true := by
  unfold handlerCrypto
  split
  all_goals first
    | succ_triv
    | (cases hs : subScript cur s with
       | none => rfl
       | some sub =>
         simp only []
         first
          | exact wrap_succ _ _ (opCheckSig_succ _ _ _) (fun s1 => by split <;> simp)
          | exact wrap_succ _ _ (opCheckMultiSig_succ _ _ _) (fun s1 => by split <;> simp))

theorem errOr_succ (r : Option String) (k : Res) (hk : k.succB = true) : (errOr r k).succB = true := by
  cases r
  · exact hk
  · rfl

theorem cltvWithTx_succ (c : Ctx) (lock : Int) (s : St) : (cltvWithTx c lock s).succB = true := by
  unfold cltvWithTx
  apply errOr_succ
  split <;> rfl

theorem csvWithTx_succ (c : Ctx) (sq : Nat) (s : St) : (csvWithTx c sq s).succB = true := by
  unfold csvWithTx
  split
  · rfl
  · simp only []
    split
    · rfl
    · exact errOr_succ _ _ rfl

theorem handlerLock_succ (env : Env) (s : St) (v : Nat) : (handlerLock env s v).succB = true := by
  unfold handlerLock
  split
  iterate 8 succ_triv
  · split
    · succ_triv
    · split
      · rfl
      · split
        · rfl
        · rfl
        · split
          · rfl
          · split
            · rfl
            · exact cltvWithTx_succ _ _ _
  · split
    · succ_triv
    · split
      · rfl
      · split
        · rfl
        · rfl
        · split
          · rfl
          · simp only []
            split
            · rfl
            · split
              · rfl
              · exact csvWithTx_succ _ _ _
  · rfl

theorem handlerFlow_succ (env : Env) (o : POp) (s : St) (v : Nat) : (handlerFlow env o s v).succB = true := by
  unfold handlerFlow
  split
  all_goals first
    | succ_triv
    | (simp only []; succ_triv)
    | skip
  -- OP_RETURN
  all_goals
    (split
     · rfl
     · split
       · next hc => simpa [Res.succB] using hc
       · rfl)

theorem handler_succ (env : Env) (cur : List POp) (off : Nat) (o : POp) (s : St) : (handler env cur off o s).succB = true := by
  unfold handler
  simp only []
  split
  · rfl
  split
  · rfl
  split
  · rfl
  split
  · rfl
  split
  · rfl
  split
  · exact handlerFlow_succ _ _ _ _
  split
  · exact handlerStack_succ _ _ _
  split
  · exact handlerSplice_succ _ _ _
  split
  · exact handlerNum_succ _ _ _
  split
  · exact handlerCrypto_succ _ _ _ _ _
  split
  · exact handlerLock_succ _ _ _
  · rfl

theorem executeOpcode_succ (env : Env) (cur : List POp) (off : Nat) (o : POp) (s s' : St)
    (h : executeOpcode env cur off o s = .success s') : s'.cond = [] := by
  have key : (executeOpcode env cur off o s).succB = true := by
    unfold executeOpcode
    simp only []
    split
    · rfl
    split
    · rfl
    split
    · rfl
    split
    · rfl
    split
    · rfl
    split
    · rfl
    split
    · rfl
    split
    · rfl
    · exact handler_succ _ _ _ _ _
  rw [h] at key
  simpa [Res.succB] using key

end GoBT.Interp
