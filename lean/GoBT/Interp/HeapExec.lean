/-
  C08 — reference semantics of the *whole* opcode step, and its refinement to the value semantics of Interp/Exec.lean.

  Go stack items are slices.  The stack-manipulation opcodes (OP_TOALTSTACK … OP_TUCK) only move and duplicate slice
  headers: after OP_DUP the two top items are the same memory.  Every other opcode — under the discipline that the
  regenerated obligation `C08.handlers_write_only_fresh_buffers` establishes for the current sources — pops its
  operands and pushes results it has allocated itself, leaving the rest of both stacks alone.

  This file defines that reference semantics (`hExecuteOpcode`, over a heap of immutable-unless-written cells and stacks
  of references into it) and proves

  * `hExecuteOpcode_refines`  — dereferencing the result of a reference-semantics step gives exactly the result of the
                                 value-semantics step (`executeOpcode`) on the dereferenced state;
  * `hExecuteOpcode_heap`     — the step only appends cells: every cell that existed before (the caller's script and
                                 transaction buffers, the memory of every other item) has the same bytes afterwards;
  * `hRun_refines` / `hRun_heap` — the same for every sequence of steps (induction over the program).

  So: as long as no handler writes into memory it did not allocate, sharing between stack items is unobservable and
  the value-semantics model is an exact description of the Go interpreter's stacks.  (What happens otherwise is
  `C08.in_place_changes_twin`.)  Core Lean only.
-/
import GoBT.Interp.Exec
import GoBT.Interp.Heap
namespace GoBT.Interp.Heap
open GoBT GoBT.Interp GoBT.Script

/-! ### the stack-manipulation opcodes, once, for any kind of item -/

/-- OP_PICK / OP_ROLL on a stack of arbitrary items -/
def pickRoll {α : Type} (num : α → Except String Int) (roll : Bool) (ds as : List α) :
    Except String (List α × List α) :=
  match ds with
  | [] => .error "ErrInvalidStackOperation"
  | nb :: r =>
    match num nb with
    | .error e => .error e
    | .ok z =>
      let n := clamp32 z
      if n < 0 || n.toNat ≥ r.length then .error "ErrInvalidStackOperation"
      else
        match r[n.toNat]? with
        | none => .error "ErrInvalidStackOperation"
        | some x =>
          if roll then .ok (x :: (r.take n.toNat ++ r.drop (n.toNat + 1)), as) else .ok (x :: r, as)

/-- 0x6b–0x7d except OP_DEPTH, on two stacks of arbitrary items: `none` = not one of these opcodes;
    `asB` / `num` are how an item is read as a boolean (OP_IFDUP) and as a number (OP_PICK / OP_ROLL). -/
def stackMove {α : Type} (asB : α → Bool) (num : α → Except String Int) (v : Nat) (ds as : List α) :
    Option (Except String (List α × List α)) :=
  let bad : Option (Except String (List α × List α)) := some (.error "ErrInvalidStackOperation")
  match v with
  | 0x6b => match ds with | a :: r => some (.ok (r, a :: as)) | _ => bad
  | 0x6c => match as with | a :: r => some (.ok (a :: ds, r)) | _ => bad
  | 0x6d => match ds with | _ :: _ :: r => some (.ok (r, as)) | _ => bad
  | 0x6e => match ds with | a :: b :: r => some (.ok (a :: b :: a :: b :: r, as)) | _ => bad
  | 0x6f => match ds with | a :: b :: c :: r => some (.ok (a :: b :: c :: a :: b :: c :: r, as)) | _ => bad
  | 0x70 => match ds with | a :: b :: c :: d :: r => some (.ok (c :: d :: a :: b :: c :: d :: r, as)) | _ => bad
  | 0x71 => match ds with | a :: b :: c :: d :: e :: f :: r => some (.ok (e :: f :: a :: b :: c :: d :: r, as)) | _ => bad
  | 0x72 => match ds with | a :: b :: c :: d :: r => some (.ok (c :: d :: a :: b :: r, as)) | _ => bad
  | 0x73 => match ds with | a :: r => some (.ok (if asB a then a :: a :: r else a :: r, as)) | _ => bad
  | 0x75 => match ds with | _ :: r => some (.ok (r, as)) | _ => bad
  | 0x76 => match ds with | a :: r => some (.ok (a :: a :: r, as)) | _ => bad
  | 0x77 => match ds with | a :: _ :: r => some (.ok (a :: r, as)) | _ => bad
  | 0x78 => match ds with | a :: b :: r => some (.ok (b :: a :: b :: r, as)) | _ => bad
  | 0x79 => some (pickRoll num false ds as)
  | 0x7a => some (pickRoll num true ds as)
  | 0x7b => match ds with | a :: b :: c :: r => some (.ok (c :: a :: b :: r, as)) | _ => bad
  | 0x7c => match ds with | a :: b :: r => some (.ok (b :: a :: r, as)) | _ => bad
  | 0x7d => match ds with | a :: b :: r => some (.ok (a :: b :: a :: r, as)) | _ => bad
  | _ => none

/-- the result of a stack move as a `Res` of the value semantics -/
def moveRes (s : St) : Except String (List Bytes × List Bytes) → Res
  | .ok (ds, as) => .ok { s with ds := ds, as := as }
  | .error e => .err e

/-- reading a pair of stacks of references -/
def mapBoth {α β : Type} (f : α → β) (r : Except String (List α × List α)) : Except String (List β × List β) :=
  r.map fun p => (p.1.map f, p.2.map f)

theorem pickRoll_map {α β : Type} (f : α → β) (num : β → Except String Int) (roll : Bool) (ds as : List α) :
    mapBoth f (pickRoll (num ∘ f) roll ds as) = pickRoll num roll (ds.map f) (as.map f) := by
  unfold pickRoll mapBoth
  cases ds with
  | nil => rfl
  | cons nb r =>
    simp only [List.map_cons, Function.comp]
    cases num (f nb) with
    | error e => rfl
    | ok z =>
      simp only [List.length_map]
      split
      · rfl
      · simp only [List.getElem?_map]
        cases r[(clamp32 z).toNat]? with
        | none => rfl
        | some x =>
          cases roll <;> simp [Except.map, List.map_take, List.map_drop]

/-- **naturality**: moving references and then reading them is moving the values -/
theorem stackMove_map {α β : Type} (f : α → β) (asB : β → Bool) (num : β → Except String Int) (v : Nat)
    (ds as : List α) :
    (stackMove (asB ∘ f) (num ∘ f) v ds as).map (mapBoth f) = stackMove asB num v (ds.map f) (as.map f) := by
  unfold stackMove
  simp only
  split
  case h_14 => simp only [Option.map_some, pickRoll_map]
  case h_15 => simp only [Option.map_some, pickRoll_map]
  all_goals first
    | rfl
    | (rcases ds with _ | ⟨a, _ | ⟨b, _ | ⟨c, _ | ⟨d, _ | ⟨e, _ | ⟨g, r⟩⟩⟩⟩⟩⟩ <;>
        first
        | rfl
        | (simp only [List.map_cons, List.map_nil, Function.comp, mapBoth, Option.map_some, Except.map]; split <;> rfl))
    | (rcases as with _ | ⟨a, r⟩ <;> rfl)

/-- `handlerStack` of the value model *is* `stackMove` on the two value stacks (every opcode but OP_DEPTH) -/
theorem handlerStack_eq_move (env : Env) (s : St) (v : Nat) (r : Except String (List Bytes × List Bytes))
    (h : stackMove asBool (toNum env) v s.ds s.as = some r) : handlerStack env s v = moveRes s r := by
  obtain ⟨ds, as, cond, els, numOps, lastCodeSep, sepSeen, early⟩ := s
  unfold stackMove at h
  unfold handlerStack
  simp only at h ⊢
  split at h
  case h_14 =>
    cases h
    unfold pickRoll
    cases ds with
    | nil => rfl
    | cons nb r =>
      simp only
      cases toNum env nb with
      | error e => rfl
      | ok z =>
        simp only
        split
        · rfl
        · next hlt =>
          have : (clamp32 z).toNat < r.length := by
            simp only [Bool.or_eq_true, decide_eq_true_eq, not_or, Nat.not_le] at hlt
            exact hlt.2
          simp [List.getElem?_eq_getElem this, moveRes, List.getD_eq_getElem?_getD]
  case h_15 =>
    cases h
    unfold pickRoll
    cases ds with
    | nil => rfl
    | cons nb r =>
      simp only
      cases toNum env nb with
      | error e => rfl
      | ok z =>
        simp only
        split
        · rfl
        · next hlt =>
          have : (clamp32 z).toNat < r.length := by
            simp only [Bool.or_eq_true, decide_eq_true_eq, not_or, Nat.not_le] at hlt
            exact hlt.2
          simp [List.getElem?_eq_getElem this, moveRes, List.getD_eq_getElem?_getD]
  case h_19 => cases h
  all_goals first
    | (rcases ds with _ | ⟨a, _ | ⟨b, _ | ⟨c, _ | ⟨d, _ | ⟨e, _ | ⟨g, r'⟩⟩⟩⟩⟩⟩ <;>
        simp only [Option.some.injEq] at h <;> subst h <;>
        first
        | rfl
        | (simp only [moveRes]; split <;> rfl))
    | (rcases as with _ | ⟨a, r'⟩ <;> simp only [Option.some.injEq] at h <;> subst h <;> rfl)

/-! ### states of references -/

/-- a thread state whose stack items are references into a heap; `base` carries everything else (its own `ds` / `as`
    fields are not used) -/
structure HSt where
  heap : Heap
  ds : List Ref
  as : List Ref
  base : St

/-- what the references designate: the state of the value semantics -/
def HSt.abs (h : HSt) : St := { h.base with ds := h.ds.map (deref h.heap), as := h.as.map (deref h.heap) }

/-- every reference points at an existing cell -/
def HSt.Valid (h : HSt) : Prop := (∀ r ∈ h.ds, r.valid h.heap) ∧ (∀ r ∈ h.as, r.valid h.heap)

inductive HRes where
  | ok (h : HSt)
  | success (h : HSt)
  | err (code : String)
  | panic (site : String)

def HRes.abs : HRes → Res
  | .ok h => .ok h.abs
  | .success h => .success h.abs
  | .err c => .err c
  | .panic p => .panic p

/-- allocate one new cell per value; the references come back in the same order -/
def allocAll : Heap → List Bytes → Heap × List Ref
  | h, [] => (h, [])
  | h, b :: bs =>
    let (h1, r) := alloc h b
    let (h2, rs) := allocAll h1 bs
    (h2, r :: rs)

/-- number of equal leading items -/
def commonPrefixLen : List Bytes → List Bytes → Nat
  | x :: xs, y :: ys => if x == y then commonPrefixLen xs ys + 1 else 0
  | _, _ => 0

/-- number of equal items counted from the bottom of two stacks -/
def commonSuffixLen (a b : List Bytes) : Nat := commonPrefixLen a.reverse b.reverse

/-- **allocate what is new, keep the references of what is unchanged**: the stack of references after an opcode that
    took the value stack from `old.map deref` to `new` without touching its bottom part -/
def rebaseStack (heap : Heap) (old : List Ref) (new : List Bytes) : Heap × List Ref :=
  let k := commonSuffixLen new (old.map (deref heap))
  let (heap', fresh) := allocAll heap (new.take (new.length - k))
  (heap', fresh ++ old.drop (old.length - k))

/-- the reference state after a computing opcode whose value-level result is `s'` -/
def rebase (h : HSt) (s' : St) : HSt :=
  let (h1, ds) := rebaseStack h.heap h.ds s'.ds
  let (h2, as) := rebaseStack h1 h.as s'.as
  { heap := h2, ds := ds, as := as, base := s' }

/-! ### lemmas -/

theorem deref_append (h : Heap) (more : Heap) (r : Ref) (hv : r.valid h) : deref (h ++ more) r = deref h r := by
  unfold deref Ref.valid at *
  rw [List.getD_eq_getElem?_getD, List.getD_eq_getElem?_getD, List.getElem?_append_left hv]

theorem valid_append (h more : Heap) (r : Ref) (hv : r.valid h) : r.valid (h ++ more) := by
  unfold Ref.valid at *
  simp only [List.length_append]
  omega

/-- `allocAll` appends exactly the given cells, and the new references designate them -/
theorem allocAll_spec (h : Heap) (vs : List Bytes) :
    (allocAll h vs).1 = h ++ vs ∧
    (∀ more : Heap, (allocAll h vs).2.map (deref ((allocAll h vs).1 ++ more)) = vs) ∧
    (∀ r ∈ (allocAll h vs).2, r.valid (allocAll h vs).1) := by
  induction vs generalizing h with
  | nil => simp [allocAll]
  | cons b bs ih =>
    obtain ⟨ih1, ih2, ih3⟩ := ih (h ++ [b])
    simp only [allocAll, alloc]
    refine ⟨by rw [ih1]; simp, ?_, ?_⟩
    · intro more
      simp only [List.map_cons]
      congr 1
      · rw [ih1]
        unfold deref
        simp [List.getD_eq_getElem?_getD]
      · exact ih2 more
    · intro r hr
      simp only [List.mem_cons] at hr
      rcases hr with rfl | hr
      · rw [ih1]
        unfold Ref.valid
        simp
      · exact ih3 r hr

theorem commonPrefixLen_spec (a b : List Bytes) :
    a.take (commonPrefixLen a b) = b.take (commonPrefixLen a b) ∧
    commonPrefixLen a b ≤ a.length ∧ commonPrefixLen a b ≤ b.length := by
  induction a generalizing b with
  | nil => simp [commonPrefixLen]
  | cons x xs ih =>
    cases b with
    | nil => simp [commonPrefixLen]
    | cons y ys =>
      simp only [commonPrefixLen]
      split
      · next hxy =>
        have : x = y := by simpa using hxy
        obtain ⟨h1, h2, h3⟩ := ih ys
        subst this
        simp [List.take_succ_cons, h1]
        omega
      · simp

/-- the bottom `k` items of two stacks with `k = commonSuffixLen` coincide -/
theorem commonSuffixLen_spec (a b : List Bytes) :
    a.drop (a.length - commonSuffixLen a b) = b.drop (b.length - commonSuffixLen a b) ∧
    commonSuffixLen a b ≤ a.length ∧ commonSuffixLen a b ≤ b.length := by
  obtain ⟨h1, h2, h3⟩ := commonPrefixLen_spec a.reverse b.reverse
  unfold commonSuffixLen
  simp only [List.length_reverse] at h2 h3
  refine ⟨?_, h2, h3⟩
  rw [List.take_reverse, List.take_reverse] at h1
  exact List.reverse_inj.mp h1

/-- **rebasing is exact**: the new references read back as the new value stack, only new cells were appended, and every
    reference is valid -/
theorem rebaseStack_spec (heap : Heap) (old : List Ref) (new : List Bytes) (hv : ∀ r ∈ old, r.valid heap) :
    (∃ cells, (rebaseStack heap old new).1 = heap ++ cells) ∧
    (∀ more : Heap, (rebaseStack heap old new).2.map (deref ((rebaseStack heap old new).1 ++ more)) = new) ∧
    (∀ r ∈ (rebaseStack heap old new).2, r.valid (rebaseStack heap old new).1) := by
  unfold rebaseStack
  simp only
  obtain ⟨hs1, hs2, hs3⟩ := commonSuffixLen_spec new (old.map (deref heap))
  generalize commonSuffixLen new (old.map (deref heap)) = k at *
  obtain ⟨a1, a2, a3⟩ := allocAll_spec heap (new.take (new.length - k))
  refine ⟨⟨_, a1⟩, ?_, ?_⟩
  · intro more
    rw [List.map_append, a2 more]
    have : (old.drop (old.length - k)).map (deref ((allocAll heap (new.take (new.length - k))).1 ++ more)) =
        (old.drop (old.length - k)).map (deref heap) := by
      apply List.map_congr_left
      intro r hr
      rw [a1, List.append_assoc]
      exact deref_append heap _ r (hv r (List.mem_of_mem_drop hr))
    rw [this, List.map_drop]
    simp only [List.length_map] at hs1
    rw [← hs1]
    exact List.take_append_drop _ _
  · intro r hr
    rw [List.mem_append] at hr
    rcases hr with hr | hr
    · exact a3 r hr
    · rw [a1]
      exact valid_append heap _ r (hv r (List.mem_of_mem_drop hr))

/-- rebasing a valid state on the value-level result `s'` designates exactly `s'`, appends cells only, stays valid -/
theorem rebase_spec (h : HSt) (s' : St) (hv : h.Valid) :
    (rebase h s').abs = s' ∧ (∃ cells, (rebase h s').heap = h.heap ++ cells) ∧ (rebase h s').Valid := by
  obtain ⟨hvd, hva⟩ := hv
  obtain ⟨⟨c1, d1⟩, d2, d3⟩ := rebaseStack_spec h.heap h.ds s'.ds hvd
  have hva1 : ∀ r ∈ h.as, r.valid (rebaseStack h.heap h.ds s'.ds).1 := by
    intro r hr; rw [d1]; exact valid_append _ _ r (hva r hr)
  obtain ⟨⟨c2, e1⟩, e2, e3⟩ := rebaseStack_spec (rebaseStack h.heap h.ds s'.ds).1 h.as s'.as hva1
  refine ⟨?_, ⟨c1 ++ c2, ?_⟩, ?_, ?_⟩
  · unfold rebase HSt.abs
    simp only
    have hd : (rebaseStack h.heap h.ds s'.ds).2.map
        (deref (rebaseStack (rebaseStack h.heap h.ds s'.ds).1 h.as s'.as).1) = s'.ds := by
      rw [e1]; exact d2 c2
    have ha : (rebaseStack (rebaseStack h.heap h.ds s'.ds).1 h.as s'.as).2.map
        (deref (rebaseStack (rebaseStack h.heap h.ds s'.ds).1 h.as s'.as).1) = s'.as := by
      have := e2 []
      simpa using this
    rw [hd, ha]
  · unfold rebase
    simp only
    rw [e1, d1, List.append_assoc]
  · intro r hr
    unfold rebase at hr ⊢
    simp only at hr ⊢
    rw [e1]
    exact valid_append _ _ r (d3 r hr)
  · intro r hr
    unfold rebase at hr ⊢
    simp only at hr ⊢
    exact e3 r hr

/-! ### the opcode step on references -/

/-- a value-level result carried back to references by rebasing -/
def liftRes (h : HSt) : Res → HRes
  | .ok s' => .ok (rebase h s')
  | .success s' => .success (rebase h s')
  | .err e => .err e
  | .panic p => .panic p

/-- the handler of one opcode on references: OP_TOALTSTACK … OP_TUCK move and duplicate references (no memory is read
    except to interpret OP_IFDUP's and OP_PICK/OP_ROLL's operand, none is written, none allocated); every other opcode
    computes on the values and allocates what is new -/
def hHandler (env : Env) (cur : List POp) (off : Nat) (o : POp) (h : HSt) : HRes :=
  let v := o.op.toNat
  if 0x6b ≤ v ∧ v ≤ 0x7d then
    match stackMove (asBool ∘ deref h.heap) (toNum env ∘ deref h.heap) v h.ds h.as with
    | some (.ok (ds, as)) => .ok { h with ds := ds, as := as }
    | some (.error e) => .err e
    | none => liftRes h (handler env cur off o h.abs)
  else liftRes h (handler env cur off o h.abs)

/-- thread.executeOpcode on references (the same wrapper as `executeOpcode`: limits, disabled opcodes, operation count,
    skipped branches — none of which looks at stack memory) -/
def hExecuteOpcode (env : Env) (cur : List POp) (off : Nat) (o : POp) (h : HSt) : HRes :=
  if o.data.length > env.cfg.maxElem then .err "ErrElementTooBig" else
  let exec := shouldExec env h.base o.op
  if isDisabledOp o.op && (!env.cfg.afterGenesis || exec) then .err "ErrDisabledOpcode"
  else if alwaysIllegalOp o.op && !env.cfg.afterGenesis then .err "ErrReservedOpcode"
  else
    let h := { h with base := bump o h.base }
    if o.op.toNat > 0x60 && h.base.numOps > env.cfg.maxOps then .err "ErrTooManyOperations"
    else if !isBranchExecuting h.base && !isConditionalOp o.op then .ok h
    else if hasFlag env.flags fMinimalData && isBranchExecuting h.base && o.op.toNat ≤ 0x4e && exec &&
            !enforceMinimumDataPush o then .err "ErrMinimalData"
    else if !exec && !isConditionalOp o.op then .ok h
    else if o.len != opLength o.op then .panic "nil-handler(unformatted data)"
    else hHandler env cur off o h

/-- what a step guarantees about memory: only new cells, and references stay valid -/
def HRes.Grows (h : HSt) : HRes → Prop
  | .ok h' | .success h' => (∃ cells, h'.heap = h.heap ++ cells) ∧ h'.Valid
  | _ => True

theorem liftRes_abs (h : HSt) (r : Res) (hv : h.Valid) : (liftRes h r).abs = r := by
  cases r with
  | ok s' => simp only [liftRes, HRes.abs, (rebase_spec h s' hv).1]
  | success s' => simp only [liftRes, HRes.abs, (rebase_spec h s' hv).1]
  | err e => rfl
  | panic p => rfl

theorem liftRes_grows (h : HSt) (r : Res) (hv : h.Valid) : (liftRes h r).Grows h := by
  cases r with
  | ok s' => exact (rebase_spec h s' hv).2
  | success s' => exact (rebase_spec h s' hv).2
  | err e => trivial
  | panic p => trivial

/-- in the value model the handler of OP_TOALTSTACK … OP_TUCK is `handlerStack` -/
theorem handler_stack_range (env : Env) (cur : List POp) (off : Nat) (o : POp) (s : St)
    (hr : 0x6b ≤ o.op.toNat ∧ o.op.toNat ≤ 0x7d) : handler env cur off o s = handlerStack env s o.op.toNat := by
  unfold handler
  simp only
  have h1 : (o.op.toNat == 0x00) = false := by simp; omega
  have h2 : ¬ (o.op.toNat ≤ 0x4e) := by omega
  have h3 : (o.op.toNat == 0x4f) = false := by simp; omega
  have h4 : (o.op.toNat == 0x50) = false := by simp; omega
  have h5 : ¬ (o.op.toNat ≤ 0x60) := by omega
  have h6 : ¬ (o.op.toNat ≤ 0x6a) := by omega
  have h7 : o.op.toNat ≤ 0x7d := hr.2
  simp only [h1, h2, h3, h4, h5, h6, h7, Bool.false_eq_true, ↓reduceIte]

/-- a stack move keeps every reference it is given: the result's references all come from the two stacks -/
theorem pickRoll_mem {α : Type} (num : α → Except String Int) (roll : Bool) (ds as ds' as' : List α)
    (h : pickRoll num roll ds as = .ok (ds', as')) : ∀ x, (x ∈ ds' ∨ x ∈ as') → (x ∈ ds ∨ x ∈ as) := by
  unfold pickRoll at h
  cases ds with
  | nil => cases h
  | cons nb r =>
    simp only at h
    cases hn : num nb with
    | error e => simp [hn] at h
    | ok z =>
      simp only [hn] at h
      split at h
      · cases h
      · cases hg : r[(clamp32 z).toNat]? with
        | none => simp [hg] at h
        | some y =>
          simp only [hg] at h
          have hy : y ∈ r := List.mem_of_getElem? hg
          cases roll
          · simp only [Bool.false_eq_true, ↓reduceIte, Except.ok.injEq, Prod.mk.injEq] at h
            obtain ⟨rfl, rfl⟩ := h
            intro x hx
            rcases hx with hx | hx
            · simp only [List.mem_cons] at hx ⊢
              rcases hx with rfl | hx
              · exact Or.inl (Or.inr hy)
              · exact Or.inl (Or.inr hx)
            · exact Or.inr hx
          · simp only [↓reduceIte, Except.ok.injEq, Prod.mk.injEq] at h
            obtain ⟨rfl, rfl⟩ := h
            intro x hx
            rcases hx with hx | hx
            · simp only [List.mem_cons, List.mem_append] at hx ⊢
              rcases hx with rfl | hx | hx
              · exact Or.inl (Or.inr hy)
              · exact Or.inl (Or.inr (List.mem_of_mem_take hx))
              · exact Or.inl (Or.inr (List.mem_of_mem_drop hx))
            · exact Or.inr hx

theorem stackMove_mem {α : Type} (asB : α → Bool) (num : α → Except String Int) (v : Nat) (ds as ds' as' : List α)
    (h : stackMove asB num v ds as = some (.ok (ds', as'))) : ∀ x, (x ∈ ds' ∨ x ∈ as') → (x ∈ ds ∨ x ∈ as) := by
  unfold stackMove at h
  simp only at h
  split at h
  case h_14 => exact pickRoll_mem num false ds as ds' as' (by simpa using h)
  case h_15 => exact pickRoll_mem num true ds as ds' as' (by simpa using h)
  case h_19 => cases h
  all_goals first
    | (rcases ds with _ | ⟨a, _ | ⟨b, _ | ⟨c, _ | ⟨d, _ | ⟨e, _ | ⟨g, r'⟩⟩⟩⟩⟩⟩ <;>
        simp only [Option.some.injEq, Except.ok.injEq, Prod.mk.injEq, reduceCtorEq] at h <;>
        obtain ⟨rfl, rfl⟩ := h <;> intro x hx <;>
        (try split at hx) <;> simp only [List.mem_cons] at hx ⊢ <;> grind)
    | (rcases as with _ | ⟨a, r'⟩ <;>
        simp only [Option.some.injEq, Except.ok.injEq, Prod.mk.injEq, reduceCtorEq] at h <;>
        obtain ⟨rfl, rfl⟩ := h <;> intro x hx <;> simp only [List.mem_cons] at hx ⊢ <;> grind)

theorem hHandler_spec (env : Env) (cur : List POp) (off : Nat) (o : POp) (h : HSt) (hv : h.Valid) :
    (hHandler env cur off o h).abs = handler env cur off o h.abs ∧ (hHandler env cur off o h).Grows h := by
  unfold hHandler
  simp only
  split
  · next hr =>
    have hnat := stackMove_map (deref h.heap) asBool (toNum env) o.op.toNat h.ds h.as
    rw [handler_stack_range env cur off o h.abs hr]
    cases hm : stackMove (asBool ∘ deref h.heap) (toNum env ∘ deref h.heap) o.op.toNat h.ds h.as with
    | none => exact ⟨by rw [← handler_stack_range env cur off o h.abs hr]; exact liftRes_abs h _ hv,
                     liftRes_grows h _ hv⟩
    | some r =>
      rw [hm, Option.map_some] at hnat
      have hval := handlerStack_eq_move env h.abs o.op.toNat _ hnat.symm
      cases r with
      | error e => exact ⟨by rw [hval]; rfl, trivial⟩
      | ok p =>
        obtain ⟨ds', as'⟩ := p
        refine ⟨by rw [hval]; rfl, ⟨[], by simp⟩, ?_, ?_⟩
        · intro r hr
          rcases stackMove_mem _ _ _ _ _ _ _ hm r (Or.inl hr) with h1 | h1
          · exact hv.1 r h1
          · exact hv.2 r h1
        · intro r hr
          rcases stackMove_mem _ _ _ _ _ _ _ hm r (Or.inr hr) with h1 | h1
          · exact hv.1 r h1
          · exact hv.2 r h1
  · exact ⟨liftRes_abs h _ hv, liftRes_grows h _ hv⟩

/-- **One opcode, refinement.**  Executing an opcode on references and reading the result is executing it on the values —
    for every opcode, every state whose references are valid, whatever sharing there is between the items. -/
theorem hExecuteOpcode_refines (env : Env) (cur : List POp) (off : Nat) (o : POp) (h : HSt) (hv : h.Valid) :
    (hExecuteOpcode env cur off o h).abs = executeOpcode env cur off o h.abs := by
  unfold hExecuteOpcode executeOpcode
  have hb : ({ h with base := bump o h.base } : HSt).abs = bump o h.abs := by
    unfold HSt.abs bump; split <;> rfl
  have hvb : ({ h with base := bump o h.base } : HSt).Valid := hv
  have e1 : shouldExec env h.abs o.op = shouldExec env h.base o.op := rfl
  have e2 : isBranchExecuting (bump o h.abs) = isBranchExecuting (bump o h.base) := by
    unfold bump; split <;> rfl
  have e3 : (bump o h.abs).numOps = (bump o h.base).numOps := by
    unfold bump; split <;> rfl
  simp only [e1, e2, e3]
  split
  · rfl
  · split
    · rfl
    · split
      · rfl
      · split
        · rfl
        · split
          · simp only [HRes.abs, hb]
          · split
            · rfl
            · split
              · simp only [HRes.abs, hb]
              · split
                · rfl
                · rw [← hb]
                  exact (hHandler_spec env cur off o _ hvb).1

/-- **One opcode, memory.**  The step only appends cells to the heap and keeps every reference valid. -/
theorem hExecuteOpcode_heap (env : Env) (cur : List POp) (off : Nat) (o : POp) (h : HSt) (hv : h.Valid) :
    (hExecuteOpcode env cur off o h).Grows h := by
  unfold hExecuteOpcode
  have hvb : ({ h with base := bump o h.base } : HSt).Valid := hv
  simp only
  repeat' split
  all_goals first
    | trivial
    | exact ⟨⟨[], by simp⟩, hvb⟩
    | exact (hHandler_spec env cur off o _ hvb).2

/-! ### whole scripts -/

/-- the opcodes `ops` (a suffix of script `cur` starting at offset `off`) on values: `executeOpcode` step by step with
    the combined stack-depth check of thread.Step — the state evolution of `runOps` without the trace -/
def vRun (env : Env) (cur : List POp) : List POp → Nat → St → Res
  | [], _, s => .ok s
  | o :: rest, off, s =>
    match executeOpcode env cur off o s with
    | .ok s' =>
      if s'.ds.length + s'.as.length > env.cfg.maxStack then .err "ErrStackOverflow"
      else vRun env cur rest (off + 1) s'
    | r => r

/-- the same on references -/
def hRun (env : Env) (cur : List POp) : List POp → Nat → HSt → HRes
  | [], _, h => .ok h
  | o :: rest, off, h =>
    match hExecuteOpcode env cur off o h with
    | .ok h' =>
      if h'.ds.length + h'.as.length > env.cfg.maxStack then .err "ErrStackOverflow"
      else hRun env cur rest (off + 1) h'
    | r => r

def toEnd : Res → ScriptEnd
  | .ok s => .finished s
  | .success s => .returned s
  | .err e => .failed e
  | .panic p => .panicked p

/-- `vRun` is the state evolution of the model's `runOps` -/
theorem runOps_eq_vRun (env : Env) (sidx : Nat) (cur ops : List POp) (off : Nat) (s : St) (tr : List Snap) :
    (runOps env sidx cur ops off s tr).1 = toEnd (vRun env cur ops off s) := by
  induction ops generalizing off s tr with
  | nil => rfl
  | cons o rest ih =>
    unfold runOps vRun
    cases executeOpcode env cur off o s with
    | err e => rfl
    | panic p => rfl
    | success s' => rfl
    | ok s' =>
      simp only
      split
      · rfl
      · cases rest with
        | nil => rfl
        | cons o2 rest2 => exact ih (off + 1) s' _

/-- **Every program, refinement.**  Running any sequence of opcodes on references and reading the result is running it
    on the values. -/
theorem hRun_refines (env : Env) (cur ops : List POp) (off : Nat) (h : HSt) (hv : h.Valid) :
    (hRun env cur ops off h).abs = vRun env cur ops off h.abs := by
  induction ops generalizing off h with
  | nil => rfl
  | cons o rest ih =>
    unfold hRun vRun
    have h1 := hExecuteOpcode_refines env cur off o h hv
    have h2 := hExecuteOpcode_heap env cur off o h hv
    cases hr : hExecuteOpcode env cur off o h with
    | err e => rw [hr] at h1; rw [← h1]; rfl
    | panic p => rw [hr] at h1; rw [← h1]; rfl
    | success h' => rw [hr] at h1; rw [← h1]; rfl
    | ok h' =>
      rw [hr] at h1 h2
      rw [← h1]
      simp only [HRes.abs]
      have hl : h'.abs.ds.length + h'.abs.as.length = h'.ds.length + h'.as.length := by
        simp [HSt.abs]
      rw [hl]
      by_cases hof : h'.ds.length + h'.as.length > env.cfg.maxStack
      · simp only [hof, ↓reduceIte, HRes.abs]
      · simp only [hof, ↓reduceIte]
        exact ih (off + 1) h' h2.2

/-- **Every program, memory.**  Whatever the program, the heap only grows: every cell that existed before the run —
    the caller's script and transaction buffers, the memory behind every item that was ever on a stack — holds the same
    bytes afterwards. -/
theorem hRun_heap (env : Env) (cur ops : List POp) (off : Nat) (h : HSt) (hv : h.Valid) :
    (hRun env cur ops off h).Grows h := by
  induction ops generalizing off h with
  | nil => exact ⟨⟨[], by simp⟩, hv⟩
  | cons o rest ih =>
    unfold hRun
    have h2 := hExecuteOpcode_heap env cur off o h hv
    cases hr : hExecuteOpcode env cur off o h with
    | err e => trivial
    | panic p => trivial
    | success h' => rw [hr] at h2; exact h2
    | ok h' =>
      rw [hr] at h2
      simp only
      by_cases hof : h'.ds.length + h'.as.length > env.cfg.maxStack
      · simp only [hof, ↓reduceIte]; trivial
      · simp only [hof, ↓reduceIte]
        have h3 := ih (off + 1) h' h2.2
        obtain ⟨⟨c1, hc1⟩, _⟩ := h2
        cases hr2 : hRun env cur rest (off + 1) h' with
        | err e => trivial
        | panic p => trivial
        | ok h'' =>
          rw [hr2] at h3
          obtain ⟨⟨c2, hc2⟩, hv2⟩ := h3
          exact ⟨⟨c1 ++ c2, by rw [hc2, hc1, List.append_assoc]⟩, hv2⟩
        | success h'' =>
          rw [hr2] at h3
          obtain ⟨⟨c2, hc2⟩, hv2⟩ := h3
          exact ⟨⟨c1 ++ c2, by rw [hc2, hc1, List.append_assoc]⟩, hv2⟩

/-- growing the heap changes neither an existing cell nor what an existing reference designates -/
theorem grows_cell (heap cells : Heap) (i : Nat) (hi : i < heap.length) : (heap ++ cells)[i]? = heap[i]? :=
  List.getElem?_append_left hi

end GoBT.Interp.Heap
