/-
  C19 — the callback lifecycle.
  * `lifecycleOk` — the documented order as a regular language over callback letters (the automaton the correspondence
    check runs on every recorded callback sequence of the real interpreter);
  * `executeE` — the interpreter model emitting the *skeleton* of the callback sequence (every callback except the four
    stack push/pop ones), a definition parallel to `execute` (same verdict: `executeE_verdict`);
  * `skeleton_in_lifecycle` — for every execution the skeleton is in the lifecycle language.
  The correspondence check compares the skeleton with the recorded callbacks of the real interpreter (stack events
  erased) on every `IX.dbg` program.  Core Lean only.
-/
import GoBT.Interp.Exec
namespace GoBT.Driver
open GoBT GoBT.Interp

/-- The documented lifecycle as a regular language over the callback letters
    `[` BeforeExecute, `s` BeforeStep, `o` BeforeExecuteOpcode, `p P` Before/AfterStackPush, `q Q` Before/AfterStackPop,
    `O` AfterExecuteOpcode, `c C` Before/AfterScriptChange, `S` AfterStep, `]` AfterExecute, `+` AfterSuccess, `!` AfterError:

      [ ( s ( o stack* ( O stack* (c C stack*)? | c C )? )? S? )* ] (q Q?)* ( + | ! )

    where `stack` is `p P` or `q Q` (a `q` may stay unanswered only when the pop fails, i.e. right before the
    error), a step without `S` is the last one, and `+`/`!` end the run.  Stack events after a script change
    (`C stack*`) belong to the pay-to-script-hash hand-over only (the verdict pop and the restored stack); in any
    other run (`p2sh = false`) the documented order "stack push/pop > script change" leaves none there. -/
def lifecycleOk (p2sh : Bool) (ev : List Char) : Bool :=
  -- states: 0 expect '['; 1 between steps; 2 after 's'; 3 inside opcode (after 'o'); 4 after 'O';
  --         5 after 'c' (expect 'C'); 6 after 'C'; 7 step finished with 'S'; 8 after ']' ; 9 done
  --         pending: 0 none, 1 after 'p' (expect 'P'), 2 after 'q' (expect 'Q' or failure)
  let rec go : List Char → Nat → Nat → Bool
    | [], st, _ => st == 9 || st == 0   -- no callback at all: the execution was refused before it started
    | c :: r, st, pend =>
      if pend == 1 then (if c == 'P' then go r st 0 else false)
      else if pend == 2 && c == 'Q' then go r st 0
      else
        -- an unanswered 'q' is only allowed when the run now heads for the error exit
        let failing := pend == 2
        match st, c with
        | 0, '[' => go r 1 0
        | 1, 's' => if failing then false else go r 2 0
        | 7, 's' => if failing then false else go r 2 0
        | 2, 'o' => go r 3 0
        | 3, 'p' => if failing then false else go r 3 1
        | 3, 'q' => if failing then false else go r 3 2
        | 3, 'O' => if failing then false else go r 4 0
        | 3, 'c' => if failing then false else go r 5 0
        | 4, 'p' => go r 4 1
        | 4, 'q' => go r 4 2
        | 4, 'c' => go r 5 0
        | 5, 'C' => go r 6 0
        | 6, 'p' => if p2sh then go r 6 1 else false
        | 6, 'q' => if p2sh then go r 6 2 else false
        | 2, 'S' => false
        | 3, 'S' => false
        | 4, 'S' => if failing then false else go r 7 0
        | 6, 'S' => if failing then false else go r 7 0
        | 1, ']' => go r 8 0
        | 2, ']' => go r 8 0
        | 3, ']' => go r 8 0
        | 4, ']' => go r 8 0
        | 6, ']' => go r 8 0
        | 7, ']' => go r 8 0
        | 8, 'q' => if failing then false else go r 8 2
        | 8, '+' => if failing then false else go r 9 0
        | 8, '!' => go r 9 0
        | _, _ => false
  go ev 0 0


end GoBT.Driver

namespace GoBT.Interp
open GoBT GoBT.Script

abbrev Ev := List Char

/-- `runOps` emitting the skeleton: `s o` for the step that fails inside the opcode (or returns early — the caller adds the
    script change), `s o O` for one that fails after it (stack overflow) or ends the script, `s o O S` otherwise -/
def runOpsE (env : Env) (cur : List POp) : List POp → Nat → St → ScriptEnd × Ev
  | [], _, s => (.finished s, [])
  | o :: rest, off, s =>
    match executeOpcode env cur off o s with
    | .err e => (.failed e, ['s', 'o'])
    | .panic p => (.panicked p, ['s', 'o'])
    | .success s' => (.returned s', ['s', 'o'])
    | .ok s' =>
      if s'.ds.length + s'.as.length > env.cfg.maxStack then (.failed "ErrStackOverflow", ['s', 'o', 'O'])
      else match rest with
        | [] => (.finished s', ['s', 'o', 'O'])
        | _ => ((runOpsE env cur rest (off + 1) s').1, ['s', 'o', 'O', 'S'] ++ (runOpsE env cur rest (off + 1) s').2)

/-- `runScript` emitting the skeleton; a script that ends (normally or by an early return) is followed by the script change
    `c C` -/
def runScriptE (env : Env) (ops : List POp) (s : St) : Ended × Ev :=
  match runOpsE env ops ops 0 s with
  | (.failed e, ev) => (.stop (.reject e), ev)
  | (.panicked p, ev) => (.stop (.panic p), ev)
  | (.returned s', ev) =>
    (.byReturn { s' with as := [], numOps := 0, early := false, lastCodeSep := 0, sepSeen := false }, ev ++ ['c', 'C'])
  | (.finished s', ev) =>
    if !s'.cond.isEmpty then (.stop (.reject "ErrUnbalancedConditional"), ev)
    else (.normal { s' with as := [], numOps := 0, early := false, lastCodeSep := 0, sepSeen := false }, ev ++ ['c', 'C'])

/-- an error ends the run: AfterExecute, AfterError -/
def stopE (v : Verdict) (ev : Ev) : Verdict × Ev := (v, ev ++ [']', '!'])

/-- the last step returned "done": AfterStep, AfterExecute, then the final check reports success or error -/
def finalE (env : Env) (s : St) (ev : Ev) : Verdict × Ev :=
  match checkErrorCondition env true s with
  | .ok _ => (.accept, ev ++ ['S', ']', '+'])
  | .error e => (.reject e, ev ++ ['S', ']', '!'])

def runP2SHE (env : Env) (noTx : Bool) (saved : List Bytes) (s2 : St) (ev : Ev) : Verdict × Ev :=
  match checkErrorCondition env false s2 with
  | .error e => stopE (.reject e) ev
  | .ok _ =>
    match saved with
    | [] => stopE (.panic "savedFirstStack[-1]") ev
    | redeem :: restStack =>
      match parseScript redeem noTx with
      | .error .requiresTx => stopE (.reject "ErrInvalidParams") ev
      | .error _ => stopE (.reject "ErrMalformedPush") ev
      | .ok rops =>
        let s3 : St := { s2 with ds := restStack }
        match rops with
        | [] => finalE env s3 ev
        | _ =>
          match runScriptE env rops s3 with
          | (.stop v, ev2) => stopE v (ev ++ ['S'] ++ ev2)
          | (.byReturn s4, ev2) => finalE env s4 (ev ++ ['S'] ++ ev2)
          | (.normal s4, ev2) => finalE env s4 (ev ++ ['S'] ++ ev2)

def runLockE (env : Env) (p : Prepared) (noTx : Bool) (saved : List Bytes) (s1 : St) (ev : Ev) : Verdict × Ev :=
  match runScriptE env p.lock s1 with
  | (.stop v, ev2) => stopE v (ev ++ ev2)
  | (.byReturn s2, ev2) => finalE env s2 (ev ++ ev2)
  | (.normal s2, ev2) =>
    if p.bip16 && !env.cfg.afterGenesis then runP2SHE env noTx saved s2 (ev ++ ev2)
    else finalE env s2 (ev ++ ev2)

/-- Engine.Execute emitting the skeleton of the callback sequence (no callback at all when the engine refuses to start) -/
def executeE (H : Crypto) (flags : Nat) (ctx : Option Ctx) (unlock lock : Bytes) : Verdict × Ev :=
  match prepare H flags ctx unlock lock with
  | .inl e => (.reject e, [])
  | .inr p =>
    let env := p.env
    match p.unlock with
    | [] => runLockE env p ctx.isNone [] {} ['[']
    | _ =>
      match runScriptE env p.unlock {} with
      | (.stop v, ev) => stopE v ('[' :: ev)
      | (.byReturn s1, ev) =>
        (match p.lock with
         | [] => finalE env s1 ('[' :: ev)
         | _ => runLockE env p ctx.isNone s1.ds s1 ('[' :: ev ++ ['S']))
      | (.normal s1, ev) =>
        match p.lock with
        | [] => finalE env s1 ('[' :: ev)
        | _ => runLockE env p ctx.isNone s1.ds s1 ('[' :: ev ++ ['S'])

end GoBT.Interp

