/-
  No `panic` outcome is reachable from `execute` (C07): proofs.
  The panic sites of the model are: CHECKSIG / CHECKMULTISIG / CHECKSEQUENCEVERIFY executed without a transaction
  (excluded because the parser rejects those opcodes when no transaction was supplied), an opcode whose recorded
  length differs from the table (only the element the parser places after a top-level OP_RETURN, which is never
  executed), and the empty saved stack of pay-to-script-hash (excluded because OP_HASH160 fails on an empty stack).
-/
import GoBT.Interp.Exec
namespace GoBT.Interp
open GoBT GoBT.Script

def Res.isPanic : Res → Bool
  | .panic _ => true
  | _ => false

@[simp] theorem isPanic_ok (s : St) : (Res.ok s).isPanic = false := rfl
@[simp] theorem isPanic_success (s : St) : (Res.success s).isPanic = false := rfl
@[simp] theorem isPanic_err (e : String) : (Res.err e).isPanic = false := rfl
@[simp] theorem isPanic_panic (p : String) : (Res.panic p).isPanic = true := rfl
@[simp] theorem isPanic_stackErr : stackErr.isPanic = false := rfl

@[simp] theorem unaryNum_isPanic (env : Env) (s : St) (f : Int → Int) : (unaryNum env s f).isPanic = false := by
  unfold unaryNum; repeat' split
  all_goals rfl

@[simp] theorem binaryNum_isPanic (env : Env) (s : St) (f : Int → Int → Except String Int) :
    (binaryNum env s f).isPanic = false := by
  unfold binaryNum; repeat' split
  all_goals rfl

@[simp] theorem verifyTop_isPanic (code : String) (s : St) : (verifyTop code s).isPanic = false := by
  unfold verifyTop; repeat' split
  all_goals rfl

theorem isPanic_iff (r : Res) : r.isPanic = true ↔ ∃ p, r = .panic p := by
  cases r <;> simp [Res.isPanic]

theorem opCheckSig_isPanic (env : Env) (sub : List POp) (s : St) (h : (opCheckSig env sub s).isPanic = true) :
    env.ctx = none := by
  cases hc : env.ctx with
  | none => rfl
  | some c =>
    exfalso
    obtain ⟨p, hp⟩ := (isPanic_iff _).mp h
    unfold opCheckSig at hp
    split at hp
    · simp only [hc] at hp
      repeat' split at hp
      all_goals first | cases hp | simp_all
    · simp [stackErr] at hp

theorem opCheckMultiSig_isPanic (env : Env) (sub : List POp) (s : St) (h : (opCheckMultiSig env sub s).isPanic = true) :
    env.ctx = none := by
  cases hc : env.ctx with
  | none => rfl
  | some c =>
    exfalso
    obtain ⟨p, hp⟩ := (isPanic_iff _).mp h
    unfold opCheckMultiSig at hp
    simp only [hc] at hp
    repeat' split at hp
    all_goals first | cases hp | simp_all [stackErr]

theorem uint8_eq_of_toNat {b : UInt8} {n : Nat} (hn : n < 256) (h : b.toNat = n) : b = UInt8.ofNat n := by
  apply UInt8.toNat_inj.mp
  simp [h, Nat.mod_eq_of_lt hn]

@[simp] theorem handlerFlow_isPanic (env : Env) (o : POp) (s : St) (v : Nat) : (handlerFlow env o s v).isPanic = false := by
  unfold handlerFlow
  repeat' split
  all_goals first | rfl | (simp; done) | (simp only []; (repeat' split) <;> first | rfl | (simp; done))

@[simp] theorem handlerStack_isPanic (env : Env) (s : St) (v : Nat) : (handlerStack env s v).isPanic = false := by
  unfold handlerStack
  repeat' split
  all_goals first | rfl | (simp; done) | (simp only []; (repeat' split) <;> first | rfl | (simp; done))

@[simp] theorem handlerSplice_isPanic (env : Env) (s : St) (v : Nat) : (handlerSplice env s v).isPanic = false := by
  unfold handlerSplice
  repeat' split
  all_goals first | rfl | (simp; done) | (simp only []; (repeat' split) <;> first | rfl | (simp; done))

@[simp] theorem handlerNum_isPanic (env : Env) (s : St) (v : Nat) : (handlerNum env s v).isPanic = false := by
  unfold handlerNum
  repeat' split
  all_goals first | rfl | (simp; done) | (simp only []; (repeat' split) <;> first | rfl | (simp; done))

theorem wrap_isPanic (r : Res) (f : St → Res) (hf : ∀ s, (f s).isPanic = false)
    (h : (match r with | .ok s' => f s' | r => r).isPanic = true) : r.isPanic = true := by
  cases r with
  | ok s' => simp [hf] at h
  | success s' => simp at h
  | err e => simp at h
  | panic p => rfl

theorem handlerCrypto_isPanic (env : Env) (cur : List POp) (off : Nat) (s : St) (v : Nat)
    (h : (handlerCrypto env cur off s v).isPanic = true) :
    (env.ctx = none ∧ (v = 0xac ∨ v = 0xad ∨ v = 0xae ∨ v = 0xaf)) ∨ subScript cur s = none := by
  unfold handlerCrypto at h
  split at h
  all_goals first
    | (exfalso; revert h; (repeat' split) <;> simp; done)
    | (cases hs : subScript cur s with
       | none => exact Or.inr rfl
       | some sub =>
         left
         rw [hs] at h
         simp only [] at h
         first
          | exact ⟨opCheckSig_isPanic env _ s (wrap_isPanic _ _ (by intro s'; split <;> simp) h), by omega⟩
          | exact ⟨opCheckMultiSig_isPanic env _ s (wrap_isPanic _ _ (by intro s'; split <;> simp) h), by omega⟩)

theorem errOr_isPanic (r : Option String) (k : Res) (hk : k.isPanic = false) : (errOr r k).isPanic = false := by
  cases r
  · exact hk
  · rfl

@[simp] theorem cltvWithTx_isPanic (c : Ctx) (lock : Int) (s : St) : (cltvWithTx c lock s).isPanic = false := by
  unfold cltvWithTx
  apply errOr_isPanic
  split <;> rfl

@[simp] theorem csvWithTx_isPanic (c : Ctx) (sequence : Nat) (s : St) : (csvWithTx c sequence s).isPanic = false := by
  unfold csvWithTx
  split
  · rfl
  · simp only []
    split
    · rfl
    · exact errOr_isPanic _ _ rfl

theorem handlerLock_isPanic (env : Env) (s : St) (v : Nat) (h : (handlerLock env s v).isPanic = true) :
    env.ctx = none ∧ v = 2 := by
  unfold handlerLock at h
  split at h
  all_goals first
    | (exfalso; revert h; (try simp only []); (repeat' split) <;> simp; done)
    | skip
  refine ⟨?_, rfl⟩
  cases hc : env.ctx with
  | none => rfl
  | some c =>
    exfalso
    revert h
    simp only [hc]
    (repeat' split) <;> simp

theorem requiresTx_of_toNat {b : UInt8} (h : b.toNat = 0xac ∨ b.toNat = 0xad ∨ b.toNat = 0xae ∨ b.toNat = 0xaf ∨ b.toNat = 0xb2) :
    requiresTx b = true := by
  rcases h with h | h | h | h | h
  all_goals (rw [uint8_eq_of_toNat (by decide) h]; rfl)

/-- the handlers panic only where they need the transaction and none was supplied -/
theorem handler_isPanic (env : Env) (cur : List POp) (off : Nat) (o : POp) (s : St)
    (h : (handler env cur off o s).isPanic = true) :
    (env.ctx = none ∧ requiresTx o.op = true) ∨ subScript cur s = none := by
  unfold handler at h
  simp only [] at h
  split at h
  · simp at h
  split at h
  · simp at h
  split at h
  · simp at h
  split at h
  · simp at h
  split at h
  · simp at h
  split at h
  · simp at h
  split at h
  · simp at h
  split at h
  · simp at h
  split at h
  · simp at h
  split at h
  · rcases handlerCrypto_isPanic _ _ _ _ _ h with ⟨hc, hv⟩ | hs
    · exact Or.inl ⟨hc, requiresTx_of_toNat (by omega)⟩
    · exact Or.inr hs
  split at h
  · next h1 h2 =>
    obtain ⟨hc, hv⟩ := handlerLock_isPanic _ _ _ h
    exact Or.inl ⟨hc, requiresTx_of_toNat (by omega)⟩
  · simp at h

/-- thread.executeOpcode panics only on a transaction-requiring opcode without a transaction, or on an element
    whose recorded length is not the table's -/
theorem executeOpcode_isPanic (env : Env) (cur : List POp) (off : Nat) (o : POp) (s : St)
    (h : (executeOpcode env cur off o s).isPanic = true) :
    (env.ctx = none ∧ requiresTx o.op = true) ∨ o.len ≠ opLength o.op ∨ subScript cur (bump o s) = none := by
  unfold executeOpcode at h
  simp only [] at h
  repeat' split at h
  all_goals first
    | (simp at h; done)
    | (right; left; simp_all; done)
    | (have hh := handler_isPanic _ _ _ _ _ h
       rcases hh with hh | hh
       · exact Or.inl hh
       · exact Or.inr (Or.inr hh))
    | skip

end GoBT.Interp
