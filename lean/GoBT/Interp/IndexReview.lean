/-
  Every index / slice expression of bscript/interpreter (regenerated: GoBT/Gen/Indexing.lean) is accounted for:
  per function, how many such expressions there are and why none of them can be out of range — or where the model
  has the corresponding explicit `panic` outcome (which `C07.execute_never_panics` then proves unreachable).
  When the code gains an index expression that was not reviewed (IndexReviewed.lean holds the reviewed ones) the obligation
  `C07.index_sites_reviewed` stops checking and the function has to be looked at again; losing or reordering reviewed
  expressions needs no new review.  (Found the hard way: the slice in `thread.subScript` had no counterpart in
  the model until a stale separator position made it panic.)
-/
import GoBT.Gen.Indexing
import GoBT.Interp.IndexReviewed
namespace GoBT.Interp

/-- (function, number of index/slice expressions, why they are in range / where the model panics) -/
def indexReview : List (String × Nat × String) := [
  ("checkMinimalDataEncoding", 2, "len(v)==0 returns first; v[len-2] only after len(v)==1 was excluded (short-circuit ||). Model: isMinimalNum by pattern matching on the reversed list."),
  ("makeScriptNumber", 1, "bb[len(bb)-1] under len(bb) > 0. Model: decodeNum matches on getLast?."),
  ("minimallyEncode", 7, "returns on len 0; data[len-2] after len==1 returned; loop i from len-1 down to 1 reads data[i-1], data[i], data[:i]. Model: minimallyEncode by pattern matching."),
  ("scriptNumber.Bytes", 2, "result is non-empty because zero returned early and the loop appends one byte per non-zero byte of the magnitude. Model: encodeNum (magBytes_spec: non-empty with non-zero top byte)."),
  ("DefaultOpcodeParser.Parse", 21, "script[i] under i < len; every read after a `len(script[...:]) < k` / `(i+k) > totalLen` test; offset = i+1 <= len so script[offset:] is legal. Model: parseAux on lists (take/drop after explicit length tests; parseAux_Parsed)."),
  ("ParsedOpcode.bytes", 4, "retbytes has length 1 on creation (retbytes[0]); retbytes[1], retbytes[1:] after an append. Model: POp.bytes."),
  ("ParsedOpcode.canonicalPush", 1, "data[0] under dataLen == 1. Model: canonicalPush uses headD under the same test."),
  ("ParsedOpcode.enforceMinimumDataPush", 6, "o.Data[0] under dataLen == 1. Model: enforceMinimumDataPush."),
  ("opcodeAnd", 3, "equal lengths checked, c allocated with that length, i ranges over it. Model: zipBytes."),
  ("opcodeOr", 3, "as opcodeAnd."),
  ("opcodeXor", 3, "as opcodeAnd."),
  ("opcodeInvert", 2, "baInverted allocated with len(ba), i ranges over ba."),
  ("opcodeHash160", 1, "slice of a fixed-size array."),
  ("opcodeSha1", 1, "slice of a fixed-size array."),
  ("opcodeSha256", 1, "slice of a fixed-size array."),
  ("opcodeCheckLockTimeVerify", 1, "t.tx.Inputs[t.inputIdx]: index validated by execOpts.validate; nil tx returns an error first (fix a4612f4)."),
  ("opcodeCheckSequenceVerify", 1, "t.tx.Inputs[t.inputIdx]: index validated by execOpts.validate; the opcode requires a tx (parser rejects it otherwise). Model panic site: csv-without-tx."),
  ("opcodeCheckSig", 3, "fullSigBytes[len-1], [:len-1] after the len < 1 return; txCopy.Inputs[t.inputIdx] validated index. Model panic site: checksig-without-tx."),
  ("opcodeCheckMultiSig", 6, "signatures[signatureIdx] / pubKeys[pubKeyIdx] under the loop conditions numSignatures > 0 and the remaining-keys test; rawSig[len-1] after the empty-signature continue; sigInfo.signature[n-1] n>0. Model: multisigLoop on lists; panic site checkmultisig-without-tx."),
  ("opcodeElse", 3, "condStack[len-1] after the len == 0 return."),
  ("opcodeEndif", 1, "condStack[:len-1] after the len == 0 return."),
  ("opcodeNum2bin", 2, "b[len(b)-1] under len(b) > 0."),
  ("opcodeSplit", 2, "c[:n], c[n:] after n.Int32() > len(c) and n < 0 were excluded; Int32 clamps (fix 4727e10). Model: take/drop after the same tests."),
  ("popIfBool", 1, "b[0] under len(b) == 1."),
  ("shiftBytes", 8, "out allocated with len(x); x[src], x[src±1] under explicit bounds tests; count below 8*len(x) (fix 2d2e1ab). Model: shiftLeft/shiftRight (C07.shift_total)."),
  ("asBool", 2, "i ranges over t."),
  ("stack.PeekByteArray", 1, "idx validated against the depth first."),
  ("stack.nipN", 5, "idx validated against the depth first; the three slicing cases are within [0, sz]."),
  ("State.Opcode", 2, "debugger API on a snapshot: guarded by hasOpcode (fix 32f5d76 — the clamped index is -1 for an empty script, which used to panic)."),
  ("State.RemainingScript", 2, "debugger API on a snapshot: guarded by hasOpcode, as State.Opcode."),
  ("State.hasOpcode", 1, "s.Scripts[s.ScriptIdx] after the range test on ScriptIdx (short-circuit &&)."),
  ("thread.State", 13, "scriptIdx / offset clamped before use; the copy loops range over the source slices and index freshly made slices of the same length. Model: clampSnap."),
  ("execOpts.validate", 4, "o.tx.Inputs[o.inputIdx] after the range test on inputIdx (fix 180950e)."),
  ("getStack", 1, "array allocated with the stack depth, i below it."),
  ("setStack", 1, "i ranges over data."),
  ("thread.Step", 7, "scripts[scriptIdx][scriptOff] after validPC; scripts[scriptIdx] in the two zero-length-script tests (normal end and, since fix F-C05-04, early return) is guarded by scriptIdx < len(scripts) in the same condition; savedFirstStack[len-1] is the model's panic site savedFirstStack[-1] (unreachable: p2sh_lock_needs_item)."),
  ("thread.apply", 4, "scripts has two elements by construction; opts.tx.Inputs[opts.inputIdx] validated."),
  ("thread.checkPubKeyEncoding", 3, "pubKey[0] under len == 33 / len == 65."),
  ("thread.checkSignatureEncoding", 17, "every offset is compared with sigLen before the read. Model: checkSignatureEncoding reads with a default (byteAt) under the same comparisons; the correspondence sweeps a valid signature cut at every length with the R length swept across the cut, so a weakened comparison shows as a Go panic."),
  ("thread.isBranchExecuting", 1, "condStack[len-1] after the len == 0 return."),
  ("thread.subScript", 2, "scripts[scriptIdx][skip:] with skip = lastCodeSep+1: the model's panic site subScript (unreachable: SepOK invariant; fix 278f9d7)."),
  ("thread.validPC", 2, "scripts[scriptIdx] after the scriptIdx range test.")
]

/-- how often the expression `e` occurs in function `fn` in a list of (function, expression) pairs -/
def occurrences (l : List (String × String)) (fn e : String) : Nat := (l.filter fun s => s.1 == fn && s.2 == e).length

/-- every function with an index/slice expression has a review entry, and every expression of the current sources is
    one of the reviewed expressions of its function, at most as many times as it was reviewed (the number in a review
    entry is the size of the reviewed set, kept for the reader) -/
def indexReviewOk : Bool :=
  let cur := GoBT.Gen.Indexing.sites.map fun s => (s.2.1, s.2.2)
  (cur.all fun s => indexReview.any fun r => r.1 == s.1) &&
  (cur.all fun s => occurrences cur s.1 s.2 ≤ occurrences reviewedSites s.1 s.2)

/-- the expressions that are not covered by the review (empty on the unchanged tree; printed as the witness) -/
def unreviewedSites : List (String × String) :=
  let cur := GoBT.Gen.Indexing.sites.map fun s => (s.2.1, s.2.2)
  cur.filter fun s => !(indexReview.any fun r => r.1 == s.1) || occurrences cur s.1 s.2 > occurrences reviewedSites s.1 s.2

end GoBT.Interp
