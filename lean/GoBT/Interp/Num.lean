/-
  bscript/interpreter/number.go and the byte-level helpers of stack.go: script numbers
  (little-endian sign-magnitude), minimal encoding, truthiness, clamping.  Core Lean only.
-/
import GoBT.Basic.Bytes
namespace GoBT.Interp
open GoBT

/-- minimal little-endian bytes of a natural number (empty for 0) -/
def natLE : Nat → Nat → Bytes
  | 0, _ => []
  | fuel + 1, n => if n = 0 then [] else UInt8.ofNat (n % 256) :: natLE fuel (n / 256)

def magBytes (n : Nat) : Bytes := natLE (n.log2 / 8 + 2) n

/-- scriptNumber.Bytes: minimal sign-magnitude encoding (zero is the empty string) -/
def encodeNum (z : Int) : Bytes :=
  if z = 0 then [] else
  let m := magBytes z.natAbs
  let top := (m.getLast?.getD 0)
  if top.toNat ≥ 0x80 then m ++ [if z < 0 then 0x80 else 0x00]
  else if z < 0 then m.dropLast ++ [top ||| 0x80]
  else m

/-- the value makeScriptNumber computes from bytes (no length / minimality checks) -/
def decodeNum (bs : Bytes) : Int :=
  match bs.getLast? with
  | none => 0
  | some top =>
    if top.toNat ≥ 0x80 then
      -((leDec bs - 0x80 * 256 ^ (bs.length - 1) : Nat) : Int)
    else (leDec bs : Int)

/-- checkMinimalDataEncoding -/
def isMinimalNum (v : Bytes) : Bool :=
  match v.reverse with
  | [] => true
  | last :: rest =>
    if last.toNat &&& 0x7f == 0 then
      match rest with
      | [] => false
      | prev :: _ => prev.toNat &&& 0x80 != 0
    else true

inductive NumErr | tooBig | notMinimal
  deriving Repr, DecidableEq

/-- makeScriptNumber -/
def makeScriptNumber (bb : Bytes) (maxLen : Nat) (requireMinimal : Bool) : Except NumErr Int :=
  if bb.length > maxLen then .error .tooBig
  else if requireMinimal && !isMinimalNum bb then .error .notMinimal
  else .ok (decodeNum bb)

/-- asBool: any non-zero byte, except that a sole sign bit in the last byte is "negative zero" -/
def asBool (t : Bytes) : Bool :=
  match t.reverse with
  | [] => false
  | last :: rest => rest.any (· != 0) || (last != 0 && last != 0x80)

/-- fromBool -/
def fromBool (b : Bool) : Bytes := if b then [1] else []

/-- minimallyEncode (OP_BIN2NUM), at the value level -/
def minimallyEncode (data : Bytes) : Bytes :=
  match data.reverse with
  | [] => []
  | last :: rest =>
    if last.toNat &&& 0x7f != 0 then data
    else match rest with
      | [] => []
      | prev :: _ =>
        if prev.toNat &&& 0x80 != 0 then data
        else
          -- strip zero bytes below the sign byte, then re-attach the sign
          let body := (rest.dropWhile (· == 0)).reverse     -- most significant non-zero byte last
          match body.getLast? with
          | none => []
          | some hi =>
            if hi.toNat &&& 0x80 != 0 then body ++ [last]
            else body.dropLast ++ [hi ||| last]

/-- scriptNumber.Int32: clamp to the int32 range -/
def clamp32 (z : Int) : Int :=
  if z > 2147483647 then 2147483647 else if z < -2147483648 then -2147483648 else z

/-- scriptNumber.Int64: clamp to the int64 range -/
def clamp64 (z : Int) : Int :=
  if z > 9223372036854775807 then 9223372036854775807 else if z < -9223372036854775808 then -9223372036854775808 else z

/-- scriptNumber.Int: `int(val.Int64())` — the low 64 bits, reinterpreted as signed -/
def wrap64 (z : Int) : Int :=
  let m := z % (2 ^ 64 : Int)
  if m ≥ 2 ^ 63 then m - 2 ^ 64 else m

end GoBT.Interp
