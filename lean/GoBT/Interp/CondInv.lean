/-
  The conditional stack under execution: only IF / NOTIF push, only ENDIF pops, everything else leaves its depth
  unchanged.  Used by the no-panic theorem to relate the run-time nesting depth to the parser's nesting count.
-/
import GoBT.Interp.NoPanic
namespace GoBT.Interp
open GoBT GoBT.Script

/-- the fields the no-panic invariants talk about are unchanged -/
def St.same (s' s : St) : Prop :=
  s'.cond = s.cond ∧ s'.lastCodeSep = s.lastCodeSep ∧ s'.sepSeen = s.sepSeen

theorem St.same_refl (s : St) : s.same s := ⟨rfl, rfl, rfl⟩
theorem St.same_trans {a b c : St} (h1 : a.same b) (h2 : b.same c) : a.same c :=
  ⟨h1.1.trans h2.1, h1.2.1.trans h2.2.1, h1.2.2.trans h2.2.2⟩

/-- closes goals `r = .ok s' → s'.same s` where `r` is a nest of matches / ifs ending in error values or in
    updates of fields other than `cond` -/
macro "cond_same" : tactic =>
  `(tactic| ((repeat' split) <;> (intro h; first | (cases h; done) | (cases h; exact ⟨rfl, rfl, rfl⟩))))

/-- the same, splitting inside the hypothesis (for bodies where a `match` sits under another one's alternative) -/
macro "cond_same_h" : tactic =>
  `(tactic| (intro h; (repeat' (first | split at h | (simp only [] at h; split at h))) <;> first | (cases h; done) | (cases h; exact ⟨rfl, rfl, rfl⟩)))

theorem unaryNum_cond (env : Env) (s s' : St) (f : Int → Int) : unaryNum env s f = .ok s' → s'.same s := by
  unfold unaryNum; cond_same

theorem binaryNum_cond (env : Env) (s s' : St) (f : Int → Int → Except String Int) :
    binaryNum env s f = .ok s' → s'.same s := by
  unfold binaryNum; cond_same

theorem verifyTop_cond (code : String) (s s' : St) : verifyTop code s = .ok s' → s'.same s := by
  unfold verifyTop stackErr; cond_same

theorem opCheckSig_cond (env : Env) (sub : List POp) (s s' : St) : opCheckSig env sub s = .ok s' → s'.same s := by
  unfold opCheckSig stackErr pushBool; cond_same_h

theorem opCheckMultiSig_cond (env : Env) (sub : List POp) (s s' : St) :
    opCheckMultiSig env sub s = .ok s' → s'.same s := by
  unfold opCheckMultiSig stackErr pushBool; simp only []; cond_same_h

theorem handlerStack_cond (env : Env) (s s' : St) (v : Nat) : handlerStack env s v = .ok s' → s'.same s := by
  unfold handlerStack stackErr pushNum
  split
  all_goals first | cond_same | (simp only []; cond_same)

theorem handlerSplice_cond (env : Env) (s s' : St) (v : Nat) : handlerSplice env s v = .ok s' → s'.same s := by
  unfold handlerSplice stackErr pushNum
  split
  all_goals first | cond_same | (simp only []; cond_same)

theorem handlerNum_cond (env : Env) (s s' : St) (v : Nat) : handlerNum env s v = .ok s' → s'.same s := by
  unfold handlerNum stackErr
  split
  all_goals first
    | exact unaryNum_cond env s s' _
    | exact binaryNum_cond env s s' _
    | cond_same
    | (simp only []; cond_same)
    | (intro h
       split at h
       · next s1 h1 => exact St.same_trans (verifyTop_cond _ _ _ h) (binaryNum_cond _ _ _ _ h1)
       · next r hr => exact binaryNum_cond _ _ _ _ h)

theorem wrapVerify_cond (r : Res) (b : Bool) (code : String) (s s' : St) (hr : ∀ s1, r = .ok s1 → s1.same s)
    (h : (match r with | .ok s1 => if b then verifyTop code s1 else .ok s1 | r => r) = .ok s') : s'.same s := by
  cases r with
  | ok s1 =>
    simp only at h
    split at h
    · exact St.same_trans (verifyTop_cond _ _ _ h) (hr s1 rfl)
    · cases h; exact hr _ rfl
  | success s1 => cases h
  | err e => cases h
  | panic p => cases h

/-- hashes and signature checks leave the three fields alone; OP_CODESEPARATOR records its own offset -/
theorem handlerCrypto_cond (env : Env) (cur : List POp) (off : Nat) (s s' : St) (v : Nat) :
    handlerCrypto env cur off s v = .ok s' →
      (v ≠ 0xab → s'.same s) ∧ (v = 0xab → s'.cond = s.cond ∧ s'.lastCodeSep = off ∧ s'.sepSeen = true) := by
  unfold handlerCrypto stackErr
  split
  -- a6..aa
  iterate 5 ((repeat' split) <;> (intro h; first | (cases h; done) | (cases h; exact ⟨fun _ => ⟨rfl, rfl, rfl⟩, fun e => by omega⟩)))
  · intro h; cases h; exact ⟨fun e => absurd rfl e, fun _ => ⟨rfl, rfl, rfl⟩⟩
  all_goals first
    | (intro h
       refine ⟨fun _ => ?_, fun e => by omega⟩
       cases hs : subScript cur s with
       | none => rw [hs] at h; cases h
       | some sub =>
         rw [hs] at h
         simp only [] at h
         first
          | exact wrapVerify_cond _ _ _ s s' (fun s1 h1 => opCheckSig_cond _ _ _ _ h1) h
          | exact wrapVerify_cond _ _ _ s s' (fun s1 h1 => opCheckMultiSig_cond _ _ _ _ h1) h)
    | (intro h; cases h)

theorem errOr_ok (r : Option String) (k : Res) (s' : St) (h : errOr r k = .ok s') : k = .ok s' := by
  cases r with
  | none => exact h
  | some e => cases h

theorem cltvWithTx_cond (c : Ctx) (lock : Int) (s s' : St) : cltvWithTx c lock s = .ok s' → s'.same s := by
  unfold cltvWithTx
  intro h
  have := errOr_ok _ _ _ h
  revert this
  split <;> intro h2 <;> cases h2
  exact ⟨rfl, rfl, rfl⟩

theorem csvWithTx_cond (c : Ctx) (sq : Nat) (s s' : St) : csvWithTx c sq s = .ok s' → s'.same s := by
  unfold csvWithTx
  split
  · intro h; cases h
  · simp only []
    split
    · intro h; cases h
    · intro h
      have := errOr_ok _ _ _ h
      cases this
      exact ⟨rfl, rfl, rfl⟩

theorem handlerLock_cond (env : Env) (s s' : St) (v : Nat) : handlerLock env s v = .ok s' → s'.same s := by
  unfold handlerLock stackErr
  split
  iterate 8 cond_same
  · -- CHECKLOCKTIMEVERIFY
    intro h
    split at h
    · revert h; cond_same
    · split at h
      · cases h
      · split at h
        · cases h
        · cases h
        · split at h
          · cases h
          · split at h
            · cases h
            · exact cltvWithTx_cond _ _ _ _ h
  · -- CHECKSEQUENCEVERIFY
    intro h
    split at h
    · revert h; cond_same
    · split at h
      · cases h
      · split at h
        · cases h
        · cases h
        · split at h
          · cases h
          · simp only [] at h
            split at h
            · cases h; exact ⟨rfl, rfl, rfl⟩
            · split at h
              · cases h
              · exact csvWithTx_cond _ _ _ _ h
  · intro h; cases h

end GoBT.Interp

namespace GoBT.Interp
open GoBT GoBT.Script

/-- run-time change of the conditional-stack depth caused by an opcode that completes normally -/
def rtDelta (v : Nat) : Int := if v = 0x63 ∨ v = 0x64 then 1 else if v = 0x68 then -1 else 0

theorem popIfBool_cond (env : Env) (s s1 : St) (b : Bool) (h : popIfBool env s = .ok (b, s1)) : s1.same s := by
  unfold popIfBool at h
  (repeat' split at h) <;> first | (cases h; done) | (cases h; exact ⟨rfl, rfl, rfl⟩)

theorem handlerFlow_depth (env : Env) (o : POp) (s s' : St) (v : Nat) (h : handlerFlow env o s v = .ok s') :
    (s'.cond.length : Int) = s.cond.length + rtDelta v ∧ s'.lastCodeSep = s.lastCodeSep ∧ s'.sepSeen = s.sepSeen := by
  unfold handlerFlow at h
  split at h
  · cases h; simp [rtDelta]
  · cases h
  · -- IF
    split at h
    · split at h
      · split at h
        · cases h
        · next b s1 hp =>
          cases h
          have := popIfBool_cond _ _ _ _ hp
          simp [rtDelta, this.1, this.2.1, this.2.2]
      · cases h; simp [rtDelta]
    · cases h; simp [rtDelta]
  · -- NOTIF
    split at h
    · split at h
      · split at h
        · cases h
        · next b s1 hp =>
          cases h
          have := popIfBool_cond _ _ _ _ hp
          simp [rtDelta, this.1, this.2.1, this.2.2]
      · cases h; simp [rtDelta]
    · cases h; simp [rtDelta]
  · split at h
    · cases h; simp [rtDelta]
    · cases h
  · split at h
    · cases h; simp [rtDelta]
    · cases h
  · -- ELSE
    split at h
    · cases h
    · next c cs hc =>
      split at h
      · split at h
        · simp [stackErr] at h
        · split at h
          · cases h
          · cases h; simp [rtDelta, hc]
      · cases h; simp [rtDelta, hc]
  · -- ENDIF
    split at h
    · cases h
    · next c cs hc =>
      split at h
      · split at h
        · simp [stackErr] at h
        · cases h; simp [rtDelta, hc]; omega
      · cases h; simp [rtDelta, hc]; omega
  · have := verifyTop_cond _ _ _ h
    simp [rtDelta, this.1, this.2.1, this.2.2]
  · split at h
    · cases h
    · split at h
      · cases h
      · cases h; simp [rtDelta]
  · cases h

end GoBT.Interp
