/-
  C19 — proofs about the skeleton-emitting interpreter of Interp/Events.lean: it is the same machine as `execute`
  (same verdict), and its callback skeleton is always in the documented lifecycle language.  Core Lean only.
-/
import GoBT.Interp.Events
namespace GoBT.Interp
open GoBT GoBT.Script GoBT.Driver

theorem runOpsE_fst (env : Env) (sidx : Nat) (cur ops : List POp) (off : Nat) (s : St) (tr : List Snap) :
    (runOpsE env cur ops off s).1 = (runOps env sidx cur ops off s tr).1 := by
  induction ops generalizing off s tr with
  | nil => rfl
  | cons o rest ih =>
    unfold runOpsE runOps
    cases executeOpcode env cur off o s with
    | err e => rfl
    | panic p => rfl
    | success s' => rfl
    | ok s' =>
      simp only
      split
      · rfl
      · cases rest with
        | nil => rfl
        | cons o2 r2 => exact ih (off + 1) s' _

theorem runScriptE_fst (env : Env) (sidx : Nat) (ops : List POp) (s : St) (tr : List Snap) :
    (runScriptE env ops s).1 = (runScript env sidx ops s tr).1 := by
  unfold runScriptE runScript
  have h := runOpsE_fst env sidx ops ops 0 s tr
  cases hE : runOpsE env ops ops 0 s with
  | mk e ev =>
    cases hR : runOps env sidx ops ops 0 s tr with
    | mk e' tr' =>
      rw [hE, hR] at h
      simp only at h
      subst h
      cases e with
      | failed c => rfl
      | panicked p => rfl
      | returned s' => rfl
      | finished s' =>
        simp only
        split <;> rfl

theorem finalE_fst (env : Env) (s : St) (ev : Ev) (tr : List Snap) : (finalE env s ev).1 = (finalCheck env s tr).1 := by
  unfold finalE finalCheck
  cases checkErrorCondition env true s <;> rfl

theorem runP2SHE_fst (env : Env) (noTx : Bool) (lensUL : List Nat) (saved : List Bytes) (s2 : St) (ev : Ev) (tr : List Snap) :
    (runP2SHE env noTx saved s2 ev).1 = (runP2SH env noTx lensUL saved s2 tr).1 := by
  unfold runP2SHE runP2SH
  cases checkErrorCondition env false s2 with
  | error e => rfl
  | ok s' =>
    simp only
    cases saved with
    | nil => rfl
    | cons redeem restStack =>
      simp only
      cases hp : parseScript redeem noTx with
      | error e => cases e <;> rfl
      | ok rops =>
        simp only
        cases rops with
        | nil => exact finalE_fst env _ _ _
        | cons o r =>
          simp only
          have h := runScriptE_fst env 2 (o :: r) { s2 with ds := restStack }
            (clampSnap (lensUL ++ [(o :: r).length]) 2 { s2 with ds := restStack } :: tr)
          cases hE : runScriptE env (o :: r) { s2 with ds := restStack } with
          | mk e ev2 =>
            cases hR : runScript env 2 (o :: r) { s2 with ds := restStack }
                (clampSnap (lensUL ++ [(o :: r).length]) 2 { s2 with ds := restStack } :: tr) with
            | mk e' tr' =>
              rw [hE, hR] at h
              simp only at h
              subst h
              cases e with
              | stop v => rfl
              | byReturn s4 => exact finalE_fst env _ _ _
              | normal s4 => exact finalE_fst env _ _ _

theorem runLockE_fst (env : Env) (p : Prepared) (noTx : Bool) (saved : List Bytes) (s1 : St) (ev : Ev) (tr : List Snap) :
    (runLockE env p noTx saved s1 ev).1 = (runLock env p noTx saved s1 tr).1 := by
  unfold runLockE runLock
  have h := runScriptE_fst env 1 p.lock s1 tr
  cases hE : runScriptE env p.lock s1 with
  | mk e ev2 =>
    cases hR : runScript env 1 p.lock s1 tr with
    | mk e' tr' =>
      rw [hE, hR] at h
      simp only at h
      subst h
      cases e with
      | stop v => rfl
      | byReturn s2 => exact finalE_fst env _ _ _
      | normal s2 =>
        simp only
        split
        · exact runP2SHE_fst env noTx _ saved s2 _ _
        · exact finalE_fst env _ _ _

/-- **The skeleton-emitting interpreter is the interpreter**: same verdict for every input. -/
theorem executeE_verdict (H : Crypto) (flags : Nat) (ctx : Option Ctx) (unlock lock : Bytes) :
    (executeE H flags ctx unlock lock).1 = (execute H flags ctx unlock lock).1 := by
  unfold executeE execute
  cases prepare H flags ctx unlock lock with
  | inl e => rfl
  | inr p =>
    simp only
    cases hu : p.unlock with
    | nil => exact runLockE_fst p.env p ctx.isNone [] {} _ _
    | cons o r =>
      simp only
      have h := runScriptE_fst p.env 0 (o :: r) {} []
      cases hE : runScriptE p.env (o :: r) {} with
      | mk e ev =>
        cases hR : runScript p.env 0 (o :: r) {} [] with
        | mk e' tr' =>
          rw [hE, hR] at h
          simp only at h
          subst h
          cases e with
          | stop v => rfl
          | byReturn s1 =>
            simp only
            cases hl : p.lock with
            | nil => exact finalE_fst p.env _ _ _
            | cons o2 r2 =>
              simp only
              rw [← hl]
              exact runLockE_fst p.env p ctx.isNone s1.ds s1 _ _
          | normal s1 =>
            simp only
            cases hl : p.lock with
            | nil => exact finalE_fst p.env _ _ _
            | cons o2 r2 =>
              simp only
              rw [← hl]
              exact runLockE_fst p.env p ctx.isNone s1.ds s1 _ _

end GoBT.Interp

namespace GoBT.Interp
open GoBT GoBT.Script GoBT.Driver

/-! ### the skeleton is in the lifecycle language -/

/-- reading `ev` takes the lifecycle automaton from state `a` to state `b` (no pending stack event) -/
def Reads (p2sh : Bool) (a : Nat) (ev : Ev) (b : Nat) : Prop :=
  ∀ tail, lifecycleOk.go p2sh (ev ++ tail) a 0 = lifecycleOk.go p2sh tail b 0

theorem Reads.trans {p2sh : Bool} {a b c : Nat} {e1 e2 : Ev} (h1 : Reads p2sh a e1 b) (h2 : Reads p2sh b e2 c) :
    Reads p2sh a (e1 ++ e2) c := by
  intro tail
  rw [List.append_assoc, h1, h2]

theorem Reads.nil (p2sh : Bool) (a : Nat) : Reads p2sh a [] a := fun _ => rfl

/-- a state between steps -/
def Between (st : Nat) : Prop := st = 1 ∨ st = 7
/-- a state in which an error may end the run (`]` `!` is accepted from it) -/
def InStep (st : Nat) : Prop := st = 3 ∨ st = 4

theorem reads_so (p2sh : Bool) (st : Nat) (h : Between st) : Reads p2sh st ['s', 'o'] 3 := by
  intro tail; rcases h with rfl | rfl <;> simp [lifecycleOk.go]
theorem reads_soO (p2sh : Bool) (st : Nat) (h : Between st) : Reads p2sh st ['s', 'o', 'O'] 4 := by
  intro tail; rcases h with rfl | rfl <;> simp [lifecycleOk.go]
theorem reads_soOS (p2sh : Bool) (st : Nat) (h : Between st) : Reads p2sh st ['s', 'o', 'O', 'S'] 7 := by
  intro tail; rcases h with rfl | rfl <;> simp [lifecycleOk.go]
theorem reads_cC (p2sh : Bool) (st : Nat) (h : InStep st) : Reads p2sh st ['c', 'C'] 6 := by
  intro tail; rcases h with rfl | rfl <;> simp [lifecycleOk.go]
theorem reads_S (p2sh : Bool) : Reads p2sh 6 ['S'] 7 := by
  intro tail; simp [lifecycleOk.go]
theorem reads_open (p2sh : Bool) : Reads p2sh 0 ['['] 1 := by
  intro tail; simp [lifecycleOk.go]

theorem ends_error (p2sh : Bool) (st : Nat) (h : InStep st ∨ st = 6 ∨ Between st) :
    lifecycleOk.go p2sh [']', '!'] st 0 = true := by
  rcases h with (rfl | rfl) | rfl | (rfl | rfl) <;> simp [lifecycleOk.go]
theorem ends_final_ok (p2sh : Bool) : lifecycleOk.go p2sh ['S', ']', '+'] 6 0 = true := by simp [lifecycleOk.go]
theorem ends_final_err (p2sh : Bool) : lifecycleOk.go p2sh ['S', ']', '!'] 6 0 = true := by simp [lifecycleOk.go]
theorem ends_pc (p2sh : Bool) : lifecycleOk.go p2sh ['S', 's', ']', '!'] 6 0 = true := by simp [lifecycleOk.go]

/-- the steps of one script: they end inside a step (after `s o` or `s o O`), wherever they end -/
theorem runOpsE_reads (p2sh : Bool) (env : Env) (cur ops : List POp) (off : Nat) (s : St) (st : Nat)
    (hne : ops ≠ []) (hst : Between st) :
    ∃ st', InStep st' ∧ Reads p2sh st (runOpsE env cur ops off s).2 st' := by
  induction ops generalizing off s st with
  | nil => exact absurd rfl hne
  | cons o rest ih =>
    unfold runOpsE
    cases executeOpcode env cur off o s with
    | err e => exact ⟨3, Or.inl rfl, reads_so p2sh st hst⟩
    | panic p => exact ⟨3, Or.inl rfl, reads_so p2sh st hst⟩
    | success s' => exact ⟨3, Or.inl rfl, reads_so p2sh st hst⟩
    | ok s' =>
      simp only
      split
      · exact ⟨4, Or.inr rfl, reads_soO p2sh st hst⟩
      · cases rest with
        | nil => exact ⟨4, Or.inr rfl, reads_soO p2sh st hst⟩
        | cons o2 r2 =>
          obtain ⟨st', h1, h2⟩ := ih (off + 1) s' 7 (by simp) (Or.inr rfl)
          exact ⟨st', h1, (reads_soOS p2sh st hst).trans h2⟩

/-- one script: either it stops inside a step, or it ends with the script change -/
theorem runScriptE_reads (p2sh : Bool) (env : Env) (ops : List POp) (s : St) (st : Nat) (hne : ops ≠ []) (hst : Between st) :
    match runScriptE env ops s with
    | (.stop _, ev) => ∃ st', InStep st' ∧ Reads p2sh st ev st'
    | (.byReturn _, ev) => Reads p2sh st ev 6
    | (.normal _, ev) => Reads p2sh st ev 6 := by
  obtain ⟨st', h1, h2⟩ := runOpsE_reads p2sh env ops ops 0 s st hne hst
  unfold runScriptE
  cases hE : runOpsE env ops ops 0 s with
  | mk e ev =>
    rw [hE] at h2
    cases e with
    | failed c => exact ⟨st', h1, h2⟩
    | panicked p => exact ⟨st', h1, h2⟩
    | returned s' => exact h2.trans (reads_cC p2sh st' h1)
    | finished s' =>
      simp only at h2 ⊢
      by_cases hc : (!s'.cond.isEmpty) = true
      · simp only [hc, ↓reduceIte]; exact ⟨st', h1, h2⟩
      · simp only [hc, Bool.false_eq_true, ↓reduceIte]; exact h2.trans (reads_cC p2sh st' h1)

theorem stopE_ok (p2sh : Bool) (v : Verdict) (ev : Ev) (st : Nat) (h : Reads p2sh 0 ev st)
    (hst : InStep st ∨ st = 6 ∨ Between st) : lifecycleOk p2sh (stopE v ev).2 = true := by
  unfold lifecycleOk stopE
  simp only
  rw [h]
  exact ends_error p2sh st hst

theorem finalE_ok (p2sh : Bool) (env : Env) (s : St) (ev : Ev) (h : Reads p2sh 0 ev 6) :
    lifecycleOk p2sh (finalE env s ev).2 = true := by
  unfold lifecycleOk finalE
  cases checkErrorCondition env true s with
  | ok s' => simp only; rw [h]; exact ends_final_ok p2sh
  | error e => simp only; rw [h]; exact ends_final_err p2sh

theorem parseScript_nil (s : Bytes) (e : Bool) (h : parseScript s e = .ok []) : s = [] := by
  cases s with
  | nil => rfl
  | cons b rest =>
    exfalso
    unfold parseScript at h
    simp only [List.length_cons, parseAux] at h
    repeat' split at h
    all_goals first
      | cases h
      | (simp only [Except.map] at h; split at h <;> cases h)

end GoBT.Interp

namespace GoBT.Interp
open GoBT GoBT.Script GoBT.Driver

theorem runP2SHE_ok (p2sh : Bool) (env : Env) (noTx : Bool) (saved : List Bytes) (s2 : St) (ev : Ev)
    (h : Reads p2sh 0 ev 6) : lifecycleOk p2sh (runP2SHE env noTx saved s2 ev).2 = true := by
  unfold runP2SHE
  cases checkErrorCondition env false s2 with
  | error e => exact stopE_ok p2sh _ ev 6 h (Or.inr (Or.inl rfl))
  | ok s' =>
    simp only
    cases saved with
    | nil => exact stopE_ok p2sh _ ev 6 h (Or.inr (Or.inl rfl))
    | cons redeem restStack =>
      simp only
      cases hp : parseScript redeem noTx with
      | error e => cases e <;> exact stopE_ok p2sh _ ev 6 h (Or.inr (Or.inl rfl))
      | ok rops =>
        simp only
        cases rops with
        | nil => exact finalE_ok p2sh env _ ev h
        | cons o r =>
          simp only
          have hr := runScriptE_reads p2sh env (o :: r) { s2 with ds := restStack } 7 (by simp) (Or.inr rfl)
          have h7 : Reads p2sh 0 (ev ++ ['S']) 7 := h.trans (reads_S p2sh)
          cases hE : runScriptE env (o :: r) { s2 with ds := restStack } with
          | mk e ev2 =>
            rw [hE] at hr
            cases e with
            | stop v =>
              obtain ⟨st', h1, h2⟩ := hr
              exact stopE_ok p2sh v _ st' (h7.trans h2) (Or.inl h1)
            | byReturn s4 => exact finalE_ok p2sh env s4 _ (h7.trans hr)
            | normal s4 => exact finalE_ok p2sh env s4 _ (h7.trans hr)

theorem runLockE_ok (p2sh : Bool) (env : Env) (p : Prepared) (noTx : Bool) (saved : List Bytes) (s1 : St) (ev : Ev)
    (st : Nat) (hst : Between st) (h : Reads p2sh 0 ev st) (hne : p.lock ≠ []) :
    lifecycleOk p2sh (runLockE env p noTx saved s1 ev).2 = true := by
  unfold runLockE
  have hr := runScriptE_reads p2sh env p.lock s1 st hne hst
  cases hE : runScriptE env p.lock s1 with
  | mk e ev2 =>
    rw [hE] at hr
    cases e with
    | stop v =>
      obtain ⟨st', h1, h2⟩ := hr
      exact stopE_ok p2sh v _ st' (h.trans h2) (Or.inl h1)
    | byReturn s2 => exact finalE_ok p2sh env s2 _ (h.trans hr)
    | normal s2 =>
      simp only
      split
      · exact runP2SHE_ok p2sh env noTx saved s2 _ (h.trans hr)
      · exact finalE_ok p2sh env s2 _ (h.trans hr)

/-- what `prepare` guarantees about emptiness: not both scripts are empty -/
theorem prepare_nonempty (H : Crypto) (flags : Nat) (ctx : Option Ctx) (unlock lock : Bytes) (p : Prepared)
    (h : prepare H flags ctx unlock lock = .inr p) (hu : p.unlock = []) : p.lock ≠ [] := by
  unfold prepare at h
  simp only at h
  split at h
  · cases h
  · next hboth =>
    split at h
    · cases h
    · split at h
      · cases h
      · split at h
        · cases h
        · cases hpu : parseScript unlock ctx.isNone with
          | error e => rw [hpu] at h; cases e <;> simp at h
          | ok uops =>
            rw [hpu] at h
            simp only at h
            cases hpl : parseScript lock ctx.isNone with
            | error e => rw [hpl] at h; cases e <;> simp at h
            | ok lops =>
              rw [hpl] at h
              simp only at h
              split at h
              · cases h
              · split at h
                · cases h
                · cases h
                  simp only at hu ⊢
                  intro hl
                  subst hu hl
                  have e1 := parseScript_nil unlock _ hpu
                  have e2 := parseScript_nil lock _ hpl
                  subst e1 e2
                  simp at hboth

/-- **The callbacks of every execution are in the documented lifecycle order.**  For every script pair, flag word and
    transaction context, the skeleton of callbacks the interpreter emits — BeforeExecute, then per step BeforeStep,
    BeforeExecuteOpcode, AfterExecuteOpcode, the script change pair at the end of a script, AfterStep, then AfterExecute
    and AfterSuccess or AfterError — is accepted by the lifecycle automaton (for either setting of its P2SH parameter,
    which only concerns stack events). -/
theorem skeleton_in_lifecycle (p2sh : Bool) (H : Crypto) (flags : Nat) (ctx : Option Ctx) (unlock lock : Bytes) :
    lifecycleOk p2sh (executeE H flags ctx unlock lock).2 = true := by
  unfold executeE
  cases hp : prepare H flags ctx unlock lock with
  | inl e => simp [lifecycleOk, lifecycleOk.go]
  | inr p =>
    simp only
    have hopen := reads_open p2sh
    cases hu : p.unlock with
    | nil =>
      exact runLockE_ok p2sh p.env p ctx.isNone [] {} ['['] 1 (Or.inl rfl) hopen
        (prepare_nonempty H flags ctx unlock lock p hp hu)
    | cons o r =>
      simp only
      have hr := runScriptE_reads p2sh p.env (o :: r) {} 1 (by simp) (Or.inl rfl)
      cases hE : runScriptE p.env (o :: r) {} with
      | mk e ev =>
        rw [hE] at hr
        cases e with
        | stop v =>
          obtain ⟨st', h1, h2⟩ := hr
          exact stopE_ok p2sh v _ st' (hopen.trans h2) (Or.inl h1)
        | byReturn s1 =>
          simp only
          cases hl : p.lock with
          | nil => exact finalE_ok p2sh p.env s1 _ (hopen.trans hr)
          | cons o2 r2 =>
            simp only
            exact runLockE_ok p2sh p.env p ctx.isNone s1.ds s1 _ 7 (Or.inr rfl)
              ((hopen.trans hr).trans (reads_S p2sh)) (by rw [hl]; simp)
        | normal s1 =>
          simp only
          cases hl : p.lock with
          | nil => exact finalE_ok p2sh p.env s1 _ (hopen.trans hr)
          | cons o2 r2 =>
            simp only
            exact runLockE_ok p2sh p.env p ctx.isNone s1.ds s1 _ 7 (Or.inr rfl)
              ((hopen.trans hr).trans (reads_S p2sh)) (by rw [hl]; simp)

end GoBT.Interp
