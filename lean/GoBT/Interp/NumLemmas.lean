/-
  Script numbers: `decodeNum ∘ encodeNum = id` on ℤ and minimality of `encodeNum` (number.go).
-/
import GoBT.Interp.Num
namespace GoBT.Interp
open GoBT

theorem leDec_append (a b : Bytes) : leDec (a ++ b) = leDec a + 256 ^ a.length * leDec b := by
  induction a with
  | nil => simp [leDec]
  | cons x xs ih =>
    simp only [List.cons_append, leDec, ih, List.length_cons, Nat.pow_succ]
    rw [Nat.mul_add, Nat.add_assoc, Nat.mul_comm (256 ^ xs.length) 256, Nat.mul_assoc]

theorem u8_toNat_ofNat_mod (n : Nat) : (UInt8.ofNat (n % 256)).toNat = n % 256 := by
  simp [UInt8.toNat_ofNat']

/-- with enough fuel `natLE` is the base-256 expansion: it decodes to `n` -/
theorem leDec_natLE (fuel n : Nat) (h : n < 256 ^ fuel) : leDec (natLE fuel n) = n := by
  induction fuel generalizing n with
  | zero => simp at h; subst h; rfl
  | succ f ih =>
    unfold natLE
    split
    · next h0 => subst h0; rfl
    · simp only [leDec, u8_toNat_ofNat_mod]
      rw [ih (n / 256) (by rw [Nat.pow_succ] at h; omega)]
      omega

/-- the expansion has no leading (most significant) zero byte: the last byte is non-zero -/
theorem natLE_last (fuel n : Nat) (h : n < 256 ^ fuel) (hn : n ≠ 0) :
    ∃ body top, natLE fuel n = body ++ [top] ∧ top ≠ 0 := by
  induction fuel generalizing n with
  | zero => simp at h; exact absurd h hn
  | succ f ih =>
    unfold natLE
    simp only [hn, ↓reduceIte]
    by_cases hq : n / 256 = 0
    · refine ⟨[], UInt8.ofNat (n % 256), ?_, ?_⟩
      · cases f with
        | zero => simp [natLE]
        | succ g => simp [natLE, hq]
      · intro e
        have := congrArg UInt8.toNat e
        rw [u8_toNat_ofNat_mod] at this
        simp at this
        omega
    · obtain ⟨body, top, hb, ht⟩ := ih (n / 256) (by rw [Nat.pow_succ] at h; omega) hq
      exact ⟨UInt8.ofNat (n % 256) :: body, top, by rw [hb]; rfl, ht⟩

theorem lt_pow_fuel (n : Nat) : n < 256 ^ (n.log2 / 8 + 2) := by
  have h1 : n < 2 ^ (n.log2 + 1) := Nat.lt_log2_self
  have h2 : (256 : Nat) ^ (n.log2 / 8 + 2) = 2 ^ (8 * (n.log2 / 8 + 2)) := by
    rw [show (256 : Nat) = 2 ^ 8 by rfl, ← Nat.pow_mul]
  rw [h2]
  exact Nat.lt_of_lt_of_le h1 (Nat.pow_le_pow_right (by omega) (by omega))

theorem magBytes_spec (n : Nat) (hn : n ≠ 0) :
    leDec (magBytes n) = n ∧ ∃ body top, magBytes n = body ++ [top] ∧ top ≠ 0 :=
  ⟨leDec_natLE _ _ (lt_pow_fuel n), natLE_last _ _ (lt_pow_fuel n) hn⟩

theorem u8_or_sign (t : UInt8) (h : t.toNat < 0x80) : (t ||| 0x80).toNat = t.toNat + 0x80 := by
  have e : (t ||| 0x80).toNat = t.toNat ||| 0x80 := by simp
  rw [e]
  have := Nat.two_pow_add_eq_or_of_lt (i := 7) (b := t.toNat) (by simpa using h) 1
  simp only [Nat.reducePow, Nat.reduceMul] at this
  rw [Nat.or_comm]
  omega

/-- **Round trip on ℤ**: decoding the minimal encoding of any integer gives the integer back. -/
theorem decodeNum_encodeNum (z : Int) : decodeNum (encodeNum z) = z := by
  unfold encodeNum
  by_cases hz : z = 0
  · simp [hz, decodeNum]
  · simp only [hz, ↓reduceIte]
    have hn : z.natAbs ≠ 0 := by omega
    obtain ⟨hdec, body, top, hm, htop⟩ := magBytes_spec z.natAbs hn
    have htn : top.toNat ≠ 0 := fun e => htop (UInt8.toNat_inj.mp (by simpa using e))
    have hlast : (magBytes z.natAbs).getLast?.getD 0 = top := by rw [hm]; simp
    rw [hlast]
    have hdb : leDec (magBytes z.natAbs) = leDec body + 256 ^ body.length * top.toNat := by
      rw [hm, leDec_append]; simp [leDec]
    by_cases hbig : top.toNat ≥ 0x80
    · simp only [hbig, ↓reduceIte]
      by_cases hneg : z < 0
      · simp only [hneg, ↓reduceIte]
        unfold decodeNum
        simp only [List.getLast?_append, List.getLast?_singleton, Option.some_or]
        have : ¬ ((0x80 : UInt8).toNat ≥ 0x80) = False := by decide
        simp only [show (0x80 : UInt8).toNat ≥ 0x80 from by decide, ↓reduceIte, leDec_append, List.length_append,
          List.length_singleton, Nat.add_sub_cancel, leDec]
        rw [hdec]
        simp
        omega
      · simp only [hneg, ↓reduceIte]
        unfold decodeNum
        simp only [List.getLast?_append, List.getLast?_singleton, Option.some_or]
        simp only [show ¬ ((0x00 : UInt8).toNat ≥ 0x80) from by decide, ↓reduceIte, leDec_append, leDec]
        rw [hdec]
        simp
        omega
    · simp only [hbig, ↓reduceIte]
      have hsmall : top.toNat < 0x80 := by omega
      by_cases hneg : z < 0
      · simp only [hneg, ↓reduceIte]
        rw [hm, List.dropLast_concat]
        unfold decodeNum
        simp only [List.getLast?_append, List.getLast?_singleton, Option.some_or]
        have hor := u8_or_sign top hsmall
        have hge : (top ||| 0x80).toNat ≥ 0x80 := by rw [hor]; omega
        simp only [hge, ↓reduceIte, leDec_append, leDec, List.length_append, List.length_singleton, Nat.add_sub_cancel, hor]
        rw [hdb] at hdec
        have e : leDec body + 256 ^ body.length * (top.toNat + 128 + 256 * 0) - 128 * 256 ^ body.length = z.natAbs := by
          rw [← hdec]
          have : 256 ^ body.length * (top.toNat + 128 + 256 * 0) = 256 ^ body.length * top.toNat + 128 * 256 ^ body.length := by
            rw [Nat.mul_zero, Nat.add_zero, Nat.mul_add, Nat.mul_comm (256 ^ body.length) 128]
          omega
        rw [e]
        omega
      · simp only [hneg, ↓reduceIte]
        rw [hm]
        unfold decodeNum
        simp only [List.getLast?_append, List.getLast?_singleton, Option.some_or]
        simp only [hbig, ↓reduceIte]
        rw [← hm, hdec]
        omega

theorem and_7f (n : Nat) : n &&& 0x7f = n % 128 := by
  have := Nat.and_two_pow_sub_one_eq_mod n 7
  simpa using this

theorem and_80_ne_zero (n : Nat) (h1 : 128 ≤ n) (h2 : n < 256) : n &&& 0x80 ≠ 0 := by
  have e : n = 2 ^ 7 * 1 + (n - 128) := by omega
  have hor := Nat.two_pow_add_eq_or_of_lt (i := 7) (b := n - 128) (by omega) 1
  rw [← e] at hor
  rw [hor, Nat.and_comm, Nat.and_or_distrib_left]
  have : (0x80 : Nat) &&& 2 ^ 7 * 1 = 128 := by decide
  rw [this]
  have := @Nat.left_le_or 128 (128 &&& (n - 128))
  omega

/-- **Minimality**: the encoding of every integer passes the minimal-encoding check. -/
theorem isMinimalNum_encodeNum (z : Int) : isMinimalNum (encodeNum z) = true := by
  unfold encodeNum
  by_cases hz : z = 0
  · simp [hz, isMinimalNum]
  · simp only [hz, ↓reduceIte]
    have hn : z.natAbs ≠ 0 := by omega
    obtain ⟨_, body, top, hm, htop⟩ := magBytes_spec z.natAbs hn
    have htn : top.toNat ≠ 0 := fun e => htop (UInt8.toNat_inj.mp (by simpa using e))
    have hlt : top.toNat < 256 := UInt8.toNat_lt top
    have hlast : (magBytes z.natAbs).getLast?.getD 0 = top := by rw [hm]; simp
    rw [hlast]
    by_cases hbig : top.toNat ≥ 0x80
    · simp only [hbig, ↓reduceIte]
      rw [hm]
      have hprev := and_80_ne_zero top.toNat hbig hlt
      have hsgn : ((if z < 0 then (0x80 : UInt8) else 0x00).toNat &&& 0x7f == 0) = true := by
        split <;> decide
      unfold isMinimalNum
      simp only [List.reverse_append, List.reverse_cons, List.reverse_nil, List.nil_append, List.cons_append, hsgn,
        ↓reduceIte]
      simpa using hprev
    · simp only [hbig, ↓reduceIte]
      have hsmall : top.toNat < 0x80 := by omega
      by_cases hneg : z < 0
      · simp only [hneg, ↓reduceIte]
        rw [hm, List.dropLast_concat]
        have hor := u8_or_sign top hsmall
        have h7 : ((top ||| 0x80).toNat &&& 0x7f == 0) = false := by
          rw [hor, and_7f]; simp; omega
        unfold isMinimalNum
        simp only [List.reverse_append, List.reverse_cons, List.reverse_nil, List.nil_append, List.cons_append, h7,
          Bool.false_eq_true, ↓reduceIte]
      · simp only [hneg, ↓reduceIte]
        rw [hm]
        have h7 : (top.toNat &&& 0x7f == 0) = false := by
          rw [and_7f]; simp; omega
        unfold isMinimalNum
        simp only [List.reverse_append, List.reverse_cons, List.reverse_nil, List.nil_append, List.cons_append, h7,
          Bool.false_eq_true, ↓reduceIte]

/-- so `makeScriptNumber` accepts every encoding `encodeNum` produces that fits the length limit, and returns the
    number encoded — with or without the minimal-encoding requirement -/
theorem makeScriptNumber_encodeNum (z : Int) (maxLen : Nat) (req : Bool) (h : (encodeNum z).length ≤ maxLen) :
    makeScriptNumber (encodeNum z) maxLen req = .ok z := by
  unfold makeScriptNumber
  have : ¬ (encodeNum z).length > maxLen := by omega
  simp [this, isMinimalNum_encodeNum, decodeNum_encodeNum]

end GoBT.Interp
