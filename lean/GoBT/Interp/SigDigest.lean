/-
  The digest OP_CHECKSIG verifies (`sigDigest`: the checked input carrying the script code and the spent value, then
  CalcInputSignatureHash) in terms of the BSV digest specification `bip143Spec` — for FORKID hash types.
  Core Lean only (plus Props/C02 for `forkid_preimage_eq_spec` / `forkid_digest`).
-/
import GoBT.Interp.Exec
import GoBT.Props.C02
namespace GoBT.Interp
open GoBT GoBT.Sighash

/-- the inputs `sigDigest` hashes: the checked one carries the script code and the spent value -/
def digestInputs (c : Ctx) (code : Bytes) : List Input :=
  c.tx.inputs.zipIdx.map fun (i, k) =>
    if k == c.idx then { i with prevScript := some code, prevSats := c.prevOut.sats } else i

theorem digestInputs_get (c : Ctx) (code : Bytes) (i : Input) (hi : c.tx.inputs[c.idx]? = some i) :
    (digestInputs c code)[c.idx]? = some { i with prevScript := some code, prevSats := c.prevOut.sats } := by
  simp [digestInputs, List.getElem?_map, List.getElem?_zipIdx, hi]

theorem digestInputs_flatMap (c : Ctx) (code : Bytes) (f : Input → Bytes)
    (hf : ∀ (i : Input) (sc : Option Bytes) (n : Nat), f { i with prevScript := sc, prevSats := n } = f i) :
    (digestInputs c code).flatMap f = c.tx.inputs.flatMap f := by
  unfold digestInputs
  rw [List.flatMap_map]
  have : (fun a : Input × Nat => f (if (a.2 == c.idx) = true then { a.1 with prevScript := some code, prevSats := c.prevOut.sats } else a.1)) =
      fun a => f a.1 := by
    funext a
    split
    · exact hf _ _ _
    · rfl
  have h2 : (c.tx.inputs.zipIdx.flatMap fun a : Input × Nat => f a.1) = (c.tx.inputs.zipIdx.map Prod.fst).flatMap f := by
    rw [List.flatMap_map]
  simp only [this] at *
  show (c.tx.inputs.zipIdx.flatMap fun a : Input × Nat => f a.1) = _
  rw [h2, List.zipIdx_map_fst]

/-- the specification does not look at the recorded previous scripts / values of the inputs (script code and amount are
    its explicit arguments) -/
theorem bip143Spec_digestInputs (H : Hash) (c : Ctx) (code : Bytes) (ht : Nat) (sc : Bytes) (amt : Nat) (i : Input)
    (hi : c.tx.inputs[c.idx]? = some i) :
    bip143Spec H { c.tx with inputs := digestInputs c code } c.idx ht sc amt = bip143Spec H c.tx c.idx ht sc amt := by
  unfold bip143Spec
  simp only [digestInputs_get c code i hi, hi, Option.getD_some]
  rw [digestInputs_flatMap c code outpoint (by intro i sc n; rfl),
      digestInputs_flatMap c code (fun i => leEnc 4 i.sequence) (by intro i sc n; rfl)]

/-- **`sigDigest` is the double hash of the specification's preimage** (FORKID types): with the transaction, input
    index and spent value of the context and the given script code. -/
theorem sigDigest_forkid (env : Env) (c : Ctx) (code : Bytes) (shf : Nat) (i : Input)
    (hH : ∀ b, (env.H.sha256 (env.H.sha256 b)).length = 32)
    (hi : c.tx.inputs[c.idx]? = some i) (ht : i.prevTxID.length ≠ 0) (hf : shf &&& Sighash.fForkID = Sighash.fForkID) :
    sigDigest env c code shf =
      some (env.H.sha256 (env.H.sha256 (bip143Spec (fun b => env.H.sha256 (env.H.sha256 b)) c.tx c.idx shf code c.prevOut.sats))) := by
  unfold sigDigest
  simp only
  have hpre := C02.forkid_preimage_eq_spec (fun b => env.H.sha256 (env.H.sha256 b))
    { c.tx with inputs := digestInputs c code } c.idx shf _ code (digestInputs_get c code i hi) ht rfl
  have hd := C02.forkid_digest (fun b => env.H.sha256 (env.H.sha256 b)) hH _ c.idx shf hf _ hpre
  have : (c.tx.inputs.zipIdx.map fun x : Input × Nat =>
      if (x.2 == c.idx) = true then { x.1 with prevScript := some code, prevSats := c.prevOut.sats } else x.1) =
      digestInputs c code := rfl
  simp only [this] at *
  rw [hd]
  simp only
  rw [bip143Spec_digestInputs _ c code shf code c.prevOut.sats i hi]

end GoBT.Interp
