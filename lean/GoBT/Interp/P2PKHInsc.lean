/-
  C04 / C20 — spending a P2PKH *inscription* output: the P2PKH template followed by an unexecuted envelope
  `OP_0 OP_IF … OP_ENDIF` (Tx.Inscribe: "ord", OP_1, content type, OP_0, data — any pushes, of any size the era allows).
  Core Lean only (plus the parser round trip of Props/C13).
-/
import GoBT.Interp.P2PKH
import GoBT.Props.C13
import GoBT.Script.ParseUnparse
import GoBT.Ord.Model
namespace GoBT.Interp.P2PKH
open GoBT GoBT.Interp GoBT.Script

/-- an opcode that is merely skipped inside a false branch: not a conditional, not a disabled opcode, and its data
    within the element-size limit (the three things `executeOpcode` looks at before it skips) -/
def Skippable (env : Env) (o : POp) : Prop :=
  isConditionalOp o.op = false ∧ isDisabledOp o.op = false ∧ o.data.length ≤ env.cfg.maxElem

/-- `OP_0 OP_IF <mid> OP_ENDIF` -/
def envelope (mid : List POp) : List POp := [⟨0x00, [], 1⟩, ⟨0x63, [], 1⟩] ++ mid ++ [⟨0x68, [], 1⟩]

/-- a state inside the false branch of the envelope -/
def InFalse (s : St) : Prop := s.cond = [condFalse] ∧ s.early = false

theorem exec_skipped (env : Env) (cur : List POp) (off : Nat) (o : POp) (s : St) (hk : Skippable env o) (hs : InFalse s)
    (hops : (bump o s).numOps ≤ env.cfg.maxOps) : executeOpcode env cur off o s = .ok (bump o s) := by
  obtain ⟨hc, hd, hl⟩ := hk
  obtain ⟨hcond, he⟩ := hs
  unfold executeOpcode
  have h1 : ¬ o.data.length > env.cfg.maxElem := by omega
  have hill : alwaysIllegalOp o.op = false := by
    unfold alwaysIllegalOp; unfold isConditionalOp at hc
    simp only [Bool.or_eq_false_iff] at hc ⊢
    exact ⟨hc.1.2, hc.2⟩
  have hbc : (bump o s).cond = [condFalse] := by
    unfold bump; split <;> simp [hcond]
  have hbr : isBranchExecuting (bump o s) = false := by
    unfold isBranchExecuting
    rw [hbc]
    decide
  have hno : ¬ ((bump o s).numOps > env.cfg.maxOps) := by omega
  simp only [h1, ↓reduceIte, hd, Bool.false_and, Bool.false_eq_true, hill, hbr, Bool.not_false, hc, Bool.true_and,
    Bool.and_true, decide_eq_true_eq, hno, and_false, Bool.not_true]
  simp

/-- the bump of a whole list of skipped opcodes -/
def bumps (ops : List POp) (s : St) : St := ops.foldl (fun s o => bump o s) s

theorem bump_keeps (o : POp) (s : St) : (bump o s).ds = s.ds ∧ (bump o s).as = s.as ∧ (bump o s).cond = s.cond ∧
    (bump o s).early = s.early ∧ s.numOps ≤ (bump o s).numOps ∧ (bump o s).numOps ≤ s.numOps + 1 ∧
    (bump o s).els = s.els ∧ (bump o s).lastCodeSep = s.lastCodeSep ∧ (bump o s).sepSeen = s.sepSeen := by
  unfold bump; split <;> simp

theorem bumps_keeps (ops : List POp) (s : St) : (bumps ops s).ds = s.ds ∧ (bumps ops s).as = s.as ∧
    (bumps ops s).cond = s.cond ∧ (bumps ops s).early = s.early ∧ (bumps ops s).numOps ≤ s.numOps + ops.length ∧
    s.numOps ≤ (bumps ops s).numOps ∧ (bumps ops s).els = s.els := by
  induction ops generalizing s with
  | nil => simp [bumps]
  | cons o rest ih =>
    have hb := bump_keeps o s
    have hr := ih (bump o s)
    simp only [bumps, List.foldl_cons, List.length_cons] at hr ⊢
    refine ⟨by rw [hr.1, hb.1], by rw [hr.2.1, hb.2.1], by rw [hr.2.2.1, hb.2.2.1], by rw [hr.2.2.2.1, hb.2.2.2.1],
      by omega, by omega, by rw [hr.2.2.2.2.2.2, hb.2.2.2.2.2.2.1]⟩

/-- running through the skipped middle of the envelope: the state only has its operation counter advanced -/
theorem run_skipped (env : Env) (sidx : Nat) (cur mid : List POp) (o2 : POp) (rest : List POp) (off : Nat) (s : St)
    (tr : List Snap) (hk : ∀ o ∈ mid, Skippable env o) (hs : InFalse s)
    (hops : s.numOps + mid.length ≤ env.cfg.maxOps)
    (hst : s.ds.length + s.as.length ≤ env.cfg.maxStack) :
    ∃ tr', runOps env sidx cur (mid ++ o2 :: rest) off s tr =
      runOps env sidx cur (o2 :: rest) (off + mid.length) (bumps mid s) tr' := by
  induction mid generalizing off s tr with
  | nil => exact ⟨tr, by simp [bumps]⟩
  | cons o more ih =>
    have hb := bump_keeps o s
    have hex := exec_skipped env cur off o s (hk o (List.mem_cons_self)) hs (by simp only [List.length_cons] at hops; omega)
    have hs' : InFalse (bump o s) := ⟨by rw [hb.2.2.1]; exact hs.1, by rw [hb.2.2.2.1]; exact hs.2⟩
    obtain ⟨tr', h'⟩ := ih (off + 1) (bump o s) (⟨sidx, ((off + 1 : Nat) : Int), bump o s⟩ :: tr)
      (fun x hx => hk x (List.mem_cons_of_mem _ hx)) hs'
      (by simp only [List.length_cons] at hops; omega) (by rw [hb.1, hb.2.1]; exact hst)
    refine ⟨tr', ?_⟩
    have hcons : (o :: more) ++ o2 :: rest = o :: (more ++ o2 :: rest) := rfl
    rw [hcons]
    cases hm : more ++ o2 :: rest with
    | nil => simp at hm
    | cons x xs =>
      rw [runOps_cons_ok env sidx cur o x xs off s (bump o s) tr hex (by rw [hb.1, hb.2.1]; exact hst)]
      rw [← hm, h']
      simp only [bumps, List.foldl_cons, List.length_cons]
      congr 1
      omega

/-- OP_ENDIF closing the (untaken) branch -/
theorem exec_endif (env : Env) (cur : List POp) (off : Nat) (s : St) (hc : s.cond = [condFalse]) (hel : s.els = [false])
    (he : s.early = false) (hops : s.numOps + 1 ≤ env.cfg.maxOps) :
    ∃ s', executeOpcode env cur off ⟨0x68, [], 1⟩ s = .ok s' ∧ s'.ds = s.ds ∧ s'.as = s.as ∧ s'.cond = [] := by
  have hno : ¬ (s.numOps + 1 > env.cfg.maxOps) := by omega
  unfold executeOpcode
  simp only [List.length_nil, shouldExec, isDisabledOp, alwaysIllegalOp, bump, isConditionalOp, opLength]
  simp [hno, hc, hel, he, handler, handlerFlow, opPUSHDATA1, opPUSHDATA2, opPUSHDATA4, condFalse]
  split <;> simp

/-- the whole inscription locking script, started on `<pk> <sig>`: the P2PKH part leaves `true`, the envelope is stepped
    over, and the script ends with `true` alone on the stack and no open conditional -/
theorem run_insc_lock (env : Env) (fullSig pk h : Bytes) (mid : List POp) (hc : CfgOk env.cfg) (c : Ctx) (code digest : Bytes)
    (hh : h.length = 20) (hkey : env.H.ripemd160 (env.H.sha256 pk) = h)
    (hlen : 1 ≤ fullSig.length)
    (hht : checkHashTypeEncoding env (fullSig.getLast?.getD 0).toNat = none)
    (hse : checkSignatureEncoding env fullSig.dropLast = none)
    (hpe : checkPubKeyEncoding env pk = none)
    (hcode : unparse (sigScriptCode env (lockOps h ++ envelope mid) fullSig) = .ok code)
    (hctx : env.ctx = some c)
    (hdig : sigDigest env c code (fullSig.getLast?.getD 0).toNat = some digest)
    (hpk : env.H.pubKeyOk pk = true)
    (hver : env.H.verify (hasFlag env.flags fStrictEnc || hasFlag env.flags fDERSig) fullSig.dropLast digest pk = some true)
    (hmid : ∀ o ∈ mid, Skippable env o) (hops : 6 + mid.length ≤ env.cfg.maxOps)
    (tr : List Snap) :
    ∃ s', (runOps env 1 (lockOps h ++ envelope mid) (lockOps h ++ envelope mid) 0 { ds := [pk, fullSig] } tr).1 = .finished s' ∧
      s'.ds = [fromBool true] ∧ s'.cond = [] := by
  have hel := hc.elem
  have hst := hc.stack
  let L := lockOps h ++ envelope mid
  have e1 : executeOpcode env L 0 ⟨0x76, [], 1⟩ { ds := [pk, fullSig] } = .ok { ds := [pk, pk, fullSig], numOps := 1 } := by
    rw [exec_plain env L 0 0x76 _ (Or.inl rfl) ⟨rfl, rfl⟩ (by simp only; omega)]
    exact handler_dup env L 0 _ pk [fullSig] rfl
  have e2 : executeOpcode env L 1 ⟨0xa9, [], 1⟩ { ds := [pk, pk, fullSig], numOps := 1 } =
      .ok { ds := [h, pk, fullSig], numOps := 2 } := by
    rw [exec_plain env L 1 0xa9 _ (Or.inr (Or.inl rfl)) ⟨rfl, rfl⟩ (by simp only; omega)]
    rw [handler_hash160 env L 1 _ pk [pk, fullSig] rfl, hkey]
  have e3 : executeOpcode env L 2 (pushOp h) { ds := [h, pk, fullSig], numOps := 2 } =
      .ok { ds := [h, h, pk, fullSig], numOps := 2 } :=
    exec_push env L 2 h _ (by omega) (by omega) ⟨rfl, rfl⟩
  have e4 : executeOpcode env L 3 ⟨0x88, [], 1⟩ { ds := [h, h, pk, fullSig], numOps := 2 } =
      .ok { ds := [pk, fullSig], numOps := 3 } := by
    rw [exec_plain env L 3 0x88 _ (Or.inr (Or.inr (Or.inl rfl))) ⟨rfl, rfl⟩ (by simp only; omega)]
    exact handler_equalverify env L 3 _ h [pk, fullSig] rfl
  have e5 : executeOpcode env L 4 ⟨0xac, [], 1⟩ { ds := [pk, fullSig], numOps := 3 } =
      .ok { ds := [fromBool true], numOps := 4 } := by
    rw [exec_plain env L 4 0xac _ (Or.inr (Or.inr (Or.inr rfl))) ⟨rfl, rfl⟩ (by simp only; omega)]
    exact handler_checksig env L 4 _ pk fullSig [] c code digest rfl ⟨rfl, rfl⟩ hlen hht hse hpe hcode hctx hdig hpk hver
  -- OP_0
  have e6 : executeOpcode env L 5 ⟨0x00, [], 1⟩ { ds := [fromBool true], numOps := 4 } =
      .ok { ds := [[], fromBool true], numOps := 4 } := by
    unfold executeOpcode
    simp [shouldExec, isDisabledOp, alwaysIllegalOp, bump, isBranchExecuting, isConditionalOp, opLength,
      enforceMinimumDataPush, handler, opPUSHDATA1, opPUSHDATA2, opPUSHDATA4]
  -- OP_IF on the empty item: the branch is not taken
  have e7 : executeOpcode env L 6 ⟨0x63, [], 1⟩ { ds := [[], fromBool true], numOps := 4 } =
      .ok { ds := [fromBool true], numOps := 5, cond := [condFalse], els := [false] } := by
    have hno : ¬ (4 + 1 > env.cfg.maxOps) := by omega
    unfold executeOpcode
    simp [shouldExec, isDisabledOp, alwaysIllegalOp, bump, isBranchExecuting, isConditionalOp, opLength, hno,
      handler, handlerFlow, popIfBool, asBool, opPUSHDATA1, opPUSHDATA2, opPUSHDATA4]
  obtain ⟨s7, hs7⟩ : ∃ s : St, s = { ds := [fromBool true], numOps := 5, cond := [condFalse], els := [false] } := ⟨_, rfl⟩
  rw [← hs7] at e7
  have f7 : s7.ds = [fromBool true] ∧ s7.as = [] ∧ s7.cond = [condFalse] ∧ s7.els = [false] ∧ s7.early = false ∧
      s7.numOps = 5 := by subst hs7; exact ⟨rfl, rfl, rfl, rfl, rfl, rfl⟩
  have hk7 := bumps_keeps mid s7
  -- OP_ENDIF closes it
  have e8 : ∃ s', executeOpcode env L (7 + mid.length) ⟨0x68, [], 1⟩ (bumps mid s7) = .ok s' ∧
      s'.ds = [fromBool true] ∧ s'.as = [] ∧ s'.cond = [] := by
    obtain ⟨s', h1, h2, h3, h4⟩ := exec_endif env L (7 + mid.length) (bumps mid s7) (by rw [hk7.2.2.1, f7.2.2.1])
      (by rw [hk7.2.2.2.2.2.2, f7.2.2.2.1]) (by rw [hk7.2.2.2.1, f7.2.2.2.2.1])
      (by have := hk7.2.2.2.2.1; rw [f7.2.2.2.2.2] at this; omega)
    exact ⟨s', h1, by rw [h2, hk7.1, f7.1], by rw [h3, hk7.2.1, f7.2.1], h4⟩
  obtain ⟨s8, e8, hds8, has8, hc8⟩ := e8
  show ∃ s', (runOps env 1 L ([⟨0x76, [], 1⟩, ⟨0xa9, [], 1⟩, pushOp h, ⟨0x88, [], 1⟩, ⟨0xac, [], 1⟩] ++ envelope mid) 0 _ tr).1 = _ ∧ _
  simp only [envelope, List.cons_append, List.nil_append, List.append_assoc]
  rw [runOps_cons_ok env 1 L _ _ _ 0 _ _ tr e1 (by simp only [List.length_cons, List.length_nil]; omega)]
  rw [runOps_cons_ok env 1 L _ _ _ 1 _ _ _ e2 (by simp only [List.length_cons, List.length_nil]; omega)]
  rw [runOps_cons_ok env 1 L _ _ _ 2 _ _ _ e3 (by simp only [List.length_cons, List.length_nil]; omega)]
  rw [runOps_cons_ok env 1 L _ _ _ 3 _ _ _ e4 (by simp only [List.length_cons, List.length_nil]; omega)]
  rw [runOps_cons_ok env 1 L _ _ _ 4 _ _ _ e5 (by simp only [List.length_cons, List.length_nil]; omega)]
  rw [runOps_cons_ok env 1 L _ _ _ 5 _ _ _ e6 (by simp only [List.length_cons, List.length_nil]; omega)]
  cases hm : mid ++ [(⟨0x68, [], 1⟩ : POp)] with
  | nil => simp at hm
  | cons x xs =>
    rw [runOps_cons_ok env 1 L _ x xs 6 _ _ _ e7 (by rw [f7.1, f7.2.1]; simp only [List.length_cons, List.length_nil]; omega)]
    rw [← hm]
    obtain ⟨tr', hrun⟩ := run_skipped env 1 L mid ⟨0x68, [], 1⟩ [] 7 s7 _ hmid ⟨f7.2.2.1, f7.2.2.2.2.1⟩
      (by rw [f7.2.2.2.2.2]; omega) (by rw [f7.1, f7.2.1]; simp only [List.length_cons, List.length_nil]; omega)
    rw [hrun]
    rw [runOps_last_ok env 1 L _ (7 + mid.length) _ s8 _ e8 (by rw [hds8, has8]; simp only [List.length_cons, List.length_nil]; omega)]
    exact ⟨s8, rfl, hds8, hc8⟩

/-- thread.apply for `<sig> <pk>` against any locking script that parses, fits the size limit and is not P2SH-shaped -/
theorem prepare_with_lock (H : Crypto) (flags : Nat) (c : Ctx) (fullSig pk lock : Bytes) (lops : List POp)
    (hflags : hasFlag (mkEnv H flags (some c)).flags fCleanStack = true → hasFlag (mkEnv H flags (some c)).flags fBip16 = true)
    (hs : 2 ≤ fullSig.length ∧ fullSig.length ≤ 75) (hp : 2 ≤ pk.length ∧ pk.length ≤ 75)
    (hparse : parseScript lock false = .ok lops) (hsize : lock.length ≤ (mkEnv H flags (some c)).cfg.maxScriptSize)
    (hnp : isP2SH lock = false) :
    prepare H flags (some c) (unlockBytes fullSig pk) lock =
      .inr { env := mkEnv H flags (some c), unlock := unlockOps fullSig pk, lock := lops,
             unlockEmpty := false, bip16 := false } := by
  have hc := mkEnv_cfgOk H flags (some c)
  have hsz := hc.script
  unfold prepare
  have hul : (unlockBytes fullSig pk).length ≤ (mkEnv H flags (some c)).cfg.maxScriptSize := by
    simp only [unlockBytes, List.length_cons, List.length_append]; omega
  have hne : (unlockBytes fullSig pk).isEmpty = false := by simp [unlockBytes]
  have hcl : (hasFlag (mkEnv H flags (some c)).flags fCleanStack && !hasFlag (mkEnv H flags (some c)).flags fBip16) = false := by
    cases hcs : hasFlag (mkEnv H flags (some c)).flags fCleanStack
    · rfl
    · simp [hflags hcs]
  simp only [hne, Bool.false_and, Bool.false_eq_true, ↓reduceIte, hcl, Nat.not_lt.mpr hul, Nat.not_lt.mpr hsize,
    gt_iff_lt, Option.isNone_some, parse_unlock fullSig pk false (by omega) (by omega), hparse,
    unlock_pushOnly fullSig pk hs.2 hp.2, hnp, Bool.not_true, Bool.and_false]

/-- **A P2PKH-inscription spend with a FORKID signature is accepted.**  The locking script is any byte string that the
    interpreter's parser reads as the P2PKH template followed by `OP_0 OP_IF <mid> OP_ENDIF`, where `mid` is any list of
    opcodes the engine merely steps over in a false branch (no conditional, no disabled opcode, data within the era's
    element size) — Tx.Inscribe's "ord" / content type / data pushes of every length are of this kind.  For every flag
    word with the FORKID flag, every context, key and FORKID signature that verifies for the input's signature hash
    with the *whole* locking script as script code, `Engine.Execute` accepts. -/
theorem inscription_spend_accepted (H : Crypto) (flags : Nat) (c : Ctx) (fullSig pk h lock digest : Bytes) (mid : List POp)
    (hflags : hasFlag (mkEnv H flags (some c)).flags fCleanStack = true → hasFlag (mkEnv H flags (some c)).flags fBip16 = true)
    (hfork : hasFlag (mkEnv H flags (some c)).flags fForkID = true)
    (hbit : (fullSig.getLast?.getD 0).toNat &&& 0x40 = 0x40)
    (hs : 2 ≤ fullSig.length ∧ fullSig.length ≤ 75) (hp : 2 ≤ pk.length ∧ pk.length ≤ 75) (hh : h.length = 20)
    (hparse : parseScript lock false = .ok (lockOps h ++ envelope mid))
    (hsize : lock.length ≤ (mkEnv H flags (some c)).cfg.maxScriptSize) (hnp : isP2SH lock = false)
    (hmid : ∀ o ∈ mid, Skippable (mkEnv H flags (some c)) o) (hops : 6 + mid.length ≤ (mkEnv H flags (some c)).cfg.maxOps)
    (hkey : H.ripemd160 (H.sha256 pk) = h)
    (hht : checkHashTypeEncoding (mkEnv H flags (some c)) (fullSig.getLast?.getD 0).toNat = none)
    (hse : checkSignatureEncoding (mkEnv H flags (some c)) fullSig.dropLast = none)
    (hpe : checkPubKeyEncoding (mkEnv H flags (some c)) pk = none)
    (hdig : sigDigest (mkEnv H flags (some c)) c lock (fullSig.getLast?.getD 0).toNat = some digest)
    (hpk : H.pubKeyOk pk = true)
    (hver : H.verify (hasFlag (mkEnv H flags (some c)).flags fStrictEnc || hasFlag (mkEnv H flags (some c)).flags fDERSig)
              fullSig.dropLast digest pk = some true) :
    (execute H flags (some c) (unlockBytes fullSig pk) lock).1 = .accept := by
  have hc := mkEnv_cfgOk H flags (some c)
  have henvH : (mkEnv H flags (some c)).H = H := by unfold mkEnv; rfl
  have hctx : (mkEnv H flags (some c)).ctx = some c := by unfold mkEnv; rfl
  have hcode : unparse (sigScriptCode (mkEnv H flags (some c)) (lockOps h ++ envelope mid) fullSig) = .ok lock := by
    unfold sigScriptCode
    simp only [hfork, hbit, Bool.not_true, bne_self_eq_false, Bool.or_self, Bool.false_eq_true, ↓reduceIte]
    exact C13.unparse_parse lock false _ hparse
  unfold execute
  rw [prepare_with_lock H flags c fullSig pk lock _ hflags hs hp hparse hsize hnp]
  simp only
  obtain ⟨tr1, h1⟩ := runScript_normal (mkEnv H flags (some c)) 0 (unlockOps fullSig pk) {} _ []
    (run_unlock (mkEnv H flags (some c)) fullSig pk hc hs hp []) rfl
  have hu : unlockOps fullSig pk = pushOp fullSig :: [pushOp pk] := rfl
  rw [hu] at h1 ⊢
  simp only
  rw [h1]
  simp only
  have hl : lockOps h ++ envelope mid =
      ⟨0x76, [], 1⟩ :: ([⟨0xa9, [], 1⟩, pushOp h, ⟨0x88, [], 1⟩, ⟨0xac, [], 1⟩] ++ envelope mid) := rfl
  rw [hl]
  simp only
  rw [← hl]
  unfold runLock
  simp only
  obtain ⟨s', hrun, hds, hcond⟩ := run_insc_lock (mkEnv H flags (some c)) fullSig pk h mid hc c lock digest hh
    (by rw [henvH]; exact hkey) (by omega) hht hse hpe hcode hctx hdig (by rw [henvH]; exact hpk)
    (by rw [henvH]; exact hver) hmid hops
    (clampSnap [(pushOp fullSig :: [pushOp pk]).length, (lockOps h ++ envelope mid).length] 1 { ds := [pk, fullSig] } :: tr1)
  obtain ⟨tr2, h2⟩ := runScript_normal (mkEnv H flags (some c)) 1 (lockOps h ++ envelope mid) { ds := [pk, fullSig] } s' _
    hrun hcond
  rw [h2]
  simp [finalCheck, checkErrorCondition, hds, fromBool, asBool]

/-! ### the script Tx.Inscribe builds -/

/-- the parsed form of `AppendPushData d`: OP_0 for the empty string, else the shortest push form -/
def pushOpG (d : Bytes) : POp :=
  if d.length = 0 then ⟨0x00, [], 1⟩
  else if d.length ≤ 75 then ⟨UInt8.ofNat d.length, d, d.length + 1⟩
  else if d.length ≤ 0xFF then ⟨opPUSHDATA1, d, -1⟩
  else if d.length ≤ 0xFFFF then ⟨opPUSHDATA2, d, -2⟩
  else ⟨opPUSHDATA4, d, -4⟩

theorem pushOpG_facts (d : Bytes) (hd : d.length < 2 ^ 32) :
    (pushOpG d).WF ∧ (pushOpG d).op ≠ opRETURN ∧ requiresTx (pushOpG d).op = false ∧
    isConditionalOp (pushOpG d).op = false ∧ isDisabledOp (pushOpG d).op = false ∧ (pushOpG d).data.length ≤ d.length ∧
    ∃ pre, pushPrefix d.length = some pre ∧ (pushOpG d).bytes = .ok (pre ++ d) := by
  unfold pushOpG
  by_cases h0 : d.length = 0
  · have : d = [] := List.length_eq_zero_iff.mp h0
    subst this
    simp only [List.length_nil, ↓reduceIte]
    refine ⟨by unfold POp.WF; simp [opPUSHDATA1, opPUSHDATA2, opPUSHDATA4], by decide, by decide, by decide, by decide, by simp, ?_⟩
    exact ⟨[0x00], by simp [pushPrefix], by simp [POp.bytes]⟩
  · simp only [h0, ↓reduceIte]
    by_cases h1 : d.length ≤ 75
    · simp only [h1, ↓reduceIte]
      have hn : (UInt8.ofNat d.length).toNat = d.length := ofNat_toNat_small (by omega)
      have hne : ∀ k : UInt8, 75 < k.toNat → UInt8.ofNat d.length ≠ k := by
        intro k hk he; rw [he] at hn; omega
      refine ⟨?_, hne _ (by decide), ?_, ?_, ?_, by simp, ?_⟩
      · unfold POp.WF
        have : 1 ≤ d.length := by omega
        simp [hn, this, h1]
      · unfold requiresTx
        simp [hne 0xac (by decide), hne 0xad (by decide), hne 0xae (by decide), hne 0xaf (by decide), hne 0xb2 (by decide)]
      · unfold isConditionalOp
        simp [hne 0x63 (by decide), hne 0x64 (by decide), hne 0x67 (by decide), hne 0x68 (by decide),
          hne 0x65 (by decide), hne 0x66 (by decide)]
      · unfold isDisabledOp
        simp [hne 0x8d (by decide), hne 0x8e (by decide)]
      · refine ⟨[UInt8.ofNat d.length], by simp [pushPrefix, h1], ?_⟩
        unfold POp.bytes
        have a1 : ¬ ((d.length : Int) + 1 = 1) := by omega
        have a2 : (d.length : Int) + 1 > 1 := by omega
        have a3 : ¬ (1 + d.length ≠ ((d.length : Int) + 1).toNat) := by omega
        simp only [a1, ↓reduceIte, a2, a3]
        rfl
    · simp only [h1, ↓reduceIte]
      by_cases h2 : d.length ≤ 0xFF
      · simp only [h2, ↓reduceIte]
        refine ⟨by unfold POp.WF; simp [opPUSHDATA1]; omega, by decide, by decide, by decide, by decide, by simp, ?_⟩
        refine ⟨[opPUSHDATA1, UInt8.ofNat d.length], by simp [pushPrefix, h1, h2], ?_⟩
        have hrt : leDec (leEnc 1 d.length) = d.length := leDec_leEnc_of_lt (by simp; omega)
        unfold POp.bytes
        simp only [show ¬ ((-1 : Int) = 1) by decide, ↓reduceIte, show ¬ ((-1 : Int) > 1) by decide,
          show (-(-1 : Int)).toNat = 1 by rfl, hrt, ne_eq, not_true_eq_false]
        have : d.length % 256 = d.length := Nat.mod_eq_of_lt (by omega)
        simp [leEnc, this]
      · simp only [h2, ↓reduceIte]
        by_cases h3 : d.length ≤ 0xFFFF
        · simp only [h3, ↓reduceIte]
          refine ⟨by unfold POp.WF; simp [opPUSHDATA1, opPUSHDATA2]; omega, by decide, by decide, by decide, by decide, by simp, ?_⟩
          refine ⟨opPUSHDATA2 :: leEnc 2 d.length, by simp [pushPrefix, h1, h2, h3], ?_⟩
          have hrt : leDec (leEnc 2 d.length) = d.length := leDec_leEnc_of_lt (by simp; omega)
          unfold POp.bytes
          simp only [show ¬ ((-2 : Int) = 1) by decide, ↓reduceIte, show ¬ ((-2 : Int) > 1) by decide,
            show (-(-2 : Int)).toNat = 2 by rfl, hrt, ne_eq, not_true_eq_false]
        · simp only [h3, ↓reduceIte]
          refine ⟨by unfold POp.WF; simp [opPUSHDATA1, opPUSHDATA2, opPUSHDATA4]; omega, by decide, by decide, by decide,
            by decide, by simp, ?_⟩
          have h4 : d.length ≤ 0xFFFFFFFF := by omega
          refine ⟨opPUSHDATA4 :: leEnc 4 d.length, by simp [pushPrefix, h1, h2, h3, h4], ?_⟩
          have hrt : leDec (leEnc 4 d.length) = d.length := leDec_leEnc_of_lt (by simp; omega)
          unfold POp.bytes
          simp only [show ¬ ((-4 : Int) = 1) by decide, ↓reduceIte, show ¬ ((-4 : Int) > 1) by decide,
            show (-(-4 : Int)).toNat = 4 by rfl, hrt, ne_eq, not_true_eq_false]

/-- the envelope Tx.Inscribe writes: "ord", OP_1, content type, OP_0, data -/
def inscMid (ct data : Bytes) : List POp :=
  [pushOpG [0x6f, 0x72, 0x64], ⟨0x51, [], 1⟩, pushOpG ct, ⟨0x00, [], 1⟩, pushOpG data]

theorem plain_wf (b : UInt8) (hb : b = 0x51 ∨ b = 0x00 ∨ b = 0x63 ∨ b = 0x68 ∨ b = 0x76 ∨ b = 0xa9 ∨ b = 0x88 ∨ b = 0xac) :
    (⟨b, [], 1⟩ : POp).WF ∧ (⟨b, [], 1⟩ : POp).op ≠ opRETURN ∧ (⟨b, [], 1⟩ : POp).bytes = .ok [b] := by
  rcases hb with rfl | rfl | rfl | rfl | rfl | rfl | rfl | rfl <;>
    exact ⟨by unfold POp.WF; simp [opPUSHDATA1, opPUSHDATA2, opPUSHDATA4], by decide, by simp [POp.bytes]⟩

/-- **Tx.Inscribe's locking script parses as the P2PKH template followed by the envelope** — for every content type and
    payload the library can push (each below 2^32 bytes). -/
theorem inscription_parses (h ct data lock : Bytes) (hh : h.length = 20)
    (hl : Ord.inscriptionScript (lockBytes h) ct data = some lock) :
    parseScript lock false = .ok (lockOps h ++ envelope (inscMid ct data)) := by
  -- the three pushes succeeded, so the lengths are below 2^32
  unfold Ord.inscriptionScript Ord.pushData at hl
  simp only [bind, Option.bind, pure] at hl
  simp only [List.length_cons, List.length_nil, Nat.zero_add, Nat.reduceAdd] at hl
  cases ho : pushPrefix 3 with
  | none => simp [ho] at hl
  | some po =>
    cases hc : pushPrefix ct.length with
    | none => simp [ho, hc] at hl
    | some pc =>
      cases hd : pushPrefix data.length with
      | none => simp [ho, hc, hd] at hl
      | some pd =>
        simp only [ho, hc, hd, Option.map_some, Option.some.injEq] at hl
        have lim : ∀ n pre, pushPrefix n = some pre → n < 2 ^ 32 := by
          intro n pre hp
          unfold pushPrefix at hp
          by_cases a1 : n ≤ 75
          · omega
          · by_cases a2 : n ≤ 0xFF
            · omega
            · by_cases a3 : n ≤ 0xFFFF
              · omega
              · by_cases a4 : n ≤ 0xFFFFFFFF
                · omega
                · simp [a1, a2, a3, a4] at hp
        obtain ⟨wo, ro, _, _, _, _, po', hpo', bo⟩ := pushOpG_facts [0x6f, 0x72, 0x64] (by decide)
        obtain ⟨wc, rc, _, _, _, _, pc', hpc', bc⟩ := pushOpG_facts ct (lim _ _ hc)
        obtain ⟨wd, rd, _, _, _, _, pd', hpd', bd⟩ := pushOpG_facts data (lim _ _ hd)
        rw [show ([0x6f, 0x72, 0x64] : Bytes).length = 3 from rfl, ho] at hpo'; rw [hc] at hpc'; rw [hd] at hpd'
        cases hpo'; cases hpc'; cases hpd'
        have wph : (pushOp h).WF ∧ (pushOp h).op ≠ opRETURN ∧ (pushOp h).bytes = .ok (UInt8.ofNat h.length :: h) := by
          have hn : (UInt8.ofNat h.length).toNat = h.length := ofNat_toNat_small (by omega)
          refine ⟨?_, ?_, ?_⟩
          · unfold POp.WF pushOp; simp [hn, hh]
          · intro he
            have := congrArg UInt8.toNat he
            simp only [pushOp] at this
            rw [hn, hh] at this
            simp [opRETURN] at this
          · unfold POp.bytes pushOp
            have a1 : ¬ ((h.length : Int) + 1 = 1) := by omega
            have a2 : (h.length : Int) + 1 > 1 := by omega
            have a3 : ¬ (1 + h.length ≠ ((h.length : Int) + 1).toNat) := by omega
            simp only [a1, ↓reduceIte, a2, a3]
        apply parseScript_unparse false
        · intro o ho'
          simp only [lockOps, envelope, inscMid, List.cons_append, List.nil_append, List.mem_cons, List.mem_nil_iff,
            or_false, List.append_assoc] at ho'
          rcases ho' with rfl | rfl | rfl | rfl | rfl | rfl | rfl | rfl | rfl | rfl | rfl | rfl | rfl
          · exact ⟨(plain_wf 0x76 (by simp)).1, by decide, by intro h; cases h⟩
          · exact ⟨(plain_wf 0xa9 (by simp)).1, by decide, by intro h; cases h⟩
          · exact ⟨wph.1, wph.2.1, by intro h; cases h⟩
          · exact ⟨(plain_wf 0x88 (by simp)).1, by decide, by intro h; cases h⟩
          · exact ⟨(plain_wf 0xac (by simp)).1, by decide, by intro h; cases h⟩
          · exact ⟨(plain_wf 0x00 (by simp)).1, by decide, by intro h; cases h⟩
          · exact ⟨(plain_wf 0x63 (by simp)).1, by decide, by intro h; cases h⟩
          · exact ⟨wo, ro, by intro h; cases h⟩
          · exact ⟨(plain_wf 0x51 (by simp)).1, by decide, by intro h; cases h⟩
          · exact ⟨wc, rc, by intro h; cases h⟩
          · exact ⟨(plain_wf 0x00 (by simp)).1, by decide, by intro h; cases h⟩
          · exact ⟨wd, rd, by intro h; cases h⟩
          · exact ⟨(plain_wf 0x68 (by simp)).1, by decide, by intro h; cases h⟩
        · have p1 : ∀ b : UInt8, (⟨b, [], 1⟩ : POp).bytes = .ok [b] := by intro b; simp [POp.bytes]
          simp only [lockOps, envelope, inscMid, List.cons_append, List.nil_append, List.append_assoc, unparse, p1, wph.2.2,
            bo, bc, bd, bind, Except.bind, pure, Except.pure]
          rw [← hl]
          simp [lockBytes]
        · rw [← hl]
          simp only [lockOps, envelope, inscMid, List.length_cons, List.length_append, List.length_nil, lockBytes, hh]
          omega

theorem inscription_length (h ct data lock : Bytes) (hh : h.length = 20)
    (hl : Ord.inscriptionScript (lockBytes h) ct data = some lock) : 25 < lock.length := by
  unfold Ord.inscriptionScript Ord.pushData at hl
  simp only [bind, Option.bind, pure] at hl
  cases ho : pushPrefix ([0x6f, 0x72, 0x64] : Bytes).length with
  | none => rw [ho] at hl; simp at hl
  | some po =>
    cases hc : pushPrefix ct.length with
    | none => rw [ho, hc] at hl; simp at hl
    | some pc =>
      cases hd : pushPrefix data.length with
      | none => rw [ho, hc, hd] at hl; simp at hl
      | some pd =>
        rw [ho, hc, hd] at hl
        simp only [Option.map_some, Option.some.injEq] at hl
        rw [← hl]
        simp only [lockBytes, List.length_append, List.length_cons, List.length_nil, hh]
        omega

/-- **Spending an output made by Tx.Inscribe on a P2PKH prefix is accepted.**  `lock` is the locking script
    `Tx.Inscribe` builds from the P2PKH template for `h`, the content type `ct` and the payload `data` — whatever their
    lengths, as long as the era's element-size and script-size limits admit them.  For every flag word with the FORKID
    flag, every context, and every key and FORKID signature that verifies for the input's signature hash with the whole
    locking script as script code, `Engine.Execute` accepts. -/
theorem inscribed_output_spend_accepted (H : Crypto) (flags : Nat) (c : Ctx) (fullSig pk h ct data lock digest : Bytes)
    (hl : Ord.inscriptionScript (lockBytes h) ct data = some lock)
    (hflags : hasFlag (mkEnv H flags (some c)).flags fCleanStack = true → hasFlag (mkEnv H flags (some c)).flags fBip16 = true)
    (hfork : hasFlag (mkEnv H flags (some c)).flags fForkID = true)
    (hbit : (fullSig.getLast?.getD 0).toNat &&& 0x40 = 0x40)
    (hs : 2 ≤ fullSig.length ∧ fullSig.length ≤ 75) (hp : 2 ≤ pk.length ∧ pk.length ≤ 75) (hh : h.length = 20)
    (hct : ct.length ≤ (mkEnv H flags (some c)).cfg.maxElem) (hdata : data.length ≤ (mkEnv H flags (some c)).cfg.maxElem)
    (hsize : lock.length ≤ (mkEnv H flags (some c)).cfg.maxScriptSize)
    (hkey : H.ripemd160 (H.sha256 pk) = h)
    (hht : checkHashTypeEncoding (mkEnv H flags (some c)) (fullSig.getLast?.getD 0).toNat = none)
    (hse : checkSignatureEncoding (mkEnv H flags (some c)) fullSig.dropLast = none)
    (hpe : checkPubKeyEncoding (mkEnv H flags (some c)) pk = none)
    (hdig : sigDigest (mkEnv H flags (some c)) c lock (fullSig.getLast?.getD 0).toNat = some digest)
    (hpk : H.pubKeyOk pk = true)
    (hver : H.verify (hasFlag (mkEnv H flags (some c)).flags fStrictEnc || hasFlag (mkEnv H flags (some c)).flags fDERSig)
              fullSig.dropLast digest pk = some true) :
    (execute H flags (some c) (unlockBytes fullSig pk) lock).1 = .accept := by
  have hcfg := mkEnv_cfgOk H flags (some c)
  have hel := hcfg.elem
  have hlen := inscription_length h ct data lock hh hl
  have hnp : isP2SH lock = false := by
    unfold isP2SH
    have : (lock.length == 23) = false := by rw [beq_eq_false_iff_ne]; omega
    simp [this]
  have lim : ∀ (d : Bytes), d.length ≤ (mkEnv H flags (some c)).cfg.maxElem → d.length < 2 ^ 32 := by
    intro d hd
    have : (mkEnv H flags (some c)).cfg.maxElem ≤ 2147483647 := by
      unfold mkEnv; simp only; split <;> split <;> decide
    omega
  have sk : ∀ (d : Bytes), d.length ≤ (mkEnv H flags (some c)).cfg.maxElem → Skippable (mkEnv H flags (some c)) (pushOpG d) := by
    intro d hd
    obtain ⟨_, _, _, h4, h5, h6, _⟩ := pushOpG_facts d (lim d hd)
    exact ⟨h4, h5, by omega⟩
  have hmid : ∀ o ∈ inscMid ct data, Skippable (mkEnv H flags (some c)) o := by
    intro o ho
    simp only [inscMid, List.mem_cons, List.mem_nil_iff, or_false] at ho
    rcases ho with rfl | rfl | rfl | rfl | rfl
    · exact sk _ (by simp only [List.length_cons, List.length_nil]; omega)
    · exact ⟨by decide, by decide, by simp⟩
    · exact sk _ hct
    · exact ⟨by decide, by decide, by simp⟩
    · exact sk _ hdata
  exact inscription_spend_accepted H flags c fullSig pk h lock digest (inscMid ct data) hflags hfork hbit hs hp hh
    (inscription_parses h ct data lock hh hl) hsize hnp hmid
    (by have := hcfg.ops; simp only [inscMid, List.length_cons, List.length_nil]; omega)
    hkey hht hse hpe hdig hpk hver

end GoBT.Interp.P2PKH
